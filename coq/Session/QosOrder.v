(* C12 (and the ghost facts C11 liveness uses): whole-history reasoning about WHICH messages have been
   transmitted.  The ghost set T (uids of all PUBLISH packets written so far) is threaded through the run;
   two invariants hold for every history and every oracle, whatever else goes wrong with the accounting:
     I1  while the client is connected, every stored outbound PUBLISH that has never been transmitted carries
         the held-back mark;
     I2  while such a held-back, never-transmitted message exists, the send quota is 0 (and a maximum is in force).
   From them: first transmissions happen in publish order for any two messages whose uint16(Created) stamps
   increase strictly. *)
From MV Require Import Base.Val Session.Pkt Session.Inflight Session.InflightProofs Session.QosProofs.
From Coq Require Import Lia ZifyBool ZifyN ZifyNat.
Open Scope N_scope.

(* ---------- what a list of outputs transmits ---------- *)
Definition tx_of (o : out) : list N :=
  match o with OPkt t _ _ _ u _ => if t =? T_PUBLISH then [u] else [] | _ => [] end.
Definition txs (outs : list out) : list N := flat_map tx_of outs.

Lemma txs_app a b : txs (a ++ b) = txs a ++ txs b.
Proof. unfold txs. apply flat_map_app. Qed.

Lemma txs_pkt_of_rec d p r : txs [pkt_of_rec d p r] = if r_ty r =? T_PUBLISH then [r_uid r] else [].
Proof.
  unfold pkt_of_rec. destruct (r_ty r =? T_PUBLISH) eqn:E; cbn; [reflexivity|]. rewrite E. reflexivity.
Qed.

(* ---------- packet handlers = something that does not transmit, then the post-packet block ---------- *)
Definition sub_pub (m0 m : imap) : Prop :=
  forall k r, get k m0 = Some r -> r_ty r = T_PUBLISH -> get k m = Some r.

Record pre_def (c : cfg) (s s0 : st) : Prop := {
  pd_imm : immok c (s_infl s0);
  pd_sub : sub_pub (s_infl s0) (s_infl s);
  pd_conn : s_conn s0 = true -> s_conn s = true;
  pd_sq : (0 <= s_sendq s0 <= s_sendq s + 1)%Z;
  pd_max : s_maxsend s0 = s_maxsend s }.

Lemma sub_pub_refl m : sub_pub m m.
Proof. intros k r G _. exact G. Qed.

Lemma sub_pub_del k m : sub_pub (del k m) m.
Proof. intros k0 r G _. apply get_del_some in G. tauto. Qed.

Lemma sub_pub_trans a b d : sub_pub a b -> sub_pub b d -> sub_pub a d.
Proof. intros H1 H2 k r G T. apply H2; [apply H1; assumption|exact T]. Qed.

Lemma sub_pub_set_ack k ty uid c now m : ty <> T_PUBLISH -> sub_pub (set k (ack_rec ty uid c now) m) m.
Proof.
  intros Ty k0 r G T. destruct (N.eq_dec k0 k) as [->|Ne].
  - rewrite get_set_same in G. inversion G; subst. cbn in T. contradiction.
  - rewrite get_set_other in G by exact Ne. exact G.
Qed.

Lemma pre_def_self c s : wf c s -> pre_def c s s.
Proof.
  intros W. constructor; [apply immok_wf; exact W|apply sub_pub_refl|tauto| |reflexivity].
  pose proof (wf_sq c s W). lia.
Qed.

(* shape of a handler's result *)
Definition handled (c : cfg) (s : st) (orc : list N) (res : st * list out) : Prop :=
  exists s0 pre, pre_def c s s0 /\ txs pre = [] /\
    res = (fst (deferred s0 orc), pre ++ snd (deferred s0 orc)).

Lemma handled_intro c s orc s0 pre :
  pre_def c s s0 -> txs pre = [] ->
  handled c s orc (let '(s', o) := deferred s0 orc in (s', pre ++ o)).
Proof. intros P X. exists s0, pre. split; [exact P|]. split; [exact X|]. destruct (deferred s0 orc); reflexivity. Qed.

Ltac ack_ne := unfold T_PUBLISH, T_PUBACK, T_PUBREC, T_PUBREL, T_PUBCOMP; lia.

Lemma in_publish_handled c s qos pid uid now orc :
  cfg_ok c -> (0 <= now)%Z -> wf c s ->
  in_publish c s qos pid uid now orc = (teardown s, [OPkt T_DISCONNECT 0 false 0 0 (wire_rc s 147)]) \/
  handled c s orc (in_publish c s qos pid uid now orc).
Proof.
  intros [_ C] Nw W. pose proof (immok_wf c s W) as I. pose proof (wf_sq c s W) as Q. unfold in_publish.
  destruct (s_recvq s =? 0)%Z; [left; reflexivity|]. right.
  destruct (match get pid (s_infl s) with Some r => r_ty r =? T_PUBREC | None => false end).
  { apply (handled_intro c s orc s [_]); [apply pre_def_self; exact W|reflexivity]. }
  destruct (qos =? 0).
  { apply (handled_intro c s orc _ [_]); [|reflexivity].
    constructor; sproj; [apply immok_del; exact I|apply sub_pub_del|tauto|lia|reflexivity]. }
  cbn zeta.
  apply (handled_intro c s orc _ [_; _]); [|destruct (qos =? 2); reflexivity].
  assert (AT : (if qos =? 2 then T_PUBREC else T_PUBACK) <> T_PUBLISH) by (destruct (qos =? 2); ack_ne).
  destruct (qos =? 1); constructor; sproj; try tauto; try lia; try reflexivity.
  - repeat (apply immok_del || (apply immok_set_ack; [exact C|exact Nw|])); exact I.
  - eapply sub_pub_trans; [apply sub_pub_del|]. eapply sub_pub_trans; [apply sub_pub_set_ack; exact AT|apply sub_pub_del].
  - repeat (apply immok_del || (apply immok_set_ack; [exact C|exact Nw|])); exact I.
  - eapply sub_pub_trans; [apply sub_pub_set_ack; exact AT|apply sub_pub_del].
Qed.

Lemma inc_le q m : (q <= inc q m <= q + 1)%Z.
Proof. unfold inc. destruct (q <? m)%Z; lia. Qed.

Lemma in_ack_handled c s ty pid rc now orc :
  cfg_ok c -> (0 <= now)%Z -> wf c s ->
  in_ack c s ty pid rc now orc = (s, []) \/ handled c s orc (in_ack c s ty pid rc now orc).
Proof.
  intros [_ C] Nw W. pose proof (immok_wf c s W) as I. pose proof (wf_sq c s W) as Q. unfold in_ack.
  assert (D1 : forall s0, pre_def c s s0 -> handled c s orc (deferred s0 orc)).
  { intros s0 P. exists s0, []. split; [exact P|]. split; [reflexivity|]. destruct (deferred s0 orc); reflexivity. }
  pose proof (inc_le (s_sendq s) (s_maxsend s)) as IL.
  destruct (ty =? T_PUBACK).
  { right. destruct (get pid (s_infl s)); apply D1; [|apply pre_def_self; exact W].
    constructor; sproj; [apply immok_del; exact I|apply sub_pub_del|tauto|lia|reflexivity]. }
  destruct (ty =? T_PUBREC).
  { right. destruct (get pid (s_infl s)) as [r|].
    - destruct ((128 <=? rc) || negb (pubrec_rc_valid rc)).
      + apply D1. constructor; sproj; [apply immok_del; exact I|apply sub_pub_del|tauto|lia|reflexivity].
      + apply (handled_intro c s orc _ [_]); [|reflexivity].
        constructor; sproj; [apply immok_set_ack; assumption|apply sub_pub_set_ack; ack_ne|tauto|lia|reflexivity].
    - apply (handled_intro c s orc s [_]); [apply pre_def_self; exact W|reflexivity]. }
  destruct (ty =? T_PUBREL).
  { right. destruct (get pid (s_infl s)) as [r|].
    - destruct ((128 <=? rc) || negb (pubrel_rc_valid rc)).
      + apply D1. constructor; sproj; [apply immok_del; exact I|apply sub_pub_del|tauto|lia|reflexivity].
      + apply (handled_intro c s orc _ [_]); [|reflexivity].
        constructor; sproj; [apply immok_del; apply immok_set_ack; assumption| |tauto|lia|reflexivity].
        eapply sub_pub_trans; [apply sub_pub_del|apply sub_pub_set_ack; ack_ne].
    - apply (handled_intro c s orc s [_]); [apply pre_def_self; exact W|reflexivity]. }
  destruct (ty =? T_PUBCOMP); [|left; reflexivity].
  right. apply D1. constructor; sproj; [apply immok_del; exact I|apply sub_pub_del|tauto|lia|reflexivity].
Qed.

(* ---------- the ghost invariants ---------- *)
Definition i1 (s : st) (T : list N) : Prop :=
  s_conn s = true -> forall k r, get k (s_infl s) = Some r -> r_ty r = T_PUBLISH -> ~ In (r_uid r) T -> (r_expiry r < 0)%Z.
(* [slack] = 1 inside a handler (the quota may just have been raised by one), 0 between steps *)
Definition i2 (slack : Z) (s : st) (T : list N) : Prop :=
  forall k r, get k (s_infl s) = Some r -> r_ty r = T_PUBLISH -> ~ In (r_uid r) T -> (r_expiry r < 0)%Z ->
  (0 <= s_sendq s <= slack)%Z /\ (0 < s_maxsend s)%Z.

Record ghost (c : cfg) (s : st) (T : list N) : Prop := {
  g_wf : wf c s;
  g_i1 : i1 s T;
  g_i2 : i2 0 s T }.

Lemma ghost_init c : ghost c init_st [].
Proof. constructor; [apply wf_init|intros H; discriminate H|intros k r G; discriminate G]. Qed.

Lemma i1_mono s s' T T' :
  sub_pub (s_infl s') (s_infl s) -> (s_conn s' = true -> s_conn s = true) -> incl T T' -> i1 s T -> i1 s' T'.
Proof.
  intros S C I H Cn k r G Ty NI. apply (H (C Cn) k r); [apply S; assumption|exact Ty|].
  intros X. apply NI. apply I. exact X.
Qed.

Lemma i2_mono sl sl' s s' T T' :
  sub_pub (s_infl s') (s_infl s) -> incl T T' ->
  (0 <= s_sendq s' <= s_sendq s + (sl' - sl))%Z -> s_maxsend s' = s_maxsend s -> i2 sl s T -> i2 sl' s' T'.
Proof.
  intros S I Q M H k r G Ty NI E. rewrite M.
  destruct (H k r) as [A B]; [apply S; assumption|exact Ty| |exact E|].
  - intros X. apply NI. apply I. exact X.
  - split; [lia|exact B].
Qed.

Lemma immediates_nonempty_next orc m k r :
  get k m = Some r -> (r_expiry r < 0)%Z -> next_immediate orc m <> None.
Proof.
  intros G E. unfold next_immediate.
  destruct (sort16 (immediates m)) as [|[p1 r1] rest] eqn:S.
  - assert (I : In (k, r) (sort16 (immediates m))).
    { apply in_sort16. apply filter_In. split; [apply get_in; exact G|cbn; lia]. }
    rewrite S in I. destruct I.
  - destruct orc as [|q orc]; [discriminate|].
    destruct (get q (immediates m)); [destruct (key16 r0 =? key16 r1)%Z|]; discriminate.
Qed.

(* the post-packet block re-establishes I2 with slack 0 *)
Lemma deferred_ghost c s0 orc T :
  immok c (s_infl s0) -> i1 s0 T -> i2 1 s0 T ->
  let s' := fst (deferred s0 orc) in
  let T' := T ++ txs (snd (deferred s0 orc)) in
  i1 s' T' /\ i2 0 s' T' /\ (s_conn s' = true -> s_conn s0 = true).
Proof.
  intros [N Im] H1 H2.
  destruct (deferred_cases s0 orc) as [E|(p & r & NI & Q & E)].
  - (* nothing released: the quota is 0 if something waits *)
    rewrite E. cbn [fst snd txs flat_map]. rewrite app_nil_r. split; [exact H1|]. split; [|tauto].
    intros k r G Ty NIn Ex. destruct (H2 k r G Ty NIn Ex) as [A B]. split; [|exact B].
    destruct (Z.eq_dec (s_sendq s0) 0) as [Z0|NZ]; [lia|]. exfalso.
    (* quota 1 and a held-back record: the block would have fired *)
    unfold deferred in E.
    assert (L : (0 <? len (s_infl s0)) = true).
    { unfold len. destruct (s_infl s0); [discriminate G|cbn [length]; lia]. }
    rewrite L in E. replace (0 <? s_sendq s0)%Z with true in E by lia. cbn [andb] in E.
    pose proof (immediates_nonempty_next orc (s_infl s0) k r G Ex) as NN.
    destruct (next_immediate orc (s_infl s0)) as [[p' r']|]; [|congruence].
    inversion E as [[E1 E2]]. apply (f_equal s_sendq) in E1. cbn in E1. unfold dec in E1.
    destruct (0 <? s_sendq s0)%Z eqn:P; lia.
  - rewrite E. cbn [fst snd].
    assert (Inc : incl T (T ++ txs (if s_conn s0 then [pkt_of_rec false p r] else []))) by (apply incl_appl; apply incl_refl).
    split; [|split].
    + eapply i1_mono; [| |exact Inc|exact H1]; sproj; [apply sub_pub_del|tauto].
    + intros k r0 G Ty NIn Ex. sproj_in G. apply get_del_some in G. destruct G as [G _].
      destruct (H2 k r0 G Ty) as [A B]; [intros X; apply NIn; apply Inc; exact X|exact Ex|].
      sproj. split; [|exact B]. unfold dec. destruct (0 <? s_sendq s0)%Z eqn:P; lia.
    + sproj. tauto.
Qed.

Lemma handled_ghost c s orc res T :
  ghost c s T -> handled c s orc res ->
  i1 (fst res) (T ++ txs (snd res)) /\ i2 0 (fst res) (T ++ txs (snd res)) /\ (s_conn (fst res) = true -> s_conn s = true).
Proof.
  intros [W H1 H2] (s0 & pre & P & X & ->). cbn [fst snd]. rewrite txs_app, X. cbn [app].
  destruct P as [Im Sub Cn Sq Mx].
  assert (A1 : i1 s0 T) by (eapply i1_mono; [exact Sub|exact Cn|apply incl_refl|exact H1]).
  assert (A2 : i2 1 s0 T) by (eapply i2_mono; [exact Sub|apply incl_refl| |exact Mx|exact H2]; lia).
  destruct (deferred_ghost c s0 orc T Im A1 A2) as (B1 & B2 & B3). tauto.
Qed.

Lemma incl_app_l (T t : list N) : incl T (T ++ t).
Proof. apply incl_appl. apply incl_refl. Qed.

(* same state, more transmitted *)
Lemma i_same s T T' : incl T T' -> i1 s T -> i2 0 s T -> i1 s T' /\ i2 0 s T'.
Proof.
  intros I H1 H2. split.
  - eapply i1_mono; [apply sub_pub_refl|tauto|exact I|exact H1].
  - intros k r G Ty NI E. apply (H2 k r G Ty); [|exact E]. intros X. apply NI. apply I. exact X.
Qed.

Lemma out_publish_ghost c s T pq sq uid now mei pv qf :
  cfg_ok c -> (0 <= now)%Z -> ghost c s T ->
  let res := out_publish c s pq sq uid now mei pv qf in
  i1 (fst res) (T ++ txs (snd res)) /\ i2 0 (fst res) (T ++ txs (snd res)).
Proof.
  intros [_ C] Nw [W H1 H2]. pose proof (wf_sq c s W) as Q. unfold out_publish.
  assert (Same : forall o, i1 s (T ++ txs o) /\ i2 0 s (T ++ txs o)).
  { intros o. apply (i_same s T); [apply incl_app_l|exact H1|exact H2]. }
  assert (SameQ : forall o, i2 0 s (T ++ txs o)) by (intros; apply Same).
  destruct ((if sq <? pq then sq else pq) =? 0); [destruct (s_conn s); [destruct qf|]; apply Same|].
  destruct (c_maxinfl c <=? len (s_infl s)); [apply Same|].
  destruct (next_pid c s) as [i|] eqn:NP; [|apply Same].
  apply next_pid_sound in NP. destruct NP as [_ Gi]. cbn zeta.
  set (e := zmin (c_maxexp c) (Z.of_N mei)).
  set (expiry := if (0 <? e)%Z then (now + e)%Z else 0%Z).
  assert (Ex : (0 <= expiry)%Z) by (unfold expiry; destruct (0 <? e)%Z eqn:E; lia).
  set (q := if sq <? pq then sq else pq).
  set (r := {| r_ty := T_PUBLISH; r_qos := q; r_uid := uid; r_created := now; r_expiry := expiry; r_pv5 := pv |}).
  set (r' := {| r_ty := T_PUBLISH; r_qos := q; r_uid := uid; r_created := now; r_expiry := hold_expiry expiry; r_pv5 := pv |}).
  assert (New : mem i (s_infl (with_pid s i)) = false) by (sproj; apply mem_false_iff; exact Gi).
  rewrite New. cbn [negb]. sproj.
  destruct ((s_sendq s =? 0)%Z && (0 <? s_maxsend s)%Z) eqn:Mk.
  { (* held back *)
    cbn [fst snd txs flat_map]. rewrite app_nil_r. split.
    - intros Cn k r0 G Ty NI. sproj_in G. destruct (N.eq_dec k i) as [->|Ne].
      + rewrite get_set_same in G. inversion G; subst r0. cbn. apply hold_expiry_neg.
      + rewrite !get_set_other in G by exact Ne. apply (H1 Cn k r0); assumption.
    - intros k r0 G Ty NI E0. sproj. unfold dec. replace (0 <? s_sendq s)%Z with false by lia. split; lia. }
  (* not held back: then nothing untransmitted is being held back at all *)
  assert (None_held : forall k r0, get k (s_infl s) = Some r0 -> r_ty r0 = T_PUBLISH -> ~ In (r_uid r0) T ->
                      (r_expiry r0 < 0)%Z -> False).
  { intros k r0 G Ty NI E0. destruct (H2 k r0 G Ty NI E0). lia. }
  assert (Unm : ~ (r_expiry r < 0)%Z) by (cbn; lia).
  assert (I2any : forall s' t, (forall k r0, get k (s_infl s') = Some r0 -> k <> i -> get k (s_infl s) = Some r0) ->
                  (forall r0, get i (s_infl s') = Some r0 -> r0 = r) -> i2 0 s' (T ++ t)).
  { intros s' t Hk Hi k r0 G Ty NI E0. exfalso. destruct (N.eq_dec k i) as [->|Ne].
    - rewrite (Hi r0 G) in E0. exact (Unm E0).
    - apply (None_held k r0); [apply Hk; assumption|exact Ty| |exact E0].
      intros X. apply NI. apply in_or_app. left. exact X. }
  destruct (negb (s_conn s)) eqn:Cn.
  { cbn [fst snd]. split.
    - intros Cn'. sproj_in Cn'. rewrite Cn' in Cn. discriminate.
    - apply I2any; sproj; intros; [rewrite get_set_other in H by assumption; exact H|rewrite get_set_same in H; congruence]. }
  destruct qf.
  { cbn [fst snd]. split.
    - intros Cn' k r0 G Ty NI. sproj_in G. apply get_del_some in G. destruct G as [G Ne].
      rewrite get_set_other in G by exact Ne. apply (H1 (eq_trans (eq_sym eq_refl) (proj1 (negb_false_iff _) Cn)) k r0); try assumption.
      intros X. apply NI. apply in_or_app. left. exact X.
    - apply I2any; sproj; intros.
      + apply get_del_some in H. destruct H as [H _]. rewrite get_set_other in H by assumption. exact H.
      + rewrite get_del_same in H. discriminate. }
  cbn [fst snd txs flat_map tx_of]. cbn. split.
  - intros Cn' k r0 G Ty NI. sproj_in G. destruct (N.eq_dec k i) as [->|Ne].
    + rewrite get_set_same in G. inversion G; subst r0. exfalso. apply NI. apply in_or_app. right. left. reflexivity.
    + rewrite get_set_other in G by exact Ne. apply (H1 (proj1 (negb_false_iff _) Cn) k r0); try assumption.
      intros X. apply NI. apply in_or_app. left. exact X.
  - apply I2any; sproj; intros; [rewrite get_set_other in H by assumption; exact H|rewrite get_set_same in H; congruence].
Qed.

Lemma txs_cons a l : txs (a :: l) = tx_of a ++ txs l.
Proof. reflexivity. Qed.

Lemma tx_of_pkt_of_rec d p r : tx_of (pkt_of_rec d p r) = if r_ty r =? T_PUBLISH then [r_uid r] else [].
Proof. pose proof (txs_pkt_of_rec d p r) as H. unfold txs in H. cbn [flat_map] in H. rewrite app_nil_r in H. exact H. Qed.

Lemma txs_resend_in lst k r :
  In (k, r) lst -> r_ty r = T_PUBLISH ->
  In (r_uid r) (txs (map (fun kv => pkt_of_rec true (fst kv) (snd kv)) lst)).
Proof.
  induction lst as [|[k0 r0] lst IH]; intros I Ty; [destruct I|].
  cbn [map fst snd]. rewrite txs_cons, tx_of_pkt_of_rec.
  apply in_or_app. destruct I as [E|I].
  - inversion E; subst. left. rewrite Ty. cbn. left. reflexivity.
  - right. apply IH; assumption.
Qed.

Lemma no_records_i s T : s_infl s = [] -> i1 s T /\ i2 0 s T.
Proof. intros E. split; [intros _ k r G|intros k r G]; rewrite E in G; discriminate G. Qed.

Lemma reconnect_ghost c s T v5 clean sei rm orc :
  ghost c s T ->
  let res := reconnect c s v5 clean sei rm orc in
  i1 (fst res) (T ++ txs (snd res)) /\ i2 0 (fst res) (T ++ txs (snd res)).
Proof.
  intros [W H1 H2]. unfold reconnect.
  destruct (s_present s); [|apply no_records_i; reflexivity].
  destruct (clean || (s_clean s && negb (s_v5 s))); [apply no_records_i; reflexivity|]. cbn zeta.
  set (s1 := if 0 <? len (s_infl s) then _ else _).
  assert (N1 : NoDup (keys (s_infl s1))).
  { unfold s1. destruct (0 <? len (s_infl s)); sproj; [apply W|constructor]. }
  pose proof (resend_outputs (get_all orc (s_infl s1)) (s_infl s1)) as RO.
  destruct (resend (get_all orc (s_infl s1)) (s_infl s1)) as [m o] eqn:R. cbn [fst snd] in *. subst o.
  apply resend_sub in R; [|exact N1]. destruct R as [_ Sub].
  (* every stored PUBLISH is transmitted in this step *)
  assert (All : forall k r, get k m = Some r -> r_ty r = T_PUBLISH ->
                In (r_uid r) (T ++ txs (OPkt T_CONNACK 0 true 0 0 0 :: map (fun kv => pkt_of_rec true (fst kv) (snd kv)) (get_all orc (s_infl s1))))).
  { intros k r G Ty. apply in_or_app. right. rewrite txs_cons. apply in_or_app. right.
    apply (txs_resend_in _ k r); [|exact Ty]. apply get_all_complete; [exact N1|apply Sub; exact G]. }
  split.
  - intros _ k r G Ty NI. exfalso. apply NI. apply (All k r); assumption.
  - intros k r G Ty NI. exfalso. apply NI. apply (All k r); assumption.
Qed.

Lemma teardown_i s T : i1 s T -> i2 0 s T -> i1 (teardown s) T /\ i2 0 (teardown s) T.
Proof.
  intros H1 H2. unfold teardown. destruct (s_exp s); [apply no_records_i; reflexivity|].
  split; [intros Cn; discriminate Cn|exact H2].
Qed.

(* a closed connection transmits nothing *)
Lemma deferred_closed_silent s orc : s_conn s = false -> snd (deferred s orc) = [].
Proof.
  intros Cn. destruct (deferred_cases s orc) as [->|(p & r & _ & _ & ->)]; [reflexivity|]. cbn [snd]. rewrite Cn. reflexivity.
Qed.

Lemma step_i c s T o orc :
  cfg_ok c -> op_ok o -> ghost c s T ->
  let res := step c s o orc in
  i1 (fst res) (T ++ txs (snd res)) /\ i2 0 (fst res) (T ++ txs (snd res)).
Proof.
  intros C O G. pose proof G as [W H1 H2].
  assert (Idle : i1 (fst (s, @nil out)) (T ++ txs (snd (s, @nil out))) /\ i2 0 (fst (s, @nil out)) (T ++ txs (snd (s, @nil out)))).
  { cbn. rewrite app_nil_r. tauto. }
  destruct o; cbn [step op_ok] in *.
  - destruct (s_present s); [apply out_publish_ghost; assumption|exact Idle].
  - destruct (s_present s && s_conn s); [|exact Idle].
    destruct (in_publish_handled c s qos pid uid now orc C O W) as [E|Hd].
    + rewrite E. cbn [fst snd]. rewrite txs_cons. cbn. rewrite app_nil_r. apply teardown_i; assumption.
    + destruct (handled_ghost c s orc _ T G Hd) as (A & B & _). tauto.
  - destruct (s_present s && s_conn s); [|exact Idle].
    destruct (in_ack_handled c s ty pid rc now orc C O W) as [E|Hd].
    + rewrite E. exact Idle.
    + destruct (handled_ghost c s orc _ T G Hd) as (A & B & _). tauto.
  - destruct (s_present s && s_conn s); [|exact Idle].
    assert (Hd : handled c s orc (deferred s orc)).
    { exists s, []. split; [apply pre_def_self; exact W|]. split; [reflexivity|destruct (deferred s orc); reflexivity]. }
    destruct (handled_ghost c s orc _ T G Hd) as (A & B & _). tauto.
  - destruct (s_present s && s_conn s); [|exact Idle].
    destruct graceful; [|cbn [fst snd txs flat_map]; rewrite app_nil_r; apply teardown_i; assumption].
    assert (Hd : handled c s orc (deferred (with_conn s false) orc)).
    { exists (with_conn s false), []. split.
      - constructor; sproj; [apply immok_wf; exact W|apply sub_pub_refl|discriminate|pose proof (wf_sq c s W); lia|reflexivity].
      - split; [reflexivity|destruct (deferred (with_conn s false) orc); reflexivity]. }
    destruct (handled_ghost c s orc _ T G Hd) as (A & B & _).
    pose proof (deferred_closed_silent (with_conn s false) orc eq_refl) as Z.
    destruct (deferred (with_conn s false) orc) as [s1 o1]. cbn [fst snd] in *. subst o1.
    cbn [txs flat_map] in *. rewrite app_nil_r in *. apply teardown_i; assumption.
  - apply reconnect_ghost; assumption.
  - destruct (s_present s); [|exact Idle]. cbn [fst snd txs flat_map]. rewrite app_nil_r. split.
    + apply (i1_mono s _ T T); [|sproj; tauto|apply incl_refl|exact H1].
      sproj. intros k r Gk _. eapply get_filter_some; [apply W|exact Gk].
    + intros k r Gk Ty NI E. sproj_in Gk. sproj. apply (H2 k r); try assumption.
      eapply get_filter_some; [apply W|exact Gk].
Qed.

Theorem step_ghost c s T o orc :
  cfg_ok c -> op_ok o -> ghost c s T ->
  ghost c (fst (step c s o orc)) (T ++ txs (snd (step c s o orc))).
Proof.
  intros C O G. destruct (step_i c s T o orc C O G) as [A B].
  constructor; [apply step_wf; [exact C|exact O|apply G]|exact A|exact B].
Qed.

Theorem run_ghost c : cfg_ok c -> forall h s T,
  hist_ok h -> ghost c s T -> ghost c (fst (run c s h)) (T ++ txs (concat (snd (run c s h)))).
Proof.
  intros C. induction h as [|[o orc] h IH]; intros s T H G.
  - cbn. rewrite app_nil_r. exact G.
  - rewrite run_cons. cbn [fst snd concat]. rewrite txs_app, app_assoc.
    apply IH; [intros o' orc' I; apply (H o' orc'); right; exact I|].
    apply step_ghost; [exact C|apply (H o orc); left; reflexivity|exact G].
Qed.

(* ====================================================================================== *)
(* How a step can transmit: nothing, the message being published (direct), one held-back    *)
(* message released by the post-packet block, or the sorted resend of a resumed session.    *)
(* ====================================================================================== *)
Definition released (s s' : st) (t : list N) : Prop :=
  exists s0 p r, sub_pub (s_infl s0) (s_infl s) /\ s_conn s0 = true /\ s_conn s = true /\
    get p (s_infl s0) = Some r /\ r_ty r = T_PUBLISH /\ (r_expiry r < 0)%Z /\ t = [r_uid r] /\
    (forall k' r', get k' (s_infl s0) = Some r' -> (r_expiry r' < 0)%Z -> (key16 r <= key16 r')%Z) /\
    sub_pub (s_infl s') (s_infl s0).

Lemma handled_shape c s orc res :
  handled c s orc res ->
  sub_pub (s_infl (fst res)) (s_infl s) /\
  (txs (snd res) = [] \/ released s (fst res) (txs (snd res))).
Proof.
  intros (s0 & pre & P & X & ->). cbn [fst snd]. rewrite txs_app, X. cbn [app].
  destruct P as [[N Im] Sub Cn Sq Mx].
  destruct (deferred_cases s0 orc) as [E|(p & r & NI & Q & E)]; rewrite E; cbn [fst snd].
  - split; [exact Sub|left; reflexivity].
  - assert (Sub' : sub_pub (s_infl (with_sendq (with_infl s0 (del p (s_infl s0))) (dec (s_sendq s0)))) (s_infl s0))
      by (sproj; apply sub_pub_del).
    split; [eapply sub_pub_trans; [exact Sub'|exact Sub]|].
    destruct (s_conn s0) eqn:C0; [|left; reflexivity]. right.
    apply next_immediate_spec in NI; [|exact N]. destruct NI as (G & E0 & Min).
    destruct (Im p r G E0) as [Ty _].
    exists s0, p, r. rewrite txs_pkt_of_rec, Ty. cbn.
    repeat split; try assumption. apply Cn. reflexivity.
Qed.

(* where the PUBLISH records of the next state come from *)
Definition own_record (o : op) (r : rec) : Prop :=
  match o with
  | OutPublish pq sq uid _ now _ _ _ => r_uid r = uid /\ r_created r = now /\ 0 < (if sq <? pq then sq else pq)
  | _ => False
  end.

Lemma out_publish_rec_source c s pq sq uid grp now mei pv qf k r :
  get k (s_infl (fst (out_publish c s pq sq uid now mei pv qf))) = Some r -> r_ty r = T_PUBLISH ->
  get k (s_infl s) = Some r \/ own_record (OutPublish pq sq uid grp now mei pv qf) r.
Proof.
  unfold out_publish, own_record.
  destruct ((if sq <? pq then sq else pq) =? 0) eqn:Q0; [destruct (s_conn s); tauto|].
  destruct (c_maxinfl c <=? len (s_infl s)); [tauto|].
  destruct (next_pid c s) as [i|]; [|tauto]. cbn zeta.
  assert (QP : 0 < (if sq <? pq then sq else pq)) by lia.
  match goal with |- context [if ?b then with_sendq ?x ?y else ?x] =>
    assert (E3 : s_infl (if b then with_sendq x y else x) = s_infl x) by (destruct b; reflexivity);
    set (s3 := if b then with_sendq x y else x) in * end.
  destruct ((s_sendq (with_pid s i) =? 0)%Z && (0 <? s_maxsend s3)%Z).
  { cbn [fst]. sproj. intros G Ty. destruct (N.eq_dec k i) as [->|Ne].
    - rewrite get_set_same in G. inversion G; subst. cbn. right. tauto.
    - rewrite get_set_other in G by exact Ne. rewrite E3 in G. sproj_in G. rewrite get_set_other in G by exact Ne. tauto. }
  assert (S3 : forall k0 r0, get k0 (s_infl s3) = Some r0 -> get k0 (s_infl s) = Some r0 \/
                             (r_uid r0 = uid /\ r_created r0 = now /\ 0 < (if sq <? pq then sq else pq))).
  { intros k0 r0 G. rewrite E3 in G. sproj_in G. destruct (N.eq_dec k0 i) as [->|Ne].
    - rewrite get_set_same in G. inversion G; subst. cbn. right. tauto.
    - rewrite get_set_other in G by exact Ne. tauto. }
  destruct (negb (s_conn s3)); [intros G _; apply S3; exact G|].
  destruct qf; [|intros G _; apply S3; exact G].
  cbn [fst]. sproj. intros G _. apply get_del_some in G. apply S3. tauto.
Qed.

Lemma step_rec_source c s o orc k r :
  cfg_ok c -> op_ok o -> wf c s ->
  get k (s_infl (fst (step c s o orc))) = Some r -> r_ty r = T_PUBLISH ->
  get k (s_infl s) = Some r \/ own_record o r.
Proof.
  intros C O W. destruct o; cbn [step op_ok] in *.
  - destruct (s_present s); [apply out_publish_rec_source|tauto].
  - destruct (s_present s && s_conn s); [|tauto]. intros G Ty. left.
    destruct (in_publish_handled c s qos pid uid now orc C O W) as [E|Hd].
    + rewrite E in G. cbn [fst] in G. unfold teardown in G. destruct (s_exp s); [discriminate G|exact G].
    + apply (proj1 (handled_shape c s orc _ Hd)); assumption.
  - destruct (s_present s && s_conn s); [|tauto]. intros G Ty. left.
    destruct (in_ack_handled c s ty pid rc now orc C O W) as [E|Hd].
    + rewrite E in G. exact G.
    + apply (proj1 (handled_shape c s orc _ Hd)); assumption.
  - destruct (s_present s && s_conn s); [|tauto]. intros G Ty. left.
    destruct (deferred_cases s orc) as [E|(p & r0 & _ & _ & E)]; rewrite E in G; cbn [fst] in G; [exact G|].
    sproj_in G. apply get_del_some in G. tauto.
  - destruct (s_present s && s_conn s); [|tauto]. intros G Ty. left.
    assert (TD : forall s1, get k (s_infl (teardown s1)) = Some r -> get k (s_infl s1) = Some r).
    { intros s1. unfold teardown. destruct (s_exp s1); [discriminate|tauto]. }
    destruct graceful; [|apply TD; exact G].
    destruct (deferred_cases (with_conn s false) orc) as [E|(p & r0 & _ & _ & E)]; rewrite E in G; cbn [fst] in G;
      apply TD in G; [exact G|]. sproj_in G. apply get_del_some in G. tauto.
  - intros G Ty. left. unfold reconnect in G.
    destruct (s_present s); [|discriminate G].
    destruct (clean || (s_clean s && negb (s_v5 s))); [discriminate G|]. cbn zeta in G.
    set (s1 := if 0 <? len (s_infl s) then _ else _) in G.
    assert (Sub1 : forall k0 r0, get k0 (s_infl s1) = Some r0 -> get k0 (s_infl s) = Some r0).
    { unfold s1. destruct (0 <? len (s_infl s)); sproj; [tauto|cbn; discriminate]. }
    assert (N1 : NoDup (keys (s_infl s1))).
    { unfold s1. destruct (0 <? len (s_infl s)); sproj; [apply W|constructor]. }
    destruct (resend (get_all orc (s_infl s1)) (s_infl s1)) as [m o] eqn:R. cbn [fst] in G. sproj_in G.
    apply resend_sub in R; [|exact N1]. apply Sub1. apply (proj2 R). exact G.
  - destruct (s_present s); [|tauto]. intros G Ty. left. cbn [fst] in G. sproj_in G.
    eapply get_filter_some; [apply W|exact G].
Qed.

Definition direct (s : st) (o : op) (t : list N) : Prop :=
  exists pq sq uid grp now mei pv qf, o = OutPublish pq sq uid grp now mei pv qf /\ t = [uid] /\ s_conn s = true /\
    ((if sq <? pq then sq else pq) = 0 \/ ~ (s_sendq s = 0%Z /\ (0 < s_maxsend s)%Z)).

Definition resumed (s s' : st) (t : list N) : Prop :=
  exists lst, t = txs (map (fun kv => pkt_of_rec true (fst kv) (snd kv)) lst) /\
    sorted_keys (map (fun kv => key16 (snd kv)) lst) /\
    (forall k r, In (k, r) lst -> get k (s_infl s) = Some r) /\
    (forall k r, get k (s_infl s') = Some r -> r_ty r = T_PUBLISH -> In (r_uid r) t).

Lemma out_publish_shape c s pq sq uid grp now mei pv qf :
  let t := txs (snd (out_publish c s pq sq uid now mei pv qf)) in
  t = [] \/ direct s (OutPublish pq sq uid grp now mei pv qf) t.
Proof.
  unfold out_publish, direct.
  destruct ((if sq <? pq then sq else pq) =? 0) eqn:Q0.
  { destruct (s_conn s) eqn:Cn; [|left; reflexivity]. destruct qf; [left; reflexivity|]. right.
    exists pq, sq, uid, grp, now, mei, pv, false. cbn. repeat split; try reflexivity. left. lia. }
  destruct (c_maxinfl c <=? len (s_infl s)); [left; reflexivity|].
  destruct (next_pid c s) as [i|]; [|left; reflexivity]. cbn zeta.
  match goal with |- context [if ?b then with_sendq ?x ?y else ?x] =>
    assert (C3 : s_conn (if b then with_sendq x y else x) = s_conn s) by (destruct b; reflexivity);
    assert (M3 : s_maxsend (if b then with_sendq x y else x) = s_maxsend s) by (destruct b; reflexivity);
    set (s3 := if b then with_sendq x y else x) in * end.
  destruct ((s_sendq (with_pid s i) =? 0)%Z && (0 <? s_maxsend s3)%Z) eqn:Mk; [left; reflexivity|].
  rewrite C3. destruct (negb (s_conn s)) eqn:Cn; [left; reflexivity|].
  destruct qf; [left; reflexivity|]. right.
  exists pq, sq, uid, grp, now, mei, pv, false. cbn. repeat split; try reflexivity.
  - destruct (s_conn s); [reflexivity|discriminate].
  - right. intros [A B]. rewrite M3 in Mk. sproj_in Mk. lia.
Qed.

Lemma step_shape c s o orc :
  cfg_ok c -> op_ok o -> wf c s ->
  let res := step c s o orc in
  let t := txs (snd res) in
  t = [] \/ direct s o t \/ released s (fst res) t \/ resumed s (fst res) t.
Proof.
  intros C O W. destruct o; cbn [step op_ok] in *.
  - destruct (s_present s); [|left; reflexivity].
    destruct (out_publish_shape c s pubqos subqos uid grp now mei ppv5 qfull) as [E|D]; [left; exact E|right; left; exact D].
  - destruct (s_present s && s_conn s); [|left; reflexivity].
    destruct (in_publish_handled c s qos pid uid now orc C O W) as [E|Hd]; [rewrite E; left; reflexivity|].
    destruct (proj2 (handled_shape c s orc _ Hd)) as [E|R]; [left; exact E|right; right; left; exact R].
  - destruct (s_present s && s_conn s); [|left; reflexivity].
    destruct (in_ack_handled c s ty pid rc now orc C O W) as [E|Hd]; [rewrite E; left; reflexivity|].
    destruct (proj2 (handled_shape c s orc _ Hd)) as [E|R]; [left; exact E|right; right; left; exact R].
  - destruct (s_present s && s_conn s); [|left; reflexivity].
    assert (Hd : handled c s orc (deferred s orc)).
    { exists s, []. split; [apply pre_def_self; exact W|]. split; [reflexivity|destruct (deferred s orc); reflexivity]. }
    destruct (proj2 (handled_shape c s orc _ Hd)) as [E|R]; [left; exact E|right; right; left; exact R].
  - left. destruct (s_present s && s_conn s); [|reflexivity].
    destruct graceful; [destruct (deferred (with_conn s false) orc)|]; reflexivity.
  - unfold reconnect. destruct (s_present s); [|left; reflexivity].
    destruct (clean || (s_clean s && negb (s_v5 s))); [left; reflexivity|]. cbn zeta.
    set (s1 := if 0 <? len (s_infl s) then _ else _).
    assert (Sub1 : forall k0 r0, get k0 (s_infl s1) = Some r0 -> get k0 (s_infl s) = Some r0).
    { unfold s1. destruct (0 <? len (s_infl s)); sproj; [tauto|cbn; discriminate]. }
    assert (N1 : NoDup (keys (s_infl s1))).
    { unfold s1. destruct (0 <? len (s_infl s)); sproj; [apply W|constructor]. }
    pose proof (resend_outputs (get_all orc (s_infl s1)) (s_infl s1)) as RO.
    destruct (resend (get_all orc (s_infl s1)) (s_infl s1)) as [m o] eqn:R. cbn [fst snd] in *. subst o.
    apply resend_sub in R; [|exact N1]. destruct R as [_ Sub].
    right; right; right. exists (get_all orc (s_infl s1)). rewrite txs_cons. cbn [tx_of]. cbn [app].
    split; [reflexivity|]. split; [apply sorted16_keys; apply get_all_sorted|]. split.
    + intros k r I. apply Sub1. apply (in_get_all orc); assumption.
    + sproj. intros k r G Ty. apply (txs_resend_in _ k r); [|exact Ty].
      apply get_all_complete; [exact N1|apply Sub; exact G].
  - left. destruct (s_present s); reflexivity.
Qed.

(* ====================================================================================== *)
(* First transmissions in publish order                                                    *)
(* ====================================================================================== *)
Lemma txs_resend_inv lst u :
  In u (txs (map (fun kv => pkt_of_rec true (fst kv) (snd kv)) lst)) ->
  exists k r, In (k, r) lst /\ r_ty r = T_PUBLISH /\ r_uid r = u.
Proof.
  induction lst as [|[k0 r0] lst IH]; cbn [map fst snd]; [intros []|].
  rewrite txs_cons, tx_of_pkt_of_rec. intros I. apply in_app_or in I. destruct I as [I|I].
  - destruct (r_ty r0 =? T_PUBLISH) eqn:E; [|destruct I]. destruct I as [<-|[]].
    exists k0, r0. split; [left; reflexivity|split; [lia|reflexivity]].
  - destruct (IH I) as (k & r & A & B). exists k, r. split; [right; exact A|exact B].
Qed.

Section Pair.
  Variables (c : cfg) (u1 u2 : N) (n1 n2 : Z) (q1 q2 : N).
  Hypothesis C : cfg_ok c.
  Hypothesis Hne : u1 <> u2.
  (* the stamps increase strictly after truncation to 16 bits: exactly what KF_C12_created_order is about *)
  Hypothesis Hkey : (n1 mod 65536 < n2 mod 65536)%Z.
  (* same QoS in the property; what is needed is only: if the first message is a QoS 1/2 delivery so is the second *)
  Hypothesis Hq : q1 = 0 \/ 0 < q2.

  (* every publishToClient of message u happens at second n with delivered QoS q *)
  Definition tagged (u : N) (n : Z) (q : N) (o : op) : Prop :=
    match o with
    | OutPublish pq sq uid _ now _ _ _ => uid = u -> now = n /\ (if sq <? pq then sq else pq) = q
    | _ => True
    end.
  Definition not_pub (u : N) (o : op) : Prop :=
    match o with OutPublish _ _ uid _ _ _ _ _ => uid <> u | _ => True end.

  (* at (any) transmission of u2 before which u1 has not been transmitted, u1 is not transmitted later either:
     with the first transmission of u2 this says "first transmissions in publish order, if both are delivered" *)
  Definition ord_ok (l : list N) : Prop :=
    forall pre post, l = pre ++ u2 :: post -> ~ In u1 pre -> ~ In u1 post.

  Lemma ord_nil_u2 l : ~ In u2 l -> ord_ok l.
  Proof. intros H pre post E. exfalso. apply H. rewrite E. apply in_or_app. right. left. reflexivity. Qed.

  Lemma ord_single x : ord_ok [x].
  Proof.
    intros pre post E _. destruct pre as [|y pre]; cbn in E.
    - inversion E; subst. intros [].
    - inversion E as [[E1 E2]]. destruct pre; discriminate E2.
  Qed.

  Lemma ord_cons x l : ord_ok l -> (x = u2 -> ~ In u1 l) -> ord_ok (x :: l).
  Proof.
    intros O H pre post E NI. destruct pre as [|y pre]; cbn in E; inversion E; subst.
    - apply H. reflexivity.
    - apply (O pre post eq_refl). intros X. apply NI. right. exact X.
  Qed.

  Lemma ord_app T t :
    ord_ok T -> (In u1 T \/ (In u2 T /\ ~ In u1 t) \/ (~ In u2 T /\ ord_ok t)) -> ord_ok (T ++ t).
  Proof.
    intros O H pre post E NI.
    (* where does the split fall? *)
    assert (Cases : (exists post', T = pre ++ u2 :: post' /\ post = post' ++ t) \/
                    (exists pre', pre = T ++ pre' /\ t = pre' ++ u2 :: post)).
    { clear - E. revert pre E. induction T as [|a T IH]; intros pre E.
      - right. exists pre. split; [reflexivity|exact E].
      - destruct pre as [|b pre]; cbn in E; inversion E; subst.
        + left. exists T. split; reflexivity.
        + destruct (IH pre H1) as [(p' & A & B)|(p' & A & B)].
          * left. exists p'. split; [cbn; f_equal; exact A|exact B].
          * right. exists p'. split; [cbn; f_equal; exact A|exact B]. }
    destruct Cases as [(post' & ET & EP)|(pre' & EP & Et)].
    - subst post. intros I. apply in_app_or in I.
      pose proof (O pre post' ET NI) as NP.
      destruct I as [I|I]; [exact (NP I)|].
      destruct H as [H|[[_ H]|[H _]]].
      + rewrite ET in H. apply in_app_or in H. destruct H as [H|[H|H]]; [exact (NI H)|exact (Hne (eq_sym H))|exact (NP H)].
      + exact (H I).
      + apply H. rewrite ET. apply in_or_app. right. left. reflexivity.
    - subst pre. assert (NT : ~ In u1 T) by (intros X; apply NI; apply in_or_app; left; exact X).
      assert (NP' : ~ In u1 pre') by (intros X; apply NI; apply in_or_app; right; exact X).
      destruct H as [H|[[_ H]|[_ H]]].
      + exact (False_ind _ (NT H)).
      + intros I. apply H. rewrite Et. apply in_or_app. right. right. exact I.
      + exact (H pre' post Et NP').
  Qed.

  (* every stored PUBLISH of message u was stamped n and is a QoS 1/2 delivery *)
  Definition kept (u : N) (n : Z) (q : N) (s : st) : Prop :=
    forall k r, get k (s_infl s) = Some r -> r_ty r = T_PUBLISH -> r_uid r = u -> r_created r = n /\ 0 < q.

  Lemma kept_step u n q s o orc :
    op_ok o -> wf c s -> tagged u n q o -> kept u n q s -> kept u n q (fst (step c s o orc)).
  Proof.
    intros O W Tg K k r G Ty U.
    destruct (step_rec_source c s o orc k r C O W G Ty) as [G0|Own]; [apply (K k r); assumption|].
    destruct o; cbn [own_record] in Own; try contradiction. cbn [tagged] in Tg.
    destruct Own as (E1 & E2 & E3). rewrite E1 in U. destruct (Tg U) as [A B]. split; [congruence|]. rewrite <- B. exact E3.
  Qed.

  (* a sorted resend keeps the two messages in order *)
  Lemma sorted_ord lst :
    sorted_keys (map (fun kv => key16 (snd kv)) lst) ->
    (forall k r, In (k, r) lst -> r_ty r = T_PUBLISH -> r_uid r = u1 -> r_created r = n1) ->
    (forall k r, In (k, r) lst -> r_ty r = T_PUBLISH -> r_uid r = u2 -> r_created r = n2) ->
    ord_ok (txs (map (fun kv => pkt_of_rec true (fst kv) (snd kv)) lst)).
  Proof.
    induction lst as [|[k0 r0] lst IH]; intros S K1 K2; [apply ord_nil_u2; intros []|].
    cbn [map fst snd]. rewrite txs_cons, tx_of_pkt_of_rec.
    assert (S' : sorted_keys (map (fun kv => key16 (snd kv)) lst)).
    { destruct lst as [|p0 lst0]; [exact Logic.I|]. exact (proj2 S). }
    assert (IH' : ord_ok (txs (map (fun kv => pkt_of_rec true (fst kv) (snd kv)) lst))).
    { apply IH; [exact S'| |]; intros k r I; [apply (K1 k r)|apply (K2 k r)]; right; exact I. }
    destruct (r_ty r0 =? T_PUBLISH) eqn:Ty; [|exact IH']. cbn [app].
    apply ord_cons; [exact IH'|]. intros U2 I.
    (* r0 is message u2; some later record is message u1: its key would have to be at least as large *)
    apply txs_resend_inv in I. destruct I as (k & r & I & Tr & Ur).
    assert (Ge : (key16 r0 <= key16 r)%Z).
    { clear - S I. revert r0 S. induction lst as [|[k1 r1] lst IHl]; intros r0 S; [destruct I|].
      cbn [map snd] in S. destruct S as [S1 S2]. destruct I as [E|I].
      - inversion E; subst. exact S1.
      - specialize (IHl I r1).
        assert (S2' : sorted_keys (map (fun kv => key16 (snd kv)) ((k1, r1) :: lst))) by exact S2.
        specialize (IHl S2'). lia. }
    assert (A : r_created r0 = n2) by (apply (K2 k0 r0); [left; reflexivity|lia|exact U2]).
    assert (B : r_created r = n1) by (apply (K1 k r); [right; exact I|exact Tr|exact Ur]).
    unfold key16 in Ge. rewrite A, B in Ge. lia.
  Qed.

  (* ---------- phase A: message u2 has not been published yet ---------- *)
  Record phaseA (s : st) (T : list N) : Prop := {
    a_ghost : ghost c s T;
    a_k1 : kept u1 n1 q1 s;
    a_no2 : ~ In u2 T;
    a_norec2 : forall k r, get k (s_infl s) = Some r -> r_ty r = T_PUBLISH -> r_uid r <> u2 }.

  Lemma phaseA_step s T o orc :
    op_ok o -> tagged u1 n1 q1 o -> not_pub u2 o -> phaseA s T ->
    phaseA (fst (step c s o orc)) (T ++ txs (snd (step c s o orc))).
  Proof.
    intros O Tg NP [G K1 N2 NR]. pose proof (g_wf c s T G) as W.
    constructor.
    - apply step_ghost; assumption.
    - apply kept_step; assumption.
    - intros I. apply in_app_or in I. destruct I as [I|I]; [exact (N2 I)|].
      destruct (step_shape c s o orc C O W) as [E|[D|[R|R]]].
      + cbn zeta in E. rewrite E in I. destruct I.
      + destruct D as (pq & sq & uid & grp & now & mei & pv & qf & -> & Et & _). cbn zeta in Et. rewrite Et in I.
        destruct I as [I|[]]. cbn [not_pub] in NP. exact (NP I).
      + destruct R as (s0 & p & r & Sub & _ & _ & Gp & Ty & _ & Et & _). cbn zeta in Et. rewrite Et in I.
        destruct I as [I|[]]. apply (NR p r); [apply Sub; assumption|exact Ty|exact I].
      + destruct R as (lst & Et & _ & InS & _). cbn zeta in Et. rewrite Et in I.
        apply txs_resend_inv in I. destruct I as (k & r & I & Ty & U). apply (NR k r); [apply InS; exact I|exact Ty|exact U].
    - intros k r Gk Ty U.
      destruct (step_rec_source c s o orc k r C O W Gk Ty) as [G0|Own]; [exact (NR k r G0 Ty U)|].
      destruct o; cbn [own_record] in Own; try contradiction. cbn [not_pub] in NP. apply NP. destruct Own as [E _]. congruence.
  Qed.

  (* ---------- phase B: message u1 is not published any more ---------- *)
  Record phaseB (s : st) (T : list N) : Prop := {
    b_ghost : ghost c s T;
    b_k1 : kept u1 n1 q1 s;
    b_k2 : kept u2 n2 q2 s;
    b_dead : In u2 T -> ~ In u1 T -> forall k r, get k (s_infl s) = Some r -> r_ty r = T_PUBLISH -> r_uid r <> u1;
    b_ord : ord_ok T }.

  Lemma phaseA_B s T : phaseA s T -> phaseB s T.
  Proof.
    intros [G K1 N2 NR]. constructor; [exact G|exact K1| | |apply ord_nil_u2; exact N2].
    - intros k r Gk Ty U. exfalso. exact (NR k r Gk Ty U).
    - intros I. exfalso. exact (N2 I).
  Qed.

  Lemma phaseB_step s T o orc :
    op_ok o -> not_pub u1 o -> tagged u2 n2 q2 o -> phaseB s T ->
    phaseB (fst (step c s o orc)) (T ++ txs (snd (step c s o orc))).
  Proof.
    intros O NP Tg [G K1 K2 D Od]. pose proof G as [W H1 H2].
    assert (K1' : kept u1 n1 q1 (fst (step c s o orc))).
    { apply kept_step; try assumption. destruct o; cbn [tagged not_pub] in *; try exact Logic.I. intros E. exfalso. exact (NP E). }
    (* a stored PUBLISH of u1 after the step was stored before it *)
    assert (Old : forall k r, get k (s_infl (fst (step c s o orc))) = Some r -> r_ty r = T_PUBLISH -> r_uid r = u1 ->
                  get k (s_infl s) = Some r).
    { intros k r Gk Ty U. destruct (step_rec_source c s o orc k r C O W Gk Ty) as [G0|Own]; [exact G0|].
      exfalso. destruct o; cbn [own_record] in Own; try contradiction. cbn [not_pub] in NP. apply NP. destruct Own as [E _]. congruence. }
    pose proof (step_shape c s o orc C O W) as Sh. cbn zeta in Sh.
    assert (G' : ghost c (fst (step c s o orc)) (T ++ txs (snd (step c s o orc)))) by (apply step_ghost; assumption).
    assert (K2' : kept u2 n2 q2 (fst (step c s o orc))) by (apply kept_step; assumption).
    set (s' := fst (step c s o orc)) in *. set (t := txs (snd (step c s o orc))) in *. clearbody s' t.
    (* the two claims *)
    assert (Claim : (In u2 (T ++ t) -> ~ In u1 (T ++ t) ->
                     forall k r, get k (s_infl s') = Some r -> r_ty r = T_PUBLISH -> r_uid r <> u1) /\ ord_ok (T ++ t)).
    { assert (DeadOld : In u2 T -> ~ In u1 (T ++ t) ->
                        forall k r, get k (s_infl s') = Some r -> r_ty r = T_PUBLISH -> r_uid r <> u1).
      { intros I2 N1 k r Gk Ty U. apply (D I2 (fun X => N1 (in_or_app _ _ _ (or_introl X))) k r (Old k r Gk Ty U) Ty U). }
      destruct Sh as [E|[Dr|[R|R]]].
      - (* nothing transmitted *)
        subst t. rewrite app_nil_r. split; [|exact Od].
        intros I2 N1 k r Gk Ty U. exact (D I2 N1 k r (Old k r Gk Ty U) Ty U).
      - (* direct *)
        destruct Dr as (pq & sq & uid & grp & now & mei & pv & qf & Eo & Et & Cn & Cond). subst o. subst t.
        cbn [not_pub tagged] in *. split.
        + intros I2 N1 k r Gk Ty U. apply in_app_or in I2. destruct I2 as [I2|[I2|[]]]; [exact (DeadOld I2 N1 k r Gk Ty U)|].
          (* u2 itself would have been sent straight away although a stored u1 has never been transmitted *)
          assert (G0 : get k (s_infl s) = Some r) by (apply Old; assumption).
          assert (NT : ~ In (r_uid r) T) by (rewrite U; intros X; apply N1; apply in_or_app; left; exact X).
          pose proof (H1 Cn k r G0 Ty NT) as Mk.
          destruct (H2 k r G0 Ty NT Mk) as [A B].
          destruct (K1 k r G0 Ty U) as [_ Q1].
          destruct (Tg I2) as [_ Eq]. destruct Hq as [Z|Q2]; [lia|].
          destruct Cond as [Z|NC]; [lia|]. apply NC. split; [lia|exact B].
        + apply ord_app; [exact Od|].
          destruct (in_dec N.eq_dec u1 T) as [I1|N1]; [left; exact I1|right].
          destruct (in_dec N.eq_dec u2 T) as [I2|N2]; [left|right; split; [exact N2|apply ord_single]].
          split; [exact I2|]. intros [X|[]]. exact (NP X).
      - (* a held-back message released *)
        destruct R as (s0 & p & r & Sub & C0 & Cs & Gp & Typ & Ep & Et & Min & Sub'). subst t. split.
        + intros I2 N1 k r1 Gk Ty U. apply in_app_or in I2. destruct I2 as [I2|[I2|[]]]; [exact (DeadOld I2 N1 k r1 Gk Ty U)|].
          (* the released record is u2 while a stored u1 is still waiting: the smaller key would have gone first *)
          assert (G0 : get k (s_infl s0) = Some r1) by (apply Sub'; assumption).
          assert (Gs : get k (s_infl s) = Some r1) by (apply Sub; assumption).
          assert (NT : ~ In (r_uid r1) T) by (rewrite U; intros X; apply N1; apply in_or_app; left; exact X).
          pose proof (H1 Cs k r1 Gs Ty NT) as Mk.
          pose proof (Min k r1 G0 Mk) as Le.
          destruct (K1 k r1 Gs Ty U) as [Cr1 _].
          destruct (K2 p r (Sub p r Gp Typ) Typ I2) as [Cr2 _].
          unfold key16 in Le. rewrite Cr1, Cr2 in Le. lia.
        + apply ord_app; [exact Od|].
          destruct (in_dec N.eq_dec u1 T) as [I1|N1]; [left; exact I1|right].
          destruct (in_dec N.eq_dec u2 T) as [I2|N2]; [left|right; split; [exact N2|apply ord_single]].
          split; [exact I2|]. intros [X|[]]. exact (D I2 N1 p r (Sub p r Gp Typ) Typ X).
      - (* the resend of a resumed session *)
        destruct R as (lst & Et & Srt & InS & All). subst t. split.
        + intros _ N1 k r Gk Ty U. apply N1. apply in_or_app. right. rewrite <- U. apply (All k r); assumption.
        + apply ord_app; [exact Od|].
          destruct (in_dec N.eq_dec u1 T) as [I1|N1]; [left; exact I1|right].
          destruct (in_dec N.eq_dec u2 T) as [I2|N2].
          * left. split; [exact I2|]. intros X. apply txs_resend_inv in X. destruct X as (k & r & I & Ty & U).
            exact (D I2 N1 k r (InS k r I) Ty U).
          * right. split; [exact N2|]. apply sorted_ord; [exact Srt| |].
            -- intros k r I Ty U. apply (K1 k r); [apply InS; exact I|exact Ty|exact U].
            -- intros k r I Ty U. apply (K2 k r); [apply InS; exact I|exact Ty|exact U]. }
    destruct Claim as [D' O'].
    constructor; [exact G'|exact K1'|exact K2'|exact D'|exact O'].
  Qed.

  Definition hist_all (P : op -> Prop) (h : list (op * list N)) : Prop := forall o orc, In (o, orc) h -> P o.

  Lemma phaseA_run : forall h s T,
    hist_all op_ok h -> hist_all (tagged u1 n1 q1) h -> hist_all (not_pub u2) h -> phaseA s T ->
    phaseA (fst (run c s h)) (T ++ txs (concat (snd (run c s h)))).
  Proof.
    induction h as [|[o orc] h IH]; intros s T H1 H2 H3 P.
    - cbn. rewrite app_nil_r. exact P.
    - rewrite run_cons. cbn [fst snd concat]. rewrite txs_app, app_assoc.
      apply IH; try (intros o' orc' I; first [apply (H1 o' orc')|apply (H2 o' orc')|apply (H3 o' orc')]; right; exact I).
      apply phaseA_step; [apply (H1 o orc)|apply (H2 o orc)|apply (H3 o orc)|exact P]; left; reflexivity.
  Qed.

  Lemma phaseB_run : forall h s T,
    hist_all op_ok h -> hist_all (not_pub u1) h -> hist_all (tagged u2 n2 q2) h -> phaseB s T ->
    phaseB (fst (run c s h)) (T ++ txs (concat (snd (run c s h)))).
  Proof.
    induction h as [|[o orc] h IH]; intros s T H1 H2 H3 P.
    - cbn. rewrite app_nil_r. exact P.
    - rewrite run_cons. cbn [fst snd concat]. rewrite txs_app, app_assoc.
      apply IH; try (intros o' orc' I; first [apply (H1 o' orc')|apply (H2 o' orc')|apply (H3 o' orc')]; right; exact I).
      apply phaseB_step; [apply (H1 o orc)|apply (H2 o orc)|apply (H3 o orc)|exact P]; left; reflexivity.
  Qed.

  Lemma run_app : forall h1 h2 s,
    run c s (h1 ++ h2) =
    (fst (run c (fst (run c s h1)) h2), snd (run c s h1) ++ snd (run c (fst (run c s h1)) h2)).
  Proof.
    induction h1 as [|[o orc] h1 IH]; intros h2 s.
    - cbn [app run fst snd]. destruct (run c s h2); reflexivity.
    - cbn [app]. rewrite !run_cons. rewrite IH. cbn [fst snd]. reflexivity.
  Qed.

  (* C12, whole histories: ha = everything up to (and including) the last publication of message u1, hb = everything
     from the first publication of message u2 on.  For every oracle the first transmissions are in publish order. *)
  Theorem first_transmissions_in_order ha hb :
    hist_all op_ok (ha ++ hb) ->
    hist_all (tagged u1 n1 q1) ha -> hist_all (not_pub u2) ha ->
    hist_all (not_pub u1) hb -> hist_all (tagged u2 n2 q2) hb ->
    ord_ok (txs (concat (snd (run c init_st (ha ++ hb))))).
  Proof.
    intros Ok T1 NP2 NP1 T2.
    assert (OkA : hist_all op_ok ha) by (intros o orc I; apply (Ok o orc); apply in_or_app; left; exact I).
    assert (OkB : hist_all op_ok hb) by (intros o orc I; apply (Ok o orc); apply in_or_app; right; exact I).
    assert (P0 : phaseA init_st []).
    { constructor; [apply ghost_init|intros k r G; discriminate G|intros []|intros k r G; discriminate G]. }
    pose proof (phaseA_run ha init_st [] OkA T1 NP2 P0) as PA. cbn [app] in PA.
    pose proof (phaseB_run hb _ _ OkB NP1 T2 (phaseA_B _ _ PA)) as PB.
    rewrite run_app. cbn [snd]. rewrite concat_app, txs_app. apply PB.
  Qed.
End Pair.

(* the same in "first occurrence" words: if both messages are transmitted, u1's first transmission comes first *)
Lemma ord_ok_first u1 u2 l pre post :
  u1 <> u2 -> ord_ok u1 u2 l -> l = pre ++ u2 :: post -> ~ In u2 pre -> In u1 l -> In u1 pre.
Proof.
  intros Ne O E _ I. destruct (in_dec N.eq_dec u1 pre) as [Y|NY]; [exact Y|]. exfalso.
  rewrite E in I. apply in_app_or in I. destruct I as [I|[I|I]]; [exact (NY I)|exact (Ne (eq_sym I))|].
  exact (O pre post E NY I).
Qed.
