(* Abstract packets, connection outputs, hook events and broker snapshots as they are emitted by
   the broker harness (harness/broker/sxconv.go).  Parsers [val -> option _] only; no proofs.
   Keep the positional layouts in step with sxconv.go. *)
From MV Require Import Base.Val.
Open Scope N_scope.

Definition bind {A B} (o : option A) (f : A -> option B) : option B :=
  match o with Some x => f x | None => None end.
Notation "'do' x <- o ; f" := (bind o (fun x => f)) (at level 200, x pattern, o at level 100, f at level 200).

(* signed integers are emitted as (0 n) / (1 |n|) *)
Definition as_Z (v : val) : option Z :=
  match v with
  | VL [VN 0; VN n] => Some (Z.of_N n)
  | VL [VN 1; VN n] => Some (- Z.of_N n)%Z
  | _ => None
  end.

Definition as_NL (v : val) : option (list N) := do l <- as_L v; map_opt as_N l.
Definition as_BL (v : val) : option (list bytes) := do l <- as_L v; map_opt as_B l.

(* packet types *)
Definition T_CONNECT := 1. Definition T_CONNACK := 2. Definition T_PUBLISH := 3. Definition T_PUBACK := 4.
Definition T_PUBREC := 5.  Definition T_PUBREL := 6.  Definition T_PUBCOMP := 7. Definition T_SUBSCRIBE := 8.
Definition T_SUBACK := 9.  Definition T_UNSUBSCRIBE := 10. Definition T_UNSUBACK := 11. Definition T_PINGREQ := 12.
Definition T_PINGRESP := 13. Definition T_DISCONNECT := 14. Definition T_AUTH := 15.

Record props := {
  p_alias : N;            (* 0 = none *)
  p_subids : list N;
  p_mei : N;              (* message expiry interval *)
  p_ct : bytes; p_rt : bytes; p_cd : bytes;
  p_user : list (bytes * bytes);
  p_rs : bytes;           (* reason string *)
  p_sei : N; p_seiflag : bool;
  p_rm : N;               (* receive maximum *)
  p_tam : N;              (* topic alias maximum *)
  p_maxqos : N; p_maxqosflag : bool;
  p_aci : bytes;          (* assigned client id *)
  p_ska : N; p_skaflag : bool;
  p_pfi : N; p_pfiflag : bool;
  p_mps : N;              (* maximum packet size *)
  p_wdi : N;              (* will delay interval *)
  p_ri : bytes; p_sr : bytes;   (* response info, server reference *)
  p_rpi : N; p_rpiflag : bool;  (* request problem info *)
  p_rri : N }.

Definition as_user (v : val) : option (bytes * bytes) :=
  match v with VL [VB k; VB x] => Some (k, x) | _ => None end.

Definition as_props (v : val) : option props :=
  match v with
  | VL [VN alias; subids; VN mei; VB ct; VB rt; VB cd; VL user; VB rs; VN sei; seiflag; VN rm; VN tam;
        VN maxqos; maxqosflag; VB aci; VN ska; skaflag; VN pfi; pfiflag; VN mps; VN wdi; VB ri; VB sr;
        VN rpi; rpiflag; VN rri] =>
      do subids' <- as_NL subids;
      do user' <- map_opt as_user user;
      do f1 <- as_bool seiflag; do f2 <- as_bool maxqosflag; do f3 <- as_bool skaflag;
      do f4 <- as_bool pfiflag; do f5 <- as_bool rpiflag;
      Some {| p_alias := alias; p_subids := subids'; p_mei := mei; p_ct := ct; p_rt := rt; p_cd := cd;
              p_user := user'; p_rs := rs; p_sei := sei; p_seiflag := f1; p_rm := rm; p_tam := tam;
              p_maxqos := maxqos; p_maxqosflag := f2; p_aci := aci; p_ska := ska; p_skaflag := f3;
              p_pfi := pfi; p_pfiflag := f4; p_mps := mps; p_wdi := wdi; p_ri := ri; p_sr := sr;
              p_rpi := rpi; p_rpiflag := f5; p_rri := rri |}
  | _ => None
  end.

Record sub := { s_filter : bytes; s_qos : N; s_nolocal : bool; s_rap : bool; s_rh : N; s_id : N }.

Definition as_sub (v : val) : option sub :=
  match v with
  | VL [VB f; VN q; nl; rap; VN rh; VN id] =>
      do nl' <- as_bool nl; do rap' <- as_bool rap;
      Some {| s_filter := f; s_qos := q; s_nolocal := nl'; s_rap := rap'; s_rh := rh; s_id := id |}
  | _ => None
  end.

Record pkt := {
  k_type : N; k_dup : bool; k_qos : N; k_retain : bool; k_pid : N; k_topic : bytes; k_payload : bytes;
  k_rc : N; k_rcs : bytes; k_sp : bool; k_props : props; k_filters : list sub }.

Definition as_pkt (v : val) : option pkt :=
  match v with
  | VL [VN ty; dup; VN qos; retain; VN pid; VB topic; VB payload; VN rc; VB rcs; sp; pr; VL filters] =>
      do dup' <- as_bool dup; do retain' <- as_bool retain; do sp' <- as_bool sp;
      do pr' <- as_props pr; do fs <- map_opt as_sub filters;
      Some {| k_type := ty; k_dup := dup'; k_qos := qos; k_retain := retain'; k_pid := pid; k_topic := topic;
              k_payload := payload; k_rc := rc; k_rcs := rcs; k_sp := sp'; k_props := pr'; k_filters := fs |}
  | _ => None
  end.

Record connect := {
  c_version : N; c_clean : bool; c_keepalive : N; c_id : bytes; c_willflag : bool; c_willqos : N;
  c_willretain : bool; c_willtopic : bytes; c_willpayload : bytes; c_willdelay : N;
  c_userflag : bool; c_username : bytes; c_passflag : bool; c_password : bytes; c_props : props }.

Definition as_connect (v : val) : option connect :=
  match v with
  | VL [VN ver; clean; VN ka; VB id; wf; VN wq; wr; VB wt; VB wp; VN wd; uf; VB un; pf; VB pw; pr] =>
      do clean' <- as_bool clean; do wf' <- as_bool wf; do wr' <- as_bool wr; do uf' <- as_bool uf;
      do pf' <- as_bool pf; do pr' <- as_props pr;
      Some {| c_version := ver; c_clean := clean'; c_keepalive := ka; c_id := id; c_willflag := wf';
              c_willqos := wq; c_willretain := wr'; c_willtopic := wt; c_willpayload := wp; c_willdelay := wd;
              c_userflag := uf'; c_username := un; c_passflag := pf'; c_password := pw; c_props := pr' |}
  | _ => None
  end.

(* what one connection received during one step *)
Record outrec := { o_conn : N; o_raw : bytes; o_pkts : list pkt; o_closed : bool; o_done : bool; o_decerr : bytes }.

Definition as_out (v : val) : option outrec :=
  match v with
  | VL [VN c; VB raw; VL pks; closed; done; VB de] =>
      do pks' <- map_opt as_pkt pks; do cl <- as_bool closed; do dn <- as_bool done;
      Some {| o_conn := c; o_raw := raw; o_pkts := pks'; o_closed := cl; o_done := dn; o_decerr := de |}
  | _ => None
  end.
Definition as_outs (v : val) : option (list outrec) := do l <- as_L v; map_opt as_out l.

Record hookev := { h_name : bytes; h_client : bytes; h_pk : pkt; h_err : bytes; h_extra : bytes; h_n : N }.

Definition as_hook (v : val) : option hookev :=
  match v with
  | VL [VB nm; VB cl; pk; VB er; VB ex; VN n] =>
      do pk' <- as_pkt pk;
      Some {| h_name := nm; h_client := cl; h_pk := pk'; h_err := er; h_extra := ex; h_n := n |}
  | _ => None
  end.
Definition as_hooks (v : val) : option (list hookev) := do l <- as_L v; map_opt as_hook l.

(* snapshot *)
Record sinfl := { i_pid : N; i_type : N; i_qos : N; i_dup : bool; i_retain : bool; i_topic : bytes;
                  i_payload : bytes; i_created : Z; i_expiry : Z; i_alias : N }.

Definition as_sinfl (v : val) : option sinfl :=
  match v with
  | VL [VN pid; VN ty; VN q; dup; ret; VB t; VB p; cr; ex; VN al] =>
      do dup' <- as_bool dup; do ret' <- as_bool ret; do cr' <- as_Z cr; do ex' <- as_Z ex;
      Some {| i_pid := pid; i_type := ty; i_qos := q; i_dup := dup'; i_retain := ret'; i_topic := t;
              i_payload := p; i_created := cr'; i_expiry := ex'; i_alias := al |}
  | _ => None
  end.

Record sclient := {
  sc_id : bytes; sc_connected : bool; sc_takenover : bool; sc_stoptime : Z; sc_version : N; sc_clean : bool;
  sc_sei : N; sc_seiflag : bool; sc_willflag : N; sc_inflight : list sinfl;
  sc_sendq : Z; sc_recvq : Z; sc_maxsend : Z; sc_maxrecv : Z; sc_packetid : N; sc_subs : list sub;
  sc_outbound : N }.

Definition as_sclient (v : val) : option sclient :=
  match v with
  | VL [VB id; conn; tko; st; VN ver; clean; VN sei; seif; VN wf; VL infl; sq; rq; ms; mr; VN pid; VL subs; VN ob] =>
      do conn' <- as_bool conn; do tko' <- as_bool tko; do st' <- as_Z st; do clean' <- as_bool clean;
      do seif' <- as_bool seif; do infl' <- map_opt as_sinfl infl;
      do sq' <- as_Z sq; do rq' <- as_Z rq; do ms' <- as_Z ms; do mr' <- as_Z mr;
      do subs' <- map_opt as_sub subs;
      Some {| sc_id := id; sc_connected := conn'; sc_takenover := tko'; sc_stoptime := st'; sc_version := ver;
              sc_clean := clean'; sc_sei := sei; sc_seiflag := seif'; sc_willflag := wf; sc_inflight := infl';
              sc_sendq := sq'; sc_recvq := rq'; sc_maxsend := ms'; sc_maxrecv := mr'; sc_packetid := pid;
              sc_subs := subs'; sc_outbound := ob |}
  | _ => None
  end.

Record snap := {
  sn_clients : list sclient; sn_info_connected : Z; sn_info_subs : Z; sn_info_retained : Z; sn_info_inflight : Z;
  sn_subs : N; sn_inline : N; sn_retained : N; sn_inflight : N; sn_connected : N; sn_willdelayed : list bytes }.

Definition as_snap (v : val) : option snap :=
  match v with
  | VL [VL cls; ic; isb; ir; ii; VN asb; VN ain; VN ar; VN ai; VN ac; wd] =>
      do cls' <- map_opt as_sclient cls; do ic' <- as_Z ic; do isb' <- as_Z isb; do ir' <- as_Z ir;
      do ii' <- as_Z ii; do wd' <- as_BL wd;
      Some {| sn_clients := cls'; sn_info_connected := ic'; sn_info_subs := isb'; sn_info_retained := ir';
              sn_info_inflight := ii'; sn_subs := asb; sn_inline := ain; sn_retained := ar; sn_inflight := ai;
              sn_connected := ac; sn_willdelayed := wd' |}
  | _ => None
  end.
