(* C07 — which response each request gets.  Model of the response-deciding control flow of
   server.go (processPacket, processPublish, processPubrel, processSubscribe, processUnsubscribe,
   processPingreq, receivePacket), the specification "every request is answered or the
   connection is closed", and the engine.  No proofs here. *)
From MV Require Import Base.Val Session.Pkt.
Open Scope N_scope.

(* what the broker does in answer to one inbound packet, as far as C07 is concerned *)
Inductive resp :=
| RClose                                   (* the connection is closed (possibly after a DISCONNECT) *)
| RNone                                    (* nothing is sent back, connection stays open *)
| RAck (ty pid rc : N)                     (* PUBACK / PUBREC / PUBCOMP *)
| RCodes (ty pid : N) (rcs : list N)       (* SUBACK / UNSUBACK with one code per filter *)
| RPing.

(* the part of the broker state and configuration the decision depends on *)
Record fctx := {            (* per filter of a SUBSCRIBE / UNSUBSCRIBE *)
  f_valid : bool;           (* IsValidFilter(filter, false) *)
  f_shared : bool;          (* IsSharedFilter(filter) *)
  f_acl : bool;             (* read permission *)
  f_existed : bool }.       (* (unsubscribe) the subscription existed in the index *)

Record ctx := {
  x_ver : N;                (* protocol version of the connection: 3, 4, 5 *)
  x_maxqos : N;             (* Capabilities.MaximumQos *)
  x_obscure : bool;         (* Compatibilities.ObscureNotAuthorized *)
  x_topic_valid : bool;     (* IsValidFilter(topic, true) for a PUBLISH *)
  x_recvq : Z;              (* receive quota before the packet *)
  x_acl_write : bool;       (* write permission on the PUBLISH topic *)
  x_infl : option N;        (* type of the in-flight record stored under the packet's id, if any *)
  x_filters : list fctx;
  x_too_large : bool }.     (* the required response exceeds the Maximum Packet Size the (v5) client announced *)

Definition ack_type_for_qos (qos : N) : N := if qos =? 2 then T_PUBREC else T_PUBACK.

(* the in-flight record under this id is the PUBREC of an unreleased inbound QoS 2 publish *)
Definition is_pubrec_rec (o : option N) : bool := match o with Some t => t =? T_PUBREC | None => false end.

(* processPublish up to the acknowledgement (hooks that reject are excluded by the property) *)
Definition model_publish (c : ctx) (p : pkt) : resp :=
  let qos := k_qos p in
  if negb (x_topic_valid c) then
    if qos =? 0 then RNone else RAck (ack_type_for_qos qos) (k_pid p) 144   (* 0x90, after fix C07-1 *)
  else if (x_recvq c =? 0)%Z then RClose                                     (* DISCONNECT 0x93 *)
  else if negb (x_acl_write c) then
    if qos =? 0 then RNone
    else if negb (x_ver c =? 5) then RClose
    else RAck (ack_type_for_qos qos) (k_pid p) 135                           (* 0x87 *)
  else
    if is_pubrec_rec (x_infl c) (* QoS 2 retransmission *) then RAck T_PUBREC (k_pid p) 145   (* 0x91 *)
    else
      let qos' := if x_maxqos c <? qos then x_maxqos c else qos in   (* downgrade to the server maximum *)
      if qos' =? 0 then RNone
      else if qos' =? 2 then RAck T_PUBREC (k_pid p) 0
      else RAck T_PUBACK (k_pid p) 0.

Definition pubrel_reason_ok (rc : N) : bool := (rc =? 0) || (rc =? 146).

Definition model_pubrel (c : ctx) (p : pkt) : resp :=
  match x_infl c with
  | None => RAck T_PUBCOMP (k_pid p) 146                                   (* 0x92 packet id not found *)
  | Some _ =>
      if (128 <=? k_rc p) || negb (pubrel_reason_ok (k_rc p)) then RNone   (* record deleted, no PUBCOMP *)
      else RAck T_PUBCOMP (k_pid p) 0
  end.

Definition sub_code (c : ctx) (inuse : bool) (f : fctx) (s : sub) : N :=
  let raw :=
    if inuse then 145    (* 0x91; mapped to 0x80 for MQTT 3 like every other failure (fix 273d690) *)
    else if negb (f_valid f) then 143
    else if s_nolocal s && f_shared f then 130           (* 0x82 protocol error: shared + no-local *)
    else if negb (f_acl f) then (if x_obscure c then 128 else 135)
    else if x_maxqos c <? s_qos s then x_maxqos c else s_qos s in
  if (2 <? raw) && (x_ver c <? 5) then 128 else raw.

Fixpoint zip_with {A B C} (f : A -> B -> C) (a : list A) (b : list B) : list C :=
  match a, b with x :: a', y :: b' => f x y :: zip_with f a' b' | _, _ => [] end.

Definition inuse (c : ctx) : bool := match x_infl c with Some _ => true | None => false end.

Definition model_subscribe (c : ctx) (p : pkt) : resp :=
  RCodes T_SUBACK (k_pid p) (zip_with (sub_code c (inuse c)) (x_filters c) (k_filters p)).

Definition unsub_code (c : ctx) (f : fctx) : N :=
  if inuse c then 145 else if f_existed f then 0 else 17.

Definition model_unsubscribe (c : ctx) (p : pkt) : resp :=
  RCodes T_UNSUBACK (k_pid p) (map (unsub_code c) (x_filters c)).

Definition model_response (c : ctx) (p : pkt) : resp :=
  let t := k_type p in
  if t =? T_PUBLISH then model_publish c p
  else if t =? T_PUBREL then model_pubrel c p
  else if t =? T_SUBSCRIBE then model_subscribe c p
  else if t =? T_UNSUBSCRIBE then model_unsubscribe c p
  else if t =? T_PINGREQ then RPing
  else RNone.

(* clients.go WritePacket refuses a packet larger than the client's Maximum Packet Size (ErrPacketTooLarge);
   receivePacket turns the error into DISCONNECT 0x95 and the end of the connection: the request is not answered
   but the connection is closed, which the property allows *)
Definition model_response_sized (c : ctx) (p : pkt) : resp :=
  let r := model_response c p in
  if x_too_large c then match r with RNone => RNone | _ => RClose end else r.

(* ---------- specification (from the property text) ---------- *)

(* well-formed requests the property speaks about *)
Definition wf_request (c : ctx) (p : pkt) : bool :=
  let t := k_type p in
  if t =? T_PUBLISH then
    (((k_qos p =? 0) && (k_pid p =? 0)) || (((k_qos p =? 1) || (k_qos p =? 2)) && (0 <? k_pid p)))
    (* a QoS 1 publish must not reuse the identifier of the client's own unreleased QoS 2 publish *)
    && negb ((k_qos p =? 1) && is_pubrec_rec (x_infl c))
  else if t =? T_PUBREL then (0 <? k_pid p) && pubrel_reason_ok (k_rc p)
  else if (t =? T_SUBSCRIBE) || (t =? T_UNSUBSCRIBE) then
    (0 <? k_pid p) && negb (N.of_nat (length (k_filters p)) =? 0)
    && (N.of_nat (length (k_filters p)) =? N.of_nat (length (x_filters c)))
  else t =? T_PINGREQ.

(* the response the protocol requires: (type, pid, number of reason codes or None) *)
Definition required (p : pkt) : option (N * N * option nat) :=
  let t := k_type p in
  if t =? T_PUBLISH then
    if k_qos p =? 1 then Some (T_PUBACK, k_pid p, None)
    else if k_qos p =? 2 then Some (T_PUBREC, k_pid p, None)
    else None
  else if t =? T_PUBREL then Some (T_PUBCOMP, k_pid p, None)
  else if t =? T_SUBSCRIBE then Some (T_SUBACK, k_pid p, Some (length (k_filters p)))
  else if t =? T_UNSUBSCRIBE then Some (T_UNSUBACK, k_pid p, Some (length (k_filters p)))
  else if t =? T_PINGREQ then Some (T_PINGRESP, 0, None)
  else None.

(* does an abstract response satisfy the requirement? *)
Definition resp_ok (p : pkt) (r : resp) : bool :=
  match r with
  | RClose => true
  | _ =>
    match required p with
    | None => true
    | Some (ty, pid, n) =>
        match r with
        | RAck ty' pid' _ => (ty' =? ty) && (pid' =? pid)
        | RCodes ty' pid' rcs =>
            (ty' =? ty) && (pid' =? pid) && match n with Some k => Nat.eqb (length rcs) k | None => true end
        | RPing => ty =? T_PINGRESP
        | _ => false
        end
    end
  end.

(* the same requirement evaluated on what a connection actually received *)
Definition matches_req (ver : N) (ty pid : N) (n : option nat) (q : pkt) : bool :=
  (k_type q =? ty) && ((ty =? T_PINGRESP) || (k_pid q =? pid)) &&
  match n with
  | Some k => if (ty =? T_UNSUBACK) && (ver <? 5) then true          (* MQTT 3 UNSUBACK has no codes *)
              else Nat.eqb (length (k_rcs q)) k
  | None => true
  end.

Definition obs_ok (ver : N) (p : pkt) (outs : list pkt) (closed : bool) : bool :=
  closed ||
  match required p with
  | None => true
  | Some (ty, pid, n) => Nat.eqb (length (filter (matches_req ver ty pid n) outs)) 1
  end.

(* ---------- known findings (narrow, executable) ---------- *)

(* C07-2: a PUBREL carrying 0x92 for an id the broker knows is dropped without PUBCOMP
   (pinned by TestServerProcessPacketPubrelBadReason) *)
Definition KF_C07_pubrel_error (c : ctx) (p : pkt) : bool :=
  (k_type p =? T_PUBREL) && (128 <=? k_rc p) && inuse c.

(* C07-3: a publish above the server's maximum QoS is silently downgraded, so a QoS 2 publish is
   answered with PUBACK (max 1) or not at all (max 0) (pinned by TestServerProcessPacketPublishDowngradeQos) *)
Definition KF_C07_qos_downgrade (c : ctx) (p : pkt) : bool :=
  (k_type p =? T_PUBLISH) && (x_maxqos c <? k_qos p).

(* ---------- comparison of the observation with the model's abstract response ---------- *)

Definition rcs_of (q : pkt) : list N := k_rcs q.

Definition obs_matches_model (ver : N) (r : resp) (outs : list pkt) (closed : bool) : bool :=
  match r with
  | RClose => closed
  | RNone => negb closed && negb (existsb (fun q =>
               (k_type q =? T_PUBACK) || (k_type q =? T_PUBREC) || (k_type q =? T_PUBCOMP) ||
               (k_type q =? T_SUBACK) || (k_type q =? T_UNSUBACK) || (k_type q =? T_PINGRESP)) outs)
  | RAck ty pid rc =>
      negb closed &&
      existsb (fun q => (k_type q =? ty) && (k_pid q =? pid) &&
                        ((ver <? 5) || (k_rc q =? rc) || ((rc <? 128) && (k_rc q =? 0)))) outs
      (* MQTT 3 acks carry no reason; a success-class reason without properties is not encoded (C26-1) *)
  | RCodes ty pid rcs =>
      negb closed &&
      existsb (fun q => (k_type q =? ty) && (k_pid q =? pid) &&
                        (((ty =? T_UNSUBACK) && (ver <? 5)) || beq_bytes (k_rcs q) rcs)) outs
  | RPing => negb closed && existsb (fun q => k_type q =? T_PINGRESP) outs
  end.

(* ---------- engine ----------
   case = (ver maxqos obscure topic_valid recvq acl_write infl filters request outs closed too_large)
     infl    = () or (type)        filters = list of (valid shared acl existed)
     request = pkt                 outs = list of pkt received on the requesting connection *)
Definition as_fctx (v : val) : option fctx :=
  match v with
  | VL [a; b; c; d] =>
      do a' <- as_bool a; do b' <- as_bool b; do c' <- as_bool c; do d' <- as_bool d;
      Some {| f_valid := a'; f_shared := b'; f_acl := c'; f_existed := d' |}
  | _ => None
  end.

Definition class_tag (p : pkt) : bytes :=
  let t := k_type p in
  if t =? T_PUBLISH then (if k_qos p =? 0 then tag "publish0" else if k_qos p =? 1 then tag "publish1" else tag "publish2")
  else if t =? T_PUBREL then tag "pubrel"
  else if t =? T_SUBSCRIBE then tag "subscribe"
  else if t =? T_UNSUBSCRIBE then tag "unsubscribe"
  else if t =? T_PINGREQ then tag "pingreq" else tag "other".

(* ENGINE respond Session.Respond.respond_engine *)
Definition respond_engine (v : val) : val :=
  match v with
  | VL [VN ver; VN maxqos; obscure; tv; rq; aw; VL infl; VL fl; req; VL outs; closed; toolarge] =>
      match as_bool obscure, as_bool tv, as_Z rq, as_bool aw, map_opt as_fctx fl, as_pkt req,
            map_opt as_pkt outs, as_bool closed, as_bool toolarge with
      | Some ob, Some tv', Some rq', Some aw', Some fl', Some p, Some outs', Some cl, Some tl =>
          let infl' := match infl with [VN t] => Some t | _ => None end in
          let c := {| x_ver := ver; x_maxqos := maxqos; x_obscure := ob; x_topic_valid := tv'; x_recvq := rq';
                      x_acl_write := aw'; x_infl := infl'; x_filters := fl'; x_too_large := tl |} in
          let tg := if tl then tag "response-too-large" else class_tag p in
          if negb (wf_request c p) then verdict 0 (tag "not-wellformed") false []
          else
            let m := model_response_sized c p in
            let nontriv := match required p with Some _ => true | None => false end in
            if negb (obs_ok ver p outs' cl) then
              if KF_C07_pubrel_error c p then verdict 3 tg nontriv [VB (tag "KF_C07_pubrel_error")]
              else if KF_C07_qos_downgrade c p then verdict 3 tg nontriv [VB (tag "KF_C07_qos_downgrade")]
              else verdict 1 tg nontriv []
            else if obs_matches_model ver m outs' cl then verdict 0 tg nontriv []
            else verdict 2 tg nontriv []
      | _, _, _, _, _, _, _, _, _ => bad_case
      end
  | _ => bad_case
  end.
