(* Proofs about the session model of Inflight.v that all of C08-C12 rest on: the association-list
   map, NextPacketID, and the well-formedness invariant kept by every operation from every state
   (hence along every history, for every oracle). *)
From MV Require Import Base.Val Session.Pkt Session.Inflight.
From Coq Require Import Lia ZifyBool ZifyN ZifyNat.
Open Scope N_scope.

(* ---------- the map ---------- *)
Definition keys (m : imap) : list N := map fst m.

Lemma get_del_same k m : get k (del k m) = None.
Proof.
  induction m as [|[k' v] m IH]; cbn; [reflexivity|].
  destruct (k' =? k) eqn:E; [exact IH|]. cbn. rewrite E. exact IH.
Qed.

Lemma get_del_other k k' m : k <> k' -> get k (del k' m) = get k m.
Proof.
  intros N. induction m as [|[k0 v] m IH]; cbn; [reflexivity|].
  destruct (k0 =? k') eqn:E.
  - destruct (k0 =? k) eqn:E2; [lia|exact IH].
  - cbn. destruct (k0 =? k); [reflexivity|exact IH].
Qed.

Lemma get_set_same k v m : get k (set k v m) = Some v.
Proof. unfold set. cbn. rewrite N.eqb_refl. reflexivity. Qed.

Lemma get_set_other k k' v m : k <> k' -> get k (set k' v m) = get k m.
Proof.
  intros N. unfold set. cbn. destruct (k' =? k) eqn:E; [lia|]. apply get_del_other. exact N.
Qed.

Lemma get_in_keys k m r : get k m = Some r -> In k (keys m).
Proof.
  induction m as [|[k' v] m IH]; cbn; [discriminate|].
  destruct (k' =? k) eqn:E; intros H.
  - left. lia.
  - right. apply IH. exact H.
Qed.

Lemma get_none_notin k m : get k m = None -> ~ In k (keys m).
Proof.
  induction m as [|[k' v] m IH]; cbn; [tauto|].
  destruct (k' =? k) eqn:E; [discriminate|]. intros H [A|A]; [lia|]. exact (IH H A).
Qed.

Lemma notin_get_none k m : ~ In k (keys m) -> get k m = None.
Proof.
  induction m as [|[k' v] m IH]; cbn; [reflexivity|].
  intros H. destruct (k' =? k) eqn:E; [exfalso; apply H; left; lia|]. apply IH. tauto.
Qed.

Lemma keys_del_incl k m x : In x (keys (del k m)) -> In x (keys m) /\ x <> k.
Proof.
  induction m as [|[k' v] m IH]; cbn; [tauto|].
  destruct (k' =? k) eqn:E.
  - intros H. destruct (IH H). split; [right; assumption|assumption].
  - cbn. intros [A|A]; [split; [left; exact A|lia]|]. destruct (IH A). split; [right; assumption|assumption].
Qed.

Lemma nodup_del k m : NoDup (keys m) -> NoDup (keys (del k m)).
Proof.
  induction m as [|[k' v] m IH]; cbn; intros H; [constructor|].
  inversion H as [|? ? Hn Hd]; subst.
  destruct (k' =? k); [apply IH; exact Hd|]. cbn. constructor; [|apply IH; exact Hd].
  intros A. apply keys_del_incl in A. tauto.
Qed.

Lemma nodup_set k v m : NoDup (keys m) -> NoDup (keys (set k v m)).
Proof.
  intros H. unfold set. cbn. constructor; [|apply nodup_del; exact H].
  intros A. apply keys_del_incl in A. tauto.
Qed.

Lemma del_absent k m : get k m = None -> del k m = m.
Proof.
  induction m as [|[k' v] m IH]; cbn; [reflexivity|].
  destruct (k' =? k); [discriminate|]. intros H. f_equal. apply IH. exact H.
Qed.

Lemma get_del_some k k' m r : get k (del k' m) = Some r -> get k m = Some r /\ k <> k'.
Proof.
  intros H. destruct (N.eq_dec k k') as [->|N].
  - rewrite get_del_same in H. discriminate.
  - rewrite get_del_other in H by exact N. tauto.
Qed.

Lemma mem_true_iff k m : mem k m = true <-> exists r, get k m = Some r.
Proof. unfold mem. destruct (get k m); split; intros H; eauto; try discriminate. destruct H; discriminate. Qed.

Lemma mem_false_iff k m : mem k m = false <-> get k m = None.
Proof. unfold mem. destruct (get k m); split; intros H; congruence. Qed.

(* filter keeps a sub-map *)
Lemma get_filter_some (f : N * rec -> bool) k m r :
  NoDup (keys m) -> get k (filter f m) = Some r -> get k m = Some r.
Proof.
  induction m as [|[k' v] m IH]; cbn; [discriminate|].
  intros Hn. inversion Hn as [|? ? Hni Hd]; subst.
  destruct (f (k', v)) eqn:F; cbn.
  - destruct (k' =? k); [tauto|]. apply IH. exact Hd.
  - intros H. destruct (k' =? k) eqn:E.
    + exfalso. apply Hni. apply IH in H; [|exact Hd]. apply get_in_keys in H. replace k' with k by lia. exact H.
    + apply IH; assumption.
Qed.

Lemma keys_filter_incl (f : N * rec -> bool) m x : In x (keys (filter f m)) -> In x (keys m).
Proof.
  induction m as [|kv m IH]; cbn; [tauto|]. destruct (f kv); cbn; intros H; tauto.
Qed.

Lemma nodup_filter (f : N * rec -> bool) m : NoDup (keys m) -> NoDup (keys (filter f m)).
Proof.
  induction m as [|kv m IH]; cbn; intros H; [constructor|].
  inversion H as [|? ? Hn Hd]; subst. destruct (f kv); cbn; [|apply IH; exact Hd].
  constructor; [|apply IH; exact Hd]. intros A. apply Hn. eapply keys_filter_incl. exact A.
Qed.

(* ---------- NextPacketID ---------- *)
Lemma next_pid_loop_sound fuel maxpid m started i ov p :
  next_pid_loop fuel maxpid m started i ov = Some p -> 1 <= p <= maxpid /\ mem p m = false.
Proof.
  revert i ov. induction fuel as [|f IH]; cbn; intros i ov H; [discriminate|].
  destruct (ov && (i =? started)); [discriminate|].
  destruct (maxpid <=? i) eqn:E; [eapply IH; exact H|].
  destruct (mem (i + 1) m) eqn:M; [eapply IH; exact H|].
  inversion H; subst. split; [lia|exact M].
Qed.

Lemma next_pid_sound c s p :
  next_pid c s = Some p -> 1 <= p <= c_maxpid c /\ get p (s_infl s) = None.
Proof.
  unfold next_pid. intros H. apply next_pid_loop_sound in H. destruct H as [A B].
  split; [exact A|]. apply mem_false_iff. exact B.
Qed.

Ltac sproj := cbn [s_infl s_sendq s_recvq s_maxsend s_maxrecv s_present s_conn s_v5 s_clean s_exp s_pid
                      with_infl with_sendq with_recvq with_pid with_conn fresh init_st].
Ltac sproj_in H := cbn [s_infl s_sendq s_recvq s_maxsend s_maxrecv s_present s_conn s_v5 s_clean s_exp s_pid
                      with_infl with_sendq with_recvq with_pid with_conn fresh init_st] in H.

(* ---------- well-formed states ---------- *)
Definition cfg_ok (c : cfg) : Prop := (0 <= c_srvrm c)%Z /\ (0 <= c_maxexp c)%Z.

(* wall-clock readings are not negative *)
Definition op_ok (o : op) : Prop :=
  match o with
  | OutPublish _ _ _ _ now _ _ _ | InPublish _ _ _ _ now | InAck _ _ _ now | Expire now => (0 <= now)%Z
  | _ => True
  end.

Record wf (c : cfg) (s : st) : Prop := {
  wf_nodup : NoDup (keys (s_infl s));
  wf_sq : (0 <= s_sendq s <= s_maxsend s)%Z;
  wf_rq : (0 <= s_recvq s <= s_maxrecv s)%Z;
  (* outbound PUBLISH records sit under identifiers handed out by NextPacketID *)
  wf_pub : forall k r, get k (s_infl s) = Some r -> r_ty r = T_PUBLISH -> 1 <= k <= c_maxpid c;
  (* only outbound PUBLISH records carry the "send when quota frees" mark *)
  wf_imm : forall k r, get k (s_infl s) = Some r -> (r_expiry r < 0)%Z -> r_ty r = T_PUBLISH }.

Lemma wf_init c : wf c init_st.
Proof. constructor; cbn; try lia; [constructor|discriminate|discriminate]. Qed.

Lemma dec_range q m : (0 <= q <= m)%Z -> (0 <= dec q <= m)%Z.
Proof. unfold dec. destruct (0 <? q)%Z eqn:E; lia. Qed.
Lemma inc_range q m : (0 <= q <= m)%Z -> (0 <= inc q m <= m)%Z.
Proof. unfold inc. destruct (q <? m)%Z eqn:E; lia. Qed.

(* a state whose map is a sub-map of a well-formed one, with quotas in range, is well-formed *)
Lemma wf_sub c s s' :
  wf c s ->
  NoDup (keys (s_infl s')) ->
  (forall k r, get k (s_infl s') = Some r -> get k (s_infl s) = Some r) ->
  (0 <= s_sendq s' <= s_maxsend s')%Z -> (0 <= s_recvq s' <= s_maxrecv s')%Z ->
  wf c s'.
Proof.
  intros W N S Q R. constructor; try assumption.
  - intros k r G T. eapply (wf_pub c s W). apply S; eassumption. exact T.
  - intros k r G T. eapply (wf_imm c s W). apply S; eassumption. exact T.
Qed.

Lemma wf_with_infl_del c s k : wf c s -> wf c (with_infl s (del k (s_infl s))).
Proof.
  intros W. apply (wf_sub c s); sproj; try apply W.
  - apply nodup_del. apply W.
  - intros k0 r G. apply get_del_some in G. tauto.
Qed.

Lemma wf_with_sendq c s q : wf c s -> (0 <= q <= s_maxsend s)%Z -> wf c (with_sendq s q).
Proof. intros W Q. apply (wf_sub c s); sproj; try apply W; try assumption. tauto. Qed.
Lemma wf_with_recvq c s q : wf c s -> (0 <= q <= s_maxrecv s)%Z -> wf c (with_recvq s q).
Proof. intros W Q. apply (wf_sub c s); sproj; try apply W; try assumption. tauto. Qed.
Lemma wf_with_conn c s b : wf c s -> wf c (with_conn s b).
Proof. intros W. apply (wf_sub c s); sproj; try apply W. tauto. Qed.
Lemma wf_with_pid c s p : wf c s -> wf c (with_pid s p).
Proof. intros W. apply (wf_sub c s); sproj; try apply W. tauto. Qed.

Lemma wf_set_ack c s k ty uid now :
  cfg_ok c -> (0 <= now)%Z ->
  wf c s -> ty <> T_PUBLISH -> wf c (with_infl s (set k (ack_rec ty uid c now) (s_infl s))).
Proof.
  intros [_ C] Nw W T. constructor; sproj; try apply W.
  - apply nodup_set. apply W.
  - intros k0 r G Ty. destruct (N.eq_dec k0 k) as [->|Ne].
    + rewrite get_set_same in G. inversion G; subst. cbn in Ty. contradiction.
    + rewrite get_set_other in G by exact Ne. eapply (wf_pub c s W); eassumption.
  - intros k0 r G E. destruct (N.eq_dec k0 k) as [->|Ne].
    + rewrite get_set_same in G. inversion G; subst. cbn in E. lia.
    + rewrite get_set_other in G by exact Ne. eapply (wf_imm c s W); eassumption.
Qed.

Lemma wf_set_pub c s k r :
  wf c s -> 1 <= k <= c_maxpid c -> r_ty r = T_PUBLISH -> wf c (with_infl s (set k r (s_infl s))).
Proof.
  intros W K T. constructor; sproj; try apply W.
  - apply nodup_set. apply W.
  - intros k0 r0 G Ty. destruct (N.eq_dec k0 k) as [->|Ne]; [exact K|].
    rewrite get_set_other in G by exact Ne. eapply (wf_pub c s W); eassumption.
  - intros k0 r0 G E. destruct (N.eq_dec k0 k) as [->|Ne].
    + rewrite get_set_same in G. inversion G; subst. exact T.
    + rewrite get_set_other in G by exact Ne. eapply (wf_imm c s W); eassumption.
Qed.

Lemma wf_deferred c s orc : wf c s -> wf c (fst (deferred s orc)).
Proof.
  intros W. unfold deferred.
  destruct ((0 <? len (s_infl s)) && (0 <? s_sendq s)%Z); [|exact W].
  destruct (next_immediate orc (s_infl s)) as [[p r]|]; [|exact W]. cbn [fst].
  apply wf_with_sendq; [apply wf_with_infl_del; exact W|].
  sproj. apply dec_range. apply W.
Qed.

Lemma wf_teardown c s : wf c s -> wf c (teardown s).
Proof. intros W. unfold teardown. destruct (s_exp s); [apply wf_init|apply wf_with_conn; exact W]. Qed.

Lemma wf_out_publish c s pq sq uid now mei pv qf :
  wf c s -> wf c (fst (out_publish c s pq sq uid now mei pv qf)).
Proof.
  intros W. unfold out_publish.
  destruct ((if sq <? pq then sq else pq) =? 0).
  { destruct (s_conn s); exact W. }
  destruct (c_maxinfl c <=? len (s_infl s)); [exact W|].
  destruct (next_pid c s) as [i|] eqn:NP; [|exact W].
  apply next_pid_sound in NP. destruct NP as [R G].
  cbn zeta.
  set (r := {| r_ty := T_PUBLISH; r_qos := _; r_uid := uid; r_created := now; r_expiry := _; r_pv5 := pv |}).
  set (s1 := with_pid s i).
  assert (W1 : wf c s1) by (apply wf_with_pid; exact W).
  set (s2 := with_infl s1 (set i r (s_infl s1))).
  assert (W2 : wf c s2) by (apply wf_set_pub; [assumption|assumption|reflexivity]).
  set (s3 := if negb (mem i (s_infl s1)) then with_sendq s2 (dec (s_sendq s2)) else s2).
  assert (W3 : wf c s3).
  { unfold s3. destruct (negb (mem i (s_infl s1))); [|exact W2].
    apply wf_with_sendq; [exact W2|]. apply dec_range. apply W2. }
  destruct ((s_sendq s1 =? 0)%Z && (0 <? s_maxsend s3)%Z).
  { cbn [fst]. apply wf_set_pub; [assumption|assumption|reflexivity]. }
  destruct (negb (s_conn s3)); [exact W3|].
  destruct qf; [|exact W3]. cbn [fst].
  apply wf_with_sendq; [apply wf_with_infl_del; exact W3|].
  sproj. apply inc_range. apply W3.
Qed.

Lemma wf_in_publish c s qos pid uid now orc :
  cfg_ok c -> (0 <= now)%Z ->
  wf c s -> wf c (fst (in_publish c s qos pid uid now orc)).
Proof.
  intros C Nw W. unfold in_publish.
  destruct (s_recvq s =? 0)%Z; [apply wf_teardown; exact W|].
  destruct (match get pid (s_infl s) with Some r => r_ty r =? T_PUBREC | None => false end).
  { pose proof (wf_deferred c s orc W) as D. destruct (deferred s orc). exact D. }
  set (s1 := with_infl s (del pid (s_infl s))).
  assert (W1 : wf c s1) by (apply wf_with_infl_del; exact W).
  destruct (qos =? 0).
  { pose proof (wf_deferred c s1 orc W1) as D. destruct (deferred s1 orc). exact D. }
  cbn zeta.
  set (s2 := with_recvq s1 (dec (s_recvq s1))).
  assert (W2 : wf c s2) by (apply wf_with_recvq; [exact W1|apply dec_range; apply W1]).
  set (aty := if qos =? 2 then T_PUBREC else T_PUBACK).
  assert (A : aty <> T_PUBLISH) by (unfold aty, T_PUBREC, T_PUBACK, T_PUBLISH; destruct (qos =? 2); lia).
  set (s3 := with_infl s2 (set pid (ack_rec aty uid c now) (s_infl s2))).
  assert (W3 : wf c s3) by (apply wf_set_ack; assumption).
  set (s4 := if qos =? 1 then _ else s3).
  assert (W4 : wf c s4).
  { unfold s4. destruct (qos =? 1); [|exact W3].
    apply wf_with_recvq; [apply wf_with_infl_del; exact W3|]. sproj. apply inc_range. apply W3. }
  pose proof (wf_deferred c s4 orc W4) as D. destruct (deferred s4 orc). exact D.
Qed.

Lemma wf_in_ack c s ty pid rc now orc :
  cfg_ok c -> (0 <= now)%Z ->
  wf c s -> wf c (fst (in_ack c s ty pid rc now orc)).
Proof.
  intros C Nw W. unfold in_ack.
  assert (DW : forall s0, wf c s0 -> wf c (fst (deferred s0 orc))) by (intros; apply wf_deferred; assumption).
  assert (DW2 : forall s0 x, wf c s0 -> wf c (fst (let '(s', o) := deferred s0 orc in (s', x :: o)))).
  { intros s0 x W0. pose proof (DW s0 W0) as D. destruct (deferred s0 orc). exact D. }
  destruct (ty =? T_PUBACK).
  { destruct (get pid (s_infl s)); [|apply DW; exact W].
    apply DW. apply wf_with_sendq; [apply wf_with_infl_del; exact W|]. sproj. apply inc_range. apply W. }
  destruct (ty =? T_PUBREC).
  { destruct (get pid (s_infl s)) as [r|]; [|apply DW2; exact W].
    destruct ((128 <=? rc) || negb (pubrec_rc_valid rc)); [apply DW; apply wf_with_infl_del; exact W|].
    apply DW2. apply wf_set_ack; [exact C|exact Nw| |unfold T_PUBREL, T_PUBLISH; lia].
    apply wf_with_recvq; [exact W|apply dec_range; apply W]. }
  destruct (ty =? T_PUBREL).
  { destruct (get pid (s_infl s)) as [r|]; [|apply DW2; exact W].
    destruct ((128 <=? rc) || negb (pubrel_rc_valid rc)); [apply DW; apply wf_with_infl_del; exact W|].
    apply DW2. cbn zeta.
    set (s1 := with_infl s (set pid (ack_rec T_PUBCOMP (r_uid r) c now) (s_infl s))).
    assert (W1 : wf c s1) by (apply wf_set_ack; [exact C|exact Nw|exact W|unfold T_PUBCOMP, T_PUBLISH; lia]).
    set (s2 := with_recvq s1 (inc (s_recvq s1) (s_maxrecv s1))).
    assert (W2 : wf c s2) by (apply wf_with_recvq; [exact W1|apply inc_range; apply W1]).
    set (s3 := with_sendq s2 (inc (s_sendq s2) (s_maxsend s2))).
    assert (W3 : wf c s3) by (apply wf_with_sendq; [exact W2|apply inc_range; apply W2]).
    apply wf_with_infl_del. exact W3. }
  destruct (ty =? T_PUBCOMP); [|exact W].
  apply DW. cbn zeta.
  set (s1 := with_recvq s (inc (s_recvq s) (s_maxrecv s))).
  assert (W1 : wf c s1) by (apply wf_with_recvq; [exact W|apply inc_range; apply W]).
  set (s2 := with_sendq s1 (inc (s_sendq s1) (s_maxsend s1))).
  assert (W2 : wf c s2) by (apply wf_with_sendq; [exact W1|apply inc_range; apply W1]).
  apply wf_with_infl_del. exact W2.
Qed.

Lemma resend_sub l : forall m m' o,
  resend l m = (m', o) -> NoDup (keys m) ->
  NoDup (keys m') /\ forall k r, get k m' = Some r -> get k m = Some r.
Proof.
  induction l as [|[p r] l IH]; intros m m' o H N.
  - cbn in H. inversion H; subst. tauto.
  - cbn [resend] in H.
    remember (if (r_ty r =? T_PUBACK) || (r_ty r =? T_PUBCOMP) then del p m else m) as m1 eqn:M1.
    destruct (resend l m1) as [m2 o2] eqn:R. inversion H; subst m' o. clear H.
    assert (N1 : NoDup (keys m1)).
    { subst m1. destruct ((r_ty r =? T_PUBACK) || (r_ty r =? T_PUBCOMP)); [apply nodup_del; exact N|exact N]. }
    destruct (IH _ _ _ R N1) as [A B]. split; [exact A|].
    intros k r0 G. apply B in G. subst m1.
    destruct ((r_ty r =? T_PUBACK) || (r_ty r =? T_PUBCOMP)); [apply get_del_some in G; tauto|exact G].
Qed.

Lemma wf_fresh c v5 clean sei rm m z :
  cfg_ok c -> NoDup (keys m) ->
  (forall k r, get k m = Some r -> r_ty r = T_PUBLISH -> 1 <= k <= c_maxpid c) ->
  (forall k r, get k m = Some r -> (r_expiry r < 0)%Z -> r_ty r = T_PUBLISH) ->
  wf c (fresh c v5 clean sei rm m z).
Proof.
  intros [C _] N P I. constructor; sproj; try assumption; destruct z; lia.
Qed.

Lemma wf_reconnect c s v5 clean sei rm orc :
  cfg_ok c -> wf c s -> wf c (fst (reconnect c s v5 clean sei rm orc)).
Proof.
  intros C W. unfold reconnect.
  assert (F0 : forall z, wf c (fresh c v5 clean sei rm [] z)).
  { intros z. apply wf_fresh; [exact C|constructor|cbn; discriminate|cbn; discriminate]. }
  destruct (s_present s); [|apply F0].
  destruct (clean || (s_clean s && negb (s_v5 s))); [apply F0|].
  set (s1 := if 0 <? len (s_infl s) then _ else _).
  assert (W1 : wf c s1).
  { unfold s1. destruct (0 <? len (s_infl s)); [|apply F0].
    apply wf_fresh; [exact C|apply W|apply W|apply W]. }
  destruct (resend (get_all orc (s_infl s1)) (s_infl s1)) as [m o] eqn:R. cbn [fst].
  apply resend_sub in R; [|apply W1]. destruct R as [A B].
  apply (wf_sub c s1); sproj; try apply W1; try assumption.
Qed.

Theorem step_wf c s o orc : cfg_ok c -> op_ok o -> wf c s -> wf c (fst (step c s o orc)).
Proof.
  intros C O W. destruct o; cbn [step]; cbn [op_ok] in O.
  - destruct (s_present s); [apply wf_out_publish; exact W|exact W].
  - destruct (s_present s && s_conn s); [apply wf_in_publish; assumption|exact W].
  - destruct (s_present s && s_conn s); [apply wf_in_ack; assumption|exact W].
  - destruct (s_present s && s_conn s); [apply wf_deferred; exact W|exact W].
  - destruct (s_present s && s_conn s); [|exact W].
    destruct graceful; [|apply wf_teardown; exact W].
    pose proof (wf_deferred c (with_conn s false) orc (wf_with_conn c s false W)) as D.
    destruct (deferred (with_conn s false) orc). cbn [fst] in *. apply wf_teardown. exact D.
  - apply wf_reconnect; assumption.
  - destruct (s_present s); [|exact W]. cbn [fst].
    apply (wf_sub c s); sproj; try apply W.
    + apply nodup_filter. apply W.
    + intros k r G. eapply get_filter_some; [apply W|exact G].
Qed.

Definition hist_ok (h : list (op * list N)) : Prop := forall o orc, In (o, orc) h -> op_ok o.

(* every state reached by any history, under any oracles, is well-formed *)
Theorem run_wf c : cfg_ok c -> forall h s, hist_ok h -> wf c s -> wf c (fst (run c s h)).
Proof.
  intros C. induction h as [|[o orc] h IH]; intros s H W; [exact W|].
  change (run c s ((o, orc) :: h)) with
    (let '(s1, outs) := step c s o orc in let '(s2, rest) := run c s1 h in (s2, outs :: rest)).
  assert (O : op_ok o) by (apply (H o orc); left; reflexivity).
  pose proof (step_wf c s o orc C O W) as W1.
  destruct (step c s o orc) as [s1 outs]. cbn [fst] in W1.
  assert (H1 : hist_ok h) by (intros o' orc' I; apply (H o' orc'); right; exact I).
  specialize (IH s1 H1 W1). destruct (run c s1 h) as [s2 rest]. exact IH.
Qed.
