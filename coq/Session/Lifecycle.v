(* C13-C16 — connection / session life cycle.  Component model of server.go attachClient,
   readConnectionPacket, validateConnect (+ packets.ConnectValidate), inheritClientSession,
   SendConnack, processDisconnect, processConnect (second CONNECT), DisconnectClient, sendLWT,
   sendDelayedLWT, clearExpiredClients, UnsubscribeClient and clients.go ParseConnect / Stop, at the
   granularity of the broker harness: one operation = one inbound packet / network event /
   housekeeping tick, run to quiescence.  No proofs in this file.

   Client objects are identified by the number of the connection they were created for; the
   Clients map maps a client identifier to such a number (Go: pointer to the object).  An object
   replaced by a takeover stays in [st_objs] (Go: the old handler still holds the pointer) until its
   own teardown has run ([OTeardown]). *)
From MV Require Import Base.Val.
Open Scope N_scope.

(* ---------- configuration ---------- *)
Record caps := { k_maxsei : N; k_minver : N; k_maxqos : N; k_retain : bool }.

(* ---------- messages, wills ---------- *)
Record msg := { m_topic : bytes; m_payload : bytes; m_qos : N; m_retain : bool }.

Record will := { w_flag : bool; w_delay : N; w_topic : bytes; w_payload : bytes; w_qos : N; w_retain : bool }.
Definition no_will : will :=
  {| w_flag := false; w_delay := 0; w_topic := []; w_payload := []; w_qos := 0; w_retain := false |}.
Definition will_clear_flag (w : will) : will :=
  {| w_flag := false; w_delay := w_delay w; w_topic := w_topic w; w_payload := w_payload w; w_qos := w_qos w;
     w_retain := w_retain w |}.

(* entry of the delayed-will table (loop.willDelayed); [d_conn] is ghost: whose will it is *)
Record dwill := { d_conn : N; d_due : Z; d_msg : msg }.

(* ---------- CONNECT as received ---------- *)
Record cparams := {
  cp_pname : bytes; cp_ver : N; cp_reserved : bool; cp_clean : bool;
  cp_willflag : bool; cp_willqos : N; cp_willretain : bool; cp_willtopic : bytes; cp_willpayload : bytes;
  cp_willdelay : N;
  cp_userflag : bool; cp_user : bytes; cp_passflag : bool; cp_pass : bytes;
  cp_keepalive : N; cp_id : bytes; cp_seiflag : bool; cp_sei : N;
  cp_trunc : bool;          (* a credential field announced by the flags is missing: ConnectDecode fails *)
  cp_willtopic_ok : bool }. (* IsValidFilter(will topic, forPublish): decided by topic validation (C30) *)

Definition name_MQTT : bytes := [77; 81; 84; 84].
Definition name_MQIsdp : bytes := [77; 81; 73; 115; 100; 112].

(* packets.ConnectValidate: 0 = success, otherwise the reason code.  Username/password/identifier
   lengths above 65535 cannot be encoded and are omitted. *)
Definition connect_validate (p : cparams) : N :=
  let isdp := beq_bytes (cp_pname p) name_MQIsdp in
  let mqtt := beq_bytes (cp_pname p) name_MQTT in
  if negb isdp && negb mqtt then 130
  else if (isdp && negb (cp_ver p =? 3)) || (mqtt && negb (cp_ver p =? 4) && negb (cp_ver p =? 5)) then 130
  else if cp_reserved p then 130
  else if negb (cp_userflag p) && negb (N.of_nat (length (cp_user p)) =? 0) then 130
  else if cp_passflag p && (N.of_nat (length (cp_pass p)) =? 0) then 130
  else if negb (cp_passflag p) && negb (N.of_nat (length (cp_pass p)) =? 0) then 130
  else if cp_willflag p && ((N.of_nat (length (cp_willpayload p)) =? 0) || (N.of_nat (length (cp_willtopic p)) =? 0)) then 130
  else if cp_willflag p && (2 <? cp_willqos p) then 130
  else if negb (cp_willflag p) && cp_willretain p then 130
  else if negb (cp_willflag p) && negb (cp_willqos p =? 0) then 130          (* fix C13-2 *)
  else if (cp_ver p <? 5) && cp_passflag p && negb (cp_userflag p) then 130   (* fix C13-3 *)
  else 0.

(* server.go validateConnect *)
Definition validate_connect (k : caps) (p : cparams) : N :=
  let c := connect_validate p in
  if negb (c =? 0) then c
  else if (cp_ver p <? 5) && negb (cp_clean p) && (N.of_nat (length (cp_id p)) =? 0) then 128
  else if cp_willflag p && negb (cp_willtopic_ok p) then 144
  else if cp_ver p <? k_minver k then 132
  else if cp_willflag p && (k_maxqos k <? cp_willqos p) then 155
  else if cp_willflag p && cp_willretain p && negb (k_retain k) then 154
  else 0.

(* SendConnack: MQTT 3 return code for a failure code (packets.V5CodesToV3; keyed by code AND
   reason text, so only these three of the codes produced here are mapped) *)
Definition v3_code (code : N) : N :=
  if code =? 132 then 1 else if code =? 133 then 2 else if code =? 134 then 5 else code.
Definition connack_code (ver code : N) : N :=
  if (128 <=? code) && (ver <? 5) then v3_code code else code.

(* ---------- state ---------- *)
Inductive phase := PhReading | PhHeld | PhDone.

Record cobj := {
  o_conn : N; o_id : bytes; o_ver : N; o_clean : bool; o_sei : N; o_seiflag : bool; o_will : will;
  o_open : bool;          (* Stop has not been called: the connection is open *)
  o_disc : Z;             (* State.disconnected; 0 = never *)
  o_tko : bool;           (* State.isTakenOver *)
  o_subs : list (bytes * N);   (* State.Subscriptions: filter -> qos *)
  o_infl : list msg;      (* unacknowledged outbound publishes (State.Inflight) *)
  o_phase : phase }.      (* where the connection's handler goroutine is *)

Definition with_will (o : cobj) (w : will) : cobj :=
  {| o_conn := o_conn o; o_id := o_id o; o_ver := o_ver o; o_clean := o_clean o; o_sei := o_sei o;
     o_seiflag := o_seiflag o; o_will := w; o_open := o_open o; o_disc := o_disc o; o_tko := o_tko o;
     o_subs := o_subs o; o_infl := o_infl o; o_phase := o_phase o |}.
Definition with_sei (o : cobj) (sei : N) (flag : bool) : cobj :=
  {| o_conn := o_conn o; o_id := o_id o; o_ver := o_ver o; o_clean := o_clean o; o_sei := sei;
     o_seiflag := flag; o_will := o_will o; o_open := o_open o; o_disc := o_disc o; o_tko := o_tko o;
     o_subs := o_subs o; o_infl := o_infl o; o_phase := o_phase o |}.
(* Client.Stop: the first call closes the connection and stamps the time *)
Definition stopped (o : cobj) (now : Z) : cobj :=
  if o_open o then
    {| o_conn := o_conn o; o_id := o_id o; o_ver := o_ver o; o_clean := o_clean o; o_sei := o_sei o;
       o_seiflag := o_seiflag o; o_will := o_will o; o_open := false; o_disc := now; o_tko := o_tko o;
       o_subs := o_subs o; o_infl := o_infl o; o_phase := o_phase o |}
  else o.
Definition with_tko (o : cobj) : cobj :=
  {| o_conn := o_conn o; o_id := o_id o; o_ver := o_ver o; o_clean := o_clean o; o_sei := o_sei o;
     o_seiflag := o_seiflag o; o_will := o_will o; o_open := o_open o; o_disc := o_disc o; o_tko := true;
     o_subs := o_subs o; o_infl := o_infl o; o_phase := o_phase o |}.
Definition with_session (o : cobj) (subs : list (bytes * N)) (infl : list msg) : cobj :=
  {| o_conn := o_conn o; o_id := o_id o; o_ver := o_ver o; o_clean := o_clean o; o_sei := o_sei o;
     o_seiflag := o_seiflag o; o_will := o_will o; o_open := o_open o; o_disc := o_disc o; o_tko := o_tko o;
     o_subs := subs; o_infl := infl; o_phase := o_phase o |}.
Definition with_phase (o : cobj) (ph : phase) : cobj :=
  {| o_conn := o_conn o; o_id := o_id o; o_ver := o_ver o; o_clean := o_clean o; o_sei := o_sei o;
     o_seiflag := o_seiflag o; o_will := o_will o; o_open := o_open o; o_disc := o_disc o; o_tko := o_tko o;
     o_subs := o_subs o; o_infl := o_infl o; o_phase := ph |}.

Record state := {
  st_used : list N;                      (* connection numbers already used *)
  st_objs : list cobj;                   (* client objects, keyed by o_conn *)
  st_clients : list (bytes * N);         (* Clients: client id -> object *)
  st_index : list (bytes * bytes * N);   (* topic index: (client id, filter, qos) *)
  st_wills : list (bytes * dwill);       (* loop.willDelayed: client id -> delayed will *)
  st_retained : list (bytes * bytes) }.  (* retained: topic -> payload *)

Definition init : state :=
  {| st_used := []; st_objs := []; st_clients := []; st_index := []; st_wills := []; st_retained := [] |}.

Definition memN (c : N) (l : list N) : bool := existsb (N.eqb c) l.
Definition memB (b : bytes) (l : list bytes) : bool := existsb (beq_bytes b) l.

Fixpoint get_obj (c : N) (l : list cobj) : option cobj :=
  match l with [] => None | o :: r => if o_conn o =? c then Some o else get_obj c r end.
Fixpoint put_obj (o : cobj) (l : list cobj) : list cobj :=
  match l with
  | [] => [o]
  | x :: r => if o_conn x =? o_conn o then o :: r else x :: put_obj o r
  end.

Fixpoint aget {V} (k : bytes) (l : list (bytes * V)) : option V :=
  match l with [] => None | (k', v) :: r => if beq_bytes k' k then Some v else aget k r end.
Definition adel {V} (k : bytes) (l : list (bytes * V)) : list (bytes * V) :=
  filter (fun kv => negb (beq_bytes (fst kv) k)) l.
Definition aset {V} (k : bytes) (v : V) (l : list (bytes * V)) : list (bytes * V) := adel k l ++ [(k, v)].

Definition ix_del (id f : bytes) (l : list (bytes * bytes * N)) : list (bytes * bytes * N) :=
  filter (fun e => negb (beq_bytes (fst (fst e)) id && beq_bytes (snd (fst e)) f)) l.
Definition ix_add (id f : bytes) (q : N) (l : list (bytes * bytes * N)) : list (bytes * bytes * N) :=
  ix_del id f l ++ [(id, f, q)].
Definition ix_del_all (id : bytes) (fs : list bytes) (l : list (bytes * bytes * N)) : list (bytes * bytes * N) :=
  filter (fun e => negb (beq_bytes (fst (fst e)) id && memB (snd (fst e)) fs)) l.

Definition set_objs (s : state) (x : list cobj) : state :=
  {| st_used := st_used s; st_objs := x; st_clients := st_clients s; st_index := st_index s;
     st_wills := st_wills s; st_retained := st_retained s |}.
Definition set_clients (s : state) (x : list (bytes * N)) : state :=
  {| st_used := st_used s; st_objs := st_objs s; st_clients := x; st_index := st_index s;
     st_wills := st_wills s; st_retained := st_retained s |}.
Definition set_index (s : state) (x : list (bytes * bytes * N)) : state :=
  {| st_used := st_used s; st_objs := st_objs s; st_clients := st_clients s; st_index := x;
     st_wills := st_wills s; st_retained := st_retained s |}.
Definition set_wills (s : state) (x : list (bytes * dwill)) : state :=
  {| st_used := st_used s; st_objs := st_objs s; st_clients := st_clients s; st_index := st_index s;
     st_wills := x; st_retained := st_retained s |}.
Definition set_retained (s : state) (x : list (bytes * bytes)) : state :=
  {| st_used := st_used s; st_objs := st_objs s; st_clients := st_clients s; st_index := st_index s;
     st_wills := st_wills s; st_retained := x |}.
Definition set_used (s : state) (x : list N) : state :=
  {| st_used := x; st_objs := st_objs s; st_clients := st_clients s; st_index := st_index s;
     st_wills := st_wills s; st_retained := st_retained s |}.
Definition upd_obj (s : state) (o : cobj) : state := set_objs s (put_obj o (st_objs s)).

(* the object registered under an identifier *)
Definition client_of (s : state) (id : bytes) : option cobj :=
  match aget id (st_clients s) with Some c => get_obj c (st_objs s) | None => None end.

(* ---------- operations and outputs ---------- *)
Inductive op :=
| OConnect (c : N) (now : Z) (p : cparams) (auth_ok : bool) (effid : bytes)
      (* CONNECT as first packet; auth_ok = some authentication hook allows (oracle; false when no
         hook is installed); effid = the identifier used for the session (= cp_id unless empty: the
         broker then assigns a random one - oracle) *)
| OBadFirst (c : N) (now : Z)                       (* first packet is not a decodable CONNECT *)
| ODisconnect (c : N) (now : Z) (rc : N) (sei : option N)
| ONetClose (c : N) (now : Z)
| OTeardown (c : N) (now : Z)                       (* tail of a handler whose connection the broker closed from another goroutine *)
| OTickClients (now : Z)
| OTickWill (now : Z)
| OSubscribe (c : N) (f : bytes) (q : N)
| OPublish (c : N) (m : msg)
| OSecondConnect (c : N) (now : Z).

Inductive opkt :=
| PConnack (code : N) (sp : bool)
| PDisconnect (code : N)
| PPublish (m : msg) (dup : bool)
| POther (ty : N).

Definition is_connack (p : opkt) : bool := match p with PConnack _ _ => true | _ => false end.

Inductive out :=
| OPkt (c : N) (p : opkt)                 (* packet written to connection c *)
| OClose (c : N)                          (* the broker closes connection c *)
| OWill (c : N) (m : msg)                 (* ghost: the will registered by connection c is published *)
| OExpired (id : bytes)                   (* hook OnClientExpired *)
| OWillSent (id : bytes)                  (* hook OnWillSent *)
| ODisconnected (id : bytes) (expire : bool).   (* hook OnDisconnect *)

(* ---------- publishing ---------- *)
Definition minN (a b : N) : N := if a <? b then a else b.

(* publishToSubscribers + publishToClient for literal filters (filter = topic); retained flag is
   kept for MQTT 5 subscribers (the harness subscribes with Retain As Published) *)
Fixpoint deliver (k : caps) (m : msg) (ix : list (bytes * bytes * N)) (s : state) : state * list out :=
  match ix with
  | [] => (s, [])
  | (id, f, q) :: r =>
      if beq_bytes f (m_topic m) then
        match client_of s id with
        | Some o =>
            let q' := minN (minN (m_qos m) q) (k_maxqos k) in
            let m' := {| m_topic := m_topic m; m_payload := m_payload m; m_qos := q';
                         m_retain := m_retain m && (o_ver o =? 5) |} in
            let o' := if 0 <? q' then with_session o (o_subs o) (o_infl o ++ [m']) else o in
            let s' := upd_obj s o' in
            let (s'', outs) := deliver k m r s' in
            (s'', (if o_open o then [OPkt (o_conn o) (PPublish m' false)] else []) ++ outs)
        | None => deliver k m r s
        end
      else deliver k m r s
  end.
Definition publish (k : caps) (m : msg) (s : state) : state * list out := deliver k m (st_index s) s.

(* retainMessage *)
Definition retain_msg (k : caps) (m : msg) (s : state) : state :=
  if k_retain k then
    match m_payload m with
    | [] => set_retained s (adel (m_topic m) (st_retained s))
    | _ => set_retained s (aset (m_topic m) (m_payload m) (st_retained s))
    end
  else s.

Definition will_msg (w : will) : msg :=
  {| m_topic := w_topic w; m_payload := w_payload w; m_qos := w_qos w; m_retain := w_retain w |}.

(* sendLWT (topic valid and write permission granted: the harness uses an allow-all ACL) *)
Definition send_lwt (k : caps) (now : Z) (c : N) (s : state) : state * list out :=
  match get_obj c (st_objs s) with
  | None => (s, [])
  | Some o =>
      let w := o_will o in
      if negb (w_flag w) then (s, [])
      else if 0 <? w_delay w then
        (set_wills s (aset (o_id o) {| d_conn := c; d_due := (now + Z.of_N (w_delay w))%Z; d_msg := will_msg w |}
                           (st_wills s)), [])
      else
        let s1 := if w_retain w then retain_msg k (will_msg w) s else s in
        let (s2, outs) := publish k (will_msg w) s1 in
        (* the object may have been updated by a delivery to itself: re-read it *)
        let o2 := match get_obj c (st_objs s2) with Some x => x | None => o end in
        (upd_obj s2 (with_will o2 (will_clear_flag (o_will o2))), OWill c (will_msg w) :: outs ++ [OWillSent (o_id o)])
  end.

(* UnsubscribeClient *)
Definition unsubscribe_client (c : N) (s : state) : state :=
  match get_obj c (st_objs s) with
  | None => s
  | Some o =>
      let s1 := upd_obj s (with_session o [] (o_infl o)) in
      if o_tko o then s1 else set_index s1 (ix_del_all (o_id o) (map fst (o_subs o)) (st_index s1))
  end.
Definition clear_inflights (c : N) (s : state) : state :=
  match get_obj c (st_objs s) with
  | None => s
  | Some o => upd_obj s (with_session o (o_subs o) [])
  end.

Definition expire_cond (o : cobj) : bool :=
  ((o_ver o =? 5) && (o_sei o =? 0)) || ((o_ver o <? 5) && o_clean o).

(* the rest of attachClient after cl.Read has returned: err = the read loop ended with an error *)
Definition handler_tail (k : caps) (now : Z) (c : N) (err : bool) (s : state) : state * list out :=
  let (s1, o1) := if err then send_lwt k now c s else (s, []) in
  match get_obj c (st_objs s1) with
  | None => (s1, o1)
  | Some o =>
      let wasopen := o_open o in
      let o' := if err then stopped o now else with_will o no_will in
      let s2 := upd_obj s1 o' in
      let ex := expire_cond o' in
      let s3 :=
        if ex && negb (o_tko o') then
          set_clients (unsubscribe_client c (clear_inflights c s2)) (adel (o_id o') (st_clients s2))
        else s2 in
      let s4 := match get_obj c (st_objs s3) with Some x => upd_obj s3 (with_phase x PhDone) | None => s3 end in
      (s4, o1 ++ (if err && wasopen then [OClose c] else []) ++ [ODisconnected (o_id o') ex])
  end.

(* DisconnectClient(cl, code): DISCONNECT is written only to an open connection, then Stop *)
Definition disconnect_client (now : Z) (c : N) (code : N) (s : state) : state * list out :=
  match get_obj c (st_objs s) with
  | None => (s, [])
  | Some o =>
      if o_open o then
        (* MQTT 3 DISCONNECT has no body: the reason code is not on the wire (that a DISCONNECT is sent
           to an MQTT 3 client at all is finding C23-1) *)
        (upd_obj s (stopped o now), [OPkt c (PDisconnect (if o_ver o <? 5 then 0 else code)); OClose c])
      else (s, [])
  end.

(* inheritClientSession *)
Definition inherit (k : caps) (now : Z) (p : cparams) (n : cobj) (s : state) : state * cobj * bool * list out :=
  match aget (o_id n) (st_clients s) with
  | None => (s, n, false, [])
  | Some e =>
      match get_obj e (st_objs s) with
      | None => (s, n, false, [])
      | Some eo0 =>
          let (s1, o1) := disconnect_client now e 142 s in
          let s1 := match get_obj e (st_objs s1) with
                    | Some x => if (match o_phase x with PhReading => true | _ => false end) && negb (o_open x)
                                then upd_obj s1 (with_phase x PhHeld) else s1
                    | None => s1 end in
          if cp_clean p || (o_clean eo0 && (o_ver eo0 <? 5)) then
            let s2 := clear_inflights e (unsubscribe_client e s1) in
            let s3 := match get_obj e (st_objs s2) with Some x => upd_obj s2 (with_tko x) | None => s2 end in
            (s3, n, false, o1)
          else
            let s2 := match get_obj e (st_objs s1) with Some x => upd_obj s1 (with_tko x) | None => s1 end in
            let n' := with_session n (o_subs eo0) (o_infl eo0) in
            (* Topics.Subscribe(cl.ID, sub) for every inherited subscription; then
               UnsubscribeClient(existing) returns early (taken over); its in-flight map is emptied *)
            let s2 := set_index s2 (fold_left (fun ix fq => ix_add (o_id n) (fst fq) (snd fq) ix) (o_subs eo0) (st_index s2)) in
            let s3 := clear_inflights e (unsubscribe_client e s2) in
            (s3, n', true, o1)
      end
  end.

(* ParseConnect *)
Definition parse_connect (c : N) (p : cparams) (effid : bytes) : cobj :=
  let w := if cp_willflag p then
             {| w_flag := true;
                w_delay := if cp_seiflag p && (cp_sei p <? cp_willdelay p) then cp_sei p else cp_willdelay p;
                w_topic := cp_willtopic p; w_payload := cp_willpayload p; w_qos := cp_willqos p;
                w_retain := cp_willretain p |}
           else no_will in
  {| o_conn := c; o_id := effid; o_ver := cp_ver p; o_clean := cp_clean p;
     o_sei := if cp_seiflag p then cp_sei p else 0; o_seiflag := cp_seiflag p; o_will := w;
     o_open := true; o_disc := 0%Z; o_tko := false; o_subs := []; o_infl := []; o_phase := PhReading |}.

Definition resend (c : N) (l : list msg) : list out := map (fun m => OPkt c (PPublish m true)) l.

Definition attach (k : caps) (c : N) (now : Z) (p : cparams) (auth_ok : bool) (effid : bytes) (s : state)
  : state * list out :=
  if cp_trunc p then (s, [OClose c])                          (* readConnectionPacket fails: no CONNACK *)
  else
    let code := validate_connect k p in
    if negb (code =? 0) then (s, [OPkt c (PConnack (connack_code (cp_ver p) code) false); OClose c])
    else if negb auth_ok then (s, [OPkt c (PConnack (connack_code (cp_ver p) 134) false); OClose c])
    else
      let n := parse_connect c p effid in
      let '(s1, n1, sp, o1) := inherit k now p n s in
      (* SendConnack caps the session expiry interval *)
      let n2 := if k_maxsei k <? o_sei n1 then with_sei n1 (k_maxsei k) true else n1 in
      let s2 := set_clients (upd_obj s1 n2) (aset (o_id n2) c (st_clients s1)) in
      let s3 := set_wills s2 (adel (o_id n2) (st_wills s2)) in
      (s3, o1 ++ [OPkt c (PConnack 0 sp)] ++ (if sp then resend c (o_infl n2) else [])).

Definition reading (s : state) (c : N) : option cobj :=
  match get_obj c (st_objs s) with
  | Some o => match o_phase o with PhReading => if o_open o then Some o else None | _ => None end
  | None => None
  end.

(* processDisconnect + the handler tail *)
Definition do_disconnect (k : caps) (c : N) (now : Z) (rc : N) (sei : option N) (s : state) : state * list out :=
  match reading s c with
  | None => (s, [])
  | Some o =>
      let bad := match sei with Some v => (0 <? v) && (o_sei o =? 0) | None => false end in
      if bad then
        (* ErrProtocolViolationZeroNonZeroExpiry: MQTT 5 only carries the property, so DisconnectClient runs *)
        let (s1, o1) := disconnect_client now c 130 s in
        let (s2, o2) := handler_tail k now c true s1 in
        (s2, o1 ++ o2)
      else
        let o' := match sei with
                  | Some v => with_sei o (if k_maxsei k <? v then k_maxsei k else v) true
                  | None => o end in
        let s1 := upd_obj s o' in
        if negb (rc =? 0) then handler_tail k now c true s1   (* any reason but 0x00: CodeDisconnectWillMessage is returned, the read loop ends with an error *)
        else
          let s2 := set_wills s1 (adel (o_id o') (st_wills s1)) in
          let s3 := upd_obj s2 (stopped o' now) in
          let (s4, o4) := handler_tail k now c false s3 in
          (s4, OClose c :: o4)
  end.

Definition do_netclose (k : caps) (c : N) (now : Z) (s : state) : state * list out :=
  match reading s c with
  | None => (s, [])
  | Some _ => handler_tail k now c true s
  end.

Definition do_teardown (k : caps) (c : N) (now : Z) (s : state) : state * list out :=
  match get_obj c (st_objs s) with
  | Some o => match o_phase o with PhHeld => handler_tail k now c true s | _ => (s, []) end
  | None => (s, [])
  end.

Definition do_second_connect (k : caps) (c : N) (now : Z) (s : state) : state * list out :=
  match reading s c with
  | None => (s, [])
  | Some o =>
      let (s1, o1) := send_lwt k now c s in
      let (s2, o2) := if o_ver o =? 5 then disconnect_client now c 130 s1 else (s1, []) in
      let (s3, o3) := handler_tail k now c true s2 in
      (s3, o1 ++ o2 ++ o3)
  end.

(* clearExpiredClients (after the C15-1 fix: the expired client is unsubscribed and its in-flight
   messages are cleared before the entry is deleted) *)
Fixpoint tick_clients (k : caps) (now : Z) (l : list (bytes * N)) (s : state) : state * list out :=
  match l with
  | [] => (s, [])
  | (id, c) :: r =>
      match get_obj c (st_objs s) with
      | None => tick_clients k now r s
      | Some o =>
          if (o_disc o =? 0)%Z then tick_clients k now r s
          else
            let ex := if (o_ver o =? 5) && o_seiflag o then o_sei o else k_maxsei k in
            if (o_disc o + Z.of_N ex <? now)%Z then
              let s1 := unsubscribe_client c (clear_inflights c s) in
              let s2 := set_clients s1 (adel id (st_clients s1)) in
              let (s3, outs) := tick_clients k now r s2 in
              (s3, OExpired id :: outs)
            else tick_clients k now r s
      end
  end.

(* sendDelayedLWT *)
Fixpoint tick_will (k : caps) (now : Z) (l : list (bytes * dwill)) (s : state) : state * list out :=
  match l with
  | [] => (s, [])
  | (id, d) :: r =>
      if (d_due d <? now)%Z then
        let (s1, o1) := publish k (d_msg d) s in
        let (s2, o2) :=
          match client_of s1 id with
          | Some o =>
              let s' := if m_retain (d_msg d) then retain_msg k (d_msg d) s1 else s1 in
              (upd_obj s' (with_will o no_will), [OWillSent id])
          | None => (s1, [])
          end in
        let s3 := set_wills s2 (adel id (st_wills s2)) in
        let (s4, o4) := tick_will k now r s3 in
        (s4, OWill (d_conn d) (d_msg d) :: o1 ++ o2 ++ o4)
      else tick_will k now r s
  end.

Definition do_subscribe (c : N) (f : bytes) (q : N) (s : state) : state * list out :=
  match reading s c with
  | None => (s, [])
  | Some o =>
      let o' := with_session o (aset f q (o_subs o)) (o_infl o) in
      (set_index (upd_obj s o') (ix_add (o_id o) f q (st_index s)), [])
  end.

Definition do_publish (k : caps) (c : N) (m : msg) (s : state) : state * list out :=
  match reading s c with
  | None => (s, [])
  | Some _ =>
      let s1 := if m_retain m then retain_msg k m s else s in
      publish k m s1
  end.

Definition step (k : caps) (s : state) (o : op) : state * list out :=
  match o with
  | OConnect c now p a e =>
      if memN c (st_used s) then (s, []) else attach k c now p a e (set_used s (c :: st_used s))
  | OBadFirst c now =>
      if memN c (st_used s) then (s, []) else (set_used s (c :: st_used s), [OClose c])
  | ODisconnect c now rc sei => do_disconnect k c now rc sei s
  | ONetClose c now => do_netclose k c now s
  | OTeardown c now => do_teardown k c now s
  | OTickClients now => tick_clients k now (st_clients s) s
  | OTickWill now => tick_will k now (st_wills s) s
  | OSubscribe c f q => do_subscribe c f q s
  | OPublish c m => do_publish k c m s
  | OSecondConnect c now => do_second_connect k c now s
  end.

(* hook reports of a clean start that replaces an existing session (inheritClientSession, first
   branch): UnsubscribeClient(existing) reports every filter through OnUnsubscribed (the object is
   not yet marked taken over) and existing.ClearInflights() reports every in-flight record through
   OnQosDropped - this is what lets a persistent store forget the discarded session.  The resume
   branch reports nothing (the records move to the new object; UnsubscribeClient returns early). *)
Inductive hev :=
| HDropped (id payload : bytes)     (* OnQosDropped(client id, message) *)
| HUnsub (id f : bytes).            (* OnUnsubscribed(client id, filter) *)

Definition hook_events (k : caps) (s : state) (o : op) : list hev :=
  match o with
  | OConnect c now p a e =>
      if memN c (st_used s) || cp_trunc p || negb (validate_connect k p =? 0) || negb a then []
      else
        match client_of s e with
        | Some eo =>
            if cp_clean p || (o_clean eo && (o_ver eo <? 5)) then
              map (fun fq => HUnsub e (fst fq)) (o_subs eo) ++ map (fun m => HDropped e (m_payload m)) (o_infl eo)
            else []
        | None => []
        end
  | _ => []
  end.

(* trace of a history: per operation the outputs, the hook reports and the state before and after *)
Record tstep := { t_op : op; t_outs : list out; t_hooks : list hev; t_pre : state; t_post : state }.

Fixpoint trace (k : caps) (s : state) (ops : list op) : list tstep :=
  match ops with
  | [] => []
  | o :: r =>
      let (s', outs) := step k s o in
      {| t_op := o; t_outs := outs; t_hooks := hook_events k s o; t_pre := s; t_post := s' |} :: trace k s' r
  end.
