(* The routing theorems in the form the property files state them: about the outputs of [step] in every
   state reachable by a history (and, more generally, every well-formed state). *)
From MV Require Import Base.Val Topics.Levels Topics.Match Topics.Alist Topics.AlistProofs Topics.LevelsProofs
  Session.Deliver Session.DeliverProofs.
From Coq Require Import Lia ZifyBool ZifyN ZifyNat Permutation.
Open Scope N_scope.

(* routing does not look at the retained store *)
Lemma deliver_to_ext s s' orc drops m c cl :
  st_maxqos s = st_maxqos s' -> st_deny s = st_deny s' ->
  deliver_to s orc drops m c cl = deliver_to s' orc drops m c cl.
Proof.
  intros E1 E2. unfold deliver_to, publish_to_client, denied. rewrite E1, E2. reflexivity.
Qed.

Lemma retain_message_same s m :
  st_clients (retain_message s m) = st_clients s /\ st_inline (retain_message s m) = st_inline s
  /\ st_maxqos (retain_message s m) = st_maxqos s /\ st_deny (retain_message s m) = st_deny s.
Proof.
  unfold retain_message. destruct (negb (st_retain_avail s)); [repeat split|].
  destruct (nilb (m_payload m)); repeat split.
Qed.

Definition routed_state (s : state) (m : msg) : state := if m_retain m then retain_message s m else s.

Lemma routed_state_same s m :
  st_clients (routed_state s m) = st_clients s /\ st_inline (routed_state s m) = st_inline s
  /\ st_maxqos (routed_state s m) = st_maxqos s /\ st_deny (routed_state s m) = st_deny s.
Proof. unfold routed_state. destruct (m_retain m); [apply retain_message_same|repeat split]. Qed.

Lemma route_routed s orc drops m : route (routed_state s m) orc drops m = route s orc drops m.
Proof.
  destruct (routed_state_same s m) as [E1 [_ [E3 E4]]]. unfold route. rewrite E1. apply map_ext. intros [c cl]. cbn.
  f_equal. apply deliver_to_ext; assumption.
Qed.

Lemma route_inline_routed s m : route_inline (routed_state s m) m = route_inline s m.
Proof. destruct (routed_state_same s m) as [_ [E2 _]]. unfold route_inline, inline_ids. rewrite E2. reflexivity. Qed.

Lemma publish_out orc drops s m0 :
  o_deliv (snd (publish orc drops s m0))
  = route_inline s (accepted (st_maxqos s) m0) ++ sends (route s orc drops (accepted (st_maxqos s) m0)).
Proof.
  unfold publish. cbn [snd o_deliv]. fold (accepted (st_maxqos s) m0).
  fold (routed_state s (accepted (st_maxqos s) m0)). rewrite route_routed, route_inline_routed. reflexivity.
Qed.

Lemma filter_to_client_inline c s m : filter (to_client c) (route_inline s m) = [].
Proof. unfold route_inline. induction (inline_ids s (m_topic m)) as [|x l IH]; cbn; [reflexivity|exact IH]. Qed.

Lemma filter_to_inline_sends id r : filter (to_inline id) (sends r) = [] ->
  True.
Proof. trivial. Qed.

Lemma sends_targets s orc drops m d : In d (sends (route s orc drops m)) -> exists c, d_to d = TClient c.
Proof.
  unfold sends, route. rewrite in_flat_map. intros [[c p] [HI HD]]. apply in_map_iff in HI.
  destruct HI as [[c' cl] [E HI]]. cbn [fst snd] in E. injection E as E1 E2. subst c p. cbn [snd] in HD.
  destruct (deliver_to s orc drops m c' cl) eqn:ED; cbn in HD; try contradiction. destruct HD as [<-|[]].
  exists c'. apply (deliver_target _ _ _ _ _ _ _ ED).
Qed.

Lemma filter_to_inline_route id s orc drops m : filter (to_inline id) (sends (route s orc drops m)) = [].
Proof.
  assert (H := sends_targets s orc drops m). induction (sends (route s orc drops m)) as [|d l IH]; [reflexivity|].
  cbn. destruct (H d (or_introl eq_refl)) as [c E]. unfold to_inline at 1. rewrite E. apply IH.
  intros d' HI. apply H. right. exact HI.
Qed.

Definition with_origin (c : cid) (m : msg) : msg := mkMsg (m_topic m) (m_payload m) (m_qos m) (m_retain m) (m_props m) c.

(* what one accepted publish delivers, per client *)
Definition expected_copies (s : state) (orc : oracle) (drops : list cid) (m : msg) (c : cid) : nat :=
  match get_client s c with
  | Some cl => if spec_entitled s c cl m (ent_subs c cl (m_topic m) orc) && negb (existsb (beq_bytes c) drops)
               then 1%nat else 0%nat
  | None => 0%nat
  end.

Definition no_nolocal_finding (s : state) (orc : oracle) (m : msg) (c : cid) : Prop :=
  forall cl, get_client s c = Some cl -> KF_C03_nolocal_merge c m (ent_subs c cl (m_topic m) orc) = false.

(* C03, every well-formed state *)
Theorem publish_copies s orc drops m0 c :
  wf_state s -> NoDup (map fst orc) ->
  let m := accepted (st_maxqos s) m0 in
  no_nolocal_finding s orc m c ->
  length (filter (to_client c) (o_deliv (snd (publish orc drops s m0)))) = expected_copies s orc drops m c.
Proof.
  intros [[NDc HC] _] NO m KF. rewrite publish_out. fold m. rewrite filter_app, filter_to_client_inline. cbn [app].
  rewrite route_count by exact NDc. unfold expected_copies, get_client in *.
  destruct (al_get beq_bytes c (st_clients s)) as [cl|] eqn:G; [|reflexivity].
  destruct (HC c cl (al_get_In beq_bytes beq_bytes_eq _ _ _ G)) as [NS _].
  rewrite deliver_send_iff; [reflexivity|exact NS|exact NO|]. apply KF. exact G.
Qed.

Theorem publish_fields s orc drops m0 c d :
  wf_state s -> NoDup (map fst orc) ->
  let m := accepted (st_maxqos s) m0 in
  In d (filter (to_client c) (o_deliv (snd (publish orc drops s m0)))) ->
  exists cl, get_client s c = Some cl /\
    let L := ent_subs c cl (m_topic m0) orc in
    d_topic d = m_topic m0 /\ d_payload d = m_payload m0 /\
    d_qos d = spec_qos (st_maxqos s) (m_qos m0) L /\
    d_retain d = spec_retain (cl_ver cl) (m_retain m0) L /\
    (cl_ver cl = 5 -> Permutation (d_ids d) (spec_ids L) /\ d_props d = m_props m0) /\
    (cl_ver cl <> 5 -> d_ids d = [] /\ d_props d = mp_none).
Proof.
  intros [[NDc HC] _] NO m. rewrite publish_out. fold m. rewrite filter_app, filter_to_client_inline. cbn [app].
  intro HI. apply filter_In in HI. destruct HI as [HI TC].
  unfold sends, route in HI. apply in_flat_map in HI. destruct HI as [[c' p] [HI HD]]. apply in_map_iff in HI.
  destruct HI as [[c0 cl] [E HI]]. cbn [fst snd] in E. injection E as E1 E2. subst c' p. cbn [snd] in HD.
  rename c0 into c'.
  destruct (deliver_to s orc drops m c' cl) eqn:ED; cbn in HD; try contradiction. destruct HD as [<-|[]].
  assert (c' = c).
  { unfold to_client in TC. rewrite (deliver_target _ _ _ _ _ _ _ ED) in TC. apply beq_bytes_eq. exact TC. }
  subst c'. exists cl. split; [apply (In_al_get beq_bytes beq_bytes_eq); assumption|].
  destruct (HC c cl HI) as [NS V].
  destruct (deliver_fields s orc drops m c cl d0 NS NO V ED) as [_ [H1 [H2 [H3 [H4 [H5 H6]]]]]].
  cbv zeta. unfold m in *. cbn [accepted m_topic m_payload m_retain m_props m_qos] in *.
  split; [exact H1|]. split; [exact H2|]. split.
  - rewrite H3. unfold spec_qos. destruct (st_maxqos s <? m_qos m0) eqn:E; lia.
  - split; [exact H4|]. split; assumption.
Qed.

(* histories *)
Theorem reachable_wf mq ra deny (h : hist) : forallb op_ok (ops_of h) = true -> wf_state (run (init mq ra deny) h).
Proof. intro OK. apply run_wf; [apply init_wf|exact OK]. Qed.

Lemma run_maxqos (h : hist) : forall s, st_maxqos (run s h) = st_maxqos s.
Proof.
  induction h as [|[[orc drops] o] r IH]; intro s; cbn [run]; [reflexivity|]. rewrite IH. apply step_caps.
Qed.

Theorem C03_history_modulo mq ra deny (h : hist) orc drops pub m0 c :
  forallb op_ok (ops_of h) = true -> NoDup (map fst orc) -> valid_pub_topic (m_topic m0) = true ->
  let s := run (init mq ra deny) h in
  let m := accepted mq (with_origin pub m0) in
  let out := o_deliv (snd (step orc drops s (OPublish pub m0))) in
  no_nolocal_finding s orc m c ->
  length (filter (to_client c) out) = expected_copies s orc drops m c.
Proof.
  intros OK NO V s m out KF. unfold out. cbn [step]. rewrite V.
  assert (Q : st_maxqos s = mq) by (unfold s; rewrite run_maxqos; reflexivity).
  change (mkMsg (m_topic m0) (m_payload m0) (m_qos m0) (m_retain m0) (m_props m0) pub) with (with_origin pub m0).
  rewrite (publish_copies s orc drops (with_origin pub m0) c (reachable_wf mq ra deny h OK) NO); rewrite Q; [reflexivity|exact KF].
Qed.

Theorem C03_history_fields mq ra deny (h : hist) orc drops pub m0 c d :
  forallb op_ok (ops_of h) = true -> NoDup (map fst orc) -> valid_pub_topic (m_topic m0) = true ->
  let s := run (init mq ra deny) h in
  In d (filter (to_client c) (o_deliv (snd (step orc drops s (OPublish pub m0))))) ->
  exists cl, get_client s c = Some cl /\
    d_topic d = m_topic m0 /\ d_payload d = m_payload m0 /\
    (cl_ver cl = 5 -> d_props d = m_props m0).
Proof.
  intros OK NO V s. cbn [step]. rewrite V. intro HI.
  destruct (publish_fields s orc drops _ c d (reachable_wf mq ra deny h OK) NO HI) as [cl [G H]].
  cbv zeta in H. cbn [m_topic m_payload m_props] in H. exists cl. split; [exact G|].
  destruct H as [H1 [H2 [_ [_ [H5 _]]]]]. split; [exact H1|]. split; [exact H2|]. intro V5. apply H5. exact V5.
Qed.

(* C04 on reachable states *)
Theorem C04_history mq ra deny (h : hist) orc drops pub m0 c d :
  forallb op_ok (ops_of h) = true -> NoDup (map fst orc) -> valid_pub_topic (m_topic m0) = true ->
  let s := run (init mq ra deny) h in
  In d (filter (to_client c) (o_deliv (snd (step orc drops s (OPublish pub m0))))) ->
  exists cl, get_client s c = Some cl /\
    let L := ent_subs c cl (m_topic m0) orc in
    d_qos d = spec_qos mq (m_qos m0) L /\
    d_retain d = spec_retain (cl_ver cl) (m_retain m0) L /\
    (cl_ver cl = 5 -> Permutation (d_ids d) (spec_ids L)) /\
    (cl_ver cl <> 5 -> d_ids d = []).
Proof.
  intros OK NO V s. cbn [step]. rewrite V. intro HI.
  destruct (publish_fields s orc drops _ c d (reachable_wf mq ra deny h OK) NO HI) as [cl [G H]].
  assert (Q : st_maxqos s = mq) by (unfold s; rewrite run_maxqos; reflexivity).
  cbv zeta in H. cbn [m_topic m_payload m_props m_qos m_retain] in H. rewrite Q in H. exists cl. split; [exact G|].
  destruct H as [_ [_ [H3 [H4 [H5 H6]]]]]. cbv zeta. split; [exact H3|]. split; [exact H4|]. split.
  - intro V5. apply H5. exact V5.
  - intro V5. apply H6. exact V5.
Qed.

(* C06: copies per client *)
Theorem at_most_one_copy s orc drops m0 c :
  wf_state s -> (length (filter (to_client c) (o_deliv (snd (publish orc drops s m0)))) <= 1)%nat.
Proof.
  intros [[NDc _] _]. rewrite publish_out, filter_app, filter_to_client_inline. cbn [app].
  rewrite route_count by exact NDc. destruct (get_client s c) as [cl|]; [|lia].
  destruct (is_send _); lia.
Qed.

(* C40: inline publish *)
Theorem inline_publish_clients s orc drops m0 c cl :
  wf_state s -> NoDup (map fst orc) -> get_client s c = Some cl -> c <> inline_origin ->
  let m := accepted (st_maxqos s) (with_origin inline_origin m0) in
  let out := o_deliv (snd (step orc drops s (OInlinePublish m0))) in
  length (filter (to_client c) out)
  = (if cl_conn cl && negb (denied s c (m_topic m0)) && negb (nilb (ent_subs c cl (m_topic m0) orc))
        && negb (existsb (beq_bytes c) drops) then 1%nat else 0%nat).
Proof.
  intros W NO G NE m out. unfold out. cbn [step].
  change (mkMsg (m_topic m0) (m_payload m0) (m_qos m0) (m_retain m0) (m_props m0) inline_origin) with (with_origin inline_origin m0).
  assert (EO : beq_bytes (m_origin m) c = false).
  { apply beq_bytes_neq. cbn. intro E. apply NE. symmetry. exact E. }
  rewrite (publish_copies s orc drops (with_origin inline_origin m0) c W NO).
  - unfold expected_copies. rewrite G. fold m. unfold spec_entitled. rewrite existsb_not_excluded, EO. reflexivity.
  - intros cl' _. apply inline_no_kf. exact EO.
Qed.

Theorem inline_publish_inline s orc drops m0 id :
  let out := o_deliv (snd (step orc drops s (OInlinePublish m0))) in
  length (filter (to_inline id) out) = if inline_matching s (m_topic m0) id then 1%nat else 0%nat.
Proof.
  cbn [step]. rewrite publish_out, filter_app, filter_to_inline_route, app_nil_r. rewrite inline_once. reflexivity.
Qed.
