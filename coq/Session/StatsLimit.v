(* C38 under concurrent connection attempts: the connected-clients counter against the connections
   that are actually established, on the forced schedules of the C35 engine (harness/cmd/hx/eng_limit.go,
   model Conc/Limit.v: per attempt the atomic steps Check / Reserve / Decr over Info.ClientsConnected).
   Specification and monitor engine only; no proofs here.

   A point of a schedule is quiescent for this counter when no connection that the broker has closed
   (takeover) is still waiting for its handler's teardown: there Info.ClientsConnected must equal the
   number of connections that hold a success CONNACK and are open. *)
From MV Require Import Base.Val Base.Sched Conc.Limit.
Open Scope Z_scope.

Definition is_kicked (s : status) : bool := match s with Kicked => true | _ => false end.

(* no teardown is pending *)
Definition quiet (c : cfg lstate instr) : bool := negb (existsb is_kicked (l_stats (shared c))).

(* the specification on the model state ... *)
Definition connected_ok (c : cfg lstate instr) : Prop := l_counter (shared c) = connected c.

(* ... and on what the real broker reported after a schedule entry *)
Definition obs_connected_ok (e : entry) : bool := e_counter e =? e_est e.

(* walk the observed schedule: 1 = a quiescent point where the reported counter differs from the
   established connections, 2 = the reported counter differs from the model's, 0 = fine *)
Fixpoint sl_walk (es : list entry) (c : cfg lstate instr) : N :=
  match es with
  | [] => 0%N
  | e :: r =>
      let (c', _) := step_thread exec (e_tid e) c in
      if quiet c' && negb (obs_connected_ok e) then 1%N
      else if negb (l_counter (shared c') =? e_counter e) then 2%N
      else sl_walk r c'
  end.

(* ENGINE statslimit Session.StatsLimit.statslimit_engine *)
Definition statslimit_engine (v : val) : val :=
  match v with
  | VL [VN max; VL specs; VL entries; VL finals] =>
      match map_opt as_spec specs, map_opt as_entry entries with
      | Some sps, Some es =>
          let mx := Z.of_N max in
          let code := sl_walk es (limit_threads mx sps) in
          let refused := existsb (fun f => match f with VN k => negb ((k =? 0) || (k =? 255))%N | _ => false end) finals in
          verdict code (if refused then tag "schedule-with-refusal" else tag "schedule") (existsb (fun e => 0 <? e_est e) es) []
      | _, _ => bad_case
      end
  | _ => bad_case
  end.
