(* C24 under concurrent publishers: interleaving model of the outbound alias path of ONE subscriber
   connection.  Every publisher goroutine k that delivers a message to the subscriber runs, in
   server.go publishToClient,
       alias, exists := cl.State.TopicAliases.Outbound.Set(topic)     -- atomic: the table's lock is held
                                                                          for lookup + allocation
       ... cl.State.outbound <- &out                                   -- a separate step
   A schedule is a list of these atomic steps of the publishers in the order in which they happen
   ([SSet k topic], [SPush k]); the theorems quantify over ALL such lists.  The packets leave the queue
   in the order they were pushed (one write loop).  Specification = the receiver's check of Alias.v.
   Also: the split variant of Set (lookup and cursor read outside the lock) for the refutation, and the
   engine for the forced schedules of harness/cmd/hx/eng_aliassched.go.  No proofs here. *)
From MV Require Import Base.Val Session.Pkt Session.Alias.
Open Scope N_scope.

Inductive sev :=
| SSet (k : nat) (topic : bytes)     (* publisher k: OutboundTopicAliases.Set(topic), result kept by k *)
| SPush (k : nat).                   (* publisher k: its packet enters the pending-writes queue *)

Definition pending := (bytes * N * bool)%type.     (* topic, alias, existed *)

Record sst := { s_tab : otab; s_pend : list (nat * pending); s_wire : list wire }.

Definition sinit (max : N) : sst := {| s_tab := oinit max; s_pend := []; s_wire := [] |}.

Fixpoint find_pend (k : nat) (l : list (nat * pending)) : option pending :=
  match l with [] => None | (j, p) :: r => if Nat.eqb j k then Some p else find_pend k r end.
Fixpoint del_pend (k : nat) (l : list (nat * pending)) : list (nat * pending) :=
  match l with [] => [] | (j, p) :: r => if Nat.eqb j k then r else (j, p) :: del_pend k r end.

(* the PUBLISH as publishToClient forms it: the topic is stripped iff the alias existed *)
Definition wire_of (p : pending) : wire :=
  let '(tp, a, ex) := p in (tp, if (0 <? a) && ex then [] else tp, a).

Definition sstep (s : sst) (e : sev) : sst :=
  match e with
  | SSet k tp =>
      match find_pend k (s_pend s) with
      | Some _ => s                             (* a publisher handles one message at a time *)
      | None =>
          let '(a, ex, t') := out_set (s_tab s) tp in
          {| s_tab := t'; s_pend := (k, (tp, a, ex)) :: s_pend s; s_wire := s_wire s |}
      end
  | SPush k =>
      match find_pend k (s_pend s) with
      | None => s
      | Some p => {| s_tab := s_tab s; s_pend := del_pend k (s_pend s); s_wire := s_wire s ++ [wire_of p] |}
      end
  end.

Definition srun (max : N) (evs : list sev) : sst := fold_left sstep evs (sinit max).

(* ---------- known finding ---------- *)

(* C24-4: publisher k is about to queue an alias-only PUBLISH while the publisher that allocated this
   alias has not queued the PUBLISH announcing it yet: the alias table is updated outside the order of
   the queue *)
Definition KF_C24_binding_overtaken (s : sst) (e : sev) : bool :=
  match e with
  | SPush k =>
      match find_pend k (s_pend s) with
      | Some (_, a, true) =>
          (0 <? a) && existsb (fun x : nat * pending => let '(_, (_, a', ex')) := x in (a' =? a) && negb ex') (s_pend s)
      | _ => false
      end
  | SSet _ _ => false
  end.

Fixpoint skf_free (s : sst) (evs : list sev) : bool :=
  match evs with
  | [] => true
  | e :: r => negb (KF_C24_binding_overtaken s e) && skf_free (sstep s e) r
  end.

(* the receiver's check, packet by packet (same decisions as [recv_ok]) *)
Fixpoint recv_all (tam : N) (tab : list (N * bytes)) (ws : list wire) : option (list (N * bytes)) :=
  match ws with
  | [] => Some tab
  | w :: r => match recv_step tam tab w with Some tab' => recv_all tam tab' r | None => None end
  end.

(* the alias table never gives one alias to two topics *)
Definition injective (t : otab) : Prop :=
  forall tp1 tp2 a, lookup_t tp1 (o_map t) = Some a -> lookup_t tp2 (o_map t) = Some a -> tp1 = tp2.

(* ---------- the split variant of Set (seeded change C24b): lookup and cursor read first, the write
   lock only around the binding ---------- *)
Inductive xev := XRead (k : nat) (topic : bytes) | XWrite (k : nat).

Record xst := { x_tab : otab; x_read : list (nat * (bytes * N)) }.   (* per publisher: topic and cursor it read *)

Fixpoint find_read (k : nat) (l : list (nat * (bytes * N))) : option (bytes * N) :=
  match l with [] => None | (j, p) :: r => if Nat.eqb j k then Some p else find_read k r end.

Definition xstep (s : xst) (e : xev) : xst :=
  match e with
  | XRead k tp =>
      match lookup_t tp (o_map (x_tab s)) with
      | Some _ => s
      | None => if o_max (x_tab s) <? o_cursor (x_tab s) + 1 then s
                else {| x_tab := x_tab s; x_read := (k, (tp, o_cursor (x_tab s))) :: x_read s |}
      end
  | XWrite k =>
      match find_read k (x_read s) with
      | None => s
      | Some (tp, i) =>
          {| x_tab := {| o_max := o_max (x_tab s); o_map := (tp, i + 1) :: o_map (x_tab s); o_cursor := i + 1 |};
             x_read := x_read s |}
      end
  end.

(* ---------- engine ----------
   case = (tam overlap (sched ...) (obs ...))
     sched = (0 k topic) | (1 k)          the forced schedule: Set by publisher k / its packet queued
     obs   = (topic wireTopic wireAlias)  the PUBLISH packets on the subscriber's connection, in order
     overlap = a second publisher was seen inside Set's critical section while the first was parked there *)
Definition as_sev (v : val) : option sev :=
  match v with
  | VL [VN 0; VN k; VB tp] => Some (SSet (N.to_nat k) tp)
  | VL [VN 1; VN k] => Some (SPush (N.to_nat k))
  | _ => None
  end.
Definition as_wire (v : val) : option wire :=
  match v with VL [VB tp; VB wt; VN a] => Some (tp, wt, a) | _ => None end.

(* ENGINE aliassched Session.AliasSched.aliassched_engine *)
Definition aliassched_engine (v : val) : val :=
  match v with
  | VL [VN tam; overlap; VL sched; VL obs] =>
      match as_bool overlap, map_opt as_sev sched, map_opt as_wire obs with
      | Some ov, Some evs, Some ws =>
          let model := s_wire (srun tam evs) in
          let tg := if ov then tag "allocators-overlap" else if skf_free (sinit tam) evs then tag "schedule" else tag "overtaking" in
          if negb (recv_ok tam [] ws) then
            if negb (skf_free (sinit tam) evs) && beq_wires ws model && negb ov
            then verdict 3 tg true [VB (tag "KF_C24_binding_overtaken")]
            else verdict 1 tg true []
          else if ov then verdict 2 tg true []
          else if beq_wires ws model then verdict 0 tg true []
          else verdict 2 tg true []
      | _, _, _ => bad_case
      end
  | _ => bad_case
  end.
