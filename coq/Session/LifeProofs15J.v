(* C15 — the behavioural clause: every PUBLISH a connection receives is justified by a subscription
   made by the CURRENT session of its client identifier (made after the last discard / clean
   start).  Proved for the monitor clause V15_unjustified of mon15 on every trace of the model. *)
From MV Require Import Base.Val Session.Lifecycle Session.LifeSpec Session.LifeBase Session.LifeInv Session.LifeProofs13
  Session.LifeProofs14 Session.LifeProofs15.
From Coq Require Import Lia ZifyBool ZifyN ZifyNat.
Open Scope N_scope.

Definition keys (o : cobj) : list bytes := map fst (o_subs o).

(* ---------- session data only shrinks inside an operation on existing connections ---------- *)
Definition gr (s s' : state) : Prop :=
  (forall c o', get_obj c (st_objs s') = Some o' ->
     exists o, get_obj c (st_objs s) = Some o /\ o_id o' = o_id o /\ incl (keys o') (keys o)) /\
  (forall id c, aget id (st_clients s') = Some c -> aget id (st_clients s) = Some c) /\
  (forall e, In e (st_index s') -> In e (st_index s)).

Lemma gr_refl s : gr s s.
Proof. split; [intros c o G; exists o; split; [exact G|split; [reflexivity|apply incl_refl]]|split; auto]. Qed.

Lemma gr_trans a b c : gr a b -> gr b c -> gr a c.
Proof.
  intros (O1 & C1 & I1) (O2 & C2 & I2). split; [|split].
  - intros x o2 G2. destruct (O2 x o2 G2) as (o1 & G1 & E1 & S1). destruct (O1 x o1 G1) as (o0 & G0 & E0 & S0).
    exists o0. split; [exact G0|split; [congruence|eapply incl_tran; eassumption]].
  - intros id x A. apply C1, C2, A.
  - intros e I. apply I1, I2, I.
Qed.

Lemma gr_upd s o o0 :
  get_obj (o_conn o) (st_objs s) = Some o0 -> o_id o = o_id o0 -> incl (keys o) (keys o0) -> gr s (upd_obj s o).
Proof.
  intros G EI INC. split; [|split; auto].
  intros c o' G'. unfold upd_obj in G'. cbn in G'. destruct (N.eq_dec c (o_conn o)) as [->|N].
  - rewrite get_put_same in G'. inversion G'; subst o'. exists o0. auto.
  - rewrite get_put_other in G' by exact N. exists o'. split; [exact G'|split; [reflexivity|apply incl_refl]].
Qed.

Lemma gr_same_objs s s' :
  st_objs s' = st_objs s -> (forall id c, aget id (st_clients s') = Some c -> aget id (st_clients s) = Some c) ->
  (forall e, In e (st_index s') -> In e (st_index s)) -> gr s s'.
Proof.
  intros EO C I. split; [|split; assumption]. intros c o' G. rewrite EO in G. exists o'. split; [exact G|split; [reflexivity|apply incl_refl]].
Qed.

Lemma gr_set_wills s x : gr s (set_wills s x).
Proof. apply gr_same_objs; auto. Qed.
Lemma gr_set_retained s x : gr s (set_retained s x).
Proof. apply gr_same_objs; auto. Qed.
Lemma gr_adel s id : gr s (set_clients s (adel id (st_clients s))).
Proof.
  apply gr_same_objs; auto. intros i c A. cbn in A. destruct (bb_dec i id) as [->|NE]; [rewrite aget_adel_same in A; discriminate|].
  rewrite aget_adel_other in A by exact NE. exact A.
Qed.

Lemma gr_match_upd e (f : cobj -> cobj) s :
  (forall x, o_conn (f x) = o_conn x /\ o_id (f x) = o_id x /\ incl (keys (f x)) (keys x)) ->
  gr s (match get_obj e (st_objs s) with Some x => upd_obj s (f x) | None => s end).
Proof.
  intro H. destruct (get_obj e (st_objs s)) as [x|] eqn:G; [|apply gr_refl].
  destruct (H x) as (P & Q & R). apply gr_upd with (o0 := x); [rewrite P, (get_obj_conn _ _ _ G); exact G|exact Q|exact R].
Qed.

Lemma deliver_gr k m ix : forall s, gr s (fst (deliver k m ix s)).
Proof.
  induction ix as [|[[id f] q] r IH]; intro s; cbn [deliver]; [apply gr_refl|].
  destruct (beq_bytes f (m_topic m)); [|apply IH]. destruct (client_of s id) as [o|] eqn:C; [|apply IH].
  pose proof (client_of_obj _ _ _ C) as G.
  match goal with |- context [upd_obj s ?o'] => set (oo := o') end.
  assert (E1 : gr s (upd_obj s oo)).
  { apply gr_upd with (o0 := o); subst oo; destruct (0 <? _); cbn; auto; apply incl_refl. }
  specialize (IH (upd_obj s oo)). destruct (deliver k m r (upd_obj s oo)) as [s'' outs]. cbn [fst] in *.
  eapply gr_trans; eassumption.
Qed.

Lemma retain_msg_gr k m s : gr s (retain_msg k m s).
Proof. unfold retain_msg. destruct (k_retain k); [|apply gr_refl]. destruct (m_payload m); apply gr_set_retained. Qed.

Lemma send_lwt_gr k now c s : gr s (fst (send_lwt k now c s)).
Proof.
  unfold send_lwt. destruct (get_obj c (st_objs s)) as [o|] eqn:G; [|apply gr_refl].
  destruct (negb (w_flag (o_will o))); [apply gr_refl|]. destruct (0 <? w_delay (o_will o)); [apply gr_set_wills|].
  set (s1 := if w_retain (o_will o) then retain_msg k (will_msg (o_will o)) s else s).
  assert (E1 : gr s s1) by (subst s1; destruct (w_retain (o_will o)); [apply retain_msg_gr|apply gr_refl]).
  assert (EV1 : ev s s1) by (subst s1; destruct (w_retain (o_will o)); [apply retain_msg_ev|apply ev_refl]).
  pose proof (deliver_gr k (will_msg (o_will o)) (st_index s1) s1) as E2.
  pose proof (deliver_ok k (will_msg (o_will o)) (st_index s1) s1) as [EV2 _]. unfold publish.
  destruct (deliver k (will_msg (o_will o)) (st_index s1) s1) as [s2 outs]. cbn [fst] in *.
  eapply gr_trans; [exact E1|]. eapply gr_trans; [exact E2|].
  destruct (ev_trans _ _ _ EV1 EV2) as (_ & HH & _). specialize (HH c). unfold hasobj in HH. rewrite G in HH.
  destruct (get_obj c (st_objs s2)) as [o2|] eqn:G2; [|discriminate].
  apply gr_upd with (o0 := o2); cbn; [rewrite (get_obj_conn _ _ _ G2); exact G2|reflexivity|apply incl_refl].
Qed.

Lemma unsubscribe_client_gr c s : gr s (unsubscribe_client c s).
Proof.
  unfold unsubscribe_client. destruct (get_obj c (st_objs s)) as [o|] eqn:G; [|apply gr_refl].
  assert (E1 : gr s (upd_obj s (with_session o [] (o_infl o)))).
  { apply gr_upd with (o0 := o); cbn; [rewrite (get_obj_conn _ _ _ G); exact G|reflexivity|intros x []]. }
  destruct (o_tko o); [exact E1|]. eapply gr_trans; [exact E1|].
  apply gr_same_objs; auto. intros e I. cbn in I. unfold ix_del_all in I. apply filter_In in I. tauto.
Qed.

Lemma clear_inflights_gr c s : gr s (clear_inflights c s).
Proof.
  unfold clear_inflights. destruct (get_obj c (st_objs s)) as [o|] eqn:G; [|apply gr_refl].
  apply gr_upd with (o0 := o); cbn; [rewrite (get_obj_conn _ _ _ G); exact G|reflexivity|apply incl_refl].
Qed.

Lemma stopped_keys o now : keys (stopped o now) = keys o /\ o_id (stopped o now) = o_id o.
Proof. unfold stopped. destruct (o_open o); auto. Qed.

Lemma disconnect_client_gr now c code s : gr s (fst (disconnect_client now c code s)).
Proof.
  unfold disconnect_client. destruct (get_obj c (st_objs s)) as [o|] eqn:G; [|apply gr_refl].
  destruct (o_open o); [|apply gr_refl]. cbn [fst]. destruct (stopped_keys o now) as [K I].
  apply gr_upd with (o0 := o); [rewrite stopped_conn, (get_obj_conn _ _ _ G); exact G|exact I|rewrite K; apply incl_refl].
Qed.

Lemma handler_tail_gr k now c err s : gr s (fst (handler_tail k now c err s)).
Proof.
  unfold handler_tail.
  assert (A : gr s (fst (if err then send_lwt k now c s else (s, [])))) by (destruct err; [apply send_lwt_gr|apply gr_refl]).
  destruct (if err then send_lwt k now c s else (s, [])) as [s1 o1]. cbn [fst] in A.
  destruct (get_obj c (st_objs s1)) as [o|] eqn:G; [|exact A]. cbn [fst].
  set (o' := if err then stopped o now else with_will o no_will).
  assert (E2 : gr s1 (upd_obj s1 o')).
  { destruct (stopped_keys o now) as [K I]. apply gr_upd with (o0 := o); subst o'; destruct err; cbn;
    try (rewrite stopped_conn); try rewrite (get_obj_conn _ _ _ G); try exact G; try exact I; try reflexivity;
    try (rewrite K; apply incl_refl); apply incl_refl. }
  set (s2 := upd_obj s1 o') in *.
  set (s3 := if expire_cond o' && negb (o_tko o')
             then set_clients (unsubscribe_client c (clear_inflights c s2)) (adel (o_id o') (st_clients s2)) else s2).
  assert (E3 : gr s2 s3).
  { subst s3. destruct (expire_cond o' && negb (o_tko o')); [|apply gr_refl].
    eapply gr_trans; [apply clear_inflights_gr|]. eapply gr_trans; [apply unsubscribe_client_gr|].
    set (sa := unsubscribe_client c (clear_inflights c s2)).
    assert (CA : st_clients sa = st_clients s2).
    { pose proof (same_keys_trans _ _ _ (clear_inflights_same_keys c s2) (unsubscribe_client_same_keys c (clear_inflights c s2))) as (_ & E & _). exact E. }
    rewrite <- CA. apply gr_adel. }
  eapply gr_trans; [exact A|]. eapply gr_trans; [exact E2|]. eapply gr_trans; [exact E3|].
  apply (gr_match_upd c (fun x => with_phase x PhDone)). intro x. split; [reflexivity|split; [reflexivity|apply incl_refl]].
Qed.

Lemma tick_clients_gr k now l : forall s, gr s (fst (tick_clients k now l s)).
Proof.
  induction l as [|[id c] r IH]; intro s; cbn [tick_clients]; [apply gr_refl|].
  destruct (get_obj c (st_objs s)) as [o|]; [|apply IH]. destruct (o_disc o =? 0)%Z; [apply IH|].
  match goal with |- context [if (?a <? now)%Z then _ else _] => destruct (a <? now)%Z end; [|apply IH].
  match goal with |- context [tick_clients k now r ?sx] => specialize (IH sx); destruct (tick_clients k now r sx) as [s3 outs] end.
  cbn [fst] in *. eapply gr_trans; [|exact IH].
  eapply gr_trans; [apply clear_inflights_gr|]. eapply gr_trans; [apply unsubscribe_client_gr|apply gr_adel].
Qed.

Lemma tick_will_gr k now l : forall s, gr s (fst (tick_will k now l s)).
Proof.
  induction l as [|[id d] r IH]; intro s; cbn [tick_will]; [apply gr_refl|].
  destruct (d_due d <? now)%Z; [|apply IH].
  pose proof (deliver_gr k (d_msg d) (st_index s) s) as E1. unfold publish.
  destruct (deliver k (d_msg d) (st_index s) s) as [s1 o1]. cbn [fst] in E1.
  assert (E2 : gr s1 (fst (match client_of s1 id with
                         | Some o => (upd_obj (if m_retain (d_msg d) then retain_msg k (d_msg d) s1 else s1) (with_will o no_will), [OWillSent id])
                         | None => (s1, []) end))).
  { destruct (client_of s1 id) as [o|] eqn:C; [|apply gr_refl]. cbn [fst].
    pose proof (client_of_obj _ _ _ C) as G.
    set (s' := if m_retain (d_msg d) then retain_msg k (d_msg d) s1 else s1).
    assert (E' : gr s1 s') by (subst s'; destruct (m_retain (d_msg d)); [apply retain_msg_gr|apply gr_refl]).
    eapply gr_trans; [exact E'|].
    assert (G' : get_obj (o_conn o) (st_objs s') = Some o).
    { subst s'. destruct (m_retain (d_msg d)); [|exact G]. unfold retain_msg. destruct (k_retain k); [|exact G]. destruct (m_payload (d_msg d)); exact G. }
    apply gr_upd with (o0 := o); cbn; [exact G'|reflexivity|apply incl_refl]. }
  destruct (match client_of s1 id with
            | Some o => (upd_obj (if m_retain (d_msg d) then retain_msg k (d_msg d) s1 else s1) (with_will o no_will), [OWillSent id])
            | None => (s1, []) end) as [s2 o2]. cbn [fst] in *.
  specialize (IH (set_wills s2 (adel id (st_wills s2)))).
  destruct (tick_will k now r (set_wills s2 (adel id (st_wills s2)))) as [s4 o4]. cbn [fst] in *.
  eapply gr_trans; [exact E1|]. eapply gr_trans; [exact E2|]. eapply gr_trans; [apply gr_set_wills|exact IH].
Qed.

(* every operation on existing connections, SUBSCRIBE excepted (it adds a subscription) *)
Lemma step_old_gr k s o :
  is_new_conn s o = None -> (forall c f q, o <> OSubscribe c f q) -> gr s (fst (step k s o)).
Proof.
  destruct o; cbn [is_new_conn step]; intros H NS.
  - destruct (memN c (st_used s)); [apply gr_refl|discriminate].
  - destruct (memN c (st_used s)); [apply gr_refl|discriminate].
  - unfold do_disconnect. destruct (reading s c) as [ob|] eqn:RD; [|apply gr_refl].
    apply reading_obj in RD. destruct RD as [G OO]. pose proof (get_obj_conn _ _ _ G) as EC.
    destruct (match sei with Some v => (0 <? v) && (o_sei ob =? 0) | None => false end).
    + pose proof (disconnect_client_gr now c 130 s) as E1. destruct (disconnect_client now c 130 s) as [s1 o1]. cbn [fst] in *.
      pose proof (handler_tail_gr k now c true s1) as E2. destruct (handler_tail k now c true s1) as [s2 o2]. cbn [fst] in *.
      eapply gr_trans; eassumption.
    + set (o' := match sei with Some v => with_sei ob (if k_maxsei k <? v then k_maxsei k else v) true | None => ob end).
      assert (F' : o_conn o' = c /\ o_id o' = o_id ob /\ keys o' = keys ob) by (subst o'; destruct sei; cbn; auto).
      destruct F' as (C' & I' & K').
      assert (E1 : gr s (upd_obj s o')) by (apply gr_upd with (o0 := ob); [rewrite C'; exact G|exact I'|rewrite K'; apply incl_refl]).
      destruct (negb (rc =? 0)).
      * pose proof (handler_tail_gr k now c true (upd_obj s o')) as E2. destruct (handler_tail k now c true (upd_obj s o')) as [s2 o2]. cbn [fst] in *.
        eapply gr_trans; eassumption.
      * set (s2 := set_wills (upd_obj s o') (adel (o_id o') (st_wills (upd_obj s o')))).
        assert (G2 : get_obj c (st_objs s2) = Some o') by (subst s2; cbn; rewrite <- C'; apply get_put_same).
        destruct (stopped_keys o' now) as [SK SI].
        assert (E3 : gr s2 (upd_obj s2 (stopped o' now))).
        { apply gr_upd with (o0 := o'); [rewrite stopped_conn, C'; exact G2|exact SI|rewrite SK; apply incl_refl]. }
        pose proof (handler_tail_gr k now c false (upd_obj s2 (stopped o' now))) as E4.
        destruct (handler_tail k now c false (upd_obj s2 (stopped o' now))) as [s4 o4]. cbn [fst] in *.
        eapply gr_trans; [exact E1|]. eapply gr_trans; [apply gr_set_wills|]. eapply gr_trans; eassumption.
  - unfold do_netclose. destruct (reading s c); [apply handler_tail_gr|apply gr_refl].
  - unfold do_teardown. destruct (get_obj c (st_objs s)) as [ob|]; [|apply gr_refl]. destruct (o_phase ob); try apply gr_refl. apply handler_tail_gr.
  - apply tick_clients_gr.
  - apply tick_will_gr.
  - exfalso. apply (NS c f q). reflexivity.
  - unfold do_publish. destruct (reading s c); [|apply gr_refl].
    eapply gr_trans; [|apply deliver_gr]. destruct (m_retain m); [apply retain_msg_gr|apply gr_refl].
  - unfold do_second_connect. destruct (reading s c) as [ob|]; [|apply gr_refl].
    pose proof (send_lwt_gr k now c s) as E1. destruct (send_lwt k now c s) as [s1 o1]. cbn [fst] in *.
    assert (E2 : gr s1 (fst (if o_ver ob =? 5 then disconnect_client now c 130 s1 else (s1, [])))) by (destruct (o_ver ob =? 5); [apply disconnect_client_gr|apply gr_refl]).
    destruct (if o_ver ob =? 5 then disconnect_client now c 130 s1 else (s1, [])) as [s2 o2]. cbn [fst] in *.
    pose proof (handler_tail_gr k now c true s2) as E3. destruct (handler_tail k now c true s2) as [s3 o3]. cbn [fst] in *.
    eapply gr_trans; [exact E1|]. eapply gr_trans; eassumption.
Qed.

(* ---------- unacknowledged messages belong to subscriptions of their session ---------- *)
Definition isub (s : state) : Prop :=
  forall c o, get_obj c (st_objs s) = Some o -> forall mm, In mm (o_infl o) -> In (m_topic mm) (keys o).

(* functions that change neither subscriptions nor in-flight messages *)
Definition same_sess (s s' : state) : Prop :=
  forall c, option_map (fun o => (o_subs o, o_infl o)) (get_obj c (st_objs s')) =
            option_map (fun o => (o_subs o, o_infl o)) (get_obj c (st_objs s)).

Lemma isub_same_sess s s' : same_sess s s' -> isub s -> isub s'.
Proof.
  intros K I c o' G mm IN. specialize (K c). rewrite G in K. cbn in K.
  destruct (get_obj c (st_objs s)) as [o|] eqn:G0; [|discriminate]. cbn in K. inversion K as [[KS KI]].
  unfold keys. rewrite KS. rewrite KI in IN. apply (I c o G0 mm IN).
Qed.

Lemma isub_upd s o : isub s -> (forall mm, In mm (o_infl o) -> In (m_topic mm) (keys o)) -> isub (upd_obj s o).
Proof.
  intros I H c o' G. unfold upd_obj in G. cbn in G. destruct (N.eq_dec c (o_conn o)) as [->|N].
  - rewrite get_put_same in G. inversion G; subst. exact H.
  - rewrite get_put_other in G by exact N. apply (I c o' G).
Qed.

Lemma isub_objs s s' : st_objs s' = st_objs s -> isub s -> isub s'.
Proof. intros E I c o G. rewrite E in G. apply (I c o G). Qed.

Lemma deliver_isub k m : forall ix s,
  inv s -> isub s -> (forall e, In e ix -> In e (st_index s)) -> isub (fst (deliver k m ix s)).
Proof.
  induction ix as [|[[id f] q] r IH]; intros s [W X] I SUB; cbn [deliver]; [exact I|].
  assert (SUBr : forall e, In e r -> In e (st_index s)) by (intros e IN; apply SUB; right; exact IN).
  destruct (beq_bytes f (m_topic m)) eqn:BF; [|apply IH; [split; assumption|exact I|exact SUBr]].
  destruct (client_of s id) as [o|] eqn:C; [|apply IH; [split; assumption|exact I|exact SUBr]].
  pose proof (client_of_obj _ _ _ C) as G. apply bb_eq in BF.
  destruct (X id f q (SUB _ (or_introl eq_refl))) as (c' & o2 & A2 & G2 & F2).
  assert (EO : o2 = o).
  { unfold client_of in C. rewrite A2 in C. rewrite G2 in C. inversion C. reflexivity. }
  subst o2.
  match goal with |- context [upd_obj s ?o'] => set (oo := o') end.
  assert (KO : okey oo = okey o /\ o_subs oo = o_subs o /\ o_conn oo = o_conn o) by (subst oo; destruct (0 <? _); cbn; auto).
  destruct KO as (KO & SO & CO).
  assert (W1 : wf (upd_obj s oo)) by (apply (wf_same_keys s); [apply same_keys_upd with (o0 := o); [rewrite CO; exact G|exact KO]|exact W]).
  assert (X1 : ixinv (upd_obj s oo)) by (apply (ixinv_same_subs s); [apply same_subs_upd with (o0 := o); [rewrite CO; exact G|exact SO]|exact X]).
  assert (I1 : isub (upd_obj s oo)).
  { apply isub_upd; [exact I|]. subst oo. destruct (0 <? _); cbn.
    - intros mm IN. apply in_app_or in IN. destruct IN as [IN|[<-|[]]]; [apply (I _ o G mm IN)|]. cbn. rewrite <- BF. exact F2.
    - intros mm IN. apply (I _ o G mm IN). }
  specialize (IH (upd_obj s oo) (conj W1 X1) I1 SUBr).
  destruct (deliver k m r (upd_obj s oo)) as [s'' outs]. exact IH.
Qed.

Lemma publish_isub k m s : inv s -> isub s -> isub (fst (publish k m s)).
Proof. intros V I. apply deliver_isub; auto. Qed.

Lemma inv_same s s' : same_keys s s' -> same_subs s s' -> inv s -> inv s'.
Proof. intros K S [W X]. split; [apply (wf_same_keys s); assumption|apply (ixinv_same_subs s); assumption]. Qed.

Lemma retain_msg_inv k m s : inv s -> inv (retain_msg k m s).
Proof. apply inv_same; [apply retain_msg_same_keys|apply retain_msg_same_subs]. Qed.

Lemma retain_msg_isub k m s : isub s -> isub (retain_msg k m s).
Proof. apply isub_objs. unfold retain_msg. destruct (k_retain k); [|reflexivity]. destruct (m_payload m); reflexivity. Qed.

Lemma send_lwt_isub k now c s : inv s -> isub s -> isub (fst (send_lwt k now c s)).
Proof.
  intros V I. unfold send_lwt. destruct (get_obj c (st_objs s)) as [o|] eqn:G; [|exact I].
  destruct (negb (w_flag (o_will o))); [exact I|]. destruct (0 <? w_delay (o_will o)); [exact I|].
  set (s1 := if w_retain (o_will o) then retain_msg k (will_msg (o_will o)) s else s).
  assert (V1 : inv s1) by (subst s1; destruct (w_retain (o_will o)); [apply retain_msg_inv, V|exact V]).
  assert (I1 : isub s1) by (subst s1; destruct (w_retain (o_will o)); [apply retain_msg_isub, I|exact I]).
  pose proof (publish_isub k (will_msg (o_will o)) s1 V1 I1) as I2.
  destruct (publish k (will_msg (o_will o)) s1) as [s2 outs]. cbn [fst] in *.
  destruct (get_obj c (st_objs s2)) as [o2|] eqn:G2.
  - apply isub_upd; [exact I2|]. cbn. apply (I2 c o2 G2).
  - apply isub_upd; [exact I2|]. cbn. apply (I c o G).
Qed.

Lemma clear_inflights_isub c s : isub s -> isub (clear_inflights c s).
Proof.
  intro I. unfold clear_inflights. destruct (get_obj c (st_objs s)) as [o|]; [|exact I].
  apply isub_upd; [exact I|]. cbn. intros mm [].
Qed.

(* UnsubscribeClient followed or preceded by ClearInflights on the same object *)
Lemma clear_unsub_isub c s : isub s -> isub (unsubscribe_client c (clear_inflights c s)).
Proof.
  intro I. pose proof (clear_inflights_isub c s I) as I1. unfold unsubscribe_client.
  destruct (get_obj c (st_objs (clear_inflights c s))) as [o|] eqn:G; [|exact I1].
  assert (EI : o_infl o = []).
  { unfold clear_inflights in G. destruct (get_obj c (st_objs s)) as [o0|] eqn:G0; [|congruence].
    unfold upd_obj in G. cbn in G. pose proof (get_put_same (with_session o0 (o_subs o0) []) (st_objs s)) as GP. cbn in GP.
    rewrite (get_obj_conn _ _ _ G0) in GP. rewrite GP in G. inversion G. reflexivity. }
  assert (I2 : isub (upd_obj (clear_inflights c s) (with_session o [] (o_infl o)))).
  { apply isub_upd; [exact I1|]. cbn. rewrite EI. intros mm []. }
  destruct (o_tko o); [exact I2|exact I2].
Qed.

Lemma unsub_clear_isub c s : isub s -> isub (clear_inflights c (unsubscribe_client c s)).
Proof.
  intro I. unfold clear_inflights.
  destruct (get_obj c (st_objs (unsubscribe_client c s))) as [o|] eqn:G.
  2:{ (* no object: unsubscribe_client was the identity *) unfold unsubscribe_client in *. destruct (get_obj c (st_objs s)) as [o0|] eqn:G0; [|exact I].
      exfalso. destruct (o_tko o0); cbn in G; pose proof (get_put_same (with_session o0 [] (o_infl o0)) (st_objs s)) as GP; cbn in GP;
      rewrite (get_obj_conn _ _ _ G0) in GP; congruence. }
  intros c' o' G'. unfold upd_obj in G'. cbn in G'. destruct (N.eq_dec c' (o_conn (with_session o (o_subs o) []))) as [E|NE].
  - rewrite E in G'. rewrite get_put_same in G'. inversion G'; subst o'. cbn. intros mm [].
  - rewrite get_put_other in G' by exact NE. cbn in NE. rewrite (get_obj_conn _ _ _ G) in NE.
    rewrite other_unsubscribe in G' by exact NE. apply (I c' o' G').
Qed.

Lemma stopped_sess_ok o now :
  (forall mm, In mm (o_infl o) -> In (m_topic mm) (keys o)) ->
  forall mm, In mm (o_infl (stopped o now)) -> In (m_topic mm) (keys (stopped o now)).
Proof. unfold stopped, keys. destruct (o_open o); cbn; auto. Qed.

Lemma send_lwt_inv k now c s : inv s -> inv (fst (send_lwt k now c s)).
Proof. apply inv_same; [apply send_lwt_same_keys|apply send_lwt_same_subs]. Qed.

Lemma disconnect_client_isub now c code s : isub s -> isub (fst (disconnect_client now c code s)).
Proof.
  intro I. unfold disconnect_client. destruct (get_obj c (st_objs s)) as [o|] eqn:G; [|exact I].
  destruct (o_open o) eqn:OO; [|exact I]. cbn [fst]. apply isub_upd; [exact I|].
  apply stopped_sess_ok. apply (I c o G).
Qed.

Lemma handler_tail_isub k now c err s : inv s -> isub s -> isub (fst (handler_tail k now c err s)).
Proof.
  intros V I. unfold handler_tail.
  assert (A : isub (fst (if err then send_lwt k now c s else (s, [])))) by (destruct err; [apply send_lwt_isub; assumption|exact I]).
  destruct (if err then send_lwt k now c s else (s, [])) as [s1 o1]. cbn [fst] in A.
  destruct (get_obj c (st_objs s1)) as [o|] eqn:G; [|exact A]. cbn [fst].
  set (o' := if err then stopped o now else with_will o no_will).
  assert (I2 : isub (upd_obj s1 o')).
  { apply isub_upd; [exact A|]. subst o'. destruct err; [apply stopped_sess_ok|unfold keys; cbn]; apply (A c o G). }
  set (s2 := upd_obj s1 o') in *.
  set (s3 := if expire_cond o' && negb (o_tko o')
             then set_clients (unsubscribe_client c (clear_inflights c s2)) (adel (o_id o') (st_clients s2)) else s2).
  assert (I3 : isub s3).
  { subst s3. destruct (expire_cond o' && negb (o_tko o')); [|exact I2].
    apply (isub_objs (unsubscribe_client c (clear_inflights c s2))); [reflexivity|apply clear_unsub_isub, I2]. }
  destruct (get_obj c (st_objs s3)) as [x|] eqn:G3; [|exact I3].
  apply isub_upd; [exact I3|]. unfold keys. cbn. apply (I3 c x G3).
Qed.

Lemma tick_clients_isub k now l : forall s, isub s -> isub (fst (tick_clients k now l s)).
Proof.
  induction l as [|[id c] r IH]; intros s I; cbn [tick_clients]; [exact I|].
  destruct (get_obj c (st_objs s)) as [o|]; [|apply IH, I]. destruct (o_disc o =? 0)%Z; [apply IH, I|].
  match goal with |- context [if (?a <? now)%Z then _ else _] => destruct (a <? now)%Z end; [|apply IH, I].
  match goal with |- context [tick_clients k now r ?sx] => specialize (IH sx); destruct (tick_clients k now r sx) as [s3 outs] end.
  cbn [fst] in *. apply IH. apply (isub_objs (unsubscribe_client c (clear_inflights c s))); [reflexivity|apply clear_unsub_isub, I].
Qed.

Lemma tick_will_isub k now l : forall s, inv s -> isub s -> isub (fst (tick_will k now l s)).
Proof.
  induction l as [|[id d] r IH]; intros s V I; cbn [tick_will]; [exact I|].
  destruct (d_due d <? now)%Z; [|apply IH; assumption].
  pose proof (publish_isub k (d_msg d) s V I) as I1.
  assert (V1 : inv (fst (publish k (d_msg d) s))) by (apply (inv_same s); [apply publish_same_keys|apply deliver_same_subs|exact V]).
  destruct (publish k (d_msg d) s) as [s1 o1]. cbn [fst] in *.
  assert (B : inv (fst (match client_of s1 id with
                         | Some o => (upd_obj (if m_retain (d_msg d) then retain_msg k (d_msg d) s1 else s1) (with_will o no_will), [OWillSent id])
                         | None => (s1, []) end)) /\
              isub (fst (match client_of s1 id with
                         | Some o => (upd_obj (if m_retain (d_msg d) then retain_msg k (d_msg d) s1 else s1) (with_will o no_will), [OWillSent id])
                         | None => (s1, []) end))).
  { destruct (client_of s1 id) as [o|] eqn:C; [|split; assumption]. cbn [fst].
    pose proof (client_of_obj _ _ _ C) as G.
    set (s' := if m_retain (d_msg d) then retain_msg k (d_msg d) s1 else s1).
    assert (V' : inv s') by (subst s'; destruct (m_retain (d_msg d)); [apply retain_msg_inv, V1|exact V1]).
    assert (I' : isub s') by (subst s'; destruct (m_retain (d_msg d)); [apply retain_msg_isub, I1|exact I1]).
    assert (G' : get_obj (o_conn o) (st_objs s') = Some o).
    { subst s'. destruct (m_retain (d_msg d)); [|exact G]. unfold retain_msg. destruct (k_retain k); [|exact G]. destruct (m_payload (d_msg d)); exact G. }
    split.
    - apply (inv_same s'); [apply same_keys_upd with (o0 := o); [exact G'|reflexivity]|apply same_subs_upd with (o0 := o); [exact G'|reflexivity]|exact V'].
    - apply isub_upd; [exact I'|]. unfold keys. cbn. apply (I' _ o G'). }
  destruct (match client_of s1 id with
            | Some o => (upd_obj (if m_retain (d_msg d) then retain_msg k (d_msg d) s1 else s1) (with_will o no_will), [OWillSent id])
            | None => (s1, []) end) as [s2 o2]. cbn [fst] in B. destruct B as [V2 I2].
  specialize (IH (set_wills s2 (adel id (st_wills s2)))).
  destruct (tick_will k now r (set_wills s2 (adel id (st_wills s2)))) as [s4 o4]. cbn [fst] in *. apply IH.
  - apply (inv_same s2); [apply same_keys_set_wills|repeat split|exact V2].
  - exact I2.
Qed.

Lemma inherit_isub k now p n s :
  isub s -> o_infl n = [] ->
  let '(s1, n1, sp, o1) := inherit k now p n s in isub s1 /\ (forall mm, In mm (o_infl n1) -> In (m_topic mm) (keys n1)).
Proof.
  intros I NI. unfold inherit. destruct (aget (o_id n) (st_clients s)) as [e|]; [|split; [exact I|rewrite NI; intros mm []]].
  destruct (get_obj e (st_objs s)) as [eo0|] eqn:G0; [|split; [exact I|rewrite NI; intros mm []]].
  pose proof (disconnect_client_isub now e 142 s I) as I1.
  destruct (disconnect_client now e 142 s) as [s1 o1]. cbn [fst] in I1.
  set (s1' := match get_obj e (st_objs s1) with
              | Some x => if (match o_phase x with PhReading => true | _ => false end) && negb (o_open x)
                          then upd_obj s1 (with_phase x PhHeld) else s1
              | None => s1 end).
  assert (I1' : isub s1').
  { subst s1'. destruct (get_obj e (st_objs s1)) as [x|] eqn:G1; [|exact I1].
    destruct ((match o_phase x with PhReading => true | _ => false end) && negb (o_open x)); [|exact I1].
    apply isub_upd; [exact I1|]. unfold keys. cbn. apply (I1 e x G1). }
  assert (TK : forall z, isub z -> isub (match get_obj e (st_objs z) with Some x => upd_obj z (with_tko x) | None => z end)).
  { intros z IZ. destruct (get_obj e (st_objs z)) as [x|] eqn:GZ; [|exact IZ]. apply isub_upd; [exact IZ|]. unfold keys. cbn. apply (IZ e x GZ). }
  destruct (cp_clean p || (o_clean eo0 && (o_ver eo0 <? 5))).
  - split; [|rewrite NI; intros mm []]. apply TK. apply unsub_clear_isub, I1'.
  - split; [|cbn; unfold keys; cbn; apply (I e eo0 G0)].
    apply unsub_clear_isub. apply (isub_objs (match get_obj e (st_objs s1') with Some x => upd_obj s1' (with_tko x) | None => s1' end)); [reflexivity|].
    apply TK, I1'.
Qed.

Theorem step_isub k s o : inv s -> isub s -> isub (fst (step k s o)).
Proof.
  intros V I. destruct o; cbn [step].
  - destruct (memN c (st_used s)); [exact I|]. unfold attach.
    destruct (cp_trunc p); [exact I|]. destruct (negb (validate_connect k p =? 0)); [exact I|]. destruct (negb auth_ok); [exact I|].
    pose proof (inherit_isub k now p (parse_connect c p effid) (set_used s (c :: st_used s)) I eq_refl) as II.
    destruct (inherit k now p (parse_connect c p effid) (set_used s (c :: st_used s))) as [[[s1 n1] sp] o1].
    destruct II as [I1 N1]. cbn [fst].
    apply (isub_objs (upd_obj s1 (if k_maxsei k <? o_sei n1 then with_sei n1 (k_maxsei k) true else n1))); [reflexivity|].
    apply isub_upd; [exact I1|]. destruct (k_maxsei k <? o_sei n1); unfold keys in *; cbn; exact N1.
  - destruct (memN c (st_used s)); exact I.
  - unfold do_disconnect. destruct (reading s c) as [ob|] eqn:RD; [|exact I].
    apply reading_obj in RD. destruct RD as [G OO]. pose proof (get_obj_conn _ _ _ G) as EC.
    destruct (match sei with Some v => (0 <? v) && (o_sei ob =? 0) | None => false end).
    + pose proof (disconnect_client_isub now c 130 s I) as I1.
      assert (V1 : inv (fst (disconnect_client now c 130 s))).
      { destruct V as [W X]. split; [apply disconnect_client_wf, W|apply (ixinv_same_subs s); [apply disconnect_client_same_subs|exact X]]. }
      destruct (disconnect_client now c 130 s) as [s1 o1]. cbn [fst] in *.
      pose proof (handler_tail_isub k now c true s1 V1 I1) as I2. destruct (handler_tail k now c true s1) as [s2 o2]. exact I2.
    + set (o' := match sei with Some v => with_sei ob (if k_maxsei k <? v then k_maxsei k else v) true | None => ob end).
      assert (F' : o_conn o' = c /\ okey o' = okey ob /\ o_subs o' = o_subs ob /\ o_infl o' = o_infl ob) by (subst o'; destruct sei; cbn; auto).
      destruct F' as (C' & K' & S' & F').
      assert (V1 : inv (upd_obj s o')).
      { apply (inv_same s); [apply same_keys_upd with (o0 := ob); [rewrite C'; exact G|exact K']|apply same_subs_upd with (o0 := ob); [rewrite C'; exact G|exact S']|exact V]. }
      assert (I1 : isub (upd_obj s o')) by (apply isub_upd; [exact I|unfold keys; rewrite S', F'; apply (I c ob G)]).
      assert (G1 : get_obj c (st_objs (upd_obj s o')) = Some o') by (unfold upd_obj; cbn; rewrite <- C'; apply get_put_same).
      destruct (negb (rc =? 0)).
      * pose proof (handler_tail_isub k now c true _ V1 I1) as I2. destruct (handler_tail k now c true (upd_obj s o')) as [s2 o2]. exact I2.
      * set (s2 := set_wills (upd_obj s o') (adel (o_id o') (st_wills (upd_obj s o')))).
        assert (V2 : inv s2) by (apply (inv_same (upd_obj s o')); [apply same_keys_set_wills|repeat split|exact V1]).
        assert (V3 : inv (upd_obj s2 (stopped o' now))).
        { destruct V2 as [W2 X2]. split; [apply (wf_stop s2 c o' now W2 G1)|].
          apply (ixinv_same_subs s2); [apply same_subs_upd with (o0 := o'); [rewrite stopped_conn, C'; exact G1|apply stopped_subs]|exact X2]. }
        assert (I3 : isub (upd_obj s2 (stopped o' now))).
        { apply isub_upd; [exact I1|]. apply stopped_sess_ok. apply (I1 c o' G1). }
        pose proof (handler_tail_isub k now c false _ V3 I3) as I4.
        destruct (handler_tail k now c false (upd_obj s2 (stopped o' now))) as [s4 o4]. exact I4.
  - unfold do_netclose. destruct (reading s c); [apply handler_tail_isub; assumption|exact I].
  - unfold do_teardown. destruct (get_obj c (st_objs s)) as [ob|]; [|exact I]. destruct (o_phase ob); try exact I. apply handler_tail_isub; assumption.
  - apply tick_clients_isub, I.
  - apply tick_will_isub; assumption.
  - unfold do_subscribe. destruct (reading s c) as [ob|] eqn:RD; [|exact I]. apply reading_obj in RD. destruct RD as [G _]. cbn [fst].
    apply (isub_objs (upd_obj s (with_session ob (aset f q (o_subs ob)) (o_infl ob)))); [reflexivity|].
    apply isub_upd; [exact I|]. unfold keys. cbn. intros mm IN. apply aset_keys. apply (I c ob G mm IN).
  - unfold do_publish. destruct (reading s c); [|exact I].
    destruct (m_retain m); [apply publish_isub; [apply retain_msg_inv, V|apply retain_msg_isub, I]|apply publish_isub; assumption].
  - unfold do_second_connect. destruct (reading s c) as [ob|]; [|exact I].
    pose proof (send_lwt_isub k now c s V I) as I1. pose proof (send_lwt_inv k now c s V) as V1.
    destruct (send_lwt k now c s) as [s1 o1]. cbn [fst] in *.
    assert (B : inv (fst (if o_ver ob =? 5 then disconnect_client now c 130 s1 else (s1, []))) /\
                isub (fst (if o_ver ob =? 5 then disconnect_client now c 130 s1 else (s1, [])))).
    { destruct (o_ver ob =? 5); [|split; assumption]. split; [|apply disconnect_client_isub, I1].
      destruct V1 as [W X]. split; [apply disconnect_client_wf, W|apply (ixinv_same_subs s1); [apply disconnect_client_same_subs|exact X]]. }
    destruct (if o_ver ob =? 5 then disconnect_client now c 130 s1 else (s1, [])) as [s2 o2]. cbn [fst] in B. destruct B as [V2 I2].
    pose proof (handler_tail_isub k now c true s2 V2 I2) as I3. destruct (handler_tail k now c true s2) as [s3 o3]. exact I3.
Qed.

(* ---------- every forwarded PUBLISH goes to the session registered for a matching index entry ---------- *)
Definition pj (s : state) (outs : list out) : Prop :=
  forall c mm d, In (OPkt c (PPublish mm d)) outs ->
    d = false /\ exists id q, In (id, m_topic mm, q) (st_index s) /\ aget id (st_clients s) = Some c.

Lemma pj_nil s : pj s [].
Proof. intros c mm d []. Qed.
Lemma pj_app s a b : pj s a -> pj s b -> pj s (a ++ b).
Proof. intros A B c mm d I. apply in_app_or in I. destruct I; [apply A|apply B]; assumption. Qed.
Lemma pj_gr s s' outs : gr s s' -> pj s' outs -> pj s outs.
Proof.
  intros (_ & C & IX) P c mm d I. destruct (P c mm d I) as (D & id & q & II & A). split; [exact D|]. exists id, q. split; [apply IX, II|apply C, A].
Qed.
Lemma pj_nopub s outs : (forall c mm d, ~ In (OPkt c (PPublish mm d)) outs) -> pj s outs.
Proof. intros H c mm d I. destruct (H c mm d I). Qed.

Lemma deliver_pj k m : forall ix s, (forall e, In e ix -> In e (st_index s)) -> pj s (snd (deliver k m ix s)).
Proof.
  induction ix as [|[[id f] q] r IH]; intros s SUB; cbn [deliver]; [apply pj_nil|].
  assert (SUBr : forall e, In e r -> In e (st_index s)) by (intros e IN; apply SUB; right; exact IN).
  destruct (beq_bytes f (m_topic m)) eqn:BF; [|apply IH, SUBr].
  destruct (client_of s id) as [o|] eqn:C; [|apply IH, SUBr]. apply bb_eq in BF.
  match goal with |- context [upd_obj s ?o'] => set (oo := o') end.
  assert (E1 : gr s (upd_obj s oo)).
  { pose proof (client_of_obj _ _ _ C) as G. apply gr_upd with (o0 := o); subst oo; destruct (0 <? _); cbn; auto; apply incl_refl. }
  specialize (IH (upd_obj s oo) SUBr). destruct (deliver k m r (upd_obj s oo)) as [s'' outs]. cbn [snd] in *.
  apply pj_app; [|apply (pj_gr s (upd_obj s oo)); assumption].
  destruct (o_open o); [|apply pj_nil]. intros c mm d [E|[]]. inversion E; subst. split; [reflexivity|].
  exists id, q. cbn. split; [first [rewrite <- BF|idtac]; apply SUB; left; reflexivity|].
  unfold client_of in C. destruct (aget id (st_clients s)) as [c0|] eqn:A; [|discriminate]. rewrite (get_obj_conn _ _ _ C). reflexivity.
Qed.

Lemma publish_pj k m s : pj s (snd (publish k m s)).
Proof. apply deliver_pj. auto. Qed.

Lemma send_lwt_pj k now c s : pj s (snd (send_lwt k now c s)).
Proof.
  unfold send_lwt. destruct (get_obj c (st_objs s)) as [o|]; [|apply pj_nil].
  destruct (negb (w_flag (o_will o))); [apply pj_nil|]. destruct (0 <? w_delay (o_will o)); [apply pj_nil|].
  set (s1 := if w_retain (o_will o) then retain_msg k (will_msg (o_will o)) s else s).
  assert (E1 : gr s s1) by (subst s1; destruct (w_retain (o_will o)); [apply retain_msg_gr|apply gr_refl]).
  pose proof (publish_pj k (will_msg (o_will o)) s1) as P. destruct (publish k (will_msg (o_will o)) s1) as [s2 outs]. cbn [snd] in *.
  intros x mm d [E|I]; [discriminate|]. apply in_app_or in I. destruct I as [I|[E|[]]]; [|discriminate].
  apply (pj_gr s s1 outs E1 P x mm d I).
Qed.

Lemma disconnect_client_pj now c code s : pj s (snd (disconnect_client now c code s)).
Proof.
  apply pj_nopub. intros x mm d I. unfold disconnect_client in I. destruct (get_obj c (st_objs s)) as [o|]; [|destruct I].
  destruct (o_open o); [|destruct I]. destruct I as [E|[E|[]]]; discriminate.
Qed.

Lemma handler_tail_pj k now c err s : pj s (snd (handler_tail k now c err s)).
Proof.
  unfold handler_tail.
  assert (A : pj s (snd (if err then send_lwt k now c s else (s, [])))) by (destruct err; [apply send_lwt_pj|apply pj_nil]).
  destruct (if err then send_lwt k now c s else (s, [])) as [s1 o1]. cbn [snd] in A.
  destruct (get_obj c (st_objs s1)) as [o|]; [|exact A]. cbn [snd].
  apply pj_app; [exact A|]. apply pj_nopub. intros x mm d I. apply in_app_or in I. destruct I as [I|[E|[]]]; [|discriminate].
  destruct (err && o_open o); [destruct I as [E|[]]; discriminate|destruct I].
Qed.

Lemma tick_will_pj k now l : forall s, pj s (snd (tick_will k now l s)).
Proof.
  induction l as [|[id d] r IH]; intro s; cbn [tick_will]; [apply pj_nil|].
  destruct (d_due d <? now)%Z; [|apply IH].
  pose proof (publish_pj k (d_msg d) s) as P1. pose proof (deliver_gr k (d_msg d) (st_index s) s) as E1. unfold publish in *.
  destruct (deliver k (d_msg d) (st_index s) s) as [s1 o1]. cbn [fst snd] in *.
  destruct (client_of s1 id) as [ob|] eqn:C.
  - set (s' := if m_retain (d_msg d) then retain_msg k (d_msg d) s1 else s1).
    assert (E' : gr s1 s') by (subst s'; destruct (m_retain (d_msg d)); [apply retain_msg_gr|apply gr_refl]).
    pose proof (client_of_obj _ _ _ C) as G.
    assert (G' : get_obj (o_conn ob) (st_objs s') = Some ob).
    { subst s'. destruct (m_retain (d_msg d)); [|exact G]. unfold retain_msg. destruct (k_retain k); [|exact G]. destruct (m_payload (d_msg d)); exact G. }
    assert (E2 : gr s' (upd_obj s' (with_will ob no_will))) by (apply gr_upd with (o0 := ob); cbn; [exact G'|reflexivity|apply incl_refl]).
    match goal with |- context [tick_will k now r ?sx] => specialize (IH sx);
      assert (E3 : gr s sx) by (eapply gr_trans; [exact E1|]; eapply gr_trans; [exact E'|]; eapply gr_trans; [exact E2|apply gr_set_wills]);
      destruct (tick_will k now r sx) as [s4 o4] end.
    cbn [snd] in *. intros x mm dd [E|I]; [discriminate|]. apply in_app_or in I. destruct I as [I|I]; [apply (P1 x mm dd I)|].
    apply in_app_or in I. destruct I as [[E|[]]|I]; [discriminate|]. eapply pj_gr; [exact E3|exact IH|exact I].
  - match goal with |- context [tick_will k now r ?sx] => specialize (IH sx);
      assert (E3 : gr s sx) by (eapply gr_trans; [exact E1|apply gr_set_wills]);
      destruct (tick_will k now r sx) as [s4 o4] end.
    cbn [snd] in *. intros x mm dd [E|I]; [discriminate|]. apply in_app_or in I. destruct I as [I|I]; [apply (P1 x mm dd I)|].
    cbn [app] in I. eapply pj_gr; [exact E3|exact IH|exact I].
Qed.

Lemma tick_clients_pj k now l : forall s, pj s (snd (tick_clients k now l s)).
Proof.
  intro s. apply pj_nopub. revert s. induction l as [|[id c] r IH]; intros s x mm d I; cbn [tick_clients] in I; [destruct I|].
  destruct (get_obj c (st_objs s)) as [o|]; [|apply (IH s x mm d I)]. destruct (o_disc o =? 0)%Z; [apply (IH s x mm d I)|].
  match type of I with context [if (?a <? now)%Z then _ else _] => destruct (a <? now)%Z end; [|apply (IH s x mm d I)].
  match type of I with context [tick_clients k now r ?sx] => specialize (IH sx); destruct (tick_clients k now r sx) as [s3 outs] end.
  cbn [snd] in I. destruct I as [E|I]; [discriminate|apply (IH x mm d I)].
Qed.

Lemma step_old_pj k s o : is_new_conn s o = None -> pj s (snd (step k s o)).
Proof.
  destruct o; cbn [is_new_conn step]; intro H.
  - destruct (memN c (st_used s)); [apply pj_nil|discriminate].
  - destruct (memN c (st_used s)); [apply pj_nil|discriminate].
  - unfold do_disconnect. destruct (reading s c) as [ob|] eqn:RD; [|apply pj_nil].
    apply reading_obj in RD. destruct RD as [G OO]. pose proof (get_obj_conn _ _ _ G) as EC.
    destruct (match sei with Some v => (0 <? v) && (o_sei ob =? 0) | None => false end).
    + pose proof (disconnect_client_pj now c 130 s) as P1. pose proof (disconnect_client_gr now c 130 s) as E1.
      destruct (disconnect_client now c 130 s) as [s1 o1]. cbn [fst snd] in *.
      pose proof (handler_tail_pj k now c true s1) as P2. destruct (handler_tail k now c true s1) as [s2 o2]. cbn [snd] in *.
      apply pj_app; [exact P1|apply (pj_gr s s1); assumption].
    + set (o' := match sei with Some v => with_sei ob (if k_maxsei k <? v then k_maxsei k else v) true | None => ob end).
      assert (F' : o_conn o' = c /\ o_id o' = o_id ob /\ keys o' = keys ob) by (subst o'; destruct sei; cbn; auto).
      destruct F' as (C' & I' & K').
      assert (E1 : gr s (upd_obj s o')) by (apply gr_upd with (o0 := ob); [rewrite C'; exact G|exact I'|rewrite K'; apply incl_refl]).
      destruct (negb (rc =? 0)).
      * pose proof (handler_tail_pj k now c true (upd_obj s o')) as P2. destruct (handler_tail k now c true (upd_obj s o')) as [s2 o2]. cbn [snd] in *.
        apply (pj_gr s (upd_obj s o')); assumption.
      * set (s2 := set_wills (upd_obj s o') (adel (o_id o') (st_wills (upd_obj s o')))).
        assert (G2 : get_obj c (st_objs s2) = Some o') by (subst s2; cbn; rewrite <- C'; apply get_put_same).
        destruct (stopped_keys o' now) as [SK SI].
        assert (E3 : gr s (upd_obj s2 (stopped o' now))).
        { eapply gr_trans; [exact E1|]. eapply gr_trans; [apply gr_set_wills|].
          apply gr_upd with (o0 := o'); [rewrite stopped_conn, C'; exact G2|exact SI|rewrite SK; apply incl_refl]. }
        pose proof (handler_tail_pj k now c false (upd_obj s2 (stopped o' now))) as P4.
        destruct (handler_tail k now c false (upd_obj s2 (stopped o' now))) as [s4 o4]. cbn [snd] in *.
        intros x mm d [E|I]; [discriminate|]. apply (pj_gr s _ o4 E3 P4 x mm d I).
  - unfold do_netclose. destruct (reading s c); [apply handler_tail_pj|apply pj_nil].
  - unfold do_teardown. destruct (get_obj c (st_objs s)) as [ob|]; [|apply pj_nil]. destruct (o_phase ob); try apply pj_nil. apply handler_tail_pj.
  - apply tick_clients_pj.
  - apply tick_will_pj.
  - unfold do_subscribe. destruct (reading s c); apply pj_nil.
  - unfold do_publish. destruct (reading s c); [|apply pj_nil].
    set (s1 := if m_retain m then retain_msg k m s else s).
    assert (E1 : gr s s1) by (subst s1; destruct (m_retain m); [apply retain_msg_gr|apply gr_refl]).
    apply (pj_gr s s1); [exact E1|apply publish_pj].
  - unfold do_second_connect. destruct (reading s c) as [ob|]; [|apply pj_nil].
    pose proof (send_lwt_pj k now c s) as P1. pose proof (send_lwt_gr k now c s) as E1.
    destruct (send_lwt k now c s) as [s1 o1]. cbn [fst snd] in *.
    assert (B : pj s1 (snd (if o_ver ob =? 5 then disconnect_client now c 130 s1 else (s1, []))) /\
                gr s1 (fst (if o_ver ob =? 5 then disconnect_client now c 130 s1 else (s1, [])))).
    { destruct (o_ver ob =? 5); [split; [apply disconnect_client_pj|apply disconnect_client_gr]|split; [apply pj_nil|apply gr_refl]]. }
    destruct (if o_ver ob =? 5 then disconnect_client now c 130 s1 else (s1, [])) as [s2 o2]. cbn [fst snd] in B. destruct B as [P2 E2].
    pose proof (handler_tail_pj k now c true s2) as P3. destruct (handler_tail k now c true s2) as [s3 o3]. cbn [snd] in *.
    apply pj_app; [exact P1|]. apply pj_app; [apply (pj_gr s s1); assumption|].
    apply (pj_gr s s2); [eapply gr_trans; eassumption|exact P3].
Qed.

(* ---------- the spec view of connections (lists keyed by connection number) ---------- *)
Lemma find_put_same x l : find_x (x_conn x) (put_x x l) = Some x.
Proof.
  induction l as [|y r IH]; cbn; [rewrite N.eqb_refl; reflexivity|].
  destruct (x_conn y =? x_conn x) eqn:E; cbn; [rewrite N.eqb_refl; reflexivity|rewrite E; exact IH].
Qed.
Lemma find_put_other x c l : c <> x_conn x -> find_x c (put_x x l) = find_x c l.
Proof.
  intro N. induction l as [|y r IH]; cbn.
  - destruct (x_conn x =? c) eqn:E; [apply N.eqb_eq in E; congruence|reflexivity].
  - destruct (x_conn y =? x_conn x) eqn:E; cbn.
    + apply N.eqb_eq in E. destruct (x_conn x =? c) eqn:E1; [apply N.eqb_eq in E1; congruence|]. rewrite E, E1. reflexivity.
    + destruct (x_conn y =? c); [reflexivity|exact IH].
Qed.
Lemma find_x_conn c l x : find_x c l = Some x -> x_conn x = c.
Proof.
  induction l as [|y r IH]; cbn; [discriminate|]. destruct (x_conn y =? c) eqn:E; [intro H; inversion H; subst; apply N.eqb_eq, E|exact IH].
Qed.
Lemma find_map (f : sconn -> sconn) c l : (forall x, x_conn (f x) = x_conn x) -> find_x c (map f l) = option_map f (find_x c l).
Proof.
  intro H. induction l as [|y r IH]; cbn; [reflexivity|]. rewrite H. destruct (x_conn y =? c); [reflexivity|exact IH].
Qed.

(* the justified subscriptions after the resets for discarded identifiers *)
Lemma j2_other id gone j1 : ~ In id (map sc_id gone) -> jsubs_of id (m15_j2 gone j1) = jsubs_of id j1.
Proof.
  unfold m15_j2. revert j1. induction gone as [|r t IH]; intros j1 NI; cbn [fold_left]; [reflexivity|].
  rewrite IH by (intro H; apply NI; right; exact H). unfold jsubs_of. rewrite aget_aset_other; [reflexivity|].
  intro E. apply NI. left. symmetry. exact E.
Qed.

Lemma has_client_in id l : has_client id l = true <-> exists r, In r l /\ sc_id r = id.
Proof.
  unfold has_client. induction l as [|r t IH]; cbn; [split; [discriminate|intros (r & [] & _)]|].
  destruct (beq_bytes (sc_id r) id) eqn:E.
  - split; [intros _; exists r; split; [left; reflexivity|apply bb_eq, E]|reflexivity].
  - rewrite IH. split; intros (r' & I & EQ).
    + exists r'. split; [right; exact I|exact EQ].
    + destruct I as [<-|I]; [rewrite EQ, bb_refl in E; discriminate|exists r'; auto].
Qed.

Lemma has_client_snap s id : wf s -> has_client id (sn_clients (snap_of s)) = true <-> aget id (st_clients s) <> None.
Proof.
  intro W. unfold has_client. rewrite (find_client_snap s id W).
  destruct (aget id (st_clients s)) as [c|] eqn:A; [|split; [discriminate|congruence]].
  destruct (wf_reg s W id c A) as (o & G & _). rewrite G. cbn. split; [discriminate|reflexivity].
Qed.

Lemma gone_none (b : obs) s' r : b_post b = snap_of s' -> wf s' -> In r (m15_gone b) -> aget (sc_id r) (st_clients s') = None.
Proof.
  intros EP W' I. unfold m15_gone in I. rewrite EP in I. apply filter_In in I. destruct I as [_ F].
  apply negb_true_iff in F. destruct (aget (sc_id r) (st_clients s')) eqn:A; [|reflexivity].
  assert (HC : has_client (sc_id r) (sn_clients (snap_of s')) = true) by (apply (has_client_snap s' _ W'); congruence). congruence.
Qed.

Lemma j2_registered (b : obs) s' id c j1 : b_post b = snap_of s' -> wf s' -> aget id (st_clients s') = Some c ->
  jsubs_of id (m15_j2 (m15_gone b) j1) = jsubs_of id j1.
Proof.
  intros EP W' A. apply j2_other. intro I. apply in_map_iff in I. destruct I as (r & E & IR).
  pose proof (gone_none b s' r EP W' IR) as N. rewrite E in N. congruence.
Qed.

(* ---------- a connection closed in a step is reported closed ---------- *)
Lemma step_closes_ok k s o : inv s -> closes_ok (fst (step k s o)) (snd (step k s o)).
Proof.
  intros [W X]. destruct (is_new_conn s o) as [c|] eqn:NEW; [|apply step_old_closes, NEW].
  pose proof (step_shape k s o (wf_used s W)) as SH. destruct (step k s o) as [s' outs] eqn:STEP. rewrite NEW in SH.
  destruct SH as (_ & _ & U & HS & SH). cbn [fst snd].
  destruct SH as [[HH R]|(p & a & e & now & -> & -> & T & V & HH & o1 & sp & l & -> & S1 & OC)].
  - intros x I. rewrite (refusal_closes_c c outs x R I). unfold openc. rewrite <- HH in HS. unfold hasobj in HS.
    destruct (get_obj c (st_objs s')); [discriminate|reflexivity].
  - cbn [is_new_conn] in NEW. destruct (memN c (st_used s)) eqn:M; [discriminate|]. cbn [step] in STEP. rewrite M in STEP.
    set (s0 := set_used s (c :: st_used s)) in *.
    pose proof (attach_success k c now p e s0 (wf_set_used s c W) T V) as AS.
    pose proof (inherit_closes k now p (parse_connect c p e) s0) as ICL.
    pose proof (inherit_ok k now p (parse_connect c p e) s0) as IK.
    destruct (inherit k now p (parse_connect c p e) s0) as [[[s1 n1] sp'] o1'].
    destruct AS as (n2 & C2 & I2 & S2 & F2 & O2 & AEQ). rewrite STEP in AEQ.
    assert (ES : s' = set_wills (set_clients (upd_obj s1 n2) (aset e c (st_clients s1))) (adel e (st_wills s1))) by exact (f_equal fst AEQ).
    assert (EO : o1 ++ [OPkt c (PConnack 0 sp)] ++ resend c l = o1' ++ [OPkt c (PConnack 0 sp')] ++ (if sp' then resend c (o_infl n2) else [])) by exact (f_equal snd AEQ).
    destruct IK as (_ & S1' & _).
    intros x I. rewrite EO in I. apply in_app_or in I. destruct I as [I|I].
    + assert (NX : x <> c).
      { intro E. subst x. pose proof (S1' _ I) as HX. cbn beta iota in HX. change (hasobj s c = true) in HX. congruence. }
      pose proof (ICL x I) as CX. unfold openc in *. rewrite ES. cbn. rewrite get_put_other by (rewrite C2; exact NX). exact CX.
    + exfalso. destruct I as [I|I]; [discriminate|]. destruct sp'; [|destruct I]. apply resend_in in I. destruct I as (mm & E). discriminate.
Qed.

(* ---------- the invariant of the clause ---------- *)
Record ji (m : m15) (s : state) : Prop := {
  ji_inv : inv s;
  ji_isub : isub s;
  ji_conn : forall c o, get_obj c (st_objs s) = Some o ->
              exists x, find_x c (c_conns m) = Some x /\ x_id x = o_id o /\ (o_open o = true -> x_open x = true);
  ji_subs : forall id c o, aget id (st_clients s) = Some c -> get_obj c (st_objs s) = Some o ->
              forall f, In f (keys o) -> In f (jsubs_of id (c_jsubs m)) }.

Lemma ji_init : ji {| c_conns := []; c_jsubs := [] |} init.
Proof. split; [apply inv_init|intros c o G; discriminate G|intros c o G; discriminate G|intros id c o A; discriminate A]. Qed.

Definition mark (b : obs) (x : sconn) : sconn :=
  if x_open x && memN (x_conn x) (closes (b_outs b))
  then x_with x (x_req x) false (match x_end x with Some t => Some t | None => op_now (b_op b) end) (x_wst x) else x.

Lemma mark_fields b x : x_conn (mark b x) = x_conn x /\ x_id (mark b x) = x_id x /\
  (x_open (mark b x) = false -> x_open x = true -> memN (x_conn x) (closes (b_outs b)) = true).
Proof.
  unfold mark. destruct (x_open x && memN (x_conn x) (closes (b_outs b))) eqn:E; cbn; repeat split; auto.
  - intros _ _. apply andb_true_iff in E. tauto.
  - intros A B. congruence.
Qed.

Lemma conns2_find k m b c : find_x c (m15_conns2 k m b) = option_map (mark b) (find_x c (m15_conns1 k m b)).
Proof. unfold m15_conns2. apply (find_map (mark b)). intro x. apply (mark_fields b x). Qed.

(* operations on existing connections keep the entries of the spec view, up to the end stamp *)
Lemma conns1_old k m b c x :
  (match b_op b with OConnect c0 _ _ _ _ => success_connack (pkts_to c0 (b_outs b)) = None | _ => True end) ->
  find_x c (c_conns m) = Some x ->
  exists x1, find_x c (m15_conns1 k m b) = Some x1 /\ x_id x1 = x_id x /\ x_open x1 = x_open x.
Proof.
  intros NC F. unfold m15_conns1. destruct (b_op b); try (exists x; auto; fail).
  - rewrite NC. exists x. auto.
  - destruct (find_x c0 (c_conns m)) as [y|] eqn:FY; [|exists x; auto]. destruct (x_open y) eqn:OY; [|exists x; auto].
    destruct (N.eq_dec c c0) as [->|NE].
    + rewrite F in FY. inversion FY; subst y. eexists. split; [rewrite <- (find_x_conn _ _ _ F) at 1; apply (find_put_same (x_with x _ _ _ _))|cbn; auto].
    + rewrite find_put_other by (cbn; rewrite (find_x_conn _ _ _ FY); exact NE). exists x. auto.
  - destruct (find_x c0 (c_conns m)) as [y|] eqn:FY; [|exists x; auto]. destruct (x_open y) eqn:OY; [|exists x; auto].
    destruct (N.eq_dec c c0) as [->|NE].
    + rewrite F in FY. inversion FY; subst y. eexists. split; [rewrite <- (find_x_conn _ _ _ F) at 1; apply (find_put_same (x_with x _ _ _ _))|cbn; auto].
    + rewrite find_put_other by (cbn; rewrite (find_x_conn _ _ _ FY); exact NE). exists x. auto.
  - destruct (find_x c0 (c_conns m)) as [y|] eqn:FY; [|exists x; auto]. destruct (x_open y) eqn:OY; [|exists x; auto].
    destruct (N.eq_dec c c0) as [->|NE].
    + rewrite F in FY. inversion FY; subst y. eexists. split; [rewrite <- (find_x_conn _ _ _ F) at 1; apply (find_put_same (x_with x _ _ _ _))|cbn; auto].
    + rewrite find_put_other by (cbn; rewrite (find_x_conn _ _ _ FY); exact NE). exists x. auto.
Qed.

Lemma jsubs_aset_same id l j : jsubs_of id (aset id l j) = l.
Proof. unfold jsubs_of. rewrite aget_aset_same. reflexivity. Qed.
Lemma jsubs_aset_other id id' l j : id' <> id -> jsubs_of id' (aset id l j) = jsubs_of id' j.
Proof. intro N. unfold jsubs_of. rewrite aget_aset_other by exact N. reflexivity. Qed.

Lemma in_aset_keys {V} (k : bytes) (v : V) l x : In x (map fst (aset k v l)) -> In x (map fst l) \/ x = k.
Proof.
  unfold aset. rewrite map_app. intro I. apply in_app_or in I. destruct I as [I|[E|[]]]; [|right; symmetry; exact E].
  left. apply adel_keys in I. tauto.
Qed.

Lemma step_old_ids k s o c ob o' :
  is_new_conn s o = None -> get_obj c (st_objs s) = Some ob -> get_obj c (st_objs (fst (step k s o))) = Some o' -> o_id o' = o_id ob.
Proof.
  intros NEW G G'. destruct o; try (destruct (step_old_gr k s _ NEW ltac:(intros; discriminate)) as (OO & _);
    destruct (OO c o' G') as (x & Gx & E & _); rewrite G in Gx; inversion Gx; subst; exact E).
  cbn [step] in G'. unfold do_subscribe in G'. destruct (reading s c0) as [r|] eqn:RD; [|cbn in G'; congruence].
  apply reading_obj in RD. destruct RD as [Gr _]. cbn in G'. destruct (N.eq_dec c c0) as [->|NE].
  - pose proof (get_put_same (with_session r (aset f q (o_subs r)) (o_infl r)) (st_objs s)) as GP. cbn in GP.
    rewrite (get_obj_conn _ _ _ Gr) in GP. rewrite GP in G'. inversion G'; subst. cbn. congruence.
  - rewrite get_put_other in G' by (cbn; rewrite (get_obj_conn _ _ _ Gr); exact NE). congruence.
Qed.

Lemma sub_step_cases k s o id c o' f :
  is_new_conn s o = None -> aget id (st_clients (fst (step k s o))) = Some c -> get_obj c (st_objs (fst (step k s o))) = Some o' ->
  In f (keys o') ->
  (exists ob, aget id (st_clients s) = Some c /\ get_obj c (st_objs s) = Some ob /\ In f (keys ob)) \/
  (exists q ob, o = OSubscribe c f q /\ aget id (st_clients s) = Some c /\ get_obj c (st_objs s) = Some ob /\ reading s c = Some ob).
Proof.
  intros NEW AC' G' IN. destruct o; try (left; destruct (step_old_gr k s _ NEW ltac:(intros; discriminate)) as (OO & CC & _);
    destruct (OO c o' G') as (x & Gx & _ & INC); exists x; split; [apply CC, AC'|split; [exact Gx|apply INC, IN]]).
  cbn [step] in *. unfold do_subscribe in *. destruct (reading s c0) as [r|] eqn:RD.
  2:{ left. exists o'. auto. }
  pose proof RD as RD0. apply reading_obj in RD. destruct RD as [Gr _]. cbn in AC', G'. destruct (N.eq_dec c c0) as [->|NE].
  - pose proof (get_put_same (with_session r (aset f0 q (o_subs r)) (o_infl r)) (st_objs s)) as GP. cbn in GP.
    rewrite (get_obj_conn _ _ _ Gr) in GP. rewrite GP in G'. inversion G'; subst o'. unfold keys in IN. cbn in IN.
    apply in_aset_keys in IN. destruct IN as [IN| ->]; [left; exists r; auto|right; exists q, r; auto].
  - rewrite get_put_other in G' by (cbn; rewrite (get_obj_conn _ _ _ Gr); exact NE). left. exists o'. auto.
Qed.

Lemma ji_old k i m s o :
  ji m s -> is_new_conn s o = None ->
  let b := obs_of (tstep_of k s o) in
  ji {| c_conns := m15_conns2 k m b; c_jsubs := m15_j2 (m15_gone b) (m15_j1 m b) |} (fst (step k s o)) /\
  m15_vjust i (m15_conns1 k m b) (m15_j1 m b) (b_outs b) = [].
Proof.
  intros [V IS A D] NEW b.
  pose proof (step_inv k s o V) as V'. pose proof (step_isub k s o V IS) as IS'.
  pose proof (step_old_ok k s o NEW) as [EV SO]. pose proof (step_old_pj k s o NEW) as PJ.
  pose proof (step_closes_ok k s o V) as CL.
  destruct V as [W X]. destruct V' as [W' X'].
  assert (BO : b_outs b = snd (step k s o) /\ b_op b = o /\ b_post b = snap_of (fst (step k s o))) by (subst b; unfold obs_of, tstep_of; cbn; auto).
  destruct BO as (BO & BOP & BP).
  (* an old CONNECT is a no-op *)
  assert (NC : match b_op b with OConnect c0 _ _ _ _ => success_connack (pkts_to c0 (b_outs b)) = None | _ => True end).
  { rewrite BOP, BO. destruct o; auto. cbn [is_new_conn] in NEW. cbn [step]. destruct (memN c (st_used s)); [reflexivity|discriminate]. }
  (* the justified subscriptions only grow by the operation itself *)
  assert (J1 : forall id f, In f (jsubs_of id (c_jsubs m)) -> In f (jsubs_of id (m15_j1 m b))).
  { intros id f IN. unfold m15_j1. rewrite BOP in *. destruct o; auto.
    - cbn beta iota in NC. rewrite NC. exact IN.
    - destruct (find_x c (c_conns m)) as [x|]; [|exact IN]. destruct (x_open x); [|exact IN].
      destruct (bb_dec id (x_id x)) as [->|NE]; [rewrite jsubs_aset_same; right; exact IN|rewrite jsubs_aset_other by exact NE; exact IN]. }
  split.
  - destruct EV as (U & HH & OP). split; [split; assumption|exact IS'| |].
    + (* the spec view of every object *)
      intros c o' G'.
      assert (HO : hasobj s c = true) by (rewrite <- HH; unfold hasobj; rewrite G'; reflexivity).
      unfold hasobj in HO. destruct (get_obj c (st_objs s)) as [ob|] eqn:G; [|discriminate].
      destruct (A c ob G) as (x & F & XI & XO).
      destruct (conns1_old k m b c x NC F) as (x1 & F1 & I1 & O1).
      cbn [c_conns]. rewrite conns2_find, F1. cbn [option_map]. exists (mark b x1).
      destruct (mark_fields b x1) as (MC & MI & MO). split; [reflexivity|]. split.
      * rewrite MI, I1, XI.
        (* identifiers never change *)
        assert (ID : o_id o' = o_id ob).
        { exact (step_old_ids k s o c ob o' NEW G G'). }
        congruence.
      * intro OO'. assert (OB : o_open ob = true).
        { specialize (OP c). unfold openc in OP. rewrite G', G in OP. apply OP, OO'. }
        destruct (x_open (mark b x1)) eqn:EM; [reflexivity|]. exfalso.
        assert (X1O : x_open x1 = true) by (rewrite O1; apply XO, OB).
        pose proof (MO eq_refl X1O) as MM. rewrite (find_x_conn _ _ _ F1) in MM. apply memN_true, in_closes in MM.
        rewrite BO in MM. pose proof (CL c MM) as CC. unfold openc in CC. rewrite G' in CC. congruence.
    + (* subscriptions of registered sessions are justified *)
      intros id c o' AC' G' f IN. cbn [c_jsubs]. rewrite (j2_registered b (fst (step k s o)) id c _ BP W' AC').
      destruct (sub_step_cases k s o id c o' f NEW AC' G' IN) as [(ob & AC & G & INK)|(q & ob & EO & AC & G & RD)].
      * apply J1. apply (D id c ob AC G f INK).
      * (* the filter subscribed in this very step *)
        unfold m15_j1. rewrite BOP, EO. destruct (A c ob G) as (x & F & XI & XO). rewrite F.
        destruct (reading_wf s c ob W RD) as (_ & OB & AR). rewrite (XO OB).
        assert (EI : x_id x = id).
        { rewrite XI. destruct (wf_reg s W id c AC) as (oo & GG & II & _). rewrite G in GG. congruence. }
        rewrite EI, jsubs_aset_same. left. reflexivity.
  - (* no unjustified delivery *)
    unfold m15_vjust. apply flat_map_nil. intros x IN. destruct x; try reflexivity. destruct p; try reflexivity.
    rewrite BO in IN. destruct (PJ c m0 dup IN) as (_ & id & q & II & AC).
    destruct (X id (m_topic m0) q II) as (c' & ob & AC2 & G & FK). rewrite AC in AC2. inversion AC2; subst c'.
    destruct (A c ob G) as (xx & F & XI & XO). destruct (conns1_old k m b c xx NC F) as (x1 & F1 & I1 & O1). rewrite F1.
    assert (EI : x_id x1 = id).
    { rewrite I1, XI. destruct (wf_reg s W id c AC) as (oo & GG & II2 & _). rewrite G in GG. congruence. }
    rewrite EI.
    assert (M : memB (m_topic m0) (jsubs_of id (m15_j1 m b)) = true) by (apply memB_in, J1, (D id c ob AC G), FK).
    rewrite M. reflexivity.
Qed.

(* ---------- a new connection ---------- *)
Lemma other_match_upd e (f : cobj -> cobj) z c' : (forall x, o_conn (f x) = o_conn x) -> c' <> e ->
  get_obj c' (st_objs (match get_obj e (st_objs z) with Some x => upd_obj z (f x) | None => z end)) = get_obj c' (st_objs z).
Proof.
  intros H N. destruct (get_obj e (st_objs z)) as [x|] eqn:G; [|reflexivity].
  apply other_upd. rewrite H, (get_obj_conn _ _ _ G). exact N.
Qed.

(* taking a session over touches the object of the old connection only *)
Lemma inherit_others k now p n s c' :
  (forall ec, aget (o_id n) (st_clients s) = Some ec -> c' <> ec) ->
  let '(s1, n1, sp, o1) := inherit k now p n s in get_obj c' (st_objs s1) = get_obj c' (st_objs s).
Proof.
  intro H. unfold inherit. destruct (aget (o_id n) (st_clients s)) as [e|]; [|reflexivity].
  specialize (H e eq_refl).
  destruct (get_obj e (st_objs s)) as [eo0|]; [|reflexivity].
  pose proof (other_disconnect now e 142 s c' H) as D1.
  destruct (disconnect_client now e 142 s) as [s1 o1]. cbn [fst] in D1.
  set (s1' := match get_obj e (st_objs s1) with
              | Some x => if (match o_phase x with PhReading => true | _ => false end) && negb (o_open x)
                          then upd_obj s1 (with_phase x PhHeld) else s1
              | None => s1 end).
  assert (D2 : get_obj c' (st_objs s1') = get_obj c' (st_objs s)).
  { subst s1'. destruct (get_obj e (st_objs s1)) as [x|] eqn:G1; [|exact D1].
    destruct ((match o_phase x with PhReading => true | _ => false end) && negb (o_open x)); [|exact D1].
    rewrite other_upd; [exact D1|]. cbn. rewrite (get_obj_conn _ _ _ G1). exact H. }
  destruct (cp_clean p || (o_clean eo0 && (o_ver eo0 <? 5))).
  - rewrite (other_match_upd e with_tko) by auto. rewrite other_clear, other_unsubscribe by exact H. exact D2.
  - rewrite other_clear, other_unsubscribe by exact H. cbn [st_objs set_index]. rewrite (other_match_upd e with_tko) by auto. exact D2.
Qed.

Lemma ji_new k i m s o c :
  ji m s -> is_new_conn s o = Some c ->
  let b := obs_of (tstep_of k s o) in
  ji {| c_conns := m15_conns2 k m b; c_jsubs := m15_j2 (m15_gone b) (m15_j1 m b) |} (fst (step k s o)) /\
  m15_vjust i (m15_conns1 k m b) (m15_j1 m b) (b_outs b) = [].
Proof.
  intros [V IS A D] NEW b.
  pose proof (step_inv k s o V) as V'. pose proof (step_isub k s o V IS) as IS'.
  pose proof (step_closes_ok k s o V) as CL.
  destruct V as [W X]. destruct V' as [W' X'].
  assert (BO : b_outs b = snd (step k s o) /\ b_op b = o /\ b_post b = snap_of (fst (step k s o))) by (subst b; unfold obs_of, tstep_of; cbn; auto).
  clearbody b. destruct BO as (BO & BOP & BP).
  pose proof (step_shape k s o (wf_used s W)) as SH. destruct (step k s o) as [s' outs] eqn:STEP. rewrite NEW in SH.
  cbn [fst snd] in *. destruct SH as (_ & _ & U & HS & _).
  assert (OC0 : openc s c = false) by (unfold openc; unfold hasobj in HS; destruct (get_obj c (st_objs s)); [discriminate|reflexivity]).
  set (s0 := set_used s (c :: st_used s)).
  assert (HS0 : hasobj s0 c = false) by exact HS.
  assert (CASES : (s' = s0 /\ refusal c outs) \/
                  (exists now p e, o = OConnect c now p true e /\ cp_trunc p = false /\ validate_connect k p = 0 /\
                                   attach k c now p true e s0 = (s', outs))).
  { destruct o; cbn [is_new_conn] in NEW; try discriminate;
      destruct (memN c0 (st_used s)) eqn:M; try discriminate; inversion NEW; subst c0; cbn [step] in STEP; rewrite M in STEP.
    - pose proof (attach_shape k c now p auth_ok effid s0 HS0) as AS. fold s0 in STEP. rewrite STEP in AS.
      destruct AS as [AS|(Ha & Ht & Hv & _)]; [left; exact AS|]. subst auth_ok. right. exists now, p, effid. auto.
    - left. inversion STEP. split; [reflexivity|left; reflexivity]. }
  (* a connection that stays open is not marked closed *)
  assert (MK : forall c' o' x, get_obj c' (st_objs s') = Some o' -> o_open o' = true -> x_conn x = c' -> x_open x = true ->
                               x_open (mark b x) = true).
  { intros c' o' x G' OO XC XO. destruct (x_open (mark b x)) eqn:EM; [reflexivity|]. exfalso.
    destruct (mark_fields b x) as (_ & _ & MO). pose proof (MO EM XO) as MM. rewrite XC in MM.
    apply memN_true, in_closes in MM. rewrite BO in MM. pose proof (CL c' MM) as CC. unfold openc in CC. rewrite G' in CC. congruence. }
  destruct CASES as [[ES R]|(now & p & e & -> & T & VV & STEP0)].
  - (* refused: nothing changes *)
    assert (C1 : m15_conns1 k m b = c_conns m).
    { unfold m15_conns1. rewrite BOP, BO. destruct o; cbn [is_new_conn] in NEW; try discriminate; [|reflexivity].
      destruct (memN c0 (st_used s)); try discriminate. inversion NEW; subst c0. rewrite (refusal_no_success c outs R). reflexivity. }
    assert (J1 : m15_j1 m b = c_jsubs m).
    { unfold m15_j1. rewrite BOP, BO. destruct o; cbn [is_new_conn] in NEW; try discriminate; [|reflexivity].
      destruct (memN c0 (st_used s)); try discriminate. inversion NEW; subst c0. rewrite (refusal_no_success c outs R). reflexivity. }
    rewrite C1, J1. subst s'. split.
    + split; [split; assumption|exact IS'| |].
      * intros c' o' G'. destruct (A c' o' G') as (x & F & XI & XO). cbn [c_conns]. rewrite conns2_find, C1, F. cbn [option_map].
        exists (mark b x). destruct (mark_fields b x) as (MC & MI & _). split; [reflexivity|]. split; [congruence|].
        intro OO. apply (MK c' o' x G' OO (find_x_conn _ _ _ F) (XO OO)).
      * intros id c' o' AC' G' f IN. cbn [c_jsubs]. rewrite (j2_registered b s0 id c' _ BP W' AC').
        exact (D id c' o' AC' G' f IN).
    + unfold m15_vjust. apply flat_map_nil. intros x IN. destruct x; try reflexivity. destruct p; try reflexivity.
      exfalso. rewrite BO in IN. destruct R as [->|(code & _ & ->)]; cbn in IN; intuition discriminate.
  - (* accepted *)
    assert (W0 : wf s0) by (apply wf_set_used, W).
    assert (X0 : ixinv s0) by (apply ixinv_set_used, X).
    pose proof (attach_success k c now p e s0 W0 T VV) as AS.
    pose proof (inherit_out k now p (parse_connect c p e) s0) as IO.
    pose proof (inherit_ix k now p (parse_connect c p e) s0 W0 X0 eq_refl) as IX.
    pose proof (inherit_frame k now p (parse_connect c p e) s0 W0) as IF.
    pose proof (inherit_ok k now p (parse_connect c p e) s0) as IK.
    assert (IOT : forall c', (forall ec, aget e (st_clients s) = Some ec -> c' <> ec) ->
                  let '(s1, n1, sp, o1) := inherit k now p (parse_connect c p e) s0 in get_obj c' (st_objs s1) = get_obj c' (st_objs s)).
    { intros c' H. apply (inherit_others k now p (parse_connect c p e) s0 c' H). }
    destruct (inherit k now p (parse_connect c p e) s0) as [[[s1 n1] sp] o1].
    destruct AS as (n2 & C2 & I2 & S2 & F2 & O2 & AEQ). rewrite STEP0 in AEQ.
    assert (ES : s' = set_wills (set_clients (upd_obj s1 n2) (aset e c (st_clients s1))) (adel e (st_wills s1))) by exact (f_equal fst AEQ).
    assert (EOUT : outs = o1 ++ [OPkt c (PConnack 0 sp)] ++ (if sp then resend c (o_infl n2) else [])) by exact (f_equal snd AEQ).
    clear AEQ.
    destruct IX as (_ & IXB & IXC). destruct IF as (_ & _ & IF). destruct IK as (_ & S1 & _).
    change (o_id (parse_connect c p e)) with e in *.
    change (st_clients s0) with (st_clients s) in *. change (st_objs s0) with (st_objs s) in *.
    assert (S1s : sends_ok s o1) by exact S1.
    assert (P1 : pkts_to c o1 = []) by (apply (pkts_to_closed s); assumption).
    assert (PKC : success_connack (pkts_to c outs) = Some sp).
    { rewrite EOUT. destruct sp.
      - rewrite !pkts_to_app, P1, pkts_to_resend_same. cbn. rewrite N.eqb_refl. reflexivity.
      - rewrite !pkts_to_app, P1. cbn. rewrite N.eqb_refl. reflexivity. }
    assert (C1 : m15_conns1 k m b = put_x (x_new k c p e) (c_conns m)).
    { unfold m15_conns1. rewrite BOP, BO, PKC. reflexivity. }
    assert (J1 : m15_j1 m b = if sp then c_jsubs m else aset e [] (c_jsubs m)).
    { unfold m15_j1. rewrite BOP, BO, PKC. destruct sp; reflexivity. }
    (* the state after *)
    assert (AP : st_clients s' = aset e c (st_clients s1)) by (rewrite ES; reflexivity).
    assert (GP : get_obj c (st_objs s') = Some n2) by (rewrite ES; cbn; rewrite <- C2; apply get_put_same).
    assert (GO : forall c', c' <> c -> get_obj c' (st_objs s') = get_obj c' (st_objs s1)).
    { intros c' NE. rewrite ES. cbn. apply get_put_other. rewrite C2. exact NE. }
    assert (FC : st_clients s1 = st_clients s).
    { destruct (aget e (st_clients s)); [destruct IF as ((_ & FC & _) & _); exact FC|rewrite IF; reflexivity]. }
    assert (FO : forall c' o', get_obj c' (st_objs s1) = Some o' ->
                   exists ob, get_obj c' (st_objs s) = Some ob /\ o_id o' = o_id ob /\ (o_open o' = true -> o_open ob = true)).
    { intros c' o' G1. destruct (aget e (st_clients s)) as [ec|].
      2:{ rewrite IF in G1. exists o'. auto. }
      destruct IF as ((_ & _ & FOO & FE & FN) & _). destruct (N.eq_dec c' ec) as [->|NE].
      - destruct (get_obj ec (st_objs s)) as [ob|] eqn:GE.
        + destruct (FE ob GE) as (o'' & G'' & II & OO & _). rewrite G1 in G''. inversion G''; subst o''. exists ob. auto.
        + rewrite (FN GE) in G1. discriminate.
      - specialize (FOO c' NE). rewrite G1 in FOO. change (st_objs s0) with (st_objs s) in FOO. destruct (get_obj c' (st_objs s)) as [ob|]; cbn in FOO; [|discriminate].
        unfold okey in FOO. inversion FOO. exists ob. split; [reflexivity|]. split; [assumption|congruence]. }
    assert (F4 : sp = true -> exists ec eo, aget e (st_clients s) = Some ec /\ get_obj ec (st_objs s) = Some eo /\
                                            o_subs n1 = o_subs eo /\ o_infl n1 = o_infl eo).
    { intro SP. destruct (aget e (st_clients s)) as [ec|] eqn:AE; [|destruct IO; congruence].
      destruct (get_obj ec (st_objs s)) as [eo|] eqn:GE; [|destruct IO; congruence].
      destruct (IXC ec eo eq_refl GE SP) as (Q1 & Q2 & _). exists ec, eo. auto. }
    assert (F6 : forall c' mm d, ~ In (OPkt c' (PPublish mm d)) o1).
    { intros c' mm d I. destruct (aget e (st_clients s)) as [ec|]; [|destruct IO as [_ ->]; exact I].
      destruct (get_obj ec (st_objs s)) as [eo|]; [|destruct IO as [_ ->]; exact I].
      destruct IO as [_ ->]. destruct (o_open eo); cbn in I; intuition discriminate. }
    split.
    + split; [split; assumption|exact IS'| |].
      * intros c' o' G'. cbn [c_conns]. rewrite conns2_find, C1. destruct (N.eq_dec c' c) as [->|NE].
        -- rewrite GP in G'. inversion G'; subst o'.
           change c with (x_conn (x_new k c p e)) at 1. rewrite find_put_same. cbn [option_map].
           exists (mark b (x_new k c p e)). destruct (mark_fields b (x_new k c p e)) as (_ & MI & _).
           split; [reflexivity|]. split; [rewrite MI; cbn; congruence|].
           intro OO. apply (MK c n2 _ GP OO); reflexivity.
        -- rewrite find_put_other by (cbn; exact NE). rewrite (GO c' NE) in G'.
           destruct (FO c' o' G') as (ob & G & II & OO). destruct (A c' ob G) as (x & F & XI & XO). rewrite F. cbn [option_map].
           exists (mark b x). destruct (mark_fields b x) as (_ & MI & _). split; [reflexivity|]. split; [congruence|].
           intro OP. apply (MK c' o' x); [rewrite (GO c' NE); exact G'|exact OP|apply (find_x_conn _ _ _ F)|apply XO, OO, OP].
      * intros id c' o' AC' G' f IN. cbn [c_jsubs]. rewrite (j2_registered b s' id c' _ BP W' AC').
        rewrite AP, FC in AC'. destruct (bb_dec id e) as [->|NE].
        -- rewrite aget_aset_same in AC'. inversion AC'; subst c'. rewrite GP in G'. inversion G'; subst o'.
           unfold keys in IN. rewrite S2 in IN. rewrite J1. destruct sp.
           ++ destruct (F4 eq_refl) as (ec & eo & AE & GE & Q1 & _). rewrite Q1 in IN. exact (D e ec eo AE GE f IN).
           ++ destruct (IXB eq_refl) as [Q _]. rewrite Q in IN. destruct IN.
        -- rewrite aget_aset_other in AC' by exact NE.
           destruct (wf_reg s W id c' AC') as (oo & GG & II & _).
           assert (NC : c' <> c) by (intro E; subst c'; unfold hasobj in HS; rewrite GG in HS; discriminate).
           assert (NEC : forall ec, aget e (st_clients s) = Some ec -> c' <> ec).
           { intros ec AE E. subst ec. destruct (wf_reg s W e c' AE) as (o2 & G2 & I2' & _). rewrite GG in G2. inversion G2; subst o2. congruence. }
           specialize (IOT c' NEC). rewrite (GO c' NC), IOT, GG in G'. inversion G'; subst o'.
           assert (IN0 : In f (jsubs_of id (c_jsubs m))) by exact (D id c' oo AC' GG f IN).
           rewrite J1. destruct sp; [exact IN0|rewrite jsubs_aset_other by exact NE; exact IN0].
    + unfold m15_vjust. apply flat_map_nil. intros x IN. destruct x as [c' pk| | | | |]; try reflexivity. destruct pk as [| |mm d|]; try reflexivity.
      rewrite BO, EOUT in IN. apply in_app_or in IN. destruct IN as [IN|IN]; [destruct (F6 _ _ _ IN)|].
      destruct IN as [IN|IN]; [discriminate|]. destruct sp; [|destruct IN].
      unfold resend in IN. apply in_map_iff in IN. destruct IN as (m2 & E & INM). inversion E; subst c' mm d. clear E.
      rewrite C1. change c with (x_conn (x_new k c p e)) at 1. rewrite find_put_same. cbn [x_id x_new].
      destruct (F4 eq_refl) as (ec & eo & AE & GE & _ & Q2). rewrite F2, Q2 in INM.
      assert (M : memB (m_topic m2) (jsubs_of e (m15_j1 m b)) = true).
      { rewrite J1. apply memB_in. apply (D e ec eo AE GE). apply (IS ec eo GE m2 INM). }
      rewrite M. reflexivity.
Qed.

(* ---------- the clause on all histories ---------- *)
Theorem m15_step_ji k i m s o :
  ji m s ->
  ji (fst (m15_step k i m (obs_of (tstep_of k s o)))) (fst (step k s o)) /\
  Forall (fun v => v_tag v <> V15_stale_index /\ v_tag v <> V15_unjustified) (snd (m15_step k i m (obs_of (tstep_of k s o)))).
Proof.
  intro J.
  assert (H : ji {| c_conns := m15_conns2 k m (obs_of (tstep_of k s o));
                    c_jsubs := m15_j2 (m15_gone (obs_of (tstep_of k s o))) (m15_j1 m (obs_of (tstep_of k s o))) |} (fst (step k s o)) /\
              m15_vjust i (m15_conns1 k m (obs_of (tstep_of k s o))) (m15_j1 m (obs_of (tstep_of k s o))) (b_outs (obs_of (tstep_of k s o))) = []).
  { destruct (is_new_conn s o) as [c|] eqn:NEW; [apply (ji_new k i m s o c J NEW)|apply (ji_old k i m s o J NEW)]. }
  destruct H as [J' VJ]. split; [exact J'|].
  pose proof (ji_inv _ _ J) as I. pose proof (step_inv k s o I) as I'.
  unfold m15_step. cbv zeta. cbn [snd]. rewrite VJ.
  unfold obs_of, tstep_of. cbn [b_op b_outs b_hooks b_pre b_post t_op t_outs t_hooks t_pre t_post].
  rewrite (v_index_nil i (fst (step k s o)) I').
  repeat (apply Forall_app; split); try (constructor; fail).
  all: tag_solve; cbn; try (split; discriminate).
  all: repeat match goal with |- context [match ?x with _ => _ end] => destruct x | |- context [if ?b then _ else _] => destruct b end; split; discriminate.
Qed.

(* After every history of the model, the C15 monitor reports neither a stale index entry nor an
   unjustified delivery: every PUBLISH the broker forwards (or re-sends on resumption) goes to a
   connection whose session - the current session of its identifier, i.e. the one begun after the
   last discard or clean start - has subscribed to the topic. *)
Theorem mon15_nothing_left k ops :
  Forall (fun v => v_tag v <> V15_stale_index /\ v_tag v <> V15_unjustified) (mon15 k (map obs_of (trace k init ops))).
Proof.
  unfold mon15. apply (run_mon_inv k (m15_step k) _ (fun m s _ => ji m s)).
  - intros i m s o r J. apply m15_step_ji, J.
  - apply ji_init.
Qed.
