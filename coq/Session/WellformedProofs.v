(* C23: the stream monitor is sound — a stream it accepts really is a concatenation of complete,
   valid, server-sendable packets within the client's limits, with nothing after a DISCONNECT. *)
From MV Require Import Base.Val Codec.Vbi Codec.VbiProofs Codec.SpecCodec IO.FramingProofs Session.Wellformed.
From Coq Require Import Lia ZifyBool ZifyN ZifyNat.
Open Scope N_scope.
Arguments N.sub : simpl never.
Arguments N.of_nat : simpl never.
Arguments N.add : simpl never.

(* ---------- the reference decoder consumes a prefix and does not look beyond it ---------- *)

Lemma take_split n bs b rest : take n bs = Some (b, rest) ->
  bs = b ++ rest /\ len b = n /\ forall y, take n (b ++ y) = Some (b, y).
Proof.
  unfold take, len. destruct (N.of_nat (length bs) <? n) eqn:E; [discriminate|].
  intro H. injection H as <- <-.
  assert (L : (N.to_nat n <= length bs)%nat) by lia.
  split; [symmetry; apply firstn_skipn|].
  assert (Lf : length (firstn (N.to_nat n) bs) = N.to_nat n) by (rewrite firstn_length; lia).
  split; [lia|].
  intro y. rewrite app_length, Lf.
  replace (N.of_nat (N.to_nat n + length y) <? n) with false by lia.
  f_equal. f_equal.
  - rewrite firstn_app, Lf, Nat.sub_diag. cbn [firstn]. rewrite app_nil_r.
    rewrite <- Lf at 1. apply firstn_all.
  - rewrite skipn_app, Lf, Nat.sub_diag. cbn [skipn].
    rewrite <- Lf at 1. rewrite skipn_all. reflexivity.
Qed.

Lemma get_vbi_split bs n rest : get_vbi bs = Some (n, rest) ->
  exists pre, bs = pre ++ rest /\ forall y, get_vbi (pre ++ y) = Some (n, y).
Proof.
  unfold get_vbi, obind, guard, Vbi.spec_decode.
  destruct (spec_value 4 bs) as [[v r]|] eqn:S; [|discriminate].
  destruct (N.of_nat (length bs - length r) =? vbi_min_len v) eqn:G; [|discriminate].
  intro H. injection H as <- <-.
  destruct (spec_value_split _ _ _ _ S) as (pre & -> & L & P).
  exists pre. split; [reflexivity|]. intro y. rewrite P.
  rewrite app_length in G. rewrite app_length.
  replace (N.of_nat (length pre + length y - length y) =? vbi_min_len v) with true by lia.
  reflexivity.
Qed.

Lemma lenient_split ver bs p size rest : lenient_decode ver bs = Some (p, size, rest) ->
  exists seg, bs = seg ++ rest /\ len seg = size /\ lenient_decode ver seg = Some (p, size, []).
Proof.
  unfold lenient_decode, obind, get_u8, guard.
  destruct bs as [|b0 r]; [discriminate|].
  destruct (flags_ok (b0 / 16) (b0 mod 16)) eqn:F; [|discriminate].
  destruct (get_vbi r) as [[n r1]|] eqn:V; [|discriminate].
  destruct (take n r1) as [[body rest']|] eqn:T; [|discriminate].
  destruct (dec_body ver (b0 / 16) (b0 mod 16) body) as [q|] eqn:D; [|discriminate].
  intro H. injection H as <- <- <-.
  destruct (get_vbi_split _ _ _ V) as (pre & -> & Pv).
  destruct (take_split _ _ _ _ T) as (-> & Lb & Pt).
  exists (b0 :: pre ++ body). split; [cbn [app]; rewrite <- !app_assoc; reflexivity|].
  unfold len. split.
  - cbn [length app]. rewrite !app_length. lia.
  - rewrite F. rewrite <- (app_nil_r (pre ++ body)) at 1. rewrite <- app_assoc, Pv.
    rewrite (Pt []), D. cbn [length app]. rewrite !app_length. cbn [length]. f_equal. f_equal. f_equal. lia.
Qed.

(* ---------- what "well-formed output" means (Prop-level statement of the property) ---------- *)

Definition packet_ok (c : cctx) (p : spkt) (size : N) : Prop :=
  server_sendable (cc_ver c) p = true /\ valid_packet (cc_ver c) p = true /\
  (0 < cc_mps c -> size <= cc_mps c) /\ info_ok c p = true.

(* a stream is well formed: it splits into complete packets, each acceptable, nothing after DISCONNECT *)
Inductive wf_stream (c : cctx) : bytes -> list spkt -> Prop :=
| wf_nil : wf_stream c [] []
| wf_cons seg rest p ps :
    lenient_decode (cc_ver c) seg = Some (p, len seg, []) ->
    packet_ok c p (len seg) ->
    (is_disconnect p = true -> rest = []) ->
    wf_stream c rest ps ->
    wf_stream c (seg ++ rest) (p :: ps).

Lemma packet_defect_none c p size : packet_defect c p size = None -> packet_ok c p size.
Proof.
  unfold packet_defect, packet_ok.
  destruct (server_sendable (cc_ver c) p); [|discriminate].
  destruct (valid_packet (cc_ver c) p); [|discriminate].
  destruct ((0 <? cc_mps c) && (cc_mps c <? size)) eqn:M; [discriminate|].
  destruct (info_ok c p); [|discriminate].
  intros _. repeat split. lia.
Qed.

(* once a known finding has been recorded the scan can no longer return an empty finding list *)
Lemma scan_kfs_nonempty fuel : forall c bs after acc kfs pks,
  kfs <> [] -> scan fuel c bs after acc kfs <> (pks, [], None).
Proof.
  induction fuel as [|f IH]; intros c bs after acc kfs pks Hk; cbn [scan].
  - intro E. injection E as _ E. contradiction.
  - destruct bs as [|b t]; [intro E; injection E as _ E; contradiction|].
    destruct after.
    { destruct (lenient_decode (cc_ver c) (b :: t)) as [[[p size] rest]|]; [|intro E; discriminate].
      destruct p; try (intro E; discriminate).
      match goal with |- context [packet_defect ?a ?b ?c] => destruct (packet_defect a b c) end;
        [intro E; discriminate | apply IH; discriminate]. }
    destruct (lenient_decode (cc_ver c) (b :: t)) as [[[p size] rest]|]; [|intro E; discriminate].
    destruct (packet_defect c p size) as [d|].
    + destruct (KF_C23_v3_disconnect c d (Some p)); [apply IH; discriminate|].
      destruct (KF_C23_v3_connack_code c d (Some p)); [apply IH; discriminate|].
      destruct (KF_C23_suback_0x82 c d (Some p)); [apply IH; discriminate|].
      intro E; discriminate.
    + apply IH. exact Hk.
Qed.

(* generalised over the accumulator; [after] = the previous packet was a DISCONNECT *)
Lemma scan_sound fuel : forall c bs after acc pks,
  scan fuel c bs after acc [] = (pks, [], None) -> (length bs < fuel)%nat ->
  exists ps, pks = rev acc ++ ps /\ wf_stream c bs ps /\ (after = true -> bs = []).
Proof.
  induction fuel as [|f IH]; intros c bs after acc pks H Hf; [lia|].
  cbn [scan] in H. destruct bs as [|b t].
  { injection H as <-. exists []. rewrite app_nil_r.
    split; [reflexivity|]. split; [constructor|]. intros _. reflexivity. }
  destruct after.
  { exfalso.
    destruct (lenient_decode (cc_ver c) (b :: t)) as [[[p size] rest]|]; [|discriminate].
    destruct p; try discriminate.
    match type of H with context [packet_defect ?a ?b ?c] => destruct (packet_defect a b c) end;
      [discriminate | eapply scan_kfs_nonempty; [|exact H]; discriminate]. }
  destruct (lenient_decode (cc_ver c) (b :: t)) as [[[p size] rest]|] eqn:L; [|discriminate].
  destruct (packet_defect c p size) as [d|] eqn:PD.
  { exfalso.
    destruct (KF_C23_v3_disconnect c d (Some p));
      [eapply scan_kfs_nonempty; [|exact H]; discriminate|].
    destruct (KF_C23_v3_connack_code c d (Some p));
      [eapply scan_kfs_nonempty; [|exact H]; discriminate|].
    destruct (KF_C23_suback_0x82 c d (Some p));
      [eapply scan_kfs_nonempty; [|exact H]; discriminate|].
    discriminate. }
  destruct (lenient_split _ _ _ _ _ L) as (seg & Eb & Ls & Ld).
  assert (Hseg : (0 < length seg)%nat).
  { destruct seg; [|cbn; lia]. cbn in Ld. discriminate. }
  assert (Hrest : (length rest < f)%nat).
  { assert (length (b :: t) = length seg + length rest)%nat by (rewrite Eb, app_length; reflexivity). lia. }
  destruct (IH c rest (is_disconnect p) (p :: acc) pks H Hrest) as (ps & Epk & Wf & Hd).
  exists (p :: ps). split; [rewrite Epk; cbn [rev]; rewrite <- app_assoc; reflexivity|].
  split; [|discriminate].
  rewrite Eb. apply wf_cons; try assumption.
  - rewrite Ls. exact Ld.
  - rewrite Ls. apply packet_defect_none. exact PD.
Qed.

Theorem stream_ok_sound (c : cctx) (bs : bytes) :
  stream_ok c bs = true -> exists ps, wf_stream c bs ps.
Proof.
  unfold stream_ok. intro H.
  destruct (scan (S (length bs)) c bs false [] []) as [[pks kfs] d] eqn:E.
  destruct kfs; [|discriminate]. destruct d; [discriminate|].
  destruct (scan_sound _ _ _ _ _ _ E ltac:(lia)) as (ps & _ & Wf & _).
  exists ps. exact Wf.
Qed.
