(* Proofs for C38: every operation of the statistics model keeps every counter equal to the count
   it reports, so the equality holds after every history. *)
From MV Require Import Base.Val Session.Pkt Session.Stats.
From Coq Require Import Lia ZifyBool ZifyN ZifyNat.
Open Scope Z_scope.

(* the invariant, with an offset d for the moments inside attachClient / teardown where
   ClientsConnected has already been moved and the Clients map has not *)
Definition inv_off (d : Z) (s : st) : Prop :=
  n_conn s = act_conn s + d /\ n_subs s = act_subs s /\ n_ret s = act_ret s /\ n_infl s = act_infl s.

(* ---------- lists ---------- *)

Lemma del_pid_length pid l : mem_pid pid l = true -> S (length (del_pid pid l)) = length l.
Proof.
  unfold mem_pid. induction l as [|[p t] r IH]; cbn; [discriminate|].
  destruct (p =? pid)%N; cbn; [reflexivity|]. intros H. f_equal. apply IH, H.
Qed.

Lemma set_pid_length_new pid ty l : mem_pid pid l = false -> length (set_pid pid ty l) = S (length l).
Proof.
  unfold mem_pid. induction l as [|[p t] r IH]; cbn; [reflexivity|].
  destruct (p =? pid)%N; cbn; [discriminate|]. intros H. f_equal. apply IH, H.
Qed.

Lemma set_pid_length_old pid ty l : mem_pid pid l = true -> length (set_pid pid ty l) = length l.
Proof.
  unfold mem_pid. induction l as [|[p t] r IH]; cbn; [discriminate|].
  destruct (p =? pid)%N; cbn; [reflexivity|]. intros H. f_equal. apply IH, H.
Qed.

Lemma del_p_length k l : mem_p k l = true -> S (length (del_p k l)) = length l.
Proof.
  induction l as [|x r IH]; cbn; [discriminate|].
  destruct (beq_pair x k); cbn; [reflexivity|]. intros H. f_equal. apply IH, H.
Qed.

(* ---------- the Clients map ---------- *)

Lemma upd_none id f l : get id l = None -> upd id f l = l.
Proof.
  induction l as [|c r IH]; cbn; [reflexivity|].
  destruct (beq_bytes (c_id c) id); [discriminate|]. intros H. f_equal. apply IH, H.
Qed.

Lemma get_upd id f l :
  (forall c, c_id (f c) = c_id c) -> get id (upd id f l) = option_map f (get id l).
Proof.
  intros Hid. induction l as [|c r IH]; cbn; [reflexivity|].
  destruct (beq_bytes (c_id c) id) eqn:E; cbn.
  - rewrite Hid, E. reflexivity.
  - rewrite E. apply IH.
Qed.

Lemma sum_infl_upd id f l c :
  get id l = Some c ->
  sum_infl (upd id f l) = sum_infl l - Z.of_nat (length (c_infl c)) + Z.of_nat (length (c_infl (f c))).
Proof.
  induction l as [|x r IH]; cbn; [discriminate|].
  destruct (beq_bytes (c_id x) id); cbn.
  - intros H. injection H as ->. lia.
  - intros H. rewrite (IH H). lia.
Qed.

Lemma count_conn_upd id f l c :
  get id l = Some c ->
  count_conn (upd id f l) = count_conn l - (if c_conn c then 1 else 0) + (if c_conn (f c) then 1 else 0).
Proof.
  induction l as [|x r IH]; cbn; [discriminate|].
  destruct (beq_bytes (c_id x) id); cbn.
  - intros H. injection H as ->. lia.
  - intros H. rewrite (IH H). lia.
Qed.

Lemma sum_infl_drop id l c :
  get id l = Some c -> sum_infl (drop id l) = sum_infl l - Z.of_nat (length (c_infl c)).
Proof.
  induction l as [|x r IH]; cbn; [discriminate|].
  destruct (beq_bytes (c_id x) id); cbn.
  - intros H. injection H as ->. lia.
  - intros H. rewrite (IH H). lia.
Qed.

Lemma count_conn_drop id l c :
  get id l = Some c -> count_conn (drop id l) = count_conn l - (if c_conn c then 1 else 0).
Proof.
  induction l as [|x r IH]; cbn; [discriminate|].
  destruct (beq_bytes (c_id x) id); cbn.
  - intros H. injection H as ->. lia.
  - intros H. rewrite (IH H). lia.
Qed.

(* an update that leaves in-flight map and connection flag alone changes no count *)
Lemma upd_neutral id f (s : st) d :
  (forall c, c_infl (f c) = c_infl c /\ c_conn (f c) = c_conn c) ->
  inv_off d s -> inv_off d (with_clients s (upd id f (s_clients s))).
Proof.
  intros Hf (H1 & H2 & H3 & H4). unfold inv_off, act_conn, act_subs, act_ret, act_infl in *. cbn.
  destruct (get id (s_clients s)) as [c|] eqn:G.
  - rewrite (sum_infl_upd _ _ _ _ G), (count_conn_upd _ _ _ _ G).
    destruct (Hf c) as [-> ->]. repeat split; try lia; destruct (c_conn c); lia.
  - rewrite (upd_none _ _ _ G). repeat split; assumption.
Qed.

(* ---------- primitives ---------- *)

Lemma infl_set_inv d s id pid ty : inv_off d s -> inv_off d (infl_set s id pid ty).
Proof.
  intros (H1 & H2 & H3 & H4). unfold infl_set.
  destruct (get id (s_clients s)) as [c|] eqn:G; [|repeat split; assumption].
  unfold inv_off, act_conn, act_subs, act_ret, act_infl in *. cbn.
  rewrite (sum_infl_upd _ _ _ _ G), (count_conn_upd _ _ _ _ G). cbn.
  destruct (mem_pid pid (c_infl c)) eqn:M; cbn.
  - rewrite (set_pid_length_old _ _ _ M). repeat split; try lia; destruct (c_conn c); lia.
  - rewrite (set_pid_length_new _ _ _ M). repeat split; try lia; destruct (c_conn c); lia.
Qed.

Lemma infl_set_ignore_inv d s id pid ty :
  mem_pid pid (infl_of s id) = true -> inv_off d s -> inv_off d (infl_set_ignore s id pid ty).
Proof.
  intros M (H1 & H2 & H3 & H4). unfold infl_set_ignore, infl_of in *.
  destruct (get id (s_clients s)) as [c|] eqn:G; [|discriminate].
  unfold inv_off, act_conn, act_subs, act_ret, act_infl in *. cbn.
  rewrite (sum_infl_upd _ _ _ _ G), (count_conn_upd _ _ _ _ G). cbn.
  rewrite (set_pid_length_old _ _ _ M). repeat split; try lia; destruct (c_conn c); lia.
Qed.

Lemma infl_del_inv d s id pid : inv_off d s -> inv_off d (infl_del s id pid).
Proof.
  intros (H1 & H2 & H3 & H4). unfold infl_del.
  destruct (get id (s_clients s)) as [c|] eqn:G; [|repeat split; assumption].
  destruct (mem_pid pid (c_infl c)) eqn:M; [|repeat split; assumption].
  unfold inv_off, act_conn, act_subs, act_ret, act_infl in *. cbn.
  rewrite (sum_infl_upd _ _ _ _ G), (count_conn_upd _ _ _ _ G). cbn.
  pose proof (del_pid_length _ _ M). repeat split; try lia; destruct (c_conn c); lia.
Qed.

Lemma sub_add_inv d s id key : inv_off d s -> inv_off d (sub_add s id key).
Proof.
  intros (H1 & H2 & H3 & H4). unfold sub_add.
  destruct (mem_p (id, key) (s_index s)); [repeat split; assumption|].
  unfold inv_off, act_conn, act_subs, act_ret, act_infl in *. cbn [with_index s_clients s_index s_ret n_conn n_subs n_ret n_infl length].
  repeat split; lia.
Qed.

Lemma sub_del_inv d s id key : inv_off d s -> inv_off d (sub_del s id key).
Proof.
  intros (H1 & H2 & H3 & H4). unfold sub_del.
  destruct (mem_p (id, key) (s_index s)) eqn:M; [|repeat split; assumption].
  pose proof (del_p_length _ _ M).
  unfold inv_off, act_conn, act_subs, act_ret, act_infl in *. cbn [with_index s_clients s_index s_ret n_conn n_subs n_ret n_infl].
  repeat split; lia.
Qed.

Lemma with_ret_inv d s r : inv_off d s -> inv_off d (with_ret s r (Z.of_nat (length r))).
Proof. intros (H1 & H2 & H3 & H4). repeat split; assumption. Qed.

Lemma retain_inv d s rop topic : inv_off d s -> inv_off d (retain s rop topic).
Proof.
  intros H. unfold retain. destruct (rop =? 1)%N; [apply with_ret_inv, H|].
  destruct (rop =? 2)%N; [apply with_ret_inv, H|exact H].
Qed.

Lemma fold_inv {A} d (f : st -> A -> st) (l : list A) :
  (forall s x, inv_off d s -> inv_off d (f s x)) -> forall s, inv_off d s -> inv_off d (fold_left f l s).
Proof. intros Hf. induction l as [|x r IH]; cbn; intros s H; [exact H|]. apply IH, Hf, H. Qed.

Lemma deliver_inv d s x : inv_off d s -> inv_off d (deliver s x).
Proof.
  destruct x as [[id pid] o]. intros H. unfold deliver.
  destruct (o =? 1)%N; [apply infl_del_inv|]; apply infl_set_inv, H.
Qed.

Lemma immediate_inv d s id imm : inv_off d s -> inv_off d (immediate s id imm).
Proof. destruct imm; cbn; [apply infl_del_inv|auto]. Qed.

Lemma clear_inflights_inv d s id : inv_off d s -> inv_off d (clear_inflights s id).
Proof. unfold clear_inflights. apply fold_inv. intros; apply infl_del_inv; assumption. Qed.

Lemma unsubscribe_client_inv d s id : inv_off d s -> inv_off d (unsubscribe_client s id).
Proof.
  intros H. unfold unsubscribe_client. apply fold_inv.
  - intros; apply sub_del_inv; assumption.
  - apply upd_neutral; [intros c; split; reflexivity|exact H].
Qed.

(* ---------- what ClearInflights / UnsubscribeClient leave of the client ---------- *)

Lemma infl_del_clients_other s id pid :
  forall c, get id (s_clients s) = Some c ->
  get id (s_clients (infl_del s id pid)) =
  Some (if mem_pid pid (c_infl c) then set_infl c (del_pid pid (c_infl c)) else c).
Proof.
  intros c G. unfold infl_del. rewrite G.
  destruct (mem_pid pid (c_infl c)); cbn; [|exact G].
  rewrite get_upd by reflexivity. rewrite G. reflexivity.
Qed.

Lemma clear_fold_empty id : forall l s c,
  get id (s_clients s) = Some c -> c_infl c = l ->
  exists c', get id (s_clients (fold_left (fun s r => infl_del s id (fst r)) l s)) = Some c' /\
             c_infl c' = [] /\ c_conn c' = c_conn c /\ c_subs c' = c_subs c.
Proof.
  induction l as [|[p t] r IH]; intros s c G E; cbn [fold_left].
  - exists c. auto.
  - pose proof (infl_del_clients_other s id p c G) as G'.
    assert (M : mem_pid p (c_infl c) = true) by (rewrite E; unfold mem_pid; cbn; rewrite N.eqb_refl; reflexivity).
    rewrite M in G'. cbn [fst].
    destruct (IH (infl_del s id p) _ G') as (c' & Gc & Ei & Ec & Es).
    { cbn. rewrite E. cbn. rewrite N.eqb_refl. reflexivity. }
    exists c'. repeat split; assumption.
Qed.

Lemma clear_inflights_empty s id c :
  get id (s_clients s) = Some c ->
  exists c', get id (s_clients (clear_inflights s id)) = Some c' /\ c_infl c' = [] /\ c_conn c' = c_conn c.
Proof.
  intros G. unfold clear_inflights, infl_of. rewrite G.
  destruct (clear_fold_empty id (c_infl c) s c G eq_refl) as (c' & H1 & H2 & H3 & _).
  exists c'. auto.
Qed.

Lemma fold_sub_del_clients id : forall (l : list (bytes * bytes)) s,
  s_clients (fold_left (fun s fk => sub_del s id (snd fk)) l s) = s_clients s.
Proof.
  induction l as [|x r IH]; intros s; cbn; [reflexivity|]. rewrite IH.
  unfold sub_del. destruct (mem_p _ _); reflexivity.
Qed.

Lemma fold_sub_add_clients id : forall (l : list (bytes * bytes)) s,
  s_clients (fold_left (fun s fk => sub_add s id (snd fk)) l s) = s_clients s.
Proof.
  induction l as [|x r IH]; intros s; cbn; [reflexivity|]. rewrite IH.
  unfold sub_add. destruct (mem_p _ _); reflexivity.
Qed.

Lemma unsubscribe_client_get s id c :
  get id (s_clients s) = Some c ->
  get id (s_clients (unsubscribe_client s id)) = Some (set_subs c []).
Proof.
  intros G. unfold unsubscribe_client. rewrite fold_sub_del_clients. cbn.
  rewrite get_upd by reflexivity. rewrite G. reflexivity.
Qed.

(* removing a session that is disconnected and holds no in-flight record changes no count *)
Lemma drop_inv d s id c :
  get id (s_clients s) = Some c -> c_infl c = [] -> c_conn c = false ->
  inv_off d s -> inv_off d (with_clients s (drop id (s_clients s))).
Proof.
  intros G Ei Ec (H1 & H2 & H3 & H4).
  unfold inv_off, act_conn, act_subs, act_ret, act_infl in *. cbn.
  rewrite (sum_infl_drop _ _ _ G), (count_conn_drop _ _ _ G), Ei, Ec. cbn. repeat split; lia.
Qed.

(* ClearInflights; UnsubscribeClient; Clients.Delete on a disconnected session *)
Lemma end_session_inv d s id c :
  get id (s_clients s) = Some c -> c_conn c = false -> inv_off d s ->
  inv_off d (let s2 := clear_inflights s id in
             let s3 := unsubscribe_client s2 id in
             with_clients s3 (drop id (s_clients s3))).
Proof.
  intros G Ec H. cbv zeta.
  destruct (clear_inflights_empty s id c G) as (c' & G' & Ei & Ec').
  pose proof (unsubscribe_client_get _ _ _ G') as G''.
  eapply drop_inv; [exact G''| exact Ei | cbn; congruence |].
  apply unsubscribe_client_inv, clear_inflights_inv, H.
Qed.

(* ---------- the operations ---------- *)

Lemma with_nconn_inv d d' s n :
  inv_off d s -> n = n_conn s + (d' - d) -> inv_off d' (with_nconn s n).
Proof.
  intros (H1 & H2 & H3 & H4) E. unfold inv_off, act_conn, act_subs, act_ret, act_infl in *. cbn. repeat split; lia.
Qed.

(* replacing the session object under an id *)
Lemma replace_inv d s id c nc :
  get id (s_clients s) = Some c -> length (c_infl nc) = length (c_infl c) ->
  inv_off d s ->
  inv_off (d - (if c_conn nc then 1 else 0) + (if c_conn c then 1 else 0))
          (with_clients s (upd id (fun _ => nc) (s_clients s))).
Proof.
  intros G El (H1 & H2 & H3 & H4).
  unfold inv_off, act_conn, act_subs, act_ret, act_infl in *. cbn.
  rewrite (sum_infl_upd _ _ _ _ G), (count_conn_upd _ _ _ _ G), El. repeat split; lia.
Qed.

Lemma step_connect_inv s id clean ver acc : inv_off 0 s -> inv_off 0 (step_connect s id clean ver acc).
Proof.
  intros H. unfold step_connect. destruct acc; cbn [negb]; [|exact H].
  destruct (get id (s_clients s)) as [ex|] eqn:G.
  - assert (H0 : inv_off 1 (with_nconn s (n_conn s + 1))) by (apply (with_nconn_inv 0 1 s _ H); lia).
    assert (G0 : get id (s_clients (with_nconn s (n_conn s + 1))) = Some ex) by exact G.
    set (s0 := with_nconn s (n_conn s + 1)) in *.
    destruct (clean || c_v3clean ex).
    + (* clean start: the old session is unsubscribed and cleared, then replaced *)
      pose proof (unsubscribe_client_get _ _ _ G0) as G1.
      destruct (clear_inflights_empty _ _ _ G1) as (c' & G2 & Ei & Ec).
      pose proof (clear_inflights_inv 1 _ id (unsubscribe_client_inv 1 _ id H0)) as H2.
      pose proof (replace_inv 1 _ id c' (new_client id (clean && (ver <? 5)%N) [] []) G2) as H3.
      cbn in Ec. rewrite Ei, Ec in H3. specialize (H3 eq_refl H2). cbn [new_client c_conn c_infl] in H3.
      cbv zeta. destruct (c_conn ex).
      * eapply with_nconn_inv; [exact H3|lia].
      * exact H3.
    + (* the session is inherited *)
      cbv zeta.
      set (s1 := fold_left (fun s fk => sub_add s id (snd fk)) (c_subs ex) s0).
      assert (H1 : inv_off 1 s1) by (apply fold_inv; [intros; apply sub_add_inv; assumption|exact H0]).
      assert (G1 : get id (s_clients s1) = Some ex) by (unfold s1; rewrite fold_sub_add_clients; exact G0).
      pose proof (replace_inv 1 _ id ex (new_client id (clean && (ver <? 5)%N) (c_infl ex) (c_subs ex)) G1 eq_refl H1) as H2.
      cbn [new_client c_conn c_infl] in H2.
      apply fold_inv; [intros s' x Hs; destruct (is_ack_done (snd x)); [apply infl_del_inv|]; exact Hs|].
      destruct (c_conn ex).
      * eapply with_nconn_inv; [exact H2|lia].
      * exact H2.
  - (* a new session *)
    destruct H as (H1 & H2 & H3 & H4).
    unfold inv_off, act_conn, act_subs, act_ret, act_infl in *.
    cbn [with_nconn with_clients new_client s_clients s_index s_ret n_conn n_subs n_ret n_infl count_conn sum_infl
         c_conn c_infl length].
    repeat split; lia.
Qed.

Lemma step_close_inv s id expire : inv_off 0 s -> inv_off 0 (step_close s id expire).
Proof.
  intros H. unfold step_close.
  destruct (get id (s_clients s)) as [c|] eqn:G; [|exact H].
  destruct (c_conn c) eqn:Ec; cbn [negb]; [|exact H].
  set (s1 := with_nconn (with_clients s (upd id (fun c => set_conn c false) (s_clients s))) (n_conn s - 1)).
  assert (H1 : inv_off 0 s1).
  { destruct H as (H1 & H2 & H3 & H4).
    unfold s1, inv_off, act_conn, act_subs, act_ret, act_infl in *. cbn.
    rewrite (sum_infl_upd _ _ _ _ G), (count_conn_upd _ _ _ _ G), Ec. cbn. repeat split; lia. }
  destruct expire; [|exact H1].
  assert (G1 : get id (s_clients s1) = Some (set_conn c false)).
  { unfold s1. cbn. rewrite get_upd by reflexivity. rewrite G. reflexivity. }
  exact (end_session_inv 0 s1 id _ G1 eq_refl H1).
Qed.

Lemma expire_client_inv s id : inv_off 0 s -> inv_off 0 (expire_client s id).
Proof.
  intros H. unfold expire_client.
  destruct (get id (s_clients s)) as [c|] eqn:G; [|exact H].
  destruct (c_conn c) eqn:Ec; [exact H|].
  exact (end_session_inv 0 s id c G Ec H).
Qed.

Lemma step_subscribe_inv d s id fs : inv_off d s -> inv_off d (step_subscribe s id fs).
Proof.
  unfold step_subscribe. apply fold_inv. intros s' [[flt key] acc] H. destruct acc; [|exact H].
  apply upd_neutral; [intros c; split; reflexivity|]. apply sub_add_inv, H.
Qed.

Lemma step_unsubscribe_inv d s id pid fs : inv_off d s -> inv_off d (step_unsubscribe s id pid fs).
Proof.
  intros H. unfold step_unsubscribe. destruct (mem_pid pid (infl_of s id)); [exact H|].
  revert s H. apply fold_inv. intros s' f H.
  apply upd_neutral; [intros c; split; reflexivity|]. apply sub_del_inv, H.
Qed.

Lemma step_publish_inv d s id qos pid rop topic rej dels :
  inv_off d s -> inv_off d (step_publish s id qos pid rop topic rej dels).
Proof.
  intros H. unfold step_publish. destruct rej; [exact H|].
  assert (K : forall s0, inv_off d s0 ->
    inv_off d (let s2 := retain s0 rop topic in
               if (qos =? 0)%N then fold_left deliver dels s2
               else let s3 := infl_set s2 id pid (if (qos =? 2)%N then T_PUBREC else T_PUBACK) in
                    let s4 := if (qos =? 1)%N then infl_del s3 id pid else s3 in
                    fold_left deliver dels s4)).
  { intros s0 H0. cbv zeta. pose proof (retain_inv d s0 rop topic H0) as H2.
    destruct (qos =? 0)%N; [apply fold_inv; [intros; apply deliver_inv; assumption|exact H2]|].
    apply fold_inv; [intros; apply deliver_inv; assumption|].
    destruct (qos =? 1)%N; [apply infl_del_inv|]; apply infl_set_inv, H2. }
  destruct (find_ty pid (infl_of s id)) as [t|].
  - destruct (t =? T_PUBREC)%N; [exact H|]. apply K, infl_del_inv, H.
  - apply K, H.
Qed.

Lemma infl_set_ignore_present s id pid ty :
  mem_pid pid (infl_of s id) = true -> mem_pid pid (infl_of (infl_set_ignore s id pid ty) id) = true.
Proof.
  unfold infl_of, infl_set_ignore. cbn. destruct (get id (s_clients s)) as [c|] eqn:G; [|discriminate].
  rewrite get_upd by reflexivity. rewrite G. cbn. intros _.
  unfold mem_pid. induction (c_infl c) as [|[p t] r IH]; cbn; [rewrite N.eqb_refl; reflexivity|].
  destruct (p =? pid)%N eqn:E; cbn; rewrite E; [reflexivity|exact IH].
Qed.

Lemma step_ack_inv d s id ty pid bad : inv_off d s -> inv_off d (step_ack s id ty pid bad).
Proof.
  intros H. unfold step_ack.
  destruct (ty =? T_PUBACK)%N; [apply infl_del_inv, H|].
  destruct (ty =? T_PUBREC)%N.
  { destruct (mem_pid pid (infl_of s id)) eqn:M; cbn [negb]; [|exact H].
    destruct bad; [apply infl_del_inv, H|apply infl_set_ignore_inv; assumption]. }
  destruct (ty =? T_PUBREL)%N.
  { destruct (mem_pid pid (infl_of s id)) eqn:M; cbn [negb]; [|exact H].
    destruct bad; [apply infl_del_inv, H|]. apply infl_del_inv, infl_set_ignore_inv; assumption. }
  destruct (ty =? T_PUBCOMP)%N; [apply infl_del_inv, H|exact H].
Qed.

Lemma step_publish_fault_inv d s id qos pid rop topic rej :
  inv_off d s -> inv_off d (step_publish_fault s id qos pid rop topic rej).
Proof.
  intros H. unfold step_publish_fault. destruct rej; [exact H|].
  destruct (find_ty pid (infl_of s id)) as [t|].
  - destruct (t =? T_PUBREC)%N; [exact H|]. apply infl_set_inv, retain_inv, infl_del_inv, H.
  - apply infl_set_inv, retain_inv, H.
Qed.

Lemma step_pubrel_fault_inv d s id pid : inv_off d s -> inv_off d (step_pubrel_fault s id pid).
Proof.
  intros H. unfold step_pubrel_fault. destruct (mem_pid pid (infl_of s id)) eqn:M; [|exact H].
  apply infl_set_ignore_inv; assumption.
Qed.

Theorem step_inv s o : inv_off 0 s -> inv_off 0 (step s o).
Proof.
  intros H. destruct o; cbn [step].
  - apply step_connect_inv, H.
  - apply step_close_inv, H.
  - apply immediate_inv, fold_inv; [intros; apply deliver_inv; assumption|]. apply step_subscribe_inv, H.
  - apply immediate_inv, step_unsubscribe_inv, H.
  - apply immediate_inv, step_publish_inv, H.
  - apply immediate_inv, step_ack_inv, H.
  - apply fold_inv; [intros; apply expire_client_inv; assumption|exact H].
  - apply with_ret_inv, H.
  - apply fold_inv; [intros; apply infl_del_inv; assumption|exact H].
  - apply with_ret_inv, H.
  - apply step_publish_fault_inv, H.
  - apply step_pubrel_fault_inv, H.
Qed.

Lemma init_inv : inv_off 0 init.
Proof. repeat split. Qed.

Theorem run_inv ops : forall s, inv_off 0 s -> inv_off 0 (run s ops).
Proof. induction ops as [|o r IH]; cbn; intros s H; [exact H|]. apply IH, step_inv, H. Qed.

Lemma sum_infl_nonneg l : 0 <= sum_infl l.
Proof. induction l; cbn; lia. Qed.
Lemma count_conn_nonneg l : 0 <= count_conn l.
Proof. induction l as [|c r IH]; cbn; [lia|]. destruct (c_conn c); lia. Qed.

Lemma inv_stats_ok s : inv_off 0 s -> stats_ok s.
Proof.
  intros (H1 & H2 & H3 & H4). unfold stats_ok.
  pose proof (sum_infl_nonneg (s_clients s)). pose proof (count_conn_nonneg (s_clients s)).
  unfold act_conn, act_subs, act_ret, act_infl in *. repeat split; lia.
Qed.

(* after every history the four counters equal the four counts and none is negative *)
Theorem stats_always_ok (ops : list op) : stats_ok (run init ops).
Proof. apply inv_stats_ok, run_inv, init_inv. Qed.

(* ... and therefore at every quiescent point on the way *)
Theorem stats_every_prefix (ops : list op) (k : nat) : stats_ok (run init (firstn k ops)).
Proof. apply stats_always_ok. Qed.
