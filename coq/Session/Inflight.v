(* C08-C12 — the QoS state of ONE client session as the broker keeps it: the in-flight map keyed by
   packet identifier (ONE map for both directions, as inflight.go), the four quota counters with
   the saturating inc/dec of inflight.go, the packet-identifier counter with NextPacketID's scan
   (clients.go), and a step function over operations that transliterates server.go's
   publishToClient, processPublish (in-flight part), processPuback/Pubrec/Pubrel/Pubcomp, the
   deferred-send block at the end of processPacket, inheritClientSession + ResendInflightMessages,
   the teardown at the end of attachClient and ClearExpiredInflights.  No proofs in this file. *)
From MV Require Import Base.Val Session.Pkt.
Open Scope N_scope.

(* ---------- configuration (server capabilities that matter here) ---------- *)
Record cfg := {
  c_maxpid : N;       (* Capabilities.maximumPacketID (65535; lowered by the test knob) *)
  c_maxinfl : N;      (* Capabilities.MaximumInflight *)
  c_srvrm : Z;        (* Capabilities.ReceiveMaximum: what the broker advertises *)
  c_maxexp : Z }.     (* Capabilities.MaximumMessageExpiryInterval *)

(* ---------- in-flight records ---------- *)
Record rec := {
  r_ty : N;           (* FixedHeader.Type of the stored packet: PUBLISH (outbound message), PUBREL (outbound
                         QoS 2 after PUBREC), PUBREC (the client's own QoS 2 publish), PUBACK/PUBCOMP (transient) *)
  r_qos : N;
  r_uid : N;          (* ghost: which message (outbound PUBLISH, or the client's message behind a PUBREC record) *)
  r_created : Z;      (* Created (unix seconds) *)
  r_expiry : Z;       (* Expiry; negative = held back by flow control, "send when quota frees": publishToClient
                         stores -1 - expiry (holdExpiry), i.e. -1 for a message that never expires *)
  r_pv5 : bool }.     (* ProtocolVersion = 5 of the stored packet (only matters for expiry) *)

Definition imap := list (N * rec).

Fixpoint get (k : N) (m : imap) : option rec :=
  match m with
  | [] => None
  | (k', v) :: r => if k' =? k then Some v else get k r
  end.
Definition mem (k : N) (m : imap) : bool := match get k m with Some _ => true | None => false end.
Fixpoint del (k : N) (m : imap) : imap :=
  match m with
  | [] => []
  | (k', v) :: r => if k' =? k then del k r else (k', v) :: del k r
  end.
(* Inflight.Set: add or overwrite *)
Definition set (k : N) (v : rec) (m : imap) : imap := (k, v) :: del k m.
Definition len (m : imap) : N := N.of_nat (length m).

(* ---------- quota counters (inflight.go:116-153) ---------- *)
Definition dec (q : Z) : Z := if (0 <? q)%Z then (q - 1)%Z else q.
Definition inc (q mx : Z) : Z := if (q <? mx)%Z then (q + 1)%Z else q.

(* ---------- session state ---------- *)
Record st := {
  s_present : bool;      (* a client object with this id is in the Clients map *)
  s_conn : bool;         (* it has an open network connection *)
  s_v5 : bool;           (* Properties.ProtocolVersion = 5 *)
  s_clean : bool;        (* Properties.Clean *)
  s_exp : bool;          (* the session ends when the connection does (v5: expiry interval 0; v3/4: clean) *)
  s_infl : imap;
  s_sendq : Z; s_recvq : Z; s_maxsend : Z; s_maxrecv : Z;
  s_pid : N }.           (* State.packetID *)

Definition init_st : st :=
  {| s_present := false; s_conn := false; s_v5 := false; s_clean := false; s_exp := false; s_infl := [];
     s_sendq := 0; s_recvq := 0; s_maxsend := 0; s_maxrecv := 0; s_pid := 0 |}.

Definition with_infl (s : st) (m : imap) : st :=
  {| s_present := s_present s; s_conn := s_conn s; s_v5 := s_v5 s; s_clean := s_clean s; s_exp := s_exp s;
     s_infl := m; s_sendq := s_sendq s; s_recvq := s_recvq s; s_maxsend := s_maxsend s; s_maxrecv := s_maxrecv s;
     s_pid := s_pid s |}.
Definition with_sendq (s : st) (q : Z) : st :=
  {| s_present := s_present s; s_conn := s_conn s; s_v5 := s_v5 s; s_clean := s_clean s; s_exp := s_exp s;
     s_infl := s_infl s; s_sendq := q; s_recvq := s_recvq s; s_maxsend := s_maxsend s; s_maxrecv := s_maxrecv s;
     s_pid := s_pid s |}.
Definition with_recvq (s : st) (q : Z) : st :=
  {| s_present := s_present s; s_conn := s_conn s; s_v5 := s_v5 s; s_clean := s_clean s; s_exp := s_exp s;
     s_infl := s_infl s; s_sendq := s_sendq s; s_recvq := q; s_maxsend := s_maxsend s; s_maxrecv := s_maxrecv s;
     s_pid := s_pid s |}.
Definition with_pid (s : st) (p : N) : st :=
  {| s_present := s_present s; s_conn := s_conn s; s_v5 := s_v5 s; s_clean := s_clean s; s_exp := s_exp s;
     s_infl := s_infl s; s_sendq := s_sendq s; s_recvq := s_recvq s; s_maxsend := s_maxsend s; s_maxrecv := s_maxrecv s;
     s_pid := p |}.
Definition with_conn (s : st) (b : bool) : st :=
  {| s_present := s_present s; s_conn := b; s_v5 := s_v5 s; s_clean := s_clean s; s_exp := s_exp s;
     s_infl := s_infl s; s_sendq := s_sendq s; s_recvq := s_recvq s; s_maxsend := s_maxsend s; s_maxrecv := s_maxrecv s;
     s_pid := s_pid s |}.

(* ---------- operations and outputs ---------- *)
Inductive op :=
| OutPublish (pubqos subqos uid grp : N) (now : Z) (mei : N) (ppv5 qfull : bool)
    (* publishToClient for this client: a publisher (protocol version 5 or not, message expiry interval mei)
       published message uid with QoS pubqos on a topic this client subscribes to with QoS subqos;
       grp names (publisher, topic); qfull = the outbound queue was full (oracle, seen as OnPublishDropped) *)
| InPublish (qos pid : N) (dup : bool) (uid : N) (now : Z)     (* the client publishes (valid topic, authorised) *)
| InAck (ty pid rc : N) (now : Z)                              (* PUBACK / PUBREC / PUBREL / PUBCOMP from the client *)
| InOther                                                      (* PINGREQ, SUBSCRIBE...: only the post-packet block *)
| Disconnect (graceful : bool)                                 (* DISCONNECT packet / the network connection drops *)
| Reconnect (v5 clean : bool) (sei rm : N)                     (* CONNECT on a new connection with this client id *)
| Expire (now : Z).                                            (* clearExpiredInflights(now) *)

Inductive out :=
| OPkt (ty pid : N) (dup : bool) (qos uid rc : N)    (* packet written to this client's connection;
                                                        CONNACK: dup = session present; acks: qos = uid = 0 *)
| OFwd (uid : N)                                     (* publishToSubscribers of the client's message uid *)
| ODrop (uid : N).                                   (* message uid for this client dropped (limit, ids, queue) *)

(* ---------- NextPacketID (clients.go:276-301) ---------- *)
Fixpoint next_pid_loop (fuel : nat) (maxpid : N) (m : imap) (started i : N) (overflowed : bool) : option N :=
  match fuel with
  | O => None
  | S f =>
      if overflowed && (i =? started) then None                       (* ErrQuotaExceeded *)
      else if maxpid <=? i then next_pid_loop f maxpid m started 0 true
      else let i' := i + 1 in
           if mem i' m then next_pid_loop f maxpid m started i' overflowed else Some i'
  end.
Definition next_pid (c : cfg) (s : st) : option N :=
  next_pid_loop (N.to_nat (2 * c_maxpid c + 4)) (c_maxpid c) (s_infl s) (s_pid s) (s_pid s) false.

(* ---------- GetAll's order: sort.Slice by uint16(Created); ties / instability = oracle ---------- *)
Definition key16 (r : rec) : Z := (r_created r mod 65536)%Z.

Fixpoint insert16 (kv : N * rec) (l : imap) : imap :=
  match l with
  | [] => [kv]
  | kv' :: r => if (key16 (snd kv') <=? key16 (snd kv))%Z then kv' :: insert16 kv r else kv :: l
  end.
Definition sort16 (m : imap) : imap := fold_right insert16 [] (rev m).

Fixpoint sorted16 (l : imap) : bool :=
  match l with
  | kv :: ((kv' :: _) as r) => (key16 (snd kv) <=? key16 (snd kv'))%Z && sorted16 r
  | _ => true
  end.
Fixpoint nodupb (l : list N) : bool :=
  match l with [] => true | x :: r => negb (existsb (N.eqb x) r) && nodupb r end.
Fixpoint lookup_all (orc : list N) (m : imap) : imap :=
  match orc with
  | [] => []
  | p :: r => match get p m with Some v => (p, v) :: lookup_all r m | None => lookup_all r m end
  end.
(* the oracle is an order of the keys of m that is sorted by the 16-bit key; anything else falls back *)
Definition valid_order (orc : list N) (m : imap) : bool :=
  Nat.eqb (length orc) (length m) && nodupb orc && forallb (fun p => mem p m) orc && sorted16 (lookup_all orc m).
Definition get_all (orc : list N) (m : imap) : imap :=
  if valid_order orc m then lookup_all orc m else sort16 m.

(* NextImmediate: first of GetAll(true) *)
Definition immediates (m : imap) : imap := filter (fun kv => (r_expiry (snd kv) <? 0)%Z) m.
Definition next_immediate (orc : list N) (m : imap) : option (N * rec) :=
  let cands := immediates m in
  match sort16 cands with
  | [] => None
  | (p0, r0) :: _ =>
      match orc with
      | p :: _ => match get p cands with
                  | Some r => if (key16 r =? key16 r0)%Z then Some (p, r) else Some (p0, r0)
                  | None => Some (p0, r0)
                  end
      | [] => Some (p0, r0)
      end
  end.

(* what is written for a stored record *)
Definition pkt_of_rec (resend : bool) (pid : N) (r : rec) : out :=
  if r_ty r =? T_PUBLISH then OPkt T_PUBLISH pid resend (r_qos r) (r_uid r) 0
  else OPkt (r_ty r) pid false 0 0 0.

(* reason codes reach only MQTT 5 clients *)
Definition wire_rc (s : st) (rc : N) : N := if s_v5 s then rc else 0.

(* ---------- the deferred-send block at the end of processPacket (server.go:719-728) ---------- *)
Definition deferred (s : st) (orc : list N) : st * list out :=
  if (0 <? len (s_infl s)) && (0 <? s_sendq s)%Z then
    match next_immediate orc (s_infl s) with
    | Some (p, r) =>
        let o := if s_conn s then [pkt_of_rec false p r] else [] in       (* WritePacket fails on a closed client *)
        let s1 := with_infl s (del p (s_infl s)) in                       (* Inflight.Delete(next.PacketID) *)
        (with_sendq s1 (dec (s_sendq s1)), o)
    | None => (s, [])
    end
  else (s, []).

(* ---------- the end of attachClient after the read loop returned ---------- *)
Definition teardown (s : st) : st :=
  if s_exp s then init_st                       (* ClearInflights, UnsubscribeClient, Clients.Delete *)
  else with_conn s false.

(* holdExpiry / heldExpiry (inflight.go) *)
Definition hold_expiry (e : Z) : Z := if (e <? 0)%Z then e else (-1 - e)%Z.
Definition held_expiry (e : Z) : Z := if (e <? 0)%Z then (-1 - e)%Z else e.

(* ---------- publishToClient (server.go:1033-1123), QoS part ---------- *)
Definition zmin (a b : Z) : Z := if (a <? b)%Z then a else b.
Definition out_publish (c : cfg) (s : st) (pubqos subqos uid : N) (now : Z) (mei : N) (ppv5 qfull : bool)
  : st * list out :=
  let q := if subqos <? pubqos then subqos else pubqos in
  let e := zmin (c_maxexp c) (Z.of_N mei) in
  let expiry := if (0 <? e)%Z then (now + e)%Z else 0%Z in
  if q =? 0 then
    if s_conn s then (s, [if qfull then ODrop uid else OPkt T_PUBLISH 0 false 0 uid 0]) else (s, [])
  else if c_maxinfl c <=? len (s_infl s) then (s, [ODrop uid])              (* InflightDropped *)
  else
    match next_pid c s with
    | None => (s, [ODrop uid])                                              (* OnPacketIDExhausted *)
    | Some i =>
        let s1 := with_pid s i in
        let sentq := s_sendq s1 in
        let r := {| r_ty := T_PUBLISH; r_qos := q; r_uid := uid; r_created := now; r_expiry := expiry; r_pv5 := ppv5 |} in
        let isnew := negb (mem i (s_infl s1)) in
        let s2 := with_infl s1 (set i r (s_infl s1)) in
        let s3 := if isnew then with_sendq s2 (dec (s_sendq s2)) else s2 in
        if (sentq =? 0)%Z && (0 <? s_maxsend s3)%Z then
          let r' := {| r_ty := T_PUBLISH; r_qos := q; r_uid := uid; r_created := now; r_expiry := hold_expiry expiry;
                       r_pv5 := ppv5 |} in
          (with_infl s3 (set i r' (s_infl s3)), [])                         (* held back: Expiry = holdExpiry(Expiry) *)
        else if negb (s_conn s3) then (s3, [])                              (* stays in flight for the resend *)
        else if qfull then
          let s4 := with_infl s3 (del i (s_infl s3)) in
          (with_sendq s4 (inc (s_sendq s4) (s_maxsend s4)), [ODrop uid])    (* rollback *)
        else (s3, [OPkt T_PUBLISH i false q uid 0])
    end.

(* ---------- processPublish (server.go:858-978), in-flight part; topic valid, write allowed ---------- *)
Definition ack_rec (ty : N) (uid : N) (c : cfg) (now : Z) : rec :=
  {| r_ty := ty; r_qos := if ty =? T_PUBREL then 1 else 0; r_uid := uid; r_created := now;
     r_expiry := (now + c_maxexp c)%Z; r_pv5 := false |}.

Definition in_publish (c : cfg) (s : st) (qos pid : N) (uid : N) (now : Z) (orc : list N) : st * list out :=
  if (s_recvq s =? 0)%Z then
    (* DisconnectClient(ErrReceiveMaximum): DISCONNECT is written (to every protocol version), the client stopped *)
    (teardown s, [OPkt T_DISCONNECT 0 false 0 0 (wire_rc s 147)])
  else
    let retrans := match get pid (s_infl s) with Some r => r_ty r =? T_PUBREC | None => false end in
    if retrans then
      let '(s', o) := deferred s orc in
      (s', OPkt T_PUBREC pid false 0 0 (wire_rc s 145) :: o)                (* 0x91 packet identifier in use *)
    else
      let s1 := with_infl s (del pid (s_infl s)) in        (* whatever else is stored under this id is deleted *)
      if qos =? 0 then let '(s', o) := deferred s1 orc in (s', OFwd uid :: o)
      else
        let s2 := with_recvq s1 (dec (s_recvq s1)) in
        let aty := if qos =? 2 then T_PUBREC else T_PUBACK in
        let s3 := with_infl s2 (set pid (ack_rec aty uid c now) (s_infl s2)) in
        let ack := OPkt aty pid false 0 0 0 in
        let s4 := if qos =? 1 then
                    let s' := with_infl s3 (del pid (s_infl s3)) in with_recvq s' (inc (s_recvq s') (s_maxrecv s'))
                  else s3 in
        let '(s5, o) := deferred s4 orc in
        (s5, ack :: OFwd uid :: o).

(* ReasonCodeValid (packets.go:794) *)
Definition pubrec_rc_valid (rc : N) : bool :=
  existsb (N.eqb rc) [0; 16; 128; 131; 135; 144; 145; 151; 153].
Definition pubrel_rc_valid (rc : N) : bool := (rc =? 0) || (rc =? 146).

(* ---------- processPuback / processPubrec / processPubrel / processPubcomp ---------- *)
Definition in_ack (c : cfg) (s : st) (ty pid rc : N) (now : Z) (orc : list N) : st * list out :=
  if ty =? T_PUBACK then
    match get pid (s_infl s) with
    | None => deferred s orc
    | Some _ =>
        let s1 := with_infl s (del pid (s_infl s)) in
        deferred (with_sendq s1 (inc (s_sendq s1) (s_maxsend s1))) orc
    end
  else if ty =? T_PUBREC then
    match get pid (s_infl s) with
    | None => let '(s', o) := deferred s orc in (s', OPkt T_PUBREL pid false 0 0 (wire_rc s 146) :: o)
    | Some r =>
        if (128 <=? rc) || negb (pubrec_rc_valid rc) then
          deferred (with_infl s (del pid (s_infl s))) orc
        else
          let s1 := with_recvq s (dec (s_recvq s)) in                           (* -1 RECV QUOTA *)
          let s2 := with_infl s1 (set pid (ack_rec T_PUBREL (r_uid r) c now) (s_infl s1)) in
          let '(s', o) := deferred s2 orc in (s', OPkt T_PUBREL pid false 0 0 0 :: o)
    end
  else if ty =? T_PUBREL then
    match get pid (s_infl s) with
    | None => let '(s', o) := deferred s orc in (s', OPkt T_PUBCOMP pid false 0 0 (wire_rc s 146) :: o)
    | Some r =>
        if (128 <=? rc) || negb (pubrel_rc_valid rc) then
          deferred (with_infl s (del pid (s_infl s))) orc
        else
          let s1 := with_infl s (set pid (ack_rec T_PUBCOMP (r_uid r) c now) (s_infl s)) in
          let s2 := with_recvq s1 (inc (s_recvq s1) (s_maxrecv s1)) in          (* +1 RECV QUOTA *)
          let s3 := with_sendq s2 (inc (s_sendq s2) (s_maxsend s2)) in          (* +1 SENT QUOTA *)
          let s4 := with_infl s3 (del pid (s_infl s3)) in
          let '(s', o) := deferred s4 orc in (s', OPkt T_PUBCOMP pid false 0 0 0 :: o)
    end
  else if ty =? T_PUBCOMP then
    let s1 := with_recvq s (inc (s_recvq s) (s_maxrecv s)) in
    let s2 := with_sendq s1 (inc (s_sendq s1) (s_maxsend s1)) in
    deferred (with_infl s2 (del pid (s_infl s2))) orc
  else (s, []).

(* ---------- ParseConnect + inheritClientSession + SendConnack + ResendInflightMessages ---------- *)
Definition fresh (c : cfg) (v5 clean : bool) (sei rm : N) (m : imap) (zeroq : bool) : st :=
  let rm' := Z.of_N (if c_maxinfl c <? rm then c_maxinfl c else rm) in
  {| s_present := true; s_conn := true; s_v5 := v5; s_clean := clean;
     s_exp := (v5 && (sei =? 0)) || (negb v5 && clean);
     s_infl := m;
     s_sendq := if zeroq then 0%Z else rm'; s_recvq := if zeroq then 0%Z else c_srvrm c;
     s_maxsend := if zeroq then 0%Z else rm'; s_maxrecv := if zeroq then 0%Z else c_srvrm c;
     s_pid := 0 |}.

Fixpoint resend (l : imap) (m : imap) : imap * list out :=
  match l with
  | [] => (m, [])
  | (p, r) :: rest =>
      let m1 := if (r_ty r =? T_PUBACK) || (r_ty r =? T_PUBCOMP) then del p m else m in
      let '(m2, o) := resend rest m1 in
      (m2, pkt_of_rec true p r :: o)
  end.

Definition reconnect (c : cfg) (s : st) (v5 clean : bool) (sei rm : N) (orc : list N) : st * list out :=
  if s_present s then
    if clean || (s_clean s && negb (s_v5 s)) then
      (fresh c v5 clean sei rm [] false, [OPkt T_CONNACK 0 false 0 0 0])
    else
      let s1 := if 0 <? len (s_infl s)
                then fresh c v5 clean sei rm (s_infl s) ((c_srvrm c =? 0)%Z)        (* Clone, then the quota reset *)
                else fresh c v5 clean sei rm [] false in
      let '(m, o) := resend (get_all orc (s_infl s1)) (s_infl s1) in
      (with_infl s1 m, OPkt T_CONNACK 0 true 0 0 0 :: o)
  else (fresh c v5 clean sei rm [] false, [OPkt T_CONNACK 0 false 0 0 0]).

(* ---------- ClearExpiredInflights ---------- *)
Definition expired (c : cfg) (now : Z) (r : rec) : bool :=
  (r_pv5 r && (0 <? held_expiry (r_expiry r))%Z && (held_expiry (r_expiry r) <? now)%Z)
  || ((0 <? c_maxexp c)%Z && (c_maxexp c <? now - r_created r)%Z).

(* ---------- one operation ---------- *)
Definition step (c : cfg) (s : st) (o : op) (orc : list N) : st * list out :=
  match o with
  | OutPublish pq sq uid _ now mei ppv5 qfull =>
      if s_present s then out_publish c s pq sq uid now mei ppv5 qfull else (s, [])
  | InPublish qos pid _ uid now =>
      if s_present s && s_conn s then in_publish c s qos pid uid now orc else (s, [])
  | InAck ty pid rc now =>
      if s_present s && s_conn s then in_ack c s ty pid rc now orc else (s, [])
  | InOther =>
      if s_present s && s_conn s then deferred s orc else (s, [])
  | Disconnect graceful =>
      if s_present s && s_conn s then
        if graceful then let '(s', _) := deferred (with_conn s false) orc in (teardown s', [])
        else (teardown s, [])
      else (s, [])
  | Reconnect v5 clean sei rm => reconnect c s v5 clean sei rm orc
  | Expire now =>
      if s_present s then (with_infl s (filter (fun kv => negb (expired c now (snd kv))) (s_infl s)), []) else (s, [])
  end.

(* ---------- the same packet handlers when every write to the client's connection FAILS ----------
   (fault injection: broken pipe at the moment the broker answers).  A handler that returns the write error
   (the acknowledgement writes of processPublish / processPubrec / processPubrel, PINGRESP, SUBACK) is aborted
   there: what it did before the write stays, what comes after does not happen, processPacket skips the
   post-packet block, the read loop ends and the connection is torn down.  Writes whose error is ignored
   (DisconnectClient, the post-packet block) just write nothing.  No theorem speaks about these variants; they
   are tied to the code by the same differential replay. *)
Definition deferred_fail (s : st) (orc : list N) : st :=
  let '(s', _) := deferred (with_conn s false) orc in with_conn s' (s_conn s).

Definition in_publish_fail (c : cfg) (s : st) (qos pid : N) (uid : N) (now : Z) (orc : list N) : st * list out :=
  if (s_recvq s =? 0)%Z then (teardown s, [])
  else
    let retrans := match get pid (s_infl s) with Some r => r_ty r =? T_PUBREC | None => false end in
    if retrans then (teardown s, [])
    else
      let s1 := with_infl s (del pid (s_infl s)) in
      if qos =? 0 then (deferred_fail s1 orc, [OFwd uid])
      else
        let s2 := with_recvq s1 (dec (s_recvq s1)) in
        let aty := if qos =? 2 then T_PUBREC else T_PUBACK in
        let s3 := with_infl s2 (set pid (ack_rec aty uid c now) (s_infl s2)) in
        (teardown s3, []).                    (* recorded and never forwarded *)

Definition in_ack_fail (c : cfg) (s : st) (ty pid rc : N) (now : Z) (orc : list N) : st * list out :=
  if ty =? T_PUBACK then
    match get pid (s_infl s) with
    | None => (deferred_fail s orc, [])
    | Some _ =>
        let s1 := with_infl s (del pid (s_infl s)) in
        (deferred_fail (with_sendq s1 (inc (s_sendq s1) (s_maxsend s1))) orc, [])
    end
  else if ty =? T_PUBREC then
    match get pid (s_infl s) with
    | None => (teardown s, [])
    | Some r =>
        if (128 <=? rc) || negb (pubrec_rc_valid rc) then (deferred_fail (with_infl s (del pid (s_infl s))) orc, [])
        else
          let s1 := with_recvq s (dec (s_recvq s)) in
          (teardown (with_infl s1 (set pid (ack_rec T_PUBREL (r_uid r) c now) (s_infl s1))), [])
    end
  else if ty =? T_PUBREL then
    match get pid (s_infl s) with
    | None => (teardown s, [])
    | Some r =>
        if (128 <=? rc) || negb (pubrel_rc_valid rc) then (deferred_fail (with_infl s (del pid (s_infl s))) orc, [])
        else (teardown (with_infl s (set pid (ack_rec T_PUBCOMP (r_uid r) c now) (s_infl s))), [])
    end
  else if ty =? T_PUBCOMP then
    let s1 := with_recvq s (inc (s_recvq s) (s_maxrecv s)) in
    let s2 := with_sendq s1 (inc (s_sendq s1) (s_maxsend s1)) in
    (deferred_fail (with_infl s2 (del pid (s_infl s2))) orc, [])
  else (s, []).

(* a delivery whose queued PUBLISH the write loop cannot write: publishToClient has done everything (record, quota,
   queue); WriteLoop gets the error, reports the message through OnPublishDropped and goes on - nothing is rolled back *)
Definition out_publish_fault (c : cfg) (s : st) (pubqos subqos uid : N) (now : Z) (mei : N) (ppv5 : bool) : st * list out :=
  let '(s', outs) := out_publish c s pubqos subqos uid now mei ppv5 false in
  (s', map (fun o => match o with OPkt _ _ _ _ u _ => ODrop u | x => x end) outs).

Definition step_fault (c : cfg) (s : st) (o : op) (orc : list N) : st * list out :=
  match o with
  | OutPublish pq sq uid _ now mei ppv5 _ =>
      if s_present s then out_publish_fault c s pq sq uid now mei ppv5 else (s, [])
  | InPublish qos pid _ uid now =>
      if s_present s && s_conn s then in_publish_fail c s qos pid uid now orc else (s, [])
  | InAck ty pid rc now =>
      if s_present s && s_conn s then in_ack_fail c s ty pid rc now orc else (s, [])
  | InOther => if s_present s && s_conn s then (teardown s, []) else (s, [])    (* PINGRESP / SUBACK not written *)
  | _ => step c s o orc
  end.

(* a history: operations with the oracle of each step *)
Fixpoint run (c : cfg) (s : st) (h : list (op * list N)) : st * list (list out) :=
  match h with
  | [] => (s, [])
  | (o, orc) :: r =>
      let '(s1, outs) := step c s o orc in
      let '(s2, rest) := run c s1 r in
      (s2, outs :: rest)
  end.
