(* C23 — everything the broker writes is well-formed for the client's protocol version.
   Stream monitor built on the independent reference decoder Codec/SpecCodec.v (written from the
   OASIS texts, not from mochi's codec), the known-finding predicates, and the engine.
   No proofs in this file. *)
From MV Require Import Base.Val Codec.Vbi Codec.SpecCodec.
Open Scope N_scope.

(* what the client declared in CONNECT, as far as it constrains the broker's output *)
Record cctx := {
  cc_ver : N;            (* protocol level: 3, 4 or 5 *)
  cc_mps : N;            (* Maximum Packet Size, 0 = not given *)
  cc_problem : bool;     (* Request Problem Information <> 0 (default true) *)
  cc_respinfo : bool }.  (* Request Response Information = 1 *)

(* packet types a SERVER may send (2.1.2 "Direction of flow"); MQTT 3.1.1 reserves DISCONNECT for
   the client and has no AUTH *)
Definition server_sendable (ver : N) (p : spkt) : bool :=
  match p with
  | SConnack _ _ _ | SPublish _ _ _ _ _ _ _ | SAck _ _ _ _ | SSuback _ _ _ | SUnsuback _ _ _ | SPingresp => true
  | SDisconnect _ _ | SAuth _ _ => ver =? 5
  | _ => false
  end.

Definition props_of (p : spkt) : list sprop :=
  match p with
  | SConnect _ _ _ ps _ _ _ _ | SConnack _ _ ps | SPublish _ _ _ _ _ ps _ | SAck _ _ _ ps
  | SSubscribe _ ps _ | SSuback _ ps _ | SUnsubscribe _ ps _ | SUnsuback _ ps _
  | SDisconnect _ ps | SAuth _ ps => ps
  | _ => []
  end.

Definition is_problem_prop (c : sprop) : bool :=
  match c with ReasonString _ | UserProperty _ _ => true | _ => false end.
Definition is_respinfo_prop (c : sprop) : bool :=
  match c with ResponseInfo _ => true | _ => false end.

(* [MQTT-3.1.2-29]: with Request Problem Information 0 no Reason String / User Property on any
   packet other than PUBLISH, CONNACK, DISCONNECT; [MQTT-3.1.2-28]: Response Information only on request *)
Definition info_ok (c : cctx) (p : spkt) : bool :=
  (cc_problem c ||
   match p with
   | SPublish _ _ _ _ _ _ _ | SConnack _ _ _ | SDisconnect _ _ => true
   | _ => negb (existsb is_problem_prop (props_of p))
   end)
  && (cc_respinfo c || negb (existsb is_respinfo_prop (props_of p))).

(* one packet from the front of the stream, WITHOUT the validity check (so that an invalid packet
   can be classified); None = the bytes are not even a framed packet of a known type *)
Definition lenient_decode (ver : N) (bs : bytes) : option (spkt * N * bytes) :=
  do (b0, r) <- get_u8 bs;
  let ty := b0 / 16 in
  let flags := b0 mod 16 in
  do _ <- guard (flags_ok ty flags);
  do (n, r) <- get_vbi r;
  do (body, rest) <- take n r;
  do p <- dec_body ver ty flags body;
  Some (p, len bs - len rest, rest).

Inductive defect :=
| DGarbage            (* bytes that are not a complete packet of the client's version *)
| DInvalid            (* a packet the standard does not allow in this version (codes, properties...) *)
| DClientOnly         (* a packet type a server must not send in this version *)
| DTooLarge           (* exceeds the client's Maximum Packet Size *)
| DInfo               (* problem / response information the client did not allow *)
| DAfterDisconnect.   (* something follows a DISCONNECT *)

Definition defect_code (d : defect) : N :=
  match d with DGarbage => 1 | DInvalid => 2 | DClientOnly => 3 | DTooLarge => 4 | DInfo => 5 | DAfterDisconnect => 6 end.

Definition is_disconnect (p : spkt) : bool := match p with SDisconnect _ _ => true | _ => false end.

Definition packet_defect (c : cctx) (p : spkt) (size : N) : option defect :=
  if negb (server_sendable (cc_ver c) p) then Some DClientOnly
  else if negb (valid_packet (cc_ver c) p) then Some DInvalid
  else if (0 <? cc_mps c) && (cc_mps c <? size) then Some DTooLarge
  else if negb (info_ok c p) then Some DInfo
  else None.

(* ---------- known findings (narrow, executable, on the offending packet) ---------- *)

(* C23-1: the broker writes a DISCONNECT packet to MQTT 3 clients (takeover, shutdown, quota, ACL);
   pinned by TestEstablishConnectionInheritExistingClean / TestServerRecievePacketDisconnectClient *)
Definition KF_C23_v3_disconnect (c : cctx) (d : defect) (p : option spkt) : bool :=
  (cc_ver c <? 5) && match d, p with DClientOnly, Some (SDisconnect _ _) => true | _, _ => false end.

(* C23-2: MQTT 3 CONNACK with a return code above 5 for failures V5CodesToV3 does not map;
   pinned by TestServerEstablishConnectionInvalidConnect *)
Definition KF_C23_v3_connack_code (c : cctx) (d : defect) (p : option spkt) : bool :=
  (cc_ver c <? 5) && match d, p with DInvalid, Some (SConnack _ code _) => 5 <? code | _, _ => false end.

(* C23-5: a SUBSCRIBE asking No Local on a shared subscription is answered with SUBACK reason 0x82,
   which is not a SUBACK reason code (the standard makes it a protocol error, i.e. DISCONNECT 0x82);
   pinned by TestServerProcessPacketSubscribeInvalidSharedNoLocal.  Narrow: the SUBACK is valid
   once the 0x82 entries are read as 0x80. *)
Definition KF_C23_suback_0x82 (c : cctx) (d : defect) (p : option spkt) : bool :=
  (cc_ver c =? 5) &&
  match d, p with
  | DInvalid, Some (SSuback id ps codes) =>
      existsb (N.eqb 130) codes &&
      valid_packet 5 (SSuback id ps (map (fun x => if x =? 130 then 128 else x) codes))
  | _, _ => false
  end.

(* walk the stream; returns the packets seen, the known findings met on the way (the scan goes on
   past them so that they cannot mask a different defect) and the first other defect with the
   offending packet *)
Fixpoint scan (fuel : nat) (c : cctx) (bs : bytes) (after_disc : bool) (acc : list spkt) (kfs : list bytes)
  : list spkt * list bytes * option (defect * option spkt) :=
  match fuel with
  | O => (rev acc, kfs, None)
  | S f =>
      match bs with
      | [] => (rev acc, kfs, None)
      | _ =>
          if after_disc then
            (* C23-6: DisconnectClient writes DISCONNECT directly while the write loop may still be
               draining PUBLISH packets queued earlier (e.g. the client's own will, published by
               processConnect just before the DISCONNECT): whole, valid PUBLISH packets can follow *)
            match lenient_decode (cc_ver c) bs with
            | Some (SPublish d q r t i ps pl, size, rest) =>
                match packet_defect c (SPublish d q r t i ps pl) size with
                | None => scan f c rest true (SPublish d q r t i ps pl :: acc) (tag "KF_C23_publish_after_disconnect" :: kfs)
                | Some _ => (rev acc, kfs, Some (DAfterDisconnect, None))
                end
            | _ => (rev acc, kfs, Some (DAfterDisconnect, None))
            end
          else match lenient_decode (cc_ver c) bs with
               | None => (rev acc, kfs, Some (DGarbage, None))
               | Some (p, size, rest) =>
                   match packet_defect c p size with
                   | Some d =>
                       if KF_C23_v3_disconnect c d (Some p)
                       then scan f c rest true (p :: acc) (tag "KF_C23_v3_disconnect" :: kfs)
                       else if KF_C23_v3_connack_code c d (Some p)
                       then scan f c rest false (p :: acc) (tag "KF_C23_v3_connack_code" :: kfs)
                       else if KF_C23_suback_0x82 c d (Some p)
                       then scan f c rest false (p :: acc) (tag "KF_C23_suback_0x82" :: kfs)
                       else (rev acc, kfs, Some (d, Some p))
                   | None => scan f c rest (is_disconnect p) (p :: acc) kfs
                   end
               end
      end
  end.

Definition stream_ok (c : cctx) (bs : bytes) : bool :=
  match scan (S (length bs)) c bs false [] [] with (_, [], None) => true | _ => false end.

(* ---------- engine ----------
   case = (ver mps problem respinfo stream)  — the complete byte stream one connection received *)
Definition kind_tag (p : spkt) : bytes :=
  match p with
  | SConnack _ _ _ => tag "connack" | SPublish _ _ _ _ _ _ _ => tag "publish" | SAck _ _ _ _ => tag "ack"
  | SSuback _ _ _ => tag "suback" | SUnsuback _ _ _ => tag "unsuback" | SPingresp => tag "pingresp"
  | SDisconnect _ _ => tag "disconnect" | SAuth _ _ => tag "auth" | _ => tag "client-only"
  end.

(* ENGINE wire Session.Wellformed.wire_engine *)
Definition wire_engine (v : val) : val :=
  match v with
  | VL [VN ver; VN mps; problem; respinfo; VB stream] =>
      match as_bool problem, as_bool respinfo with
      | Some pr, Some ri =>
          if negb (wf_bytesb stream) then bad_case else
          let c := {| cc_ver := ver; cc_mps := mps; cc_problem := pr; cc_respinfo := ri |} in
          let '(pks, kfs, d) := scan (S (length stream)) c stream false [] [] in
          let nontriv := 1 <? N.of_nat (length pks) in
          let vt := if ver =? 5 then tag "v5" else tag "v3" in
          match d, kfs with
          | None, [] => verdict 0 vt nontriv [VN (N.of_nat (length pks))]
          | None, kf :: _ => verdict 3 vt nontriv [VB kf]
          | Some (df, p), _ =>
              verdict 1 vt nontriv [VN (defect_code df); VB (match p with Some q => kind_tag q | None => tag "none" end);
                                    VN (N.of_nat (length pks))]
          end
      | _, _ => bad_case
      end
  | _ => bad_case
  end.
