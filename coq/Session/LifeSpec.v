(* C13-C16 — specification monitors over an observed history, written from the property texts (and
   the MQTT 3.1.1 / 5.0 rules they summarise), not from the broker code.  An observation is, per
   operation: the operation, what happened (packets per connection in order, closes, will
   publications, hook events) and the broker's life-cycle snapshot before and after.  The same
   monitors run on what the real broker did (engine, LifeEngine.v) and on the traces of the
   component model (theorems, LifeProofs*.v).  No proofs in this file. *)
From MV Require Import Base.Val Session.Lifecycle.
Open Scope N_scope.

(* ---------- observations ---------- *)
Record sclient := {
  sc_id : bytes; sc_conn : N; sc_open : bool; sc_tko : bool; sc_disc : Z; sc_ver : N; sc_clean : bool;
  sc_sei : N; sc_seiflag : bool; sc_willflag : bool; sc_subs : list bytes; sc_infl : list bytes }.

Record snap := {
  sn_clients : list sclient;
  sn_index : list (bytes * bytes * N);
  sn_wills : list (bytes * Z * msg);
  sn_retained : list (bytes * bytes) }.

Record obs := { b_op : op; b_outs : list out; b_hooks : list hev; b_pre : snap; b_post : snap }.

(* projection of the model state *)
Definition sclient_of (id : bytes) (o : cobj) : sclient :=
  {| sc_id := id; sc_conn := o_conn o; sc_open := o_open o; sc_tko := o_tko o; sc_disc := o_disc o;
     sc_ver := o_ver o; sc_clean := o_clean o; sc_sei := o_sei o; sc_seiflag := o_seiflag o;
     sc_willflag := w_flag (o_will o); sc_subs := map fst (o_subs o); sc_infl := map m_payload (o_infl o) |}.

Fixpoint clients_of (s : state) (l : list (bytes * N)) : list sclient :=
  match l with
  | [] => []
  | (id, c) :: r =>
      match get_obj c (st_objs s) with
      | Some o => sclient_of id o :: clients_of s r
      | None => clients_of s r
      end
  end.

Definition snap_of (s : state) : snap :=
  {| sn_clients := clients_of s (st_clients s);
     sn_index := st_index s;
     sn_wills := map (fun e => (fst e, d_due (snd e), d_msg (snd e))) (st_wills s);
     sn_retained := st_retained s |}.

Definition obs_of (t : tstep) : obs :=
  {| b_op := t_op t; b_outs := t_outs t; b_hooks := t_hooks t; b_pre := snap_of (t_pre t); b_post := snap_of (t_post t) |}.

(* ---------- helpers ---------- *)
Fixpoint find_client (id : bytes) (l : list sclient) : option sclient :=
  match l with [] => None | r :: t => if beq_bytes (sc_id r) id then Some r else find_client id t end.
Definition has_client (id : bytes) (l : list sclient) : bool :=
  match find_client id l with Some _ => true | None => false end.

Definition pkts_to (c : N) (outs : list out) : list opkt :=
  flat_map (fun o => match o with OPkt c' p => if c' =? c then [p] else [] | _ => [] end) outs.
Definition closes (outs : list out) : list N :=
  flat_map (fun o => match o with OClose c => [c] | _ => [] end) outs.
Definition wills_of (outs : list out) : list (N * msg) :=
  flat_map (fun o => match o with OWill c m => [(c, m)] | _ => [] end) outs.

Definition success_connack (l : list opkt) : option bool :=
  match filter is_connack l with PConnack 0 sp :: _ => Some sp | _ => None end.

Definition beq_msg (a b : msg) : bool :=
  beq_bytes (m_topic a) (m_topic b) && beq_bytes (m_payload a) (m_payload b) && (m_qos a =? m_qos b) &&
  Bool.eqb (m_retain a) (m_retain b).

Definition countB (b : bytes) (l : list bytes) : nat := length (filter (beq_bytes b) l).
Definition subB (a b : list bytes) : bool := forallb (fun x => memB x b) a.
Definition msubB (a b : list bytes) : bool := forallb (fun x => Nat.leb (countB x a) (countB x b)) a.

Definition op_conn (o : op) : option N :=
  match o with
  | OConnect c _ _ _ _ | OBadFirst c _ | ODisconnect c _ _ _ | ONetClose c _ | OTeardown c _
  | OSubscribe c _ _ | OPublish c _ | OSecondConnect c _ => Some c
  | _ => None
  end.
Definition op_now (o : op) : option Z :=
  match o with
  | OConnect _ t _ _ _ | OBadFirst _ t | ODisconnect _ t _ _ | ONetClose _ t | OTeardown _ t
  | OSecondConnect _ t | OTickClients t | OTickWill t => Some t
  | _ => None
  end.

(* a violation: clause tag, position in the history, connection and client id concerned *)
Record viol := { v_tag : N; v_step : nat; v_conn : N; v_id : bytes }.
Definition mkv (tag : N) (i : nat) (c : N) (id : bytes) : viol := {| v_tag := tag; v_step := i; v_conn := c; v_id := id |}.

(* clause tags *)
Definition V13_first_dup := 1301.      (* a second CONNACK on a connection *)
Definition V13_first_other := 1302.    (* a packet before the CONNACK *)
Definition V13_auth := 1303.           (* success CONNACK without an authentication hook allowing *)
Definition V13_invalid := 1304.        (* invalid first packet / invalid CONNECT: session, success, or not closed *)
Definition V14_sp := 1401.
Definition V14_keeps := 1402.
Definition V14_clean := 1403.
Definition V14_old_after := 1404.      (* packet on a connection after the broker closed it *)
Definition V14_old_takeover := 1405.   (* taken-over connection: not exactly DISCONNECT 0x8E then close *)
Definition V14_clean_hooks := 1406.    (* clean start: an in-flight record / subscription of the discarded session not reported dropped / unsubscribed *)
Definition V15_when := 1501.           (* session discarded although connected / before its expiry elapsed *)
Definition V15_late0 := 1502.          (* session with expiry 0 / MQTT 3 clean not discarded at disconnect *)
Definition V15_late := 1503.           (* expired session survives a housekeeping tick *)
Definition V15_connected := 1504.      (* a connected session is not registered *)
Definition V15_stale_index := 1505.    (* subscription in the index without a session holding it *)
Definition V15_unjustified := 1506.    (* a connection receives a message for a subscription its session never made *)
Definition V15_raise := 1507.          (* DISCONNECT raised a zero expiry *)
Definition V16_once := 1601.           (* will published again *)
Definition V16_after_normal := 1602.   (* will published after a normal DISCONNECT *)
Definition V16_cancelled := 1603.      (* will published although a resuming connection cancelled it *)
Definition V16_unexpected := 1604.     (* will published while its connection is alive / no will registered *)
Definition V16_content := 1605.
Definition V16_retain := 1606.         (* retained will not retained *)
Definition V16_early := 1607.          (* delayed will published before min(delay, session end) *)
Definition V16_missing := 1608.        (* will not published when the connection ended abnormally *)
Definition V16_late := 1609.           (* delayed will not published by the tick after its deadline *)
Definition V16_lost_clean := 1610.     (* pending will dropped by a clean-start connection (session ended: it must be sent) *)
Definition V16_missing_takeover := 1611.  (* taken-over connection's will not published by the end of its teardown *)

(* =====================================================================================
   C13 — first packet is exactly one CONNACK; success only if an auth hook allows; invalid first
   packet / invalid CONNECT never yields a session and the connection is closed after at most a
   failure CONNACK *)

(* CONNECT validity per MQTT 3.1.1 / 5.0 section 3.1 (what "violating the protocol" means here) *)
Definition connect_ok_spec (p : cparams) : bool :=
  negb (cp_trunc p) &&
  ((beq_bytes (cp_pname p) name_MQTT && ((cp_ver p =? 4) || (cp_ver p =? 5))) ||
   (beq_bytes (cp_pname p) name_MQIsdp && (cp_ver p =? 3))) &&                         (* 3.1.2.1, 3.1.2.2 *)
  negb (cp_reserved p) &&                                                                 (* MQTT-3.1.2-3 *)
  (cp_willflag p || ((cp_willqos p =? 0) && negb (cp_willretain p))) &&                   (* MQTT-3.1.2-11/13/15 *)
  (negb (cp_willflag p) || ((cp_willqos p <=? 2) && cp_willtopic_ok p)) &&                (* MQTT-3.1.2-14, will topic is a topic name *)
  ((cp_ver p =? 5) || negb (cp_passflag p) || cp_userflag p) &&                           (* MQTT-3.1.2-22 (3.1.1 only) *)
  ((cp_ver p =? 5) || negb (N.of_nat (length (cp_id p)) =? 0) || cp_clean p).             (* MQTT-3.1.3-7 (3.1.1) *)

Record m13 := { a_started : list N }.

Fixpoint m13_pkts (i : nat) (started : list N) (outs : list out) : list N * list viol :=
  match outs with
  | [] => (started, [])
  | OPkt c p :: r =>
      if is_connack p then
        if memN c started then let (st, v) := m13_pkts i started r in (st, mkv V13_first_dup i c [] :: v)
        else m13_pkts i (c :: started) r
      else
        let (st, v) := m13_pkts i started r in
        (st, if memN c started then v else mkv V13_first_other i c [] :: v)
  | _ :: r => m13_pkts i started r
  end.

Definition refused_ok (c : N) (b : obs) : bool :=
  (* nothing but at most one failure CONNACK, closed, and no session registered for the connection *)
  (match pkts_to c (b_outs b) with
   | [] => true
   | [PConnack code _] => negb (code =? 0)
   | _ => false
   end) && memN c (closes (b_outs b)) &&
  negb (existsb (fun r => sc_conn r =? c) (sn_clients (b_post b))).

Definition m13_step (i : nat) (m : m13) (b : obs) : m13 * list viol :=
  let (st, v1) := m13_pkts i (a_started m) (b_outs b) in
  let v2 := flat_map (fun o => match o with
                     | OPkt c (PConnack 0 _) =>
                         match b_op b with
                         | OConnect c' _ _ true _ => if c' =? c then [] else [mkv V13_auth i c []]
                         | _ => [mkv V13_auth i c []]
                         end
                     | _ => [] end) (b_outs b) in
  let v3 := match b_op b with
            | OBadFirst c _ => if refused_ok c b then [] else [mkv V13_invalid i c []]
            | OConnect c _ p _ id => if connect_ok_spec p || refused_ok c b then [] else [mkv V13_invalid i c id]
            | _ => [] end in
  ({| a_started := st |}, v1 ++ v2 ++ v3).

(* =====================================================================================
   C14 — session present, resume keeps, clean start drops, taken-over connection silent *)

(* a session that outlives its network connection *)
Definition persistent (r : sclient) : bool :=
  ((sc_ver r <? 5) && negb (sc_clean r)) || ((sc_ver r =? 5) && (0 <? sc_sei r)).

Record m14 := { b_closed : list N }.

Definition m14_step (i : nat) (m : m14) (b : obs) : m14 * list viol :=
  let v_after := flat_map (fun o => match o with
                          | OPkt c _ => if memN c (b_closed m) then [mkv V14_old_after i c []] else []
                          | _ => [] end) (b_outs b) in
  let v_conn :=
    match b_op b with
    | OConnect c _ p _ id =>
        match success_connack (pkts_to c (b_outs b)) with
        | None => []
        | Some sp =>
            let pre := find_client id (sn_clients (b_pre b)) in
            let post := find_client id (sn_clients (b_post b)) in
            (* session present = a session existed && !clean.  A session that ends with the connection being
               taken over (MQTT 5 expiry 0, still connected) is the documented don't-care case. *)
            let must1 := match pre with Some r => negb (cp_clean p) && persistent r | None => false end in
            let must0 := match pre with
                         | Some r => cp_clean p || ((sc_ver r <? 5) && sc_clean r)
                         | None => true end in
            (if (must1 && negb sp) || (must0 && sp) then [mkv V14_sp i c id] else []) ++
            (if sp then
               match pre, post with
               | Some r, Some r' =>
                   if (sc_conn r' =? c) && subB (sc_subs r) (sc_subs r') &&
                      forallb (fun f => existsb (fun e => beq_bytes (fst (fst e)) id && beq_bytes (snd (fst e)) f)
                                                (sn_index (b_post b))) (sc_subs r) &&
                      msubB (sc_infl r) (sc_infl r')
                   then [] else [mkv V14_keeps i c id]
               | _, _ => [mkv V14_keeps i c id]
               end
             else []) ++
            (if cp_clean p then
               match post with
               | Some r' =>
                   if (sc_conn r' =? c) && (match sc_subs r' with [] => true | _ => false end) &&
                      (match sc_infl r' with [] => true | _ => false end) &&
                      negb (existsb (fun e => beq_bytes (fst (fst e)) id) (sn_index (b_post b)))
                   then [] else [mkv V14_clean i c id]
               | None => [mkv V14_clean i c id]
               end
             else []) ++
            (* the discarded session is reported to the hooks (so that a store can forget it): every
               unacknowledged message dropped, every subscription unsubscribed *)
            (match pre with
             | Some r =>
                 if cp_clean p || ((sc_ver r <? 5) && sc_clean r) then
                   let dropped := flat_map (fun h => match h with HDropped i pl => if beq_bytes i id then [pl] else [] | _ => [] end) (b_hooks b) in
                   let unsub := flat_map (fun h => match h with HUnsub i f => if beq_bytes i id then [f] else [] | _ => [] end) (b_hooks b) in
                   if msubB (sc_infl r) dropped && subB (sc_subs r) unsub then [] else [mkv V14_clean_hooks i c id]
                 else []
             | None => [] end) ++
            (* the connection that held the identifier: DISCONNECT 0x8E (MQTT 5) and nothing else, then closed *)
            (match pre with
             | Some r =>
                 if sc_open r && negb (sc_conn r =? c) then
                   let e := sc_conn r in
                   let pk := pkts_to e (b_outs b) in
                   let okp := if sc_ver r =? 5 then match pk with [PDisconnect 142] => true | _ => false end
                              else match pk with [] => true | [PDisconnect _] => true | _ => false end in
                   if okp && memN e (closes (b_outs b)) then [] else [mkv V14_old_takeover i e id]
                 else []
             | None => [] end)
        end
    | _ => [] end in
  ({| b_closed := closes (b_outs b) ++ b_closed m |}, v_after ++ v_conn).

(* =====================================================================================
   spec-level view of the accepted connections, shared by C15 and C16: built from the operations
   and the CONNACKs only *)
Inductive wstatus :=
| WNone                       (* no will *)
| WArmed                      (* connection alive, will registered *)
| WMust                       (* taken over: the will is due by the end of the connection's teardown *)
| WPending (tend due : Z)     (* connection ended abnormally at tend; will due at due = tend + min(delay, session expiry) *)
| WPublished | WNormal | WCancelled | WFailed.   (* final: published / discarded by a normal DISCONNECT / cancelled by a resuming connection / already reported *)

Record sconn := {
  x_conn : N; x_id : bytes; x_ver : N; x_clean : bool;
  x_req : N;          (* session expiry interval of the session, MQTT 5: as requested by CONNECT / DISCONNECT, capped by the server maximum *)
  x_open : bool;      (* the broker has not closed the connection *)
  x_end : option Z;   (* when the connection ended *)
  x_will : msg; x_delay : N; x_wst : wstatus }.

Definition x_with (x : sconn) (req : N) (open : bool) (e : option Z) (w : wstatus) : sconn :=
  {| x_conn := x_conn x; x_id := x_id x; x_ver := x_ver x; x_clean := x_clean x; x_req := req; x_open := open;
     x_end := e; x_will := x_will x; x_delay := x_delay x; x_wst := w |}.

Fixpoint find_x (c : N) (l : list sconn) : option sconn :=
  match l with [] => None | x :: r => if x_conn x =? c then Some x else find_x c r end.
Fixpoint put_x (x : sconn) (l : list sconn) : list sconn :=
  match l with [] => [x] | y :: r => if x_conn y =? x_conn x then x :: r else y :: put_x x r end.

(* the expiry interval the property prescribes for the session of connection x *)
Definition eff (k : caps) (x : sconn) : N :=
  if x_ver x =? 5 then x_req x else if x_clean x then 0 else k_maxsei k.

Definition capN (k : caps) (v : N) : N := if k_maxsei k <? v then k_maxsei k else v.

(* new connection accepted *)
Definition x_new (k : caps) (c : N) (p : cparams) (id : bytes) : sconn :=
  {| x_conn := c; x_id := id; x_ver := cp_ver p; x_clean := cp_clean p;
     x_req := if cp_seiflag p then capN k (cp_sei p) else 0; x_open := true; x_end := None;
     x_will := {| m_topic := cp_willtopic p; m_payload := cp_willpayload p; m_qos := cp_willqos p; m_retain := cp_willretain p |};
     x_delay := if cp_ver p =? 5 then cp_willdelay p else 0;
     x_wst := if cp_willflag p then WArmed else WNone |}.

(* the session expiry after a DISCONNECT carrying the property: a zero interval cannot be raised *)
Definition req_after (k : caps) (x : sconn) (sei : option N) : N :=
  match sei with
  | Some v => if (0 <? v) && (x_req x =? 0) then x_req x else capN k v
  | None => x_req x
  end.
Definition raise_attempt (x : sconn) (sei : option N) : bool :=
  match sei with Some v => (0 <? v) && (x_req x =? 0) | None => false end.

(* is this operation the end of connection c (its own doing), and is it a normal DISCONNECT? *)
Definition ends_conn (o : op) : option (N * Z * bool) :=
  match o with
  | ODisconnect c t rc sei => Some (c, t, rc =? 0)
  | ONetClose c t => Some (c, t, false)
  | OSecondConnect c t => Some (c, t, false)
  | _ => None
  end.

(* =====================================================================================
   C15 *)
Record m15 := { c_conns : list sconn; c_jsubs : list (bytes * list bytes) }.

Definition jsubs_of (id : bytes) (j : list (bytes * list bytes)) : list bytes :=
  match aget id j with Some l => l | None => [] end.

Definition registered_as (c : N) (id : bytes) (s : snap) : bool :=
  match find_client id (sn_clients s) with Some r => sc_conn r =? c | None => false end.

(* 1. the spec view updated with this operation *)
Definition m15_conns1 (k : caps) (m : m15) (b : obs) : list sconn :=
    match b_op b with
    | OConnect c _ p _ id =>
        match success_connack (pkts_to c (b_outs b)) with
        | Some _ => put_x (x_new k c p id) (c_conns m)
        | None => c_conns m
        end
    | ODisconnect c t rc sei =>
        match find_x c (c_conns m) with
        | Some x => if x_open x then put_x (x_with x (if x_ver x =? 5 then req_after k x sei else x_req x) (x_open x) (Some t) (x_wst x)) (c_conns m)
                    else c_conns m
        | None => c_conns m end
    | ONetClose c t | OSecondConnect c t =>
        match find_x c (c_conns m) with
        | Some x => if x_open x then put_x (x_with x (x_req x) (x_open x) (Some t) (x_wst x)) (c_conns m) else c_conns m
        | None => c_conns m end
    | _ => c_conns m
    end.

(* connections the broker closed in this step (takeover: the end time is the time of the connect) *)
Definition m15_conns2 (k : caps) (m : m15) (b : obs) : list sconn :=
  map (fun x => if x_open x && memN (x_conn x) (closes (b_outs b))
                then x_with x (x_req x) false (match x_end x with Some t => Some t | None => op_now (b_op b) end) (x_wst x)
                else x) (m15_conns1 k m b).

(* 2. discards: identifiers registered before and not after *)
Definition m15_gone (b : obs) : list sclient :=
  filter (fun r => negb (has_client (sc_id r) (sn_clients (b_post b)))) (sn_clients (b_pre b)).

(* 7. the subscriptions that justify deliveries: made by the current session of the identifier *)
Definition m15_j1 (m : m15) (b : obs) : list (bytes * list bytes) :=
  match b_op b with
  | OConnect c _ _ _ id =>
      match success_connack (pkts_to c (b_outs b)) with
      | Some false => aset id [] (c_jsubs m)
      | _ => c_jsubs m end
  | OSubscribe c f _ =>
      match find_x c (c_conns m) with
      | Some x => if x_open x then aset (x_id x) (f :: jsubs_of (x_id x) (c_jsubs m)) (c_jsubs m) else c_jsubs m
      | None => c_jsubs m end
  | _ => c_jsubs m end.

Definition m15_vjust (i : nat) (conns1 : list sconn) (j1 : list (bytes * list bytes)) (outs : list out) : list viol :=
  flat_map (fun o => match o with
      | OPkt c (PPublish mm _) =>
          match find_x c conns1 with
          | Some x => if memB (m_topic mm) (jsubs_of (x_id x) j1) then [] else [mkv V15_unjustified i c (x_id x)]
          | None => [mkv V15_unjustified i c []]
          end
      | _ => [] end) outs.

Definition m15_j2 (gone : list sclient) (j1 : list (bytes * list bytes)) : list (bytes * list bytes) :=
  fold_left (fun j r => aset (sc_id r) [] j) gone j1.

Definition m15_step (k : caps) (i : nat) (m : m15) (b : obs) : m15 * list viol :=
  let pre := sn_clients (b_pre b) in
  let post := sn_clients (b_post b) in
  let conns1 := m15_conns1 k m b in
  let conns2 := m15_conns2 k m b in
  (* 2. discards: identifiers registered before and not after *)
  let gone := m15_gone b in
  let v_when := flat_map (fun r =>
      let okay :=
        match find_x (sc_conn r) conns2 with
        | None => false
        | Some x =>
            match b_op b with
            | OTickClients now =>
                negb (x_open x) && match x_end x with Some t => (Z.of_N (eff k x) <=? now - t)%Z | None => false end
            | o => match op_conn o with
                   | Some c => (c =? x_conn x) && negb (x_open x) && (eff k x =? 0) &&
                               match o with OConnect _ _ _ _ _ | OBadFirst _ _ | OSubscribe _ _ _ | OPublish _ _ => false | _ => true end
                   | None => false end
            end
        end in
      if okay then [] else [mkv V15_when i (sc_conn r) (sc_id r)]) gone in
  (* 3. liveness at the end of the connection: expiry 0 / MQTT 3 clean session is discarded at once *)
  let v_late0 :=
    match b_op b with
    | ODisconnect c _ _ _ | ONetClose c _ | OSecondConnect c _ | OTeardown c _ =>
        match find_x c conns2 with
        | Some x =>
            if negb (x_open x) && (eff k x =? 0) && registered_as c (x_id x) (b_pre b) && registered_as c (x_id x) (b_post b)
            then [mkv (match b_op b with
                       | ODisconnect _ _ _ sei => match find_x c (c_conns m) with
                                                  | Some x0 => if raise_attempt x0 sei then V15_raise else V15_late0
                                                  | None => V15_late0 end
                       | _ => V15_late0 end) i c (x_id x)]
            else []
        | None => [] end
    | _ => [] end in
  (* 4. liveness at a housekeeping tick *)
  let v_late :=
    match b_op b with
    | OTickClients now =>
        flat_map (fun r =>
          match find_x (sc_conn r) conns2 with
          | Some x =>
              if negb (x_open x) && has_client (sc_id r) post &&
                 match x_end x with Some t => (Z.of_N (eff k x) <? now - t)%Z | None => false end
              then [mkv V15_late i (sc_conn r) (sc_id r)] else []
          | None => [] end) pre
    | _ => [] end in
  (* 5. a connected session is registered *)
  let v_conn := flat_map (fun x => if x_open x && negb (registered_as (x_conn x) (x_id x) (b_post b))
                                   then [mkv V15_connected i (x_conn x) (x_id x)] else []) conns2 in
  (* 6. nothing left: every index entry belongs to a registered session that holds the subscription *)
  let v_index := flat_map (fun e =>
      let id := fst (fst e) in let f := snd (fst e) in
      match find_client id post with
      | Some r => if memB f (sc_subs r) then [] else [mkv V15_stale_index i (sc_conn r) id]
      | None => [mkv V15_stale_index i 0 id]
      end) (sn_index (b_post b)) in
  (* 7. nothing left, behaviourally: deliveries are justified by subscriptions of the current session *)
  let j1 := m15_j1 m b in
  let v_just := m15_vjust i conns1 j1 (b_outs b) in
  let j2 := m15_j2 gone j1 in
  ({| c_conns := conns2; c_jsubs := j2 |}, v_when ++ v_late0 ++ v_late ++ v_conn ++ v_index ++ v_just).

(* =====================================================================================
   C16 *)
Record m16 := { d_conns : list sconn }.

Definition set_wst (x : sconn) (w : wstatus) : sconn := x_with x (x_req x) (x_open x) (x_end x) w.

(* will publications observed in this step, checked against the status of the connection that registered them *)
Fixpoint m16_pubs (k : caps) (i : nat) (b : obs) (conns : list sconn) (ws : list (N * msg)) : list sconn * list viol :=
  match ws with
  | [] => (conns, [])
  | (c, mm) :: r =>
      match find_x c conns with
      | None => let (cs, v) := m16_pubs k i b conns r in (cs, mkv V16_unexpected i c [] :: v)
      | Some x =>
          let v_status :=
            match x_wst x with
            | WPublished | WFailed => [mkv V16_once i c (x_id x)]
            | WNormal => [mkv V16_after_normal i c (x_id x)]
            | WCancelled => [mkv V16_cancelled i c (x_id x)]
            | WNone => [mkv V16_unexpected i c (x_id x)]
            | WArmed => [mkv V16_unexpected i c (x_id x)]     (* replaced below when the connection ends in this step *)
            | WMust => []
            | WPending _ due =>
                match op_now (b_op b) with
                | Some now => if (due <=? now)%Z then [] else [mkv V16_early i c (x_id x)]
                | None => [mkv V16_unexpected i c (x_id x)]
                end
            end in
          let v_content := if beq_msg mm (x_will x) then [] else [mkv V16_content i c (x_id x)] in
          let v_retain :=
            (* unless a later retained will of this very step replaced it on the same topic *)
            if m_retain mm && k_retain k &&
               negb (existsb (fun w => beq_bytes (m_topic (snd w)) (m_topic mm) && m_retain (snd w)) r) then
              match aget (m_topic mm) (sn_retained (b_post b)) with
              | Some pl => if beq_bytes pl (m_payload mm) then [] else [mkv V16_retain i c (x_id x)]
              | None => match m_payload mm with [] => [] | _ => [mkv V16_retain i c (x_id x)] end   (* an empty payload clears the topic *)
              end
            else [] in
          let (cs, v) := m16_pubs k i b (put_x (set_wst x WPublished) conns) r in
          (cs, v_status ++ v_content ++ v_retain ++ v)
      end
  end.

Definition minZ (a b : Z) : Z := if (a <? b)%Z then a else b.

Definition published_in (ws : list (N * msg)) (c : N) : bool := existsb (fun w => fst w =? c) ws.

(* 1. the connection's own end: decide what has to happen to its will *)
Definition m16_end (k : caps) (i : nat) (conns : list sconn) (b : obs) : list sconn * list viol :=
  let ws := wills_of (b_outs b) in
    match ends_conn (b_op b) with
    | Some (c, t, normal0) =>
        match find_x c conns with
        | Some x =>
            if x_open x then
              let sei := match b_op b with ODisconnect _ _ _ s => if x_ver x =? 5 then s else None | _ => None end in
              let normal := normal0 && negb (raise_attempt x sei) in
              let x1 := x_with x (if x_ver x =? 5 then req_after k x sei else x_req x) (x_open x) (Some t) (x_wst x) in
              match x_wst x with
              | WArmed =>
                  if normal then (put_x (set_wst x1 WNormal) conns, [])
                  else
                    let d := minN (x_delay x) (eff k x1) in
                    if d =? 0 then
                      (* due now: it must be among this step's publications (checked by giving it the status WMust) *)
                      (put_x (set_wst x1 WMust) conns,
                       if published_in ws c then [] else [mkv V16_missing i c (x_id x)])
                    else (put_x (set_wst x1 (WPending t (t + Z.of_N d)%Z)) conns, [])
              | _ => (put_x x1 conns, [])
              end
            else (conns, [])
        | None => (conns, [])
        end
    | None => (conns, [])
    end.

(* 2. a new connection is accepted: takeover of a live connection, cancellation / session end for pending wills *)
Definition m16_takeover (k : caps) (ws : list (N * msg)) (c : N) (p : cparams) (id : bytes) (x : sconn) : sconn :=
  if beq_bytes (x_id x) id && negb (x_conn x =? c) then
    match x_wst x with
    | WArmed => if x_open x then
                  (* taken over: the will is due (by the end of its teardown) unless it is delayed - by
                     min(delay, session expiry) - and the session is resumed *)
                  if negb (cp_clean p) && (0 <? minN (x_delay x) (eff k x)) then set_wst x WCancelled else set_wst x WMust
                else x
    | WPending _ _ => if cp_clean p then (if published_in ws (x_conn x) then x else set_wst x WFailed) else set_wst x WCancelled
    | _ => x
    end
  else x.

Definition m16_new (k : caps) (i : nat) (conns1 : list sconn) (b : obs) : list sconn * list viol :=
  let ws := wills_of (b_outs b) in
    match b_op b with
    | OConnect c t p _ id =>
        match success_connack (pkts_to c (b_outs b)) with
        | Some _ =>
            let step1 := map (m16_takeover k ws c p id) conns1 in
            let v := flat_map (fun x =>
                if beq_bytes (x_id x) id && negb (x_conn x =? c) && cp_clean p && negb (published_in ws (x_conn x)) then
                  match x_wst x with WPending _ _ => [mkv V16_lost_clean i (x_conn x) id] | _ => [] end
                else []) conns1 in
            (put_x (x_new k c p id) step1, v)
        | None => (conns1, [])
        end
    | _ => (conns1, [])
    end.

(* 4. deadlines *)
Definition m16_dead (i : nat) (conns3 : list sconn) (b : obs) : list sconn * list viol :=
    match b_op b with
    | OTeardown c _ =>
        match find_x c conns3 with
        | Some x => match x_wst x with
                    | WMust => (put_x (set_wst x WFailed) conns3, [mkv V16_missing_takeover i c (x_id x)])
                    | _ => (conns3, []) end
        | None => (conns3, []) end
    | OTickWill now =>
        (map (fun x => match x_wst x with
                       | WPending _ due => if (due <? now)%Z then set_wst x WFailed else x
                       | _ => x end) conns3,
         flat_map (fun x => match x_wst x with
                            | WPending _ due => if (due <? now)%Z then [mkv V16_late i (x_conn x) (x_id x)] else []
                            | _ => [] end) conns3)
    | _ =>
        (* a will that was due in this very step (status WMust set in 1) and was not published has been reported *)
        (map (fun x => match x_wst x, ends_conn (b_op b) with
                       | WMust, Some (c, _, _) => if (c =? x_conn x) && x_open x then set_wst x WFailed else x
                       | _, _ => x end) conns3, [])
    end.

(* connections closed by the broker *)
Definition m16_mark (b : obs) (x : sconn) : sconn :=
  if x_open x && memN (x_conn x) (closes (b_outs b))
  then x_with x (x_req x) false (match x_end x with Some t => Some t | None => op_now (b_op b) end) (x_wst x)
  else x.

Definition m16_step (k : caps) (i : nat) (m : m16) (b : obs) : m16 * list viol :=
  let ws := wills_of (b_outs b) in
  let (conns1, v_end) := m16_end k i (d_conns m) b in
  let (conns2, v_new) := m16_new k i conns1 b in
  (* 3. publications *)
  let (conns3, v_pub) := m16_pubs k i b conns2 ws in
  let (conns4, v_dead) := m16_dead i conns3 b in
  let conns5 := map (m16_mark b) conns4 in
  ({| d_conns := conns5 |}, v_end ++ v_new ++ v_pub ++ v_dead).

(* ---------- running a monitor over a history ---------- *)
Fixpoint run_mon {M} (stepf : nat -> M -> obs -> M * list viol) (i : nat) (m : M) (h : list obs) : list viol :=
  match h with
  | [] => []
  | b :: r => let (m', v) := stepf i m b in v ++ run_mon stepf (S i) m' r
  end.

Definition mon13 (h : list obs) : list viol := run_mon m13_step 0 {| a_started := [] |} h.
Definition mon14 (h : list obs) : list viol := run_mon m14_step 0 {| b_closed := [] |} h.
Definition mon15 (k : caps) (h : list obs) : list viol := run_mon (m15_step k) 0 {| c_conns := []; c_jsubs := [] |} h.
Definition mon16 (k : caps) (h : list obs) : list viol := run_mon (m16_step k) 0 {| d_conns := [] |} h.
