(* Engines for C03 / C04 / C05 / C06 / C40: parse one step of a routing history as emitted by
   harness/cmd/hx/eng_route.go, replay the operations before the step on the component model
   (Session/Deliver.v), compare what the real broker delivered with the model (code 2) and run the
   specification monitors of the property on the observation (code 1 / code 3 + known finding).
   case = (cfg prefix op obs)
     cfg    = (maxqos retain_available ((client topic) ...))          read-deny list
     op     = (1 c ver clean persist rpi0) | (2 c) | (3 c ((filter qos nolocal rap rh id) ...)) | (4 c (filter ...))
            | (5 c topic payload qos retain ct rt cd ((k v) ...)) | (6 topic payload qos retain ct rt cd user)
            | (7 id filter) | (8 id filter)
     obs    = (((c ((topic payload qos retain (ids) ct rt cd user) ...)) ...)      PUBLISH packets per client
               ((id filter topic payload qos retain) ...)                          inline handler calls
               (c ...)  (code ...)  hung)                                           drop events, SUBACK codes
   No proofs in this file. *)
From MV Require Import Base.Val Topics.Levels Topics.Match Topics.Alist Session.Pkt Session.Deliver.
Open Scope N_scope.

(* ---------- parsers ---------- *)
Definition as_subopt (v : val) : option (bytes * subopt) :=
  match v with
  | VL [VB f; VN q; nl; rap; VN rh; VN id] =>
      do nl' <- as_bool nl; do rap' <- as_bool rap; Some (f, mkSO q nl' rap' rh id)
  | _ => None
  end.

Definition as_msg (l : list val) : option msg :=
  match l with
  | [VB t; VB p; VN q; r; VB ct; VB rt; VB cd; VL user] =>
      do r' <- as_bool r; do u <- map_opt as_user user; Some (mkMsg t p q r' (mkMP ct rt cd u) [])
  | _ => None
  end.

Definition as_op (v : val) : option op :=
  match v with
  | VL [VN 1; VB c; VN ver; clean; persist; rpi0] =>
      do a <- as_bool clean; do b <- as_bool persist; do r <- as_bool rpi0; Some (OConnect c ver a b r)
  | VL [VN 2; VB c] => Some (ODisconnect c)
  | VL [VN 3; VB c; VL subs] => do l <- map_opt as_subopt subs; Some (OSubscribe c l)
  | VL [VN 4; VB c; VL fs] => do l <- map_opt as_B fs; Some (OUnsubscribe c l)
  | VL (VN 5 :: VB c :: rest) => do m <- as_msg rest; Some (OPublish c m)
  | VL (VN 6 :: rest) => do m <- as_msg rest; Some (OInlinePublish m)
  | VL [VN 7; VN id; VB f] => Some (OInlineSubscribe id f)
  | VL [VN 8; VN id; VB f] => Some (OInlineUnsubscribe id f)
  | _ => None
  end.

Definition as_pub (c : cid) (v : val) : option delivery :=
  match v with
  | VL [VB t; VB p; VN q; r; ids; VB ct; VB rt; VB cd; VL user] =>
      do r' <- as_bool r; do ids' <- as_NL ids; do u <- map_opt as_user user;
      Some (mkD (TClient c) t p q r' ids' (mkMP ct rt cd u))
  | _ => None
  end.
Definition as_recv (v : val) : option (cid * list delivery) :=
  match v with VL [VB c; VL pubs] => do l <- map_opt (as_pub c) pubs; Some (c, l) | _ => None end.
Definition as_inline_ev (v : val) : option delivery :=
  match v with
  | VL [VN id; VB f; VB t; VB p; VN q; r] => do r' <- as_bool r; Some (mkD (TInline id) t p q r' [] mp_none)
  | _ => None
  end.

Record obs := mkObs { ob_recv : list (cid * list delivery); ob_inline : list delivery; ob_drops : list cid;
                      ob_codes : list N; ob_hung : bool }.
Definition as_obs (v : val) : option obs :=
  match v with
  | VL [VL recv; VL il; VL drops; codes; hung] =>
      do r <- map_opt as_recv recv; do i <- map_opt as_inline_ev il; do d <- map_opt as_B drops;
      do c <- as_NL codes; do h <- as_bool hung; Some (mkObs r i d c h)
  | _ => None
  end.

Definition as_deny (v : val) : option (cid * bytes) := match v with VL [VB c; VB t] => Some (c, t) | _ => None end.
Definition as_cfg (v : val) : option state :=
  match v with
  | VL [VN mq; ra; VL deny] => do ra' <- as_bool ra; do d <- map_opt as_deny deny; Some (init mq ra' d)
  | _ => None
  end.

(* ---------- multisets of deliveries ---------- *)
Fixpoint beq_list {A} (eqb : A -> A -> bool) (a b : list A) : bool :=
  match a, b with [], [] => true | x :: a', y :: b' => eqb x y && beq_list eqb a' b' | _, _ => false end.
Definition beq_kv (a b : bytes * bytes) : bool := beq_bytes (fst a) (fst b) && beq_bytes (snd a) (snd b).
Definition beq_mprops (a b : mprops) : bool :=
  beq_bytes (mp_ct a) (mp_ct b) && beq_bytes (mp_rt a) (mp_rt b) && beq_bytes (mp_cd a) (mp_cd b)
  && beq_list beq_kv (mp_user a) (mp_user b).
Definition beq_target (a b : target) : bool :=
  match a, b with TClient x, TClient y => beq_bytes x y | TInline x, TInline y => x =? y | _, _ => false end.
Definition beq_delivery (a b : delivery) : bool :=
  beq_target (d_to a) (d_to b) && beq_bytes (d_topic a) (d_topic b) && beq_bytes (d_payload a) (d_payload b)
  && (d_qos a =? d_qos b) && Bool.eqb (d_retain a) (d_retain b) && beq_list N.eqb (d_ids a) (d_ids b)
  && beq_mprops (d_props a) (d_props b).

Fixpoint remove_first {A} (eqb : A -> A -> bool) (x : A) (l : list A) : option (list A) :=
  match l with
  | [] => None
  | y :: r => if eqb x y then Some r else match remove_first eqb x r with Some r' => Some (y :: r') | None => None end
  end.
Fixpoint mset_eq {A} (eqb : A -> A -> bool) (a b : list A) : bool :=
  match a with
  | [] => nilb b
  | x :: a' => match remove_first eqb x b with Some b' => mset_eq eqb a' b' | None => false end
  end.

(* inline handler calls are recorded without the message properties *)
Definition norm_delivery (d : delivery) : delivery :=
  match d_to d with
  | TInline _ => mkD (d_to d) (d_topic d) (d_payload d) (d_qos d) (d_retain d) [] mp_none
  | TClient _ => d
  end.

Definition observed (o : obs) : list delivery := flat_map snd (ob_recv o) ++ ob_inline o.
Definition same_deliveries (model : list delivery) (o : obs) : bool :=
  mset_eq beq_delivery (map norm_delivery model) (observed o).

(* ---------- oracle enumeration ---------- *)
Fixpoint group_cands (gk : bytes -> bytes) (cands : list (bytes * cid)) (acc : list (bytes * list (bytes * cid)))
  : list (bytes * list (bytes * cid)) :=
  match cands with
  | [] => acc
  | kc :: r =>
      let g := gk (fst kc) in
      group_cands gk r (match al_get beq_bytes g acc with
                        | Some l => al_set beq_bytes g (l ++ [kc]) acc
                        | None => acc ++ [(g, [kc])]
                        end)
  end.
Fixpoint product {A} (ls : list (list A)) : list (list A) :=
  match ls with [] => [[]] | l :: r => flat_map (fun x => map (cons x) (product r)) l end.
Definition oracles (gk : bytes -> bytes) (s : state) (t : bytes) : list oracle :=
  product (map snd (group_cands gk (shared_cands s t) [])).
Definition key_oracles := oracles (fun k => k).            (* groups as the code defines them: full filter *)
Definition name_oracles := oracles share_group.            (* groups as the property defines them: share name *)

(* ---------- replay ---------- *)
Definition run_ops (s : state) (ops : list op) : state := fold_left (fun s o => fst (step [] [] s o)) ops s.

(* monitor results *)
Inductive mres := MOk | MKf (name : bytes) | MFail.
Definition mand (a b : mres) : mres :=
  match a, b with MFail, _ | _, MFail => MFail | MKf n, _ => MKf n | _, MKf n => MKf n | MOk, MOk => MOk end.
Definition mor (a b : mres) : mres :=          (* best of two alternatives *)
  match a, b with MOk, _ | _, MOk => MOk | MKf n, _ => MKf n | _, MKf n => MKf n | MFail, MFail => MFail end.
Definition mall {A} (f : A -> mres) (l : list A) : mres := fold_left (fun acc x => mand acc (f x)) l MOk.
Definition many {A} (f : A -> mres) (l : list A) : mres := fold_left (fun acc x => mor acc (f x)) l MFail.
Definition mbool (b : bool) : mres := if b then MOk else MFail.

Definition recv_of (o : obs) (c : cid) : list delivery :=
  flat_map (fun e => if beq_bytes (fst e) c then snd e else []) (ob_recv o).
Definition known_clients (s : state) (o : obs) : bool :=
  forallb (fun e => nilb (snd e) || al_mem beq_bytes (fst e) (st_clients s)) (ob_recv o).

Definition perm_eqN (a b : list N) : bool := mset_eq N.eqb a b.

(* the message of a publish operation as the server accepts it *)
Definition pub_msg (o : op) : option msg := pub_of o.

(* ---------- C04 monitors ---------- *)
Definition c04_delivery_ok (s : state) (m : msg) (cl : client) (l : list (bytes * subopt)) (d : delivery) : bool :=
  nilb l ||
  ((d_qos d =? spec_qos (st_maxqos s) (m_qos m) l)
   && (if cl_ver cl =? 5 then perm_eqN (d_ids d) (spec_ids l) else nilb (d_ids d))
   && Bool.eqb (d_retain d) (spec_retain (cl_ver cl) (m_retain m) l)).

Definition c04_publish (s : state) (m : msg) (o : obs) (orc : oracle) : mres :=
  mbool (forallb (fun e =>
           match get_client s (fst e) with
           | Some cl => forallb (c04_delivery_ok s m cl (ent_subs (fst e) cl (m_topic m) orc)) (snd e)
           | None => nilb (snd e)
           end) (ob_recv o)).

(* accepted subscriptions of a SUBSCRIBE according to the protocol: valid filter, not shared + No Local, readable *)
Definition spec_sub_ok (s : state) (c : cid) (fo : bytes * subopt) : bool :=
  valid_filter_spec (fst fo) && negb (so_nolocal (snd fo) && is_share (fst fo)) && negb (denied s c (fst fo)).

Definition c04_granted_ok (s : state) (c : cid) (subs : list (bytes * subopt)) (codes : list N) : bool :=
  Nat.eqb (length subs) (length codes) &&
  forallb (fun e => let '(fo, code) := e in
                    if spec_sub_ok s c fo then code =? spec_granted (st_maxqos s) (so_qos (snd fo)) else 128 <=? code)
          (zip subs codes).

Definition c04_retained_ok (s : state) (h : list op) (c : cid) (cl : client) (subs : list (bytes * subopt)) (d : delivery) : bool :=
  existsb (fun fo =>
    spec_sub_ok s c fo && negb (is_share (fst fo)) && topic_matches (fst fo) (d_topic d) &&
    match latest (st_retain_avail s) (st_maxqos s) h (d_topic d) None with
    | Some mr =>
        (d_qos d =? N.min (m_qos mr) (N.min (so_qos (snd fo)) (st_maxqos s)))
        && (if cl_ver cl =? 5 then beq_list N.eqb (d_ids d) (if pos (so_id (snd fo)) then [so_id (snd fo)] else [])
            else nilb (d_ids d))
        && d_retain d
    | None => false
    end) subs.

Definition c04_subscribe (s : state) (h : list op) (c : cid) (subs : list (bytes * subopt)) (o : obs) : mres :=
  match get_client s c with
  | Some cl =>
      mbool (c04_granted_ok s c subs (ob_codes o) && forallb (c04_retained_ok s h c cl subs) (recv_of o c))
  | None => MOk
  end.

(* ---------- C03 monitor ---------- *)
Definition c03_client (s : state) (m : msg) (o : obs) (orc : oracle) (e : cid * client) : mres :=
  let '(c, cl) := e in
  let l := ent_subs c cl (m_topic m) orc in
  let got := recv_of o c in
  let want := if spec_entitled s c cl m l && negb (existsb (beq_bytes c) (ob_drops o)) then 1%nat else 0%nat in
  let fields := forallb (fun d => beq_bytes (d_topic d) (m_topic m) && beq_bytes (d_payload d) (m_payload m)
                                  && ((cl_ver cl <? 5) || beq_mprops (d_props d) (m_props m))) got in
  if Nat.eqb (length got) want && fields then MOk
  else if fields && KF_C03_nolocal_merge c m l && cl_conn cl && negb (denied s c (m_topic m)) && nilb got
       then MKf (tag "KF_C03_nolocal_merge")
  else MFail.

Definition c03_publish (s : state) (m : msg) (o : obs) (orc : oracle) : mres :=
  mand (mbool (known_clients s o)) (mall (c03_client s m o orc) (st_clients s)).

(* ---------- C06 monitor ---------- *)
(* per client: at most one copy, and exactly the clients entitled under the chosen members receive one.
   The No Local merge finding (C03-1) is tolerated here: it is reported by C03. *)
Definition c06_client (s : state) (m : msg) (o : obs) (orc : oracle) (e : cid * client) : bool :=
  let '(c, cl) := e in
  let l := ent_subs c cl (m_topic m) orc in
  let n := length (recv_of o c) in
  let want := if spec_entitled s c cl m l && negb (existsb (beq_bytes c) (ob_drops o)) then 1%nat else 0%nat in
  (* attribution: the copy must carry the identifiers and the QoS of exactly the subscriptions the client was
     chosen for (a member chosen for a group shows that group's identifier / QoS), so a group served through two
     members, or through none, cannot be explained by any choice of one member per group *)
  Nat.leb n 1 && (Nat.eqb n want || KF_C03_nolocal_merge c m l)
  && forallb (c04_delivery_ok s m cl l) (recv_of o c).

Definition c06_publish (s : state) (m : msg) (o : obs) : mres :=
  let t := m_topic m in
  if existsb (fun orc => forallb (c06_client s m o orc) (st_clients s)) (name_oracles s t) then MOk
  else if KF_C06_group_by_filter s t
          && existsb (fun orc => forallb (c06_client s m o orc) (st_clients s)) (key_oracles s t)
       then MKf (tag "KF_C06_group_by_filter")
  else MFail.

(* ---------- C05 monitor ---------- *)
Fixpoint topics_of (h : list op) : list bytes :=
  match h with
  | [] => []
  | o :: r => match pub_of o with Some m => m_topic m :: topics_of r | None => topics_of r end
  end.

(* what a SUBSCRIBE must be answered with from the retained store: per accepted non-shared filter whose
   Retain Handling allows it, the latest retained message of every matching topic *)
Fixpoint c05_expected (s : state) (h : list op) (c : cid) (cur : list bytes) (subs : list (bytes * subopt))
  : list (bytes * bytes) :=
  match subs with
  | [] => []
  | fo :: r =>
      if spec_sub_ok s c fo then
        let existed := existsb (beq_bytes (fst fo)) cur in
        (if negb (is_share (fst fo)) && rh_sends (so_rh (snd fo)) existed then
           flat_map (fun t =>
             match latest (st_retain_avail s) (st_maxqos s) h t None with
             | Some mr => if topic_matches (fst fo) t && negb (denied s c t)
                             && negb (so_nolocal (snd fo) && beq_bytes (m_origin mr) c)
                          then [(t, m_payload mr)] else []
             | None => []
             end) (nodup_b (topics_of h))
         else [])
        ++ c05_expected s h c (fst fo :: cur) r
      else c05_expected s h c cur r
  end.

Definition c05_subscribe (s : state) (h : list op) (c : cid) (subs : list (bytes * subopt)) (o : obs) : mres :=
  match get_client s c with
  | Some cl =>
      let got := recv_of o c in
      mbool (mset_eq beq_kv (map (fun d => (d_topic d, d_payload d)) got)
                     (c05_expected s h c (map fst (cl_subs cl)) subs)
             && forallb d_retain got)
  | None => MOk
  end.

(* ---------- C40 monitors ---------- *)
Definition ids_of_inline (l : list delivery) : list N :=
  flat_map (fun d => match d_to d with TInline id => [id] | _ => [] end) l.

(* every inline identifier with a matching subscription is called exactly once, with the message *)
Definition c40_inline_calls (s : state) (m : msg) (o : obs) : bool :=
  perm_eqN (ids_of_inline (ob_inline o)) (inline_ids s (m_topic m))
  && forallb (fun d => beq_bytes (d_topic d) (m_topic m) && beq_bytes (d_payload d) (m_payload m)) (ob_inline o).

Definition c40_client (s : state) (m : msg) (o : obs) (orc : oracle) (e : cid * client) : bool :=
  let '(c, cl) := e in
  let l := ent_subs c cl (m_topic m) orc in
  let got := recv_of o c in
  let want := if spec_entitled s c cl m l && negb (existsb (beq_bytes c) (ob_drops o)) then 1%nat else 0%nat in
  Nat.eqb (length got) want
  && forallb (fun d => (d_qos d =? spec_qos (st_maxqos s) (m_qos m) l) && beq_bytes (d_payload d) (m_payload m)) got.

Definition c40_inline_publish (s : state) (m : msg) (o : obs) : mres :=
  mbool (c40_inline_calls s m o
         && existsb (fun orc => forallb (c40_client s m o orc) (st_clients s)) (key_oracles s (m_topic m))).

Definition c40_inline_subscribe (s : state) (h : list op) (id : N) (f : bytes) (o : obs) : mres :=
  let want := if valid_filter_spec f then
                flat_map (fun t => match latest (st_retain_avail s) (st_maxqos s) h t None with
                                   | Some mr => if topic_matches f t then [(t, m_payload mr)] else []
                                   | None => []
                                   end) (nodup_b (topics_of h))
              else [] in
  mbool (mset_eq beq_kv (map (fun d => (d_topic d, d_payload d)) (ob_inline o)) want
         && forallb (fun i => i =? id) (ids_of_inline (ob_inline o))).

(* ---------- comparison with the model ---------- *)
Definition has_shared (cl : client) : bool := existsb (fun fo => is_share (fst fo)) (cl_subs cl).

Definition model_matches (s : state) (o : op) (ob : obs) : bool :=
  match o with
  | OPublish _ m | OInlinePublish m =>
      existsb (fun orc => same_deliveries (o_deliv (snd (step orc (ob_drops ob) s o))) ob) (key_oracles s (m_topic m))
  | OConnect c _ clean _ _ =>
      (* messages queued for an offline session that holds shared subscriptions depend on picks made while
         nobody could observe them: not compared *)
      match get_client s c with
      | Some old => if has_shared old && negb clean then true
                    else same_deliveries (o_deliv (snd (step [] [] s o))) ob
      | None => same_deliveries (o_deliv (snd (step [] [] s o))) ob
      end
  | OSubscribe _ _ =>
      let r := snd (step [] [] s o) in
      same_deliveries (o_deliv r) ob && beq_list N.eqb (o_codes r) (ob_codes ob)
  | _ => same_deliveries (o_deliv (snd (step [] [] s o))) ob
  end.

(* ---------- the engines ---------- *)
Definition op_tag (o : op) : bytes :=
  match o with
  | OConnect _ _ _ _ _ => tag "connect" | ODisconnect _ => tag "disconnect" | OSubscribe _ _ => tag "subscribe"
  | OUnsubscribe _ _ => tag "unsubscribe" | OPublish _ _ => tag "publish" | OInlinePublish _ => tag "inline-publish"
  | OInlineSubscribe _ _ => tag "inline-subscribe" | OInlineUnsubscribe _ _ => tag "inline-unsubscribe"
  end.

(* the monitor of property [p] for this step, and whether the step is a non-trivial instance of it *)
Definition monitor (p : N) (s : state) (h : list op) (o : op) (ob : obs) : mres * bool :=
  let received := negb (nilb (observed ob)) in
  match o with
  | OPublish _ _ | OInlinePublish _ =>
      match pub_of o with
      | None => (mbool (nilb (observed ob)), false)                       (* refused topic: nothing may be delivered *)
      | Some m =>
          let t := m_topic m in
          (* the state in which the message is routed: the retained store already updated *)
          if p =? 3 then (many (c03_publish s m ob) (key_oracles s t), received)
          else if p =? 4 then (many (c04_publish s m ob) (key_oracles s t), received)
          else if p =? 6 then (c06_publish s m ob, negb (nilb (shared_cands s t)))
          else if p =? 40 then
            (mand (mbool (c40_inline_calls s m ob))
                  (match o with OInlinePublish _ => c40_inline_publish s m ob | _ => MOk end),
             negb (nilb (ob_inline ob)) || match o with OInlinePublish _ => true | _ => false end)
          else (MOk, false)
      end
  | OSubscribe c subs =>
      if p =? 4 then (c04_subscribe s h c subs ob, true)
      else if p =? 5 then (c05_subscribe s h c subs ob, received || negb (nilb (st_retained s)))
      else (MOk, false)
  | OInlineSubscribe id f =>
      if p =? 40 then (c40_inline_subscribe s h id f ob, true) else (MOk, false)
  | OInlineUnsubscribe _ _ =>
      if p =? 40 then (mbool (nilb (observed ob)), true) else (MOk, false)
  | _ => (MOk, false)
  end.

Definition route_check (p : N) (v : val) : val :=
  match v with
  | VL [cfg; VL prefix; opv; obv] =>
      match as_cfg cfg, map_opt as_op prefix, as_op opv, as_obs obv with
      | Some s0, Some h, Some o, Some ob =>
          let s := run_ops s0 h in
          let tg := op_tag o in
          if ob_hung ob then verdict 1 (tag "hung") true []
          else
            let '(r, nt) := monitor p s h o ob in
            match r with
            | MFail => verdict 1 tg nt []
            | MKf name => verdict 3 tg nt [VB name]
            | MOk => if model_matches s o ob then verdict 0 tg nt [] else verdict 2 tg nt []
            end
      | _, _, _, _ => bad_case
      end
  | _ => bad_case
  end.

(* ENGINE route_c03 Session.DeliverEngine.route_c03 *)
Definition route_c03 (v : val) : val := route_check 3 v.
(* ENGINE route_c04 Session.DeliverEngine.route_c04 *)
Definition route_c04 (v : val) : val := route_check 4 v.
(* ENGINE route_c05 Session.DeliverEngine.route_c05 *)
Definition route_c05 (v : val) : val := route_check 5 v.
(* ENGINE route_c06 Session.DeliverEngine.route_c06 *)
Definition route_c06 (v : val) : val := route_check 6 v.
(* ENGINE route_c40 Session.DeliverEngine.route_c40 *)
Definition route_c40 (v : val) : val := route_check 40 v.

(* ---------- C04 on copies sent from a STORED message (held back by Receive Maximum, kept for an offline
   session, resent with DUP on resume) ----------
   The stream "c04f" of eng_route.go adds the operation (9 c) = "client c acknowledges its oldest
   unacknowledged delivery" (no effect on the routing state) and withholds acknowledgements, so copies
   arrive in later steps.  Flow control and resending themselves are C09 / C11; here EVERY PUBLISH copy a
   client receives, in whatever step, is judged by the C04 specification of the publish operation with
   that payload (payloads are unique within a history), evaluated in the state in which it was published,
   and compared with the delivery the model computes for that publish. *)
Definition is_ack_op (v : val) : bool := match v with VL [VN 9; VB _] => true | _ => false end.
Definition as_ops_skipping_acks (l : list val) : option (list op) :=
  map_opt as_op (filter (fun v => negb (is_ack_op v)) l).

(* the publish with payload p: (state before it, accepted message) *)
Fixpoint find_publish (s : state) (ops : list op) (p : bytes) : option (state * msg) :=
  match ops with
  | [] => None
  | o :: r =>
      match pub_of o with
      | Some m => if beq_bytes (m_payload m) p then Some (s, m) else find_publish (fst (step [] [] s o)) r p
      | None => find_publish (fst (step [] [] s o)) r p
      end
  end.

Definition online (cl : client) : client :=
  mkCl true (cl_ver cl) (cl_rpi0 cl) (cl_persist cl) (cl_subs cl) (cl_pending cl).

(* (specification satisfied, equals the model's delivery) for one received copy *)
Definition copy_check (s0 : state) (ops : list op) (c : cid) (d : delivery) : bool * bool :=
  match find_publish s0 ops (d_payload d) with
  | Some (s, m) =>
      match get_client s c with
      | Some cl =>
          let l := ent_subs c cl (m_topic m) [] in
          (negb (nilb l) && c04_delivery_ok s m cl l d,
           match deliver_to s [] [] m c (online cl) with PSend d' => beq_delivery d' d | _ => false end)
      | None => (false, false)
      end
  | None => (false, false)
  end.

Definition stored_check (v : val) : val :=
  match v with
  | VL [cfg; VL prefix; opv; obv] =>
      match as_cfg cfg, as_ops_skipping_acks (prefix ++ [opv]), as_obs obv with
      | Some s0, Some ops, Some ob =>
          let tg := if is_ack_op opv then tag "ack" else match as_op opv with Some o => op_tag o | None => tag "?" end in
          if ob_hung ob then verdict 1 (tag "hung") true []
          else
            let before := match as_ops_skipping_acks prefix with Some l => l | None => [] end in
            let res := flat_map (fun e => map (copy_check s0 ops (fst e)) (snd e)) (ob_recv ob) in
            (* non-trivial: some copy of a message published in an EARLIER step, i.e. sent from a stored copy *)
            let nt := existsb (fun e => existsb (fun d => match find_publish s0 before (d_payload d) with
                                                         | Some _ => true | None => false end) (snd e)) (ob_recv ob) in
            if negb (forallb fst res) then verdict 1 tg nt []
            else if negb (forallb snd res) then verdict 2 tg nt []
            else verdict 0 tg nt []
      | _, _, _ => bad_case
      end
  | _ => bad_case
  end.

(* ENGINE route_c04f Session.DeliverEngine.route_c04f *)
Definition route_c04f (v : val) : val := stored_check v.

(* ---------- C03 on the write path: bursts fed in one read (stream "c03w" of eng_route.go) ----------
   op (10 c msg ...) = client c sends the PUBLISH packets msg ... in ONE read; the case is taken at quiescence.
   obs = (recv inline ((client payload) ...) codes hung): drop reports carry the payload of the dropped message
   (a PUBLISH larger than the subscriber's Maximum Packet Size is refused by its write loop and reported).
   Payloads are unique within a history.  Verdict: every entitled copy that was not reported dropped is on the
   wire exactly once, nothing else is. *)
Definition as_burst (v : val) : option (list op) :=
  match v with
  | VL (VN 10 :: VB c :: msgs) =>
      map_opt (fun m => match m with VL l => do x <- as_msg l; Some (OPublish c x) | _ => None end) msgs
  | _ => None
  end.
Definition as_ops_expanding (l : list val) : option (list op) :=
  do ll <- map_opt (fun v => match as_burst v with Some b => Some b | None => do o <- as_op v; Some [o] end) l;
  Some (concat ll).

Definition as_drop2 (v : val) : option (cid * bytes) := match v with VL [VB c; VB p] => Some (c, p) | _ => None end.

Definition dropped_for (drops : list (cid * bytes)) (p : bytes) : list cid :=
  flat_map (fun e => if beq_bytes (snd e) p then [fst e] else []) drops.

(* one publish of the burst in state s: (specification ok, model deliveries) *)
Definition burst_one (s : state) (o : op) (recv : list (cid * list delivery)) (drops : list (cid * bytes)) : bool * list delivery :=
  match pub_of o with
  | None => (true, [])
  | Some m =>
      let dr := dropped_for drops (m_payload m) in
      let ok := forallb (fun e =>
                  let '(c, cl) := e in
                  let l := ent_subs c cl (m_topic m) [] in
                  let got := filter (fun d => beq_bytes (d_payload d) (m_payload m))
                                    (flat_map (fun r => if beq_bytes (fst r) c then snd r else []) recv) in
                  let want := if spec_entitled s c cl m l && negb (existsb (beq_bytes c) dr) then 1%nat else 0%nat in
                  Nat.eqb (length got) want
                  && forallb (fun d => beq_bytes (d_topic d) (m_topic m)
                                       && ((cl_ver cl <? 5) || beq_mprops (d_props d) (m_props m))) got)
                 (st_clients s) in
      (ok, o_deliv (snd (step [] dr s o)))
  end.

Fixpoint burst_all (s : state) (ops : list op) (recv : list (cid * list delivery)) (drops : list (cid * bytes))
  : bool * list delivery :=
  match ops with
  | [] => (true, [])
  | o :: r =>
      let '(ok1, d1) := burst_one s o recv drops in
      let '(ok2, d2) := burst_all (fst (step [] [] s o)) r recv drops in
      (ok1 && ok2, d1 ++ d2)
  end.

Definition burst_payloads (ops : list op) : list bytes :=
  flat_map (fun o => match pub_of o with Some m => [m_payload m] | None => [] end) ops.

Definition burst_check (v : val) : val :=
  match v with
  | VL [cfg; VL prefix; opv; VL [VL recv; VL _; VL drops; _; hung]] =>
      match as_cfg cfg, as_ops_expanding prefix, as_burst opv, map_opt as_recv recv, map_opt as_drop2 drops, as_bool hung with
      | Some s0, Some h, Some ops, Some rc, Some dr, Some hg =>
          if hg then verdict 1 (tag "hung") true []
          else
            let s := run_ops s0 h in
            let '(ok, model) := burst_all s ops rc dr in
            let all := flat_map snd rc in
            (* nothing but copies of the burst's messages may arrive *)
            let known := forallb (fun d => existsb (beq_bytes (d_payload d)) (burst_payloads ops)) all in
            let nt := negb (nilb dr) in
            if negb (ok && known) then verdict 1 (tag "burst") nt []
            else if mset_eq beq_delivery (map norm_delivery model) all then verdict 0 (tag "burst") nt []
            else verdict 2 (tag "burst") nt []
      | _, _, _, _, _, _ => bad_case
      end
  | _ => bad_case
  end.

(* the other steps of that stream: the ordinary C03 check, with bursts in the prefix expanded *)
Definition route_c03w_step (v : val) : val :=
  match v with
  | VL [cfg; VL prefix; opv; obv] =>
      match as_burst opv with
      | Some _ => burst_check v
      | None =>
          match as_cfg cfg, as_ops_expanding prefix, as_op opv, as_obs obv with
          | Some s0, Some h, Some o, Some ob =>
              let s := run_ops s0 h in
              let tg := op_tag o in
              if ob_hung ob then verdict 1 (tag "hung") true []
              else
                let '(r, nt) := monitor 3 s h o ob in
                match r with
                | MFail => verdict 1 tg nt []
                | MKf name => verdict 3 tg nt [VB name]
                | MOk => if model_matches s o ob then verdict 0 tg nt [] else verdict 2 tg nt []
                end
          | _, _, _, _ => bad_case
          end
      end
  | _ => bad_case
  end.

(* ENGINE route_c03w Session.DeliverEngine.route_c03w *)
Definition route_c03w (v : val) : val := route_c03w_step v.
