(* C13-C16 — engines: parse one observed history of the real broker (harness/cmd/hx/eng_life.go),
   replay the component model on the same operations, compare the projected observables step by
   step (code 2), run the specification monitors on what the real broker did (code 1, or code 3
   when every violation is a listed known finding).  No proofs in this file. *)
From MV Require Import Base.Val Session.Pkt Session.Lifecycle Session.LifeSpec Session.LifeKF.
Open Scope N_scope.

(* ---------- parsing ---------- *)
Definition as_cparams (v : val) : option cparams :=
  match v with
  | VL [VB pn; VN ver; res; clean; wf; VN wq; wr; VB wt; VB wp; VN wd; uf; VB u; pf; VB pw; VN ka; VB id; sf; VN sei; tr; wok] =>
      do res' <- as_bool res; do clean' <- as_bool clean; do wf' <- as_bool wf; do wr' <- as_bool wr;
      do uf' <- as_bool uf; do pf' <- as_bool pf; do sf' <- as_bool sf; do tr' <- as_bool tr; do wok' <- as_bool wok;
      Some {| cp_pname := pn; cp_ver := ver; cp_reserved := res'; cp_clean := clean'; cp_willflag := wf';
              cp_willqos := wq; cp_willretain := wr'; cp_willtopic := wt; cp_willpayload := wp; cp_willdelay := wd;
              cp_userflag := uf'; cp_user := u; cp_passflag := pf'; cp_pass := pw; cp_keepalive := ka; cp_id := id;
              cp_seiflag := sf'; cp_sei := sei; cp_trunc := tr'; cp_willtopic_ok := wok' |}
  | _ => None
  end.

Definition zN (n : N) : Z := Z.of_N n.

Definition as_op (v : val) : option op :=
  match v with
  | VL [VN 1; VN c; VN t; cp; a; VB eff] =>
      do p <- as_cparams cp; do a' <- as_bool a; Some (OConnect c (zN t) p a' eff)
  | VL [VN 2; VN c; VN t; VN _] => Some (OBadFirst c (zN t))
  | VL [VN 3; VN c; VN t; VN rc; sf; VN sei] =>
      do sf' <- as_bool sf; Some (ODisconnect c (zN t) rc (if sf' then Some sei else None))
  | VL [VN 4; VN c; VN t] => Some (ONetClose c (zN t))
  | VL [VN 5; VN c; VN t] => Some (OTeardown c (zN t))
  | VL [VN 6; t] => do t' <- as_Z t; Some (OTickClients t')
  | VL [VN 7; t] => do t' <- as_Z t; Some (OTickWill t')
  | VL [VN 8; VN c; VN _; VB f; VN q] => Some (OSubscribe c f q)
  | VL [VN 9; VN c; VN _; VB t; VB pl; VN q; r] =>
      do r' <- as_bool r; Some (OPublish c {| m_topic := t; m_payload := pl; m_qos := q; m_retain := r' |})
  | VL [VN 10; VN c; VN t] => Some (OSecondConnect c (zN t))
  | _ => None
  end.

(* pkt = (type rc sp topic payload qos retain dup) *)
Definition as_opkt (v : val) : option opkt :=
  match v with
  | VL [VN ty; VN rc; sp; VB t; VB pl; VN q; r; d] =>
      do sp' <- as_bool sp; do r' <- as_bool r; do d' <- as_bool d;
      Some (if ty =? 2 then PConnack rc sp'
            else if ty =? 14 then PDisconnect rc
            else if ty =? 3 then PPublish {| m_topic := t; m_payload := pl; m_qos := q; m_retain := r' |} d'
            else POther ty)
  | _ => None
  end.

(* (conn (pkt...) closedNow doneNow) *)
Definition as_conn_out (v : val) : option (list out) :=
  match v with
  | VL [VN c; VL pks; cl; _] =>
      do pks' <- map_opt as_opkt pks; do cl' <- as_bool cl;
      Some (map (OPkt c) pks' ++ (if cl' then [OClose c] else []))
  | _ => None
  end.

Definition name_WillSent := tag "WillSent".
Definition name_ClientExpired := tag "ClientExpired".
Definition name_Disconnect := tag "Disconnect".
Definition name_expire := tag "expire".
Definition name_PANIC := tag "PANIC".
Definition name_QosDropped := tag "QosDropped".
Definition name_Unsubscribed := tag "Unsubscribed".

Definition as_hook_out (v : val) : option (list out) :=
  match v with
  | VL [VB nm; VB id; VB ex] =>
      Some (if beq_bytes nm name_WillSent then [OWillSent id]
            else if beq_bytes nm name_ClientExpired then [OExpired id]
            else if beq_bytes nm name_Disconnect then [ODisconnected id (beq_bytes ex name_expire)]
            else [])
  | _ => None
  end.
Definition as_hook_ev (v : val) : list hev :=
  match v with
  | VL [VB nm; VB id; VB ex] =>
      if beq_bytes nm name_QosDropped then [HDropped id ex]
      else if beq_bytes nm name_Unsubscribed then [HUnsub id ex]
      else []
  | _ => []
  end.
Definition hook_is_panic (v : val) : bool :=
  match v with VL [VB nm; _; _] => beq_bytes nm name_PANIC | _ => false end.

Definition as_sclient (v : val) : option sclient :=
  match v with
  | VL [VB id; VN c; op; tko; disc; VN ver; clean; VN sei; sf; wf; subs; infl] =>
      do op' <- as_bool op; do tko' <- as_bool tko; do disc' <- as_Z disc; do clean' <- as_bool clean;
      do sf' <- as_bool sf; do wf' <- as_bool wf; do subs' <- as_BL subs; do infl' <- as_BL infl;
      Some {| sc_id := id; sc_conn := c; sc_open := op'; sc_tko := tko'; sc_disc := disc'; sc_ver := ver;
              sc_clean := clean'; sc_sei := sei; sc_seiflag := sf'; sc_willflag := wf'; sc_subs := subs';
              sc_infl := infl' |}
  | _ => None
  end.

Definition as_index (v : val) : option (bytes * bytes * N) :=
  match v with VL [VB id; VB f; VN q] => Some (id, f, q) | _ => None end.
Definition as_swill (v : val) : option (bytes * Z * msg) :=
  match v with
  | VL [VB id; due; VB t; VB pl; VN q; r] =>
      do due' <- as_Z due; do r' <- as_bool r;
      Some (id, due', {| m_topic := t; m_payload := pl; m_qos := q; m_retain := r' |})
  | _ => None
  end.
Definition as_retained (v : val) : option (bytes * bytes) :=
  match v with VL [VB t; VB pl] => Some (t, pl) | _ => None end.

Definition as_lsnap (v : val) : option snap :=
  match v with
  | VL [VL cls; VL ix; VL wl; VL rt] =>
      do cls' <- map_opt as_sclient cls; do ix' <- map_opt as_index ix; do wl' <- map_opt as_swill wl;
      do rt' <- map_opt as_retained rt;
      Some {| sn_clients := cls'; sn_index := ix'; sn_wills := wl'; sn_retained := rt' |}
  | _ => None
  end.

Definition empty_snap : snap := {| sn_clients := []; sn_index := []; sn_wills := []; sn_retained := [] |}.

(* will publications are recognised at the observer (connection 0, subscribed to every will topic
   with QoS 2 and Retain As Published) by their payload: the harness gives every connection's will a
   payload of its own that no other message carries *)
Fixpoint will_owner (pl : bytes) (ops : list op) : option N :=
  match ops with
  | [] => None
  | OConnect c _ p _ _ :: r =>
      match will_owner pl r with
      | Some c' => Some c'
      | None => if cp_willflag p && beq_bytes (cp_willpayload p) pl then Some c else None
      end
  | _ :: r => will_owner pl r
  end.

Definition derive_wills (ops_rev : list op) (outs : list out) : list out :=
  flat_map (fun o => match o with
            | OPkt 0 (PPublish m false) =>
                match will_owner (m_payload m) ops_rev with Some c => [OWill c m] | None => [] end
            | _ => [] end) outs.

(* one step of the case: (op outs hooks snap) *)
Record rstep := { r_op : op; r_outs : list out; r_hooks : list hev; r_snap : snap; r_panic : bool }.

Definition as_rstep (v : val) : option rstep :=
  match v with
  | VL [o; VL outs; VL hooks; sn] =>
      do o' <- as_op o; do outs' <- map_opt as_conn_out outs; do hk <- map_opt as_hook_out hooks;
      do sn' <- as_lsnap sn;
      Some {| r_op := o'; r_outs := concat outs' ++ concat hk; r_hooks := flat_map as_hook_ev hooks; r_snap := sn';
              r_panic := existsb hook_is_panic hooks |}
  | _ => None
  end.

Fixpoint build_obs (ops_rev : list op) (pre : snap) (l : list rstep) : list obs :=
  match l with
  | [] => []
  | r :: t =>
      let ops' := r_op r :: ops_rev in
      {| b_op := r_op r; b_outs := r_outs r ++ derive_wills ops' (r_outs r); b_hooks := r_hooks r; b_pre := pre; b_post := r_snap r |}
      :: build_obs ops' (r_snap r) t
  end.

(* ---------- comparison of the real observation with the model ---------- *)
Definition beq_opkt (a b : opkt) : bool :=
  match a, b with
  | PConnack c1 s1, PConnack c2 s2 => (c1 =? c2) && Bool.eqb s1 s2
  | PDisconnect c1, PDisconnect c2 => c1 =? c2
  | PPublish m1 d1, PPublish m2 d2 => beq_msg m1 m2 && Bool.eqb d1 d2
  | POther a1, POther a2 => a1 =? a2
  | _, _ => false
  end.
Definition is_pub (p : opkt) : bool := match p with PPublish _ _ => true | _ => false end.
Definition is_ctl (p : opkt) : bool := match p with PConnack _ _ | PDisconnect _ => true | _ => false end.

Fixpoint beq_list {A} (eq : A -> A -> bool) (a b : list A) : bool :=
  match a, b with [], [] => true | x :: a', y :: b' => eq x y && beq_list eq a' b' | _, _ => false end.
Definition count_by {A} (eq : A -> A -> bool) (x : A) (l : list A) : nat := length (filter (eq x) l).
Definition msub {A} (eq : A -> A -> bool) (a b : list A) : bool :=
  forallb (fun x => Nat.leb (count_by eq x a) (count_by eq x b)) a.
Definition meq {A} (eq : A -> A -> bool) (a b : list A) : bool := msub eq a b && msub eq b a.

Definition conns_of (outs : list out) : list N :=
  flat_map (fun o => match o with OPkt c _ => [c] | OClose c => [c] | _ => [] end) outs.

Definition beq_hookout (a b : out) : bool :=
  match a, b with
  | OExpired x, OExpired y => beq_bytes x y
  | OWillSent x, OWillSent y => beq_bytes x y
  | ODisconnected x e, ODisconnected y f => beq_bytes x y && Bool.eqb e f
  | OWill c m, OWill d n => (c =? d) && beq_msg m n
  | _, _ => false
  end.
Definition is_event (o : out) : bool := match o with OPkt _ _ | OClose _ => false | _ => true end.

Definition outs_match (real model : list out) : bool :=
  let cs := conns_of real ++ conns_of model in
  forallb (fun c =>
    let pr := pkts_to c real in let pm := pkts_to c model in
    beq_list beq_opkt (filter is_ctl pr) (filter is_ctl pm) &&
    meq beq_opkt (filter is_pub pr) (filter is_pub pm) &&
    Bool.eqb (memN c (closes real)) (memN c (closes model))) cs &&
  meq beq_hookout (filter is_event real) (filter is_event model).

Definition beq_sclient (a b : sclient) : bool :=
  beq_bytes (sc_id a) (sc_id b) && (sc_conn a =? sc_conn b) && Bool.eqb (sc_open a) (sc_open b) &&
  Bool.eqb (sc_tko a) (sc_tko b) && (sc_disc a =? sc_disc b)%Z && (sc_ver a =? sc_ver b) &&
  Bool.eqb (sc_clean a) (sc_clean b) && (sc_sei a =? sc_sei b) && Bool.eqb (sc_seiflag a) (sc_seiflag b) &&
  Bool.eqb (sc_willflag a) (sc_willflag b) && meq beq_bytes (sc_subs a) (sc_subs b) &&
  meq beq_bytes (sc_infl a) (sc_infl b).

Definition beq_ix (a b : bytes * bytes * N) : bool :=
  beq_bytes (fst (fst a)) (fst (fst b)) && beq_bytes (snd (fst a)) (snd (fst b)) && (snd a =? snd b).
Definition beq_sw (a b : bytes * Z * msg) : bool :=
  beq_bytes (fst (fst a)) (fst (fst b)) && (snd (fst a) =? snd (fst b))%Z && beq_msg (snd a) (snd b).
Definition beq_rt (a b : bytes * bytes) : bool := beq_bytes (fst a) (fst b) && beq_bytes (snd a) (snd b).

(* which part of the snapshot differs: 0 = equal, 1 clients, 2 index, 3 wills, 4 retained *)
Definition snap_diff (a b : snap) : N :=
  if negb (meq beq_sclient (sn_clients a) (sn_clients b)) then 1
  else if negb (meq beq_ix (sn_index a) (sn_index b)) then 2
  else if negb (meq beq_sw (sn_wills a) (sn_wills b)) then 3
  else if negb (meq beq_rt (sn_retained a) (sn_retained b)) then 4
  else 0.

(* rendering of the model's view, for the diagnostics of a mismatch *)
Definition msg_val (m : msg) : val := VL [VB (m_topic m); VB (m_payload m); VN (m_qos m); vbool (m_retain m)].
Definition out_val (o : out) : val :=
  match o with
  | OPkt c (PConnack code sp) => VL [VB (tag "connack"); VN c; VN code; vbool sp]
  | OPkt c (PDisconnect code) => VL [VB (tag "disconnect"); VN c; VN code]
  | OPkt c (PPublish m d) => VL [VB (tag "publish"); VN c; msg_val m; vbool d]
  | OPkt c (POther ty) => VL [VB (tag "other"); VN c; VN ty]
  | OClose c => VL [VB (tag "close"); VN c]
  | OWill c m => VL [VB (tag "will"); VN c; msg_val m]
  | OExpired id => VL [VB (tag "expired"); VB id]
  | OWillSent id => VL [VB (tag "willsent"); VB id]
  | ODisconnected id e => VL [VB (tag "disconnected"); VB id; vbool e]
  end.
Definition zval (z : Z) : val := match z with Zneg p => VL [VN 1; VN (Npos p)] | _ => VL [VN 0; VN (Z.to_N z)] end.
Definition sclient_val (r : sclient) : val :=
  VL [VB (sc_id r); VN (sc_conn r); vbool (sc_open r); vbool (sc_tko r); zval (sc_disc r); VN (sc_ver r); vbool (sc_clean r);
      VN (sc_sei r); vbool (sc_seiflag r); vbool (sc_willflag r); VL (map VB (sc_subs r)); VL (map VB (sc_infl r))].
Definition snap_val (s : snap) : val :=
  VL [VL (map sclient_val (sn_clients s));
      VL (map (fun e => VL [VB (fst (fst e)); VB (snd (fst e)); VN (snd e)]) (sn_index s));
      VL (map (fun e => VL [VB (fst (fst e)); zval (snd (fst e)); msg_val (snd e)]) (sn_wills s));
      VL (map (fun e => VL [VB (fst e); VB (snd e)]) (sn_retained s))].

Definition beq_hev (a b : hev) : bool :=
  match a, b with
  | HDropped i x, HDropped j y => beq_bytes i j && beq_bytes x y
  | HUnsub i x, HUnsub j y => beq_bytes i j && beq_bytes x y
  | _, _ => false
  end.
Definition hev_val (h : hev) : val :=
  match h with HDropped i x => VL [VB (tag "dropped"); VB i; VB x] | HUnsub i x => VL [VB (tag "unsub"); VB i; VB x] end.

(* sendDelayedLWT ranges over a Go map (`for id, pk := range s.loop.willDelayed.GetAll()`): the order in
   which the due entries of ONE tick are handled is arbitrary and differs from run to run.  It is
   observable: the order of the will publications at a subscriber and, when two retained wills on the
   same topic are due in the same tick, which of them stays retained.  Neither order is wrong (MQTT does
   not order the wills of different sessions), so the replay lets the model handle the entries in the
   order in which the real broker published them: the table is rearranged (a permutation: entries are
   keyed by distinct connections, Session/LifeProofs16M.v [nodup_conns]) before the tick. *)
Fixpoint dedupN (l : list N) : list N :=
  match l with [] => [] | c :: r => c :: filter (fun x => negb (x =? c)) (dedupN r) end.

Definition reorder_wills (order : list N) (s : state) : state :=
  let ord := dedupN order in
  set_wills s (flat_map (fun c => filter (fun e => d_conn (snd e) =? c) (st_wills s)) ord ++
               filter (fun e => negb (memN (d_conn (snd e)) ord)) (st_wills s)).

Definition pre_tick (b : obs) (s : state) : state :=
  match b_op b with
  | OTickWill _ => reorder_wills (map fst (wills_of (b_outs b))) s
  | _ => s
  end.

(* replay: first step on which the model differs, as (step, what, model's view) *)
Fixpoint replay (k : caps) (i : N) (s0 : state) (h : list obs) : option (N * N * val) :=
  match h with
  | [] => None
  | b :: r =>
      let s := pre_tick b s0 in
      let (s', outs) := step k s (b_op b) in
      if negb (outs_match (b_outs b) outs) then Some (i, 10, VL [VL (map out_val outs); VL (map out_val (b_outs b))])
      else if (match b_op b with OConnect _ _ _ _ _ => true | _ => false end) &&
              negb (meq beq_hev (b_hooks b) (hook_events k s (b_op b)))
      then Some (i, 11, VL (map hev_val (hook_events k s (b_op b))))
      else
        let d := snap_diff (b_post b) (snap_of s') in
        if negb (d =? 0) then Some (i, d, snap_val (snap_of s')) else replay k (i + 1) s' r
  end.

(* ---------- verdict ---------- *)
Definition viol_val (v : viol) : val := VL [VN (v_tag v); VN (N.of_nat (v_step v)); VN (v_conn v); VB (v_id v)].

Definition op_kind (o : op) : N :=
  match o with
  | OConnect _ _ _ _ _ => 1 | OBadFirst _ _ => 2 | ODisconnect _ _ _ _ => 3 | ONetClose _ _ => 4 | OTeardown _ _ => 5
  | OTickClients _ => 6 | OTickWill _ => 7 | OSubscribe _ _ _ => 8 | OPublish _ _ => 9 | OSecondConnect _ _ => 10
  end.

Definition life_engine (which : N) (v : val) : val :=
  match v with
  | VL [VB fam; VL [VN maxsei; VN minver; VN maxqos; ra]; VN authmode; VL steps; hung] =>
      match as_bool ra, map_opt as_rstep steps, as_bool hung with
      | Some ra', Some rs, Some hung' =>
          let k := {| k_maxsei := maxsei; k_minver := minver; k_maxqos := maxqos; k_retain := ra' |} in
          let h := build_obs [] empty_snap rs in
          let viols := if which =? 13 then mon13 h else if which =? 14 then mon14 h
                       else if which =? 15 then mon15 k h else mon16 k h in
          let unexplained := filter (fun x => match kf_of k h x with None => true | Some _ => false end) viols in
          let nontriv := Nat.ltb 2 (length rs) in
          if hung' || existsb r_panic rs then verdict 1 (tag "hang-or-panic") nontriv []
          else
            match unexplained with
            | x :: _ => verdict 1 fam nontriv [viol_val x]
            | [] =>
                match replay k 0 init h with
                | Some (i, what, view) => verdict 2 fam nontriv [VN i; VN what; view]
                | None =>
                    match viols with
                    | x :: _ => match kf_of k h x with
                                | Some name => verdict 3 fam nontriv [VB name; viol_val x]
                                | None => verdict 1 fam nontriv [viol_val x] end
                    | [] => verdict 0 fam nontriv []
                    end
                end
            end
      | _, _, _ => bad_case
      end
  | _ => bad_case
  end.

(* ENGINE life13 Session.LifeEngine.life13_engine *)
Definition life13_engine (v : val) : val := life_engine 13 v.
(* ENGINE life14 Session.LifeEngine.life14_engine *)
Definition life14_engine (v : val) : val := life_engine 14 v.
(* ENGINE life15 Session.LifeEngine.life15_engine *)
Definition life15_engine (v : val) : val := life_engine 15 v.
(* ENGINE life16 Session.LifeEngine.life16_engine *)
Definition life16_engine (v : val) : val := life_engine 16 v.
