(* C13 at the connected-client limit.  The sequential life-cycle model assumes MaximumClients is not
   reached; the refusal at the limit (server.go attachClient: the early check and reserveClientSlot,
   both answered by refuseClientLimit = a failure CONNACK) is modelled with its interleavings in
   Conc/Limit.v (w-conc, C35).  This file reads the forced schedules of that engine
   (harness/cmd/hx/eng_limit.go: every interleaving of the atomic steps of concurrent attempts at
   limits 1-3) with the C13 clause:

     the first packet a connection receives is a CONNACK; an attempt refused at the limit receives
     the failure CONNACK of its protocol version (0x89 Server busy for MQTT 5, 0x03 Server
     unavailable for MQTT 3.x) - never a DISCONNECT or nothing at all.

   Observation (per case): the schedule entries and, for every attempt, the reason code of the
   CONNACK at the START of what it received (255 = its first packet is not a CONNACK / nothing
   received).  Which attempts have been decided by the end of the schedule is read off the model
   replay of the observed schedule (an undecided attempt has received nothing). *)
From MV Require Import Base.Val Base.Sched Base.SchedProofs Conc.Limit Conc.LimitProofs.
From Coq Require Import Lia.
Open Scope Z_scope.

Definition decided (st : status) : bool := match st with Idle => false | _ => true end.

(* the specification clause, on what attempt (sp) received first *)
Definition first_ok (sp : tspec) (st : status) (code : N) : bool :=
  negb (decided st) || (negb (code =? 255)%N && obs_code_ok sp code).

Definition end_cfg (es : list entry) (c : cfg lstate instr) : cfg lstate instr :=
  fold_left (fun c e => fst (step_thread exec (e_tid e) c)) es c.

Fixpoint zip3 {A B C} (a : list A) (b : list B) (c : list C) : option (list (A * B * C)) :=
  match a, b, c with
  | [], [], [] => Some []
  | x :: a', y :: b', z :: c' => match zip3 a' b' c' with Some r => Some ((x, y, z) :: r) | None => None end
  | _, _, _ => None
  end.

(* ENGINE life13limit Session.LifeLimit.life13limit_engine *)
Definition life13limit_engine (v : val) : val :=
  match v with
  | VL [VN max; VL specs; VL entries; VL finals] =>
      match map_opt as_spec specs, map_opt as_entry entries, map_opt as_N finals with
      | Some sps, Some es, Some fs =>
          let c := end_cfg es (limit_threads (Z.of_N max) sps) in
          match zip3 sps (l_stats (shared c)) fs with
          | Some rows =>
              let bad := existsb (fun r => match r with (sp, st, f) => negb (first_ok sp st f) end) rows in
              let mismatch := existsb (fun r => match r with (_, st, f) => negb (f =? expected_code st)%N end) rows in
              let refused := existsb (fun r => match r with (_, st, _) => match st with Refused _ => true | _ => false end end) rows in
              verdict (if bad then 1 else if mismatch then 2 else 0)%N
                      (if refused then tag "limit-refusal" else tag "limit-no-refusal")
                      (existsb (fun r => match r with (_, st, _) => decided st end) rows) []
          | None => bad_case
          end
      | _, _, _ => bad_case
      end
  | _ => bad_case
  end.

(* ---------- the model: for every schedule, a refused attempt was answered by the failure CONNACK
   of its protocol version (the status [Refused k] stands for "failure CONNACK with reason k sent,
   connection closed"); every other decided attempt holds a success CONNACK ---------- *)
Lemma nth_error_repeat_idle n t st : nth_error (repeat Idle n) t = Some st -> st = Idle.
Proof. revert t. induction n as [|n IH]; intros [|t] H; cbn in H; try discriminate; [inversion H; reflexivity|apply (IH t H)]. Qed.

Theorem refusal_is_connack max specs sched t k :
  stat t (run exec sched (limit_threads max specs)) = Some (Refused k) ->
  exists sp, nth_error specs t = Some sp /\ k = refusal_code (ts_ver sp).
Proof.
  induction sched as [|t' r IH] using rev_ind; intro H.
  - unfold stat, limit_threads, init in H. cbn in H. apply nth_error_repeat_idle in H. discriminate.
  - rewrite run_app in H. cbn [run] in H.
    destruct (stat t (run exec r (limit_threads max specs))) as [st|] eqn:E.
    + destruct st; try (destruct (limit_refusal max specs r t' t k H) as (_ & _ & R); [rewrite E; discriminate|exact R]).
      destruct (N.eq_dec code k) as [->|NE]; [apply IH; reflexivity|].
      destruct (limit_refusal max specs r t' t k H) as (_ & _ & R); [rewrite E; congruence|exact R].
    + destruct (limit_refusal max specs r t' t k H) as (_ & _ & R); [rewrite E; discriminate|exact R].
Qed.
