(* C12: the monitor chk12 is sound for a specification written in the property's words: if it accepts every step
   of an observed history, first transmissions are in publish order for every two messages of one publisher/topic
   delivered at one QoS. *)
From MV Require Import Base.Val Session.Pkt Session.Inflight Session.QosSpecs Session.QosOrder.
From Coq Require Import Lia ZifyBool ZifyN ZifyNat.
Open Scope N_scope.

(* ---------- how the view's publish list and seen list evolve ---------- *)
Definition msg_of (o : op) : list omsg :=
  match o with
  | OutPublish pq sq uid grp now mei _ _ =>
      [{| m_uid := uid; m_qos := eff_qos pq sq; m_grp := grp; m_created := now; m_mei := mei |}]
  | _ => []
  end.

Ltac split_all :=
  repeat match goal with
         | |- context [if ?b then _ else _] => destruct b
         | |- context [match ?x with Some _ => _ | None => _ end] => destruct x
         end.

Lemma view_op_pubs c v o ob : v_pubs (view_op c v o ob) = msg_of o ++ v_pubs v.
Proof.
  destruct o; cbn [view_op msg_of app]; unfold view_drop, set_session, set_conn, set_done; split_all; reflexivity.
Qed.

Lemma view_op_seen c v o ob : v_seen (view_op c v o ob) = v_seen v.
Proof.
  destruct o; cbn [view_op]; unfold view_drop, set_session, set_conn, set_done; split_all; reflexivity.
Qed.

Definition seen_pkt (seen : list N) (p : out) : list N :=
  match p with
  | OPkt t _ _ _ u _ => if (t =? T_PUBLISH) && negb (inb u seen) then u :: seen else seen
  | _ => seen
  end.

Lemma view_pkt_pubs d v p : v_pubs (view_pkt d v p) = v_pubs v.
Proof.
  destruct p; cbn [view_pkt]; try reflexivity.
  unfold view_drop, set_session, set_conn, set_seen; split_all; reflexivity.
Qed.

Lemma view_pkt_seen d v p : v_seen (view_pkt d v p) = seen_pkt (v_seen v) p.
Proof.
  destruct p; cbn [view_pkt seen_pkt]; try reflexivity.
  destruct (ty =? T_PUBLISH) eqn:T; cbn [andb].
  - destruct (inb uid (v_seen v)); cbn [negb andb]; unfold set_session, set_seen; split_all; reflexivity.
  - unfold view_drop, set_session, set_conn; split_all; reflexivity.
Qed.

Lemma fold_view_pkt_pubs d l : forall v, v_pubs (fold_left (view_pkt d) l v) = v_pubs v.
Proof. induction l as [|p l IH]; intros v; [reflexivity|]. cbn [fold_left]. rewrite IH. apply view_pkt_pubs. Qed.

Lemma fold_view_pkt_seen d l : forall v, v_seen (fold_left (view_pkt d) l v) = fold_left seen_pkt l (v_seen v).
Proof. induction l as [|p l IH]; intros v; [reflexivity|]. cbn [fold_left]. rewrite IH, view_pkt_seen. reflexivity. Qed.

Lemma view_drop_pubs v : v_pubs (view_drop v) = v_pubs v.
Proof. unfold view_drop, set_session, set_conn. destruct (v_exp v); reflexivity. Qed.
Lemma view_drop_seen v : v_seen (view_drop v) = v_seen v.
Proof. unfold view_drop, set_session, set_conn. destruct (v_exp v); reflexivity. Qed.

Lemma view_step_pubs c v o ob : v_pubs (view_step c v o ob) = msg_of o ++ v_pubs v.
Proof.
  unfold view_step. cbn [v_pubs]. destruct (ob_fault ob && ob_closed ob); rewrite ?view_drop_pubs;
    rewrite fold_view_pkt_pubs; apply view_op_pubs.
Qed.

Lemma view_step_seen c v o ob : v_seen (view_step c v o ob) = fold_left seen_pkt (ob_pkts ob) (v_seen v).
Proof.
  unfold view_step. cbn [v_seen]. destruct (ob_fault ob && ob_closed ob); rewrite ?view_drop_seen;
    rewrite fold_view_pkt_seen, view_op_seen; reflexivity.
Qed.

(* ---------- the specification, in the property's words ---------- *)
(* messages published towards the session, oldest first; uids received as PUBLISH packets, in order *)
Definition pubs_of (tr : list (op * obs)) : list omsg := flat_map (fun x => msg_of (fst x)) tr.
Definition rx_of (tr : list (op * obs)) : list N := flat_map (fun x => txs (ob_pkts (snd x))) tr.

Definition before (a b : omsg) (P : list omsg) : Prop := exists l1 l2 l3, P = l1 ++ a :: l2 ++ b :: l3.

(* for any two messages of one publisher and topic (grp) delivered at the same QoS, published in this order, the first
   transmissions arrive in this order (if both arrive) *)
Definition Spec12 (tr : list (op * obs)) : Prop :=
  forall a b, before a b (pubs_of tr) -> m_grp a = m_grp b -> m_qos a = m_qos b ->
  ord_ok (m_uid a) (m_uid b) (rx_of tr).

(* what the monitor does over a whole history *)
Fixpoint accept12 (c : cfg) (v : view) (tr : list (op * obs)) : Prop :=
  match tr with
  | [] => True
  | (o, ob) :: r => chk12 c v o ob (view_op c v o ob) = None /\ accept12 c (view_step c v o ob) r
  end.

(* assumptions about the observation itself: every message has its own uid, and a message is received only after
   it has been published (both hold by construction of the harness) *)
Definition uids_distinct (tr : list (op * obs)) : Prop := NoDup (map m_uid (pubs_of tr)).
Fixpoint causal (P : list omsg) (tr : list (op * obs)) : Prop :=
  match tr with
  | [] => True
  | (o, ob) :: r =>
      (forall u, In u (txs (ob_pkts ob)) -> In u (map m_uid (P ++ msg_of o))) /\ causal (P ++ msg_of o) r
  end.

(* ---------- list facts ---------- *)
Lemma find_msg_app_notin u l r : ~ In u (map m_uid l) -> find_msg u (l ++ r) = find_msg u r.
Proof.
  induction l as [|m l IH]; intros NI; [reflexivity|]. cbn [app find_msg find].
  destruct (m_uid m =? u) eqn:E; [exfalso; apply NI; left; lia|]. apply IH. intros X. apply NI. right. exact X.
Qed.

Lemma find_msg_nodup Q m : NoDup (map m_uid Q) -> In m Q -> find_msg (m_uid m) Q = Some m.
Proof.
  induction Q as [|x Q IH]; intros N I; [destruct I|]. cbn [map] in N. inversion N as [|? ? NI Nd]; subst.
  cbn [find_msg find]. destruct I as [->|I]; [rewrite N.eqb_refl; reflexivity|].
  destruct (m_uid x =? m_uid m) eqn:E.
  - exfalso. apply NI. replace (m_uid x) with (m_uid m) by lia. apply in_map. exact I.
  - apply IH; assumption.
Qed.

Lemma pub_index_app_notin u l r : ~ In u (map m_uid l) -> pub_index u (l ++ r) = (length l + pub_index u r)%nat.
Proof.
  induction l as [|m l IH]; intros NI; [reflexivity|]. cbn [app pub_index length].
  destruct (m_uid m =? u) eqn:E; [exfalso; apply NI; left; lia|]. rewrite IH; [lia|]. intros X. apply NI. right. exact X.
Qed.

Lemma pub_index_head m r : pub_index (m_uid m) (m :: r) = 0%nat.
Proof. cbn. rewrite N.eqb_refl. reflexivity. Qed.

Lemma nodup_app_disj (l r : list N) x : NoDup (l ++ r) -> In x l -> In x r -> False.
Proof.
  induction l as [|y l IH]; intros N Il Ir; [destruct Il|]. cbn [app] in N. inversion N as [|? ? NI Nd]; subst.
  destruct Il as [->|Il]; [apply NI; apply in_or_app; right; exact Ir|exact (IH Nd Il Ir)].
Qed.

Lemma nodup_app_r (l r : list N) : NoDup (l ++ r) -> NoDup r.
Proof. induction l as [|y l IH]; intros N; [exact N|]. inversion N; subst. apply IH. assumption. Qed.

(* in the newest-first list the later message has the smaller index *)
Lemma before_index a b P :
  NoDup (map m_uid P) -> before a b P ->
  (pub_index (m_uid b) (rev P) < pub_index (m_uid a) (rev P))%nat /\ In a P /\ In b P /\ m_uid a <> m_uid b.
Proof.
  intros N (l1 & l2 & l3 & ->).
  assert (Nr : NoDup (map m_uid (rev (l1 ++ a :: l2 ++ b :: l3)))).
  { rewrite map_rev. apply NoDup_rev. exact N. }
  assert (Er : rev (l1 ++ a :: l2 ++ b :: l3) = rev l3 ++ (b :: rev l2) ++ a :: rev l1).
  { rewrite rev_app_distr. cbn [rev]. rewrite rev_app_distr. cbn [rev]. rewrite <- !app_assoc. reflexivity. }
  rewrite Er in *. rewrite !map_app in Nr. cbn [map] in Nr.
  set (U3 := map m_uid (rev l3)) in *. set (U2 := map m_uid (rev l2)) in *. set (U1 := map m_uid (rev l1)) in *.
  assert (Nb3 : ~ In (m_uid b) U3).
  { intros X. apply (nodup_app_disj _ _ _ Nr X). left. reflexivity. }
  assert (Na3 : ~ In (m_uid a) U3).
  { intros X. apply (nodup_app_disj _ _ _ Nr X). right. apply in_or_app. right. left. reflexivity. }
  pose proof (nodup_app_r _ _ Nr) as N2. cbn [app] in N2. inversion N2 as [|? ? NIb N2']; subst.
  assert (Nab : m_uid a <> m_uid b).
  { intros E. apply NIb. apply in_or_app. right. left. exact E. }
  assert (Na2 : ~ In (m_uid a) U2).
  { intros X. apply (nodup_app_disj _ _ _ N2' X). left. reflexivity. }
  split.
  - assert (Ib : pub_index (m_uid b) (rev l3 ++ (b :: rev l2) ++ a :: rev l1) = length (rev l3)).
    { rewrite pub_index_app_notin by exact Nb3. cbn [app]. rewrite pub_index_head. lia. }
    assert (Ia : pub_index (m_uid a) (rev l3 ++ (b :: rev l2) ++ a :: rev l1) = (length (rev l3) + S (length (rev l2)))%nat).
    { rewrite pub_index_app_notin by exact Na3.
      rewrite (pub_index_app_notin (m_uid a) (b :: rev l2)).
      - rewrite pub_index_head. cbn [length]. lia.
      - cbn [map]. intros [X|X]; [exact (Nab (eq_sym X))|exact (Na2 X)]. }
    rewrite Ib, Ia. lia.
  - split; [apply in_or_app; right; left; reflexivity|]. split; [|exact Nab].
    apply in_or_app. right. right. apply in_or_app. right. left. reflexivity.
Qed.

(* ---------- soundness ---------- *)
Definition pairs_ok (P : list omsg) (R : list N) : Prop :=
  forall a b, before a b P -> m_grp a = m_grp b -> m_qos a = m_qos b -> ord_ok (m_uid a) (m_uid b) R.

Lemma find_msg_rev P m : NoDup (map m_uid P) -> In m P -> find_msg (m_uid m) (rev P) = Some m.
Proof.
  intros N I. apply find_msg_nodup; [rewrite map_rev; apply NoDup_rev; exact N|apply in_rev in I; exact I].
Qed.

Lemma in_uids P u : In u (map m_uid P) -> exists m, In m P /\ m_uid m = u.
Proof. intros I. apply in_map_iff in I. destruct I as (m & E & I). exists m. tauto. Qed.

Lemma pairs_snoc_pkt P seen R u :
  NoDup (map m_uid P) ->
  (forall x, In x seen <-> In x R) ->
  In u (map m_uid P) ->
  (* the monitor's test at the first transmission of u found no later message of the same flow already received *)
  (~ In u seen -> forall m, find_msg u (rev P) = Some m ->
     find (fun u' => match find_msg u' (rev P) with
                     | Some m' => (m_grp m' =? m_grp m) && (m_qos m' =? m_qos m)
                                  && Nat.ltb (pub_index u' (rev P)) (pub_index u (rev P))
                     | None => false
                     end) seen = None) ->
  pairs_ok P R -> pairs_ok P (R ++ [u]).
Proof.
  intros N SR IU Test PO a b B Gr Qo.
  destruct (before_index a b P N B) as (Lt & Ia & Ib & Nab).
  apply ord_app; [exact Nab|apply (PO a b); assumption|].
  destruct (in_dec N.eq_dec (m_uid a) R) as [Ya|Na]; [left; exact Ya|right].
  destruct (in_dec N.eq_dec (m_uid b) R) as [Yb|Nb]; [left|right; split; [exact Nb|apply ord_single]].
  split; [exact Yb|]. intros [E|[]]. subst u.
  assert (NS : ~ In (m_uid a) seen) by (intros X; apply Na; apply SR; exact X).
  pose proof (Test NS a (find_msg_rev P a N Ia)) as F.
  assert (Sb : In (m_uid b) seen) by (apply SR; exact Yb).
  pose proof (find_none _ _ F (m_uid b) Sb) as Fb. cbn beta in Fb.
  rewrite (find_msg_rev P b N Ib) in Fb.
  rewrite <- Gr, <- Qo, !N.eqb_refl in Fb. cbn [andb] in Fb.
  apply Nat.ltb_ge in Fb. lia.
Qed.

Lemma pkts_sound P : NoDup (map m_uid P) -> forall l seen R,
  (forall x, In x seen <-> In x R) ->
  (forall u, In u (txs l) -> In u (map m_uid P)) ->
  chk12_pkts (rev P) seen l = None ->
  pairs_ok P R ->
  pairs_ok P (R ++ txs l) /\ (forall x, In x (fold_left seen_pkt l seen) <-> In x (R ++ txs l)).
Proof.
  intros N. induction l as [|p l IH]; intros seen R SR Ca Ck PO.
  - cbn. rewrite app_nil_r. tauto.
  - destruct p as [t pid d q u rc|u|u]; cbn [chk12_pkts] in Ck; rewrite txs_cons; cbn [tx_of fold_left seen_pkt];
      try (cbn [app]; apply IH; try assumption; intros x I; apply Ca; rewrite txs_cons; cbn [tx_of app]; exact I).
    destruct (t =? T_PUBLISH) eqn:Tp; cbn [andb] in *.
    2:{ cbn [app]. apply IH; try assumption. intros x I. apply Ca. rewrite txs_cons. cbn [tx_of]. rewrite Tp. exact I. }
    assert (Cu : In u (map m_uid P)) by (apply Ca; rewrite txs_cons; cbn [tx_of]; rewrite Tp; left; reflexivity).
    assert (Cl : forall x, In x (txs l) -> In x (map m_uid P)).
    { intros x I. apply Ca. rewrite txs_cons. cbn [tx_of]. rewrite Tp. right. exact I. }
    rewrite app_assoc.
    destruct (inb u seen) eqn:Iu; cbn [negb] in *.
    + (* received before *)
      assert (Su : In u seen) by (unfold inb in Iu; apply existsb_exists in Iu; destruct Iu as (y & Iy & Ey); replace u with y by lia; exact Iy).
      apply IH; try assumption.
      * intros x. rewrite in_app_iff. cbn [In]. split; [intros X; left; apply SR; exact X|].
        intros [X|[X|[]]]; [apply SR; exact X|subst x; exact Su].
      * apply (pairs_snoc_pkt P seen R u N SR Cu); [|exact PO]. intros NS. contradiction.
    + assert (NSu : ~ In u seen).
      { intros X. assert (inb u seen = true) by (unfold inb; apply existsb_exists; exists u; split; [exact X|apply N.eqb_refl]). congruence. }
      destruct (in_uids P u Cu) as (m & Im & Em). subst u.
      rewrite (find_msg_rev P m N Im) in Ck.
      match type of Ck with (match find ?f seen with _ => _ end) = None => destruct (find f seen) eqn:F end; [discriminate Ck|].
      apply IH; try assumption.
      * intros x. cbn [In]. rewrite in_app_iff. cbn [In]. rewrite SR. tauto.
      * apply (pairs_snoc_pkt P seen R (m_uid m) N SR Cu); [|exact PO].
        intros _ m0 Fm. rewrite (find_msg_rev P m N Im) in Fm. inversion Fm; subst m0. exact F.
Qed.

Lemma before_snoc a b P m :
  before a b (P ++ [m]) -> before a b P \/ (b = m /\ In a P).
Proof.
  intros (l1 & l2 & l3 & E).
  destruct l3 as [|y l3'] eqn:L3.
  - right. assert (E' : P ++ [m] = (l1 ++ a :: l2) ++ [b]) by (rewrite E, <- app_assoc; reflexivity).
    apply app_inj_tail in E'. destruct E' as [EP Em]. split; [congruence|]. rewrite EP. apply in_or_app. right. left. reflexivity.
  - left. assert (NE : y :: l3' <> []) by discriminate.
    destruct (exists_last NE) as (l3'' & x & El). rewrite El in E.
    assert (E' : P ++ [m] = (l1 ++ a :: l2 ++ b :: l3'') ++ [x]).
    { rewrite E. rewrite <- !app_assoc. cbn [app]. rewrite <- !app_assoc. reflexivity. }
    apply app_inj_tail in E'. destruct E' as [EP _]. exists l1, l2, l3''. exact EP.
Qed.

(* the invariant carried along the history *)
Record inv12 (v : view) (P : list omsg) (R : list N) : Prop := {
  i_pubs : v_pubs v = rev P;
  i_seen : forall x, In x (v_seen v) <-> In x R;
  i_caus : forall u, In u R -> In u (map m_uid P);
  i_ok : pairs_ok P R }.

Lemma accept12_sound c : forall tr v P R,
  NoDup (map m_uid (P ++ pubs_of tr)) -> causal P tr -> inv12 v P R -> accept12 c v tr ->
  pairs_ok (P ++ pubs_of tr) (R ++ rx_of tr).
Proof.
  induction tr as [|[o ob] tr IH]; intros v P R N Ca [Ip Is Ic Io] Ac.
  - cbn. rewrite !app_nil_r. exact Io.
  - cbn [pubs_of rx_of flat_map fst snd] in *. fold (pubs_of tr) in *. fold (rx_of tr) in *.
    cbn [causal accept12] in *. destruct Ca as [Ca0 Ca1]. destruct Ac as [Ck Ac].
    rewrite app_assoc in N. rewrite !app_assoc.
    set (P1 := P ++ msg_of o) in *.
    assert (N1 : NoDup (map m_uid P1)).
    { rewrite map_app in N. clear - N. revert N. generalize (map m_uid P1) (map m_uid (pubs_of tr)).
      induction l as [|x l IHl]; intros r N; [constructor|]. cbn [app] in N. inversion N as [|? ? NI Nd]; subst.
      constructor; [intros X; apply NI; apply in_or_app; left; exact X|apply (IHl r Nd)]. }
    (* the new message, if any, has not been received yet: all its pairs are fine *)
    assert (Io1 : pairs_ok P1 R).
    { unfold P1. destruct o; cbn [msg_of]; try (rewrite app_nil_r; exact Io).
      intros a b B Gr Qo. apply before_snoc in B. destruct B as [B|[Eb Ia]]; [apply (Io a b); assumption|].
      apply ord_nil_u2. intros X. apply Ic in X. subst b.
      unfold P1 in N1. cbn [msg_of] in N1. rewrite map_app in N1. cbn [map] in N1.
      apply (nodup_app_disj _ _ _ N1 X). left. reflexivity. }
    unfold chk12 in Ck. rewrite view_op_pubs, view_op_seen, Ip in Ck.
    assert (Er : msg_of o ++ rev P = rev P1).
    { unfold P1. rewrite rev_app_distr. destruct o; cbn [msg_of rev app]; reflexivity. }
    rewrite Er in Ck.
    destruct (pkts_sound P1 N1 (ob_pkts ob) (v_seen v) R Is Ca0 Ck Io1) as [Io2 Is2].
    apply (IH (view_step c v o ob) P1 (R ++ txs (ob_pkts ob))); try assumption.
    constructor.
    + rewrite view_step_pubs, Ip. exact Er.
    + intros x. rewrite view_step_seen. apply Is2.
    + intros u I. apply in_app_or in I. destruct I as [I|I]; [|apply Ca0; exact I].
      unfold P1. rewrite map_app. apply in_or_app. left. apply Ic. exact I.
    + exact Io2.
Qed.

(* C12: if the monitor accepts every step of an observed history then the history satisfies the specification *)
Theorem chk12_sound c tr :
  uids_distinct tr -> causal [] tr -> accept12 c view0 tr -> Spec12 tr.
Proof.
  intros N Ca Ac. unfold Spec12.
  apply (accept12_sound c tr view0 [] [] N Ca); [|exact Ac].
  constructor; [reflexivity|cbn; tauto|intros u []|].
  intros a b (l1 & l2 & l3 & E). destruct l1; discriminate E.
Qed.

(* the engine's verdict "no violation" is this acceptance, as long as the client itself made no protocol error *)
Fixpoint never_err (c : cfg) (v : view) (tr : list (op * obs)) : Prop :=
  match tr with
  | [] => True
  | (o, ob) :: r => v_err (view_op c v o ob) = false /\ never_err c (view_step c v o ob) r
  end.

Lemma replay_accept12 c : forall tr s v t n ag,
  rs_viol (replay 12 c s v t tr n ag) = None -> never_err c v tr -> accept12 c v tr.
Proof.
  induction tr as [|[o ob] tr IH]; intros s v t n ag H NE; [exact Logic.I|].
  cbn [replay] in H. cbn [never_err] in NE. destruct NE as [E NE].
  destruct (stepx c s o ob (orc_for s o ob)) as [s' outs].
  destruct (chk 12 c v o ob) as [vi|] eqn:Ck; [cbn in H; discriminate H|].
  cbn [accept12]. split; [|eapply IH; [exact H|exact NE]].
  unfold chk in Ck. rewrite E in Ck. exact Ck.
Qed.

Theorem engine12_sound c tr :
  uids_distinct tr -> causal [] tr -> never_err c view0 tr ->
  rs_viol (replay 12 c init_st view0 taint0 tr 0 true) = None -> Spec12 tr.
Proof.
  intros N Ca NE H. apply (chk12_sound c tr N Ca). eapply replay_accept12; eassumption.
Qed.

(* ====================================================================================== *)
(* C10 and C09: the step checks say what their specifications say (reflection)              *)
(* "unacknowledged outbound message" is the client-side bookkeeping of QosSpecs.view_step:  *)
(* v_pend = PUBLISH received and not yet PUBACKed / PUBCOMPed by the client's own packets    *)
(* ====================================================================================== *)
Lemma orelse_none {A} (a b : option A) : orelse a b = None -> a = None /\ b = None.
Proof. destruct a; cbn; [discriminate|tauto]. Qed.

Lemma first_some_none {A B} (f : A -> option B) l : first_some f l = None -> forall x, In x l -> f x = None.
Proof.
  induction l as [|y l IH]; intros H x I; [destruct I|]. cbn in H. destruct (f y) eqn:E; [discriminate|].
  destruct I as [->|I]; [exact E|apply IH; assumption].
Qed.

Definition snap_of (ob : obs) : list (N * srec) := match ob_snap ob with Some sv => sv_infl sv | None => [] end.

(* the record stored under k before the step is stored, equal, after it *)
Definition unchanged (k : N) (r : srec) (sn : list (N * srec)) : Prop :=
  exists r', snap_get k sn = Some r' /\ srec_eqb r r' = true.

(* identifiers: going through the packets of the step in order, every QoS 1/2 PUBLISH has an identifier in
   1..65535 and, if a message with this identifier is outstanding, it is that very message *)
Fixpoint ids_ok (pe : list pend) (l : list out) : Prop :=
  match l with
  | [] => True
  | OPkt t pid d q u rc :: r =>
      if (t =? T_PUBLISH) && (0 <? q) then
        1 <= pid <= 65535 /\
        match find_pend pid pe with
        | Some x => p_uid x = u /\ ids_ok pe r
        | None => ids_ok (pe ++ [{| p_pid := pid; p_uid := u; p_qos := q; p_rec := false |}]) r
        end
      else ids_ok pe r
  | _ :: r => ids_ok pe r
  end.

Record Spec10_step (c : cfg) (v : view) (o : op) (ob : obs) : Prop := {
  (* identifier allocation for one session is mutually exclusive (what a forced schedule observes) *)
  s10_mutex : ob_overlap ob = false;
  s10_ids : ids_ok (v_pend (view_op c v o ob)) (ob_pkts ob);
  (* the client's own PUBLISH / PUBREL identifier never completes, replaces or deletes an outbound record *)
  s10_own_pub : forall qos pid dup uid now r, o = InPublish qos pid dup uid now -> ob_closed ob = false ->
      snap_get pid (v_prev v) = Some r -> is_outbound_rec r = true -> unchanged pid r (snap_of ob);
  s10_own_rel : forall pid rc now r, o = InAck T_PUBREL pid rc now ->
      snap_get pid (v_prev v) = Some r -> is_outbound_rec r = true -> unchanged pid r (snap_of ob);
  (* ... and an acknowledgement of a broker identifier never touches the client's own exchange *)
  s10_ack : forall ty pid rc now r, o = InAck ty pid rc now -> ty <> T_PUBREL ->
      snap_get pid (v_prev v) = Some r -> is_inbound_rec r = true -> unchanged pid r (snap_of ob);
  (* ... nor does the delivery of another message (whatever identifier its publisher used) *)
  s10_deliver : forall pq sq uid grp now mei pv qf k r, o = OutPublish pq sq uid grp now mei pv qf ->
      In (k, r) (v_prev v) -> is_outbound_rec r = true -> unchanged k r (snap_of ob) }.

Lemma chk10_pkts_sound : forall l pe, chk10_pkts pe l = None -> ids_ok pe l.
Proof.
  induction l as [|p l IH]; intros pe H; [exact Logic.I|].
  destruct p as [t pid d q u rc|u|u]; cbn [chk10_pkts ids_ok] in *; try (apply IH; exact H).
  destruct ((t =? T_PUBLISH) && (0 <? q)); [|apply IH; exact H].
  destruct ((pid =? 0) || (65535 <? pid)) eqn:R; [discriminate H|]. split; [lia|].
  destruct (find_pend pid pe) as [x|]; [|apply IH; exact H].
  destruct (p_uid x =? u) eqn:E; [|discriminate H]. split; [lia|apply IH; exact H].
Qed.

Lemma unchanged_of_check k r sn (w : option viol) :
  match snap_get k sn with Some r' => if srec_eqb r r' then None else w | None => w end = None ->
  w <> None -> unchanged k r sn.
Proof.
  intros H NW. unfold unchanged. destruct (snap_get k sn) as [r'|]; [|contradiction].
  destruct (srec_eqb r r') eqn:E; [|contradiction]. exists r'. split; [reflexivity|exact E].
Qed.

Theorem chk10_sound c v o ob : chk10 c v o ob (view_op c v o ob) = None -> Spec10_step c v o ob.
Proof.
  unfold chk10. intros H. apply orelse_none in H. destruct H as [H0 H]. apply orelse_none in H.
  destruct H as [H1 H2]. fold (snap_of ob) in H2.
  constructor.
  - destruct (ob_overlap ob); [discriminate H0|reflexivity].
  - apply chk10_pkts_sound. exact H1.
  - intros qos pid dup uid now r -> Cl G Ob. rewrite G, Ob, Cl in H2. cbn [negb andb] in H2.
    eapply unchanged_of_check; [exact H2|discriminate].
  - intros pid rc now r -> G Ob. rewrite G in H2. cbn [N.eqb Pos.eqb T_PUBREL] in H2. rewrite Ob in H2.
    eapply unchanged_of_check; [exact H2|discriminate].
  - intros ty pid rc now r -> NT G Ib. rewrite G in H2. replace (ty =? T_PUBREL) with false in H2 by lia. rewrite Ib in H2.
    eapply unchanged_of_check; [exact H2|discriminate].
  - intros pq sq uid grp now mei pv qf k r -> I Ob.
    pose proof (first_some_none _ _ H2 (k, r) I) as F. cbn [fst snd] in F. rewrite Ob in F.
    eapply unchanged_of_check; [exact F|discriminate].
Qed.

(* ---------- C09 ---------- *)
Definition got (f : N -> N -> bool -> N -> N -> N -> bool) (ob : obs) : Prop := has_pkt f (ob_pkts ob) = true.

Record Spec09_step (c : cfg) (v : view) (o : op) (ob : obs) : Prop := {
  (* redelivered on every reconnection with the session present: same identifier and DUP; PUBREL after PUBREC *)
  s09_resend : is_resume o ob = true -> forall p, In p (v_pend v) ->
      if p_rec p then got (fun t pid _ _ _ _ => (t =? T_PUBREL) && (pid =? p_pid p)) ob
      else got (fun t pid d _ u _ => (t =? T_PUBLISH) && (pid =? p_pid p) && d && (u =? p_uid p)) ob;
  (* acknowledged messages are never sent again; an outstanding one only with its identifier and DUP, and not as
     PUBLISH once PUBREC was sent *)
  s09_norepeat : forall t pid d q u rc, In (OPkt t pid d q u rc) (ob_pkts ob) -> t = T_PUBLISH -> 0 < q ->
      ~ In u (v_done v) /\
      forall pe, find_pend_uid u (v_pend v) = Some pe -> p_rec pe = false /\ pid = p_pid pe /\ d = true;
  (* it stays in the session: after the step every outstanding and every queued message is stored *)
  s09_kept_pend : forall p, In p (v_pend (view_step c v o ob)) -> rec_for_pend p (snap_of ob) = true;
  s09_kept_owed : forall u, In u (v_owed (view_step c v o ob)) -> rec_for_uid u (snap_of ob) = true }.

Theorem chk09_sound c v o ob : chk09 c v o ob (view_step c v o ob) = None -> Spec09_step c v o ob.
Proof.
  unfold chk09. fold (snap_of ob). intros H.
  apply orelse_none in H. destruct H as [H1 H]. apply orelse_none in H. destruct H as [H2 H].
  apply orelse_none in H. destruct H as [H3 H4].
  constructor.
  - intros R p I. rewrite R in H1. pose proof (first_some_none _ _ H1 p I) as F. cbn beta in F. unfold got.
    destruct (p_rec p); match type of F with (if ?b then _ else _) = None => destruct b end; try reflexivity; discriminate F.
  - intros t pid d q u rc I -> Q. pose proof (first_some_none _ _ H2 _ I) as F. cbn beta iota in F.
    replace ((T_PUBLISH =? T_PUBLISH) && (0 <? q)) with true in F by (cbn; lia).
    destruct (inb u (v_done v)) eqn:D; [discriminate F|]. split.
    + intros X. assert (inb u (v_done v) = true) by (unfold inb; apply existsb_exists; exists u; split; [exact X|apply N.eqb_refl]).
      congruence.
    + intros pe Fp. rewrite Fp in F. destruct (p_rec pe); [discriminate F|].
      destruct (negb (pid =? p_pid pe) || negb d) eqn:E; [discriminate F|]. split; [reflexivity|]. split; [lia|].
      destruct d; [reflexivity|]. cbn in E. rewrite orb_true_r in E. discriminate E.
  - intros p I. pose proof (first_some_none _ _ H3 p I) as F. cbn beta in F.
    destruct (rec_for_pend p (snap_of ob)); [reflexivity|discriminate F].
  - intros u I. pose proof (first_some_none _ _ H4 u I) as F. cbn beta in F.
    destruct (rec_for_uid u (snap_of ob)); [reflexivity|discriminate F].
Qed.
