(* C38 — the $SYS statistics.  Model of every update of s.Info.{ClientsConnected, Subscriptions,
   Retained, Inflight} in server.go / clients.go next to the state those counters are supposed to
   count (Clients map with the in-flight map of every session, topic index, retained store), the
   specification "counter = actual count, none negative", and the engine.  No proofs here.

   The operations are the harness steps annotated with the routing outcome read back from the real
   broker (which session received which in-flight record, which sessions / messages expired): the
   model replays the bookkeeping of the handlers, not topic matching or flow control. *)
From MV Require Import Base.Val Session.Pkt.
Open Scope Z_scope.

(* ---------- state ---------- *)

Record client := {
  c_id : bytes;
  c_conn : bool;                     (* the connection is open *)
  c_v3clean : bool;                  (* Properties.Clean && ProtocolVersion < 5 *)
  c_infl : list (N * N);             (* State.Inflight: packet id -> packet type *)
  c_subs : list (bytes * bytes) }.   (* State.Subscriptions: filter -> key of the subscription in the index *)

Record st := {
  s_clients : list client;           (* Server.Clients *)
  s_index : list (bytes * bytes);    (* topic index: (client id, subscription key) *)
  s_ret : list bytes;                (* Topics.Retained: topics *)
  n_conn : Z; n_subs : Z; n_ret : Z; n_infl : Z }.   (* Info.ClientsConnected/Subscriptions/Retained/Inflight *)

Definition init : st :=
  {| s_clients := []; s_index := []; s_ret := []; n_conn := 0; n_subs := 0; n_ret := 0; n_infl := 0 |}.

(* ---------- the actual counts ---------- *)

Fixpoint sum_infl (l : list client) : Z :=
  match l with [] => 0 | c :: r => Z.of_nat (length (c_infl c)) + sum_infl r end.
Fixpoint count_conn (l : list client) : Z :=
  match l with [] => 0 | c :: r => (if c_conn c then 1 else 0) + count_conn r end.

Definition act_conn (s : st) : Z := count_conn (s_clients s).
Definition act_subs (s : st) : Z := Z.of_nat (length (s_index s)).
Definition act_ret (s : st) : Z := Z.of_nat (length (s_ret s)).
Definition act_infl (s : st) : Z := sum_infl (s_clients s).

(* the specification, from the property text *)
Definition stats_ok (s : st) : Prop :=
  n_conn s = act_conn s /\ n_subs s = act_subs s /\ n_ret s = act_ret s /\ n_infl s = act_infl s /\
  0 <= n_conn s /\ 0 <= n_subs s /\ 0 <= n_ret s /\ 0 <= n_infl s.

(* ---------- finite maps as lists (first match wins) ---------- *)

Fixpoint find_ty (pid : N) (l : list (N * N)) : option N :=
  match l with [] => None | (p, t) :: r => if (p =? pid)%N then Some t else find_ty pid r end.
Definition mem_pid (pid : N) (l : list (N * N)) : bool :=
  match find_ty pid l with Some _ => true | None => false end.
Fixpoint del_pid (pid : N) (l : list (N * N)) : list (N * N) :=
  match l with [] => [] | (p, t) :: r => if (p =? pid)%N then r else (p, t) :: del_pid pid r end.
Fixpoint set_pid (pid ty : N) (l : list (N * N)) : list (N * N) :=
  match l with
  | [] => [(pid, ty)]
  | (p, t) :: r => if (p =? pid)%N then (p, ty) :: r else (p, t) :: set_pid pid ty r
  end.

Fixpoint mem_b (k : bytes) (l : list bytes) : bool :=
  match l with [] => false | x :: r => beq_bytes x k || mem_b k r end.
Fixpoint del_b (k : bytes) (l : list bytes) : list bytes :=
  match l with [] => [] | x :: r => if beq_bytes x k then r else x :: del_b k r end.
Definition add_b (k : bytes) (l : list bytes) : list bytes := if mem_b k l then l else k :: l.

Definition beq_pair (a b : bytes * bytes) : bool := beq_bytes (fst a) (fst b) && beq_bytes (snd a) (snd b).
Fixpoint mem_p (k : bytes * bytes) (l : list (bytes * bytes)) : bool :=
  match l with [] => false | x :: r => beq_pair x k || mem_p k r end.
Fixpoint del_p (k : bytes * bytes) (l : list (bytes * bytes)) : list (bytes * bytes) :=
  match l with [] => [] | x :: r => if beq_pair x k then r else x :: del_p k r end.

(* client's own subscription map, keyed by the filter *)
Fixpoint csub_del (f : bytes) (l : list (bytes * bytes)) : list (bytes * bytes) :=
  match l with [] => [] | (g, k) :: r => if beq_bytes g f then r else (g, k) :: csub_del f r end.
Definition csub_add (f k : bytes) (l : list (bytes * bytes)) : list (bytes * bytes) := (f, k) :: csub_del f l.

(* Clients map *)
Fixpoint get (id : bytes) (l : list client) : option client :=
  match l with [] => None | c :: r => if beq_bytes (c_id c) id then Some c else get id r end.
Fixpoint upd (id : bytes) (f : client -> client) (l : list client) : list client :=
  match l with [] => [] | c :: r => if beq_bytes (c_id c) id then f c :: r else c :: upd id f r end.
Fixpoint drop (id : bytes) (l : list client) : list client :=
  match l with [] => [] | c :: r => if beq_bytes (c_id c) id then r else c :: drop id r end.

Definition with_clients (s : st) (l : list client) : st :=
  {| s_clients := l; s_index := s_index s; s_ret := s_ret s;
     n_conn := n_conn s; n_subs := n_subs s; n_ret := n_ret s; n_infl := n_infl s |}.
Definition with_index (s : st) (ix : list (bytes * bytes)) (n : Z) : st :=
  {| s_clients := s_clients s; s_index := ix; s_ret := s_ret s;
     n_conn := n_conn s; n_subs := n; n_ret := n_ret s; n_infl := n_infl s |}.
Definition with_ret (s : st) (r : list bytes) (n : Z) : st :=
  {| s_clients := s_clients s; s_index := s_index s; s_ret := r;
     n_conn := n_conn s; n_subs := n_subs s; n_ret := n; n_infl := n_infl s |}.
Definition with_ninfl (s : st) (n : Z) : st :=
  {| s_clients := s_clients s; s_index := s_index s; s_ret := s_ret s;
     n_conn := n_conn s; n_subs := n_subs s; n_ret := n_ret s; n_infl := n |}.
Definition with_nconn (s : st) (n : Z) : st :=
  {| s_clients := s_clients s; s_index := s_index s; s_ret := s_ret s;
     n_conn := n; n_subs := n_subs s; n_ret := n_ret s; n_infl := n_infl s |}.

Definition set_infl (c : client) (l : list (N * N)) : client :=
  {| c_id := c_id c; c_conn := c_conn c; c_v3clean := c_v3clean c; c_infl := l; c_subs := c_subs c |}.
Definition set_subs (c : client) (l : list (bytes * bytes)) : client :=
  {| c_id := c_id c; c_conn := c_conn c; c_v3clean := c_v3clean c; c_infl := c_infl c; c_subs := l |}.
Definition set_conn (c : client) (b : bool) : client :=
  {| c_id := c_id c; c_conn := b; c_v3clean := c_v3clean c; c_infl := c_infl c; c_subs := c_subs c |}.

Definition infl_of (s : st) (id : bytes) : list (N * N) :=
  match get id (s_clients s) with Some c => c_infl c | None => [] end.

(* ---------- the primitives of the code, each with its counter update ---------- *)

(* if ok := cl.State.Inflight.Set(pk); ok { atomic.AddInt64(&s.Info.Inflight, 1) } *)
Definition infl_set (s : st) (id : bytes) (pid ty : N) : st :=
  match get id (s_clients s) with
  | None => s
  | Some c =>
      let isnew := negb (mem_pid pid (c_infl c)) in
      with_ninfl (with_clients s (upd id (fun c => set_infl c (set_pid pid ty (c_infl c))) (s_clients s)))
                 (if isnew then n_infl s + 1 else n_infl s)
  end.

(* cl.State.Inflight.Set(pk) with the result ignored (processPubrec, processPubrel) *)
Definition infl_set_ignore (s : st) (id : bytes) (pid ty : N) : st :=
  with_clients s (upd id (fun c => set_infl c (set_pid pid ty (c_infl c))) (s_clients s)).

(* if ok := cl.State.Inflight.Delete(id); ok { atomic.AddInt64(&s.Info.Inflight, -1) } *)
Definition infl_del (s : st) (id : bytes) (pid : N) : st :=
  match get id (s_clients s) with
  | None => s
  | Some c =>
      if mem_pid pid (c_infl c) then
        with_ninfl (with_clients s (upd id (fun c => set_infl c (del_pid pid (c_infl c))) (s_clients s)))
                   (n_infl s - 1)
      else s
  end.

(* Client.ClearInflights: every record deleted and counted *)
Definition clear_inflights (s : st) (id : bytes) : st :=
  fold_left (fun s r => infl_del s id (fst r)) (infl_of s id) s.

(* isNew := s.Topics.Subscribe(id, sub); if isNew { Subscriptions + 1 } *)
Definition sub_add (s : st) (id key : bytes) : st :=
  if mem_p (id, key) (s_index s) then s else with_index s ((id, key) :: s_index s) (n_subs s + 1).

(* if s.Topics.Unsubscribe(filter, id) { Subscriptions - 1 } *)
Definition sub_del (s : st) (id key : bytes) : st :=
  if mem_p (id, key) (s_index s) then with_index s (del_p (id, key) (s_index s)) (n_subs s - 1) else s.

Definition csubs_of (s : st) (id : bytes) : list (bytes * bytes) :=
  match get id (s_clients s) with Some c => c_subs c | None => [] end.

(* Server.UnsubscribeClient for a client that is not (yet) marked taken over *)
Definition unsubscribe_client (s : st) (id : bytes) : st :=
  let fm := csubs_of s id in
  let s1 := with_clients s (upd id (fun c => set_subs c []) (s_clients s)) in
  fold_left (fun s fk => sub_del s id (snd fk)) fm s1.

(* retainMessage: store / clear, then Info.Retained := Retained.Len() *)
Definition retain (s : st) (rop : N) (topic : bytes) : st :=
  if (rop =? 1)%N then let r := add_b topic (s_ret s) in with_ret s r (Z.of_nat (length r))
  else if (rop =? 2)%N then let r := del_b topic (s_ret s) in with_ret s r (Z.of_nat (length r))
  else s.

(* one call of publishToClient that reached Inflight.Set: outcome 1 = the pending-writes queue was
   full and the record was rolled back (counted, after the fix) *)
Definition deliver (s : st) (d : bytes * N * N) : st :=
  let '(id, pid, outcome) := d in
  let s1 := infl_set s id pid T_PUBLISH in
  if (outcome =? 1)%N then infl_del s1 id pid else s1.

(* processPacket's tail: a deferred record is written and deleted *)
Definition immediate (s : st) (id : bytes) (imm : option N) : st :=
  match imm with Some pid => infl_del s id pid | None => s end.

(* ---------- operations ---------- *)

Inductive op :=
| OConnect (id : bytes) (clean : bool) (ver : N) (accepted : bool)
| OClose (id : bytes) (expire : bool)
| OSubscribe (id : bytes) (pid : N) (fs : list (bytes * bytes * bool)) (dels : list (bytes * N * N)) (imm : option N)
| OUnsubscribe (id : bytes) (pid : N) (fs : list (bytes * bytes)) (imm : option N)
| OPublish (id : bytes) (qos pid rop : N) (topic : bytes) (rejected : bool) (dels : list (bytes * N * N)) (imm : option N)
| OAck (id : bytes) (ty pid : N) (bad : bool) (imm : option N)
| OExpireClients (ids : list bytes)
| OExpireRetained (topics : list bytes)
| OExpireInflight (l : list (bytes * N))
| OSysTick (topics : list bytes)
(* the same client packets when the write of the broker's answer fails (broken connection): the handler
   returns the error right after the write, the connection ends *)
| OPublishFault (id : bytes) (qos pid rop : N) (topic : bytes) (rejected : bool)
| OPubrelFault (id : bytes) (pid : N).

Definition new_client (id : bytes) (v3clean : bool) (infl : list (N * N)) (subs : list (bytes * bytes)) : client :=
  {| c_id := id; c_conn := true; c_v3clean := v3clean; c_infl := infl; c_subs := subs |}.

Definition is_ack_done (t : N) : bool := ((t =? T_PUBACK) || (t =? T_PUBCOMP))%N.

(* attachClient: ClientsConnected + 1, inheritClientSession, Clients.Add, ResendInflightMessages;
   the handler of a connected predecessor ends in the same step (ClientsConnected - 1) *)
Definition step_connect (s : st) (id : bytes) (clean : bool) (ver : N) (accepted : bool) : st :=
  if negb accepted then s else
  let v3clean := clean && (ver <? 5)%N in
  match get id (s_clients s) with
  | None =>
      with_nconn (with_clients s (new_client id v3clean [] [] :: s_clients s)) (n_conn s + 1)
  | Some ex =>
      let s0 := with_nconn s (n_conn s + 1) in
      if clean || c_v3clean ex then
        let s1 := unsubscribe_client s0 id in
        let s2 := clear_inflights s1 id in
        let s3 := with_clients s2 (upd id (fun _ => new_client id v3clean [] []) (s_clients s2)) in
        if c_conn ex then with_nconn s3 (n_conn s3 - 1) else s3
      else
        (* the session is inherited: in-flight cloned, subscriptions re-registered under the same id *)
        let s1 := fold_left (fun s fk => sub_add s id (snd fk)) (c_subs ex) s0 in
        let s2 := with_clients s1 (upd id (fun _ => new_client id v3clean (c_infl ex) (c_subs ex)) (s_clients s1)) in
        let s3 := if c_conn ex then with_nconn s2 (n_conn s2 - 1) else s2 in
        (* ResendInflightMessages: completed acknowledgements are deleted after the resend *)
        fold_left (fun s r => if is_ack_done (snd r) then infl_del s id (fst r) else s) (c_infl ex) s3
  end.

(* the handler of a connected client ends: deferred ClientsConnected - 1, session removed if it expires now *)
Definition step_close (s : st) (id : bytes) (expire : bool) : st :=
  match get id (s_clients s) with
  | None => s
  | Some c =>
      if negb (c_conn c) then s else
      let s1 := with_nconn (with_clients s (upd id (fun c => set_conn c false) (s_clients s))) (n_conn s - 1) in
      if expire then
        let s2 := clear_inflights s1 id in
        let s3 := unsubscribe_client s2 id in
        with_clients s3 (drop id (s_clients s3))
      else s1
  end.

Definition step_subscribe (s : st) (id : bytes) (fs : list (bytes * bytes * bool)) : st :=
  fold_left (fun (s : st) (f : bytes * bytes * bool) => let '(flt, key, acc) := f in
               if acc then
                 let s1 := sub_add s id key in
                 with_clients s1 (upd id (fun c => set_subs c (csub_add flt key (c_subs c))) (s_clients s1))
               else s) fs s.

Definition step_unsubscribe (s : st) (id : bytes) (pid : N) (fs : list (bytes * bytes)) : st :=
  if mem_pid pid (infl_of s id) then s     (* packet identifier in use: every filter answered 0x91 *)
  else fold_left (fun (s : st) (f : bytes * bytes) => let s1 := sub_del s id (snd f) in
                    with_clients s1 (upd id (fun c => set_subs c (csub_del (fst f) (c_subs c))) (s_clients s1))) fs s.

(* processPublish *)
Definition step_publish (s : st) (id : bytes) (qos pid rop : N) (topic : bytes) (rejected : bool)
                        (dels : list (bytes * N * N)) : st :=
  if rejected then s else
  match find_ty pid (infl_of s id) with
  | Some t =>
      if (t =? T_PUBREC)%N then s                                   (* 0x91, nothing else happens *)
      else
        let s1 := infl_del s id pid in
        let s2 := retain s1 rop topic in
        if (qos =? 0)%N then fold_left deliver dels s2
        else
          let s3 := infl_set s2 id pid (if (qos =? 2)%N then T_PUBREC else T_PUBACK) in
          let s4 := if (qos =? 1)%N then infl_del s3 id pid else s3 in
          fold_left deliver dels s4
  | None =>
      let s2 := retain s rop topic in
      if (qos =? 0)%N then fold_left deliver dels s2
      else
        let s3 := infl_set s2 id pid (if (qos =? 2)%N then T_PUBREC else T_PUBACK) in
        let s4 := if (qos =? 1)%N then infl_del s3 id pid else s3 in
        fold_left deliver dels s4
  end.

(* processPuback / processPubrec / processPubrel / processPubcomp *)
Definition step_ack (s : st) (id : bytes) (ty pid : N) (bad : bool) : st :=
  let present := mem_pid pid (infl_of s id) in
  if (ty =? T_PUBACK)%N then infl_del s id pid
  else if (ty =? T_PUBREC)%N then
    if negb present then s else if bad then infl_del s id pid else infl_set_ignore s id pid T_PUBREL
  else if (ty =? T_PUBREL)%N then
    if negb present then s else if bad then infl_del s id pid
    else infl_del (infl_set_ignore s id pid T_PUBCOMP) id pid
  else if (ty =? T_PUBCOMP)%N then infl_del s id pid
  else s.

(* clearExpiredClients (after fix ed068ea): ClearInflights, UnsubscribeClient, Clients.Delete;
   only sessions whose connection has ended (StopTime <> 0) are candidates *)
Definition expire_client (s : st) (id : bytes) : st :=
  match get id (s_clients s) with
  | Some c =>
      if c_conn c then s
      else
        let s1 := clear_inflights s id in
        let s2 := unsubscribe_client s1 id in
        with_clients s2 (drop id (s_clients s2))
  | None => s
  end.

(* processPublish, QoS 1/2, when cl.WritePacket(ack) fails: the acknowledgement has been stored in flight
   (counted) and stays there; the QoS 1 completion, the fan-out and processPacket's tail are not reached *)
Definition step_publish_fault (s : st) (id : bytes) (qos pid rop : N) (topic : bytes) (rejected : bool) : st :=
  if rejected then s else
  let ackty := if (qos =? 2)%N then T_PUBREC else T_PUBACK in
  match find_ty pid (infl_of s id) with
  | Some t =>
      if (t =? T_PUBREC)%N then s
      else infl_set (retain (infl_del s id pid) rop topic) id pid ackty
  | None => infl_set (retain s rop topic) id pid ackty
  end.

(* processPubrel (reason 0) when the write of the PUBCOMP fails: the PUBCOMP has replaced the record in
   flight and stays; an unknown identifier changes nothing *)
Definition step_pubrel_fault (s : st) (id : bytes) (pid : N) : st :=
  if mem_pid pid (infl_of s id) then infl_set_ignore s id pid T_PUBCOMP else s.

Definition step (s : st) (o : op) : st :=
  match o with
  | OConnect id clean ver acc => step_connect s id clean ver acc
  | OClose id expire => step_close s id expire
  | OSubscribe id pid fs dels imm => immediate (fold_left deliver dels (step_subscribe s id fs)) id imm
  | OUnsubscribe id pid fs imm => immediate (step_unsubscribe s id pid fs) id imm
  | OPublish id qos pid rop topic rej dels imm => immediate (step_publish s id qos pid rop topic rej dels) id imm
  | OAck id ty pid bad imm => immediate (step_ack s id ty pid bad) id imm
  | OExpireClients ids => fold_left expire_client ids s
  | OExpireRetained topics =>
      let r := fold_left (fun r t => del_b t r) topics (s_ret s) in with_ret s r (Z.of_nat (length r))
  | OExpireInflight l => fold_left (fun s x => infl_del s (fst x) (snd x)) l s
  | OSysTick topics =>
      let r := fold_left (fun r t => add_b t r) topics (s_ret s) in with_ret s r (Z.of_nat (length r))
  | OPublishFault id qos pid rop topic rej => step_publish_fault s id qos pid rop topic rej
  | OPubrelFault id pid => step_pubrel_fault s id pid
  end.

Fixpoint run (s : st) (ops : list op) : st :=
  match ops with [] => s | o :: r => run (step s o) r end.

(* ---------- engine ----------
   case = (steps)   step = ((op ...) (infoConn infoSubs infoRet infoInfl actSubs actRet actInfl actConn)) *)

Definition as_imm (v : val) : option (option N) :=
  match v with VL [] => Some None | VL [VN p] => Some (Some p) | _ => None end.
Definition as_del (v : val) : option (bytes * N * N) :=
  match v with VL [VB id; VN pid; VN o] => Some (id, pid, o) | _ => None end.
Definition as_sf (v : val) : option (bytes * bytes * bool) :=
  match v with VL [VB f; VB k; a] => do a' <- as_bool a; Some (f, k, a') | _ => None end.
Definition as_uf (v : val) : option (bytes * bytes) :=
  match v with VL [VB f; VB k] => Some (f, k) | _ => None end.
Definition as_ip (v : val) : option (bytes * N) :=
  match v with VL [VB id; VN pid] => Some (id, pid) | _ => None end.

Definition as_op (v : val) : option op :=
  match v with
  | VL [VN 1%N; VB id; clean; VN ver; acc] =>
      do c <- as_bool clean; do a <- as_bool acc; Some (OConnect id c ver a)
  | VL [VN 2%N; VB id; ex] => do e <- as_bool ex; Some (OClose id e)
  | VL [VN 3%N; VB id; VN pid; VL fs; VL dels; imm] =>
      do fs' <- map_opt as_sf fs; do d <- map_opt as_del dels; do i <- as_imm imm; Some (OSubscribe id pid fs' d i)
  | VL [VN 4%N; VB id; VN pid; VL fs; imm] =>
      do fs' <- map_opt as_uf fs; do i <- as_imm imm; Some (OUnsubscribe id pid fs' i)
  | VL [VN 5%N; VB id; VN qos; VN pid; VN rop; VB topic; rej; VL dels; imm] =>
      do r <- as_bool rej; do d <- map_opt as_del dels; do i <- as_imm imm; Some (OPublish id qos pid rop topic r d i)
  | VL [VN 6%N; VB id; VN ty; VN pid; bad; imm] =>
      do b <- as_bool bad; do i <- as_imm imm; Some (OAck id ty pid b i)
  | VL [VN 7%N; ids] => do l <- as_BL ids; Some (OExpireClients l)
  | VL [VN 8%N; ts] => do l <- as_BL ts; Some (OExpireRetained l)
  | VL [VN 9%N; VL l] => do l' <- map_opt as_ip l; Some (OExpireInflight l')
  | VL [VN 10%N; ts] => do l <- as_BL ts; Some (OSysTick l)
  | VL [VN 11%N; VB id; VN qos; VN pid; VN rop; VB topic; rej] => do r <- as_bool rej; Some (OPublishFault id qos pid rop topic r)
  | VL [VN 12%N; VB id; VN pid] => Some (OPubrelFault id pid)
  | _ => None
  end.

Record obs := { ob_conn : Z; ob_subs : Z; ob_ret : Z; ob_infl : Z; oa_subs : Z; oa_ret : Z; oa_infl : Z; oa_conn : Z;
                ob_extra : list (Z * Z) }.
(* ob_extra: further $SYS counters next to the value recounted by the harness (packets / messages
   received and sent; after a $SYS tick clients total and disconnected): (reported, actual) *)

Definition as_pair (v : val) : option (Z * Z) :=
  match v with VL [a; b] => do a' <- as_Z a; do b' <- as_Z b; Some (a', b') | _ => None end.

Definition as_obs (v : val) : option obs :=
  let mk ic isb ir ii asb ar ai ac ex :=
      do ic' <- as_Z ic; do isb' <- as_Z isb; do ir' <- as_Z ir; do ii' <- as_Z ii; do ex' <- map_opt as_pair ex;
      Some {| ob_conn := ic'; ob_subs := isb'; ob_ret := ir'; ob_infl := ii'; oa_subs := Z.of_N asb;
              oa_ret := Z.of_N ar; oa_infl := Z.of_N ai; oa_conn := Z.of_N ac; ob_extra := ex' |} in
  match v with
  | VL [ic; isb; ir; ii; VN asb; VN ar; VN ai; VN ac] => mk ic isb ir ii asb ar ai ac []
  | VL [ic; isb; ir; ii; VN asb; VN ar; VN ai; VN ac; VL ex] => mk ic isb ir ii asb ar ai ac ex
  | _ => None
  end.

Definition as_step (v : val) : option (list op * obs) :=
  match v with VL [VL ops; o] => do ops' <- map_opt as_op ops; do o' <- as_obs o; Some (ops', o') | _ => None end.

(* the specification evaluated on what the real broker reported *)
Definition obs_ok (o : obs) : bool :=
  (ob_conn o =? oa_conn o) && (ob_subs o =? oa_subs o) && (ob_ret o =? oa_ret o) && (ob_infl o =? oa_infl o) &&
  (0 <=? ob_conn o) && (0 <=? ob_subs o) && (0 <=? ob_ret o) && (0 <=? ob_infl o) &&
  forallb (fun p : Z * Z => (fst p =? snd p) && (0 <=? fst p)) (ob_extra o).

(* the real broker's counters and counts equal the model's *)
Definition obs_is_model (o : obs) (s : st) : bool :=
  (ob_conn o =? n_conn s) && (ob_subs o =? n_subs s) && (ob_ret o =? n_ret s) && (ob_infl o =? n_infl s) &&
  (oa_conn o =? act_conn s) && (oa_subs o =? act_subs s) && (oa_ret o =? act_ret s) && (oa_infl o =? act_infl s).

Definition is_takeover (s : st) (o : op) : bool :=
  match o with OConnect id _ _ true => match get id (s_clients s) with Some _ => true | None => false end | _ => false end.
Definition is_expiry (o : op) : bool :=
  match o with
  | OExpireClients (_ :: _) | OExpireRetained (_ :: _) | OExpireInflight (_ :: _) | OSysTick _ => true
  | _ => false
  end.
Definition is_fault (o : op) : bool :=
  match o with OPublishFault _ _ _ _ _ _ | OPubrelFault _ _ => true | _ => false end.
Definition has_rollback (o : op) : bool :=
  let rb := existsb (fun d : bytes * N * N => (snd d =? 1)%N) in
  match o with OSubscribe _ _ _ d _ => rb d | OPublish _ _ _ _ _ _ d _ => rb d | _ => false end.

(* walk the history: (code, features); the first step whose observation breaks the specification
   (code 1) or differs from the model (code 2) decides *)
Fixpoint walk (s : st) (feat : N) (steps : list (list op * obs)) : N * N :=
  match steps with
  | [] => (0%N, feat)
  | (ops, o) :: r =>
      let '(s', feat') :=
        fold_left (fun (a : st * N) (x : op) =>
                     let '(s, f) := a in
                     (step s x,
                      N.lor f ((if is_takeover s x then 1 else 0) + (if is_expiry x then 2 else 0) +
                               (if has_rollback x then 4 else 0) + (if is_fault x then 8 else 0))%N))
                  ops (s, feat) in
      if negb (obs_ok o) then (1%N, feat')
      else if obs_is_model o s' then walk s' feat' r
      else (2%N, feat')
  end.

Definition feat_tag (f : N) : bytes :=
  if N.testbit f 3 then tag "write-fault"
  else if N.testbit f 2 then tag "queue-full"
  else if N.testbit f 0 then (if N.testbit f 1 then tag "takeover+expiry" else tag "takeover")
  else if N.testbit f 1 then tag "expiry" else tag "plain".

(* ENGINE stats Session.Stats.stats_engine *)
Definition stats_engine (v : val) : val :=
  match v with
  | VL [VL steps] =>
      match map_opt as_step steps with
      | Some steps' =>
          let '(code, feat) := walk init 0%N steps' in
          verdict code (feat_tag feat) (Nat.leb 5 (length steps')) []
      | None => bad_case
      end
  | _ => bad_case
  end.
