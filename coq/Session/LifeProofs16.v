(* C16 — proofs on the life-cycle model: where will publications come from, that they carry the
   registered content, that a connection's will is published at most once and never after a normal
   DISCONNECT. *)
From MV Require Import Base.Val Session.Lifecycle Session.LifeSpec Session.LifeBase Session.LifeInv Session.LifeProofs13
  Session.LifeProofs14 Session.LifeProofs15.
From Coq Require Import Lia ZifyBool ZifyN ZifyNat.
Open Scope N_scope.

(* will publications of connection c in a list of outputs *)
Definition wills_for (c : N) (outs : list out) : list msg :=
  flat_map (fun o => match o with OWill c' m => if c' =? c then [m] else [] | _ => [] end) outs.

Lemma wills_for_app c a b : wills_for c (a ++ b) = wills_for c a ++ wills_for c b.
Proof. unfold wills_for. apply flat_map_app. Qed.

Definition no_wills (outs : list out) : Prop := forall c, wills_for c outs = [].

Lemma no_wills_app a b : no_wills a -> no_wills b -> no_wills (a ++ b).
Proof. intros A B c. rewrite wills_for_app, A, B. reflexivity. Qed.

Lemma deliver_no_wills k m ix : forall s, no_wills (snd (deliver k m ix s)).
Proof.
  induction ix as [|[[id f] q] r IH]; intro s; cbn [deliver]; [intro c; reflexivity|].
  destruct (beq_bytes f (m_topic m)); [|apply IH]. destruct (client_of s id) as [o|]; [|apply IH].
  match goal with |- context [deliver k m r ?sx] => specialize (IH sx); destruct (deliver k m r sx) as [s'' outs] end.
  cbn [snd] in *. apply no_wills_app; [|exact IH]. destruct (o_open o); intro c; reflexivity.
Qed.

Lemma resend_no_wills c l : no_wills (resend c l).
Proof. intro x. induction l as [|m r IH]; cbn; [reflexivity|exact IH]. Qed.

(* the will state of connection c: what its object would publish, what is pending for it *)
Definition armed_msg (s : state) (c : N) : option msg :=
  match get_obj c (st_objs s) with
  | Some o => if w_flag (o_will o) then Some (will_msg (o_will o)) else None
  | None => None
  end.
Definition pending_for (s : state) (c : N) : list msg :=
  flat_map (fun e => if d_conn (snd e) =? c then [d_msg (snd e)] else []) (st_wills s).

(* sendLWT: publishes only the armed will of its own connection, and disarms it *)
Lemma send_lwt_wills k now c s c' :
  wills_for c' (snd (send_lwt k now c s)) =
  (if c' =? c then match armed_msg s c with
                   | Some m => match get_obj c (st_objs s) with
                               | Some o => if 0 <? w_delay (o_will o) then [] else [m]
                               | None => [] end
                   | None => [] end
   else []).
Proof.
  unfold send_lwt, armed_msg. destruct (get_obj c (st_objs s)) as [o|] eqn:G.
  2:{ destruct (c' =? c); reflexivity. }
  destruct (w_flag (o_will o)); cbn [negb]; [|destruct (c' =? c); reflexivity].
  destruct (0 <? w_delay (o_will o)); [destruct (c' =? c); reflexivity|].
  match goal with |- context [publish k ?m ?sx] => pose proof (deliver_no_wills k m (st_index sx) sx) as D; unfold publish;
    destruct (deliver k m (st_index sx) sx) as [s2 outs] end. cbn [snd] in *.
  cbn [wills_for flat_map]. fold (wills_for c' (outs ++ [OWillSent (o_id o)])).
  rewrite wills_for_app, (D c'). cbn. rewrite N.eqb_sym. destruct (c' =? c); reflexivity.
Qed.

(* ---------- a generic frame: functions that preserve a projection of every object ---------- *)
Section Frame.
  Context {A : Type} (pr : cobj -> A).
  Hypothesis pr_session : forall o a b, pr (with_session o a b) = pr o.
  Hypothesis pr_stopped : forall o now, pr (stopped o now) = pr o.
  Hypothesis pr_phase : forall o ph, pr (with_phase o ph) = pr o.
  Hypothesis pr_tko : forall o, pr (with_tko o) = pr o.

  Definition same_pr (s s' : state) : Prop :=
    forall c, option_map pr (get_obj c (st_objs s')) = option_map pr (get_obj c (st_objs s)).

  Lemma same_pr_refl s : same_pr s s.
  Proof. intro c. reflexivity. Qed.
  Lemma same_pr_trans a b c : same_pr a b -> same_pr b c -> same_pr a c.
  Proof. intros K1 K2 x. rewrite K2. apply K1. Qed.

  Lemma same_pr_upd s o o0 : get_obj (o_conn o) (st_objs s) = Some o0 -> pr o = pr o0 -> same_pr s (upd_obj s o).
  Proof.
    intros G E c. unfold upd_obj. cbn. destruct (N.eq_dec c (o_conn o)) as [->|N].
    - rewrite get_put_same, G. cbn. congruence.
    - rewrite get_put_other by exact N. reflexivity.
  Qed.

  Lemma same_pr_obj s s' c o : same_pr s s' -> get_obj c (st_objs s) = Some o ->
    exists o', get_obj c (st_objs s') = Some o' /\ pr o' = pr o.
  Proof.
    intros K G. specialize (K c). rewrite G in K. cbn in K.
    destruct (get_obj c (st_objs s')) as [o'|]; [|discriminate]. exists o'. split; [reflexivity|]. cbn in K. congruence.
  Qed.
  Lemma same_pr_obj_back s s' c o' : same_pr s s' -> get_obj c (st_objs s') = Some o' ->
    exists o, get_obj c (st_objs s) = Some o /\ pr o' = pr o.
  Proof.
    intros K G. specialize (K c). rewrite G in K. cbn in K.
    destruct (get_obj c (st_objs s)) as [o|]; [|discriminate]. exists o. split; [reflexivity|]. cbn in K. congruence.
  Qed.

  Lemma deliver_same_pr k m ix : forall s, same_pr s (fst (deliver k m ix s)).
  Proof.
    induction ix as [|[[id f] q] r IH]; intro s; cbn [deliver]; [apply same_pr_refl|].
    destruct (beq_bytes f (m_topic m)); [|apply IH].
    destruct (client_of s id) as [o|] eqn:C; [|apply IH].
    pose proof (client_of_obj _ _ _ C) as G.
    match goal with |- context [upd_obj s ?o'] => set (oo := o') end.
    assert (E1 : same_pr s (upd_obj s oo)).
    { apply same_pr_upd with (o0 := o); subst oo; destruct (0 <? _); cbn; auto. }
    specialize (IH (upd_obj s oo)). destruct (deliver k m r (upd_obj s oo)) as [s'' outs]. cbn [fst] in *.
    eapply same_pr_trans; eassumption.
  Qed.

  Lemma retain_msg_same_pr k m s : same_pr s (retain_msg k m s).
  Proof. unfold retain_msg. destruct (k_retain k); [|apply same_pr_refl]. destruct (m_payload m); intro c; reflexivity. Qed.

  Lemma unsubscribe_client_same_pr c s : same_pr s (unsubscribe_client c s).
  Proof.
    unfold unsubscribe_client. destruct (get_obj c (st_objs s)) as [o|] eqn:G; [|apply same_pr_refl].
    assert (E1 : same_pr s (upd_obj s (with_session o [] (o_infl o)))).
    { apply same_pr_upd with (o0 := o); cbn; [rewrite (get_obj_conn _ _ _ G); exact G|apply pr_session]. }
    destruct (o_tko o); [exact E1|]. eapply same_pr_trans; [exact E1|intro x; reflexivity].
  Qed.

  Lemma clear_inflights_same_pr c s : same_pr s (clear_inflights c s).
  Proof.
    unfold clear_inflights. destruct (get_obj c (st_objs s)) as [o|] eqn:G; [|apply same_pr_refl].
    apply same_pr_upd with (o0 := o); cbn; [rewrite (get_obj_conn _ _ _ G); exact G|apply pr_session].
  Qed.

  Lemma disconnect_client_same_pr now c code s : same_pr s (fst (disconnect_client now c code s)).
  Proof.
    unfold disconnect_client. destruct (get_obj c (st_objs s)) as [o|] eqn:G; [|apply same_pr_refl].
    destruct (o_open o); [|apply same_pr_refl]. cbn [fst].
    apply same_pr_upd with (o0 := o); [rewrite stopped_conn, (get_obj_conn _ _ _ G); exact G|apply pr_stopped].
  Qed.

  Lemma match_upd_same_pr e (f : cobj -> cobj) s : (forall x, o_conn (f x) = o_conn x /\ pr (f x) = pr x) ->
    same_pr s (match get_obj e (st_objs s) with Some x => upd_obj s (f x) | None => s end).
  Proof.
    intro H. destruct (get_obj e (st_objs s)) as [x|] eqn:G; [|apply same_pr_refl].
    destruct (H x) as [P Q]. apply same_pr_upd with (o0 := x); [rewrite P, (get_obj_conn _ _ _ G); exact G|exact Q].
  Qed.
End Frame.

(* instances: the will of every object, and its handler phase *)
Definition same_will := same_pr o_will.
Definition same_phase := same_pr o_phase.

(* ---------- the delayed-will table ---------- *)
Lemma will_flag_lemmas :
  (forall o a b, o_will (with_session o a b) = o_will o) /\ (forall o now, o_will (stopped o now) = o_will o) /\
  (forall o ph, o_will (with_phase o ph) = o_will o) /\ (forall o, o_will (with_tko o) = o_will o).
Proof. repeat split; intros; try reflexivity. unfold stopped. destruct (o_open o); reflexivity. Qed.

Lemma phase_lemmas :
  (forall o a b, o_phase (with_session o a b) = o_phase o) /\ (forall o now, o_phase (stopped o now) = o_phase o).
Proof. split; intros; try reflexivity. unfold stopped. destruct (o_open o); reflexivity. Qed.

(* a connection's will can still be published: its object is armed and its handler has not finished,
   or the delayed-will table holds an entry of it *)
Definition armed (s : state) (c : N) : bool :=
  match get_obj c (st_objs s) with
  | Some o => w_flag (o_will o) && negb (match o_phase o with PhDone => true | _ => false end)
  | None => false
  end.
Definition has_pending (s : state) (c : N) : bool := existsb (fun e => d_conn (snd e) =? c) (st_wills s).
Definition live (s : state) (c : N) : bool := armed s c || has_pending s c.

(* entries of the table belong to connections whose handler has finished, under their own identifier;
   keys are unique *)
Record wwf (s : state) : Prop := {
  ww_nodup : NoDup (map fst (st_wills s));
  ww_done : forall id d, In (id, d) (st_wills s) ->
              exists o, get_obj (d_conn d) (st_objs s) = Some o /\ o_id o = id /\ o_phase o = PhDone }.

Lemma wwf_init : wwf init.
Proof. split; cbn; [constructor|intros id d []]. Qed.

Lemma has_pending_in s c : has_pending s c = true <-> exists id d, In (id, d) (st_wills s) /\ d_conn d = c.
Proof.
  unfold has_pending. rewrite existsb_exists. split.
  - intros ([id d] & I & E). apply N.eqb_eq in E. exists id, d. auto.
  - intros (id & d & I & E). exists (id, d). split; [exact I|apply N.eqb_eq; exact E].
Qed.

(* an armed connection has nothing pending (its handler has not finished) *)
Lemma armed_not_pending s c : wwf s -> armed s c = true -> has_pending s c = false.
Proof.
  intros [_ WD] A. destruct (has_pending s c) eqn:P; [|reflexivity]. apply has_pending_in in P.
  destruct P as (id & d & I & E). destruct (WD id d I) as (o & G & _ & PH). subst c.
  unfold armed in A. rewrite G, PH in A. rewrite andb_false_r in A. discriminate.
Qed.

(* publications of the tick come from the table *)
Lemma tick_will_wills k now c : forall l s,
  forall m, In m (wills_for c (snd (tick_will k now l s))) -> exists id d, In (id, d) l /\ d_conn d = c /\ d_msg d = m.
Proof.
  induction l as [|[id d] r IH]; intros s m I; cbn [tick_will] in I; [destruct I|].
  destruct (d_due d <? now)%Z.
  2:{ destruct (IH s m I) as (id' & d' & I' & H). exists id', d'. split; [right; exact I'|exact H]. }
  pose proof (deliver_no_wills k (d_msg d) (st_index s) s) as D. unfold publish in I.
  destruct (deliver k (d_msg d) (st_index s) s) as [s1 o1]. cbn [snd] in D.
  assert (N2 : forall s2 o2, (s2, o2) = match client_of s1 id with
            | Some o => (upd_obj (if m_retain (d_msg d) then retain_msg k (d_msg d) s1 else s1) (with_will o no_will), [OWillSent id])
            | None => (s1, []) end -> no_wills o2).
  { intros s2 o2 E. destruct (client_of s1 id); inversion E; intro x; reflexivity. }
  destruct (match client_of s1 id with
            | Some o => (upd_obj (if m_retain (d_msg d) then retain_msg k (d_msg d) s1 else s1) (with_will o no_will), [OWillSent id])
            | None => (s1, []) end) as [s2 o2] eqn:E2.
  specialize (N2 s2 o2 eq_refl).
  match type of I with context [tick_will k now r ?sx] => specialize (IH sx); destruct (tick_will k now r sx) as [s4 o4] end.
  cbn [snd] in *. cbn [wills_for flat_map] in I. fold (wills_for c (o1 ++ o2 ++ o4)) in I.
  rewrite !wills_for_app, (D c), (N2 c) in I. cbn [app] in I. apply in_app_or in I. destruct I as [I|I].
  - destruct (d_conn d =? c) eqn:E; [|destruct I]. destruct I as [<-|[]]. exists id, d. split; [left; reflexivity|].
    split; [apply N.eqb_eq; exact E|reflexivity].
  - destruct (IH m I) as (id' & d' & I' & H). exists id', d'. split; [right; exact I'|exact H].
Qed.

(* ---------- where armed wills and table entries come from ---------- *)
Definition is_armed (o : cobj) : Prop := w_flag (o_will o) = true /\ o_phase o <> PhDone.

Definition wsrc (s s' : state) : Prop :=
  (forall c o', get_obj c (st_objs s') = Some o' -> is_armed o' ->
     exists o, get_obj c (st_objs s) = Some o /\ is_armed o /\ o_will o' = o_will o /\ o_id o' = o_id o) /\
  (forall id d, In (id, d) (st_wills s') ->
     In (id, d) (st_wills s) \/
     exists o, get_obj (d_conn d) (st_objs s) = Some o /\ is_armed o /\ d_msg d = will_msg (o_will o) /\ o_id o = id).

Lemma wsrc_refl s : wsrc s s.
Proof. split; [intros c o G A; exists o; auto|intros id d I; left; exact I]. Qed.

Lemma wsrc_trans a b c : wsrc a b -> wsrc b c -> wsrc a c.
Proof.
  intros [A1 B1] [A2 B2]. split.
  - intros x o2 G2 AR. destruct (A2 x o2 G2 AR) as (o1 & G1 & AR1 & E1 & I1). destruct (A1 x o1 G1 AR1) as (o0 & G0 & AR0 & E0 & I0).
    exists o0. split; [exact G0|split; [exact AR0|split; congruence]].
  - intros id d I. destruct (B2 id d I) as [I1|(o1 & G1 & AR1 & E1 & ID1)].
    + apply B1, I1.
    + destruct (A1 _ o1 G1 AR1) as (o0 & G0 & AR0 & E0 & I0). right. exists o0.
      split; [exact G0|split; [exact AR0|split; congruence]].
Qed.

(* a function that keeps every object's will, phase and identifier and only shrinks the table *)
Lemma wsrc_frame s s' :
  same_pr o_will s s' -> same_pr o_phase s s' -> same_pr o_id s s' ->
  (forall e, In e (st_wills s') -> In e (st_wills s)) -> wsrc s s'.
Proof.
  intros SW SP SI SUB. split.
  - intros c o' G [F P]. destruct (same_pr_obj_back o_will _ _ _ _ SW G) as (o & G0 & EW).
    destruct (same_pr_obj_back o_phase _ _ _ _ SP G) as (o1 & G1 & EP). destruct (same_pr_obj_back o_id _ _ _ _ SI G) as (o2 & G2 & EI).
    rewrite G0 in G1, G2. inversion G1; inversion G2; subst o1 o2.
    exists o. split; [exact G0|]. split; [split; congruence|split; congruence].
  - intros id d I. left. apply SUB, I.
Qed.

Lemma id_lemmas :
  (forall o a b, o_id (with_session o a b) = o_id o) /\ (forall o now, o_id (stopped o now) = o_id o) /\
  (forall o ph, o_id (with_phase o ph) = o_id o) /\ (forall o, o_id (with_tko o) = o_id o).
Proof. repeat split; intros; try reflexivity. unfold stopped. destruct (o_open o); reflexivity. Qed.

Ltac frame3 L :=
  apply wsrc_frame;
  [ apply (L _ o_will) | apply (L _ o_phase) | apply (L _ o_id) | ];
  try (intros; reflexivity); try (intros; unfold stopped; match goal with |- context [o_open ?o] => destruct (o_open o) end; reflexivity).

Lemma deliver_wsrc k m ix s : wsrc s (fst (deliver k m ix s)).
Proof.
  apply wsrc_frame.
  - apply deliver_same_pr. intros; reflexivity.
  - apply deliver_same_pr. intros; reflexivity.
  - apply deliver_same_pr. intros; reflexivity.
  - assert (H : forall ix s, st_wills (fst (deliver k m ix s)) = st_wills s).
    { clear. induction ix as [|[[id f] q] r IH]; intro s; cbn [deliver]; [reflexivity|].
      destruct (beq_bytes f (m_topic m)); [|apply IH]. destruct (client_of s id); [|apply IH].
      match goal with |- context [deliver k m r ?sx] => specialize (IH sx); destruct (deliver k m r sx) as [s'' outs] end.
      cbn [fst] in *. rewrite IH. reflexivity. }
    rewrite H. auto.
Qed.

Lemma retain_msg_wsrc k m s : wsrc s (retain_msg k m s).
Proof.
  apply wsrc_frame; try apply retain_msg_same_pr.
  unfold retain_msg. destruct (k_retain k); [|auto]. destruct (m_payload m); auto.
Qed.

Lemma unsubscribe_client_wsrc c s : wsrc s (unsubscribe_client c s).
Proof.
  apply wsrc_frame; try (apply unsubscribe_client_same_pr; intros; reflexivity).
  unfold unsubscribe_client. destruct (get_obj c (st_objs s)) as [o|]; [|auto]. destruct (o_tko o); auto.
Qed.

Lemma clear_inflights_wsrc c s : wsrc s (clear_inflights c s).
Proof.
  apply wsrc_frame; try (apply clear_inflights_same_pr; intros; reflexivity).
  unfold clear_inflights. destruct (get_obj c (st_objs s)); auto.
Qed.

Lemma disconnect_client_wsrc now c code s : wsrc s (fst (disconnect_client now c code s)).
Proof.
  apply wsrc_frame; try (apply disconnect_client_same_pr; intros; unfold stopped; destruct (o_open o); reflexivity).
  unfold disconnect_client. destruct (get_obj c (st_objs s)) as [o|]; [|auto]. destruct (o_open o); auto.
Qed.

(* replacing an object by one that is armed only if the old one was, with the same will message *)
Lemma wsrc_upd s o o0 :
  get_obj (o_conn o) (st_objs s) = Some o0 -> o_id o = o_id o0 ->
  (is_armed o -> is_armed o0 /\ o_will o = o_will o0) -> wsrc s (upd_obj s o).
Proof.
  intros G EI H. split.
  - intros c o' G' AR. unfold upd_obj in G'. cbn in G'. destruct (N.eq_dec c (o_conn o)) as [->|N].
    + rewrite get_put_same in G'. inversion G'; subst o'. destruct (H AR) as [A0 E0]. exists o0. auto.
    + rewrite get_put_other in G' by exact N. exists o'. auto.
  - intros id d I. left. exact I.
Qed.

Lemma wsrc_set_clients s x : wsrc s (set_clients s x).
Proof. split; [intros c o G A; exists o; auto|intros id d I; left; exact I]. Qed.
Lemma wsrc_set_index s x : wsrc s (set_index s x).
Proof. split; [intros c o G A; exists o; auto|intros id d I; left; exact I]. Qed.
Lemma wsrc_adel s id : wsrc s (set_wills s (adel id (st_wills s))).
Proof. split; [intros c o G A; exists o; auto|]. intros i d I. left. cbn in I. apply in_adel in I. tauto. Qed.

Lemma send_lwt_wsrc k now c s :
  (forall o, get_obj c (st_objs s) = Some o -> o_phase o <> PhDone) -> wsrc s (fst (send_lwt k now c s)).
Proof.
  intro ND. unfold send_lwt. destruct (get_obj c (st_objs s)) as [o|] eqn:G; [|apply wsrc_refl].
  destruct (w_flag (o_will o)) eqn:F; cbn [negb]; [|apply wsrc_refl].
  destruct (0 <? w_delay (o_will o)).
  - cbn [fst]. split; [intros x ox Gx A; exists ox; auto|].
    intros id d I. cbn in I. unfold aset in I. apply in_app_or in I. destruct I as [I|[I|[]]].
    + left. apply in_adel in I. tauto.
    + inversion I; subst. cbn. right. exists o. split; [exact G|]. split; [split; [exact F|apply ND; reflexivity]|auto].
  - set (s1 := if w_retain (o_will o) then retain_msg k (will_msg (o_will o)) s else s).
    assert (E1 : wsrc s s1) by (subst s1; destruct (w_retain (o_will o)); [apply retain_msg_wsrc|apply wsrc_refl]).
    pose proof (deliver_wsrc k (will_msg (o_will o)) (st_index s1) s1) as E2.
    pose proof (deliver_ok k (will_msg (o_will o)) (st_index s1) s1) as [EV2 _]. unfold publish.
    destruct (deliver k (will_msg (o_will o)) (st_index s1) s1) as [s2 outs]. cbn [fst] in *.
    eapply wsrc_trans; [exact E1|]. eapply wsrc_trans; [exact E2|].
    assert (EV1 : ev s s1) by (subst s1; destruct (w_retain (o_will o)); [apply retain_msg_ev|apply ev_refl]).
    destruct (ev_trans _ _ _ EV1 EV2) as (_ & HH & _). specialize (HH c). unfold hasobj in HH. rewrite G in HH.
    destruct (get_obj c (st_objs s2)) as [o2|] eqn:G2; [|discriminate].
    apply wsrc_upd with (o0 := o2); cbn; [rewrite (get_obj_conn _ _ _ G2); exact G2|reflexivity|].
    intros [FF _]. cbn in FF. discriminate.
Qed.

Lemma send_lwt_same_phase k now c s : same_pr o_phase s (fst (send_lwt k now c s)).
Proof.
  unfold send_lwt. destruct (get_obj c (st_objs s)) as [o|] eqn:G; [|apply same_pr_refl].
  destruct (negb (w_flag (o_will o))); [apply same_pr_refl|]. destruct (0 <? w_delay (o_will o)); [intro x; reflexivity|].
  set (s1 := if w_retain (o_will o) then retain_msg k (will_msg (o_will o)) s else s).
  assert (E1 : same_pr o_phase s s1) by (subst s1; destruct (w_retain (o_will o)); [apply retain_msg_same_pr|apply same_pr_refl]).
  pose proof (deliver_same_pr o_phase (fun _ _ _ => eq_refl) k (will_msg (o_will o)) (st_index s1) s1) as E2. unfold publish.
  destruct (deliver k (will_msg (o_will o)) (st_index s1) s1) as [s2 outs]. cbn [fst] in *.
  eapply same_pr_trans; [exact E1|]. eapply same_pr_trans; [exact E2|].
  destruct (same_pr_obj o_phase _ _ _ _ (same_pr_trans o_phase _ _ _ E1 E2) G) as (o2 & G2 & EP). rewrite G2.
  apply same_pr_upd with (o0 := o2); cbn; [rewrite (get_obj_conn _ _ _ G2); exact G2|reflexivity].
Qed.

Lemma handler_tail_wsrc k now c err s :
  (forall o, get_obj c (st_objs s) = Some o -> o_phase o <> PhDone) -> wsrc s (fst (handler_tail k now c err s)).
Proof.
  intro ND. unfold handler_tail.
  assert (A : wsrc s (fst (if err then send_lwt k now c s else (s, [])))) by (destruct err; [apply send_lwt_wsrc, ND|apply wsrc_refl]).
  destruct (if err then send_lwt k now c s else (s, [])) as [s1 o1]. cbn [fst] in A.
  destruct (get_obj c (st_objs s1)) as [o|] eqn:G; [|exact A]. cbn [fst].
  pose proof (get_obj_conn _ _ _ G) as EC.
  set (o' := if err then stopped o now else with_will o no_will).
  assert (E2 : wsrc s1 (upd_obj s1 o')).
  { apply wsrc_upd with (o0 := o).
    - subst o'. destruct err; [rewrite stopped_conn|cbn]; rewrite EC; exact G.
    - subst o'. destruct err; [unfold stopped; destruct (o_open o)|]; reflexivity.
    - subst o'. destruct err.
      + unfold is_armed, stopped. destruct (o_open o); cbn; auto.
      + intros [FF _]. cbn in FF. discriminate. }
  set (s2 := upd_obj s1 o') in *.
  set (s3 := if expire_cond o' && negb (o_tko o')
             then set_clients (unsubscribe_client c (clear_inflights c s2)) (adel (o_id o') (st_clients s2)) else s2).
  assert (E3 : wsrc s2 s3).
  { subst s3. destruct (expire_cond o' && negb (o_tko o')); [|apply wsrc_refl].
    eapply wsrc_trans; [apply clear_inflights_wsrc|]. eapply wsrc_trans; [apply unsubscribe_client_wsrc|apply wsrc_set_clients]. }
  eapply wsrc_trans; [exact A|]. eapply wsrc_trans; [exact E2|]. eapply wsrc_trans; [exact E3|].
  destruct (get_obj c (st_objs s3)) as [x|] eqn:G3; [|apply wsrc_refl].
  apply wsrc_upd with (o0 := x); cbn; [rewrite (get_obj_conn _ _ _ G3); exact G3|reflexivity|].
  intros [_ PH]. cbn in PH. congruence.
Qed.

Lemma tick_will_wsrc k now l : forall s, wsrc s (fst (tick_will k now l s)).
Proof.
  induction l as [|[id d] r IH]; intro s; cbn [tick_will]; [apply wsrc_refl|].
  destruct (d_due d <? now)%Z; [|apply IH].
  pose proof (deliver_wsrc k (d_msg d) (st_index s) s) as E1. unfold publish.
  destruct (deliver k (d_msg d) (st_index s) s) as [s1 o1]. cbn [fst] in E1.
  assert (E2 : wsrc s1 (fst (match client_of s1 id with
                         | Some o => (upd_obj (if m_retain (d_msg d) then retain_msg k (d_msg d) s1 else s1) (with_will o no_will), [OWillSent id])
                         | None => (s1, []) end))).
  { destruct (client_of s1 id) as [o|] eqn:C; [|apply wsrc_refl]. cbn [fst].
    pose proof (client_of_obj _ _ _ C) as G.
    set (s' := if m_retain (d_msg d) then retain_msg k (d_msg d) s1 else s1).
    assert (E' : wsrc s1 s') by (subst s'; destruct (m_retain (d_msg d)); [apply retain_msg_wsrc|apply wsrc_refl]).
    eapply wsrc_trans; [exact E'|].
    assert (G' : get_obj (o_conn o) (st_objs s') = Some o).
    { subst s'. destruct (m_retain (d_msg d)); [|exact G]. unfold retain_msg. destruct (k_retain k); [|exact G]. destruct (m_payload (d_msg d)); exact G. }
    apply wsrc_upd with (o0 := o); cbn; [exact G'|reflexivity|]. intros [FF _]. cbn in FF. discriminate. }
  destruct (match client_of s1 id with
            | Some o => (upd_obj (if m_retain (d_msg d) then retain_msg k (d_msg d) s1 else s1) (with_will o no_will), [OWillSent id])
            | None => (s1, []) end) as [s2 o2]. cbn [fst] in *.
  specialize (IH (set_wills s2 (adel id (st_wills s2)))).
  destruct (tick_will k now r (set_wills s2 (adel id (st_wills s2)))) as [s4 o4]. cbn [fst] in *.
  eapply wsrc_trans; [exact E1|]. eapply wsrc_trans; [exact E2|]. eapply wsrc_trans; [apply wsrc_adel|exact IH].
Qed.

Lemma tick_clients_wsrc k now l : forall s, wsrc s (fst (tick_clients k now l s)).
Proof.
  induction l as [|[id c] r IH]; intro s; cbn [tick_clients]; [apply wsrc_refl|].
  destruct (get_obj c (st_objs s)) as [o|]; [|apply IH]. destruct (o_disc o =? 0)%Z; [apply IH|].
  match goal with |- context [if (?a <? now)%Z then _ else _] => destruct (a <? now)%Z end; [|apply IH].
  match goal with |- context [tick_clients k now r ?sx] => specialize (IH sx); destruct (tick_clients k now r sx) as [s3 outs] end.
  cbn [fst] in *. eapply wsrc_trans; [|exact IH].
  eapply wsrc_trans; [apply clear_inflights_wsrc|]. eapply wsrc_trans; [apply unsubscribe_client_wsrc|apply wsrc_set_clients].
Qed.

Lemma wsrc_match_upd e (f : cobj -> cobj) s :
  (forall x, o_conn (f x) = o_conn x /\ o_id (f x) = o_id x /\ (is_armed (f x) -> is_armed x /\ o_will (f x) = o_will x)) ->
  wsrc s (match get_obj e (st_objs s) with Some x => upd_obj s (f x) | None => s end).
Proof.
  intro H. destruct (get_obj e (st_objs s)) as [x|] eqn:G; [|apply wsrc_refl].
  destruct (H x) as (P & Q & R). apply wsrc_upd with (o0 := x); [rewrite P, (get_obj_conn _ _ _ G); exact G|exact Q|exact R].
Qed.

Lemma inherit_wsrc k now p n s :
  let '(s1, n1, sp, o1) := inherit k now p n s in wsrc s s1 /\ o_will n1 = o_will n /\ o_phase n1 = o_phase n /\ o_conn n1 = o_conn n.
Proof.
  unfold inherit. destruct (aget (o_id n) (st_clients s)) as [e|]; [|split; [apply wsrc_refl|auto]].
  destruct (get_obj e (st_objs s)) as [eo0|] eqn:G0; [|split; [apply wsrc_refl|auto]].
  pose proof (disconnect_client_wsrc now e 142 s) as E1.
  destruct (disconnect_client now e 142 s) as [s1 o1]. cbn [fst] in E1.
  set (s1' := match get_obj e (st_objs s1) with
              | Some x => if (match o_phase x with PhReading => true | _ => false end) && negb (o_open x)
                          then upd_obj s1 (with_phase x PhHeld) else s1
              | None => s1 end).
  assert (E1' : wsrc s1 s1').
  { subst s1'. destruct (get_obj e (st_objs s1)) as [x|] eqn:G1; [|apply wsrc_refl].
    destruct (o_phase x) eqn:PH; cbn [andb]; try apply wsrc_refl.
    destruct (negb (o_open x)); [|apply wsrc_refl].
    apply wsrc_upd with (o0 := x); cbn; [rewrite (get_obj_conn _ _ _ G1); exact G1|reflexivity|].
    intros [FF _]. cbn in FF. split; [split; [exact FF|congruence]|reflexivity]. }
  assert (E01 : wsrc s s1') by (eapply wsrc_trans; eassumption).
  assert (TK : forall z, wsrc z (match get_obj e (st_objs z) with Some x => upd_obj z (with_tko x) | None => z end)).
  { intro z. apply (wsrc_match_upd e with_tko). intro x. repeat split; destruct H; auto. }
  destruct (cp_clean p || (o_clean eo0 && (o_ver eo0 <? 5))).
  - split; [|repeat split; reflexivity]. eapply wsrc_trans; [exact E01|]. eapply wsrc_trans; [apply unsubscribe_client_wsrc|].
    eapply wsrc_trans; [apply clear_inflights_wsrc|apply TK].
  - split; [|repeat split; reflexivity]. eapply wsrc_trans; [exact E01|]. eapply wsrc_trans; [apply TK|].
    eapply wsrc_trans; [apply wsrc_set_index|]. eapply wsrc_trans; [apply unsubscribe_client_wsrc|apply clear_inflights_wsrc].
Qed.

Lemma reading_phase s c o : reading s c = Some o -> get_obj c (st_objs s) = Some o /\ o_phase o = PhReading.
Proof.
  unfold reading. destruct (get_obj c (st_objs s)) as [x|]; [|discriminate].
  destruct (o_phase x) eqn:PH; try discriminate. destruct (o_open x); [|discriminate]. intro H. inversion H; subst. auto.
Qed.

Lemma step_old_wsrc k s o : is_new_conn s o = None -> wsrc s (fst (step k s o)).
Proof.
  destruct o; cbn [is_new_conn step]; intro H.
  - destruct (memN c (st_used s)); [apply wsrc_refl|discriminate].
  - destruct (memN c (st_used s)); [apply wsrc_refl|discriminate].
  - unfold do_disconnect. destruct (reading s c) as [ob|] eqn:RD; [|apply wsrc_refl].
    destruct (reading_phase s c ob RD) as [G PH]. pose proof (get_obj_conn _ _ _ G) as EC.
    destruct (match sei with Some v => (0 <? v) && (o_sei ob =? 0) | None => false end).
    + pose proof (disconnect_client_wsrc now c 130 s) as E1.
      pose proof (disconnect_client_same_pr o_phase (fun o now => proj2 phase_lemmas o now) now c 130 s) as P1.
      destruct (disconnect_client now c 130 s) as [s1 o1]. cbn [fst] in *.
      assert (ND : forall x, get_obj c (st_objs s1) = Some x -> o_phase x <> PhDone).
      { intros x Gx. destruct (same_pr_obj_back o_phase _ _ _ _ P1 Gx) as (y & Gy & EP). rewrite G in Gy. inversion Gy; subst. congruence. }
      pose proof (handler_tail_wsrc k now c true s1 ND) as E2. destruct (handler_tail k now c true s1) as [s2 o2]. cbn [fst] in *.
      eapply wsrc_trans; eassumption.
    + set (o' := match sei with Some v => with_sei ob (if k_maxsei k <? v then k_maxsei k else v) true | None => ob end).
      assert (F' : o_conn o' = c /\ o_id o' = o_id ob /\ o_will o' = o_will ob /\ o_phase o' = o_phase ob) by (subst o'; destruct sei; cbn; auto).
      destruct F' as (C' & I' & W' & P').
      assert (E1 : wsrc s (upd_obj s o')).
      { apply wsrc_upd with (o0 := ob); [rewrite C'; exact G|exact I'|]. intros [A B]. rewrite W', P' in *. split; [split; assumption|reflexivity]. }
      assert (G1 : get_obj c (st_objs (upd_obj s o')) = Some o') by (unfold upd_obj; cbn; rewrite <- C'; apply get_put_same).
      destruct (negb (rc =? 0)).
      * assert (ND : forall x, get_obj c (st_objs (upd_obj s o')) = Some x -> o_phase x <> PhDone) by (intros x Gx; rewrite G1 in Gx; inversion Gx; subst; congruence).
        pose proof (handler_tail_wsrc k now c true _ ND) as E2. destruct (handler_tail k now c true (upd_obj s o')) as [s2 o2]. cbn [fst] in *.
        eapply wsrc_trans; eassumption.
      * set (s2 := set_wills (upd_obj s o') (adel (o_id o') (st_wills (upd_obj s o')))).
        set (s3 := upd_obj s2 (stopped o' now)).
        assert (E2 : wsrc (upd_obj s o') s2) by apply wsrc_adel.
        assert (E3 : wsrc s2 s3).
        { apply wsrc_upd with (o0 := o'); [rewrite stopped_conn, C'; exact G1|unfold stopped; destruct (o_open o'); reflexivity|].
          unfold is_armed, stopped. destruct (o_open o'); cbn; auto. }
        assert (ND : forall x, get_obj c (st_objs s3) = Some x -> o_phase x <> PhDone).
        { intros x Gx. subst s3. unfold upd_obj in Gx. cbn in Gx.
          pose proof (get_put_same (stopped o' now) (put_obj o' (st_objs s))) as GP. rewrite stopped_conn, C' in GP. rewrite GP in Gx.
          inversion Gx; subst x. unfold stopped. destruct (o_open o'); cbn; congruence. }
        pose proof (handler_tail_wsrc k now c false s3 ND) as E4. destruct (handler_tail k now c false s3) as [s4 o4]. cbn [fst] in *.
        eapply wsrc_trans; [exact E1|]. eapply wsrc_trans; [exact E2|]. eapply wsrc_trans; eassumption.
  - unfold do_netclose. destruct (reading s c) as [ob|] eqn:RD; [|apply wsrc_refl].
    destruct (reading_phase s c ob RD) as [G PH]. apply handler_tail_wsrc. intros x Gx. rewrite G in Gx. inversion Gx; subst. congruence.
  - unfold do_teardown. destruct (get_obj c (st_objs s)) as [ob|] eqn:G; [|apply wsrc_refl].
    destruct (o_phase ob) eqn:PH; try apply wsrc_refl. apply handler_tail_wsrc. intros x Gx. rewrite G in Gx. inversion Gx; subst. congruence.
  - apply tick_clients_wsrc.
  - apply tick_will_wsrc.
  - unfold do_subscribe. destruct (reading s c) as [ob|] eqn:RD; [|apply wsrc_refl]. destruct (reading_phase s c ob RD) as [G _]. cbn [fst].
    eapply wsrc_trans; [|apply wsrc_set_index]. apply wsrc_upd with (o0 := ob); cbn; [rewrite (get_obj_conn _ _ _ G); exact G|reflexivity|auto].
  - unfold do_publish. destruct (reading s c); [|apply wsrc_refl].
    eapply wsrc_trans; [|apply deliver_wsrc]. destruct (m_retain m); [apply retain_msg_wsrc|apply wsrc_refl].
  - unfold do_second_connect. destruct (reading s c) as [ob|] eqn:RD; [|apply wsrc_refl].
    destruct (reading_phase s c ob RD) as [G PH].
    assert (ND0 : forall x, get_obj c (st_objs s) = Some x -> o_phase x <> PhDone) by (intros x Gx; rewrite G in Gx; inversion Gx; subst; congruence).
    pose proof (send_lwt_wsrc k now c s ND0) as E1. pose proof (send_lwt_same_phase k now c s) as P1.
    destruct (send_lwt k now c s) as [s1 o1]. cbn [fst] in *.
    assert (E2 : wsrc s1 (fst (if o_ver ob =? 5 then disconnect_client now c 130 s1 else (s1, []))) /\
                 same_pr o_phase s1 (fst (if o_ver ob =? 5 then disconnect_client now c 130 s1 else (s1, [])))).
    { destruct (o_ver ob =? 5); [split; [apply disconnect_client_wsrc|apply disconnect_client_same_pr; apply (proj2 phase_lemmas)]|split; [apply wsrc_refl|apply same_pr_refl]]. }
    destruct (if o_ver ob =? 5 then disconnect_client now c 130 s1 else (s1, [])) as [s2 o2]. cbn [fst] in E2. destruct E2 as [E2 P2].
    assert (ND : forall x, get_obj c (st_objs s2) = Some x -> o_phase x <> PhDone).
    { intros x Gx. destruct (same_pr_obj_back o_phase _ _ _ _ (same_pr_trans o_phase _ _ _ P1 P2) Gx) as (y & Gy & EP). rewrite G in Gy. inversion Gy; subst. congruence. }
    pose proof (handler_tail_wsrc k now c true s2 ND) as E3. destruct (handler_tail k now c true s2) as [s3 o3]. cbn [fst] in *.
    eapply wsrc_trans; [exact E1|]. eapply wsrc_trans; eassumption.
Qed.

(* ---------- where publications come from ---------- *)
Definition src_ok (s : state) (c : N) (m : msg) : Prop :=
  (exists o, get_obj c (st_objs s) = Some o /\ is_armed o /\ m = will_msg (o_will o)) \/
  (exists id d, In (id, d) (st_wills s) /\ d_conn d = c /\ d_msg d = m).

Lemma disconnect_client_no_wills now c code s : no_wills (snd (disconnect_client now c code s)).
Proof. unfold disconnect_client. destruct (get_obj c (st_objs s)) as [o|]; [|intro x; reflexivity]. destruct (o_open o); intro x; reflexivity. Qed.

Lemma handler_tail_wills k now c err s c' :
  wills_for c' (snd (handler_tail k now c err s)) = if err then wills_for c' (snd (send_lwt k now c s)) else [].
Proof.
  unfold handler_tail. destruct err.
  - destruct (send_lwt k now c s) as [s1 o1]. cbn [fst snd]. destruct (get_obj c (st_objs s1)) as [o|]; [|reflexivity].
    cbn [snd]. rewrite !wills_for_app. destruct (true && o_open o); cbn; rewrite app_nil_r; reflexivity.
  - destruct (get_obj c (st_objs s)) as [o|]; [|reflexivity]. cbn [snd]. reflexivity.
Qed.

Lemma send_lwt_src k now c s c' m :
  (forall o, get_obj c (st_objs s) = Some o -> o_phase o <> PhDone) ->
  In m (wills_for c' (snd (send_lwt k now c s))) -> c' = c /\ src_ok s c m /\ wills_for c' (snd (send_lwt k now c s)) = [m].
Proof.
  intros ND I. rewrite send_lwt_wills in *. destruct (c' =? c) eqn:E; [|destruct I]. apply N.eqb_eq in E. subst c'.
  unfold armed_msg in *. destruct (get_obj c (st_objs s)) as [o|] eqn:G; [|destruct I].
  destruct (w_flag (o_will o)) eqn:F; [|destruct I]. destruct (0 <? w_delay (o_will o)) eqn:D; [destruct I|].
  destruct I as [<-|[]]. split; [reflexivity|]. split; [|reflexivity].
  left. exists o. split; [exact G|]. split; [split; [exact F|apply ND; reflexivity]|reflexivity].
Qed.

(* after sendLWT has published, the object is disarmed *)
Lemma send_lwt_disarms k now c s m :
  In m (wills_for c (snd (send_lwt k now c s))) ->
  forall o', get_obj c (st_objs (fst (send_lwt k now c s))) = Some o' -> w_flag (o_will o') = false.
Proof.
  intro I. rewrite send_lwt_wills, N.eqb_refl in I. unfold armed_msg in I. unfold send_lwt.
  destruct (get_obj c (st_objs s)) as [o|] eqn:G; [|destruct I].
  destruct (w_flag (o_will o)) eqn:F; [|destruct I]. cbn [negb]. destruct (0 <? w_delay (o_will o)); [destruct I|].
  match goal with |- context [publish k ?mm ?sx] => destruct (publish k mm sx) as [s2 outs] end.
  cbn [fst]. intros o' G'. unfold upd_obj in G'. cbn in G'.
  match type of G' with get_obj c (put_obj ?x _) = _ => assert (CX : o_conn x = c) end.
  { cbn. destruct (get_obj c (st_objs s2)) as [x|] eqn:G2; [apply (get_obj_conn _ _ _ G2)|apply (get_obj_conn _ _ _ G)]. }
  rewrite <- CX in G' at 1. rewrite get_put_same in G'. inversion G'; subst. reflexivity.
Qed.

Lemma src_ok_back s s1 c m : wsrc s s1 -> src_ok s1 c m -> src_ok s c m.
Proof.
  intros [A B] [(o1 & G1 & AR1 & E1)|(id & d & I & DC & DM)].
  - destruct (A c o1 G1 AR1) as (o & G & AR & EM & _). left. exists o. split; [exact G|split; [exact AR|congruence]].
  - destruct (B id d I) as [I0|(o & G & AR & EM & _)].
    + right. exists id, d. auto.
    + left. exists o. subst c. split; [exact G|split; [exact AR|congruence]].
Qed.

Lemma tick_clients_no_wills k now l : forall s, no_wills (snd (tick_clients k now l s)).
Proof.
  induction l as [|[id c] r IH]; intro s; cbn [tick_clients]; [intro x; reflexivity|].
  destruct (get_obj c (st_objs s)) as [o|]; [|apply IH]. destruct (o_disc o =? 0)%Z; [apply IH|].
  match goal with |- context [if (?a <? now)%Z then _ else _] => destruct (a <? now)%Z end; [|apply IH].
  match goal with |- context [tick_clients k now r ?sx] => specialize (IH sx); destruct (tick_clients k now r sx) as [s3 outs] end.
  cbn [snd] in *. intro x. cbn. apply IH.
Qed.

Lemma attach_no_wills k c now p a e s : no_wills (snd (attach k c now p a e s)).
Proof.
  unfold attach. destruct (cp_trunc p); [intro x; reflexivity|]. destruct (negb (validate_connect k p =? 0)); [intro x; reflexivity|].
  destruct (negb a); [intro x; reflexivity|].
  assert (N1 : no_wills (snd (let '(s1, n1, sp, o1) := inherit k now p (parse_connect c p e) s in (s1, o1)))).
  { unfold inherit. destruct (aget (o_id (parse_connect c p e)) (st_clients s)) as [ec|]; [|intro x; reflexivity].
    destruct (get_obj ec (st_objs s)) as [eo|]; [|intro x; reflexivity].
    pose proof (disconnect_client_no_wills now ec 142 s) as D. destruct (disconnect_client now ec 142 s) as [s1 o1]. cbn [snd] in D.
    destruct (cp_clean p || (o_clean eo && (o_ver eo <? 5))); exact D. }
  destruct (inherit k now p (parse_connect c p e) s) as [[[s1 n1] sp] o1]. cbn [snd] in *.
  apply no_wills_app; [exact N1|]. apply no_wills_app; [intro x; reflexivity|]. destruct sp; [apply resend_no_wills|intro x; reflexivity].
Qed.

Theorem step_src k s o c m : In m (wills_for c (snd (step k s o))) -> src_ok s c m.
Proof.
  destruct o; cbn [step]; intro I.
  - destruct (memN c0 (st_used s)); [destruct I|]. rewrite (attach_no_wills k c0 now p auth_ok effid _ c) in I. destruct I.
  - destruct (memN c0 (st_used s)); destruct I.
  - unfold do_disconnect in I. destruct (reading s c0) as [ob|] eqn:RD; [|destruct I].
    destruct (reading_phase s c0 ob RD) as [G PH].
    destruct (match sei with Some v => (0 <? v) && (o_sei ob =? 0) | None => false end).
    + pose proof (disconnect_client_wsrc now c0 130 s) as E1. pose proof (disconnect_client_no_wills now c0 130 s c) as N1.
      pose proof (disconnect_client_same_pr o_phase (fun o now => proj2 phase_lemmas o now) now c0 130 s) as P1.
      destruct (disconnect_client now c0 130 s) as [s1 o1]. cbn [fst snd] in *.
      pose proof (handler_tail_wills k now c0 true s1 c) as HW. destruct (handler_tail k now c0 true s1) as [s2 o2]. cbn [snd] in *.
      rewrite wills_for_app, N1, HW in I. cbn [app] in I.
      assert (ND : forall x, get_obj c0 (st_objs s1) = Some x -> o_phase x <> PhDone).
      { intros x Gx. destruct (same_pr_obj_back o_phase _ _ _ _ P1 Gx) as (y & Gy & EP). rewrite G in Gy. inversion Gy; subst. congruence. }
      destruct (send_lwt_src k now c0 s1 c m ND I) as (-> & S & _). apply (src_ok_back s s1 c0 m E1 S).
    + set (o' := match sei with Some v => with_sei ob (if k_maxsei k <? v then k_maxsei k else v) true | None => ob end) in *.
      assert (F' : o_conn o' = o_conn ob /\ o_id o' = o_id ob /\ o_will o' = o_will ob /\ o_phase o' = o_phase ob) by (subst o'; destruct sei; cbn; auto).
      destruct F' as (C' & I' & W' & P'). rewrite (get_obj_conn _ _ _ G) in C'.
      assert (E1 : wsrc s (upd_obj s o')).
      { apply wsrc_upd with (o0 := ob); [rewrite C'; exact G|exact I'|]. intros [A B]. rewrite W', P' in *. split; [split; assumption|reflexivity]. }
      assert (G1 : get_obj c0 (st_objs (upd_obj s o')) = Some o') by (unfold upd_obj; cbn; rewrite <- C'; apply get_put_same).
      destruct (negb (rc =? 0)).
      * pose proof (handler_tail_wills k now c0 true (upd_obj s o') c) as HW. destruct (handler_tail k now c0 true (upd_obj s o')) as [s2 o2]. cbn [snd] in *.
        rewrite HW in I.
        assert (ND : forall x, get_obj c0 (st_objs (upd_obj s o')) = Some x -> o_phase x <> PhDone) by (intros x Gx; rewrite G1 in Gx; inversion Gx; subst; congruence).
        destruct (send_lwt_src k now c0 _ c m ND I) as (-> & S & _). apply (src_ok_back s _ c0 m E1 S).
      * match type of I with context [handler_tail k now c0 false ?sx] =>
          pose proof (handler_tail_wills k now c0 false sx c) as HW; destruct (handler_tail k now c0 false sx) as [s4 o4] end.
        cbn [snd] in *. cbn [wills_for flat_map] in I. fold (wills_for c o4) in I. rewrite HW in I. destruct I.
  - unfold do_netclose in I. destruct (reading s c0) as [ob|] eqn:RD; [|destruct I].
    destruct (reading_phase s c0 ob RD) as [G PH]. rewrite handler_tail_wills in I.
    assert (ND : forall x, get_obj c0 (st_objs s) = Some x -> o_phase x <> PhDone) by (intros x Gx; rewrite G in Gx; inversion Gx; subst; congruence).
    destruct (send_lwt_src k now c0 s c m ND I) as (-> & S & _). exact S.
  - unfold do_teardown in I. destruct (get_obj c0 (st_objs s)) as [ob|] eqn:G; [|destruct I].
    destruct (o_phase ob) eqn:PH; try destruct I. rewrite handler_tail_wills in I.
    assert (ND : forall x, get_obj c0 (st_objs s) = Some x -> o_phase x <> PhDone) by (intros x Gx; rewrite G in Gx; inversion Gx; subst; congruence).
    destruct (send_lwt_src k now c0 s c m ND I) as (-> & S & _). exact S.
  - rewrite (tick_clients_no_wills k now _ s c) in I. destruct I.
  - destruct (tick_will_wills k now c _ s m I) as (id & d & II & DC & DM). right. exists id, d. auto.
  - unfold do_subscribe in I. destruct (reading s c0); destruct I.
  - unfold do_publish in I. destruct (reading s c0); [|destruct I]. unfold publish in I.
    match type of I with context [deliver k m0 ?ix ?sx] => rewrite (deliver_no_wills k m0 ix sx c) in I end. destruct I.
  - unfold do_second_connect in I. destruct (reading s c0) as [ob|] eqn:RD; [|destruct I].
    destruct (reading_phase s c0 ob RD) as [G PH].
    assert (ND0 : forall x, get_obj c0 (st_objs s) = Some x -> o_phase x <> PhDone) by (intros x Gx; rewrite G in Gx; inversion Gx; subst; congruence).
    pose proof (send_lwt_wsrc k now c0 s ND0) as E1. pose proof (send_lwt_same_phase k now c0 s) as P1.
    pose proof (send_lwt_src k now c0 s c m ND0) as S1.
    destruct (send_lwt k now c0 s) as [s1 o1]. cbn [fst snd] in *.
    assert (E2 : wsrc s1 (fst (if o_ver ob =? 5 then disconnect_client now c0 130 s1 else (s1, []))) /\
                 same_pr o_phase s1 (fst (if o_ver ob =? 5 then disconnect_client now c0 130 s1 else (s1, []))) /\
                 no_wills (snd (if o_ver ob =? 5 then disconnect_client now c0 130 s1 else (s1, [])))).
    { destruct (o_ver ob =? 5); [split; [apply disconnect_client_wsrc|split; [apply disconnect_client_same_pr; apply (proj2 phase_lemmas)|apply disconnect_client_no_wills]]|
                                 split; [apply wsrc_refl|split; [apply same_pr_refl|intro x; reflexivity]]]. }
    destruct (if o_ver ob =? 5 then disconnect_client now c0 130 s1 else (s1, [])) as [s2 o2]. cbn [fst snd] in E2. destruct E2 as (E2 & P2 & N2).
    pose proof (handler_tail_wills k now c0 true s2 c) as HW. destruct (handler_tail k now c0 true s2) as [s3 o3]. cbn [snd] in *.
    rewrite !wills_for_app, (N2 c), HW in I. cbn [app] in I. apply in_app_or in I. destruct I as [I|I].
    + destruct (S1 I) as (-> & S & _). exact S.
    + assert (ND : forall x, get_obj c0 (st_objs s2) = Some x -> o_phase x <> PhDone).
      { intros x Gx. destruct (same_pr_obj_back o_phase _ _ _ _ (same_pr_trans o_phase _ _ _ P1 P2) Gx) as (y & Gy & EP). rewrite G in Gy. inversion Gy; subst. congruence. }
      destruct (send_lwt_src k now c0 s2 c m ND I) as (-> & S & _).
      apply (src_ok_back s s2 c0 m (wsrc_trans _ _ _ E1 E2) S).
Qed.

(* ---------- content: what is published is what the connection registered ---------- *)
Definition will_of (p : cparams) : msg :=
  {| m_topic := cp_willtopic p; m_payload := cp_willpayload p; m_qos := cp_willqos p; m_retain := cp_willretain p |}.

Definition reg_step (o : op) : list (N * msg) :=
  match o with
  | OConnect c _ p _ _ => if cp_willflag p then [(c, will_of p)] else []
  | _ => []
  end.

Definition cw (reg : list (N * msg)) (s : state) : Prop :=
  (forall c o, get_obj c (st_objs s) = Some o -> is_armed o -> In (c, will_msg (o_will o)) reg) /\
  (forall id d, In (id, d) (st_wills s) -> In (d_conn d, d_msg d) reg).

Lemma cw_wsrc reg s s' : wsrc s s' -> cw reg s -> cw reg s'.
Proof.
  intros [A B] [C1 C2]. split.
  - intros c o' G AR. destruct (A c o' G AR) as (o & G0 & AR0 & EM & _). rewrite EM. apply (C1 c o G0 AR0).
  - intros id d I. destruct (B id d I) as [I0|(o & G0 & AR0 & EM & _)]; [apply (C2 id d I0)|]. rewrite EM. apply (C1 _ o G0 AR0).
Qed.

Lemma cw_more reg reg' s : cw reg s -> cw (reg ++ reg') s.
Proof. intros [C1 C2]. split; intros; apply in_or_app; left; eauto. Qed.

Lemma step_cw k reg s o : cw reg s -> cw (reg ++ reg_step o) (fst (step k s o)).
Proof.
  intro C. destruct (is_new_conn s o) as [c|] eqn:NEW.
  2:{ apply cw_more. apply (cw_wsrc reg s); [apply step_old_wsrc, NEW|exact C]. }
  destruct o; cbn [is_new_conn] in NEW; try discriminate; destruct (memN c0 (st_used s)) eqn:M; try discriminate;
  inversion NEW; subst c0; cbn [step]; rewrite M.
  2:{ cbn [fst]. apply cw_more. exact C. }
  unfold attach. destruct (cp_trunc p); [apply cw_more; exact C|]. destruct (negb (validate_connect k p =? 0)); [apply cw_more; exact C|].
  destruct (negb auth_ok); [apply cw_more; exact C|].
  pose proof (inherit_wsrc k now p (parse_connect c p effid) (set_used s (c :: st_used s))) as IW.
  destruct (inherit k now p (parse_connect c p effid) (set_used s (c :: st_used s))) as [[[s1 n1] sp] o1].
  destruct IW as (W1 & NW & NP & NC). cbn [fst].
  assert (C1 : cw reg s1) by (apply (cw_wsrc reg (set_used s (c :: st_used s))); [exact W1|exact C]).
  set (n2 := if k_maxsei k <? o_sei n1 then with_sei n1 (k_maxsei k) true else n1).
  assert (N2 : o_will n2 = o_will (parse_connect c p effid) /\ o_conn n2 = c).
  { subst n2. destruct (k_maxsei k <? o_sei n1); cbn; split; auto. }
  destruct N2 as [N2 CN]. destruct C1 as [CA CB]. split.
  - intros c' o' G AR. cbn in G. destruct (N.eq_dec c' (o_conn n2)) as [->|NE].
    + rewrite get_put_same in G. inversion G; subst o'. destruct AR as [FF _]. rewrite N2 in FF |- *. cbn in FF |- *.
      rewrite CN. apply in_or_app. right. cbn [reg_step]. destruct (cp_willflag p); [|discriminate]. left. reflexivity.
    + rewrite get_put_other in G by exact NE. apply in_or_app. left. apply (CA c' o' G AR).
  - intros id d I. cbn in I. apply in_adel in I. destruct I as [I _]. apply in_or_app. left. apply (CB id d I).
Qed.

Fixpoint reg_of (ops : list op) : list (N * msg) :=
  match ops with [] => [] | o :: r => reg_step o ++ reg_of r end.

(* every will publication in every history carries the message its connection registered at CONNECT *)
Theorem wills_have_registered_content k : forall ops s reg,
  cw reg s -> forall t c m, In t (trace k s ops) -> In m (wills_for c (t_outs t)) -> In (c, m) (reg ++ reg_of ops).
Proof.
  induction ops as [|o r IH]; intros s reg C t c m IT IM; [destruct IT|].
  rewrite trace_cons in IT. destruct IT as [<-|IT].
  - unfold tstep_of in IM. cbn [t_outs] in IM. apply step_src in IM. apply in_or_app. left.
    destruct C as [C1 C2]. destruct IM as [(ob & G & AR & ->)|(id & d & I & <- & <-)]; [apply (C1 c ob G AR)|apply (C2 id d I)].
  - cbn [reg_of]. rewrite app_assoc. apply (IH (fst (step k s o)) (reg ++ reg_step o) (step_cw k reg s o C) t c m IT IM).
Qed.

Lemma cw_init : cw [] init.
Proof. split; [intros c o G; discriminate G|intros id d []]. Qed.

Theorem wills_content_from_init k ops t c m :
  In t (trace k init ops) -> In m (wills_for c (t_outs t)) -> In (c, m) (reg_of ops).
Proof. intros IT IM. apply (wills_have_registered_content k ops init [] cw_init t c m IT IM). Qed.
