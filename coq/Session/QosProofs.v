(* C08-C12: theorems about the session model of Inflight.v.  Every statement is about an arbitrary
   well-formed state (InflightProofs.run_wf: every state reached by any history under any oracle
   is one) or directly about all histories. *)
From MV Require Import Base.Val Session.Pkt Session.Inflight Session.InflightProofs.
From Coq Require Import Lia ZifyBool ZifyN ZifyNat.
Open Scope N_scope.

(* ====================================================================================== *)
(* GetAll / NextImmediate: whatever the oracle, the result is a sorted enumeration of the    *)
(* map / a held-back record with the smallest 16-bit key.                                   *)
(* ====================================================================================== *)
Lemma in_insert16 x kv l : In x (insert16 kv l) <-> x = kv \/ In x l.
Proof.
  induction l as [|y l IH]; cbn; [intuition congruence|].
  destruct (key16 (snd y) <=? key16 (snd kv))%Z; cbn; [rewrite IH|]; intuition congruence.
Qed.

Lemma in_fold_insert16 x l : In x (fold_right insert16 [] l) <-> In x l.
Proof.
  induction l as [|y l IH]; cbn; [tauto|]. rewrite in_insert16, IH. intuition congruence.
Qed.

Lemma in_sort16 x m : In x (sort16 m) <-> In x m.
Proof. unfold sort16. rewrite in_fold_insert16. symmetry. apply in_rev. Qed.

Lemma in_get k r m : NoDup (keys m) -> In (k, r) m -> get k m = Some r.
Proof.
  induction m as [|[k' v] m IH]; cbn; intros N I; [tauto|].
  inversion N as [|? ? Hn Hd]; subst.
  destruct I as [E|I].
  - inversion E; subst. rewrite N.eqb_refl. reflexivity.
  - destruct (k' =? k) eqn:E.
    + exfalso. apply Hn. replace k' with k by lia. change k with (fst (k, r)). apply in_map. exact I.
    + apply IH; assumption.
Qed.

Lemma get_in k r m : get k m = Some r -> In (k, r) m.
Proof.
  induction m as [|[k' v] m IH]; cbn; [discriminate|].
  destruct (k' =? k) eqn:E; intros H.
  - inversion H; subst. left. f_equal. lia.
  - right. apply IH. exact H.
Qed.

Lemma get_filter (f : N * rec -> bool) k r m :
  NoDup (keys m) -> get k (filter f m) = Some r -> get k m = Some r /\ f (k, r) = true.
Proof.
  intros N G. split; [eapply get_filter_some; eassumption|].
  apply get_in in G. apply filter_In in G. tauto.
Qed.

Lemma in_lookup_all orc m k r : In (k, r) (lookup_all orc m) -> get k m = Some r.
Proof.
  induction orc as [|p orc IH]; cbn; [tauto|].
  destruct (get p m) eqn:G; [|exact IH]. intros [E|I]; [inversion E; subst; exact G|apply IH; exact I].
Qed.

Lemma in_get_all orc m k r : NoDup (keys m) -> In (k, r) (get_all orc m) -> get k m = Some r.
Proof.
  intros N. unfold get_all. destruct (valid_order orc m).
  - apply in_lookup_all.
  - intros I. apply (proj1 (in_sort16 (k, r) m)) in I. apply in_get; [exact N|exact I].
Qed.

Lemma sorted16_insert kv l : sorted16 l = true -> sorted16 (insert16 kv l) = true.
Proof.
  induction l as [|y l IH]; intros S; [reflexivity|].
  cbn [insert16]. destruct (key16 (snd y) <=? key16 (snd kv))%Z eqn:E.
  - destruct l as [|z l].
    + cbn. rewrite E. reflexivity.
    + cbn [sorted16] in S. apply andb_prop in S. destruct S as [S1 S2].
      specialize (IH S2). cbn [insert16] in IH |- *.
      destruct (key16 (snd z) <=? key16 (snd kv))%Z eqn:E2.
      * cbn [sorted16]. rewrite S1. exact IH.
      * cbn [sorted16]. rewrite E. cbn [sorted16] in IH. exact IH.
  - cbn [sorted16]. destruct l; cbn [sorted16] in *; rewrite ?S; apply andb_true_intro; split; try lia; exact S.
Qed.

Lemma sorted16_sort m : sorted16 (sort16 m) = true.
Proof.
  unfold sort16. induction (rev m) as [|y l IH]; [reflexivity|]. cbn [fold_right]. apply sorted16_insert. exact IH.
Qed.

(* C12: the order in which a session is resent is sorted by uint16(Created), for every oracle *)
Lemma get_all_sorted orc m : sorted16 (get_all orc m) = true.
Proof.
  unfold get_all. destruct (valid_order orc m) eqn:V; [|apply sorted16_sort].
  unfold valid_order in V. apply andb_prop in V. tauto.
Qed.

Lemma sorted16_head_min l kv : sorted16 (kv :: l) = true -> forall x, In x l -> (key16 (snd kv) <= key16 (snd x))%Z.
Proof.
  revert kv. induction l as [|y l IH]; intros kv S x I; [destruct I|].
  cbn [sorted16] in S. apply andb_prop in S. destruct S as [S1 S2].
  destruct I as [->|I]; [lia|]. specialize (IH y S2 x I). lia.
Qed.

(* NextImmediate: a record of the map carrying the mark, with a smallest key among those *)
Lemma next_immediate_spec orc m p r :
  NoDup (keys m) -> next_immediate orc m = Some (p, r) ->
  get p m = Some r /\ (r_expiry r < 0)%Z /\
  forall k' r', get k' m = Some r' -> (r_expiry r' < 0)%Z -> (key16 r <= key16 r')%Z.
Proof.
  intros N H. unfold next_immediate in H.
  destruct (sort16 (immediates m)) as [|[p0 r0] rest] eqn:S; [discriminate|].
  assert (Nc : NoDup (keys (immediates m))) by (apply nodup_filter; exact N).
  assert (H0 : get p0 (immediates m) = Some r0).
  { apply in_get; [exact Nc|]. apply in_sort16. rewrite S. left. reflexivity. }
  assert (Min : forall k' r', get k' m = Some r' -> (r_expiry r' < 0)%Z -> (key16 r0 <= key16 r')%Z).
  { intros k' r' G E.
    assert (I : In (k', r') (sort16 (immediates m))).
    { apply in_sort16. apply filter_In. split; [apply get_in; exact G|cbn; lia]. }
    rewrite S in I. destruct I as [Eq|I]; [inversion Eq; lia|].
    pose proof (sorted16_sort (immediates m)) as So. rewrite S in So.
    apply (sorted16_head_min rest (p0, r0) So (k', r') I). }
  assert (Fin : forall q x, get q (immediates m) = Some x -> get q m = Some x /\ (r_expiry x < 0)%Z).
  { intros q x G. apply get_filter in G; [|exact N]. destruct G as [A B]. cbn in B. split; [exact A|lia]. }
  destruct orc as [|q orc].
  - inversion H; subst. destruct (Fin _ _ H0). tauto.
  - destruct (get q (immediates m)) as [x|] eqn:G.
    + destruct (key16 x =? key16 r0)%Z eqn:E; inversion H; subst.
      * destruct (Fin _ _ G). split; [assumption|split; [assumption|]].
        intros k' r' G' E'. specialize (Min k' r' G' E'). lia.
      * destruct (Fin _ _ H0). tauto.
    + inversion H; subst. destruct (Fin _ _ H0). tauto.
Qed.

(* ====================================================================================== *)
(* The post-packet block only ever touches a marked outbound PUBLISH record.               *)
(* ====================================================================================== *)
Lemma deferred_cases s orc :
  (deferred s orc = (s, [])) \/
  (exists p r, next_immediate orc (s_infl s) = Some (p, r) /\ (0 < s_sendq s)%Z /\
     deferred s orc = (with_sendq (with_infl s (del p (s_infl s))) (dec (s_sendq s)),
                       if s_conn s then [pkt_of_rec false p r] else [])).
Proof.
  unfold deferred. destruct ((0 <? len (s_infl s)) && (0 <? s_sendq s)%Z) eqn:E; [|left; reflexivity].
  destruct (next_immediate orc (s_infl s)) as [[p r]|] eqn:NI; [|left; reflexivity].
  right. exists p, r. split; [reflexivity|]. split; [lia|reflexivity].
Qed.

Lemma deferred_keeps s orc k r :
  NoDup (keys (s_infl s)) -> get k (s_infl s) = Some r -> (0 <= r_expiry r)%Z ->
  get k (s_infl (fst (deferred s orc))) = Some r.
Proof.
  intros W G E. destruct (deferred_cases s orc) as [->|(p & r' & NI & _ & ->)]; [exact G|].
  cbn [fst]. sproj. apply next_immediate_spec in NI; [|apply W]. destruct NI as (G' & E' & _).
  rewrite get_del_other; [exact G|]. intros ->. rewrite G in G'. inversion G'; subst. lia.
Qed.

Lemma deferred_flags s orc :
  let s' := fst (deferred s orc) in
  s_present s' = s_present s /\ s_conn s' = s_conn s /\ s_v5 s' = s_v5 s /\ s_clean s' = s_clean s /\
  s_exp s' = s_exp s /\ s_recvq s' = s_recvq s /\ s_maxrecv s' = s_maxrecv s /\ s_maxsend s' = s_maxsend s.
Proof.
  destruct (deferred_cases s orc) as [->|(p & r' & _ & _ & ->)]; cbn; tauto.
Qed.

Definition is_fwd (uid : N) (o : out) : bool := match o with OFwd u => u =? uid | _ => false end.
Definition count_fwd (uid : N) (outs : list out) : nat := length (filter (is_fwd uid) outs).

Lemma count_fwd_app u a b : count_fwd u (a ++ b) = (count_fwd u a + count_fwd u b)%nat.
Proof. unfold count_fwd. rewrite filter_app, app_length. reflexivity. Qed.

Lemma deferred_no_fwd s orc u : count_fwd u (snd (deferred s orc)) = 0%nat.
Proof.
  destruct (deferred_cases s orc) as [->|(p & r & _ & _ & ->)]; [reflexivity|].
  cbn [snd]. destruct (s_conn s); [|reflexivity]. unfold pkt_of_rec. destruct (r_ty r =? T_PUBLISH); reflexivity.
Qed.

(* ====================================================================================== *)
(* C08 — exactly-once forwarding of an inbound QoS 2 publish                                *)
(* ====================================================================================== *)
Definition inrec (s : st) (pid : N) : Prop := exists r, get pid (s_infl s) = Some r /\ r_ty r = T_PUBREC /\ (0 <= r_expiry r)%Z.

(* the session outlives its connections *)
Definition persistent (s : st) : Prop :=
  s_present s = true /\ s_exp s = false /\ (s_v5 s = false -> s_clean s = false).

(* operations after which the session still exists: no clean start, no expiry interval 0, no housekeeping expiry *)
Definition keeps_session (o : op) : bool :=
  match o with
  | Reconnect v5 clean sei _ => negb clean && (negb v5 || negb (sei =? 0))
  | Expire _ => false
  | _ => true
  end.
(* an acknowledgement packet carrying this identifier: PUBREL ends the exchange; PUBACK / PUBREC / PUBCOMP with
   the identifier of an own exchange is the cross-direction defect (KF_C08_cross_ack) *)
Definition acks (pid : N) (o : op) : bool := match o with InAck _ p _ _ => p =? pid | _ => false end.
(* the message uid travels only under identifier pid *)
Definition uid_ok (pid uid : N) (o : op) : bool :=
  match o with InPublish _ p _ u _ => negb (u =? uid) || (p =? pid) | _ => true end.

Lemma inrec_frame s s' pid :
  inrec s pid ->
  (forall r, get pid (s_infl s) = Some r -> get pid (s_infl s') = Some r) -> inrec s' pid.
Proof. intros (r & G & T & E) F. exists r. split; [apply F; exact G|tauto]. Qed.

Lemma resend_keeps l : forall m m' o k r,
  resend l m = (m', o) ->
  (forall p x x', In (p, x) l -> get p m = Some x' -> x' = x) ->
  get k m = Some r -> r_ty r <> T_PUBACK -> r_ty r <> T_PUBCOMP -> get k m' = Some r.
Proof.
  induction l as [|[p x] l IH]; intros m m' o k r H L G T1 T2.
  - cbn in H. inversion H; subst. exact G.
  - cbn [resend] in H.
    remember (if (r_ty x =? T_PUBACK) || (r_ty x =? T_PUBCOMP) then del p m else m) as m1 eqn:M1.
    destruct (resend l m1) as [m2 o2] eqn:R. inversion H; subst m' o. clear H.
    assert (Sub : forall q y, get q m1 = Some y -> get q m = Some y).
    { intros q y Gq. subst m1. destruct ((r_ty x =? T_PUBACK) || (r_ty x =? T_PUBCOMP)); [|exact Gq].
      apply get_del_some in Gq. tauto. }
    assert (G1 : get k m1 = Some r).
    { subst m1. destruct ((r_ty x =? T_PUBACK) || (r_ty x =? T_PUBCOMP)) eqn:E; [|exact G].
      rewrite get_del_other; [exact G|]. intros ->.
      assert (r = x) by (apply (L p x r); [left; reflexivity|exact G]). subst. lia. }
    apply (IH m1 m2 o2 k r R); try assumption.
    intros q y y' I Gq. apply (L q y y'); [right; exact I|apply Sub; exact Gq].
Qed.

(* the session flags that no packet handler changes *)
Definition same_flags (s s' : st) : Prop :=
  s_present s' = s_present s /\ s_v5 s' = s_v5 s /\ s_clean s' = s_clean s /\ s_exp s' = s_exp s.

Lemma same_flags_refl s : same_flags s s.
Proof. unfold same_flags. tauto. Qed.
Lemma same_flags_trans a b d : same_flags a b -> same_flags b d -> same_flags a d.
Proof. unfold same_flags. intuition congruence. Qed.

Lemma deferred_same_flags s orc : same_flags s (fst (deferred s orc)).
Proof. pose proof (deferred_flags s orc) as H. cbn zeta in H. unfold same_flags. tauto. Qed.

Lemma persistent_flags s s' : same_flags s s' -> persistent s -> persistent s'.
Proof. unfold same_flags, persistent. intros (A & B & C & D) (P & E & F). rewrite A, B, C, D. tauto. Qed.

Lemma teardown_persistent s : persistent s -> teardown s = with_conn s false.
Proof. intros (_ & E & _). unfold teardown. rewrite E. reflexivity. Qed.

(* ---- publishToClient never touches a stored record and forwards nothing ---- *)
Lemma out_publish_get c s pq sq uid now mei pv qf k r :
  get k (s_infl s) = Some r -> get k (s_infl (fst (out_publish c s pq sq uid now mei pv qf))) = Some r.
Proof.
  intros G. unfold out_publish.
  destruct ((if sq <? pq then sq else pq) =? 0); [destruct (s_conn s); exact G|].
  destruct (c_maxinfl c <=? len (s_infl s)); [exact G|].
  destruct (next_pid c s) as [i|] eqn:NP; [|exact G].
  apply next_pid_sound in NP. destruct NP as [_ Gi].
  assert (Ne : k <> i) by (intros ->; congruence).
  cbn zeta.
  match goal with |- context [if ?b then with_sendq ?x ?y else ?x] =>
    assert (E3 : s_infl (if b then with_sendq x y else x) = s_infl x) by (destruct b; reflexivity);
    assert (C3 : s_conn (if b then with_sendq x y else x) = s_conn x) by (destruct b; reflexivity);
    set (s3 := if b then with_sendq x y else x) in * end.
  destruct ((s_sendq (with_pid s i) =? 0)%Z && (0 <? s_maxsend s3)%Z).
  { cbn [fst]. sproj. rewrite get_set_other by exact Ne. rewrite E3. sproj. rewrite get_set_other by exact Ne. exact G. }
  assert (G3 : get k (s_infl s3) = Some r) by (rewrite E3; sproj; rewrite get_set_other by exact Ne; exact G).
  destruct (negb (s_conn s3)); [exact G3|].
  destruct qf; [|exact G3]. cbn [fst]. sproj. rewrite get_del_other by exact Ne. exact G3.
Qed.

Lemma out_publish_same_flags c s pq sq uid now mei pv qf :
  same_flags s (fst (out_publish c s pq sq uid now mei pv qf)).
Proof.
  unfold out_publish, same_flags.
  destruct ((if sq <? pq then sq else pq) =? 0); [destruct (s_conn s); tauto|].
  destruct (c_maxinfl c <=? len (s_infl s)); [tauto|].
  destruct (next_pid c s) as [i|]; [|tauto]. cbn zeta.
  match goal with |- context [if ?b then with_sendq ?x ?y else ?x] => destruct b end;
  match goal with |- context [if ?b then _ else _] => destruct b end; cbn [fst]; sproj; try tauto;
  match goal with |- context [if ?b then _ else _] => destruct b end; cbn [fst]; sproj; try tauto;
  destruct qf; cbn [fst]; sproj; tauto.
Qed.

Lemma out_publish_no_fwd c s pq sq uid now mei pv qf u :
  count_fwd u (snd (out_publish c s pq sq uid now mei pv qf)) = 0%nat.
Proof.
  unfold out_publish.
  destruct ((if sq <? pq then sq else pq) =? 0); [destruct (s_conn s); [destruct qf|]; reflexivity|].
  destruct (c_maxinfl c <=? len (s_infl s)); [reflexivity|].
  destruct (next_pid c s) as [i|]; [|reflexivity]. cbn zeta.
  repeat match goal with |- context [if ?b then _ else _] => destruct b end; reflexivity.
Qed.

(* ---- processPublish ---- *)
Definition retrans (s : st) (pid : N) : bool :=
  match get pid (s_infl s) with Some r => r_ty r =? T_PUBREC | None => false end.

Lemma in_publish_keeps c s qos p uid now orc k r :
  wf c s -> persistent s -> get k (s_infl s) = Some r -> (0 <= r_expiry r)%Z ->
  (k <> p \/ r_ty r = T_PUBREC) ->
  get k (s_infl (fst (in_publish c s qos p uid now orc))) = Some r.
Proof.
  intros W P G E D. unfold in_publish.
  destruct (s_recvq s =? 0)%Z; [cbn [fst]; rewrite teardown_persistent by exact P; exact G|].
  fold (retrans s p). destruct (retrans s p) eqn:R.
  { pose proof (deferred_keeps s orc k r (wf_nodup c s W) G E) as K. destruct (deferred s orc). exact K. }
  assert (Ne : k <> p).
  { destruct D as [D|D]; [exact D|]. intros ->. unfold retrans in R. rewrite G in R. lia. }
  set (s1 := with_infl s (del p (s_infl s))).
  assert (N1 : NoDup (keys (s_infl s1))) by (apply nodup_del; apply W).
  assert (G1 : get k (s_infl s1) = Some r) by (unfold s1; sproj; rewrite get_del_other by exact Ne; exact G).
  destruct (qos =? 0).
  { pose proof (deferred_keeps s1 orc k r N1 G1 E) as K. destruct (deferred s1 orc). exact K. }
  cbn zeta.
  match goal with |- context [deferred ?x orc] => set (s4 := x) end.
  assert (N4 : NoDup (keys (s_infl s4)) /\ get k (s_infl s4) = Some r).
  { unfold s4. destruct (qos =? 1); sproj.
    - split; [apply nodup_del; apply nodup_set; exact N1|].
      rewrite get_del_other by exact Ne. rewrite get_set_other by exact Ne. exact G1.
    - split; [apply nodup_set; exact N1|]. rewrite get_set_other by exact Ne. exact G1. }
  destruct N4 as [N4 G4].
  pose proof (deferred_keeps s4 orc k r N4 G4 E) as K. destruct (deferred s4 orc). exact K.
Qed.

Lemma in_publish_same_flags c s qos p uid now orc :
  persistent s -> same_flags s (fst (in_publish c s qos p uid now orc)).
Proof.
  intros P. unfold in_publish.
  destruct (s_recvq s =? 0)%Z; [cbn [fst]; rewrite teardown_persistent by exact P; unfold same_flags; cbn; tauto|].
  destruct (match get p (s_infl s) with Some r => r_ty r =? T_PUBREC | None => false end).
  { pose proof (deferred_same_flags s orc) as K. destruct (deferred s orc). exact K. }
  destruct (qos =? 0).
  { match goal with |- context [deferred ?x orc] => pose proof (deferred_same_flags x orc) as K; destruct (deferred x orc) end.
    cbn [fst] in *. eapply same_flags_trans; [|exact K]. unfold same_flags; cbn; tauto. }
  cbn zeta.
  match goal with |- context [deferred ?x orc] => pose proof (deferred_same_flags x orc) as K; destruct (deferred x orc) end.
  cbn [fst] in *. eapply same_flags_trans; [|exact K]. unfold same_flags. destruct (qos =? 1); cbn; tauto.
Qed.

Lemma in_publish_count_fwd c s qos p uid now orc u :
  count_fwd u (snd (in_publish c s qos p uid now orc)) =
  if (s_recvq s =? 0)%Z || retrans s p then 0%nat else if uid =? u then 1%nat else 0%nat.
Proof.
  unfold in_publish. destruct (s_recvq s =? 0)%Z; [reflexivity|]. cbn [orb].
  fold (retrans s p). destruct (retrans s p).
  { pose proof (deferred_no_fwd s orc u) as K. destruct (deferred s orc). cbn [snd] in *.
    unfold count_fwd in *. cbn [filter is_fwd]. exact K. }
  destruct (qos =? 0).
  { match goal with |- context [deferred ?x orc] => pose proof (deferred_no_fwd x orc u) as K; destruct (deferred x orc) end.
    cbn [snd] in *. unfold count_fwd in *. cbn [filter is_fwd]. destruct (uid =? u); cbn [length]; lia. }
  cbn zeta.
  match goal with |- context [deferred ?x orc] => pose proof (deferred_no_fwd x orc u) as K; destruct (deferred x orc) end.
  cbn [snd] in *. unfold count_fwd in *. cbn [filter is_fwd]. destruct (uid =? u); cbn [length]; lia.
Qed.

(* ---- PUBACK / PUBREC / PUBREL / PUBCOMP with another identifier ---- *)
Lemma in_ack_keeps c s ty p rc now orc k r :
  wf c s -> get k (s_infl s) = Some r -> (0 <= r_expiry r)%Z -> k <> p ->
  get k (s_infl (fst (in_ack c s ty p rc now orc))) = Some r.
Proof.
  intros W G E Ne. unfold in_ack.
  assert (N : NoDup (keys (s_infl s))) by apply W.
  assert (D1 : forall s0, NoDup (keys (s_infl s0)) -> get k (s_infl s0) = Some r ->
                get k (s_infl (fst (deferred s0 orc))) = Some r).
  { intros s0 N0 G0. apply deferred_keeps; assumption. }
  assert (D2 : forall s0 x, NoDup (keys (s_infl s0)) -> get k (s_infl s0) = Some r ->
                get k (s_infl (fst (let '(s', o) := deferred s0 orc in (s', x :: o)))) = Some r).
  { intros s0 x N0 G0. pose proof (D1 s0 N0 G0) as K. destruct (deferred s0 orc). exact K. }
  destruct (ty =? T_PUBACK).
  { destruct (get p (s_infl s)); [|apply D1; assumption].
    apply D1; sproj; [apply nodup_del; exact N|rewrite get_del_other by exact Ne; exact G]. }
  destruct (ty =? T_PUBREC).
  { destruct (get p (s_infl s)) as [r0|]; [|apply D2; assumption].
    destruct ((128 <=? rc) || negb (pubrec_rc_valid rc)).
    - apply D1; sproj; [apply nodup_del; exact N|rewrite get_del_other by exact Ne; exact G].
    - apply D2; sproj; [apply nodup_set; exact N|rewrite get_set_other by exact Ne; exact G]. }
  destruct (ty =? T_PUBREL).
  { destruct (get p (s_infl s)) as [r0|]; [|apply D2; assumption].
    destruct ((128 <=? rc) || negb (pubrel_rc_valid rc)).
    - apply D1; sproj; [apply nodup_del; exact N|rewrite get_del_other by exact Ne; exact G].
    - apply D2; sproj; [apply nodup_del; apply nodup_set; exact N|].
      rewrite get_del_other by exact Ne. rewrite get_set_other by exact Ne. exact G. }
  destruct (ty =? T_PUBCOMP); [|exact G].
  apply D1; sproj; [apply nodup_del; exact N|rewrite get_del_other by exact Ne; exact G].
Qed.

Lemma in_ack_same_flags c s ty p rc now orc : same_flags s (fst (in_ack c s ty p rc now orc)).
Proof.
  unfold in_ack.
  assert (D1 : forall s0, same_flags s s0 -> same_flags s (fst (deferred s0 orc))).
  { intros s0 F. eapply same_flags_trans; [exact F|apply deferred_same_flags]. }
  assert (D2 : forall s0 x, same_flags s s0 -> same_flags s (fst (let '(s', o) := deferred s0 orc in (s', x :: o)))).
  { intros s0 x F. pose proof (D1 s0 F) as K. destruct (deferred s0 orc). exact K. }
  destruct (ty =? T_PUBACK).
  { destruct (get p (s_infl s)); apply D1; unfold same_flags; cbn; tauto. }
  destruct (ty =? T_PUBREC).
  { destruct (get p (s_infl s)); [destruct ((128 <=? rc) || negb (pubrec_rc_valid rc))|];
      [apply D1|apply D2|apply D2]; unfold same_flags; cbn; tauto. }
  destruct (ty =? T_PUBREL).
  { destruct (get p (s_infl s)); [destruct ((128 <=? rc) || negb (pubrel_rc_valid rc))|];
      [apply D1|apply D2|apply D2]; unfold same_flags; cbn; tauto. }
  destruct (ty =? T_PUBCOMP); [apply D1|]; unfold same_flags; cbn; tauto.
Qed.

Lemma in_ack_no_fwd c s ty p rc now orc u : count_fwd u (snd (in_ack c s ty p rc now orc)) = 0%nat.
Proof.
  unfold in_ack.
  assert (D1 : forall s0, count_fwd u (snd (deferred s0 orc)) = 0%nat) by (intros; apply deferred_no_fwd).
  assert (D2 : forall s0 t q d a b e,
             count_fwd u (snd (let '(s', o) := deferred s0 orc in (s', OPkt t q d a b e :: o))) = 0%nat).
  { intros s0 t q d a b e. pose proof (D1 s0) as K. destruct (deferred s0 orc). exact K. }
  destruct (ty =? T_PUBACK); [destruct (get p (s_infl s)); apply D1|].
  destruct (ty =? T_PUBREC).
  { destruct (get p (s_infl s)); [destruct ((128 <=? rc) || negb (pubrec_rc_valid rc))|]; [apply D1|apply D2|apply D2]. }
  destruct (ty =? T_PUBREL).
  { destruct (get p (s_infl s)); [destruct ((128 <=? rc) || negb (pubrel_rc_valid rc))|]; [apply D1|apply D2|apply D2]. }
  destruct (ty =? T_PUBCOMP); [apply D1|reflexivity].
Qed.

(* ---- a reconnection that keeps the session keeps every record except transient PUBACK / PUBCOMP ones ---- *)
Lemma reconnect_keeps c s v5 clean sei rm orc k r :
  wf c s -> persistent s -> keeps_session (Reconnect v5 clean sei rm) = true ->
  get k (s_infl s) = Some r -> r_ty r <> T_PUBACK -> r_ty r <> T_PUBCOMP ->
  let s' := fst (reconnect c s v5 clean sei rm orc) in
  get k (s_infl s') = Some r /\ persistent s'.
Proof.
  intros W (P & E & F) K G T1 T2. cbn [keeps_session] in K.
  unfold reconnect. rewrite P.
  assert (Cl : clean = false) by (destruct clean; [discriminate|reflexivity]). subst clean.
  assert (C2 : s_clean s && negb (s_v5 s) = false).
  { destruct (s_v5 s) eqn:V; [apply andb_false_r|]. rewrite (F eq_refl). reflexivity. }
  cbn [orb]. rewrite C2.
  assert (L : (0 <? len (s_infl s)) = true).
  { unfold len. destruct (s_infl s); [discriminate|]. cbn [length]. lia. }
  rewrite L. cbn zeta.
  set (s1 := fresh c v5 false sei rm (s_infl s) (c_srvrm c =? 0)%Z).
  assert (Es : s_infl s1 = s_infl s) by reflexivity. rewrite Es.
  destruct (resend (get_all orc (s_infl s)) (s_infl s)) as [m o] eqn:R. cbn [fst]. sproj.
  split.
  - eapply resend_keeps; [exact R| |exact G|exact T1|exact T2].
    intros p x x' I Gp. apply in_get_all in I; [|apply W]. congruence.
  - unfold persistent. cbn. split; [reflexivity|]. split.
    + destruct v5; cbn in *; [|reflexivity]. destruct (sei =? 0); [discriminate|reflexivity].
    + tauto.
Qed.

Lemma resend_no_fwd u l : forall m, count_fwd u (snd (resend l m)) = 0%nat.
Proof.
  induction l as [|[p x] l IH]; intros m; [reflexivity|].
  cbn [resend]. specialize (IH (if (r_ty x =? T_PUBACK) || (r_ty x =? T_PUBCOMP) then del p m else m)).
  destruct (resend l (if (r_ty x =? T_PUBACK) || (r_ty x =? T_PUBCOMP) then del p m else m)) as [m2 o2].
  cbn [snd] in *. unfold count_fwd in *. cbn [filter]. unfold pkt_of_rec.
  destruct (r_ty x =? T_PUBLISH); cbn [is_fwd]; exact IH.
Qed.

Lemma reconnect_no_fwd c s v5 clean sei rm orc u :
  count_fwd u (snd (reconnect c s v5 clean sei rm orc)) = 0%nat.
Proof.
  unfold reconnect. destruct (s_present s); [|reflexivity].
  destruct (clean || (s_clean s && negb (s_v5 s))); [reflexivity|]. cbn zeta.
  match goal with |- context [resend ?l ?m] => pose proof (resend_no_fwd u l m) as Z; destruct (resend l m) as [m' o] end.
  cbn [snd] in *. unfold count_fwd in *. cbn [filter is_fwd]. exact Z.
Qed.

(* ---- one step keeps an open own exchange, outside acknowledgements with its identifier ---- *)
Lemma step_keeps_exchange c s o orc pid uid :
  cfg_ok c -> op_ok o -> wf c s -> persistent s -> inrec s pid ->
  keeps_session o = true -> acks pid o = false -> uid_ok pid uid o = true ->
  let s' := fst (step c s o orc) in
  persistent s' /\ inrec s' pid /\ count_fwd uid (snd (step c s o orc)) = 0%nat.
Proof.
  intros C O W P I K A U. destruct I as (r & G & T & E).
  destruct o; cbn [step keeps_session acks uid_ok] in *.
  - (* OutPublish *)
    destruct P as (Pr & Px). rewrite Pr.
    split; [eapply persistent_flags; [apply out_publish_same_flags|unfold persistent; tauto]|].
    split; [exists r; split; [apply out_publish_get; exact G|tauto]|apply out_publish_no_fwd].
  - (* InPublish *)
    destruct (s_present s && s_conn s); [|split; [exact P|split; [exists r; tauto|reflexivity]]].
    split; [eapply persistent_flags; [apply in_publish_same_flags; exact P|exact P]|].
    split.
    + exists r. split; [|tauto]. apply in_publish_keeps; try assumption. right. exact T.
    + rewrite in_publish_count_fwd.
      destruct (s_recvq s =? 0)%Z; [reflexivity|]. cbn [orb].
      destruct (retrans s pid0) eqn:R; [reflexivity|].
      destruct (uid0 =? uid) eqn:Eu; [|reflexivity].
      (* the message can only travel under pid, where the record makes it a retransmission *)
      exfalso. assert (pid0 = pid) by lia. subst. unfold retrans in R. rewrite G in R. lia.
  - (* InAck *)
    destruct (s_present s && s_conn s); [|split; [exact P|split; [exists r; tauto|reflexivity]]].
    split; [eapply persistent_flags; [apply in_ack_same_flags|exact P]|].
    split; [|apply in_ack_no_fwd].
    exists r. split; [|tauto]. apply in_ack_keeps; try assumption. lia.
  - (* InOther *)
    destruct (s_present s && s_conn s); [|split; [exact P|split; [exists r; tauto|reflexivity]]].
    split; [eapply persistent_flags; [apply deferred_same_flags|exact P]|].
    split; [|apply deferred_no_fwd].
    exists r. split; [|tauto]. apply deferred_keeps; [apply W|exact G|exact E].
  - (* Disconnect *)
    destruct (s_present s && s_conn s); [|split; [exact P|split; [exists r; tauto|reflexivity]]].
    destruct graceful.
    + pose proof (deferred_same_flags (with_conn s false) orc) as Fl.
      pose proof (deferred_keeps (with_conn s false) orc pid r (wf_nodup c s W) G E) as Kp.
      destruct (deferred (with_conn s false) orc) as [s1 o1]. cbn [fst snd] in *.
      assert (P1 : persistent s1).
      { eapply persistent_flags; [exact Fl|]. unfold persistent in *. cbn. exact P. }
      rewrite teardown_persistent by exact P1.
      split; [unfold persistent in *; cbn; exact P1|]. split; [exists r; cbn; tauto|reflexivity].
    + cbn [fst snd]. rewrite teardown_persistent by exact P.
      split; [unfold persistent in *; cbn; exact P|]. split; [exists r; cbn; tauto|reflexivity].
  - (* Reconnect *)
    destruct (reconnect_keeps c s v5 clean sei rm orc pid r W P K G) as [G' P'];
      [unfold T_PUBREC, T_PUBACK in *; lia|unfold T_PUBREC, T_PUBCOMP in *; lia|].
    split; [exact P'|]. split; [exists r; tauto|apply reconnect_no_fwd].
  - discriminate.
Qed.

(* ---- any history of such steps ---- *)
Definition quiet (pid uid : N) (h : list (op * list N)) : Prop :=
  forall o orc, In (o, orc) h ->
    op_ok o /\ keeps_session o = true /\ acks pid o = false /\ uid_ok pid uid o = true.

Lemma run_cons c s o orc h :
  run c s ((o, orc) :: h) =
  (fst (run c (fst (step c s o orc)) h), snd (step c s o orc) :: snd (run c (fst (step c s o orc)) h)).
Proof.
  cbn [run]. destruct (step c s o orc) as [s1 outs]. cbn [fst snd].
  destruct (run c s1 h) as [s2 rest]. reflexivity.
Qed.

Lemma run_keeps_exchange c pid uid : cfg_ok c -> forall h s,
  wf c s -> persistent s -> inrec s pid -> quiet pid uid h ->
  count_fwd uid (concat (snd (run c s h))) = 0%nat.
Proof.
  intros C. induction h as [|[o orc] h IH]; intros s W P I Q; [reflexivity|].
  rewrite run_cons. cbn [snd concat]. rewrite count_fwd_app.
  destruct (Q o orc (or_introl eq_refl)) as (O & K & A & U).
  destruct (step_keeps_exchange c s o orc pid uid C O W P I K A U) as (P' & I' & Z).
  rewrite Z. cbn [Nat.add]. apply IH; try assumption.
  - apply step_wf; assumption.
  - intros o' orc' In'. apply (Q o' orc'). right. exact In'.
Qed.

(* C08: a QoS 2 message accepted from the client is forwarded exactly once, whatever follows that keeps
   the session and is not an acknowledgement packet with the same identifier: retransmissions (DUP or
   not) in any number, disconnections, reconnections with the session, other publishes in both
   directions, acknowledgements of other identifiers, for every oracle. *)
Theorem exactly_once c s pid uid dup now orc0 h :
  cfg_ok c -> (0 <= now)%Z -> wf c s -> persistent s -> s_conn s = true ->
  (s_recvq s =? 0)%Z = false -> retrans s pid = false ->
  quiet pid uid h ->
  count_fwd uid (concat (snd (run c s ((InPublish 2 pid dup uid now, orc0) :: h)))) = 1%nat.
Proof.
  intros C Nw W P Cn Q R Qh.
  rewrite run_cons. cbn [snd concat]. rewrite count_fwd_app.
  assert (W1 : wf c (fst (step c s (InPublish 2 pid dup uid now) orc0))) by (apply step_wf; [exact C|exact Nw|exact W]).
  cbn [step] in *. destruct P as (Pr & Px). rewrite Pr, Cn in *. cbn [andb] in *.
  rewrite in_publish_count_fwd. rewrite Q, R. cbn [orb]. rewrite N.eqb_refl.
  rewrite (run_keeps_exchange c pid uid C h); try assumption; [reflexivity| |].
  - eapply persistent_flags; [apply in_publish_same_flags|]; unfold persistent; tauto.
  - (* after the step the PUBREC record is stored *)
    unfold in_publish. rewrite Q. fold (retrans s pid). rewrite R. cbn [N.eqb Pos.eqb]. cbn zeta.
    match goal with |- context [deferred ?x orc0] => set (s4 := x) end.
    assert (G4 : get pid (s_infl s4) = Some (ack_rec T_PUBREC uid c now)).
    { unfold s4. cbn [N.eqb Pos.eqb]. sproj. apply get_set_same. }
    assert (N4 : NoDup (keys (s_infl s4))).
    { unfold s4. cbn [N.eqb Pos.eqb]. sproj. apply nodup_set. apply nodup_del. apply W. }
    assert (E4 : (0 <= r_expiry (ack_rec T_PUBREC uid c now))%Z) by (destruct C; cbn; lia).
    pose proof (deferred_keeps s4 orc0 pid _ N4 G4 E4) as K.
    destruct (deferred s4 orc0). cbn [fst] in *.
    exists (ack_rec T_PUBREC uid c now). split; [exact K|]. split; [reflexivity|exact E4].
Qed.

Lemma retrans_answer c s qos pid uid now orc :
  (s_recvq s =? 0)%Z = false -> retrans s pid = true ->
  exists rest, snd (in_publish c s qos pid uid now orc) = OPkt T_PUBREC pid false 0 0 (wire_rc s 145) :: rest
               /\ count_fwd uid rest = 0%nat.
Proof.
  intros Q R. unfold in_publish. rewrite Q. fold (retrans s pid). rewrite R.
  pose proof (deferred_no_fwd s orc uid) as Z. destruct (deferred s orc) as [s' o]. cbn [snd] in *.
  exists o. split; [reflexivity|exact Z].
Qed.

(* ====================================================================================== *)
(* C09 / C10 — a stored record is only ever touched by a packet carrying its own identifier  *)
(* (or by the end of the session, by housekeeping expiry, or — if it carries the held-back   *)
(* mark — by the post-packet block)                                                        *)
(* ====================================================================================== *)
Definition own_pub (k : N) (o : op) : bool := match o with InPublish _ p _ _ _ => p =? k | _ => false end.

Lemma step_keeps_record c s o orc k r :
  cfg_ok c -> op_ok o -> wf c s -> persistent s ->
  get k (s_infl s) = Some r -> (0 <= r_expiry r)%Z -> r_ty r <> T_PUBACK -> r_ty r <> T_PUBCOMP ->
  keeps_session o = true -> acks k o = false -> (own_pub k o = false \/ r_ty r = T_PUBREC) ->
  let s' := fst (step c s o orc) in
  persistent s' /\ get k (s_infl s') = Some r.
Proof.
  intros C O W P G E T1 T2 K A U.
  destruct o; cbn [step keeps_session acks own_pub] in *.
  - destruct P as (Pr & Px). rewrite Pr.
    split; [eapply persistent_flags; [apply out_publish_same_flags|unfold persistent; tauto]|].
    apply out_publish_get; exact G.
  - destruct (s_present s && s_conn s); [|tauto].
    split; [eapply persistent_flags; [apply in_publish_same_flags; exact P|exact P]|].
    apply in_publish_keeps; try assumption. destruct U as [U|U]; [left; lia|right; exact U].
  - destruct (s_present s && s_conn s); [|tauto].
    split; [eapply persistent_flags; [apply in_ack_same_flags|exact P]|].
    apply in_ack_keeps; try assumption. lia.
  - destruct (s_present s && s_conn s); [|tauto].
    split; [eapply persistent_flags; [apply deferred_same_flags|exact P]|].
    apply deferred_keeps; [apply W|exact G|exact E].
  - destruct (s_present s && s_conn s); [|tauto].
    destruct graceful.
    + pose proof (deferred_same_flags (with_conn s false) orc) as Fl.
      pose proof (deferred_keeps (with_conn s false) orc k r (wf_nodup c s W) G E) as Kp.
      destruct (deferred (with_conn s false) orc) as [s1 o1]. cbn [fst snd] in *.
      assert (P1 : persistent s1).
      { eapply persistent_flags; [exact Fl|]. unfold persistent in *. cbn. exact P. }
      rewrite teardown_persistent by exact P1.
      split; [unfold persistent in *; cbn; exact P1|cbn; exact Kp].
    + cbn [fst snd]. rewrite teardown_persistent by exact P.
      split; [unfold persistent in *; cbn; exact P|cbn; exact G].
  - destruct (reconnect_keeps c s v5 clean sei rm orc k r W P K G T1 T2) as [G' P']. tauto.
  - discriminate.
Qed.

(* operations of a history that cannot touch the record under k *)
Definition leaves (k : N) (inbound : bool) (h : list (op * list N)) : Prop :=
  forall o orc, In (o, orc) h ->
    op_ok o /\ keeps_session o = true /\ acks k o = false /\ (inbound = true \/ own_pub k o = false).

Theorem run_keeps_record c k r : cfg_ok c -> forall h s,
  wf c s -> persistent s ->
  get k (s_infl s) = Some r -> (0 <= r_expiry r)%Z -> r_ty r <> T_PUBACK -> r_ty r <> T_PUBCOMP ->
  leaves k (r_ty r =? T_PUBREC) h ->
  get k (s_infl (fst (run c s h))) = Some r.
Proof.
  intros C. induction h as [|[o orc] h IH]; intros s W P G E T1 T2 L; [exact G|].
  rewrite run_cons. cbn [fst].
  destruct (L o orc (or_introl eq_refl)) as (O & K & A & U).
  assert (U' : own_pub k o = false \/ r_ty r = T_PUBREC) by (destruct U as [U|U]; [right; lia|left; exact U]).
  destruct (step_keeps_record c s o orc k r C O W P G E T1 T2 K A U') as (P' & G').
  apply IH; try assumption.
  - apply step_wf; assumption.
  - intros o' orc' I. apply (L o' orc'). right. exact I.
Qed.

(* ---- what an acknowledgement does to the record under its identifier ---- *)
Lemma deferred_none s orc k : get k (s_infl s) = None -> get k (s_infl (fst (deferred s orc))) = None.
Proof.
  intros G. destruct (deferred_cases s orc) as [->|(p & r' & _ & _ & ->)]; [exact G|].
  cbn [fst]. sproj. destruct (N.eq_dec k p) as [->|Ne]; [apply get_del_same|].
  rewrite get_del_other by exact Ne. exact G.
Qed.

Lemma puback_removes c s k rc now orc :
  get k (s_infl (fst (in_ack c s T_PUBACK k rc now orc))) = None.
Proof.
  unfold in_ack. cbn [N.eqb Pos.eqb T_PUBACK].
  destruct (get k (s_infl s)) eqn:G; apply deferred_none; [sproj; apply get_del_same|exact G].
Qed.

Lemma pubcomp_removes c s k rc now orc :
  get k (s_infl (fst (in_ack c s T_PUBCOMP k rc now orc))) = None.
Proof.
  unfold in_ack. cbn [N.eqb Pos.eqb T_PUBCOMP T_PUBACK T_PUBREC T_PUBREL].
  apply deferred_none. sproj. apply get_del_same.
Qed.

(* after PUBREC (reason < 0x80) the stored packet is a PUBREL: that is what a later resend repeats *)
Lemma pubrec_turns_into_pubrel c s k rc now orc r :
  cfg_ok c -> (0 <= now)%Z -> wf c s -> get k (s_infl s) = Some r ->
  (128 <=? rc) || negb (pubrec_rc_valid rc) = false ->
  exists r', get k (s_infl (fst (in_ack c s T_PUBREC k rc now orc))) = Some r' /\ r_ty r' = T_PUBREL.
Proof.
  intros [_ C] Nw W G V. unfold in_ack. cbn [N.eqb Pos.eqb T_PUBACK T_PUBREC]. rewrite G, V.
  match goal with |- context [deferred ?x orc] => set (s2 := x) end.
  assert (G2 : get k (s_infl s2) = Some (ack_rec T_PUBREL (r_uid r) c now)) by (unfold s2; sproj; apply get_set_same).
  assert (N2 : NoDup (keys (s_infl s2))) by (unfold s2; sproj; apply nodup_set; apply W).
  pose proof (deferred_keeps s2 orc k _ N2 G2) as K.
  destruct (deferred s2 orc). cbn [fst] in *.
  exists (ack_rec T_PUBREL (r_uid r) c now). split; [apply K; cbn; lia|reflexivity].
Qed.

(* ---- the resend after a reconnection with the session ---- *)
Lemma resend_outputs l : forall m, snd (resend l m) = map (fun kv => pkt_of_rec true (fst kv) (snd kv)) l.
Proof.
  induction l as [|[p x] l IH]; intros m; [reflexivity|].
  cbn [resend]. specialize (IH (if (r_ty x =? T_PUBACK) || (r_ty x =? T_PUBCOMP) then del p m else m)).
  destruct (resend l (if (r_ty x =? T_PUBACK) || (r_ty x =? T_PUBCOMP) then del p m else m)).
  cbn [snd map fst] in *. rewrite IH. reflexivity.
Qed.

Lemma nodupb_NoDup l : nodupb l = true -> NoDup l.
Proof.
  induction l as [|x l IH]; cbn; intros H; [constructor|].
  apply andb_prop in H. destruct H as [A B]. constructor; [|apply IH; exact B].
  intros I. assert (E : existsb (N.eqb x) l = true) by (apply existsb_exists; exists x; split; [exact I|apply N.eqb_refl]).
  rewrite E in A. discriminate.
Qed.

Lemma in_lookup_all_complete orc m k r : In k orc -> get k m = Some r -> In (k, r) (lookup_all orc m).
Proof.
  induction orc as [|p orc IH]; cbn; [tauto|].
  intros [->|I] G; [rewrite G; left; reflexivity|].
  destruct (get p m); [right|]; apply IH; assumption.
Qed.

Lemma get_all_complete orc m k r : NoDup (keys m) -> get k m = Some r -> In (k, r) (get_all orc m).
Proof.
  intros N G. unfold get_all. destruct (valid_order orc m) eqn:V.
  - unfold valid_order in V. repeat (apply andb_prop in V; destruct V as [V ?]).
    apply in_lookup_all_complete; [|exact G].
    assert (Inc : incl orc (keys m)).
    { intros p I. rewrite forallb_forall in H0. specialize (H0 p I). apply mem_true_iff in H0. destruct H0 as [x Gx].
      eapply get_in_keys; exact Gx. }
    assert (Len : (length (keys m) <= length orc)%nat).
    { unfold keys. rewrite map_length. apply Nat.eqb_eq in V. lia. }
    apply (NoDup_length_incl (nodupb_NoDup orc H1) Len Inc). eapply get_in_keys; exact G.
  - apply in_sort16. apply get_in. exact G.
Qed.

(* C09: on a reconnection that keeps the session every stored record is written again: a PUBLISH record as
   PUBLISH with the same identifier, QoS and message and with DUP set, a PUBREL record as PUBREL; and nothing
   is written that is not stored (so nothing acknowledged, whose record is gone, is repeated) — for every oracle *)
Theorem resume_resends c s v5 clean sei rm orc :
  wf c s -> persistent s -> keeps_session (Reconnect v5 clean sei rm) = true -> s_infl s <> [] ->
  exists sent, snd (reconnect c s v5 clean sei rm orc) = OPkt T_CONNACK 0 true 0 0 0 :: sent /\
    (forall k r, get k (s_infl s) = Some r -> In (pkt_of_rec true k r) sent) /\
    (forall p, In p sent -> exists k r, get k (s_infl s) = Some r /\ p = pkt_of_rec true k r).
Proof.
  intros W (P & E & F) K Ne. cbn [keeps_session] in K.
  unfold reconnect. rewrite P.
  assert (Cl : clean = false) by (destruct clean; [discriminate|reflexivity]). subst clean.
  assert (C2 : s_clean s && negb (s_v5 s) = false).
  { destruct (s_v5 s) eqn:V; [apply andb_false_r|]. rewrite (F eq_refl). reflexivity. }
  cbn [orb]. rewrite C2.
  assert (L : (0 <? len (s_infl s)) = true).
  { unfold len. destruct (s_infl s); [congruence|]. cbn [length]. lia. }
  rewrite L. cbn zeta.
  set (s1 := fresh c v5 false sei rm (s_infl s) (c_srvrm c =? 0)%Z).
  assert (Es : s_infl s1 = s_infl s) by reflexivity. rewrite Es.
  pose proof (resend_outputs (get_all orc (s_infl s)) (s_infl s)) as RO.
  destruct (resend (get_all orc (s_infl s)) (s_infl s)) as [m o]. cbn [snd] in *. subst o.
  eexists. split; [reflexivity|]. split.
  - intros k r G. apply (in_map (fun kv => pkt_of_rec true (fst kv) (snd kv)) _ (k, r)).
    apply get_all_complete; [apply W|exact G].
  - intros p I. apply in_map_iff in I. destruct I as ([k r] & Eq & I).
    exists k, r. split; [apply (in_get_all orc); [apply W|exact I]|symmetry; exact Eq].
Qed.

(* ====================================================================================== *)
(* C10 — identifiers of outbound PUBLISH packets                                            *)
(* ====================================================================================== *)
(* a new outbound message gets an identifier in range under which nothing — of either direction — is stored *)
Lemma out_publish_fresh c s pq sq uid now mei pv qf i d q u rc :
  In (OPkt T_PUBLISH i d q u rc) (snd (out_publish c s pq sq uid now mei pv qf)) -> 0 < q ->
  1 <= i <= c_maxpid c /\ get i (s_infl s) = None /\ d = false /\ u = uid.
Proof.
  unfold out_publish.
  destruct ((if sq <? pq then sq else pq) =? 0) eqn:Q0.
  { destruct (s_conn s); [destruct qf|]; intros H Q; cbn in H; try contradiction;
      destruct H as [H|H]; try contradiction; inversion H; subst; lia. }
  destruct (c_maxinfl c <=? len (s_infl s)).
  { intros H Q; cbn in H; destruct H as [H|H]; [discriminate|contradiction]. }
  destruct (next_pid c s) as [j|] eqn:NP.
  2:{ intros H Q; cbn in H; destruct H as [H|H]; [discriminate|contradiction]. }
  apply next_pid_sound in NP. cbn zeta.
  repeat match goal with |- context [if ?b then _ else _] => destruct b end;
    intros H Q; cbn in H; try contradiction; destruct H as [H|H]; try contradiction; try discriminate;
    inversion H; subst; tauto.
Qed.

Definition immok (c : cfg) (m : imap) : Prop :=
  NoDup (keys m) /\
  forall k r, get k m = Some r -> (r_expiry r < 0)%Z -> r_ty r = T_PUBLISH /\ 1 <= k <= c_maxpid c.

Lemma immok_wf c s : wf c s -> immok c (s_infl s).
Proof.
  intros W. split; [apply W|]. intros k r G E.
  assert (T : r_ty r = T_PUBLISH) by (eapply (wf_imm c s W); eassumption).
  split; [exact T|eapply (wf_pub c s W); eassumption].
Qed.

Lemma immok_del c k m : immok c m -> immok c (del k m).
Proof.
  intros [N I]. split; [apply nodup_del; exact N|]. intros k0 r G E. apply get_del_some in G. apply (I k0 r); tauto.
Qed.

Lemma immok_set_ack c k ty uid now m :
  (0 <= c_maxexp c)%Z -> (0 <= now)%Z -> immok c m -> immok c (set k (ack_rec ty uid c now) m).
Proof.
  intros C Nw [N I]. split; [apply nodup_set; exact N|]. intros k0 r G E.
  destruct (N.eq_dec k0 k) as [->|Ne].
  - rewrite get_set_same in G. inversion G; subst. cbn in E. lia.
  - rewrite get_set_other in G by exact Ne. apply (I k0 r); assumption.
Qed.

Definition pub_ids_ok (c : cfg) (outs : list out) : Prop :=
  forall p d q u rc, In (OPkt T_PUBLISH p d q u rc) outs -> 0 < q -> 1 <= p <= c_maxpid c.

Lemma pub_ids_nil c : pub_ids_ok c [].
Proof. intros p d q u rc []. Qed.

Lemma pub_ids_cons_other c o outs :
  (forall p d q u rc, o <> OPkt T_PUBLISH p d q u rc) -> pub_ids_ok c outs -> pub_ids_ok c (o :: outs).
Proof. intros Ne H p d q u rc [E|I] Q; [exfalso; eapply Ne; exact E|eapply H; eassumption]. Qed.

Lemma deferred_pub_ids c s orc : immok c (s_infl s) -> pub_ids_ok c (snd (deferred s orc)).
Proof.
  intros [N I]. destruct (deferred_cases s orc) as [->|(p & r & NI & _ & ->)]; [apply pub_ids_nil|].
  cbn [snd]. destruct (s_conn s); [|apply pub_ids_nil].
  apply next_immediate_spec in NI; [|exact N]. destruct NI as (G & E & _).
  destruct (I p r G E) as [T R].
  intros p' d q u rc [H|[]] Q. unfold pkt_of_rec in H. rewrite T in H. cbn in H. inversion H; subst. exact R.
Qed.

Ltac not_publish := intros; unfold T_PUBLISH, T_PUBACK, T_PUBREC, T_PUBREL, T_PUBCOMP, T_DISCONNECT, T_CONNACK;
  match goal with |- ?a <> ?b => intro HH; inversion HH end; try lia.

Lemma in_publish_pub_ids c s qos pid uid now orc :
  cfg_ok c -> (0 <= now)%Z -> wf c s -> pub_ids_ok c (snd (in_publish c s qos pid uid now orc)).
Proof.
  intros [_ C] Nw W. pose proof (immok_wf c s W) as I. unfold in_publish.
  destruct (s_recvq s =? 0)%Z; [apply pub_ids_cons_other; [not_publish|apply pub_ids_nil]|].
  destruct (match get pid (s_infl s) with Some r => r_ty r =? T_PUBREC | None => false end).
  { pose proof (deferred_pub_ids c s orc I) as D. destruct (deferred s orc). cbn [snd] in *.
    apply pub_ids_cons_other; [not_publish|exact D]. }
  destruct (qos =? 0).
  { match goal with |- context [deferred ?x orc] =>
      assert (D : pub_ids_ok c (snd (deferred x orc))) by (apply deferred_pub_ids; sproj; apply immok_del; exact I);
      destruct (deferred x orc) end.
    cbn [snd] in *. apply pub_ids_cons_other; [intros; discriminate|exact D]. }
  cbn zeta.
  match goal with |- context [deferred ?x orc] =>
    assert (D : pub_ids_ok c (snd (deferred x orc)));
    [apply deferred_pub_ids; destruct (qos =? 1); sproj;
       repeat (apply immok_del || (apply immok_set_ack; [exact C|exact Nw|])); exact I|];
    destruct (deferred x orc) end.
  cbn [snd] in *. apply pub_ids_cons_other; [destruct (qos =? 2); not_publish|].
  apply pub_ids_cons_other; [intros; discriminate|exact D].
Qed.

Lemma in_ack_pub_ids c s ty pid rc now orc :
  cfg_ok c -> (0 <= now)%Z -> wf c s -> pub_ids_ok c (snd (in_ack c s ty pid rc now orc)).
Proof.
  intros [_ C] Nw W. pose proof (immok_wf c s W) as I. unfold in_ack.
  assert (D1 : forall s0, immok c (s_infl s0) -> pub_ids_ok c (snd (deferred s0 orc))) by (intros; apply deferred_pub_ids; assumption).
  assert (D2 : forall s0 t q d a b e, t <> T_PUBLISH -> immok c (s_infl s0) ->
             pub_ids_ok c (snd (let '(s', o) := deferred s0 orc in (s', OPkt t q d a b e :: o)))).
  { intros s0 t q d a b e T I0. pose proof (D1 s0 I0) as K. destruct (deferred s0 orc). cbn [snd] in *.
    apply pub_ids_cons_other; [intros; intro HH; inversion HH; congruence|exact K]. }
  destruct (ty =? T_PUBACK).
  { destruct (get pid (s_infl s)); apply D1; sproj; [apply immok_del|]; exact I. }
  destruct (ty =? T_PUBREC).
  { destruct (get pid (s_infl s)); [destruct ((128 <=? rc) || negb (pubrec_rc_valid rc))|].
    - apply D1; sproj; apply immok_del; exact I.
    - apply D2; [unfold T_PUBREL, T_PUBLISH; lia|]. sproj. apply immok_set_ack; assumption.
    - apply D2; [unfold T_PUBREL, T_PUBLISH; lia|exact I]. }
  destruct (ty =? T_PUBREL).
  { destruct (get pid (s_infl s)); [destruct ((128 <=? rc) || negb (pubrel_rc_valid rc))|].
    - apply D1; sproj; apply immok_del; exact I.
    - apply D2; [unfold T_PUBCOMP, T_PUBLISH; lia|]. sproj. apply immok_del. apply immok_set_ack; assumption.
    - apply D2; [unfold T_PUBCOMP, T_PUBLISH; lia|exact I]. }
  destruct (ty =? T_PUBCOMP); [|apply pub_ids_nil].
  apply D1; sproj; apply immok_del; exact I.
Qed.

(* C10: every outbound QoS 1/2 PUBLISH the session ever writes — first transmission, held-back release or
   resend — carries an identifier between 1 and maximumPacketID (<= 65535) *)
Theorem publish_ids_in_range c s o orc :
  cfg_ok c -> op_ok o -> wf c s -> pub_ids_ok c (snd (step c s o orc)).
Proof.
  intros C O W. destruct o; cbn [step op_ok] in *.
  - destruct (s_present s); [|apply pub_ids_nil].
    intros p d q u rc I Q. apply out_publish_fresh in I; [tauto|exact Q].
  - destruct (s_present s && s_conn s); [apply in_publish_pub_ids; assumption|apply pub_ids_nil].
  - destruct (s_present s && s_conn s); [apply in_ack_pub_ids; assumption|apply pub_ids_nil].
  - destruct (s_present s && s_conn s); [apply deferred_pub_ids; apply immok_wf; exact W|apply pub_ids_nil].
  - destruct (s_present s && s_conn s); [|apply pub_ids_nil].
    destruct graceful; [destruct (deferred (with_conn s false) orc)|]; apply pub_ids_nil.
  - unfold reconnect. destruct (s_present s); [|apply pub_ids_cons_other; [not_publish|apply pub_ids_nil]].
    destruct (clean || (s_clean s && negb (s_v5 s))); [apply pub_ids_cons_other; [not_publish|apply pub_ids_nil]|].
    cbn zeta.
    match goal with |- context [resend ?l ?m] =>
      pose proof (resend_outputs l m) as RO; remember l as lst eqn:EL; destruct (resend lst m) as [m' o'] end.
    cbn [snd] in *. subst o'. apply pub_ids_cons_other; [not_publish|].
    intros p d q u rc I Q. apply in_map_iff in I. destruct I as ([k r] & Eq & I). cbn [fst snd] in Eq.
    subst lst.
    assert (G : get k (s_infl s) = Some r).
    { destruct (0 <? len (s_infl s)); sproj_in I.
      - apply (in_get_all orc); [apply W|exact I].
      - assert (LE : forall o', lookup_all o' [] = []) by (induction o'; cbn; auto).
        unfold get_all in I. destruct (valid_order orc []); [rewrite LE in I; destruct I|cbn in I; destruct I]. }
    unfold pkt_of_rec in Eq. destruct (r_ty r =? T_PUBLISH) eqn:T; [|inversion Eq; unfold T_PUBLISH in *; lia].
    assert (R : 1 <= k <= c_maxpid c) by (apply (wf_pub c s W k r G); lia).
    inversion Eq; subst. exact R.
  - destruct (s_present s); apply pub_ids_nil.
Qed.

(* ====================================================================================== *)
(* C12 — the order of a resend / of the release of held-back messages                      *)
(* ====================================================================================== *)
(* position of a packet in a list of outputs *)
Fixpoint sorted_keys (l : list Z) : Prop :=
  match l with
  | a :: ((b :: _) as r) => (a <= b)%Z /\ sorted_keys r
  | _ => True
  end.

Lemma sorted16_keys l : sorted16 l = true -> sorted_keys (map (fun kv => key16 (snd kv)) l).
Proof.
  induction l as [|a [|b l] IH]; cbn; intros S; try exact I.
  apply andb_prop in S. destruct S as [S1 S2]. split; [lia|]. apply IH. exact S2.
Qed.

(* C12: the records of a resumed session are written in an order that is sorted by uint16(Created), whatever
   the oracle; two messages whose stamps differ (mod 2^16) in publish order therefore keep their order *)
Theorem resend_sorted c s v5 clean sei rm orc :
  wf c s -> persistent s -> keeps_session (Reconnect v5 clean sei rm) = true -> s_infl s <> [] ->
  exists lst, snd (reconnect c s v5 clean sei rm orc) =
                OPkt T_CONNACK 0 true 0 0 0 :: map (fun kv => pkt_of_rec true (fst kv) (snd kv)) lst
              /\ sorted_keys (map (fun kv => key16 (snd kv)) lst)
              /\ (forall k r, In (k, r) lst <-> get k (s_infl s) = Some r).
Proof.
  intros W (P & E & F) K Ne. cbn [keeps_session] in K.
  unfold reconnect. rewrite P.
  assert (Cl : clean = false) by (destruct clean; [discriminate|reflexivity]). subst clean.
  assert (C2 : s_clean s && negb (s_v5 s) = false).
  { destruct (s_v5 s) eqn:V; [apply andb_false_r|]. rewrite (F eq_refl). reflexivity. }
  cbn [orb]. rewrite C2.
  assert (L : (0 <? len (s_infl s)) = true).
  { unfold len. destruct (s_infl s); [congruence|]. cbn [length]. lia. }
  rewrite L. cbn zeta.
  set (s1 := fresh c v5 false sei rm (s_infl s) (c_srvrm c =? 0)%Z).
  assert (Es : s_infl s1 = s_infl s) by reflexivity. rewrite Es.
  pose proof (resend_outputs (get_all orc (s_infl s)) (s_infl s)) as RO.
  destruct (resend (get_all orc (s_infl s)) (s_infl s)) as [m o]. cbn [snd] in *. subst o.
  exists (get_all orc (s_infl s)). split; [reflexivity|]. split.
  - apply sorted16_keys. apply get_all_sorted.
  - intros k r. split; [apply in_get_all; apply W|apply get_all_complete; apply W].
Qed.

(* C12 / C11: when the post-packet block runs with quota available and messages held back, it writes one of them,
   and one whose uint16(Created) is smallest among the held-back ones *)
Theorem deferred_progress c s orc k0 r0 :
  wf c s -> s_conn s = true -> (0 < s_sendq s)%Z -> get k0 (s_infl s) = Some r0 -> (r_expiry r0 < 0)%Z ->
  exists p r, snd (deferred s orc) = [OPkt T_PUBLISH p false (r_qos r) (r_uid r) 0] /\
              get p (s_infl s) = Some r /\ (r_expiry r < 0)%Z /\
              forall k' r', get k' (s_infl s) = Some r' -> (r_expiry r' < 0)%Z -> (key16 r <= key16 r')%Z.
Proof.
  intros W Cn Q G0 E0. unfold deferred.
  assert (L : (0 <? len (s_infl s)) = true).
  { unfold len. destruct (s_infl s); [discriminate|]. cbn [length]. lia. }
  rewrite L. replace (0 <? s_sendq s)%Z with true by lia. cbn [andb].
  destruct (next_immediate orc (s_infl s)) as [[p r]|] eqn:NI.
  - pose proof (next_immediate_spec orc (s_infl s) p r (wf_nodup c s W) NI) as (G & E & M).
    exists p, r. rewrite Cn. cbn [snd]. unfold pkt_of_rec.
    rewrite (wf_imm c s W p r G E). cbn. tauto.
  - exfalso. unfold next_immediate in NI.
    destruct (sort16 (immediates (s_infl s))) as [|[p1 r1] rest] eqn:S.
    + assert (I : In (k0, r0) (sort16 (immediates (s_infl s)))).
      { apply in_sort16. apply filter_In. split; [apply get_in; exact G0|cbn; lia]. }
      rewrite S in I. destruct I.
    + destruct orc as [|q orc]; [discriminate|].
      destruct (get q (immediates (s_infl s))); [destruct (key16 r =? key16 r1)%Z|]; discriminate.
Qed.

(* ====================================================================================== *)
(* C11 — send-quota accounting                                                              *)
(* ====================================================================================== *)
Definition out_ty (r : rec) : bool := (r_ty r =? T_PUBLISH) || (r_ty r =? T_PUBREL).
Definition marked (r : rec) : bool := (r_expiry r <? 0)%Z.
(* an outbound message that has consumed a unit of send quota: stored and not held back *)
Definition sent_out (r : rec) : bool := out_ty r && negb (marked r).

Definition n_f (f : rec -> bool) (m : imap) : Z := Z.of_nat (length (filter (fun kv => f (snd kv)) m)).
Definition b2z (b : bool) : Z := if b then 1%Z else 0%Z.

Lemma n_f_nonneg f m : (0 <= n_f f m)%Z.
Proof. unfold n_f. lia. Qed.

Lemma n_f_cons f k v m : n_f f ((k, v) :: m) = (b2z (f v) + n_f f m)%Z.
Proof. unfold n_f. cbn [filter snd]. destruct (f v); cbn [length b2z]; lia. Qed.

Lemma n_f_del f k m :
  NoDup (keys m) ->
  n_f f (del k m) = (n_f f m - match get k m with Some r => b2z (f r) | None => 0 end)%Z.
Proof.
  induction m as [|[k' v] m IH]; intros N; [reflexivity|].
  inversion N as [|? ? Hn Hd]; subst. cbn [del get].
  destruct (k' =? k) eqn:E.
  - assert (k' = k) by lia. subst k'.
    rewrite del_absent by (apply notin_get_none; exact Hn). rewrite n_f_cons. lia.
  - rewrite !n_f_cons. rewrite IH by exact Hd. lia.
Qed.

Lemma n_f_set f k v m :
  NoDup (keys m) ->
  n_f f (set k v m) = (n_f f m - match get k m with Some r => b2z (f r) | None => 0 end + b2z (f v))%Z.
Proof. intros N. unfold set. rewrite n_f_cons, n_f_del by exact N. lia. Qed.

Lemma n_marked_zero m : n_f marked m = 0%Z -> immediates m = [].
Proof.
  unfold n_f, immediates, marked. intros H.
  destruct (filter (fun kv => (r_expiry (snd kv) <? 0)%Z) m); [reflexivity|cbn in H; lia].
Qed.

Definition sbal (s : st) : Prop :=
  ((0 < s_maxsend s)%Z -> (s_sendq s + n_f sent_out (s_infl s) = s_maxsend s)%Z) /\
  ((0 < n_f marked (s_infl s))%Z -> s_sendq s = 0%Z).

(* with correct accounting the post-packet block has nothing to do: quota is available only if nothing is held back *)
Lemma deferred_noop s orc : sbal s -> deferred s orc = (s, []).
Proof.
  intros [_ B]. destruct (deferred_cases s orc) as [->|(p & r & NI & Q & _)]; [reflexivity|].
  exfalso. pose proof (n_f_nonneg marked (s_infl s)).
  assert (Z0 : n_f marked (s_infl s) = 0%Z) by (destruct (Z.eq_dec (n_f marked (s_infl s)) 0); [assumption|lia]).
  apply n_marked_zero in Z0. unfold next_immediate in NI. rewrite Z0 in NI. cbn in NI. discriminate.
Qed.

Definition nomark (s : st) : bool := match immediates (s_infl s) with [] => true | _ => false end.

Lemma nomark_zero s : nomark s = true -> n_f marked (s_infl s) = 0%Z.
Proof.
  unfold nomark, n_f, immediates, marked. destruct (filter _ (s_infl s)); [reflexivity|discriminate].
Qed.

(* the operations that keep the accounting exact; everything excluded here is one of the listed findings
   (own identifier hits an outbound record, acknowledgement while a message is held back, PUBREL / PUBCOMP /
   PUBACK raising the quota without an outbound flow ending, PUBREC >= 0x80 or expiry dropping a counted record,
   resuming a session with outbound records) or a protocol error of the client *)
Definition ok_send (c : cfg) (s : st) (o : op) : bool :=
  match o with
  | OutPublish _ _ _ _ _ _ _ _ => true
  | InPublish _ p _ _ _ => match get p (s_infl s) with Some r => negb (out_ty r) | None => true end
  | InAck ty p rc _ =>
      match get p (s_infl s) with
      | None => if ty =? T_PUBCOMP then (s_sendq s =? s_maxsend s)%Z else true
      | Some r =>
          if ty =? T_PUBACK then sent_out r && nomark s
          else if ty =? T_PUBREC then
            if (128 <=? rc) || negb (pubrec_rc_valid rc) then negb (sent_out r) else sent_out r
          else if ty =? T_PUBREL then
            if (128 <=? rc) || negb (pubrel_rc_valid rc) then negb (sent_out r)
            else (sent_out r && nomark s) || (negb (sent_out r) && (s_sendq s =? s_maxsend s)%Z)
          else if ty =? T_PUBCOMP then
            (sent_out r && nomark s) || (negb (sent_out r) && (s_sendq s =? s_maxsend s)%Z)
          else true
      end
  | InOther | Disconnect _ => true
  | Reconnect _ clean _ _ =>
      negb (s_present s) || clean || (s_clean s && negb (s_v5 s))
      || forallb (fun kv => negb (out_ty (snd kv))) (s_infl s)
  | Expire now => forallb (fun kv => negb (sent_out (snd kv) && expired c now (snd kv))) (s_infl s)
  end.

Lemma sbal_init : sbal init_st.
Proof. split; cbn; lia. Qed.

Lemma sbal_teardown s : sbal s -> sbal (teardown s).
Proof. intros B. unfold teardown. destruct (s_exp s); [apply sbal_init|exact B]. Qed.

Lemma sbal_deferred s orc : sbal s -> sbal (fst (deferred s orc)).
Proof. intros B. rewrite deferred_noop by exact B. exact B. Qed.

Lemma sbal_deferred_cons s orc x : sbal s -> sbal (fst (let '(s', o) := deferred s orc in (s', x :: o))).
Proof. intros B. rewrite deferred_noop by exact B. exact B. Qed.

Lemma sbal_deferred_cons2 s orc x y : sbal s -> sbal (fst (let '(s', o) := deferred s orc in (s', x :: y :: o))).
Proof. intros B. rewrite deferred_noop by exact B. exact B. Qed.

Lemma ack_rec_not_sent ty uid c now :
  ty <> T_PUBLISH -> ty <> T_PUBREL -> sent_out (ack_rec ty uid c now) = false.
Proof. intros A B. unfold sent_out, out_ty. cbn. replace (ty =? T_PUBLISH) with false by lia. replace (ty =? T_PUBREL) with false by lia. reflexivity. Qed.

Lemma ack_rec_not_marked ty uid c now : (0 <= c_maxexp c)%Z -> (0 <= now)%Z -> marked (ack_rec ty uid c now) = false.
Proof. intros. unfold marked. cbn. lia. Qed.

Lemma n_f_pos f k r m : get k m = Some r -> f r = true -> (1 <= n_f f m)%Z.
Proof.
  intros G F. apply get_in in G.
  assert (I : In (k, r) (filter (fun kv => f (snd kv)) m)) by (apply filter_In; split; [exact G|exact F]).
  unfold n_f. destruct (filter (fun kv => f (snd kv)) m); [destruct I|cbn [length]; lia].
Qed.

Lemma sent_not_marked r : sent_out r = true -> marked r = false.
Proof. unfold sent_out. destruct (marked r); [rewrite andb_false_r; discriminate|reflexivity]. Qed.

Ltac count_maps W :=
  repeat first
    [ rewrite n_f_del by (first [apply (wf_nodup _ _ W) | apply nodup_set; apply (wf_nodup _ _ W)
                                | apply nodup_del; apply (wf_nodup _ _ W)])
    | rewrite n_f_set by (first [apply (wf_nodup _ _ W) | apply nodup_del; apply (wf_nodup _ _ W)])
    | rewrite get_set_same | rewrite get_del_same ].

Lemma sbal_in_ack c s ty p rc now orc :
  cfg_ok c -> (0 <= now)%Z -> wf c s -> sbal s -> ok_send c s (InAck ty p rc now) = true ->
  sbal (fst (in_ack c s ty p rc now orc)).
Proof.
  intros [_ C] Nw W B OK. pose proof (wf_sq c s W) as Q. destruct B as [B1 B2].
  pose proof (n_f_nonneg sent_out (s_infl s)) as P1. pose proof (n_f_nonneg marked (s_infl s)) as P2.
  unfold in_ack. cbn [ok_send] in OK.
  destruct (ty =? T_PUBACK) eqn:T1.
  { destruct (get p (s_infl s)) as [r|] eqn:G; [|apply sbal_deferred; split; assumption].
    apply andb_prop in OK. destruct OK as [S NM]. apply nomark_zero in NM.
    pose proof (sent_not_marked r S) as M. pose proof (n_f_pos sent_out p r _ G S) as P3.
    apply sbal_deferred. unfold sbal. sproj. count_maps W. rewrite G, S, M. unfold inc, b2z.
    destruct (s_sendq s <? s_maxsend s)%Z eqn:E; split; intros; lia. }
  destruct (ty =? T_PUBREC) eqn:T2.
  { destruct (get p (s_infl s)) as [r|] eqn:G; [|apply sbal_deferred_cons; split; assumption].
    destruct ((128 <=? rc) || negb (pubrec_rc_valid rc)).
    - apply sbal_deferred. unfold sbal. sproj. count_maps W. rewrite G.
      apply negb_true_iff in OK. rewrite OK. unfold b2z. destruct (marked r); split; intros; lia.
    - pose proof (sent_not_marked r OK) as M.
      apply sbal_deferred_cons. unfold sbal. sproj. count_maps W. rewrite G, OK, M.
      assert (S' : sent_out (ack_rec T_PUBREL (r_uid r) c now) = true).
      { unfold sent_out, out_ty, marked. cbn. lia. }
      rewrite S'. rewrite ack_rec_not_marked by assumption. unfold b2z. split; intros; lia. }
  destruct (ty =? T_PUBREL) eqn:T3.
  { destruct (get p (s_infl s)) as [r|] eqn:G; [|apply sbal_deferred_cons; split; assumption].
    destruct ((128 <=? rc) || negb (pubrel_rc_valid rc)).
    - apply sbal_deferred. unfold sbal. sproj. count_maps W. rewrite G.
      apply negb_true_iff in OK. rewrite OK. unfold b2z. destruct (marked r); split; intros; lia.
    - apply sbal_deferred_cons. unfold sbal. sproj.
      rewrite (n_f_del sent_out), (n_f_del marked) by (apply nodup_set; apply W).
      rewrite get_set_same. count_maps W. rewrite G.
      rewrite ack_rec_not_sent by (unfold T_PUBCOMP, T_PUBLISH, T_PUBREL; lia).
      rewrite ack_rec_not_marked by assumption. unfold inc, b2z.
      apply orb_prop in OK. destruct OK as [OK|OK]; apply andb_prop in OK; destruct OK as [S X].
      + apply nomark_zero in X. rewrite S, (sent_not_marked r S). pose proof (n_f_pos sent_out p r _ G S) as P3.
        destruct (s_sendq s <? s_maxsend s)%Z eqn:E; split; intros; lia.
      + apply negb_true_iff in S. rewrite S.
        destruct (s_sendq s <? s_maxsend s)%Z eqn:E; [lia|]. destruct (marked r); split; intros; lia. }
  destruct (ty =? T_PUBCOMP) eqn:T4; [|split; assumption].
  apply sbal_deferred. unfold sbal. sproj. count_maps W. unfold inc, b2z.
  destruct (get p (s_infl s)) as [r|] eqn:G.
  - apply orb_prop in OK. destruct OK as [OK|OK]; apply andb_prop in OK; destruct OK as [S X].
    + apply nomark_zero in X. rewrite S, (sent_not_marked r S). pose proof (n_f_pos sent_out p r _ G S) as P3.
      destruct (s_sendq s <? s_maxsend s)%Z eqn:E; split; intros; lia.
    + apply negb_true_iff in S. rewrite S.
      destruct (s_sendq s <? s_maxsend s)%Z eqn:E; [lia|]. destruct (marked r); split; intros; lia.
  - destruct (s_sendq s <? s_maxsend s)%Z eqn:E; [lia|]. split; intros; lia.
Qed.

Ltac nodup_solve W := repeat (apply nodup_del || apply nodup_set); apply (wf_nodup _ _ W).
Ltac count_maps2 W :=
  repeat first
    [ rewrite n_f_del by nodup_solve W
    | rewrite n_f_set by nodup_solve W
    | rewrite get_set_same | rewrite get_del_same ].

Lemma sbal_in_publish c s qos p uid now orc :
  cfg_ok c -> (0 <= now)%Z -> wf c s -> sbal s -> ok_send c s (InPublish qos p false uid now) = true ->
  sbal (fst (in_publish c s qos p uid now orc)).
Proof.
  intros [_ C] Nw W B OK. cbn [ok_send] in OK. unfold in_publish.
  destruct (s_recvq s =? 0)%Z; [apply sbal_teardown; exact B|].
  destruct (match get p (s_infl s) with Some r => r_ty r =? T_PUBREC | None => false end).
  { apply sbal_deferred_cons. exact B. }
  (* whatever is stored under p is neither counted nor held back *)
  assert (Z1 : match get p (s_infl s) with Some r => b2z (sent_out r) | None => 0%Z end = 0%Z).
  { destruct (get p (s_infl s)) as [r|]; [|reflexivity]. apply negb_true_iff in OK. unfold sent_out. rewrite OK. reflexivity. }
  assert (Z2 : match get p (s_infl s) with Some r => b2z (marked r) | None => 0%Z end = 0%Z).
  { destruct (get p (s_infl s)) as [r|] eqn:G; [|reflexivity]. apply negb_true_iff in OK.
    unfold marked. destruct (r_expiry r <? 0)%Z eqn:E; [|reflexivity].
    exfalso. assert (T : r_ty r = T_PUBLISH) by (apply (wf_imm c s W p r G); lia).
    unfold out_ty in OK. rewrite T in OK. discriminate. }
  destruct B as [B1 B2].
  assert (A1 : forall ty, ty <> T_PUBLISH -> ty <> T_PUBREL -> b2z (sent_out (ack_rec ty uid c now)) = 0%Z)
    by (intros; rewrite ack_rec_not_sent by assumption; reflexivity).
  assert (A2 : forall ty, b2z (marked (ack_rec ty uid c now)) = 0%Z)
    by (intros; rewrite ack_rec_not_marked by assumption; reflexivity).
  destruct (qos =? 0).
  { apply sbal_deferred_cons. unfold sbal. sproj. count_maps2 W. rewrite Z1, Z2. split; intros; lia. }
  cbn zeta. apply sbal_deferred_cons2.
  assert (AT : (if qos =? 2 then T_PUBREC else T_PUBACK) <> T_PUBLISH /\ (if qos =? 2 then T_PUBREC else T_PUBACK) <> T_PUBREL)
    by (destruct (qos =? 2); unfold T_PUBREC, T_PUBACK, T_PUBLISH, T_PUBREL; lia).
  destruct AT as [AT1 AT2].
  unfold sbal. destruct (qos =? 1); sproj; count_maps2 W; rewrite ?Z1, ?Z2, ?A1, ?A2 by assumption;
    split; intros; lia.
Qed.

Lemma hold_expiry_neg e : (hold_expiry e < 0)%Z.
Proof. unfold hold_expiry. destruct (e <? 0)%Z eqn:E; lia. Qed.

Lemma sbal_out_publish c s pq sq uid now mei pv qf :
  cfg_ok c -> (0 <= now)%Z -> wf c s -> sbal s ->
  sbal (fst (out_publish c s pq sq uid now mei pv qf)).
Proof.
  intros [_ C] Nw W B. pose proof (wf_sq c s W) as Q. unfold out_publish.
  destruct ((if sq <? pq then sq else pq) =? 0); [destruct (s_conn s); exact B|].
  destruct (c_maxinfl c <=? len (s_infl s)); [exact B|].
  destruct (next_pid c s) as [i|] eqn:NP; [|exact B].
  apply next_pid_sound in NP. destruct NP as [_ Gi].
  destruct B as [B1 B2].
  pose proof (n_f_nonneg sent_out (s_infl s)) as P1. pose proof (n_f_nonneg marked (s_infl s)) as P2.
  cbn zeta.
  set (e := zmin (c_maxexp c) (Z.of_N mei)).
  set (expiry := if (0 <? e)%Z then (now + e)%Z else 0%Z).
  assert (Ex : (0 <= expiry)%Z) by (unfold expiry; destruct (0 <? e)%Z eqn:E; lia).
  set (q := if sq <? pq then sq else pq).
  set (r := {| r_ty := T_PUBLISH; r_qos := q; r_uid := uid; r_created := now; r_expiry := expiry; r_pv5 := pv |}).
  set (r' := {| r_ty := T_PUBLISH; r_qos := q; r_uid := uid; r_created := now; r_expiry := hold_expiry expiry; r_pv5 := pv |}).
  assert (Sr : sent_out r = true) by (unfold sent_out, out_ty, marked; cbn; lia).
  assert (Mr : marked r = false) by (unfold marked; cbn; lia).
  assert (Sr' : sent_out r' = false) by (unfold sent_out, marked; cbn; pose proof (hold_expiry_neg expiry); lia).
  assert (Mr' : marked r' = true) by (unfold marked; cbn; pose proof (hold_expiry_neg expiry); lia).
  assert (New : mem i (s_infl (with_pid s i)) = false) by (sproj; apply mem_false_iff; exact Gi).
  rewrite New. cbn [negb].
  sproj.
  destruct ((s_sendq s =? 0)%Z && (0 <? s_maxsend s)%Z) eqn:Mk.
  { cbn [fst]. unfold sbal. sproj. count_maps2 W. rewrite Gi, Sr, Mr, Sr', Mr'. unfold dec, b2z.
    destruct (0 <? s_sendq s)%Z eqn:E; split; intros; lia. }
  assert (Fin : sbal (with_sendq (with_infl (with_pid s i) (set i r (s_infl s))) (dec (s_sendq s)))).
  { unfold sbal. sproj. count_maps2 W. rewrite Gi, Sr, Mr. unfold dec, b2z.
    destruct (0 <? s_sendq s)%Z eqn:E; split; intros; lia. }
  destruct (negb (s_conn s)); [exact Fin|].
  destruct qf; [|exact Fin]. cbn [fst].
  unfold sbal. sproj. count_maps2 W. rewrite Gi, Sr, Mr. unfold inc, dec, b2z.
  destruct (0 <? s_sendq s)%Z eqn:E.
  - replace (s_sendq s - 1 <? s_maxsend s)%Z with true by lia. split; intros; lia.
  - replace (s_sendq s <? s_maxsend s)%Z with false by lia. split; intros; lia.
Qed.

Lemma n_f_zero_all f m : (forall k r, In (k, r) m -> f r = false) -> n_f f m = 0%Z.
Proof.
  intros H. unfold n_f. replace (filter (fun kv => f (snd kv)) m) with (@nil (N * rec)); [reflexivity|].
  symmetry. induction m as [|[k r] m IH]; [reflexivity|]. cbn [filter snd].
  rewrite (H k r (or_introl eq_refl)). apply IH. intros k' r' I. apply (H k' r'). right. exact I.
Qed.

Lemma sbal_reconnect c s v5 clean sei rm orc :
  cfg_ok c -> wf c s -> ok_send c s (Reconnect v5 clean sei rm) = true ->
  sbal (fst (reconnect c s v5 clean sei rm orc)).
Proof.
  intros [C _] W OK. cbn [ok_send] in OK. unfold reconnect.
  assert (F0 : forall z, sbal (fresh c v5 clean sei rm [] z)).
  { intros z. unfold sbal. sproj. unfold n_f. cbn. destruct z; split; intros; lia. }
  destruct (s_present s); [|apply F0]. cbn [negb orb] in OK.
  destruct (clean || (s_clean s && negb (s_v5 s))); [apply F0|]. cbn [orb] in OK.
  cbn zeta.
  set (s1 := if 0 <? len (s_infl s) then _ else _).
  assert (I1 : forall k r, get k (s_infl s1) = Some r -> get k (s_infl s) = Some r).
  { unfold s1. destruct (0 <? len (s_infl s)); sproj; [tauto|cbn; discriminate]. }
  assert (N1 : NoDup (keys (s_infl s1))).
  { unfold s1. destruct (0 <? len (s_infl s)); sproj; [apply W|constructor]. }
  assert (Q1 : s_sendq s1 = s_maxsend s1) by (unfold s1; destruct (0 <? len (s_infl s)); sproj; destruct (c_srvrm c =? 0)%Z; reflexivity).
  destruct (resend (get_all orc (s_infl s1)) (s_infl s1)) as [m o] eqn:R. cbn [fst].
  apply resend_sub in R; [|exact N1]. destruct R as [Nm Sub].
  assert (NoOut : forall k r, In (k, r) m -> out_ty r = false).
  { intros k r I. apply in_get in I; [|exact Nm]. apply Sub in I. apply I1 in I. apply get_in in I.
    rewrite forallb_forall in OK. specialize (OK (k, r) I). cbn in OK. apply negb_true_iff in OK. exact OK. }
  unfold sbal. sproj.
  rewrite (n_f_zero_all sent_out m) by (intros k r I; unfold sent_out; rewrite (NoOut k r I); reflexivity).
  rewrite (n_f_zero_all marked m).
  - replace (s_sendq (with_infl s1 m)) with (s_sendq s1) by reflexivity.
    replace (s_maxsend (with_infl s1 m)) with (s_maxsend s1) by reflexivity. split; intros; lia.
  - intros k r I. unfold marked. destruct (r_expiry r <? 0)%Z eqn:E; [|reflexivity]. exfalso.
    pose proof (NoOut k r I) as NO. apply in_get in I; [|exact Nm]. apply Sub in I. apply I1 in I.
    assert (T : r_ty r = T_PUBLISH) by (apply (wf_imm c s W k r I); lia).
    unfold out_ty in NO. rewrite T in NO. discriminate.
Qed.

Lemma n_f_filter_le f g m : (n_f f (filter g m) <= n_f f m)%Z.
Proof.
  unfold n_f. induction m as [|kv m IH]; [cbn; lia|]. cbn [filter].
  destruct (g kv); cbn [filter]; destruct (f (snd kv)); cbn [length]; lia.
Qed.

Lemma n_f_filter_same f g m :
  (forall kv, In kv m -> g kv = false -> f (snd kv) = false) -> n_f f (filter g m) = n_f f m.
Proof.
  unfold n_f. induction m as [|kv m IH]; intros H; [reflexivity|]. cbn [filter].
  assert (IH' : Z.of_nat (length (filter (fun kv0 => f (snd kv0)) (filter g m))) =
                Z.of_nat (length (filter (fun kv0 => f (snd kv0)) m))).
  { apply IH. intros kv' I. apply H. right. exact I. }
  destruct (g kv) eqn:G; cbn [filter].
  - destruct (f (snd kv)); cbn [length]; lia.
  - rewrite (H kv (or_introl eq_refl) G). exact IH'.
Qed.

Lemma sbal_expire c s now :
  sbal s -> ok_send c s (Expire now) = true ->
  sbal (with_infl s (filter (fun kv => negb (expired c now (snd kv))) (s_infl s))).
Proof.
  intros [B1 B2] OK. cbn [ok_send] in OK. unfold sbal. sproj.
  rewrite n_f_filter_same.
  - pose proof (n_f_filter_le marked (fun kv => negb (expired c now (snd kv))) (s_infl s)). split; intros; lia.
  - intros kv I G. rewrite forallb_forall in OK. specialize (OK kv I). apply negb_false_iff in G.
    rewrite G in OK. rewrite andb_true_r in OK. apply negb_true_iff in OK. exact OK.
Qed.

Theorem step_sbal c s o orc :
  cfg_ok c -> op_ok o -> wf c s -> sbal s -> ok_send c s o = true -> sbal (fst (step c s o orc)).
Proof.
  intros C O W B OK. destruct o; cbn [step op_ok] in *.
  - destruct (s_present s); [apply sbal_out_publish; assumption|exact B].
  - destruct (s_present s && s_conn s); [apply sbal_in_publish; assumption|exact B].
  - destruct (s_present s && s_conn s); [apply sbal_in_ack; assumption|exact B].
  - destruct (s_present s && s_conn s); [apply sbal_deferred; exact B|exact B].
  - destruct (s_present s && s_conn s); [|exact B].
    destruct graceful; [|apply sbal_teardown; exact B].
    assert (B' : sbal (with_conn s false)) by exact B.
    rewrite (deferred_noop _ orc B'). cbn [fst]. apply sbal_teardown. exact B'.
  - apply sbal_reconnect; assumption.
  - destruct (s_present s); [apply sbal_expire; assumption|exact B].
Qed.

(* histories in which every operation keeps the accounting exact (evaluated along the model's own run) *)
Fixpoint clean_send (c : cfg) (s : st) (h : list (op * list N)) : bool :=
  match h with
  | [] => true
  | (o, orc) :: r => ok_send c s o && clean_send c (fst (step c s o orc)) r
  end.

(* C11 (send side): along every such history, for every oracle, the send quota plus the number of stored outbound
   messages that have been handed to the connection equals the client's receive maximum; in particular there are
   never more of them than that maximum, and quota is available only when nothing is held back *)
Theorem run_sbal c : cfg_ok c -> forall h s,
  hist_ok h -> wf c s -> sbal s -> clean_send c s h = true ->
  let s' := fst (run c s h) in
  sbal s' /\ ((0 < s_maxsend s')%Z -> (n_f sent_out (s_infl s') <= s_maxsend s')%Z).
Proof.
  intros C. induction h as [|[o orc] h IH]; intros s H W B CL.
  - cbn [run fst]. split; [exact B|]. intros M. destruct B as [B1 _]. specialize (B1 M).
    pose proof (wf_sq c s W). lia.
  - rewrite run_cons. cbn [fst]. cbn [clean_send] in CL. apply andb_prop in CL. destruct CL as [OK CL].
    assert (O : op_ok o) by (apply (H o orc); left; reflexivity).
    apply IH; try assumption.
    + intros o' orc' I. apply (H o' orc'). right. exact I.
    + apply step_wf; assumption.
    + apply step_sbal; assumption.
Qed.

(* ====================================================================================== *)
(* C11 — receive-quota accounting (one-sided: the quota is never lower than the stored own   *)
(* QoS 2 exchanges explain, so a client inside the advertised maximum is not refused)       *)
(* ====================================================================================== *)
Definition inbound (r : rec) : bool := r_ty r =? T_PUBREC.

Definition rlow3 (q mx : Z) (m : imap) : Prop := (q + n_f inbound m >= mx)%Z.
Definition rlow (s : st) : Prop := rlow3 (s_recvq s) (s_maxrecv s) (s_infl s).

Definition ok_recv (c : cfg) (s : st) (o : op) : bool :=
  match o with
  | InPublish qos _ _ _ _ => qos <=? 2
  | InAck ty p rc _ =>
      match get p (s_infl s) with
      | None => true
      | Some r =>
          if ty =? T_PUBACK then negb (inbound r)
          else if ty =? T_PUBREC then
            if (128 <=? rc) || negb (pubrec_rc_valid rc) then negb (inbound r)
            else (s_recvq s =? 0)%Z && negb (inbound r)
          else if ty =? T_PUBREL then
            if (128 <=? rc) || negb (pubrel_rc_valid rc) then negb (inbound r) else true
          else true
      end
  | Expire now => forallb (fun kv => negb (inbound (snd kv) && expired c now (snd kv))) (s_infl s)
  | _ => true
  end.

Lemma rlow_deferred c s orc : immok c (s_infl s) -> rlow s -> rlow (fst (deferred s orc)).
Proof.
  intros [N I] R. destruct (deferred_cases s orc) as [->|(p & r & NI & _ & ->)]; [exact R|].
  cbn [fst]. unfold rlow, rlow3 in *. sproj. rewrite n_f_del by exact N.
  apply next_immediate_spec in NI; [|exact N]. destruct NI as (G & E & _). rewrite G.
  destruct (I p r G E) as [T _].
  assert (IB : inbound r = false) by (unfold inbound; rewrite T; reflexivity). rewrite IB. cbn [b2z]. lia.
Qed.

Lemma rlow_deferred_pre c s orc (pre : list out -> list out) :
  immok c (s_infl s) -> rlow s -> rlow (fst (let '(s', o) := deferred s orc in (s', pre o))).
Proof. intros I R. pose proof (rlow_deferred c s orc I R) as K. destruct (deferred s orc). exact K. Qed.

Ltac immok_solve C Nw I := repeat (apply immok_del || (apply immok_set_ack; [exact C|exact Nw|])); exact I.
Ltac count_maps3 I :=
  repeat first
    [ rewrite n_f_del by (repeat (apply nodup_del || apply nodup_set); apply (proj1 I))
    | rewrite n_f_set by (repeat (apply nodup_del || apply nodup_set); apply (proj1 I))
    | rewrite get_set_same | rewrite get_del_same ].

Lemma rlow_in_publish c s qos p uid now orc :
  cfg_ok c -> (0 <= now)%Z -> wf c s -> rlow s -> qos <=? 2 = true ->
  rlow (fst (in_publish c s qos p uid now orc)).
Proof.
  intros [_ C] Nw W R Q2. pose proof (immok_wf c s W) as I. pose proof (wf_rq c s W) as Q.
  unfold in_publish.
  destruct (s_recvq s =? 0)%Z eqn:Q0.
  { cbn [fst]. unfold teardown. destruct (s_exp s); [unfold rlow, rlow3; cbn; lia|exact R]. }
  destruct (match get p (s_infl s) with Some r => r_ty r =? T_PUBREC | None => false end) eqn:RT.
  { apply (rlow_deferred_pre c s orc (fun o => _ :: o)); assumption. }
  assert (Z1 : match get p (s_infl s) with Some r => b2z (inbound r) | None => 0%Z end = 0%Z).
  { destruct (get p (s_infl s)) as [r|]; [|reflexivity]. unfold inbound. rewrite RT. reflexivity. }
  unfold rlow, rlow3 in R.
  destruct (qos =? 0) eqn:Q00.
  { apply (rlow_deferred_pre c _ orc (fun o => _ :: o)); [sproj; immok_solve C Nw I|].
    unfold rlow, rlow3. sproj. count_maps3 I. rewrite Z1. lia. }
  cbn zeta.
  apply (rlow_deferred_pre c _ orc (fun o => _ :: _ :: o)); [destruct (qos =? 1); sproj; immok_solve C Nw I|].
  unfold rlow, rlow3.
  destruct (qos =? 1) eqn:Q1; sproj; count_maps3 I; rewrite ?Z1.
  - assert (E2 : (qos =? 2) = false) by lia. rewrite E2.
    assert (IB : inbound (ack_rec T_PUBACK uid c now) = false) by reflexivity. rewrite IB.
    unfold dec, inc, b2z. replace (0 <? s_recvq s)%Z with true by lia.
    replace (s_recvq s - 1 <? s_maxrecv s)%Z with true by lia. lia.
  - assert (E2 : (qos =? 2) = true) by lia. rewrite E2.
    assert (IB : inbound (ack_rec T_PUBREC uid c now) = true) by reflexivity. rewrite IB.
    unfold dec, b2z. replace (0 <? s_recvq s)%Z with true by lia. lia.
Qed.

Lemma rlow_in_ack c s ty p rc now orc :
  cfg_ok c -> (0 <= now)%Z -> wf c s -> rlow s -> ok_recv c s (InAck ty p rc now) = true ->
  rlow (fst (in_ack c s ty p rc now orc)).
Proof.
  intros [_ C] Nw W R OK. pose proof (immok_wf c s W) as I. pose proof (wf_rq c s W) as Q.
  cbn [ok_recv] in OK. unfold in_ack. unfold rlow, rlow3 in R.
  pose proof (n_f_nonneg inbound (s_infl s)) as P1.
  destruct (ty =? T_PUBACK) eqn:T1.
  { destruct (get p (s_infl s)) as [r|] eqn:G; [|apply (rlow_deferred c); assumption].
    apply (rlow_deferred c); [sproj; immok_solve C Nw I|].
    unfold rlow, rlow3. sproj. count_maps3 I. rewrite G. apply negb_true_iff in OK. rewrite OK. cbn [b2z]. lia. }
  destruct (ty =? T_PUBREC) eqn:T2.
  { destruct (get p (s_infl s)) as [r|] eqn:G; [|apply (rlow_deferred_pre c s orc (fun o => _ :: o)); assumption].
    destruct ((128 <=? rc) || negb (pubrec_rc_valid rc)).
    - apply (rlow_deferred c); [sproj; immok_solve C Nw I|].
      unfold rlow, rlow3. sproj. count_maps3 I. rewrite G. apply negb_true_iff in OK. rewrite OK. cbn [b2z]. lia.
    - apply andb_prop in OK. destruct OK as [Q0 NI]. apply negb_true_iff in NI.
      apply (rlow_deferred_pre c _ orc (fun o => _ :: o)); [sproj; immok_solve C Nw I|].
      unfold rlow, rlow3. sproj. count_maps3 I. rewrite G, NI.
      assert (IB : inbound (ack_rec T_PUBREL (r_uid r) c now) = false) by reflexivity. rewrite IB.
      unfold dec, b2z. replace (0 <? s_recvq s)%Z with false by lia. lia. }
  destruct (ty =? T_PUBREL) eqn:T3.
  { destruct (get p (s_infl s)) as [r|] eqn:G; [|apply (rlow_deferred_pre c s orc (fun o => _ :: o)); assumption].
    destruct ((128 <=? rc) || negb (pubrel_rc_valid rc)).
    - apply (rlow_deferred c); [sproj; immok_solve C Nw I|].
      unfold rlow, rlow3. sproj. count_maps3 I. rewrite G. apply negb_true_iff in OK. rewrite OK. cbn [b2z]. lia.
    - apply (rlow_deferred_pre c _ orc (fun o => _ :: o)); [sproj; immok_solve C Nw I|].
      unfold rlow, rlow3. sproj.
      rewrite (n_f_del inbound) by (apply nodup_set; apply (proj1 I)). rewrite get_set_same. count_maps3 I. rewrite G.
      unfold inc, b2z. replace (inbound (ack_rec T_PUBCOMP (r_uid r) c now)) with false by reflexivity.
      destruct (inbound r) eqn:IB.
      + pose proof (n_f_pos inbound p r _ G IB). destruct (s_recvq s <? s_maxrecv s)%Z eqn:E; lia.
      + destruct (s_recvq s <? s_maxrecv s)%Z eqn:E; lia. }
  destruct (ty =? T_PUBCOMP) eqn:T4; [|exact R].
  apply (rlow_deferred c); [sproj; immok_solve C Nw I|].
  unfold rlow, rlow3. sproj. count_maps3 I. unfold inc, b2z.
  destruct (get p (s_infl s)) as [r|] eqn:G.
  - destruct (inbound r) eqn:IB.
    + pose proof (n_f_pos inbound p r _ G IB). destruct (s_recvq s <? s_maxrecv s)%Z eqn:E; lia.
    + destruct (s_recvq s <? s_maxrecv s)%Z eqn:E; lia.
  - destruct (s_recvq s <? s_maxrecv s)%Z eqn:E; lia.
Qed.

Lemma out_publish_rlow c s pq sq uid now mei pv qf :
  wf c s -> rlow s -> rlow (fst (out_publish c s pq sq uid now mei pv qf)).
Proof.
  intros W R. pose proof (immok_wf c s W) as I. unfold out_publish.
  destruct ((if sq <? pq then sq else pq) =? 0); [destruct (s_conn s); exact R|].
  destruct (c_maxinfl c <=? len (s_infl s)); [exact R|].
  destruct (next_pid c s) as [i|] eqn:NP; [|exact R].
  apply next_pid_sound in NP. destruct NP as [_ Gi]. cbn zeta.
  unfold rlow, rlow3 in *.
  assert (IB : forall e, inbound {| r_ty := T_PUBLISH; r_qos := if sq <? pq then sq else pq; r_uid := uid;
                                    r_created := now; r_expiry := e; r_pv5 := pv |} = false) by reflexivity.
  repeat match goal with |- context [if ?b then _ else _] => destruct b end; cbn [fst]; sproj;
    count_maps3 I; rewrite ?Gi, ?IB; cbn [b2z]; lia.
Qed.

Theorem step_rlow c s o orc :
  cfg_ok c -> op_ok o -> wf c s -> rlow s -> ok_recv c s o = true -> rlow (fst (step c s o orc)).
Proof.
  intros C O W R OK. pose proof (immok_wf c s W) as I. destruct o; cbn [step op_ok ok_recv] in *.
  - destruct (s_present s); [apply out_publish_rlow; assumption|exact R].
  - destruct (s_present s && s_conn s); [apply rlow_in_publish; assumption|exact R].
  - destruct (s_present s && s_conn s); [apply rlow_in_ack; assumption|exact R].
  - destruct (s_present s && s_conn s); [apply (rlow_deferred c); assumption|exact R].
  - destruct (s_present s && s_conn s); [|exact R].
    assert (TD : forall s0, rlow s0 -> rlow (teardown s0)).
    { intros s0 R0. unfold teardown. destruct (s_exp s0); [unfold rlow, rlow3; cbn; lia|exact R0]. }
    destruct graceful; [|apply TD; exact R].
    pose proof (rlow_deferred c (with_conn s false) orc I R) as K.
    destruct (deferred (with_conn s false) orc). cbn [fst] in *. apply TD. exact K.
  - (* a new connection starts with the full quota *)
    destruct C as [C _]. unfold reconnect.
    assert (F0 : forall m z, rlow3 (s_recvq (fresh c v5 clean sei rm [] z)) (s_maxrecv (fresh c v5 clean sei rm [] z)) m).
    { intros m z. unfold rlow3. sproj. pose proof (n_f_nonneg inbound m). destruct z; lia. }
    destruct (s_present s); [|apply F0].
    destruct (clean || (s_clean s && negb (s_v5 s))); [apply F0|]. cbn zeta.
    match goal with |- context [resend ?l ?m] => destruct (resend l m) as [m' o'] end. cbn [fst].
    unfold rlow, rlow3. pose proof (n_f_nonneg inbound m').
    destruct (0 <? len (s_infl s)); sproj; destruct (c_srvrm c =? 0)%Z; lia.
  - destruct (s_present s); [|exact R]. cbn [fst]. unfold rlow, rlow3 in *. sproj.
    rewrite n_f_filter_same; [exact R|].
    intros kv In G. rewrite forallb_forall in OK. specialize (OK kv In). apply negb_false_iff in G.
    rewrite G in OK. rewrite andb_true_r in OK. apply negb_true_iff in OK. exact OK.
Qed.

Fixpoint clean_recv (c : cfg) (s : st) (h : list (op * list N)) : bool :=
  match h with
  | [] => true
  | (o, orc) :: r => ok_recv c s o && clean_recv c (fst (step c s o orc)) r
  end.

Lemma rlow_init : rlow init_st.
Proof. unfold rlow, rlow3. cbn. lia. Qed.

(* C11 (receive side): along every history without the listed receive-quota defects (PUBREC for an outbound
   message, an acknowledgement or expiry removing an own exchange), for every oracle: as long as fewer own QoS 2
   exchanges are stored than the advertised maximum, the next PUBLISH is not refused with 0x93 *)
Theorem run_rlow c : cfg_ok c -> forall h s,
  hist_ok h -> wf c s -> rlow s -> clean_recv c s h = true ->
  let s' := fst (run c s h) in
  rlow s' /\ ((n_f inbound (s_infl s') < s_maxrecv s')%Z -> (s_recvq s' =? 0)%Z = false).
Proof.
  intros C. induction h as [|[o orc] h IH]; intros s H W R CL.
  - cbn [run fst]. split; [exact R|]. unfold rlow, rlow3 in R. intros. lia.
  - rewrite run_cons. cbn [fst]. cbn [clean_recv] in CL. apply andb_prop in CL. destruct CL as [OK CL].
    assert (O : op_ok o) by (apply (H o orc); left; reflexivity).
    apply IH; try assumption.
    + intros o' orc' In. apply (H o' orc'). right. exact In.
    + apply step_wf; assumption.
    + apply step_rlow; assumption.
Qed.

(* ... and a PUBLISH arriving with quota left is answered (acknowledged or, for QoS 0, forwarded), not refused *)
Lemma in_publish_accepts c s qos p uid now orc :
  (s_recvq s =? 0)%Z = false ->
  match snd (in_publish c s qos p uid now orc) with
  | OPkt t q _ _ _ _ :: _ => q = p /\ (t = T_PUBREC \/ t = T_PUBACK)
  | OFwd u :: _ => u = uid
  | _ => False
  end.
Proof.
  intros Q. unfold in_publish. rewrite Q.
  destruct (match get p (s_infl s) with Some r => r_ty r =? T_PUBREC | None => false end).
  { destruct (deferred s orc). cbn [snd]. tauto. }
  destruct (qos =? 0).
  { match goal with |- context [deferred ?x orc] => destruct (deferred x orc) end. reflexivity. }
  cbn zeta.
  match goal with |- context [deferred ?x orc] => destruct (deferred x orc) end.
  cbn [snd]. destruct (qos =? 2); tauto.
Qed.

(* ---- small corollaries used as property statements ---- *)
Lemma quota_bounds c : cfg_ok c -> forall h, hist_ok h ->
  let s := fst (run c init_st h) in
  (0 <= s_sendq s <= s_maxsend s)%Z /\ (0 <= s_recvq s <= s_maxrecv s)%Z.
Proof. intros C h H. pose proof (run_wf c C h init_st H (wf_init c)) as W. split; apply W. Qed.

Lemma direct_first c s pq sq uid now mei pv qf i d q u rc :
  In (OPkt T_PUBLISH i d q u rc) (snd (out_publish c s pq sq uid now mei pv qf)) -> 0 < q -> d = false /\ u = uid.
Proof. intros H Q. eapply out_publish_fresh in H; [tauto|exact Q]. Qed.
