(* C08-C12 — specification monitors over the OBSERVED history of one client session (what the
   client sent, what it received, what was forwarded, and — for the clauses that speak about the
   session state — the in-flight snapshot), written from the property texts and the MQTT flows,
   not from the broker code; the known-finding predicates; and the five engines that replay the
   component model of Inflight.v next to the real broker's observation.  No proofs in this file. *)
From MV Require Import Base.Val Session.Pkt Session.Inflight.
Open Scope N_scope.

(* ---------- what is observed per step ---------- *)
Record srec := { sr_ty : N; sr_qos : N; sr_uid : N; sr_imm : bool }.
Record sview := {
  sv_conn : bool; sv_infl : list (N * srec);            (* sorted by packet id *)
  sv_sendq : Z; sv_recvq : Z; sv_maxsend : Z; sv_maxrecv : Z; sv_pid : N }.
Record obs := {
  ob_pkts : list out;        (* OPkt only: what the session's current connection received, in order *)
  ob_fwds : list N;          (* uids of the client's messages forwarded in this step *)
  ob_closed : bool;
  ob_drops : list N;         (* uids reported dropped for this client *)
  ob_snap : option sview;    (* None: no client object with this id exists *)
  ob_fault : bool;           (* every write to the client's connection failed during this step (fault injection) *)
  ob_overlap : bool }.       (* forced schedule: a second allocator was inside Client.NextPacketID's critical section
                                while the first was parked there *)

Definition eqb_list (l1 l2 : list N) : bool := beq_bytes l1 l2.
Definition inb (x : N) (l : list N) : bool := existsb (N.eqb x) l.
Definition removeb (x : N) (l : list N) : list N := filter (fun y => negb (y =? x)) l.

(* ---------- the model state seen the same way ---------- *)
Definition srec_of (r : rec) : srec :=
  {| sr_ty := r_ty r; sr_qos := r_qos r; sr_uid := if r_ty r =? T_PUBLISH then r_uid r else 0;
     sr_imm := (r_expiry r <? 0)%Z |}.
Fixpoint insert_pid (kv : N * srec) (l : list (N * srec)) : list (N * srec) :=
  match l with
  | [] => [kv]
  | kv' :: r => if fst kv' <=? fst kv then kv' :: insert_pid kv r else kv :: l
  end.
Definition sview_of (s : st) : option sview :=
  if s_present s then
    Some {| sv_conn := s_conn s;
            sv_infl := fold_right insert_pid [] (map (fun kv => (fst kv, srec_of (snd kv))) (s_infl s));
            sv_sendq := s_sendq s; sv_recvq := s_recvq s; sv_maxsend := s_maxsend s; sv_maxrecv := s_maxrecv s;
            sv_pid := s_pid s |}
  else None.

Definition srec_eqb (a b : srec) : bool :=
  (sr_ty a =? sr_ty b) && (sr_qos a =? sr_qos b) && (sr_uid a =? sr_uid b) && Bool.eqb (sr_imm a) (sr_imm b).
Fixpoint infl_eqb (a b : list (N * srec)) : bool :=
  match a, b with
  | [], [] => true
  | (p, x) :: a', (q, y) :: b' => (p =? q) && srec_eqb x y && infl_eqb a' b'
  | _, _ => false
  end.
Definition sview_eqb (a b : option sview) : bool :=
  match a, b with
  | None, None => true
  | Some x, Some y =>
      Bool.eqb (sv_conn x) (sv_conn y) && infl_eqb (sv_infl x) (sv_infl y) &&
      (sv_sendq x =? sv_sendq y)%Z && (sv_recvq x =? sv_recvq y)%Z &&
      (sv_maxsend x =? sv_maxsend y)%Z && (sv_maxrecv x =? sv_maxrecv y)%Z && (sv_pid x =? sv_pid y)
  | _, _ => false
  end.

Definition out_eqb (a b : out) : bool :=
  match a, b with
  | OPkt t p d q u r, OPkt t' p' d' q' u' r' =>
      (t =? t') && (p =? p') && Bool.eqb d d' && (q =? q') && (u =? u') && (r =? r')
  | OFwd u, OFwd u' => u =? u'
  | ODrop u, ODrop u' => u =? u'
  | _, _ => false
  end.
Fixpoint outs_eqb (a b : list out) : bool :=
  match a, b with
  | [], [] => true
  | x :: a', y :: b' => out_eqb x y && outs_eqb a' b'
  | _, _ => false
  end.
Definition is_pkt (o : out) : bool := match o with OPkt _ _ _ _ _ _ => true | _ => false end.
Definition fwds_of (l : list out) : list N :=
  flat_map (fun o => match o with OFwd u => [u] | _ => [] end) l.
Definition drops_of (l : list out) : list N :=
  flat_map (fun o => match o with ODrop u => [u] | _ => [] end) l.
Definition pkt_ty (o : out) : N := match o with OPkt t _ _ _ _ _ => t | _ => 0 end.
Definition pkt_pid (o : out) : N := match o with OPkt _ p _ _ _ _ => p | _ => 0 end.

(* the oracle of a step, reconstructed from what the connection received: the order of the resent
   packets after CONNACK, or the identifier of the held-back PUBLISH released by the post-packet block *)
Definition orc_of (o : op) (pkts : list out) : list N :=
  match o with
  | Reconnect _ _ _ _ => map pkt_pid (filter (fun p => negb (pkt_ty p =? T_CONNACK)) pkts)
  | _ => map pkt_pid (filter (fun p => match p with OPkt t _ d q _ _ => (t =? T_PUBLISH) && negb d && (0 <? q) | _ => false end)
                             (rev pkts))
  end.

(* a DISCONNECT packet runs the post-packet block on a closed connection: nothing is written, the choice
   among equally old held-back messages shows only as the record that disappeared *)
Definition orc_for (s : st) (o : op) (ob : obs) : list N :=
  match (if ob_fault ob then Disconnect true else o) with
  | Disconnect true =>
      match ob_snap ob with
      | Some sv => filter (fun p => negb (existsb (fun e => fst e =? p) (sv_infl sv))) (map fst (immediates (s_infl s)))
      | None => []
      end
  | _ => orc_of o (ob_pkts ob)
  end.

(* one step of the model: the fault variant when the observation says the writes failed *)
Definition stepx (c : cfg) (s : st) (o : op) (ob : obs) (orc : list N) : st * list out :=
  if ob_fault ob then step_fault c s o orc else step c s o orc.

(* model observation of one step in the same shape *)
Definition obs_of_model (s' : st) (outs : list out) : obs :=
  {| ob_pkts := filter is_pkt outs; ob_fwds := fwds_of outs; ob_closed := negb (s_conn s');
     ob_drops := drops_of outs; ob_snap := sview_of s'; ob_fault := false; ob_overlap := false |}.

(* comparison of projected observables; a DISCONNECT written to an MQTT 3 client is C23's business *)
Definition no_disc (l : list out) : list out := filter (fun p => negb (pkt_ty p =? T_DISCONNECT)) l.
Definition obs_agree (v5 : bool) (m i : obs) : bool :=
  outs_eqb (if v5 then ob_pkts m else no_disc (ob_pkts m)) (if v5 then ob_pkts i else no_disc (ob_pkts i))
  && eqb_list (ob_fwds m) (ob_fwds i) && eqb_list (ob_drops m) (ob_drops i)
  && sview_eqb (ob_snap m) (ob_snap i).

(* ====================================================================================== *)
(* The client's view of the session: what a correct client knows from its own packets.      *)
(* ====================================================================================== *)
Record pend := { p_pid : N; p_uid : N; p_qos : N; p_rec : bool }.
Record omsg := { m_uid : N; m_qos : N; m_grp : N; m_created : Z; m_mei : N }.
(* an own QoS 2 exchange: identifier, message, time of the first PUBLISH, whether a PUBREC < 0x80 has arrived *)
Record oexch := { x_pid : N; x_uid : N; x_created : Z; x_acked : bool }.
Record view := {
  v_conn : bool; v_v5 : bool; v_rm : N; v_exp : bool;
  v_pubs : list omsg;            (* every message published towards the session so far (newest first) *)
  v_owed : list N;               (* QoS 1/2 messages queued for the session and not transmitted yet *)
  v_pend : list pend;            (* transmitted and not yet completely acknowledged *)
  v_done : list N;               (* completely acknowledged (or rejected) by the client *)
  v_seen : list N;               (* transmitted at least once *)
  v_direct : list N;             (* first transmitted in the step in which they were published *)
  v_open2 : list oexch;          (* own QoS 2 publishes not yet released *)
  v_inq : list N;                (* ids of own QoS 1/2 publishes on this connection without PUBACK / PUBCOMP yet *)
  v_fwd : list N;                (* own messages forwarded so far *)
  v_prev : list (N * srec);      (* in-flight snapshot before the step *)
  v_err : bool;                (* the client itself broke the protocol (acknowledgement of the wrong kind for a
                                    message it holds): the properties presuppose a compliant client, monitoring stops *)
  v_resent : list N }.           (* messages whose first transmission came out of the stored session (resend after a
                                    reconnection: DUP set) rather than straight from publishToClient *)

Definition view0 : view :=
  {| v_conn := false; v_v5 := false; v_rm := 0; v_exp := false; v_pubs := []; v_owed := []; v_pend := [];
     v_done := []; v_seen := []; v_direct := []; v_open2 := []; v_inq := []; v_fwd := []; v_prev := []; v_err := false; v_resent := [] |}.

Definition find_pend (pid : N) (l : list pend) : option pend := find (fun p => p_pid p =? pid) l.
Definition find_pend_uid (uid : N) (l : list pend) : option pend := find (fun p => p_uid p =? uid) l.
Definition del_pend (pid : N) (l : list pend) : list pend := filter (fun p => negb (p_pid p =? pid)) l.
Definition find_msg (uid : N) (l : list omsg) : option omsg := find (fun m => m_uid m =? uid) l.
Definition find_open2 (pid : N) (l : list oexch) : option oexch := find (fun e => x_pid e =? pid) l.
Definition open2_uid (pid : N) (l : list oexch) : option N :=
  match find_open2 pid l with Some e => Some (x_uid e) | None => None end.
Definition del_open2 (pid : N) (l : list oexch) := filter (fun e => negb (x_pid e =? pid)) l.
Definition snap_get (pid : N) (l : list (N * srec)) : option srec :=
  match find (fun e => fst e =? pid) l with Some e => Some (snd e) | None => None end.

Definition rec_for_pend (p : pend) (sn : list (N * srec)) : bool :=
  match snap_get (p_pid p) sn with
  | Some r => if p_rec p then sr_ty r =? T_PUBREL else (sr_ty r =? T_PUBLISH) && (sr_uid r =? p_uid p)
  | None => false
  end.
Definition rec_for_uid (u : N) (sn : list (N * srec)) : bool :=
  existsb (fun e => (sr_ty (snd e) =? T_PUBLISH) && (sr_uid (snd e) =? u)) sn.

Definition eff_qos (pq sq : N) : N := if sq <? pq then sq else pq.

(* may the broker have let this message expire by [now]? *)
Definition may_expire (c : cfg) (now : Z) (m : omsg) : bool :=
  ((0 <? m_mei m) && (m_created m + Z.of_N (m_mei m) <? now)%Z)
  || ((0 <? c_maxexp c)%Z && (c_maxexp c <? now - m_created m)%Z).
Definition uid_may_expire (c : cfg) (now : Z) (pubs : list omsg) (u : N) : bool :=
  match find_msg u pubs with Some m => may_expire c now m | None => false end.

Definition set_session (v : view) (owed : list N) (pe : list pend) (o2 : list oexch) : view :=
  {| v_conn := v_conn v; v_v5 := v_v5 v; v_rm := v_rm v; v_exp := v_exp v; v_pubs := v_pubs v; v_owed := owed;
     v_pend := pe; v_done := v_done v; v_seen := v_seen v; v_direct := v_direct v; v_open2 := o2; v_inq := v_inq v;
     v_fwd := v_fwd v; v_prev := v_prev v; v_err := v_err v; v_resent := v_resent v |}.
Definition set_conn (v : view) (b : bool) (inq : list N) : view :=
  {| v_conn := b; v_v5 := v_v5 v; v_rm := v_rm v; v_exp := v_exp v; v_pubs := v_pubs v; v_owed := v_owed v;
     v_pend := v_pend v; v_done := v_done v; v_seen := v_seen v; v_direct := v_direct v; v_open2 := v_open2 v;
     v_inq := inq; v_fwd := v_fwd v; v_prev := v_prev v; v_err := v_err v; v_resent := v_resent v |}.
Definition set_done (v : view) (d : list N) : view :=
  {| v_conn := v_conn v; v_v5 := v_v5 v; v_rm := v_rm v; v_exp := v_exp v; v_pubs := v_pubs v; v_owed := v_owed v;
     v_pend := v_pend v; v_done := d; v_seen := v_seen v; v_direct := v_direct v; v_open2 := v_open2 v;
     v_inq := v_inq v; v_fwd := v_fwd v; v_prev := v_prev v; v_err := v_err v; v_resent := v_resent v |}.
Definition set_seen (v : view) (sn dr : list N) : view :=
  {| v_conn := v_conn v; v_v5 := v_v5 v; v_rm := v_rm v; v_exp := v_exp v; v_pubs := v_pubs v; v_owed := v_owed v;
     v_pend := v_pend v; v_done := v_done v; v_seen := sn; v_direct := dr; v_open2 := v_open2 v;
     v_inq := v_inq v; v_fwd := v_fwd v; v_prev := v_prev v; v_err := v_err v; v_resent := v_resent v |}.

(* the connection is gone: the connection-scoped bookkeeping is reset, the session too if it ends with it *)
Definition view_drop (v : view) : view :=
  let v1 := set_conn v false [] in
  if v_exp v then set_session v1 [] [] [] else v1.

(* the client's own packet *)
Definition view_op (c : cfg) (v : view) (o : op) (ob : obs) : view :=
  match o with
  | OutPublish pq sq uid grp now mei _ _ =>
      let q := eff_qos pq sq in
      let m := {| m_uid := uid; m_qos := q; m_grp := grp; m_created := now; m_mei := mei |} in
      let v1 := {| v_conn := v_conn v; v_v5 := v_v5 v; v_rm := v_rm v; v_exp := v_exp v; v_pubs := m :: v_pubs v;
                   v_owed := v_owed v; v_pend := v_pend v; v_done := v_done v; v_seen := v_seen v;
                   v_direct := v_direct v; v_open2 := v_open2 v; v_inq := v_inq v; v_fwd := v_fwd v;
                   v_prev := v_prev v; v_err := v_err v; v_resent := v_resent v |} in
      (* a message reported dropped (in-flight limit, identifiers, full queue) is not owed; one whose write merely failed is *)
      if (0 <? q) && (negb (inb uid (ob_drops ob)) || ob_fault ob)
      then set_session v1 (v_owed v1 ++ [uid]) (v_pend v1) (v_open2 v1) else v1
  | InPublish qos pid _ uid now =>
      let o2 := if (qos =? 2) && negb (existsb (fun e => x_pid e =? pid) (v_open2 v))
                then v_open2 v ++ [{| x_pid := pid; x_uid := uid; x_created := now; x_acked := false |}] else v_open2 v in
      let inq := if (0 <? qos) && negb (inb pid (v_inq v)) then v_inq v ++ [pid] else v_inq v in
      set_conn (set_session v (v_owed v) (v_pend v) o2) (v_conn v) inq
  | InAck ty pid rc _ =>
      if ty =? T_PUBREL then set_session v (v_owed v) (v_pend v) (del_open2 pid (v_open2 v))
      else
        match find_pend pid (v_pend v) with
        | None => v
        | Some p =>
            if (ty =? T_PUBACK) && (p_qos p =? 1) then
              set_done (set_session v (v_owed v) (del_pend pid (v_pend v)) (v_open2 v)) (p_uid p :: v_done v)
            else if (ty =? T_PUBREC) && (p_qos p =? 2) && negb (p_rec p) then
              if 128 <=? rc then
                set_done (set_session v (v_owed v) (del_pend pid (v_pend v)) (v_open2 v)) (p_uid p :: v_done v)
              else
                set_session v (v_owed v)
                  (map (fun x => if p_pid x =? pid then {| p_pid := pid; p_uid := p_uid x; p_qos := 2; p_rec := true |} else x)
                       (v_pend v)) (v_open2 v)
            else if (ty =? T_PUBCOMP) && (p_qos p =? 2) && p_rec p then
              set_done (set_session v (v_owed v) (del_pend pid (v_pend v)) (v_open2 v)) (p_uid p :: v_done v)
            else (* an acknowledgement of the wrong kind is a protocol error of the client: nothing is owed for this message any more *)
              {| v_conn := v_conn v; v_v5 := v_v5 v; v_rm := v_rm v; v_exp := v_exp v; v_pubs := v_pubs v;
                 v_owed := v_owed v; v_pend := del_pend pid (v_pend v); v_done := v_done v; v_seen := v_seen v;
                 v_direct := v_direct v; v_open2 := v_open2 v; v_inq := v_inq v; v_fwd := v_fwd v; v_prev := v_prev v;
                 v_err := true; v_resent := v_resent v |}
        end
  | InOther => v
  | Disconnect _ => view_drop v
  | Reconnect v5 clean sei rm =>
      let sp := existsb (fun p => match p with OPkt t _ d _ _ _ => (t =? T_CONNACK) && d | _ => false end) (ob_pkts ob) in
      let v1 := {| v_conn := true; v_v5 := v5; v_rm := if v5 then rm else 0;
                   v_exp := (v5 && (sei =? 0)) || (negb v5 && clean);
                   v_pubs := v_pubs v; v_owed := v_owed v; v_pend := v_pend v; v_done := v_done v; v_seen := v_seen v;
                   v_direct := v_direct v; v_open2 := v_open2 v; v_inq := []; v_fwd := v_fwd v; v_prev := v_prev v; v_err := v_err v; v_resent := v_resent v |} in
      if sp then v1 else set_session v1 [] [] []
  | Expire now =>
      (* housekeeping may drop what is older than the maximum expiry interval, own exchanges included
         (a PUBLISH retransmitted after that is a new message) *)
      let old (e : oexch) := (0 <? c_maxexp c)%Z && (c_maxexp c <? now - x_created e)%Z in
      let sn := match ob_snap ob with Some sv => sv_infl sv | None => [] end in
      (* a message that may have expired and is gone is no longer owed; one that is still stored still is *)
      let v1 := set_session v (filter (fun u => negb (uid_may_expire c now (v_pubs v) u) || rec_for_uid u sn) (v_owed v))
                    (filter (fun p => negb (uid_may_expire c now (v_pubs v) (p_uid p)) || rec_for_pend p sn) (v_pend v))
                    (filter (fun e => negb (old e)) (v_open2 v)) in
      {| v_conn := v_conn v1; v_v5 := v_v5 v1; v_rm := v_rm v1; v_exp := v_exp v1; v_pubs := v_pubs v1;
         v_owed := v_owed v1; v_pend := v_pend v1; v_done := v_done v1; v_seen := v_seen v1; v_direct := v_direct v1;
         v_open2 := v_open2 v1; v_inq := v_inq v1;
         v_fwd := filter (fun u => negb (existsb (fun e => old e && (x_uid e =? u)) (v_open2 v))) (v_fwd v1);
         v_prev := v_prev v1; v_err := v_err v1; v_resent := v_resent v1 |}
  end.

(* one received packet *)
Definition view_pkt (direct_uid : N) (v : view) (p : out) : view :=
  match p with
  | OPkt t pid dup q uid rc =>
      if t =? T_PUBLISH then
        let v0 := if inb uid (v_seen v) then v
                  else set_seen v (uid :: v_seen v) (if uid =? direct_uid then uid :: v_direct v else v_direct v) in
        let v1 := if negb (inb uid (v_seen v)) && dup then
                    {| v_conn := v_conn v0; v_v5 := v_v5 v0; v_rm := v_rm v0; v_exp := v_exp v0; v_pubs := v_pubs v0;
                       v_owed := v_owed v0; v_pend := v_pend v0; v_done := v_done v0; v_seen := v_seen v0;
                       v_direct := v_direct v0; v_open2 := v_open2 v0; v_inq := v_inq v0; v_fwd := v_fwd v0;
                       v_prev := v_prev v0; v_err := v_err v0; v_resent := uid :: v_resent v0 |}
                  else v0 in
        if 0 <? q then
          let pe := match find_pend pid (v_pend v1) with
                    | Some _ => v_pend v1
                    | None => v_pend v1 ++ [{| p_pid := pid; p_uid := uid; p_qos := q; p_rec := false |}]
                    end in
          set_session v1 (removeb uid (v_owed v1)) pe (v_open2 v1)
        else v1
      else if (t =? T_PUBACK) || (t =? T_PUBCOMP) then set_conn v (v_conn v) (removeb pid (v_inq v))
      else if t =? T_PUBREC then
        if 128 <=? rc then set_conn (set_session v (v_owed v) (v_pend v) (del_open2 pid (v_open2 v))) (v_conn v) (removeb pid (v_inq v))
        else set_session v (v_owed v) (v_pend v)
               (map (fun e => if x_pid e =? pid
                              then {| x_pid := pid; x_uid := x_uid e; x_created := x_created e; x_acked := true |} else e)
                    (v_open2 v))
      else if t =? T_DISCONNECT then view_drop v
      else v
  | _ => v
  end.

Definition direct_uid_of (o : op) : N := match o with OutPublish _ _ uid _ _ _ _ _ => uid | _ => 0 end.

Definition view_step (c : cfg) (v : view) (o : op) (ob : obs) : view :=
  let v1 := view_op c v o ob in
  let v2a := fold_left (view_pkt (direct_uid_of o)) (ob_pkts ob) v1 in
  (* a connection that broke while the broker was answering is gone, like after a network close *)
  let v2 := if ob_fault ob && ob_closed ob then view_drop v2a else v2a in
  {| v_conn := v_conn v2; v_v5 := v_v5 v2; v_rm := v_rm v2; v_exp := v_exp v2; v_pubs := v_pubs v2; v_owed := v_owed v2;
     v_pend := v_pend v2; v_done := v_done v2; v_seen := v_seen v2; v_direct := v_direct v2; v_open2 := v_open2 v2;
     v_inq := v_inq v2; v_fwd := v_fwd v2 ++ ob_fwds ob;
     v_prev := match ob_snap ob with Some sv => sv_infl sv | None => [] end; v_err := v_err v2; v_resent := v_resent v2 |}.

(* ====================================================================================== *)
(* The five specifications.  A violation names its clause and the message / identifier.   *)
(* ====================================================================================== *)
Record viol := { vi_clause : N; vi_uid : N; vi_pid : N; vi_aux : N }.
Definition V (cl uid pid aux : N) : option viol := Some {| vi_clause := cl; vi_uid := uid; vi_pid := pid; vi_aux := aux |}.

Fixpoint first_some {A B} (f : A -> option B) (l : list A) : option B :=
  match l with [] => None | x :: r => match f x with Some y => Some y | None => first_some f r end end.
Definition orelse {A} (a b : option A) : option A := match a with Some _ => a | None => b end.
Fixpoint has_dup (l : list N) : option N :=
  match l with [] => None | x :: r => if inb x r then Some x else has_dup r end.

Definition has_pkt (f : N -> N -> bool -> N -> N -> N -> bool) (l : list out) : bool :=
  existsb (fun p => match p with OPkt t pid d q u rc => f t pid d q u rc | _ => false end) l.

(* ---- C08: inbound QoS 2 forwarded exactly once; retransmissions answered by a non-failure PUBREC ---- *)
Definition chk08 (c : cfg) (v : view) (o : op) (ob : obs) : option viol :=
  let pid_of_op := match o with InPublish _ pid _ _ _ => pid | InAck _ pid _ _ => pid | _ => 0 end in
  orelse
    (* clause 1: nothing is forwarded twice *)
    (match first_some (fun u => if inb u (v_fwd v) then Some u else None) (ob_fwds ob) with
     | Some u => V 1 u pid_of_op 0
     | None => match has_dup (ob_fwds ob) with Some u => V 1 u pid_of_op 0 | None => None end
     end)
  (orelse
    (* clause 2: a retransmission (same identifier, same message, before PUBREL) gets PUBREC with reason < 0x80 *)
    (match o with
     | InPublish 2 pid _ uid _ =>
         match open2_uid pid (v_open2 v) with
         | Some u0 =>
             if (u0 =? uid) && negb (has_pkt (fun t p _ _ _ rc => (t =? T_PUBREC) && (p =? pid) && (rc <? 128)) (ob_pkts ob))
             then V 2 uid pid 0 else None
         | None => None
         end
     | _ => None
     end)
    (* clause 3: once the exchange is completed successfully the message has been forwarded *)
    (match o with
     | InAck ty pid _ _ =>
         if ty =? T_PUBREL then
           match find_open2 pid (v_open2 v) with
           | Some e =>
               if x_acked e && has_pkt (fun t p _ _ _ rc => (t =? T_PUBCOMP) && (p =? pid) && (rc <? 128)) (ob_pkts ob)
                  && negb (inb (x_uid e) (v_fwd v))
               then V 3 (x_uid e) pid 0 else None
           | None => None
           end
         else None
     | _ => None
     end)).

(* ---- C09: unacknowledged QoS 1/2 messages stay in the session and are redelivered ---- *)

Definition is_resume (o : op) (ob : obs) : bool :=
  match o with
  | Reconnect _ _ _ _ => has_pkt (fun t _ d _ _ _ => (t =? T_CONNACK) && d) (ob_pkts ob)
  | _ => false
  end.

Definition chk09 (c : cfg) (v : view) (o : op) (ob : obs) (v' : view) : option viol :=
  let sn := match ob_snap ob with Some sv => sv_infl sv | None => [] end in
  orelse
    (* clause 2: on a reconnection with the session present everything transmitted and unacknowledged is
       resent: PUBLISH with the same identifier and DUP, PUBREL once PUBREC has been sent *)
    (if is_resume o ob then
       first_some (fun p =>
         if p_rec p then
           if has_pkt (fun t pid _ _ _ _ => (t =? T_PUBREL) && (pid =? p_pid p)) (ob_pkts ob) then None
           else V 2 (p_uid p) (p_pid p) 0
         else
           if has_pkt (fun t pid d _ u _ => (t =? T_PUBLISH) && (pid =? p_pid p) && d && (u =? p_uid p)) (ob_pkts ob) then None
           else V 2 (p_uid p) (p_pid p) 0) (v_pend v)
     else None)
  (orelse
    (* clauses 3, 4, 5: nothing acknowledged is sent again; a redelivery keeps its identifier and sets DUP;
       PUBLISH is not repeated after PUBREC; PUBREL only answers a PUBREC or repeats an open release *)
    (first_some (fun p =>
       match p with
       | OPkt t pid d q u rc =>
           if (t =? T_PUBLISH) && (0 <? q) then
             if inb u (v_done v) then V 3 u pid 0
             else match find_pend_uid u (v_pend v) with
                  | Some pe => if p_rec pe then V 3 u pid 0
                               else if negb (pid =? p_pid pe) || negb d then V 4 u pid 0 else None
                  | None => None
                  end
           else if t =? T_PUBREL then
             match o with
             | InAck ty pid' _ _ => if (ty =? T_PUBREC) && (pid' =? pid) then None
                                    else match find_pend pid (v_pend v) with
                                         | Some pe => if p_rec pe then None else V 5 (p_uid pe) pid 0
                                         | None => None
                                         end
             | _ => match find_pend pid (v_pend v) with
                    | Some pe => if p_rec pe then None else V 5 (p_uid pe) pid 0
                    | None => None
                    end
             end
           else None
       | _ => None
       end) (ob_pkts ob))
    (* clause 1: after the step every message the session owes is still stored in it *)
    (orelse
      (first_some (fun p => if rec_for_pend p sn then None else V 1 (p_uid p) (p_pid p) 0) (v_pend v'))
      (first_some (fun u => if rec_for_uid u sn then None else V 1 u 0 0) (v_owed v')))).

(* ---- C10: identifiers unique per direction; the two directions never touch each other's records ---- *)
Definition is_outbound_rec (r : srec) : bool := (sr_ty r =? T_PUBLISH) || (sr_ty r =? T_PUBREL).
Definition is_inbound_rec (r : srec) : bool := sr_ty r =? T_PUBREC.

Fixpoint chk10_pkts (pe : list pend) (l : list out) : option viol :=
  match l with
  | [] => None
  | OPkt t pid d q u rc :: r =>
      if (t =? T_PUBLISH) && (0 <? q) then
        if (pid =? 0) || (65535 <? pid) then V 1 u pid 0
        else match find_pend pid pe with
             | Some x => if p_uid x =? u then chk10_pkts pe r else V 2 u pid (p_uid x)
             | None => chk10_pkts (pe ++ [{| p_pid := pid; p_uid := u; p_qos := q; p_rec := false |}]) r
             end
      else chk10_pkts pe r
  | _ :: r => chk10_pkts pe r
  end.

Definition chk10 (c : cfg) (v : view) (o : op) (ob : obs) (v1 : view) : option viol :=
  let sn := match ob_snap ob with Some sv => sv_infl sv | None => [] end in
  orelse (if ob_overlap ob then V 6 0 0 0 else None)     (* clause 6: identifier allocation is mutually exclusive *)
 (orelse (chk10_pkts (v_pend v1) (ob_pkts ob))
    (match o with
     | InPublish qos pid _ _ _ =>
         (* clause 3: the client's own identifier leaves the broker's outbound record alone *)
         match snap_get pid (v_prev v) with
         | Some r => if is_outbound_rec r && negb (ob_closed ob) then
                       match snap_get pid sn with
                       | Some r' => if srec_eqb r r' then None else V 3 (sr_uid r) pid 0
                       | None => V 3 (sr_uid r) pid 0
                       end
                     else None
         | None => None
         end
     | InAck ty pid _ _ =>
         match snap_get pid (v_prev v) with
         | Some r =>
             if ty =? T_PUBREL then
               if is_outbound_rec r then
                 match snap_get pid sn with
                 | Some r' => if srec_eqb r r' then None else V 3 (sr_uid r) pid 0
                 | None => V 3 (sr_uid r) pid 0
                 end
               else None
             else
               (* clause 4: an acknowledgement of the broker's identifier leaves the client's own exchange alone *)
               if is_inbound_rec r then
                 match snap_get pid sn with
                 | Some r' => if srec_eqb r r' then None else V 4 0 pid 0
                 | None => V 4 0 pid 0
                 end
               else None
         | None => None
         end
     | OutPublish _ _ _ _ _ _ _ _ =>
         (* clause 5: delivering (or dropping, e.g. on a full outbound queue) a message for this client leaves every
            other outbound record of the session alone - in particular the PUBLISHER's own packet identifier means
            nothing in this session's identifier space *)
         first_some (fun e =>
           if is_outbound_rec (snd e) then
             match snap_get (fst e) sn with
             | Some r' => if srec_eqb (snd e) r' then None else V 5 (sr_uid (snd e)) (fst e) 0
             | None => V 5 (sr_uid (snd e)) (fst e) 0
             end
           else None) (v_prev v)
     | _ => None
     end)).

(* ---- C11: receive maximum in both directions, no quota leak, held-back messages are sent ---- *)
Definition nlen {A} (l : list A) : N := N.of_nat (length l).

Definition chk11 (c : cfg) (v : view) (o : op) (ob : obs) (v' : view) : option viol :=
  orelse
    (* clause 2: no "receive maximum exceeded" while the client stays within the advertised maximum *)
    (match o with
     | InPublish qos pid _ uid _ =>
         if has_pkt (fun t _ _ _ _ rc => (t =? T_DISCONNECT) && ((rc =? 147) || negb (v_v5 v))) (ob_pkts ob) then
           let n := nlen (v_inq v) + (if (0 <? qos) && negb (inb pid (v_inq v)) then 1 else 0) in
           if (Z.of_N n <=? c_srvrm c)%Z then V 2 uid pid qos else None
         else None
     | _ => None
     end)
  (orelse
    (* clause 1: never more unacknowledged QoS 1/2 PUBLISH packets in transit than the client's receive maximum *)
    (if v_v5 v' && (0 <? v_rm v') && (v_rm v' <? nlen (v_pend v')) && (nlen (v_pend v) <? nlen (v_pend v')) then
       match rev (v_pend v') with p :: _ => V 1 (p_uid p) (p_pid p) 0 | [] => None end
     else None)
    (* clause 3: while the client is connected and has room, nothing queued for it is held back *)
    (if v_conn v' && negb (ob_closed ob) && negb (ob_fault ob) then     (* a connection that cannot be written to is broken *)
       match v_owed v' with
       | u :: _ => if (v_v5 v' && (0 <? v_rm v')) then
                     if nlen (v_pend v') <? v_rm v' then V 3 u 0 0 else None
                   else V 3 u 0 0
       | [] => None
       end
     else None)).

(* ---- C12: first transmissions in publish order per (publisher, topic, QoS) ---- *)
Fixpoint pub_index (u : N) (pubs : list omsg) : nat :=   (* pubs is newest first: larger = older *)
  match pubs with [] => 0 | m :: r => if m_uid m =? u then 0 else S (pub_index u r) end.

Fixpoint chk12_pkts (pubs : list omsg) (seen : list N) (l : list out) : option viol :=
  match l with
  | [] => None
  | OPkt t pid d q u rc :: r =>
      if (t =? T_PUBLISH) && negb (inb u seen) then
        match find_msg u pubs with
        | Some m =>
            match find (fun u' => match find_msg u' pubs with
                                  | Some m' => (m_grp m' =? m_grp m) && (m_qos m' =? m_qos m)
                                               && Nat.ltb (pub_index u' pubs) (pub_index u pubs)
                                  | None => false
                                  end) seen with
            | Some u' => V 1 u pid u'       (* u' was published after u and transmitted before it *)
            | None => chk12_pkts pubs (u :: seen) r
            end
        | None => chk12_pkts pubs (u :: seen) r
        end
      else chk12_pkts pubs seen r
  | _ :: r => chk12_pkts pubs seen r
  end.

Definition chk12 (c : cfg) (v : view) (o : op) (ob : obs) (v1 : view) : option viol :=
  chk12_pkts (v_pubs v1) (v_seen v1) (ob_pkts ob).

(* ====================================================================================== *)
(* Known findings: which defect of the current code explains a violation.  The triggers are  *)
(* evaluated on the component model's state before the step.                                *)
(* ====================================================================================== *)
Record taint := {
  t_marked : list N;       (* messages ever held back by flow control (Expiry = -1 marking) *)
  t_collided : list N;     (* outbound messages whose record the client's own PUBLISH / PUBREL id hit *)
  t_crossed : list N;      (* ids of own QoS 2 exchanges whose record an acknowledgement of a broker id hit *)
  t_recvq_low : bool;      (* PUBREC for an outbound message lowered the receive quota *)
  t_sendq_high : bool;     (* the send quota was raised by something that is not the end of an outbound flow *)
  t_sendq_lost : bool;     (* an outbound flow ended without returning its unit of send quota *)
  t_resumed : bool;        (* a session with outbound records was resumed (quotas reset, everything resent) *)
  t_recvq_lost : bool;     (* an own QoS 2 exchange lost its record without the receive quota being returned *)
  t_refused : bool }.      (* a retransmitted own QoS 2 PUBLISH was answered 0x91: the client gives the exchange up,
                              the broker keeps its record and its unit of receive quota *)

Definition taint0 : taint :=
  {| t_marked := []; t_collided := []; t_crossed := []; t_recvq_low := false; t_sendq_high := false;
     t_sendq_lost := false; t_resumed := false; t_recvq_lost := false; t_refused := false |}.

Definition is_out_ty (t : N) : bool := (t =? T_PUBLISH) || (t =? T_PUBREL).

(* does the post-packet block release a held-back message in state s? *)
Definition deferred_fires (s : st) (orc : list N) : option (N * rec) :=
  if (0 <? len (s_infl s)) && (0 <? s_sendq s)%Z then next_immediate orc (s_infl s) else None.

Definition taint_step (c : cfg) (s : st) (o : op) (orc : list N) (s' : st) (t : taint) : taint :=
  let live := s_present s && s_conn s in
  (* messages newly marked in s' *)
  let marked := map (fun kv => r_uid (snd kv)) (immediates (s_infl s')) in
  let t1 := {| t_marked := marked ++ t_marked t; t_collided := t_collided t; t_crossed := t_crossed t;
               t_recvq_low := t_recvq_low t; t_sendq_high := t_sendq_high t;
               t_sendq_lost := t_sendq_lost t; t_resumed := t_resumed t; t_recvq_lost := t_recvq_lost t; t_refused := t_refused t |} in
  let lost (b : bool) (x : taint) := {| t_marked := t_marked x; t_collided := t_collided x; t_crossed := t_crossed x;
               t_recvq_low := t_recvq_low x; t_sendq_high := t_sendq_high x;
               t_sendq_lost := t_sendq_lost x || b; t_resumed := t_resumed x; t_recvq_lost := t_recvq_lost x; t_refused := t_refused x |} in
  let high (b : bool) (x : taint) := {| t_marked := t_marked x; t_collided := t_collided x; t_crossed := t_crossed x;
               t_recvq_low := t_recvq_low x; t_sendq_high := t_sendq_high x || b;
               t_sendq_lost := t_sendq_lost x; t_resumed := t_resumed x; t_recvq_lost := t_recvq_lost x; t_refused := t_refused x |} in
  let collided (u : list N) (x : taint) := {| t_marked := t_marked x; t_collided := u ++ t_collided x; t_crossed := t_crossed x;
               t_recvq_low := t_recvq_low x; t_sendq_high := t_sendq_high x;
               t_sendq_lost := t_sendq_lost x; t_resumed := t_resumed x; t_recvq_lost := t_recvq_lost x; t_refused := t_refused x |} in
  let crossed (p : list N) (x : taint) := {| t_marked := t_marked x; t_collided := t_collided x; t_crossed := p ++ t_crossed x;
               t_recvq_low := t_recvq_low x; t_sendq_high := t_sendq_high x;
               t_sendq_lost := t_sendq_lost x; t_resumed := t_resumed x; t_recvq_lost := t_recvq_lost x; t_refused := t_refused x |} in
  let rlost (b : bool) (x : taint) := {| t_marked := t_marked x; t_collided := t_collided x; t_crossed := t_crossed x;
               t_recvq_low := t_recvq_low x; t_sendq_high := t_sendq_high x;
               t_sendq_lost := t_sendq_lost x; t_resumed := t_resumed x; t_recvq_lost := t_recvq_lost x || b; t_refused := t_refused x |} in
  (* the post-packet block of this step released (and deleted) a held-back message: one unit of quota is gone *)
  let fired := match o with
               | InPublish _ _ _ _ _ | InAck _ _ _ _ | InOther | Disconnect true =>
                   live && negb (Nat.eqb (length (immediates (s_infl s'))) (length (immediates (s_infl s))))
               | _ => false
               end in
  let t2 := lost fired t1 in
  match o with
  | InPublish qos pid _ _ _ =>
      if live && negb (s_recvq s =? 0)%Z then
        match get pid (s_infl s) with
        | Some r => if is_out_ty (r_ty r) then lost true (collided [r_uid r] t2)
                    else if (r_ty r =? T_PUBREC) && s_v5 s then
                      {| t_marked := t_marked t2; t_collided := t_collided t2; t_crossed := t_crossed t2;
                         t_recvq_low := t_recvq_low t2; t_sendq_high := t_sendq_high t2; t_sendq_lost := t_sendq_lost t2;
                         t_resumed := t_resumed t2; t_recvq_lost := t_recvq_lost t2; t_refused := true |}
                    else t2
        | None => t2
        end
      else t2
  | InAck ty pid rc _ =>
      if live then
        match get pid (s_infl s) with
        | Some r =>
            if ty =? T_PUBREL then
              if (128 <=? rc) || negb (pubrel_rc_valid rc) then
                (if is_out_ty (r_ty r) then lost true (collided [r_uid r] t2) else t2)
              else
                high (s_sendq s <? s_maxsend s)%Z (if is_out_ty (r_ty r) then collided [r_uid r] t2 else t2)
            else if ty =? T_PUBACK then
              if r_ty r =? T_PUBREC then rlost true (high (s_sendq s <? s_maxsend s)%Z (crossed [pid] t2))
              else if (r_expiry r <? 0)%Z then high (s_sendq s <? s_maxsend s)%Z t2   (* "acknowledges" a message never sent *)
              else t2
            else if ty =? T_PUBREC then
              let t3 := if r_ty r =? T_PUBREC then rlost true (crossed [pid] t2) else t2 in
              if (128 <=? rc) || negb (pubrec_rc_valid rc) then lost (is_out_ty (r_ty r)) t3
              else {| t_marked := t_marked t3; t_collided := t_collided t3; t_crossed := t_crossed t3;
                      t_recvq_low := t_recvq_low t3 || (0 <? s_recvq s)%Z;
                      t_sendq_high := t_sendq_high t3 || (r_expiry r <? 0)%Z;   (* a held-back message becomes a counted PUBREL *)
                      t_sendq_lost := t_sendq_lost t3; t_resumed := t_resumed t3; t_recvq_lost := t_recvq_lost t3; t_refused := t_refused t3 |}
            else if ty =? T_PUBCOMP then
              if r_ty r =? T_PUBREC then high (s_sendq s <? s_maxsend s)%Z (crossed [pid] t2)
              else if r_ty r =? T_PUBREL then t2
              else high (s_sendq s <? s_maxsend s)%Z t2
            else t2
        | None =>
            if ty =? T_PUBCOMP then high (s_sendq s <? s_maxsend s)%Z t2 else t2
        end
      else t2
  | Reconnect _ clean _ _ =>
      if s_present s && negb (clean || (s_clean s && negb (s_v5 s)))
         && existsb (fun kv => is_out_ty (r_ty (snd kv))) (s_infl s)
      then {| t_marked := t_marked t2; t_collided := t_collided t2; t_crossed := t_crossed t2;
              t_recvq_low := t_recvq_low t2; t_sendq_high := t_sendq_high t2;
              t_sendq_lost := t_sendq_lost t2; t_resumed := true; t_recvq_lost := t_recvq_lost t2; t_refused := t_refused t2 |}
      else t2
  | Expire now =>
      rlost (s_present s && existsb (fun kv => (r_ty (snd kv) =? T_PUBREC) && expired c now (snd kv)) (s_infl s))
     (lost (s_present s && existsb (fun kv => is_out_ty (r_ty (snd kv)) && expired c now (snd kv)
                                              && negb (r_expiry (snd kv) <? 0)%Z) (s_infl s)) t2)
  | _ => t2
  end.

(* classification: the name of the known finding that explains violation [vi] of property [prop], if any *)
Definition kf_of (prop : N) (c : cfg) (s : st) (v v' : view) (t : taint) (o : op) (vi : viol) : option bytes :=
  let cl := vi_clause vi in
  if prop =? 8 then
    if cl =? 2 then
      if (s_recvq s =? 0)%Z then Some (tag "KF_C08_limit_on_retransmit") else Some (tag "KF_C08_retransmit_0x91")
    else if cl =? 1 then
      if inb (vi_pid vi) (t_crossed t) then Some (tag "KF_C08_cross_ack") else None
    else if cl =? 3 then
      (* the broker holds the record of this very message (PUBREC, or what an acknowledgement made of it) although it
         never forwarded it: the write of the first PUBREC failed *)
      match get (vi_pid vi) (s_infl s) with
      | Some r => if negb (r_ty r =? T_PUBLISH) && (r_uid r =? vi_uid vi) then Some (tag "KF_C08_recorded_not_forwarded")
                  else if inb (vi_pid vi) (t_crossed t) then Some (tag "KF_C08_cross_ack") else None
      | None => if inb (vi_pid vi) (t_crossed t) then Some (tag "KF_C08_cross_ack") else None
      end
    else None
  else if prop =? 9 then
    if inb (vi_uid vi) (t_collided t) || ((vi_uid vi =? 0) && inb (vi_pid vi) (t_crossed t)) then Some (tag "KF_C09_id_collision")
    else if inb (vi_uid vi) (t_marked t) then Some (tag "KF_C09_deferred")
    else None
  else if prop =? 10 then
    if cl =? 3 then
      match o with
      | InPublish _ pid _ _ _ | InAck _ pid _ _ =>
          match get pid (s_infl s) with
          | Some r => if is_out_ty (r_ty r) then Some (tag "KF_C10_own_id_hits_outbound") else None
          | None => None
          end
      | _ => None
      end
    else if cl =? 4 then
      match o with
      | InAck _ pid _ _ =>
          match get pid (s_infl s) with
          | Some r => if r_ty r =? T_PUBREC then Some (tag "KF_C10_ack_hits_inbound") else None
          | None => None
          end
      | _ => None
      end
    else if cl =? 2 then
      if inb (vi_aux vi) (t_collided t) then Some (tag "KF_C10_own_id_hits_outbound")
      else if inb (vi_aux vi) (t_marked t) then Some (tag "KF_C10_reuse_after_deferred_delete")
      else None
    else None
  else if prop =? 11 then
    if cl =? 2 then
      if (vi_aux vi =? 0) || inb (vi_pid vi) (v_inq v) then Some (tag "KF_C11_limit_checked_first")
      else if t_recvq_low t then Some (tag "KF_C11_pubrec_takes_receive_quota")
      else if t_recvq_lost t then Some (tag "KF_C11_receive_quota_lost")
      else if t_refused t then Some (tag "KF_C11_refused_retransmit_keeps_quota")
      else None
    else if cl =? 1 then
      (* a message the client still holds whose record is really gone from the session (v_prev v' = the snapshot after
         this step) and whose loss one of the record-deleting defects explains *)
      if existsb (fun p => inb (p_uid p) (t_collided t)      (* its record was hit by an identifier of the other direction
                                                                 (whatever is stored under that number now is not it) *)
                           || (inb (p_uid p) (t_marked t) && negb (rec_for_pend p (v_prev v'))))
                 (v_pend v')
      then Some (tag "KF_C11_record_lost")
      else if t_resumed t then Some (tag "KF_C11_resume_resets_quota")
      else if t_sendq_high t then Some (tag "KF_C11_send_quota_raised")
      else None
    else if cl =? 3 then
      if t_sendq_lost t then Some (tag "KF_C11_send_quota_lost") else None
    else None
  else if prop =? 12 then
    match find_msg (vi_uid vi) (v_pubs v), find_msg (vi_aux vi) (v_pubs v) with
    | Some m, Some m' =>
        if inb (vi_aux vi) (v_direct v) then None      (* overtaken by a message sent straight away: not explained *)
        else if negb (inb (vi_aux vi) (v_resent v') || inb (vi_aux vi) (t_marked t)) then None
             (* the overtaking message did not come out of GetAll (resend / held-back release): not explained *)
        else if ((m_created m' mod 65536) <=? (m_created m mod 65536))%Z then Some (tag "KF_C12_created_order")
        else None
    | _, _ => None
    end
  else None.

(* ====================================================================================== *)
(* Engines                                                                                  *)
(* ====================================================================================== *)
Definition as_op (v : val) : option op :=
  match v with
  | VL [VN 1; VN pq; VN sq; VN uid; VN grp; now; VN mei; pv5; qf] =>
      do now' <- as_Z now; do pv5' <- as_bool pv5; do qf' <- as_bool qf;
      Some (OutPublish pq sq uid grp now' mei pv5' qf')
  | VL [VN 2; VN qos; VN pid; dup; VN uid; now] =>
      do dup' <- as_bool dup; do now' <- as_Z now; Some (InPublish qos pid dup' uid now')
  | VL [VN 3; VN ty; VN pid; VN rc; now] => do now' <- as_Z now; Some (InAck ty pid rc now')
  | VL [VN 4] => Some InOther
  | VL [VN 5; g] => do g' <- as_bool g; Some (Disconnect g')
  | VL [VN 6; v5; clean; VN sei; VN rm] => do v5' <- as_bool v5; do cl' <- as_bool clean; Some (Reconnect v5' cl' sei rm)
  | VL [VN 7; now] => do now' <- as_Z now; Some (Expire now')
  | _ => None
  end.

Definition as_opkt (v : val) : option out :=
  match v with
  | VL [VN t; VN pid; d; VN q; VN u; VN rc] => do d' <- as_bool d; Some (OPkt t pid d' q u rc)
  | _ => None
  end.
Definition as_srec (v : val) : option (N * srec) :=
  match v with
  | VL [VN pid; VN t; VN q; VN u; imm] =>
      do i' <- as_bool imm; Some (pid, {| sr_ty := t; sr_qos := q; sr_uid := u; sr_imm := i' |})
  | _ => None
  end.
Definition as_sview (v : val) : option (option sview) :=
  match v with
  | VL [] => Some None
  | VL [conn; VL infl; sq; rq; ms; mr; VN pid] =>
      do conn' <- as_bool conn; do infl' <- map_opt as_srec infl;
      do sq' <- as_Z sq; do rq' <- as_Z rq; do ms' <- as_Z ms; do mr' <- as_Z mr;
      Some (Some {| sv_conn := conn'; sv_infl := infl'; sv_sendq := sq'; sv_recvq := rq'; sv_maxsend := ms';
                    sv_maxrecv := mr'; sv_pid := pid |})
  | _ => None
  end.
Definition as_obs (v : val) : option obs :=
  match v with
  | VL (VL pkts :: fwds :: closed :: drops :: snap :: rest) =>
      do pk <- map_opt as_opkt pkts; do fw <- as_NL fwds; do cl <- as_bool closed; do dr <- as_NL drops;
      do sn <- as_sview snap;
      Some {| ob_pkts := pk; ob_fwds := fw; ob_closed := cl; ob_drops := dr; ob_snap := sn;
              ob_fault := match rest with VN 1 :: _ => true | _ => false end;
              ob_overlap := match rest with [_; VN 1] => true | _ => false end |}
  | _ => None
  end.
Definition as_step (v : val) : option (op * obs) :=
  match v with VL [o; b] => do o' <- as_op o; do b' <- as_obs b; Some (o', b') | _ => None end.
Definition as_cfg (v : val) : option cfg :=
  match v with
  | VL (VN mp :: VN mi :: VN rm :: VN me :: _) =>
      Some {| c_maxpid := mp; c_maxinfl := mi; c_srvrm := Z.of_N rm; c_maxexp := Z.of_N me |}
  | _ => None
  end.
(* a fifth configuration field 1 marks a history whose packets are reported in wire order at the end of a burst
   (write-buffer histories of C12): the component model has no write-buffer stage, only the monitor judges *)
Definition monitor_only (v : val) : bool :=
  match v with VL [_; _; _; _; VN 1] => true | _ => false end.

Definition chk (prop : N) (c : cfg) (v : view) (o : op) (ob : obs) : option viol :=
  let v1 := view_op c v o ob in
  let v' := view_step c v o ob in
  if v_err v1 then None
  else if prop =? 8 then chk08 c v o ob
  else if prop =? 9 then chk09 c v o ob v'
  else if prop =? 10 then chk10 c v o ob v1
  else if prop =? 11 then chk11 c v o ob v'
  else if prop =? 12 then chk12 c v o ob v1
  else None.

(* result of replaying a history: first violation (with its classification), and whether the model agreed *)
Record result := { rs_viol : option (viol * option bytes * nat); rs_agree : bool; rs_steps : nat }.

Fixpoint replay (prop : N) (c : cfg) (s : st) (v : view) (t : taint) (h : list (op * obs)) (n : nat) (agree : bool) : result :=
  match h with
  | [] => {| rs_viol := None; rs_agree := agree; rs_steps := n |}
  | (o, ob) :: r =>
      let orc := orc_for s o ob in
      let '(s', outs) := stepx c s o ob orc in
      let t' := taint_step c s o orc s' t in
      let v5 := match o with Reconnect b _ _ _ => b | _ => s_v5 s end in
      let ag := agree && obs_agree v5 (obs_of_model s' outs) ob in
      match chk prop c v o ob with
      | Some vi => {| rs_viol := Some (vi, kf_of prop c s v (view_step c v o ob) t' o vi, n);
                      rs_agree := ag; rs_steps := n |}
      | None => replay prop c s' (view_step c v o ob) t' r (S n) ag
      end
  end.

(* A known finding explains a violation only if the component model - which has the known defects - violates the
   specification at the same step, given the same history so far: [confirm] re-evaluates the step check on the MODEL's
   observation of step n.  A violation the model does not share is a new one, whatever the taints say. *)
Fixpoint confirm (prop : N) (c : cfg) (s : st) (v : view) (h : list (op * obs)) (n : nat) : bool :=
  match h with
  | [] => true
  | (o, ob) :: r =>
      let '(s', outs) := stepx c s o ob (orc_for s o ob) in
      match n with
      | O =>
          let m := obs_of_model s' outs in
          match chk prop c v o {| ob_pkts := ob_pkts m; ob_fwds := ob_fwds m; ob_closed := ob_closed m; ob_drops := ob_drops m;
                                  ob_snap := ob_snap m; ob_fault := ob_fault ob; ob_overlap := ob_overlap ob |} with
          | Some _ => true
          | None => false
          end
      | S n' => confirm prop c s' (view_step c v o ob) r n'
      end
  end.

Definition nontrivial_for (prop : N) (h : list (op * obs)) : bool :=
  if prop =? 8 then existsb (fun x => match fst x with InPublish 2 _ _ _ _ => true | _ => false end) h
  else if prop =? 9 then existsb (fun x => match fst x with Reconnect _ _ _ _ => true | _ => false end) (tl h)
                         && existsb (fun x => match fst x with OutPublish pq sq _ _ _ _ _ _ => 0 <? eff_qos pq sq | _ => false end) h
  else existsb (fun x => match fst x with OutPublish pq sq _ _ _ _ _ _ => 0 <? eff_qos pq sq | _ => false end) h.

Definition clause_tag (prop : N) (vi : viol) : bytes :=
  tag "clause" ++ [48 + vi_clause vi].

(* correspondence only: where does the model first disagree with the broker? *)
Fixpoint first_disagree (c : cfg) (s : st) (h : list (op * obs)) (n : N) : option N :=
  match h with
  | [] => None
  | (o, ob) :: r =>
      let orc := orc_for s o ob in
      let '(s', outs) := stepx c s o ob orc in
      let v5 := match o with Reconnect b _ _ _ => b | _ => s_v5 s end in
      if obs_agree v5 (obs_of_model s' outs) ob then first_disagree c s' r (n + 1) else Some n
  end.

(* the model's own observations along the observed operations (oracles taken from the observation) *)
Fixpoint model_along (c : cfg) (s : st) (h : list (op * obs)) : list (op * obs) :=
  match h with
  | [] => []
  | (o, ob) :: r =>
      let '(s', outs) := stepx c s o ob (orc_for s o ob) in
      (o, {| ob_pkts := ob_pkts (obs_of_model s' outs); ob_fwds := ob_fwds (obs_of_model s' outs);
             ob_closed := ob_closed (obs_of_model s' outs); ob_drops := ob_drops (obs_of_model s' outs);
             ob_snap := ob_snap (obs_of_model s' outs); ob_fault := ob_fault ob; ob_overlap := false |}) :: model_along c s' r
  end.

(* Implementation and model differ although the observation satisfies the specification: if the first difference is
   exactly the step at which the MODEL's behaviour violates the specification as a listed finding, that finding no
   longer reproduces on the code under test (it was repaired) - no alarm, the name is reported; otherwise the
   correspondence is broken. *)
Definition repaired_finding (prop : N) (c : cfg) (h : list (op * obs)) : option bytes :=
  match first_disagree c init_st h 0, rs_viol (replay prop c init_st view0 taint0 (model_along c init_st h) 0 true) with
  | Some n, Some (_, Some kf, m) => if N.of_nat m =? n then Some kf else None
  | _, _ => None
  end.

Definition qos_engine (prop : N) (v : val) : val :=
  match v with
  | VL [cv; VL steps] =>
      match as_cfg cv, map_opt as_step steps with
      | Some c, Some h =>
          let r := replay prop c init_st view0 taint0 h 0 true in
          let nt := nontrivial_for prop h in
          match rs_viol r with
          | Some (vi, Some kf, n) =>
              if monitor_only cv || confirm prop c init_st view0 h n
              then verdict 3 (clause_tag prop vi) nt [VB kf; VN (N.of_nat n); VN (vi_uid vi); VN (vi_pid vi)]
              else verdict 1 (clause_tag prop vi) nt [VN (N.of_nat n); VN (vi_uid vi); VN (vi_pid vi); VN (vi_aux vi)]
          | Some (vi, None, n) => verdict 1 (clause_tag prop vi) nt [VN (N.of_nat n); VN (vi_uid vi); VN (vi_pid vi); VN (vi_aux vi)]
          | None => if rs_agree r || monitor_only cv then verdict 0 (tag "ok") nt []
                    else match repaired_finding prop c h with
                         | Some kf => verdict 0 (tag "finding-not-reproduced") nt [VB kf]
                         | None => verdict 2 (tag "model") nt []
                         end
          end
      | _, _ => bad_case
      end
  | _ => bad_case
  end.

(* ENGINE qos08 Session.QosSpecs.qos08_engine *)
Definition qos08_engine (v : val) : val := qos_engine 8 v.
(* ENGINE qos09 Session.QosSpecs.qos09_engine *)
Definition qos09_engine (v : val) : val := qos_engine 9 v.
(* ENGINE qos10 Session.QosSpecs.qos10_engine *)
Definition qos10_engine (v : val) : val := qos_engine 10 v.
(* ENGINE qos11 Session.QosSpecs.qos11_engine *)
Definition qos11_engine (v : val) : val := qos_engine 11 v.
(* ENGINE qos12 Session.QosSpecs.qos12_engine *)
Definition qos12_engine (v : val) : val := qos_engine 12 v.
(* ENGINE qosmodel Session.QosSpecs.qosmodel_engine *)
Definition qosmodel_engine (v : val) : val :=
  match v with
  | VL [cv; VL steps] =>
      match as_cfg cv, map_opt as_step steps with
      | Some c, Some h =>
          match first_disagree c init_st h 0 with
          | None => verdict 0 (tag "ok") true []
          | Some n => verdict 2 (tag "model") true [VN n]
          end
      | _, _ => bad_case
      end
  | _ => bad_case
  end.

(* ---------- the monitors applied to the component model's own behaviour ---------- *)
Fixpoint model_trace (c : cfg) (s : st) (h : list (op * list N)) : list (op * obs) :=
  match h with
  | [] => []
  | (o, orc) :: r => let '(s', outs) := step c s o orc in (o, obs_of_model s' outs) :: model_trace c s' r
  end.

(* first violation of property [prop] on the model's trace of history h: (clause, known finding that explains it) *)
Definition model_verdict (prop : N) (c : cfg) (h : list (op * list N)) : option (N * option bytes) :=
  match rs_viol (replay prop c init_st view0 taint0 (model_trace c init_st h) 0 true) with
  | Some (vi, kf, _) => Some (vi_clause vi, kf)
  | None => None
  end.

(* the same with fault injection: the third component says that every write to the client failed in that step *)
Fixpoint model_trace_f (c : cfg) (s : st) (h : list (op * list N * bool)) : list (op * obs) :=
  match h with
  | [] => []
  | (o, orc, f) :: r =>
      let '(s', outs) := (if f then step_fault c s o orc else step c s o orc) in
      (o, {| ob_pkts := ob_pkts (obs_of_model s' outs); ob_fwds := ob_fwds (obs_of_model s' outs);
             ob_closed := ob_closed (obs_of_model s' outs); ob_drops := ob_drops (obs_of_model s' outs);
             ob_snap := ob_snap (obs_of_model s' outs); ob_fault := f; ob_overlap := false |}) :: model_trace_f c s' r
  end.
Definition model_verdict_f (prop : N) (c : cfg) (h : list (op * list N * bool)) : option (N * option bytes) :=
  match rs_viol (replay prop c init_st view0 taint0 (model_trace_f c init_st h) 0 true) with
  | Some (vi, kf, _) => Some (vi_clause vi, kf)
  | None => None
  end.
