(* C13 — proofs: for every history of operations the life-cycle model never violates the C13
   monitor (first packet is exactly one CONNACK, success only if an authentication hook allows,
   an invalid first packet / invalid CONNECT is refused). *)
From MV Require Import Base.Val Session.Lifecycle Session.LifeSpec Session.LifeBase.
From Coq Require Import Lia ZifyBool ZifyN ZifyNat.
Open Scope N_scope.

(* ---------- generic: a monitor over the trace of the model ---------- *)
Definition tstep_of (k : caps) (s : state) (o : op) : tstep :=
  {| t_op := o; t_outs := snd (step k s o); t_hooks := hook_events k s o; t_pre := s; t_post := fst (step k s o) |}.

Lemma trace_cons k s o r :
  trace k s (o :: r) = tstep_of k s o :: trace k (fst (step k s o)) r.
Proof. cbn [trace]. unfold tstep_of. destruct (step k s o). reflexivity. Qed.

Lemma run_mon_inv {M} (k : caps) (stepf : nat -> M -> obs -> M * list viol) (P : viol -> Prop)
      (Inv : M -> state -> list op -> Prop) :
  (forall i m s o r, Inv m s (o :: r) ->
      Inv (fst (stepf i m (obs_of (tstep_of k s o)))) (fst (step k s o)) r /\
      Forall P (snd (stepf i m (obs_of (tstep_of k s o))))) ->
  forall ops i m s, Inv m s ops -> Forall P (run_mon stepf i m (map obs_of (trace k s ops))).
Proof.
  intros H ops. induction ops as [|o r IH]; intros i m s I; [constructor|].
  rewrite trace_cons. cbn [map run_mon].
  destruct (H i m s o r I) as [I' F].
  destruct (stepf i m (obs_of (tstep_of k s o))) as [m' v]. cbn [fst snd] in *.
  apply Forall_app. split; [exact F|apply IH, I'].
Qed.

(* connection numbers of new connections are fresh (the harness numbers connections consecutively) *)
Fixpoint fresh_conns (used : list N) (ops : list op) : bool :=
  match ops with
  | [] => true
  | OConnect c _ _ _ _ :: r | OBadFirst c _ :: r => negb (memN c used) && fresh_conns (c :: used) r
  | _ :: r => fresh_conns used r
  end.

(* ---------- C13 ---------- *)
Lemma m13_pkts_app i st a b :
  m13_pkts i st (a ++ b) =
  (fst (m13_pkts i (fst (m13_pkts i st a)) b), snd (m13_pkts i st a) ++ snd (m13_pkts i (fst (m13_pkts i st a)) b)).
Proof.
  revert st. induction a as [|x a IH]; intro st; cbn [app m13_pkts fst snd].
  - destruct (m13_pkts i st b). reflexivity.
  - destruct x; try apply IH.
    destruct (is_connack p).
    + destruct (memN c st).
      * rewrite IH. destruct (m13_pkts i st a). cbn [fst snd]. destruct (m13_pkts i l b). reflexivity.
      * apply IH.
    + rewrite IH. destruct (m13_pkts i st a). cbn [fst snd]. destruct (m13_pkts i l b). cbn [fst snd].
      destruct (memN c st); reflexivity.
Qed.

Lemma m13_pkts_quiet i st outs :
  (forall c p, In (OPkt c p) outs -> is_connack p = false /\ memN c st = true) ->
  m13_pkts i st outs = (st, []).
Proof.
  induction outs as [|x r IH]; intro H; cbn [m13_pkts]; [reflexivity|].
  assert (Hr : forall c p, In (OPkt c p) r -> is_connack p = false /\ memN c st = true)
    by (intros c p I; apply H; right; exact I).
  destruct x; try (apply IH, Hr).
  destruct (H c p (or_introl eq_refl)) as [A B]. rewrite A, (IH Hr), B. reflexivity.
Qed.

Lemma resend_in c l x : In x (resend c l) -> exists m, x = OPkt c (PPublish m true).
Proof. unfold resend. rewrite in_map_iff. intros (m & <- & _). exists m. reflexivity. Qed.

Lemma validate_ok_spec k p : cp_trunc p = false -> validate_connect k p = 0 -> connect_ok_spec p = true.
Proof.
  intros T V. unfold validate_connect in V.
  destruct (connect_validate p =? 0) eqn:CV; cbn [negb] in V; [|apply N.eqb_neq in CV; congruence].
  apply N.eqb_eq in CV. unfold connect_validate in CV.
  repeat match goal with H : (if ?b then _ else _) = 0 |- _ => destruct b eqn:?; [discriminate H|] end.
  unfold connect_ok_spec. rewrite T. cbn [negb andb].
  destruct (beq_bytes (cp_pname p) name_MQIsdp); destruct (beq_bytes (cp_pname p) name_MQTT);
  destruct (cp_reserved p); destruct (cp_userflag p); destruct (cp_passflag p); destruct (cp_willflag p);
  destruct (cp_willretain p); destruct (cp_clean p); destruct (cp_willtopic_ok p); cbn [negb andb orb] in *;
  try discriminate; lia.
Qed.

Record inv13 (m : m13) (s : state) (ops : list op) : Prop := {
  i13_used : objs_used s;
  i13_started : forall c, hasobj s c = true -> memN c (a_started m) = true;
  i13_sub : forall c, memN c (a_started m) = true -> memN c (st_used s) = true;
  i13_fresh : fresh_conns (st_used s) ops = true }.

Lemma clients_of_conn s l r : In r (clients_of s l) -> hasobj s (sc_conn r) = true.
Proof.
  induction l as [|[id c] t IH]; cbn [clients_of]; [intros []|].
  destruct (get_obj c (st_objs s)) as [o|] eqn:G; [|exact IH].
  intros [<-|I]; [|apply IH, I]. cbn. unfold hasobj. rewrite (get_obj_conn _ _ _ G), G. reflexivity.
Qed.

Lemma no_client_conn s c : hasobj s c = false -> existsb (fun r => sc_conn r =? c) (sn_clients (snap_of s)) = false.
Proof.
  intro H. destruct (existsb _ _) eqn:E; [|reflexivity].
  apply existsb_exists in E. destruct E as (r & I & EQ). apply N.eqb_eq in EQ. subst c.
  cbn in I. apply clients_of_conn in I. congruence.
Qed.

Lemma refusal_refused_ok c outs hk pre post op :
  refusal c outs -> existsb (fun r => sc_conn r =? c) (sn_clients post) = false ->
  refused_ok c {| b_op := op; b_outs := outs; b_hooks := hk; b_pre := pre; b_post := post |} = true.
Proof.
  intros R E. unfold refused_ok. cbn [b_outs b_post]. rewrite E. cbn [negb].
  destruct R as [->|(code & NZ & ->)]; cbn [pkts_to closes flat_map app].
  - rewrite andb_true_r. cbn [andb]. rewrite memN_true. cbn. auto.
  - rewrite N.eqb_refl. cbn [app]. destruct (code =? 0) eqn:Z; [apply N.eqb_eq in Z; congruence|]. cbn [negb andb].
    rewrite andb_true_r. rewrite memN_true. cbn. auto.
Qed.

Lemma sends_ok_no_connack s outs : sends_ok s outs ->
  flat_map (fun o => match o with OPkt c (PConnack 0 _) => [mkv V13_auth 0 c []] | _ => [] end) outs = [].
Proof.
  induction outs as [|x r IH]; intro S; cbn [flat_map]; [reflexivity|].
  rewrite IH by (intros y I; apply S; right; exact I).
  pose proof (S x (or_introl eq_refl)) as Hx. destruct x; try reflexivity.
  destruct Hx as [A _]. destruct p; try reflexivity. discriminate A.
Qed.

Lemma no_success_connack (i : nat) (f : N -> list viol) outs :
  (forall x, In x outs -> match x with OPkt _ p => is_connack p = false | _ => True end) ->
  flat_map (fun o0 => match o0 with OPkt c0 (PConnack 0 _) => f c0 | _ => [] end) outs = [].
Proof.
  induction outs as [|x t IH]; intro S; cbn [flat_map]; [reflexivity|].
  rewrite IH by (intros y I; apply S; right; exact I).
  pose proof (S x (or_introl eq_refl)) as Hx. destruct x; try reflexivity.
  destruct p; try reflexivity. discriminate Hx.
Qed.

Lemma fresh_new_conn s o r c :
  is_new_conn s o = Some c -> fresh_conns (st_used s) (o :: r) = true -> fresh_conns (c :: st_used s) r = true.
Proof.
  destruct o; cbn [is_new_conn fresh_conns]; try discriminate;
  destruct (memN c0 (st_used s)); try discriminate; intro E; inversion E; subst; cbn [negb andb]; auto.
Qed.

Lemma fresh_old_conn s o r :
  is_new_conn s o = None -> fresh_conns (st_used s) (o :: r) = true -> fresh_conns (st_used s) r = true.
Proof.
  destruct o; cbn [is_new_conn fresh_conns]; auto;
  destruct (memN c (st_used s)); try discriminate; cbn [negb andb]; discriminate.
Qed.

Theorem m13_step_ok k i m s o r :
  inv13 m s (o :: r) ->
  inv13 (fst (m13_step i m (obs_of (tstep_of k s o)))) (fst (step k s o)) r /\
  snd (m13_step i m (obs_of (tstep_of k s o))) = [].
Proof.
  intros [W ST SUB FR].
  pose proof (step_shape k s o W) as SH.
  unfold tstep_of, obs_of. cbn [t_op t_outs t_hooks t_pre t_post].
  destruct (step k s o) as [s' outs] eqn:STEP. cbn [fst snd].
  destruct SH as (W' & (EU & EH & EO) & SH).
  unfold m13_step. cbn [b_outs b_op].
  destruct (is_new_conn s o) as [c|] eqn:NEW.
  - destruct SH as (U & HS & SH).
    assert (CF : memN c (st_used s) = false).
    { destruct o; cbn [is_new_conn] in NEW; try discriminate;
      destruct (memN c0 (st_used s)) eqn:M; try discriminate; inversion NEW; subst; exact M. }
    assert (CS : memN c (a_started m) = false).
    { destruct (memN c (a_started m)) eqn:E; [|reflexivity]. apply SUB in E. congruence. }
    pose proof (fresh_new_conn s o r c NEW FR) as FR'.
    destruct SH as [[HH R]|(p & a & e & now & -> & -> & T & V & HH & o1 & sp & l & -> & S1 & OC)].
    + (* refused *)
      assert (PK : exists st', m13_pkts i (a_started m) outs = (st', []) /\
                   (forall c', memN c' st' = true -> c' = c \/ memN c' (a_started m) = true) /\
                   (forall c', memN c' (a_started m) = true -> memN c' st' = true)).
      { destruct R as [->|(code & NZ & ->)]; cbn [m13_pkts is_connack].
        - exists (a_started m). auto.
        - rewrite CS. exists (c :: a_started m). split; [reflexivity|]. split.
          + intros c' H. rewrite used_cons_l in H. apply orb_true_iff in H. destruct H as [H|H]; [left; apply N.eqb_eq, H|right; exact H].
          + intros c' H. rewrite used_cons_l, H. apply orb_true_r. }
      destruct PK as (st' & PK & PA & PB). rewrite PK. cbn [fst snd app].
      assert (V2 : flat_map (fun o0 => match o0 with
                       | OPkt c0 (PConnack 0 _) =>
                           match o with
                           | OConnect c' _ _ true _ => if c' =? c0 then [] else [mkv V13_auth i c0 []]
                           | _ => [mkv V13_auth i c0 []] end
                       | _ => [] end) outs = []).
      { destruct R as [->|(code & NZ & ->)]; cbn [flat_map app]; [reflexivity|].
        destruct code; [congruence|reflexivity]. }
      rewrite V2. cbn [app].
      assert (HN : hasobj s' c = false) by (rewrite HH; exact HS).
      assert (V3 : match o with
                   | OBadFirst c0 _ => if refused_ok c0 {| b_op := o; b_outs := outs; b_hooks := hook_events k s o; b_pre := snap_of s; b_post := snap_of s' |}
                                       then [] else [mkv V13_invalid i c0 []]
                   | OConnect c0 _ p _ id => if connect_ok_spec p || refused_ok c0 {| b_op := o; b_outs := outs; b_hooks := hook_events k s o; b_pre := snap_of s; b_post := snap_of s' |}
                                             then [] else [mkv V13_invalid i c0 id]
                   | _ => [] end = []).
      { destruct o; cbn [is_new_conn] in NEW; try discriminate;
        destruct (memN c0 (st_used s)); try discriminate; inversion NEW; subst c0;
        rewrite (refusal_refused_ok c outs _ _ _ _ R (no_client_conn s' c HN)); [rewrite orb_true_r|]; reflexivity. }
      rewrite V3. split; [|reflexivity].
      split; cbn [a_started]; [exact W'| | |].
      * intros c' H. apply PB, ST. rewrite <- HH. exact H.
      * intros c' H. rewrite U, used_cons_l. apply PA in H. destruct H as [->|H]; [rewrite N.eqb_refl; reflexivity|].
        rewrite (SUB _ H). apply orb_true_r.
      * rewrite U. exact FR'.
    + (* accepted *)
      rewrite m13_pkts_app.
      assert (Q1 : m13_pkts i (a_started m) o1 = (a_started m, [])).
      { apply m13_pkts_quiet. intros c' p' I. destruct (S1 _ I) as [A B]. split; [exact A|].
        apply ST, openc_hasobj, B. }
      rewrite Q1. cbn [fst snd app].
      cbn [m13_pkts is_connack]. rewrite CS.
      assert (Q2 : m13_pkts i (c :: a_started m) (resend c l) = (c :: a_started m, [])).
      { apply m13_pkts_quiet. intros c' p' I. apply resend_in in I. destruct I as (mm & E). inversion E; subst.
        split; [reflexivity|]. rewrite used_cons_l, N.eqb_refl. reflexivity. }
      rewrite Q2. cbn [fst snd app].
      assert (V2 : flat_map (fun o0 => match o0 with
                       | OPkt c0 (PConnack 0 _) => if c =? c0 then [] else [mkv V13_auth i c0 []]
                       | _ => [] end) (o1 ++ [OPkt c (PConnack 0 sp)] ++ resend c l) = []).
      { rewrite !flat_map_app. cbn [flat_map]. rewrite N.eqb_refl. cbn [app].
        rewrite (no_success_connack i (fun c0 => if c =? c0 then [] else [mkv V13_auth i c0 []]) o1).
        2:{ intros x I. pose proof (S1 x I) as Hx. destruct x; auto. apply Hx. }
        cbn [app]. apply (no_success_connack i).
        intros x I. apply resend_in in I. destruct I as (mm & ->). reflexivity. }
      cbn [app] in V2. rewrite V2. cbn [app].
      rewrite (validate_ok_spec k p T V). cbn [orb]. split; [|reflexivity].
      split; cbn [a_started]; [exact W'| | |].
      * intros c' H. rewrite used_cons_l. rewrite HH in H.
        apply orb_true_iff in H. destruct H as [H|H]; [rewrite (ST _ H); apply orb_true_r|rewrite H; reflexivity].
      * intros c' H. rewrite U. rewrite used_cons_l in *. apply orb_true_iff in H.
        destruct H as [H|H]; [rewrite H; reflexivity|rewrite (SUB _ H); apply orb_true_r].
      * rewrite U. exact FR'.
  - (* an operation on existing connections *)
    destruct SH as (SH & U & HH).
    assert (Q : m13_pkts i (a_started m) outs = (a_started m, [])).
    { apply m13_pkts_quiet. intros c p I. destruct (SH _ I) as [A B]. split; [exact A|]. apply ST, openc_hasobj, B. }
    rewrite Q. cbn [fst snd app].
    rewrite (no_success_connack i).
    2:{ intros x I. pose proof (SH x I) as Hx. destruct x; auto. apply Hx. }
    cbn [app].
    pose proof (fresh_old_conn s o r NEW FR) as FR'.
    assert (V3 : match o with
                 | OBadFirst c0 _ => if refused_ok c0 {| b_op := o; b_outs := outs; b_hooks := hook_events k s o; b_pre := snap_of s; b_post := snap_of s' |}
                                     then [] else [mkv V13_invalid i c0 []]
                 | OConnect c0 _ p _ id => if connect_ok_spec p || refused_ok c0 {| b_op := o; b_outs := outs; b_hooks := hook_events k s o; b_pre := snap_of s; b_post := snap_of s' |}
                                           then [] else [mkv V13_invalid i c0 id]
                 | _ => [] end = []).
    { destruct o; try reflexivity; exfalso; cbn [is_new_conn fresh_conns] in *;
      destruct (memN c (st_used s)); try discriminate; cbn [negb andb] in FR; discriminate. }
    rewrite V3. split; [|reflexivity].
    split; cbn [a_started]; [exact W'| | |].
    + intros c' H. apply ST. rewrite <- HH. exact H.
    + intros c' H. rewrite U. apply SUB, H.
    + rewrite U. exact FR'.
Qed.

Theorem mon13_model_clean k ops : fresh_conns [] ops = true -> mon13 (map obs_of (trace k init ops)) = [].
Proof.
  intro F.
  assert (A : Forall (fun _ => False) (mon13 (map obs_of (trace k init ops)))).
  { unfold mon13. apply (run_mon_inv k m13_step (fun _ => False) inv13).
    - intros i m s o r I. destruct (m13_step_ok k i m s o r I) as [I' E]. split; [exact I'|rewrite E; constructor].
    - split; cbn; [apply objs_used_init|discriminate|discriminate|exact F]. }
  destruct (mon13 _); [reflexivity|inversion A; contradiction].
Qed.
