(* Proofs for C24 under concurrent publishers (Session/AliasSched.v): for every schedule the alias
   table is injective; for every schedule without the overtaking finding every PUBLISH on the
   connection passes the receiver's check. *)
From MV Require Import Base.Val Session.Pkt Session.Alias Session.AliasProofs Session.AliasSched.
From Coq Require Import Lia ZifyBool ZifyN ZifyNat.
Open Scope N_scope.

(* ---------- the receiver's check packet by packet ---------- *)

Lemma recv_ok_all tam ws : forall tab,
  recv_ok tam tab ws = match recv_all tam tab ws with Some _ => true | None => false end.
Proof.
  induction ws as [|[[i wt] a] r IH]; intros tab; [reflexivity|].
  cbn [recv_ok recv_all recv_step].
  destruct (a =? 0).
  - destruct (negb (is_empty wt) && beq_bytes wt i); cbn [andb]; [apply IH|reflexivity].
  - destruct (a <=? tam); cbn [negb andb]; [|reflexivity].
    destruct (is_empty wt).
    + destruct (lookup_a a tab) as [t|]; [|reflexivity]. destruct (beq_bytes t i); cbn [andb]; [apply IH|reflexivity].
    + destruct (beq_bytes wt i); cbn [andb]; [apply IH|reflexivity].
Qed.

Lemma recv_all_app tam a : forall tab b,
  recv_all tam tab (a ++ b) = match recv_all tam tab a with Some t => recv_all tam t b | None => None end.
Proof.
  induction a as [|w r IH]; intros tab b; [reflexivity|]. cbn.
  destruct (recv_step tam tab w); [apply IH|reflexivity].
Qed.

(* ---------- pending lists ---------- *)

Lemma find_pend_in k l p : find_pend k l = Some p -> In (k, p) l.
Proof.
  induction l as [|[j q] r IH]; cbn; [discriminate|].
  destruct (Nat.eqb j k) eqn:E; [apply Nat.eqb_eq in E; subst j; intros H; injection H as ->; left; reflexivity|].
  intros H. right. apply IH, H.
Qed.

Lemma in_del_pend k l p x : find_pend k l = Some p -> In x l -> x <> (k, p) -> In x (del_pend k l).
Proof.
  induction l as [|[j q] r IH]; cbn; [discriminate|].
  destruct (Nat.eqb j k) eqn:E.
  - apply Nat.eqb_eq in E. subst j. intros H. injection H as ->. intros [<-|Hin] Hne; [congruence|exact Hin].
  - intros H [<-|Hin] Hne; [left; reflexivity|right; apply IH; assumption].
Qed.

(* ---------- the table ---------- *)

Definition tab_ok (t : otab) : Prop :=
  o_cursor t <= o_max t /\
  (forall tp a, lookup_t tp (o_map t) = Some a -> 0 < a <= o_cursor t) /\
  injective t.

Lemma tab_ok_init max : tab_ok (oinit max).
Proof. split; [cbn; lia|]. split; [intros tp a H; discriminate|intros tp1 tp2 a H; discriminate]. Qed.

(* what one Set call does to a well-formed table *)
Lemma out_set_cases t tp : tab_ok t ->
  let '(a, ex, t') := out_set t tp in
  tab_ok t' /\ o_max t' = o_max t /\
  ((t' = t /\ ((a = 0 /\ ex = false) \/ (ex = true /\ lookup_t tp (o_map t) = Some a))) \/
   (ex = false /\ a = o_cursor t + 1 /\ lookup_t tp (o_map t) = None /\
    o_map t' = (tp, a) :: o_map t /\ o_cursor t' = a)).
Proof.
  intros (Hc & Hr & Hi). assert (T : tab_ok t) by (split; [exact Hc|split; assumption]). unfold out_set.
  destruct (o_max t =? 0) eqn:M0.
  { split; [exact T|]. split; [reflexivity|]. left. split; [reflexivity|]. left. split; reflexivity. }
  destruct (lookup_t tp (o_map t)) as [i|] eqn:L.
  { split; [exact T|]. split; [reflexivity|]. left. split; [reflexivity|]. right. split; reflexivity. }
  destruct (o_max t <? o_cursor t + 1) eqn:F.
  { split; [exact T|]. split; [reflexivity|]. left. split; [reflexivity|]. left. split; reflexivity. }
  split; [|split; [reflexivity|right; repeat split; reflexivity]].
  split; [cbn; lia|]. split.
  - intros tp' a'. cbn. destruct (beq_bytes tp tp'); [intros H; injection H as <-; lia|].
    intros H. specialize (Hr _ _ H). lia.
  - intros tp1 tp2 a'. cbn.
    destruct (beq_bytes tp tp1) eqn:E1; destruct (beq_bytes tp tp2) eqn:E2.
    + apply beqb_eq in E1, E2. congruence.
    + intros H1 H2. injection H1 as <-. specialize (Hr _ _ H2). lia.
    + intros H1 H2. injection H2 as <-. specialize (Hr _ _ H1). lia.
    + apply Hi.
Qed.

(* ---------- injectivity under every schedule ---------- *)

Lemma sstep_tab_ok s e : tab_ok (s_tab s) -> tab_ok (s_tab (sstep s e)) /\ o_max (s_tab (sstep s e)) = o_max (s_tab s).
Proof.
  intros H. destruct e as [k tp|k]; cbn.
  - destruct (find_pend k (s_pend s)); [auto|].
    pose proof (out_set_cases (s_tab s) tp H) as C. destruct (out_set (s_tab s) tp) as [[a ex] t'].
    destruct C as (C1 & C2 & _). auto.
  - destruct (find_pend k (s_pend s)); auto.
Qed.

Theorem sched_table_ok (max : N) (evs : list sev) :
  tab_ok (s_tab (srun max evs)) /\ o_max (s_tab (srun max evs)) = max.
Proof.
  unfold srun. assert (G : forall evs s, tab_ok (s_tab s) ->
    tab_ok (s_tab (fold_left sstep evs s)) /\ o_max (s_tab (fold_left sstep evs s)) = o_max (s_tab s)).
  { induction evs0 as [|e r IH]; intros s H; [auto|]. cbn.
    destruct (sstep_tab_ok s e H) as [H1 H2]. destruct (IH _ H1) as [H3 H4]. split; [exact H3|congruence]. }
  apply (G evs (sinit max)), tab_ok_init.
Qed.

(* ---------- resolvability under every schedule without the finding ---------- *)

Record sinv (max : N) (s : sst) (rtab : list (N * bytes)) : Prop := {
  i_recv : recv_all max [] (s_wire s) = Some rtab;
  i_max : o_max (s_tab s) = max;
  i_tab : tab_ok (s_tab s);
  (* every recorded binding has been announced on the wire, or its announcement is still with its publisher *)
  i_known : forall tp a, lookup_t tp (o_map (s_tab s)) = Some a ->
              lookup_a a rtab = Some tp \/ exists k, In (k, (tp, a, false)) (s_pend s);
  i_pend : forall k tp a ex, In (k, (tp, a, ex)) (s_pend s) ->
              tp <> [] /\ (0 < a -> lookup_t tp (o_map (s_tab s)) = Some a) }.

Lemma sstep_sinv max s rtab e :
  sinv max s rtab ->
  (forall k tp, e = SSet k tp -> tp <> []) ->
  KF_C24_binding_overtaken s e = false ->
  exists rtab', sinv max (sstep s e) rtab'.
Proof.
  intros I NE KF. destruct e as [k tp|k]; cbn [sstep].
  - (* Set *)
    destruct (find_pend k (s_pend s)); [exists rtab; exact I|].
    pose proof (out_set_cases (s_tab s) tp (i_tab _ _ _ I)) as C.
    destruct (out_set (s_tab s) tp) as [[a ex] t']. destruct C as (Ct & Cm & [(-> & Cr)|(-> & -> & Ln & Hm & Hc)]).
    + exists rtab. constructor; cbn [s_tab s_pend s_wire].
      * exact (i_recv _ _ _ I).
      * exact (i_max _ _ _ I).
      * exact Ct.
      * intros tp' a' H. destruct (i_known _ _ _ I _ _ H) as [|[k' Hk]]; [left; assumption|right; exists k'; right; exact Hk].
      * intros k' tp' a' ex' [H|H].
        -- injection H as <- <- <- <-. split; [exact (NE _ _ eq_refl)|].
           intros Ha. destruct Cr as [[-> _]|[_ L]]; [lia|exact L].
        -- exact (i_pend _ _ _ I _ _ _ _ H).
    + exists rtab. constructor; cbn [s_tab s_pend s_wire].
      * exact (i_recv _ _ _ I).
      * rewrite Cm. exact (i_max _ _ _ I).
      * exact Ct.
      * intros tp' a'. rewrite Hm. cbn [lookup_t].
        destruct (beq_bytes tp tp') eqn:E.
        -- intros H. injection H as <-. apply beqb_eq in E. subst tp'. right. exists k. left. reflexivity.
        -- intros H. destruct (i_known _ _ _ I _ _ H) as [|[k' Hk]]; [left; assumption|right; exists k'; right; exact Hk].
      * intros k' tp' a' ex' [H|H].
        -- injection H as <- <- <- <-. split; [exact (NE _ _ eq_refl)|]. intros _. rewrite Hm. cbn. rewrite beqb_refl. reflexivity.
        -- destruct (i_pend _ _ _ I _ _ _ _ H) as [P1 P2]. split; [exact P1|]. intros Ha. specialize (P2 Ha).
           rewrite Hm. cbn [lookup_t]. destruct (beq_bytes tp tp') eqn:E; [|exact P2].
           apply beqb_eq in E. subst tp'. congruence.
  - (* the packet is queued *)
    destruct (find_pend k (s_pend s)) as [[[tp a] ex]|] eqn:F; [|exists rtab; exact I].
    pose proof (find_pend_in _ _ _ F) as Hin.
    destruct (i_pend _ _ _ I _ _ _ _ Hin) as [Hne Hl].
    destruct (i_tab _ _ _ I) as (Tc & Tr & Ti).
    pose proof (i_max _ _ _ I) as Hmax.
    assert (Hstep : forall rt', recv_step max rtab (wire_of (tp, a, ex)) = Some rt' ->
                    recv_all max [] (s_wire s ++ [wire_of (tp, a, ex)]) = Some rt').
    { intros rt' H. rewrite recv_all_app, (i_recv _ _ _ I). cbn [recv_all]. rewrite H. reflexivity. }
    destruct (0 <? a) eqn:A0.
    + assert (La : lookup_t tp (o_map (s_tab s)) = Some a) by (apply Hl; lia).
      destruct (Tr _ _ La) as [Ha1 Ha2].
      destruct ex.
      * (* alias only: the binding must have been announced — otherwise this is the finding *)
        cbn [KF_C24_binding_overtaken] in KF. rewrite F, A0 in KF. cbn [andb] in KF.
        assert (Hr : lookup_a a rtab = Some tp).
        { destruct (i_known _ _ _ I _ _ La) as [H|[k' Hk]]; [exact H|]. exfalso.
          assert (existsb (fun x : nat * pending => let '(_, (_, a', ex')) := x in (a' =? a) && negb ex') (s_pend s) = true).
          { apply existsb_exists. exists (k', (tp, a, false)). split; [exact Hk|]. cbn. rewrite N.eqb_refl. reflexivity. }
          congruence. }
        exists rtab. constructor; cbn [s_tab s_pend s_wire].
        -- apply Hstep. unfold wire_of, recv_step. rewrite A0. cbn [andb is_empty].
           replace (a =? 0) with false by lia. replace (a <=? max) with true by lia. cbn [negb]. rewrite Hr, beqb_refl. reflexivity.
        -- exact Hmax.
        -- exact (i_tab _ _ _ I).
        -- intros tp' a' H. destruct (i_known _ _ _ I _ _ H) as [|[k' Hk]]; [left; assumption|].
           right. exists k'. apply (in_del_pend _ _ _ _ F Hk). congruence.
        -- intros k' tp' a' ex' H. apply (i_pend _ _ _ I k' tp' a' ex').
           clear -H. induction (s_pend s) as [|[j q] r IH]; cbn in *; [exact H|].
           destruct (Nat.eqb j k); [right; exact H|]. destruct H as [H|H]; [left; exact H|right; apply IH, H].
      * (* the announcement itself *)
        exists ((a, tp) :: rtab). constructor; cbn [s_tab s_pend s_wire].
        -- apply Hstep. unfold wire_of, recv_step. rewrite A0. cbn [andb].
           replace (a =? 0) with false by lia. replace (a <=? max) with true by lia. cbn [negb].
           destruct tp; [congruence|]. cbn [is_empty]. rewrite beqb_refl. reflexivity.
        -- exact Hmax.
        -- exact (i_tab _ _ _ I).
        -- intros tp' a' H. cbn [lookup_a]. destruct (a =? a') eqn:E.
           ++ apply N.eqb_eq in E. subst a'. left. f_equal. apply (Ti _ _ _ La H).
           ++ destruct (i_known _ _ _ I _ _ H) as [|[k' Hk]]; [left; assumption|].
              right. exists k'. apply (in_del_pend _ _ _ _ F Hk). intros X. injection X as _ _ X. lia.
        -- intros k' tp' a' ex' H. apply (i_pend _ _ _ I k' tp' a' ex').
           clear -H. induction (s_pend s) as [|[j q] r IH]; cbn in *; [exact H|].
           destruct (Nat.eqb j k); [right; exact H|]. destruct H as [H|H]; [left; exact H|right; apply IH, H].
    + (* no alias *)
      assert (a = 0) by lia. subst a.
      exists rtab. constructor; cbn [s_tab s_pend s_wire].
      * apply Hstep. unfold wire_of, recv_step. cbn [N.ltb andb]. replace (0 <? 0) with false by lia. cbn [andb].
        rewrite N.eqb_refl. destruct tp; [congruence|]. cbn [is_empty negb andb]. rewrite beqb_refl. reflexivity.
      * exact Hmax.
      * exact (i_tab _ _ _ I).
      * intros tp' a' H. destruct (i_known _ _ _ I _ _ H) as [|[k' Hk]]; [left; assumption|].
        right. exists k'. apply (in_del_pend _ _ _ _ F Hk). intros X. injection X as _ _ X.
        destruct (Tr _ _ H). lia.
      * intros k' tp' a' ex' H. apply (i_pend _ _ _ I k' tp' a' ex').
        clear -H. induction (s_pend s) as [|[j q] r IH]; cbn in *; [exact H|].
        destruct (Nat.eqb j k); [right; exact H|]. destruct H as [H|H]; [left; exact H|right; apply IH, H].
Qed.

Definition topics_nonempty (evs : list sev) : Prop := forall k tp, In (SSet k tp) evs -> tp <> [].

Lemma run_sinv max : forall evs s rtab,
  sinv max s rtab -> topics_nonempty evs -> skf_free s evs = true ->
  exists rtab', sinv max (fold_left sstep evs s) rtab'.
Proof.
  induction evs as [|e r IH]; intros s rtab I NE KF; [exists rtab; exact I|].
  cbn in KF. apply Bool.andb_true_iff in KF. destruct KF as [K1 K2]. apply Bool.negb_true_iff in K1.
  destruct (sstep_sinv max s rtab e I) as [rtab' I'].
  - intros k tp ->. apply (NE k tp). left. reflexivity.
  - exact K1.
  - cbn. apply (IH _ _ I'); [intros k tp H; apply (NE k tp); right; exact H|exact K2].
Qed.

Lemma sinv_init max : sinv max (sinit max) [].
Proof.
  constructor; cbn; [reflexivity|reflexivity|apply tab_ok_init|intros tp a H; discriminate|intros k tp a ex []].
Qed.

Theorem sched_resolvable (max : N) (evs : list sev) :
  topics_nonempty evs -> skf_free (sinit max) evs = true ->
  recv_ok max [] (s_wire (srun max evs)) = true.
Proof.
  intros NE KF. destruct (run_sinv max evs (sinit max) [] (sinv_init max) NE KF) as [rtab I].
  rewrite recv_ok_all. unfold srun. rewrite (i_recv _ _ _ I). reflexivity.
Qed.
