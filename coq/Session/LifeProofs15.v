(* C15 — proofs about the C15 monitor on the traces of the life-cycle model. *)
From MV Require Import Base.Val Session.Lifecycle Session.LifeSpec Session.LifeBase Session.LifeInv Session.LifeProofs13
  Session.LifeProofs14.
From Coq Require Import Lia ZifyBool ZifyN ZifyNat.
Open Scope N_scope.

(* every violation a clause list reports carries that clause's tag *)
Lemma flat_map_tag {A} (f : A -> list viol) (P : viol -> Prop) l :
  (forall a, In a l -> Forall P (f a)) -> Forall P (flat_map f l).
Proof.
  intro H. induction l as [|a r IH]; cbn; [constructor|]. apply Forall_app. split; [apply H; left; reflexivity|].
  apply IH. intros b I. apply H. right. exact I.
Qed.

Ltac tag_solve :=
  repeat match goal with
         | |- Forall _ [] => constructor
         | |- Forall _ (_ :: _) => constructor
         | |- Forall _ (_ ++ _) => apply Forall_app; split
         | |- Forall _ (if ?b then _ else _) => destruct b
         | |- Forall _ (match ?x with _ => _ end) => destruct x
         | |- Forall _ (flat_map _ _) => apply flat_map_tag; intros
         end.

Lemma flat_map_nil {A B} (f : A -> list B) l : (forall a, In a l -> f a = []) -> flat_map f l = [].
Proof.
  intro H. induction l as [|a r IH]; cbn; [reflexivity|]. rewrite (H a (or_introl eq_refl)). apply IH.
  intros b I. apply H. right. exact I.
Qed.

(* the structural clause: every topic-index entry belongs to a registered session that holds the subscription *)
Lemma v_index_nil i s : inv s ->
  flat_map (fun e => match find_client (fst (fst e)) (sn_clients (snap_of s)) with
                     | Some r => if memB (snd (fst e)) (sc_subs r) then [] else [mkv V15_stale_index i (sc_conn r) (fst (fst e))]
                     | None => [mkv V15_stale_index i 0 (fst (fst e))]
                     end) (sn_index (snap_of s)) = [].
Proof.
  intros [W X]. apply flat_map_nil. intros [[id f] q] IN. cbn [snap_of sn_index] in IN. cbn [fst snd].
  destruct (X id f q IN) as (c & o & A & G & F).
  rewrite (find_client_snap s id W), A, G. cbn [option_map sclient_of sc_subs].
  assert (M : memB f (map fst (o_subs o)) = true) by (apply memB_in; exact F). rewrite M. reflexivity.
Qed.

Theorem m15_no_stale_index k i m s o :
  inv s -> Forall (fun v => v_tag v <> V15_stale_index) (snd (m15_step k i m (obs_of (tstep_of k s o)))).
Proof.
  intro I. pose proof (step_inv k s o I) as I'.
  unfold m15_step, m15_vjust. cbv zeta. cbn [snd]. unfold obs_of, tstep_of. cbn [b_op b_outs b_hooks b_pre b_post t_op t_outs t_hooks t_pre t_post].
  rewrite (v_index_nil i (fst (step k s o)) I').
  repeat (apply Forall_app; split); try (constructor; fail).
  all: tag_solve; cbn; try discriminate.
  all: repeat match goal with |- context [match ?x with _ => _ end] => destruct x | |- context [if ?b then _ else _] => destruct b end; discriminate.
Qed.

Theorem mon15_no_stale_index k ops :
  Forall (fun v => v_tag v <> V15_stale_index) (mon15 k (map obs_of (trace k init ops))).
Proof.
  unfold mon15. apply (run_mon_inv k (m15_step k) _ (fun _ s _ => inv s)).
  - intros i m s o r I. split; [apply step_inv, I|apply m15_no_stale_index, I].
  - apply inv_init.
Qed.

(* the same fact about the states themselves: after every history, every entry of the topic index
   belongs to a registered session that holds the subscription *)
Theorem index_belongs_to_sessions k ops : ixinv (fold_left (fun s o => fst (step k s o)) ops init).
Proof.
  assert (H : forall ops s, inv s -> inv (fold_left (fun s o => fst (step k s o)) ops s)).
  { induction ops0 as [|o r IH]; intros s I; cbn; [exact I|]. apply IH, step_inv, I. }
  apply (H ops init inv_init).
Qed.

(* ---------- the configuration fields of an object (identifier, version, clean, session expiry) ---------- *)
Definition ocfg (o : cobj) := (o_id o, o_ver o, o_clean o, o_sei o, o_seiflag o).

Definition same_cfg (s s' : state) : Prop :=
  True /\ True /\
  forall c, option_map ocfg (get_obj c (st_objs s')) = option_map ocfg (get_obj c (st_objs s)).

Lemma same_cfg_refl s : same_cfg s s.
Proof. repeat split. Qed.
Lemma same_cfg_trans a b c : same_cfg a b -> same_cfg b c -> same_cfg a c.
Proof. intros (C1 & I1 & K1) (C2 & I2 & K2). split; [congruence|split; [congruence|]]. intro x. rewrite K2. apply K1. Qed.

Lemma same_cfg_upd s o o0 : get_obj (o_conn o) (st_objs s) = Some o0 -> ocfg o = ocfg o0 -> same_cfg s (upd_obj s o).
Proof.
  intros G E. repeat split. intro c. unfold upd_obj. cbn. destruct (N.eq_dec c (o_conn o)) as [->|N].
  - rewrite get_put_same, G. cbn. congruence.
  - rewrite get_put_other by exact N. reflexivity.
Qed.

Lemma same_cfg_obj' s s' c o : same_cfg s s' -> get_obj c (st_objs s) = Some o ->
  exists o', get_obj c (st_objs s') = Some o' /\ ocfg o' = ocfg o.
Proof.
  intros (_ & _ & K) G. specialize (K c). rewrite G in K. cbn in K.
  destruct (get_obj c (st_objs s')) as [o'|]; [|discriminate]. exists o'. split; [reflexivity|]. cbn in K. congruence.
Qed.

Lemma deliver_same_cfg k m ix : forall s, same_cfg s (fst (deliver k m ix s)).
Proof.
  induction ix as [|[[id f] q] r IH]; intro s; cbn [deliver]; [apply same_cfg_refl|].
  destruct (beq_bytes f (m_topic m)); [|apply IH].
  destruct (client_of s id) as [o|] eqn:C; [|apply IH].
  pose proof (client_of_obj _ _ _ C) as G.
  match goal with |- context [upd_obj s ?o'] => set (oo := o') end.
  assert (E1 : same_cfg s (upd_obj s oo)).
  { apply same_cfg_upd with (o0 := o); subst oo; destruct (0 <? _); cbn; auto. }
  specialize (IH (upd_obj s oo)). destruct (deliver k m r (upd_obj s oo)) as [s'' outs]. cbn [fst] in *.
  eapply same_cfg_trans; eassumption.
Qed.

Lemma retain_msg_same_cfg k m s : same_cfg s (retain_msg k m s).
Proof. unfold retain_msg. destruct (k_retain k); [|apply same_cfg_refl]. destruct (m_payload m); repeat split. Qed.

Lemma send_lwt_same_cfg k now c s : same_cfg s (fst (send_lwt k now c s)).
Proof.
  unfold send_lwt. destruct (get_obj c (st_objs s)) as [o|] eqn:G; [|apply same_cfg_refl].
  destruct (w_flag (o_will o)); cbn [negb]; [|apply same_cfg_refl].
  destruct (0 <? w_delay (o_will o)); [repeat split|].
  set (s1 := if w_retain (o_will o) then retain_msg k (will_msg (o_will o)) s else s).
  assert (E1 : same_cfg s s1) by (subst s1; destruct (w_retain (o_will o)); [apply retain_msg_same_cfg|apply same_cfg_refl]).
  pose proof (deliver_same_cfg k (will_msg (o_will o)) (st_index s1) s1) as E2. unfold publish.
  destruct (deliver k (will_msg (o_will o)) (st_index s1) s1) as [s2 outs]. cbn [fst] in *.
  assert (E12 : same_cfg s s2) by (eapply same_cfg_trans; eassumption).
  destruct (same_cfg_obj' _ _ _ _ E12 G) as (o2 & G2 & EK). rewrite G2.
  eapply same_cfg_trans; [exact E12|]. apply same_cfg_upd with (o0 := o2); cbn; [rewrite (get_obj_conn _ _ _ G2); exact G2|reflexivity].
Qed.

Lemma clear_inflights_same_cfg c s : same_cfg s (clear_inflights c s).
Proof.
  unfold clear_inflights. destruct (get_obj c (st_objs s)) as [o|] eqn:G; [|apply same_cfg_refl].
  apply same_cfg_upd with (o0 := o); cbn; [rewrite (get_obj_conn _ _ _ G); exact G|reflexivity].
Qed.

Lemma stopped_cfg o now : ocfg (stopped o now) = ocfg o.
Proof. unfold stopped. destruct (o_open o); reflexivity. Qed.

Lemma disconnect_client_same_cfg now c code s : same_cfg s (fst (disconnect_client now c code s)).
Proof.
  unfold disconnect_client. destruct (get_obj c (st_objs s)) as [o|] eqn:G; [|apply same_cfg_refl].
  destruct (o_open o); [|apply same_cfg_refl]. cbn [fst].
  apply same_cfg_upd with (o0 := o); [rewrite stopped_conn, (get_obj_conn _ _ _ G); exact G|apply stopped_cfg].
Qed.

Lemma tick_will_same_cfg k now l : forall s, same_cfg s (fst (tick_will k now l s)).
Proof.
  induction l as [|[id d] r IH]; intro s; cbn [tick_will]; [apply same_cfg_refl|].
  destruct (d_due d <? now)%Z; [|apply IH].
  pose proof (deliver_same_cfg k (d_msg d) (st_index s) s) as E1. unfold publish.
  destruct (deliver k (d_msg d) (st_index s) s) as [s1 o1]. cbn [fst] in *.
  assert (E2 : same_cfg s1 (fst (match client_of s1 id with
                         | Some o => (upd_obj (if m_retain (d_msg d) then retain_msg k (d_msg d) s1 else s1) (with_will o no_will), [OWillSent id])
                         | None => (s1, []) end))).
  { destruct (client_of s1 id) as [o|] eqn:C; [|apply same_cfg_refl]. cbn [fst].
    pose proof (client_of_obj _ _ _ C) as G.
    set (s' := if m_retain (d_msg d) then retain_msg k (d_msg d) s1 else s1).
    assert (E' : same_cfg s1 s') by (subst s'; destruct (m_retain (d_msg d)); [apply retain_msg_same_cfg|apply same_cfg_refl]).
    eapply same_cfg_trans; [exact E'|].
    destruct (same_cfg_obj' _ _ _ _ E' G) as (o' & G' & EK).
    apply same_cfg_upd with (o0 := o'); [exact G'|]. rewrite EK. reflexivity. }
  destruct (match client_of s1 id with
            | Some o => (upd_obj (if m_retain (d_msg d) then retain_msg k (d_msg d) s1 else s1) (with_will o no_will), [OWillSent id])
            | None => (s1, []) end) as [s2 o2]. cbn [fst] in *.
  specialize (IH (set_wills s2 (adel id (st_wills s2)))).
  destruct (tick_will k now r (set_wills s2 (adel id (st_wills s2)))) as [s4 o4]. cbn [fst] in *.
  eapply same_cfg_trans; [exact E1|]. eapply same_cfg_trans; [exact E2|].
  eapply same_cfg_trans; [|exact IH]. repeat split.
Qed.


Lemma ocfg_fields a b : ocfg a = ocfg b ->
  o_id a = o_id b /\ o_ver a = o_ver b /\ o_clean a = o_clean b /\ o_sei a = o_sei b /\ o_seiflag a = o_seiflag b.
Proof. unfold ocfg. intro H. inversion H. auto. Qed.

Lemma unsubscribe_client_same_cfg c s : same_cfg s (unsubscribe_client c s).
Proof.
  unfold unsubscribe_client. destruct (get_obj c (st_objs s)) as [o|] eqn:G; [|apply same_cfg_refl].
  assert (E1 : same_cfg s (upd_obj s (with_session o [] (o_infl o)))).
  { apply same_cfg_upd with (o0 := o); cbn; [rewrite (get_obj_conn _ _ _ G); exact G|reflexivity]. }
  destruct (o_tko o); [exact E1|]. eapply same_cfg_trans; [exact E1|repeat split].
Qed.

(* ---------- when a session is discarded ---------- *)
(* the expiry interval clearExpiredClients applies to a disconnected session *)
Definition interval (k : caps) (o : cobj) : N := if (o_ver o =? 5) && o_seiflag o then o_sei o else k_maxsei k.

Definition removed (s s' : state) (id : bytes) : Prop :=
  aget id (st_clients s) <> None /\ aget id (st_clients s') = None.

Lemma handler_tail_clients k now c err s :
  st_clients (fst (handler_tail k now c err s)) = st_clients s \/
  exists o o', get_obj c (st_objs s) = Some o /\ get_obj c (st_objs (fst (handler_tail k now c err s))) = Some o' /\
    ocfg o' = ocfg o /\ o_tko o = false /\ expire_cond o = true /\
    st_clients (fst (handler_tail k now c err s)) = adel (o_id o) (st_clients s).
Proof.
  unfold handler_tail.
  assert (SK : same_keys s (fst (if err then send_lwt k now c s else (s, [])))) by (destruct err; [apply send_lwt_same_keys|apply same_keys_refl]).
  assert (SC : same_cfg s (fst (if err then send_lwt k now c s else (s, [])))) by (destruct err; [apply send_lwt_same_cfg|apply same_cfg_refl]).
  destruct (if err then send_lwt k now c s else (s, [])) as [s1 o1]. cbn [fst] in SK, SC.
  assert (C1 : st_clients s1 = st_clients s) by (destruct SK as (_ & E & _); exact E).
  destruct (get_obj c (st_objs s1)) as [o|] eqn:G; [|left; exact C1]. cbn [fst].
  destruct (same_keys_obj _ _ _ _ SK G) as (o0 & G0 & EK). unfold okey in EK. inversion EK as [[EI ET EO EPH ED]].
  destruct (same_cfg_obj' _ _ _ _ SC G0) as (ox & Gx & ECF). rewrite G in Gx. inversion Gx; subst ox.
  pose proof (get_obj_conn _ _ _ G) as EC.
  set (o' := if err then stopped o now else with_will o no_will).
  assert (F' : o_conn o' = c /\ ocfg o' = ocfg o /\ o_tko o' = o_tko o /\ expire_cond o' = expire_cond o).
  { subst o'. destruct err.
    - rewrite stopped_conn. unfold stopped. destruct (o_open o); cbn; auto.
    - cbn. auto. }
  destruct F' as (C' & CF' & T' & EX').
  set (s2 := upd_obj s1 o').
  assert (G2 : get_obj c (st_objs s2) = Some o') by (subst s2; unfold upd_obj; cbn; rewrite <- C'; apply get_put_same).
  destruct (expire_cond o' && negb (o_tko o')) eqn:EX.
  - right. apply andb_true_iff in EX. destruct EX as [EXP NT]. apply negb_true_iff in NT.
    set (sa := unsubscribe_client c (clear_inflights c s2)).
    assert (SCa : same_cfg s2 sa) by (eapply same_cfg_trans; [apply clear_inflights_same_cfg|apply unsubscribe_client_same_cfg]).
    assert (SKa : same_keys s2 sa) by (eapply same_keys_trans; [apply clear_inflights_same_keys|apply unsubscribe_client_same_keys]).
    destruct (same_cfg_obj' _ _ _ _ SCa G2) as (oa & Ga & ECa).
    set (s3 := set_clients sa (adel (o_id o') (st_clients s2))).
    assert (G3 : get_obj c (st_objs s3) = Some oa) by exact Ga. rewrite G3.
    exists o0, (with_phase oa PhDone). split; [exact G0|]. split.
    { unfold upd_obj. cbn. pose proof (get_put_same (with_phase oa PhDone) (st_objs sa)) as GP. cbn in GP.
      rewrite (get_obj_conn _ _ _ Ga) in GP. exact GP. }
    split; [transitivity (ocfg oa); [reflexivity|]; rewrite ECa, CF', ECF; reflexivity|].
    destruct (ocfg_fields _ _ ECF) as (F1 & F2 & F3 & F4 & F5). destruct (ocfg_fields _ _ CF') as (H1 & H2 & H3 & H4 & H5).
    split; [congruence|]. split.
    { unfold expire_cond in *. rewrite <- F2, <- F3, <- F4, <- H2, <- H3, <- H4. exact EXP. }
    cbn. subst s2. cbn. rewrite C1, H1, F1. reflexivity.
  - left. match goal with |- st_clients (match ?g with Some x => upd_obj ?z _ | None => _ end) = _ => destruct g; cbn; exact C1 end.
Qed.

Lemma tick_clients_removed k now id : forall l s,
  aget id (st_clients s) <> None -> aget id (st_clients (fst (tick_clients k now l s))) = None ->
  exists c o, In (id, c) l /\ get_obj c (st_objs s) = Some o /\ o_disc o <> 0%Z /\ (o_disc o + Z.of_N (interval k o) < now)%Z.
Proof.
  induction l as [|[id' c] r IH]; intros s A R; cbn [tick_clients] in R; [cbn in R; congruence|].
  destruct (get_obj c (st_objs s)) as [o|] eqn:G.
  2:{ destruct (IH s A R) as (c2 & o2 & I & H). exists c2, o2. split; [right; exact I|exact H]. }
  destruct (o_disc o =? 0)%Z eqn:DZ.
  { destruct (IH s A R) as (c2 & o2 & I & H). exists c2, o2. split; [right; exact I|exact H]. }
  fold (interval k o) in R.
  destruct (o_disc o + Z.of_N (interval k o) <? now)%Z eqn:LT.
  2:{ destruct (IH s A R) as (c2 & o2 & I & H). exists c2, o2. split; [right; exact I|exact H]. }
  set (sa := unsubscribe_client c (clear_inflights c s)) in *.
  assert (SKa : same_keys s sa) by (eapply same_keys_trans; [apply clear_inflights_same_keys|apply unsubscribe_client_same_keys]).
  assert (SCa : same_cfg s sa) by (eapply same_cfg_trans; [apply clear_inflights_same_cfg|apply unsubscribe_client_same_cfg]).
  assert (CA : st_clients sa = st_clients s) by (destruct SKa as (_ & E & _); exact E).
  set (s2 := set_clients sa (adel id' (st_clients sa))) in *.
  destruct (tick_clients k now r s2) as [s3 outs] eqn:T. cbn [fst] in R.
  destruct (bb_dec id id') as [->|NE].
  - exists c, o. split; [left; reflexivity|]. split; [exact G|]. apply Z.eqb_neq in DZ. apply Z.ltb_lt in LT. auto.
  - assert (A2 : aget id (st_clients s2) <> None) by (subst s2; cbn; rewrite CA, aget_adel_other by exact NE; exact A).
    specialize (IH s2 A2). rewrite T in IH. destruct (IH R) as (c2 & o2 & I & G2 & D2 & L2).
    destruct (same_keys_obj _ _ _ _ SKa G2) as (ob & Gb & EK). destruct (same_cfg_obj' _ _ _ _ SCa Gb) as (ox & Gx & ECF).
    assert (Gx' : get_obj c2 (st_objs s2) = Some ox) by exact Gx. rewrite G2 in Gx'. inversion Gx'; subst ox.
    unfold okey in EK. inversion EK as [[EI ET EO EP ED]]. destruct (ocfg_fields _ _ ECF) as (F1 & F2 & F3 & F4 & F5).
    exists c2, ob. split; [right; exact I|]. split; [exact Gb|]. split; [congruence|].
    unfold interval in *. rewrite <- F2, <- F4, <- F5, ED. exact L2.
Qed.

(* C15 (when): a registered session disappears from Clients only
   - by the housekeeping tick, when it is disconnected and more than its interval has elapsed, or
   - at the end of its own connection, when the session ends with the connection (expiry 0 / MQTT 3 clean). *)
Theorem discard_only_when_due k s o id :
  inv s -> removed s (fst (step k s o)) id ->
  match o with
  | OTickClients now =>
      exists c ob, aget id (st_clients s) = Some c /\ get_obj c (st_objs s) = Some ob /\ o_open ob = false /\
                   (o_disc ob + Z.of_N (interval k ob) < now)%Z
  | ODisconnect c _ _ _ | ONetClose c _ | OSecondConnect c _ | OTeardown c _ =>
      aget id (st_clients s) = Some c /\
      exists ob', get_obj c (st_objs (fst (step k s o))) = Some ob' /\ o_id ob' = id /\ expire_cond ob' = true
  | _ => False
  end.
Proof.
  intros [W X] [A R]. destruct o; cbn [step] in *.
  - (* connect *)
    destruct (memN c (st_used s)); [cbn in R; congruence|]. exfalso. unfold attach in R.
    destruct (cp_trunc p); [cbn in R; congruence|]. destruct (negb (validate_connect k p =? 0)); [cbn in R; congruence|].
    destruct (negb auth_ok); [cbn in R; congruence|].
    pose proof (inherit_frame k now p (parse_connect c p effid) (set_used s (c :: st_used s)) (wf_set_used s c W)) as IF.
    destruct (inherit k now p (parse_connect c p effid) (set_used s (c :: st_used s))) as [[[s1 n1] sp] o1].
    destruct IF as (KN & CN & IF). cbn [fst] in R. cbn in R.
    assert (C1 : st_clients s1 = st_clients s).
    { change (o_id (parse_connect c p effid)) with effid in IF. destruct (aget effid (st_clients (set_used s (c :: st_used s)))) eqn:AE.
      - destruct IF as ((_ & C1 & _) & _). exact C1.
      - subst s1. reflexivity. }
    match type of R with aget id (aset ?e c _) = None => destruct (bb_dec id e) as [->|NE] end.
    + rewrite aget_aset_same in R. discriminate.
    + rewrite aget_aset_other, C1 in R by exact NE. congruence.
  - destruct (memN c (st_used s)); cbn in R; congruence.
  - (* disconnect *)
    unfold do_disconnect in *. destruct (reading s c) as [ob|] eqn:RD; [|cbn in R; congruence].
    destruct (reading_wf s c ob W RD) as (G & OO & AR). pose proof (get_obj_conn _ _ _ G) as EC.
    destruct (match sei with Some v => (0 <? v) && (o_sei ob =? 0) | None => false end).
    + destruct (disconnect_client_keeps now c 130 s) as (C1 & K1).
      destruct (K1 c ob G) as (ob1 & G1 & I1 & _).
      destruct (disconnect_client now c 130 s) as [s1 o1]. cbn [fst] in *.
      pose proof (handler_tail_clients k now c true s1) as HC.
      destruct (handler_tail k now c true s1) as [s2 o2]. cbn [fst] in *.
      destruct HC as [HC|(oa & ob' & Ga & Gb & ECF & TK & EXP & HC)]; [rewrite HC, C1 in R; congruence|].
      rewrite HC, C1 in R. rewrite G1 in Ga. inversion Ga; subst oa.
      destruct (bb_dec id (o_id ob1)) as [->|NE]; [|rewrite aget_adel_other in R by exact NE; congruence].
      split; [rewrite I1; exact AR|]. exists ob'. destruct (ocfg_fields _ _ ECF) as (F1 & F2 & F3 & F4 & F5).
      split; [exact Gb|split; [exact F1|]]. unfold expire_cond in *. rewrite F2, F3, F4. exact EXP.
    + set (o' := match sei with Some v => with_sei ob (if k_maxsei k <? v then k_maxsei k else v) true | None => ob end) in *.
      assert (C' : o_conn o' = c /\ o_id o' = o_id ob) by (subst o'; destruct sei; cbn; auto).
      destruct C' as [C' I'].
      assert (G1 : get_obj c (st_objs (upd_obj s o')) = Some o') by (unfold upd_obj; cbn; rewrite <- C'; apply get_put_same).
      destruct (negb (rc =? 0)).
      * pose proof (handler_tail_clients k now c true (upd_obj s o')) as HC.
        destruct (handler_tail k now c true (upd_obj s o')) as [s2 o2]. cbn [fst] in *.
        destruct HC as [HC|(oa & ob' & Ga & Gb & ECF & TK & EXP & HC)]; [rewrite HC in R; cbn in R; congruence|].
        rewrite HC in R. change (st_clients (upd_obj s o')) with (st_clients s) in R. rewrite G1 in Ga. inversion Ga; subst oa.
        destruct (bb_dec id (o_id o')) as [->|NE]; [|rewrite aget_adel_other in R by exact NE; congruence].
        split; [rewrite I'; exact AR|]. exists ob'. destruct (ocfg_fields _ _ ECF) as (F1 & F2 & F3 & F4 & F5).
        split; [exact Gb|split; [exact F1|]]. unfold expire_cond in *. rewrite F2, F3, F4. exact EXP.
      * set (s2 := set_wills (upd_obj s o') (adel (o_id o') (st_wills (upd_obj s o')))) in *.
        set (s3 := upd_obj s2 (stopped o' now)) in *.
        assert (G3 : get_obj c (st_objs s3) = Some (stopped o' now)).
        { subst s3. unfold upd_obj. cbn. pose proof (get_put_same (stopped o' now) (put_obj o' (st_objs s))) as GP.
          rewrite stopped_conn, C' in GP. exact GP. }
        pose proof (handler_tail_clients k now c false s3) as HC.
        destruct (handler_tail k now c false s3) as [s4 o4]. cbn [fst] in *.
        destruct HC as [HC|(oa & ob' & Ga & Gb & ECF & TK & EXP & HC)]; [rewrite HC in R; cbn in R; congruence|].
        rewrite HC in R. change (st_clients s3) with (st_clients s) in R. rewrite G3 in Ga. inversion Ga; subst oa.
        destruct (stopped_fields o' now) as (SI & _).
        destruct (bb_dec id (o_id (stopped o' now))) as [->|NE]; [|rewrite aget_adel_other in R by exact NE; congruence].
        split; [rewrite SI, I'; exact AR|]. exists ob'. destruct (ocfg_fields _ _ ECF) as (F1 & F2 & F3 & F4 & F5).
        split; [exact Gb|split; [exact F1|]]. unfold expire_cond in *. rewrite F2, F3, F4. exact EXP.
  - (* network close *)
    unfold do_netclose in *. destruct (reading s c) as [ob|] eqn:RD; [|cbn in R; congruence].
    destruct (reading_wf s c ob W RD) as (G & OO & AR).
    pose proof (handler_tail_clients k now c true s) as HC.
    destruct (handler_tail k now c true s) as [s2 o2]. cbn [fst] in *.
    destruct HC as [HC|(oa & ob' & Ga & Gb & ECF & TK & EXP & HC)]; [rewrite HC in R; congruence|].
    rewrite HC in R. rewrite G in Ga. inversion Ga; subst oa.
    destruct (bb_dec id (o_id ob)) as [->|NE]; [|rewrite aget_adel_other in R by exact NE; congruence].
    split; [exact AR|]. exists ob'. destruct (ocfg_fields _ _ ECF) as (F1 & F2 & F3 & F4 & F5).
    split; [exact Gb|split; [exact F1|]]. unfold expire_cond in *. rewrite F2, F3, F4. exact EXP.
  - (* teardown of a taken-over connection: nothing is removed *)
    unfold do_teardown in *. destruct (get_obj c (st_objs s)) as [ob|] eqn:G; [|cbn in R; congruence].
    destruct (o_phase ob) eqn:PH; try (cbn in R; congruence).
    destruct (wf_held s W c ob G PH) as [TK _].
    pose proof (handler_tail_clients k now c true s) as HC.
    destruct (handler_tail k now c true s) as [s2 o2]. cbn [fst] in *.
    destruct HC as [HC|(oa & ob' & Ga & Gb & ECF & TK' & _)]; [rewrite HC in R; congruence|].
    rewrite G in Ga. inversion Ga; subst oa. congruence.
  - (* tick *)
    destruct (tick_clients_removed k now id (st_clients s) s A R) as (c & ob & I & G & D & L).
    exists c, ob. split; [apply in_aget_nodup; [apply (wf_nodup s W)|exact I]|]. split; [exact G|]. split; [|exact L].
    destruct (o_open ob) eqn:OO; [|reflexivity]. destruct (wf_open s W c ob G OO) as (_ & _ & DZ). congruence.
  - pose proof (tick_will_same_keys k now (st_wills s) s) as (_ & E & _). rewrite E in R. congruence.
  - unfold do_subscribe in R. destruct (reading s c); cbn in R; congruence.
  - unfold do_publish in R. destruct (reading s c); [|cbn in R; congruence].
    match type of R with aget id (st_clients (fst (publish k m ?sx))) = None =>
      pose proof (publish_same_keys k m sx) as (_ & E & _); rewrite E in R end.
    destruct (m_retain m); [|congruence]. pose proof (retain_msg_same_keys k m s) as (_ & E2 & _). rewrite E2 in R. congruence.
  - (* second connect *)
    unfold do_second_connect in *. destruct (reading s c) as [ob|] eqn:RD; [|cbn in R; congruence].
    destruct (reading_wf s c ob W RD) as (G & OO & AR).
    pose proof (send_lwt_same_keys k now c s) as SK. pose proof (send_lwt_same_cfg k now c s) as SC.
    destruct (send_lwt k now c s) as [s1 o1]. cbn [fst] in *.
    assert (C1 : st_clients s1 = st_clients s) by (destruct SK as (_ & E & _); exact E).
    destruct (same_cfg_obj' _ _ _ _ SC G) as (oa1 & Ga1 & ECF1).
    assert (B : st_clients (fst (if o_ver ob =? 5 then disconnect_client now c 130 s1 else (s1, []))) = st_clients s1 /\
                exists ob2, get_obj c (st_objs (fst (if o_ver ob =? 5 then disconnect_client now c 130 s1 else (s1, [])))) = Some ob2 /\
                            o_id ob2 = o_id oa1).
    { destruct (o_ver ob =? 5).
      - destruct (disconnect_client_keeps now c 130 s1) as (C2 & K2). split; [exact C2|]. destruct (K2 c oa1 Ga1) as (ob2 & G2 & I2 & _). exists ob2. auto.
      - cbn [fst]. split; [reflexivity|]. exists oa1. auto. }
    destruct (if o_ver ob =? 5 then disconnect_client now c 130 s1 else (s1, [])) as [s2 o2]. cbn [fst] in B.
    destruct B as (C2 & ob2 & G2 & I2).
    pose proof (handler_tail_clients k now c true s2) as HC.
    destruct (handler_tail k now c true s2) as [s3 o3]. cbn [fst] in *.
    destruct HC as [HC|(oa & ob' & Ga & Gb & ECF & TK & EXP & HC)]; [rewrite HC, C2, C1 in R; congruence|].
    rewrite HC, C2, C1 in R. rewrite G2 in Ga. inversion Ga; subst oa.
    destruct (ocfg_fields _ _ ECF1) as (E1 & _).
    destruct (bb_dec id (o_id ob2)) as [->|NE]; [|rewrite aget_adel_other in R by exact NE; congruence].
    split; [rewrite I2, E1; exact AR|]. exists ob'. destruct (ocfg_fields _ _ ECF) as (F1 & F2 & F3 & F4 & F5).
    split; [exact Gb|split; [exact F1|]]. unfold expire_cond in *. rewrite F2, F3, F4. exact EXP.
Qed.

Lemma handler_tail_deletes k now c err s o :
  get_obj c (st_objs s) = Some o -> expire_cond o = true -> o_tko o = false ->
  st_clients (fst (handler_tail k now c err s)) = adel (o_id o) (st_clients s).
Proof.
  intros G0 EXP TK. unfold handler_tail.
  assert (SK : same_keys s (fst (if err then send_lwt k now c s else (s, [])))) by (destruct err; [apply send_lwt_same_keys|apply same_keys_refl]).
  assert (SC : same_cfg s (fst (if err then send_lwt k now c s else (s, [])))) by (destruct err; [apply send_lwt_same_cfg|apply same_cfg_refl]).
  destruct (if err then send_lwt k now c s else (s, [])) as [s1 o1]. cbn [fst] in SK, SC.
  assert (C1 : st_clients s1 = st_clients s) by (destruct SK as (_ & E & _); exact E).
  destruct (same_keys_obj' _ _ _ _ SK G0) as (ob & G & EK). unfold okey in EK. inversion EK as [[EI ET EO EPH ED]].
  destruct (same_cfg_obj' _ _ _ _ SC G0) as (ox & Gx & ECF). rewrite G in Gx. inversion Gx; subst ox.
  rewrite G. cbn [fst].
  set (o' := if err then stopped ob now else with_will ob no_will).
  assert (F' : ocfg o' = ocfg ob /\ o_tko o' = o_tko ob /\ expire_cond o' = expire_cond ob).
  { subst o'. destruct err; [unfold stopped; destruct (o_open ob); cbn; auto|cbn; auto]. }
  destruct F' as (CF' & T' & EX').
  destruct (ocfg_fields _ _ ECF) as (F1 & F2 & F3 & F4 & F5). destruct (ocfg_fields _ _ CF') as (H1 & H2 & H3 & H4 & H5).
  assert (EXB : expire_cond o' && negb (o_tko o') = true).
  { rewrite EX', T', <- ET, TK. unfold expire_cond in *. rewrite F2, F3, F4, EXP. reflexivity. }
  rewrite EXB.
  match goal with |- st_clients (match ?g with Some x => upd_obj ?z _ | None => _ end) = _ =>
    assert (E : st_clients (match g with Some x => upd_obj z (with_phase x PhDone) | None => z end) = st_clients z) by (destruct g; reflexivity) end.
  rewrite E. cbn. rewrite C1, H1, F1. reflexivity.
Qed.

(* C15: a DISCONNECT cannot raise a zero session expiry interval: the attempt is a protocol error,
   the interval stays zero and the session ends with the connection *)
Theorem disconnect_cannot_raise k s c now rc v ob :
  inv s -> reading s c = Some ob -> o_ver ob = 5 -> o_sei ob = 0 -> 0 < v ->
  let s' := fst (do_disconnect k c now rc (Some v) s) in
  aget (o_id ob) (st_clients s') = None /\
  (forall ob', get_obj c (st_objs s') = Some ob' -> o_sei ob' = 0) /\
  In (OPkt c (PDisconnect 130)) (snd (do_disconnect k c now rc (Some v) s)).
Proof.
  intros [W X] RD V5 S0 VP. cbn zeta. unfold do_disconnect. rewrite RD.
  assert (B : (0 <? v) && (o_sei ob =? 0) = true) by (rewrite S0; cbn; rewrite andb_true_r; apply N.ltb_lt; exact VP).
  rewrite B. destruct (reading_wf s c ob W RD) as (G & OO & AR).
  destruct (disconnect_client_keeps now c 130 s) as (C1 & K1).
  destruct (K1 c ob G) as (ob1 & G1 & I1 & T1 & P1 & _ & _ & _ & _ & _ & _ & V1 & CL1 & SE1 & SF1).
  assert (O1 : snd (disconnect_client now c 130 s) = [OPkt c (PDisconnect 130); OClose c]).
  { unfold disconnect_client. rewrite G, OO. rewrite V5. reflexivity. }
  destruct (disconnect_client now c 130 s) as [s1 o1]. cbn [fst snd] in *.
  destruct (wf_reg s W _ _ AR) as (ox & Gx & _ & TKx). rewrite G in Gx. inversion Gx; subst ox.
  assert (EXP : expire_cond ob1 = true) by (unfold expire_cond; rewrite V1, V5, SE1, S0; reflexivity).
  pose proof (handler_tail_deletes k now c true s1 ob1 G1 EXP (eq_trans T1 TKx)) as HD.
  pose proof (handler_tail_clients k now c true s1) as HC.
  destruct (handler_tail k now c true s1) as [s2 o2]. cbn [fst snd] in *.
  split; [rewrite HD, I1; apply aget_adel_same|]. split.
  - intros ob' Gb. destruct HC as [HC|(oa & ob2 & Ga & Gb2 & ECF & _)].
    + rewrite HD in HC. exfalso.
      assert (AA : aget (o_id ob1) (adel (o_id ob1) (st_clients s1)) = aget (o_id ob1) (st_clients s1)) by (rewrite HC; reflexivity).
      rewrite aget_adel_same, C1, I1, AR in AA. discriminate.
    + rewrite G1 in Ga. inversion Ga; subst oa. rewrite Gb in Gb2. inversion Gb2; subst ob2.
      destruct (ocfg_fields _ _ ECF) as (_ & _ & _ & F4 & _). congruence.
  - rewrite O1. left. reflexivity.
Qed.

(* the interval the broker stores never exceeds the server maximum *)
Definition capped (k : caps) (s : state) : Prop :=
  forall c o, get_obj c (st_objs s) = Some o -> o_sei o <= k_maxsei k.

Lemma capped_same_cfg k s s' : same_cfg s s' -> capped k s -> capped k s'.
Proof.
  intros (_ & _ & K) C c o' G. specialize (K c). rewrite G in K. cbn in K.
  destruct (get_obj c (st_objs s)) as [o|] eqn:G0; [|discriminate]. cbn in K.
  assert (KK : ocfg o' = ocfg o) by congruence.
  destruct (ocfg_fields _ _ KK) as (_ & _ & _ & F4 & _). rewrite F4. apply (C c o G0).
Qed.

Lemma handler_tail_same_cfg k now c err s : same_cfg s (fst (handler_tail k now c err s)).
Proof.
  unfold handler_tail.
  assert (SC : same_cfg s (fst (if err then send_lwt k now c s else (s, [])))) by (destruct err; [apply send_lwt_same_cfg|apply same_cfg_refl]).
  destruct (if err then send_lwt k now c s else (s, [])) as [s1 o1]. cbn [fst] in SC.
  destruct (get_obj c (st_objs s1)) as [o|] eqn:G; [|exact SC]. cbn [fst].
  set (o' := if err then stopped o now else with_will o no_will).
  assert (F' : o_conn o' = c /\ ocfg o' = ocfg o).
  { subst o'. destruct err; [rewrite stopped_conn, stopped_cfg|cbn]; split; auto; apply (get_obj_conn _ _ _ G). }
  destruct F' as (C' & CF').
  assert (E2 : same_cfg s1 (upd_obj s1 o')) by (apply same_cfg_upd with (o0 := o); [rewrite C'; exact G|exact CF']).
  set (s2 := upd_obj s1 o') in *.
  set (s3 := if expire_cond o' && negb (o_tko o')
             then set_clients (unsubscribe_client c (clear_inflights c s2)) (adel (o_id o') (st_clients s2)) else s2).
  assert (E3 : same_cfg s2 s3).
  { subst s3. destruct (expire_cond o' && negb (o_tko o')); [|apply same_cfg_refl].
    eapply same_cfg_trans; [apply clear_inflights_same_cfg|]. eapply same_cfg_trans; [apply unsubscribe_client_same_cfg|repeat split]. }
  eapply same_cfg_trans; [exact SC|]. eapply same_cfg_trans; [exact E2|]. eapply same_cfg_trans; [exact E3|].
  destruct (get_obj c (st_objs s3)) as [x|] eqn:G3; [|apply same_cfg_refl].
  apply same_cfg_upd with (o0 := x); cbn; [rewrite (get_obj_conn _ _ _ G3); exact G3|reflexivity].
Qed.

Lemma tick_clients_same_cfg k now l : forall s, same_cfg s (fst (tick_clients k now l s)).
Proof.
  induction l as [|[id c] r IH]; intro s; cbn [tick_clients]; [apply same_cfg_refl|].
  destruct (get_obj c (st_objs s)) as [o|]; [|apply IH]. destruct (o_disc o =? 0)%Z; [apply IH|].
  match goal with |- context [if (?a <? now)%Z then _ else _] => destruct (a <? now)%Z end; [|apply IH].
  match goal with |- context [tick_clients k now r ?sx] => specialize (IH sx); destruct (tick_clients k now r sx) as [s3 outs] end.
  cbn [fst] in *. eapply same_cfg_trans; [|exact IH].
  eapply same_cfg_trans; [apply clear_inflights_same_cfg|]. eapply same_cfg_trans; [apply unsubscribe_client_same_cfg|repeat split].
Qed.

Lemma cfg_match_upd e (f : cobj -> cobj) s : (forall x, o_conn (f x) = o_conn x /\ ocfg (f x) = ocfg x) ->
  same_cfg s (match get_obj e (st_objs s) with Some x => upd_obj s (f x) | None => s end).
Proof.
  intro H. destruct (get_obj e (st_objs s)) as [x|] eqn:G; [|apply same_cfg_refl].
  destruct (H x) as [A B]. apply same_cfg_upd with (o0 := x); [rewrite A, (get_obj_conn _ _ _ G); exact G|exact B].
Qed.

Lemma inherit_same_cfg k now p n s :
  let '(s1, n1, sp, o1) := inherit k now p n s in same_cfg s s1 /\ o_sei n1 = o_sei n.
Proof.
  unfold inherit. destruct (aget (o_id n) (st_clients s)) as [e|]; [|split; [apply same_cfg_refl|reflexivity]].
  destruct (get_obj e (st_objs s)) as [eo0|] eqn:G0; [|split; [apply same_cfg_refl|reflexivity]].
  pose proof (disconnect_client_same_cfg now e 142 s) as E1.
  destruct (disconnect_client now e 142 s) as [s1 o1]. cbn [fst] in E1.
  set (s1' := match get_obj e (st_objs s1) with
              | Some x => if (match o_phase x with PhReading => true | _ => false end) && negb (o_open x)
                          then upd_obj s1 (with_phase x PhHeld) else s1
              | None => s1 end).
  assert (E1' : same_cfg s1 s1').
  { subst s1'. destruct (get_obj e (st_objs s1)) as [x|] eqn:G1; [|apply same_cfg_refl].
    destruct ((match o_phase x with PhReading => true | _ => false end) && negb (o_open x)); [|apply same_cfg_refl].
    apply same_cfg_upd with (o0 := x); cbn; [rewrite (get_obj_conn _ _ _ G1); exact G1|reflexivity]. }
  assert (E01 : same_cfg s s1') by (eapply same_cfg_trans; eassumption).
  destruct (cp_clean p || (o_clean eo0 && (o_ver eo0 <? 5))).
  - split; [|reflexivity]. eapply same_cfg_trans; [exact E01|]. eapply same_cfg_trans; [apply unsubscribe_client_same_cfg|].
    eapply same_cfg_trans; [apply clear_inflights_same_cfg|]. apply (cfg_match_upd e with_tko). intro x. split; reflexivity.
  - split; [|reflexivity]. eapply same_cfg_trans; [exact E01|].
    eapply same_cfg_trans; [apply (cfg_match_upd e with_tko); intro x; split; reflexivity|].
    eapply same_cfg_trans; [|apply clear_inflights_same_cfg].
    eapply same_cfg_trans; [|apply unsubscribe_client_same_cfg]. repeat split.
Qed.

Theorem step_capped k s o : capped k s -> capped k (fst (step k s o)).
Proof.
  intro C. destruct o; cbn [step].
  - destruct (memN c (st_used s)); [exact C|]. unfold attach.
    destruct (cp_trunc p); [exact C|]. destruct (negb (validate_connect k p =? 0)); [exact C|]. destruct (negb auth_ok); [exact C|].
    pose proof (inherit_same_cfg k now p (parse_connect c p effid) (set_used s (c :: st_used s))) as IS.
    destruct (inherit k now p (parse_connect c p effid) (set_used s (c :: st_used s))) as [[[s1 n1] sp] o1].
    destruct IS as [SC SE]. cbn [fst].
    assert (C1 : capped k s1) by (apply (capped_same_cfg k (set_used s (c :: st_used s))); [exact SC|exact C]).
    set (n2 := if k_maxsei k <? o_sei n1 then with_sei n1 (k_maxsei k) true else n1).
    assert (N2 : o_sei n2 <= k_maxsei k) by (subst n2; destruct (k_maxsei k <? o_sei n1) eqn:E; cbn; lia).
    intros c' o' G. cbn in G. destruct (N.eq_dec c' (o_conn n2)) as [->|NE].
    + rewrite get_put_same in G. inversion G; subst. exact N2.
    + rewrite get_put_other in G by exact NE. apply (C1 c' o' G).
  - destruct (memN c (st_used s)); exact C.
  - unfold do_disconnect. destruct (reading s c) as [ob|] eqn:RD; [|exact C].
    apply reading_obj in RD. destruct RD as [G OO]. pose proof (get_obj_conn _ _ _ G) as EC.
    destruct (match sei with Some v => (0 <? v) && (o_sei ob =? 0) | None => false end).
    + pose proof (disconnect_client_same_cfg now c 130 s) as E1. destruct (disconnect_client now c 130 s) as [s1 o1]. cbn [fst] in E1.
      pose proof (handler_tail_same_cfg k now c true s1) as E2. destruct (handler_tail k now c true s1) as [s2 o2]. cbn [fst] in *.
      apply (capped_same_cfg k s); [eapply same_cfg_trans; eassumption|exact C].
    + set (o' := match sei with Some v => with_sei ob (if k_maxsei k <? v then k_maxsei k else v) true | None => ob end).
      assert (C' : o_conn o' = c) by (subst o'; destruct sei; cbn; exact EC).
      assert (S' : o_sei o' <= k_maxsei k).
      { subst o'. destruct sei as [v|]; cbn; [destruct (k_maxsei k <? v) eqn:E; lia|apply (C c ob G)]. }
      assert (C1 : capped k (upd_obj s o')).
      { intros c' x Gx. unfold upd_obj in Gx. cbn in Gx. destruct (N.eq_dec c' (o_conn o')) as [->|NE].
        - rewrite get_put_same in Gx. inversion Gx; subst. exact S'.
        - rewrite get_put_other in Gx by exact NE. apply (C c' x Gx). }
      destruct (negb (rc =? 0)).
      * pose proof (handler_tail_same_cfg k now c true (upd_obj s o')) as E2.
        destruct (handler_tail k now c true (upd_obj s o')) as [s2 o2]. cbn [fst] in *. apply (capped_same_cfg k _ _ E2 C1).
      * set (s2 := set_wills (upd_obj s o') (adel (o_id o') (st_wills (upd_obj s o')))).
        assert (G2 : get_obj c (st_objs s2) = Some o') by (subst s2; cbn; rewrite <- C'; apply get_put_same).
        assert (E3 : same_cfg (upd_obj s o') (upd_obj s2 (stopped o' now))).
        { eapply same_cfg_trans; [instantiate (1 := s2); repeat split|].
          apply same_cfg_upd with (o0 := o'); [rewrite stopped_conn, C'; exact G2|apply stopped_cfg]. }
        pose proof (handler_tail_same_cfg k now c false (upd_obj s2 (stopped o' now))) as E4.
        destruct (handler_tail k now c false (upd_obj s2 (stopped o' now))) as [s4 o4]. cbn [fst] in *.
        apply (capped_same_cfg k (upd_obj s o')); [eapply same_cfg_trans; eassumption|exact C1].
  - unfold do_netclose. destruct (reading s c); [|exact C]. apply (capped_same_cfg k s); [apply handler_tail_same_cfg|exact C].
  - unfold do_teardown. destruct (get_obj c (st_objs s)) as [ob|]; [|exact C]. destruct (o_phase ob); try exact C.
    apply (capped_same_cfg k s); [apply handler_tail_same_cfg|exact C].
  - apply (capped_same_cfg k s); [apply tick_clients_same_cfg|exact C].
  - apply (capped_same_cfg k s); [apply tick_will_same_cfg|exact C].
  - unfold do_subscribe. destruct (reading s c) as [ob|] eqn:RD; [|exact C]. apply reading_obj in RD. destruct RD as [G _]. cbn [fst].
    apply (capped_same_cfg k s); [|exact C]. eapply same_cfg_trans; [|instantiate (1 := upd_obj s (with_session ob (aset f q (o_subs ob)) (o_infl ob))); repeat split].
    apply same_cfg_upd with (o0 := ob); cbn; [rewrite (get_obj_conn _ _ _ G); exact G|reflexivity].
  - unfold do_publish. destruct (reading s c); [|exact C]. apply (capped_same_cfg k s); [|exact C].
    eapply same_cfg_trans; [|apply deliver_same_cfg]. destruct (m_retain m); [apply retain_msg_same_cfg|apply same_cfg_refl].
  - unfold do_second_connect. destruct (reading s c) as [ob|]; [|exact C].
    pose proof (send_lwt_same_cfg k now c s) as E1. destruct (send_lwt k now c s) as [s1 o1]. cbn [fst] in E1.
    assert (E2 : same_cfg s1 (fst (if o_ver ob =? 5 then disconnect_client now c 130 s1 else (s1, [])))).
    { destruct (o_ver ob =? 5); [apply disconnect_client_same_cfg|apply same_cfg_refl]. }
    destruct (if o_ver ob =? 5 then disconnect_client now c 130 s1 else (s1, [])) as [s2 o2]. cbn [fst] in E2.
    pose proof (handler_tail_same_cfg k now c true s2) as E3. destruct (handler_tail k now c true s2) as [s3 o3]. cbn [fst] in *.
    apply (capped_same_cfg k s); [|exact C]. eapply same_cfg_trans; [exact E1|]. eapply same_cfg_trans; eassumption.
Qed.

Theorem interval_capped k ops : capped k (fold_left (fun s o => fst (step k s o)) ops init).
Proof.
  assert (H : forall ops s, capped k s -> capped k (fold_left (fun s o => fst (step k s o)) ops s)).
  { induction ops0 as [|o r IH]; intros s C; cbn; [exact C|]. apply IH, step_capped, C. }
  apply H. intros c o G. discriminate.
Qed.

Theorem inv_reachable k ops : inv (fold_left (fun s o => fst (step k s o)) ops init).
Proof.
  assert (H : forall ops s, inv s -> inv (fold_left (fun s o => fst (step k s o)) ops s)).
  { induction ops0 as [|o r IH]; intros s I; cbn; [exact I|]. apply IH, step_inv, I. }
  apply (H ops init inv_init).
Qed.
