(* C15 — proofs about the C15 monitor on the traces of the life-cycle model. *)
From MV Require Import Base.Val Session.Lifecycle Session.LifeSpec Session.LifeBase Session.LifeInv Session.LifeProofs13
  Session.LifeProofs14.
From Coq Require Import Lia ZifyBool ZifyN ZifyNat.
Open Scope N_scope.

(* every violation a clause list reports carries that clause's tag *)
Lemma flat_map_tag {A} (f : A -> list viol) (P : viol -> Prop) l :
  (forall a, In a l -> Forall P (f a)) -> Forall P (flat_map f l).
Proof.
  intro H. induction l as [|a r IH]; cbn; [constructor|]. apply Forall_app. split; [apply H; left; reflexivity|].
  apply IH. intros b I. apply H. right. exact I.
Qed.

Ltac tag_solve :=
  repeat match goal with
         | |- Forall _ [] => constructor
         | |- Forall _ (_ :: _) => constructor
         | |- Forall _ (_ ++ _) => apply Forall_app; split
         | |- Forall _ (if ?b then _ else _) => destruct b
         | |- Forall _ (match ?x with _ => _ end) => destruct x
         | |- Forall _ (flat_map _ _) => apply flat_map_tag; intros
         end.

Lemma flat_map_nil {A B} (f : A -> list B) l : (forall a, In a l -> f a = []) -> flat_map f l = [].
Proof.
  intro H. induction l as [|a r IH]; cbn; [reflexivity|]. rewrite (H a (or_introl eq_refl)). apply IH.
  intros b I. apply H. right. exact I.
Qed.

(* the structural clause: every topic-index entry belongs to a registered session that holds the subscription *)
Lemma v_index_nil i s : inv s ->
  flat_map (fun e => match find_client (fst (fst e)) (sn_clients (snap_of s)) with
                     | Some r => if memB (snd (fst e)) (sc_subs r) then [] else [mkv V15_stale_index i (sc_conn r) (fst (fst e))]
                     | None => [mkv V15_stale_index i 0 (fst (fst e))]
                     end) (sn_index (snap_of s)) = [].
Proof.
  intros [W X]. apply flat_map_nil. intros [[id f] q] IN. cbn [snap_of sn_index] in IN. cbn [fst snd].
  destruct (X id f q IN) as (c & o & A & G & F).
  rewrite (find_client_snap s id W), A, G. cbn [option_map sclient_of sc_subs].
  assert (M : memB f (map fst (o_subs o)) = true) by (apply memB_in; exact F). rewrite M. reflexivity.
Qed.

Theorem m15_no_stale_index k i m s o :
  inv s -> Forall (fun v => v_tag v <> V15_stale_index) (snd (m15_step k i m (obs_of (tstep_of k s o)))).
Proof.
  intro I. pose proof (step_inv k s o I) as I'.
  unfold m15_step. cbv zeta. cbn [snd]. unfold obs_of, tstep_of. cbn [b_op b_outs b_pre b_post t_op t_outs t_pre t_post].
  rewrite (v_index_nil i (fst (step k s o)) I').
  repeat (apply Forall_app; split); try (constructor; fail).
  all: tag_solve; cbn; try discriminate.
  all: repeat match goal with |- context [match ?x with _ => _ end] => destruct x | |- context [if ?b then _ else _] => destruct b end; discriminate.
Qed.

Theorem mon15_no_stale_index k ops :
  Forall (fun v => v_tag v <> V15_stale_index) (mon15 k (map obs_of (trace k init ops))).
Proof.
  unfold mon15. apply (run_mon_inv k (m15_step k) _ (fun _ s _ => inv s)).
  - intros i m s o r I. split; [apply step_inv, I|apply m15_no_stale_index, I].
  - apply inv_init.
Qed.

(* the same fact about the states themselves: after every history, every entry of the topic index
   belongs to a registered session that holds the subscription *)
Theorem index_belongs_to_sessions k ops : ixinv (fold_left (fun s o => fst (step k s o)) ops init).
Proof.
  assert (H : forall ops s, inv s -> inv (fold_left (fun s o => fst (step k s o)) ops s)).
  { induction ops0 as [|o r IH]; intros s I; cbn; [exact I|]. apply IH, step_inv, I. }
  apply (H ops init inv_init).
Qed.

(* ---------- the configuration fields of an object (identifier, version, clean, session expiry) ---------- *)
Definition ocfg (o : cobj) := (o_id o, o_ver o, o_clean o, o_sei o, o_seiflag o).

Definition same_cfg (s s' : state) : Prop :=
  True /\ True /\
  forall c, option_map ocfg (get_obj c (st_objs s')) = option_map ocfg (get_obj c (st_objs s)).

Lemma same_cfg_refl s : same_cfg s s.
Proof. repeat split. Qed.
Lemma same_cfg_trans a b c : same_cfg a b -> same_cfg b c -> same_cfg a c.
Proof. intros (C1 & I1 & K1) (C2 & I2 & K2). split; [congruence|split; [congruence|]]. intro x. rewrite K2. apply K1. Qed.

Lemma same_cfg_upd s o o0 : get_obj (o_conn o) (st_objs s) = Some o0 -> ocfg o = ocfg o0 -> same_cfg s (upd_obj s o).
Proof.
  intros G E. repeat split. intro c. unfold upd_obj. cbn. destruct (N.eq_dec c (o_conn o)) as [->|N].
  - rewrite get_put_same, G. cbn. congruence.
  - rewrite get_put_other by exact N. reflexivity.
Qed.

Lemma same_cfg_obj' s s' c o : same_cfg s s' -> get_obj c (st_objs s) = Some o ->
  exists o', get_obj c (st_objs s') = Some o' /\ ocfg o' = ocfg o.
Proof.
  intros (_ & _ & K) G. specialize (K c). rewrite G in K. cbn in K.
  destruct (get_obj c (st_objs s')) as [o'|]; [|discriminate]. exists o'. split; [reflexivity|]. cbn in K. congruence.
Qed.

Lemma deliver_same_cfg k m ix : forall s, same_cfg s (fst (deliver k m ix s)).
Proof.
  induction ix as [|[[id f] q] r IH]; intro s; cbn [deliver]; [apply same_cfg_refl|].
  destruct (beq_bytes f (m_topic m)); [|apply IH].
  destruct (client_of s id) as [o|] eqn:C; [|apply IH].
  pose proof (client_of_obj _ _ _ C) as G.
  match goal with |- context [upd_obj s ?o'] => set (oo := o') end.
  assert (E1 : same_cfg s (upd_obj s oo)).
  { apply same_cfg_upd with (o0 := o); subst oo; destruct (0 <? _); cbn; auto. }
  specialize (IH (upd_obj s oo)). destruct (deliver k m r (upd_obj s oo)) as [s'' outs]. cbn [fst] in *.
  eapply same_cfg_trans; eassumption.
Qed.

Lemma retain_msg_same_cfg k m s : same_cfg s (retain_msg k m s).
Proof. unfold retain_msg. destruct (k_retain k); [|apply same_cfg_refl]. destruct (m_payload m); repeat split. Qed.

Lemma send_lwt_same_cfg k now c s : same_cfg s (fst (send_lwt k now c s)).
Proof.
  unfold send_lwt. destruct (get_obj c (st_objs s)) as [o|] eqn:G; [|apply same_cfg_refl].
  destruct (w_flag (o_will o)); cbn [negb]; [|apply same_cfg_refl].
  destruct (0 <? w_delay (o_will o)); [repeat split|].
  set (s1 := if w_retain (o_will o) then retain_msg k (will_msg (o_will o)) s else s).
  assert (E1 : same_cfg s s1) by (subst s1; destruct (w_retain (o_will o)); [apply retain_msg_same_cfg|apply same_cfg_refl]).
  pose proof (deliver_same_cfg k (will_msg (o_will o)) (st_index s1) s1) as E2. unfold publish.
  destruct (deliver k (will_msg (o_will o)) (st_index s1) s1) as [s2 outs]. cbn [fst] in *.
  assert (E12 : same_cfg s s2) by (eapply same_cfg_trans; eassumption).
  destruct (same_cfg_obj' _ _ _ _ E12 G) as (o2 & G2 & EK). rewrite G2.
  eapply same_cfg_trans; [exact E12|]. apply same_cfg_upd with (o0 := o2); cbn; [rewrite (get_obj_conn _ _ _ G2); exact G2|reflexivity].
Qed.

Lemma clear_inflights_same_cfg c s : same_cfg s (clear_inflights c s).
Proof.
  unfold clear_inflights. destruct (get_obj c (st_objs s)) as [o|] eqn:G; [|apply same_cfg_refl].
  apply same_cfg_upd with (o0 := o); cbn; [rewrite (get_obj_conn _ _ _ G); exact G|reflexivity].
Qed.

Lemma stopped_cfg o now : ocfg (stopped o now) = ocfg o.
Proof. unfold stopped. destruct (o_open o); reflexivity. Qed.

Lemma disconnect_client_same_cfg now c code s : same_cfg s (fst (disconnect_client now c code s)).
Proof.
  unfold disconnect_client. destruct (get_obj c (st_objs s)) as [o|] eqn:G; [|apply same_cfg_refl].
  destruct (o_open o); [|apply same_cfg_refl]. cbn [fst].
  apply same_cfg_upd with (o0 := o); [rewrite stopped_conn, (get_obj_conn _ _ _ G); exact G|apply stopped_cfg].
Qed.

Lemma tick_will_same_cfg k now l : forall s, same_cfg s (fst (tick_will k now l s)).
Proof.
  induction l as [|[id d] r IH]; intro s; cbn [tick_will]; [apply same_cfg_refl|].
  destruct (d_due d <? now)%Z; [|apply IH].
  pose proof (deliver_same_cfg k (d_msg d) (st_index s) s) as E1. unfold publish.
  destruct (deliver k (d_msg d) (st_index s) s) as [s1 o1]. cbn [fst] in *.
  assert (E2 : same_cfg s1 (fst (match client_of s1 id with
                         | Some o => (upd_obj (if m_retain (d_msg d) then retain_msg k (d_msg d) s1 else s1) (with_will o no_will), [OWillSent id])
                         | None => (s1, []) end))).
  { destruct (client_of s1 id) as [o|] eqn:C; [|apply same_cfg_refl]. cbn [fst].
    pose proof (client_of_obj _ _ _ C) as G.
    set (s' := if m_retain (d_msg d) then retain_msg k (d_msg d) s1 else s1).
    assert (E' : same_cfg s1 s') by (subst s'; destruct (m_retain (d_msg d)); [apply retain_msg_same_cfg|apply same_cfg_refl]).
    eapply same_cfg_trans; [exact E'|].
    destruct (same_cfg_obj' _ _ _ _ E' G) as (o' & G' & EK).
    apply same_cfg_upd with (o0 := o'); [exact G'|]. rewrite EK. reflexivity. }
  destruct (match client_of s1 id with
            | Some o => (upd_obj (if m_retain (d_msg d) then retain_msg k (d_msg d) s1 else s1) (with_will o no_will), [OWillSent id])
            | None => (s1, []) end) as [s2 o2]. cbn [fst] in *.
  specialize (IH (set_wills s2 (adel id (st_wills s2)))).
  destruct (tick_will k now r (set_wills s2 (adel id (st_wills s2)))) as [s4 o4]. cbn [fst] in *.
  eapply same_cfg_trans; [exact E1|]. eapply same_cfg_trans; [exact E2|].
  eapply same_cfg_trans; [|exact IH]. repeat split.
Qed.


Lemma unsubscribe_client_same_cfg c s : same_cfg s (unsubscribe_client c s).
Proof.
  unfold unsubscribe_client. destruct (get_obj c (st_objs s)) as [o|] eqn:G; [|apply same_cfg_refl].
  assert (E1 : same_cfg s (upd_obj s (with_session o [] (o_infl o)))).
  { apply same_cfg_upd with (o0 := o); cbn; [rewrite (get_obj_conn _ _ _ G); exact G|reflexivity]. }
  destruct (o_tko o); [exact E1|]. eapply same_cfg_trans; [exact E1|repeat split].
Qed.

(* ---------- when a session is discarded ---------- *)
(* the expiry interval clearExpiredClients applies to a disconnected session *)
Definition interval (k : caps) (o : cobj) : N := if (o_ver o =? 5) && o_seiflag o then o_sei o else k_maxsei k.

Definition removed (s s' : state) (id : bytes) : Prop :=
  aget id (st_clients s) <> None /\ aget id (st_clients s') = None.

Lemma handler_tail_clients k now c err s :
  st_clients (fst (handler_tail k now c err s)) = st_clients s \/
  exists o o', get_obj c (st_objs s) = Some o /\ get_obj c (st_objs (fst (handler_tail k now c err s))) = Some o' /\
    ocfg o' = ocfg o /\ o_tko o = false /\ expire_cond o = true /\
    st_clients (fst (handler_tail k now c err s)) = adel (o_id o) (st_clients s).
Proof.
  unfold handler_tail.
  assert (SK : same_keys s (fst (if err then send_lwt k now c s else (s, [])))) by (destruct err; [apply send_lwt_same_keys|apply same_keys_refl]).
  assert (SC : same_cfg s (fst (if err then send_lwt k now c s else (s, [])))) by (destruct err; [apply send_lwt_same_cfg|apply same_cfg_refl]).
  destruct (if err then send_lwt k now c s else (s, [])) as [s1 o1]. cbn [fst] in SK, SC.
  assert (C1 : st_clients s1 = st_clients s) by (destruct SK as (_ & E & _); exact E).
  destruct (get_obj c (st_objs s1)) as [o|] eqn:G; [|left; exact C1]. cbn [fst].
  destruct (same_keys_obj _ _ _ _ SK G) as (o0 & G0 & EK). unfold okey in EK. inversion EK as [[EI ET EO EPH ED]].
  destruct (same_cfg_obj' _ _ _ _ SC G0) as (ox & Gx & ECF). rewrite G in Gx. inversion Gx; subst ox.
  pose proof (get_obj_conn _ _ _ G) as EC.
  set (o' := if err then stopped o now else with_will o no_will).
  assert (F' : o_conn o' = c /\ ocfg o' = ocfg o /\ o_tko o' = o_tko o /\ expire_cond o' = expire_cond o).
  { subst o'. destruct err.
    - rewrite stopped_conn. unfold stopped. destruct (o_open o); cbn; auto.
    - cbn. auto. }
  destruct F' as (C' & CF' & T' & EX').
  set (s2 := upd_obj s1 o').
  assert (G2 : get_obj c (st_objs s2) = Some o') by (subst s2; unfold upd_obj; cbn; rewrite <- C'; apply get_put_same).
  destruct (expire_cond o' && negb (o_tko o')) eqn:EX.
  - right. apply andb_true_iff in EX. destruct EX as [EXP NT]. apply negb_true_iff in NT.
    set (sa := unsubscribe_client c (clear_inflights c s2)).
    assert (SCa : same_cfg s2 sa) by (eapply same_cfg_trans; [apply clear_inflights_same_cfg|apply unsubscribe_client_same_cfg]).
    assert (SKa : same_keys s2 sa) by (eapply same_keys_trans; [apply clear_inflights_same_keys|apply unsubscribe_client_same_keys]).
    destruct (same_cfg_obj' _ _ _ _ SCa G2) as (oa & Ga & ECa).
    set (s3 := set_clients sa (adel (o_id o') (st_clients s2))).
    assert (G3 : get_obj c (st_objs s3) = Some oa) by exact Ga. rewrite G3.
    exists o0, (with_phase oa PhDone). split; [exact G0|]. split.
    { unfold upd_obj. cbn. pose proof (get_put_same (with_phase oa PhDone) (st_objs sa)) as GP. cbn in GP.
      rewrite (get_obj_conn _ _ _ Ga) in GP. exact GP. }
    split; [transitivity (ocfg oa); [reflexivity|]; rewrite ECa, CF', ECF; reflexivity|].
    split; [congruence|]. split.
    { unfold expire_cond in *. unfold ocfg in ECF, CF'. inversion ECF. inversion CF'. congruence. }
    cbn. unfold ocfg in ECF, CF'. inversion ECF. inversion CF'. subst s2. cbn. rewrite C1. congruence.
  - left. match goal with |- st_clients (match ?g with Some x => upd_obj ?z _ | None => _ end) = _ => destruct g; cbn; exact C1 end.
Qed.
