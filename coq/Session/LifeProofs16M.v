(* C16 — the specification monitor mon16 on the traces of the life-cycle model: every violation it
   reports with a safety tag is a known finding.  Part 1: exact effect of every operation on the
   will-relevant part of the state (object fields id / version / expiry / open / phase / will, the
   delayed-will table, the will publications and the closes among the outputs). *)
From MV Require Import Base.Val Session.Lifecycle Session.LifeSpec Session.LifeKF Session.LifeBase Session.LifeInv
  Session.LifeProofs13 Session.LifeProofs14 Session.LifeProofs15 Session.LifeProofs15J Session.LifeProofs16.
From Coq Require Import Lia ZifyBool ZifyN ZifyNat.
Open Scope N_scope.

(* ---------- the will-relevant projection of an object ---------- *)
Definition wk (o : cobj) := (o_id o, o_ver o, o_sei o, o_open o, o_phase o, o_will o).

Definition wsame (s s' : state) : Prop := same_pr wk s s'.

Lemma wk_session o a b : wk (with_session o a b) = wk o.
Proof. reflexivity. Qed.
Lemma wk_tko o : wk (with_tko o) = wk o.
Proof. reflexivity. Qed.

(* respects the projection *)
Definition wresp (g : cobj -> cobj) : Prop := forall a b, wk a = wk b -> wk (g a) = wk (g b).

Lemma wk_fields a b : wk a = wk b ->
  o_id a = o_id b /\ o_ver a = o_ver b /\ o_sei a = o_sei b /\ o_open a = o_open b /\ o_phase a = o_phase b /\ o_will a = o_will b.
Proof. unfold wk. intro H. inversion H. auto 10. Qed.

Lemma wresp_stopped now : wresp (fun o => stopped o now).
Proof.
  intros a b H. destruct (wk_fields a b H) as (A & B & C & D & E & F). unfold stopped. rewrite D. destruct (o_open b); [|exact H].
  unfold wk. cbn. rewrite A, B, C, E, F. reflexivity.
Qed.
Lemma wresp_will (f : will -> will) : wresp (fun o => with_will o (f (o_will o))).
Proof. intros a b H. destruct (wk_fields a b H) as (A & B & C & D & E & F). unfold wk. cbn. rewrite ?A, ?B, ?C, ?D, ?E, ?F. reflexivity. Qed.
Lemma wresp_phase ph : wresp (fun o => with_phase o ph).
Proof. intros a b H. destruct (wk_fields a b H) as (A & B & C & D & E & F). unfold wk. cbn. rewrite ?A, ?B, ?C, ?D, ?E, ?F. reflexivity. Qed.
Lemma wresp_sei v fl : wresp (fun o => with_sei o v fl).
Proof. intros a b H. destruct (wk_fields a b H) as (A & B & C & D & E & F). unfold wk. cbn. rewrite ?A, ?B, ?C, ?D, ?E, ?F. reflexivity. Qed.
Lemma wresp_id : wresp (fun o => o).
Proof. intros a b H. exact H. Qed.
Lemma wresp_comp g1 g2 : wresp g1 -> wresp g2 -> wresp (fun o => g2 (g1 o)).
Proof. intros A B a b H. apply B, A, H. Qed.

(* the objects other than c keep their projection; the object of c is transformed by g *)
Definition wupd (s s' : state) (c : N) (g : cobj -> cobj) : Prop :=
  (forall c', c' <> c -> option_map wk (get_obj c' (st_objs s')) = option_map wk (get_obj c' (st_objs s))) /\
  (forall o, get_obj c (st_objs s) = Some o -> exists o', get_obj c (st_objs s') = Some o' /\ wk o' = wk (g o)) /\
  (get_obj c (st_objs s) = None -> get_obj c (st_objs s') = None).

Lemma wsame_wupd s s' c : wsame s s' -> wupd s s' c (fun o => o).
Proof.
  intro H. split; [intros c' _; apply H|]. split.
  - intros o G. specialize (H c). rewrite G in H. destruct (get_obj c (st_objs s')) as [o'|]; [|discriminate].
    exists o'. split; [reflexivity|]. cbn in H. congruence.
  - intro G. specialize (H c). rewrite G in H. destruct (get_obj c (st_objs s')); [discriminate|reflexivity].
Qed.

Lemma wupd_trans s s1 s2 c g1 g2 : wresp g2 -> wupd s s1 c g1 -> wupd s1 s2 c g2 -> wupd s s2 c (fun o => g2 (g1 o)).
Proof.
  intros R (A1 & B1 & C1) (A2 & B2 & C2). split; [intros c' N; rewrite (A2 c' N); apply (A1 c' N)|]. split.
  - intros o G. destruct (B1 o G) as (o1 & G1 & E1). destruct (B2 o1 G1) as (o2 & G2 & E2). exists o2. split; [exact G2|].
    rewrite E2. apply R, E1.
  - intro G. apply C2, C1, G.
Qed.

Lemma wupd_ext s s' c g g' : (forall o, wk (g o) = wk (g' o)) -> wupd s s' c g -> wupd s s' c g'.
Proof.
  intros E (A & B & C). split; [exact A|]. split; [|exact C]. intros o G. destruct (B o G) as (o' & G' & EE). exists o'. split; [exact G'|]. rewrite EE. apply E.
Qed.

Lemma wupd_upd s c o g : get_obj c (st_objs s) = Some o -> o_conn (g o) = c -> wupd s (upd_obj s (g o)) c g.
Proof.
  intros G CG. split; [|split].
  - intros c' N. unfold upd_obj. cbn. rewrite get_put_other by (rewrite CG; exact N). reflexivity.
  - intros o0 G0. rewrite G in G0. inversion G0; subst o0. exists (g o). split; [|reflexivity].
    unfold upd_obj. cbn. rewrite <- CG at 1. apply get_put_same.
  - intro GN. congruence.
Qed.

Lemma wupd_match s c g : (forall x, o_conn (g x) = o_conn x) ->
  wupd s (match get_obj c (st_objs s) with Some x => upd_obj s (g x) | None => s end) c g.
Proof.
  intro H. destruct (get_obj c (st_objs s)) as [x|] eqn:G.
  - apply wupd_upd; [exact G|rewrite H; apply (get_obj_conn _ _ _ G)].
  - split; [intros; reflexivity|]. split; [intros o GG; congruence|auto].
Qed.

(* ---------- outputs: will publications and closes ---------- *)
Lemma wills_of_app a b : wills_of (a ++ b) = wills_of a ++ wills_of b.
Proof. unfold wills_of. apply flat_map_app. Qed.

Lemma no_wills_nil outs : no_wills outs -> wills_of outs = [].
Proof.
  intro H. induction outs as [|x r IH]; [reflexivity|].
  assert (Hr : no_wills r).
  { intro c. specialize (H c). unfold wills_for in *. cbn [flat_map] in H. apply app_eq_nil in H. tauto. }
  destruct x; cbn; try (apply IH, Hr). specialize (H c). unfold wills_for in H. cbn [flat_map] in H. rewrite N.eqb_refl in H. discriminate.
Qed.

Lemma no_closes_nil outs : no_closes outs -> closes outs = [].
Proof.
  intro H. destruct (closes outs) as [|c r] eqn:E; [reflexivity|]. exfalso. apply (H c). apply in_closes. rewrite E. left. reflexivity.
Qed.

(* an operation part that changes nothing will-relevant *)
Definition quiet (s : state) (r : state * list out) : Prop :=
  wsame s (fst r) /\ st_wills (fst r) = st_wills s /\ wills_of (snd r) = [] /\ closes (snd r) = [].

Lemma quiet_refl s : quiet s (s, []).
Proof. repeat split. Qed.

Lemma deliver_wills_tbl k m ix : forall s, st_wills (fst (deliver k m ix s)) = st_wills s.
Proof.
  induction ix as [|[[id f] q] r IH]; intro s; cbn [deliver]; [reflexivity|].
  destruct (beq_bytes f (m_topic m)); [|apply IH]. destruct (client_of s id); [|apply IH].
  match goal with |- context [deliver k m r ?sx] => specialize (IH sx); destruct (deliver k m r sx) as [s'' outs] end.
  cbn [fst] in *. rewrite IH. reflexivity.
Qed.

Lemma deliver_quiet k m ix s : quiet s (deliver k m ix s).
Proof.
  split; [apply deliver_same_pr; intros; reflexivity|]. split; [apply deliver_wills_tbl|].
  split; [apply no_wills_nil, deliver_no_wills|apply no_closes_nil, deliver_no_closes].
Qed.

Lemma retain_msg_objs k m s : st_objs (retain_msg k m s) = st_objs s /\ st_wills (retain_msg k m s) = st_wills s.
Proof. unfold retain_msg. destruct (k_retain k); [|auto]. destruct (m_payload m); auto. Qed.

Lemma wsame_objs s s' : st_objs s' = st_objs s -> wsame s s'.
Proof. intros E c. rewrite E. reflexivity. Qed.

Lemma wsame_trans a b c : wsame a b -> wsame b c -> wsame a c.
Proof. apply same_pr_trans. Qed.

Lemma unsubscribe_client_wills c s : st_wills (unsubscribe_client c s) = st_wills s.
Proof. unfold unsubscribe_client. destruct (get_obj c (st_objs s)) as [o|]; [|reflexivity]. destruct (o_tko o); reflexivity. Qed.
Lemma clear_inflights_wills c s : st_wills (clear_inflights c s) = st_wills s.
Proof. unfold clear_inflights. destruct (get_obj c (st_objs s)); reflexivity. Qed.
Lemma unsubscribe_client_wsame c s : wsame s (unsubscribe_client c s).
Proof. apply unsubscribe_client_same_pr. intros; reflexivity. Qed.
Lemma clear_inflights_wsame c s : wsame s (clear_inflights c s).
Proof. apply clear_inflights_same_pr. intros; reflexivity. Qed.

(* ---------- sendLWT, DisconnectClient, the handler tail ---------- *)
Definition effp (s : state) (r : state * list out) (c : N) (g : cobj -> cobj) (tbl : list (bytes * dwill))
    (ws : list (N * msg)) (cl : list N) : Prop :=
  wupd s (fst r) c g /\ st_wills (fst r) = tbl /\ wills_of (snd r) = ws /\ closes (snd r) = cl.

Definition pub_now (o : cobj) : bool := w_flag (o_will o) && negb (0 <? w_delay (o_will o)).
Definition reg_now (o : cobj) : bool := w_flag (o_will o) && (0 <? w_delay (o_will o)).
Definition entry_of (c : N) (now : Z) (o : cobj) : dwill :=
  {| d_conn := c; d_due := (now + Z.of_N (w_delay (o_will o)))%Z; d_msg := will_msg (o_will o) |}.
Definition g_lwt (pub : bool) (x : cobj) : cobj := if pub then with_will x (will_clear_flag (o_will x)) else x.

Lemma wresp_lwt pub : wresp (g_lwt pub).
Proof. unfold g_lwt. destruct pub; [apply (wresp_will will_clear_flag)|apply wresp_id]. Qed.

Lemma send_lwt_eff k now c s o : get_obj c (st_objs s) = Some o ->
  effp s (send_lwt k now c s) c (g_lwt (pub_now o))
      (if reg_now o then aset (o_id o) (entry_of c now o) (st_wills s) else st_wills s)
      (if pub_now o then [(c, will_msg (o_will o))] else []) [].
Proof.
  intro G. unfold send_lwt, pub_now, reg_now, g_lwt. rewrite G.
  destruct (w_flag (o_will o)) eqn:F; cbn [negb andb].
  2:{ split; [apply wsame_wupd, same_pr_refl|repeat split]. }
  destruct (0 <? w_delay (o_will o)) eqn:D; cbn [negb].
  - split; [apply wsame_wupd; intro x; reflexivity|repeat split].
  - set (s1 := if w_retain (o_will o) then retain_msg k (will_msg (o_will o)) s else s).
    assert (E1 : st_objs s1 = st_objs s /\ st_wills s1 = st_wills s).
    { subst s1. destruct (w_retain (o_will o)); [apply retain_msg_objs|auto]. }
    destruct E1 as [EO EW]. unfold publish.
    pose proof (deliver_quiet k (will_msg (o_will o)) (st_index s1) s1) as (Q1 & Q2 & Q3 & Q4).
    destruct (deliver k (will_msg (o_will o)) (st_index s1) s1) as [s2 outs]. cbn [fst snd] in *.
    assert (WS : wsame s s2) by (eapply wsame_trans; [apply wsame_objs, EO|exact Q1]).
    pose proof (wsame_wupd s s2 c WS) as (A1 & B1 & C1). destruct (B1 o G) as (o2 & G2 & E2). rewrite G2.
    split; [|split; [cbn; congruence|split]].
    + apply (wupd_trans s s2 _ c (fun x => x) (fun x => with_will x (will_clear_flag (o_will x)))).
      * apply (wresp_will will_clear_flag).
      * apply wsame_wupd, WS.
      * apply (wupd_upd s2 c o2 (fun x => with_will x (will_clear_flag (o_will x)))); [exact G2|cbn; apply (get_obj_conn _ _ _ G2)].
    + cbn [snd]. change (wills_of (OWill c (will_msg (o_will o)) :: outs ++ [OWillSent (o_id o)]))
        with ((c, will_msg (o_will o)) :: wills_of (outs ++ [OWillSent (o_id o)])).
      rewrite wills_of_app, Q3. reflexivity.
    + cbn [snd]. change (closes (OWill c (will_msg (o_will o)) :: outs ++ [OWillSent (o_id o)])) with (closes (outs ++ [OWillSent (o_id o)])).
      rewrite closes_app, Q4. reflexivity.
Qed.

Lemma disconnect_client_eff now c code s o : get_obj c (st_objs s) = Some o ->
  effp s (disconnect_client now c code s) c (fun x => stopped x now) (st_wills s) [] (if o_open o then [c] else []).
Proof.
  intro G. unfold disconnect_client. rewrite G. destruct (o_open o) eqn:OO.
  - split; [|repeat split]. cbn [fst]. apply (wupd_upd s c o (fun x => stopped x now)); [exact G|rewrite stopped_conn; apply (get_obj_conn _ _ _ G)].
  - split; [|repeat split]. cbn [fst]. split; [intros; reflexivity|]. split; [|auto].
    intros o0 G0. exists o0. split; [exact G0|]. rewrite G in G0. inversion G0; subst o0. unfold stopped. rewrite OO. reflexivity.
Qed.

Definition g_tail (err pub : bool) (now : Z) (x : cobj) : cobj :=
  with_phase (if err then stopped (g_lwt pub x) now else with_will x no_will) PhDone.

Lemma wresp_const_will w : wresp (fun o => with_will o w).
Proof. apply (wresp_will (fun _ => w)). Qed.

Lemma handler_tail_eff k now c err s o : get_obj c (st_objs s) = Some o ->
  effp s (handler_tail k now c err s) c (g_tail err (pub_now o) now)
      (if err && reg_now o then aset (o_id o) (entry_of c now o) (st_wills s) else st_wills s)
      (if err && pub_now o then [(c, will_msg (o_will o))] else [])
      (if err && o_open o then [c] else []).
Proof.
  intro G. unfold handler_tail.
  assert (A : effp s (if err then send_lwt k now c s else (s, [])) c (if err then g_lwt (pub_now o) else (fun x => x))
                (if err && reg_now o then aset (o_id o) (entry_of c now o) (st_wills s) else st_wills s)
                (if err && pub_now o then [(c, will_msg (o_will o))] else []) []).
  { destruct err; cbn [andb]; [apply send_lwt_eff, G|]. split; [apply wsame_wupd, same_pr_refl|repeat split]. }
  destruct (if err then send_lwt k now c s else (s, [])) as [s1 o1]. destruct A as (U1 & T1 & W1 & C1). cbn [fst snd] in *.
  destruct U1 as (UA & UB & UC). destruct (UB o G) as (x1 & G1 & E1). rewrite G1.
  assert (OX : o_open x1 = o_open o).
  { destruct (wk_fields _ _ E1) as (_ & _ & _ & OO & _). rewrite OO. destruct err; [|reflexivity]. unfold g_lwt. destruct (pub_now o); reflexivity. }
  set (g' := fun x : cobj => if err then stopped x now else with_will x no_will).
  set (s2 := upd_obj s1 (g' x1)).
  assert (U2 : wupd s1 s2 c g').
  { apply (wupd_upd s1 c x1 g'); [exact G1|]. subst g'. cbn beta. destruct err; [rewrite stopped_conn|cbn]; apply (get_obj_conn _ _ _ G1). }
  set (s3 := if expire_cond (g' x1) && negb (o_tko (g' x1))
             then set_clients (unsubscribe_client c (clear_inflights c s2)) (adel (o_id (g' x1)) (st_clients s2)) else s2).
  assert (U3 : wsame s2 s3 /\ st_wills s3 = st_wills s2).
  { subst s3. destruct (expire_cond (g' x1) && negb (o_tko (g' x1))); [|split; [apply same_pr_refl|reflexivity]]. split.
    - eapply wsame_trans; [apply clear_inflights_wsame|]. eapply wsame_trans; [apply unsubscribe_client_wsame|apply wsame_objs; reflexivity].
    - cbn. rewrite unsubscribe_client_wills, clear_inflights_wills. reflexivity. }
  destruct U3 as [U3 T3].
  pose proof (wupd_match s3 c (fun x => with_phase x PhDone) (fun x => eq_refl)) as U4.
  set (s4 := match get_obj c (st_objs s3) with Some x => upd_obj s3 (with_phase x PhDone) | None => s3 end) in *.
  assert (T4 : st_wills s4 = st_wills s3) by (subst s4; destruct (get_obj c (st_objs s3)); reflexivity).
  change (effp s (s4, o1 ++ (if err && o_open x1 then [OClose c] else []) ++ [ODisconnected (o_id (g' x1)) (expire_cond (g' x1))]) c
            (g_tail err (pub_now o) now)
            (if err && reg_now o then aset (o_id o) (entry_of c now o) (st_wills s) else st_wills s)
            (if err && pub_now o then [(c, will_msg (o_will o))] else [])
            (if err && o_open o then [c] else [])).
  split; [|split; [cbn [fst]; rewrite T4, T3; subst s2; cbn; exact T1|split]].
  - cbn [fst].
    assert (WG : wresp g') by (subst g'; destruct err; [apply wresp_stopped|apply wresp_const_will]).
    pose proof (wupd_trans s s1 s2 c _ g' WG (conj UA (conj UB UC)) U2) as V2.
    pose proof (wupd_trans s s2 s3 c _ (fun x => x) wresp_id V2 (wsame_wupd s2 s3 c U3)) as V3.
    pose proof (wupd_trans s s3 s4 c _ (fun x => with_phase x PhDone) (wresp_phase PhDone) V3 U4) as V4.
    eapply wupd_ext; [|exact V4]. intro x. unfold g_tail. subst g'. cbn beta. destruct err; reflexivity.
  - cbn [snd]. rewrite !wills_of_app, W1. rewrite OX. destruct (err && o_open o); cbn; rewrite app_nil_r; reflexivity.
  - cbn [snd]. rewrite !closes_app, C1, OX. destruct (err && o_open o); reflexivity.
Qed.

(* ---------- the end of connection c's handler (its own end, or its teardown after a takeover) ---------- *)
Definition mend (s : state) (r : state * list out) (c : N) (now : Z) (ob : cobj) (normal : bool) : Prop :=
  (forall c', c' <> c -> option_map wk (get_obj c' (st_objs (fst r))) = option_map wk (get_obj c' (st_objs s))) /\
  (exists o', get_obj c (st_objs (fst r)) = Some o' /\ o_id o' = o_id ob /\ o_ver o' = o_ver ob /\ o_open o' = false /\
              o_phase o' = PhDone /\ o_will o' = if normal then no_will else o_will (g_lwt (pub_now ob) ob)) /\
  st_wills (fst r) = (if normal then adel (o_id ob) (st_wills s)
                      else if reg_now ob then aset (o_id ob) (entry_of c now ob) (st_wills s) else st_wills s) /\
  wills_of (snd r) = (if normal then [] else if pub_now ob then [(c, will_msg (o_will ob))] else []) /\
  closes (snd r) = (if o_open ob then [c] else []).

Lemma stopped_fields x now :
  o_id (stopped x now) = o_id x /\ o_ver (stopped x now) = o_ver x /\ o_open (stopped x now) = false /\ o_will (stopped x now) = o_will x.
Proof. unfold stopped. destruct (o_open x) eqn:OO; cbn; auto. Qed.

(* from the effect of the handler tail with an error *)
Lemma mend_of_tail k now c s ob :
  get_obj c (st_objs s) = Some ob -> mend s (handler_tail k now c true s) c now ob false.
Proof.
  intro G. destruct (handler_tail_eff k now c true s ob G) as ((UA & UB & UC) & T & W & C). cbn [andb] in *.
  split; [exact UA|]. split; [|split; [exact T|split; [exact W|exact C]]].
  destruct (UB ob G) as (o' & G' & E). exists o'. split; [exact G'|].
  destruct (wk_fields _ _ E) as (I & V & _ & O & P & WW). unfold g_tail in *. cbn in I, V, O, P, WW.
  destruct (stopped_fields (g_lwt (pub_now ob) ob) now) as (S1 & S2 & S3 & S4).
  rewrite I, V, O, P, WW, S1, S2, S3, S4. unfold g_lwt. destruct (pub_now ob); cbn; auto 10.
Qed.

Lemma aset_idem {V} (k0 : bytes) (v : V) l : aset k0 v (aset k0 v l) = aset k0 v l.
Proof.
  unfold aset, adel. rewrite filter_app. cbn. rewrite bb_refl. cbn. rewrite app_nil_r.
  f_equal. induction l as [|[a b] r IH]; cbn; [reflexivity|]. destruct (beq_bytes a k0) eqn:E; cbn; [exact IH|]. rewrite E. cbn. f_equal. exact IH.
Qed.

(* a change of the object of c before the tail that keeps what matters *)
Lemma mend_pre s s0 r c now ob ob0 normal :
  (forall c', c' <> c -> option_map wk (get_obj c' (st_objs s0)) = option_map wk (get_obj c' (st_objs s))) ->
  st_wills s0 = st_wills s -> o_id ob0 = o_id ob -> o_ver ob0 = o_ver ob -> o_will ob0 = o_will ob -> o_open ob0 = o_open ob ->
  mend s0 r c now ob0 normal -> mend s r c now ob normal.
Proof.
  intros OT TW EI EV EW EO (A & B & T & W & C).
  assert (EP : pub_now ob0 = pub_now ob) by (unfold pub_now; rewrite EW; reflexivity).
  assert (ER : reg_now ob0 = reg_now ob) by (unfold reg_now; rewrite EW; reflexivity).
  assert (EE : entry_of c now ob0 = entry_of c now ob) by (unfold entry_of; rewrite EW; reflexivity).
  split; [intros c' N; rewrite (A c' N); apply (OT c' N)|]. split; [|split; [|split]].
  - destruct B as (o' & G' & I & V & O & P & WW). exists o'. split; [exact G'|]. rewrite I, V, O, P, WW, EP.
    unfold g_lwt. destruct (pub_now ob); cbn; rewrite ?EW; auto 10.
  - rewrite T, TW, EI, ER, EE. reflexivity.
  - rewrite W, EP, EW. reflexivity.
  - rewrite C, EO. reflexivity.
Qed.

Lemma others_upd s o c : o_conn o = c ->
  forall c', c' <> c -> option_map wk (get_obj c' (st_objs (upd_obj s o))) = option_map wk (get_obj c' (st_objs s)).
Proof. intros E c' N. unfold upd_obj. cbn. rewrite get_put_other by (rewrite E; exact N). reflexivity. Qed.

Lemma get_upd_same s o : get_obj (o_conn o) (st_objs (upd_obj s o)) = Some o.
Proof. unfold upd_obj. cbn. apply get_put_same. Qed.

(* a first part that only stops / re-stamps the object of c, then the end of its handler *)
Lemma mend_after s s1 o1 (r : state * list out) c now ob x1 normal :
  (forall c', c' <> c -> option_map wk (get_obj c' (st_objs s1)) = option_map wk (get_obj c' (st_objs s))) ->
  o_id x1 = o_id ob -> o_ver x1 = o_ver ob -> o_will x1 = o_will ob ->
  st_wills s1 = st_wills s -> wills_of o1 = [] ->
  closes o1 ++ (if o_open x1 then [c] else []) = (if o_open ob then [c] else []) ->
  mend s1 r c now x1 normal -> mend s (fst r, o1 ++ snd r) c now ob normal.
Proof.
  intros OT EI EV EW TW W1 CL (A & B & T & W & C).
  assert (EP : pub_now x1 = pub_now ob) by (unfold pub_now; rewrite EW; reflexivity).
  assert (ER : reg_now x1 = reg_now ob) by (unfold reg_now; rewrite EW; reflexivity).
  assert (EE : entry_of c now x1 = entry_of c now ob) by (unfold entry_of; rewrite EW; reflexivity).
  split; [intros c' N; cbn [fst]; rewrite (A c' N); apply (OT c' N)|]. split; [|split; [|split]]; cbn [fst snd].
  - destruct B as (o' & G' & I & V & O & P & WW). exists o'. split; [exact G'|]. rewrite I, V, O, P, WW, EP.
    unfold g_lwt. destruct (pub_now ob); cbn; rewrite ?EW; auto 10.
  - rewrite T, TW, EI, ER, EE. reflexivity.
  - rewrite wills_of_app, W1, W, EP, EW. reflexivity.
  - rewrite closes_app, C. exact CL.
Qed.

Lemma do_netclose_mend k c now s ob : reading s c = Some ob -> mend s (do_netclose k c now s) c now ob false.
Proof. intro R. unfold do_netclose. rewrite R. apply mend_of_tail. apply (reading_obj s c ob R). Qed.

Lemma do_teardown_mend k c now s ob : get_obj c (st_objs s) = Some ob -> o_phase ob = PhHeld ->
  mend s (do_teardown k c now s) c now ob false.
Proof. intros G P. unfold do_teardown. rewrite G, P. apply mend_of_tail, G. Qed.

Definition bad_sei (ob : cobj) (sei : option N) : bool :=
  match sei with Some v => (0 <? v) && (o_sei ob =? 0) | None => false end.

Lemma do_disconnect_mend k c now rc sei s ob : reading s c = Some ob ->
  mend s (do_disconnect k c now rc sei s) c now ob (negb (bad_sei ob sei) && (rc =? 0)).
Proof.
  intro R. destruct (reading_obj s c ob R) as [G OO]. pose proof (get_obj_conn _ _ _ G) as EC.
  unfold do_disconnect, bad_sei. rewrite R.
  destruct (match sei with Some v => (0 <? v) && (o_sei ob =? 0) | None => false end); cbn [negb andb].
  - (* protocol error: DISCONNECT 0x82, then the tail *)
    destruct (disconnect_client_eff now c 130 s ob G) as ((UA & UB & _) & T & W & C). rewrite OO in C.
    destruct (disconnect_client now c 130 s) as [s1 o1]. cbn [fst snd] in *.
    destruct (UB ob G) as (x1 & G1 & E1). destruct (wk_fields _ _ E1) as (I & V & _ & O & _ & WW).
    destruct (stopped_fields ob now) as (S1 & S2 & S3 & S4). rewrite S1 in I. rewrite S2 in V. rewrite S3 in O. rewrite S4 in WW.
    pose proof (mend_after s s1 o1 (handler_tail k now c true s1) c now ob x1 false UA I V WW T W) as M.
    rewrite C, O, OO in M. specialize (M eq_refl (mend_of_tail k now c s1 x1 G1)).
    destruct (handler_tail k now c true s1) as [s2 o2]. exact M.
  - set (o' := match sei with Some v => with_sei ob (if k_maxsei k <? v then k_maxsei k else v) true | None => ob end).
    assert (F' : o_conn o' = c /\ o_id o' = o_id ob /\ o_ver o' = o_ver ob /\ o_will o' = o_will ob /\ o_open o' = o_open ob)
      by (subst o'; destruct sei; cbn; auto 10).
    destruct F' as (C' & I' & V' & W' & O').
    destruct (rc =? 0) eqn:RC; cbn [negb].
    + (* normal: the will is discarded *)
      set (s1 := upd_obj s o').
      set (s2 := set_wills s1 (adel (o_id o') (st_wills s1))).
      set (s3 := upd_obj s2 (stopped o' now)).
      assert (G3 : get_obj c (st_objs s3) = Some (stopped o' now)).
      { subst s3. rewrite <- C' at 1. rewrite <- (stopped_conn o' now). apply get_upd_same. }
      destruct (handler_tail_eff k now c false s3 (stopped o' now) G3) as ((UA & UB & _) & T & W & C). cbn [andb] in *.
      destruct (handler_tail k now c false s3) as [s4 o4]. cbn [fst snd] in *.
      destruct (stopped_fields o' now) as (S1 & S2 & S3 & S4).
      split; [|split; [|split; [|split]]]; cbn [fst snd].
      * intros c' N. rewrite (UA c' N). subst s3.
        rewrite (others_upd s2 (stopped o' now) c (eq_trans (stopped_conn o' now) C') c' N).
        subst s2 s1. cbn [st_objs set_wills]. apply (others_upd s o' c C' c' N).
      * destruct (UB _ G3) as (o4' & G4 & E4). exists o4'. split; [exact G4|].
        destruct (wk_fields _ _ E4) as (I & V & _ & O & P & WW). unfold g_tail in *. cbn in I, V, O, P, WW.
        rewrite I, V, O, P, WW, S1, S2, S3, I', V'. auto 10.
      * rewrite T. subst s3 s2 s1. cbn. rewrite I'. reflexivity.
      * exact W.
      * change (closes (OClose c :: o4)) with (c :: closes o4). rewrite C, OO. reflexivity.
    + (* a reason code other than 0x00: the read loop ends with an error *)
      apply (mend_pre s (upd_obj s o') _ c now ob o' false); auto.
      * apply others_upd, C'.
      * apply mend_of_tail. rewrite <- C' at 1. apply get_upd_same.
Qed.

Lemma do_second_connect_mend k c now s ob : reading s c = Some ob -> mend s (do_second_connect k c now s) c now ob false.
Proof.
  intro R. destruct (reading_obj s c ob R) as [G OO]. unfold do_second_connect. rewrite R.
  destruct (send_lwt_eff k now c s ob G) as ((UA1 & UB1 & _) & T1 & W1 & C1).
  destruct (send_lwt k now c s) as [s1 o1]. cbn [fst snd] in *.
  destruct (UB1 ob G) as (x1 & G1 & E1). destruct (wk_fields _ _ E1) as (I1 & V1 & _ & O1 & _ & WW1).
  assert (F1 : o_id x1 = o_id ob /\ o_ver x1 = o_ver ob /\ o_open x1 = true) by (unfold g_lwt in *; destruct (pub_now ob); cbn in *; rewrite I1, V1, O1; auto).
  destruct F1 as (I1' & V1' & O1').
  (* the second part: DISCONNECT 0x82 for MQTT 5 *)
  assert (A2 : exists x2, get_obj c (st_objs (fst (if o_ver ob =? 5 then disconnect_client now c 130 s1 else (s1, [])))) = Some x2 /\
                 o_id x2 = o_id ob /\ o_ver x2 = o_ver ob /\ o_will x2 = o_will x1 /\
                 (forall c', c' <> c -> option_map wk (get_obj c' (st_objs (fst (if o_ver ob =? 5 then disconnect_client now c 130 s1 else (s1, []))))) =
                                        option_map wk (get_obj c' (st_objs s1))) /\
                 st_wills (fst (if o_ver ob =? 5 then disconnect_client now c 130 s1 else (s1, []))) = st_wills s1 /\
                 wills_of (snd (if o_ver ob =? 5 then disconnect_client now c 130 s1 else (s1, []))) = [] /\
                 closes (snd (if o_ver ob =? 5 then disconnect_client now c 130 s1 else (s1, []))) ++ (if o_open x2 then [c] else []) = [c]).
  { destruct (o_ver ob =? 5).
    - destruct (disconnect_client_eff now c 130 s1 x1 G1) as ((UA & UB & _) & T & W & C). rewrite O1' in C.
      destruct (UB x1 G1) as (x2 & G2 & E2). destruct (wk_fields _ _ E2) as (I & V & _ & O & _ & WW).
      destruct (stopped_fields x1 now) as (S1 & S2 & S3 & S4). exists x2. split; [exact G2|].
      rewrite I, V, WW, S1, S2, S4, C, O, S3. auto 10.
    - exists x1. cbn [fst snd]. rewrite O1'. auto 10. }
  destruct (if o_ver ob =? 5 then disconnect_client now c 130 s1 else (s1, [])) as [s2 o2]. cbn [fst snd] in *.
  destruct A2 as (x2 & G2 & I2 & V2 & WW2 & UA2 & T2 & W2 & C2).
  pose proof (mend_of_tail k now c s2 x2 G2) as (A3 & B3 & T3 & W3 & C3).
  destruct (handler_tail k now c true s2) as [s3 o3]. cbn [fst snd] in *.
  (* what the second sendLWT sees *)
  assert (P2 : pub_now x2 = false /\ reg_now x2 = reg_now ob /\ (reg_now ob = true -> entry_of c now x2 = entry_of c now ob) /\
               o_will (g_lwt (pub_now x2) x2) = o_will (g_lwt (pub_now ob) ob)).
  { assert (WX : o_will x2 = o_will (g_lwt (pub_now ob) ob)) by congruence.
    unfold pub_now, reg_now, entry_of in *. unfold g_lwt in WX |- *.
    destruct (w_flag (o_will ob)) eqn:F; cbn [andb] in *.
    - destruct (0 <? w_delay (o_will ob)) eqn:D; cbn [negb] in *; rewrite WX; cbn; rewrite ?F, ?D; cbn; auto.
    - rewrite WX. cbn. rewrite ?F. cbn. auto. }
  destruct P2 as (P2 & R2 & E2 & WL).
  split; [intros c' N; cbn [fst]; rewrite (A3 c' N), (UA2 c' N); apply (UA1 c' N)|]. split; [|split; [|split]]; cbn [fst snd].
  - destruct B3 as (o' & G' & I & V & O & P & WW). exists o'. split; [exact G'|]. rewrite I, V, O, P, WW, I2, V2, WL. auto 10.
  - rewrite T3, T2, T1, R2, I2. destruct (reg_now ob) eqn:RG; [|reflexivity]. rewrite (E2 eq_refl). apply aset_idem.
  - rewrite !wills_of_app, W1, W2, W3, P2. rewrite app_nil_r. reflexivity.
  - rewrite !closes_app, C1, C3, OO. cbn [app]. exact C2.
Qed.

(* ---------- operations that change nothing will-relevant ---------- *)
Lemma quiet_seq s (r1 : state * list out) (r2 : state * list out) :
  quiet s r1 -> quiet (fst r1) r2 -> quiet s (fst r2, snd r1 ++ snd r2).
Proof.
  intros (A1 & B1 & C1 & D1) (A2 & B2 & C2 & D2). split; [eapply wsame_trans; eassumption|]. cbn [fst snd].
  split; [congruence|]. rewrite wills_of_app, closes_app, C1, C2, D1, D2. auto.
Qed.

Lemma do_subscribe_quiet c f q s : quiet s (do_subscribe c f q s).
Proof.
  unfold do_subscribe. destruct (reading s c) as [o|] eqn:R; [|apply quiet_refl].
  destruct (reading_obj s c o R) as [G _]. split; [|repeat split]. cbn [fst].
  eapply wsame_trans; [|apply wsame_objs; reflexivity].
  apply (same_pr_upd wk s _ o); cbn; [rewrite (get_obj_conn _ _ _ G); exact G|reflexivity].
Qed.

Lemma do_publish_quiet k c m s : quiet s (do_publish k c m s).
Proof.
  unfold do_publish. destruct (reading s c); [|apply quiet_refl].
  set (s1 := if m_retain m then retain_msg k m s else s).
  assert (E1 : st_objs s1 = st_objs s /\ st_wills s1 = st_wills s) by (subst s1; destruct (m_retain m); [apply retain_msg_objs|auto]).
  destruct E1 as [EO EW]. destruct (deliver_quiet k m (st_index s1) s1) as (A & B & C & D). unfold publish.
  split; [eapply wsame_trans; [apply wsame_objs, EO|exact A]|]. split; [rewrite B; exact EW|auto].
Qed.

Lemma tick_clients_quiet k now l : forall s, quiet s (tick_clients k now l s).
Proof.
  induction l as [|[id c] r IH]; intro s; cbn [tick_clients]; [apply quiet_refl|].
  destruct (get_obj c (st_objs s)) as [o|]; [|apply IH]. destruct (o_disc o =? 0)%Z; [apply IH|].
  match goal with |- context [if (?a <? now)%Z then _ else _] => destruct (a <? now)%Z end; [|apply IH].
  match goal with |- context [tick_clients k now r ?sx] => set (s2 := sx); specialize (IH s2); destruct (tick_clients k now r s2) as [s3 outs] end.
  destruct IH as (A & B & C & D). cbn [fst snd] in *.
  assert (W2 : wsame s s2 /\ st_wills s2 = st_wills s).
  { subst s2. split.
    - eapply wsame_trans; [apply clear_inflights_wsame|]. eapply wsame_trans; [apply unsubscribe_client_wsame|apply wsame_objs; reflexivity].
    - cbn. rewrite unsubscribe_client_wills, clear_inflights_wills. reflexivity. }
  destruct W2 as [W2 T2]. split; [eapply wsame_trans; eassumption|]. cbn [fst snd]. split; [rewrite B; exact T2|]. split; [exact C|exact D].
Qed.

(* ---------- sendDelayedLWT ---------- *)
Definition wkn (o : cobj) := (o_id o, o_ver o, o_sei o, o_open o, o_phase o).

(* objects keep everything but, possibly, their will, which may be cleared *)
Definition wcleared (s s' : state) : Prop :=
  forall c, match get_obj c (st_objs s), get_obj c (st_objs s') with
            | Some o, Some o' => wkn o' = wkn o /\ (o_will o' = o_will o \/ o_will o' = no_will)
            | None, None => True
            | _, _ => False
            end.

Lemma wcleared_refl s : wcleared s s.
Proof. intro c. destruct (get_obj c (st_objs s)); auto. Qed.

Lemma wcleared_trans a b c : wcleared a b -> wcleared b c -> wcleared a c.
Proof.
  intros H1 H2 x. specialize (H1 x). specialize (H2 x).
  destruct (get_obj x (st_objs a)) as [oa|], (get_obj x (st_objs b)) as [ob|], (get_obj x (st_objs c)) as [oc|]; try tauto.
  destruct H1 as [K1 W1], H2 as [K2 W2]. split; [congruence|]. destruct W2 as [W2|W2]; [rewrite W2; exact W1|right; exact W2].
Qed.

Lemma wsame_wcleared s s' : wsame s s' -> wcleared s s'.
Proof.
  intros H c. specialize (H c). destruct (get_obj c (st_objs s)) as [o|], (get_obj c (st_objs s')) as [o'|]; cbn in H; try discriminate; auto.
  assert (HH : wk o' = wk o) by congruence. destruct (wk_fields o' o HH) as (A & B & C & D & E & F).
  split; [unfold wkn; rewrite A, B, C, D, E; reflexivity|left; exact F].
Qed.

Definition due (now : Z) (e : bytes * dwill) : bool := (d_due (snd e) <? now)%Z.

Lemma tick_will_eff k now l : forall s,
  wcleared s (fst (tick_will k now l s)) /\
  st_wills (fst (tick_will k now l s)) = fold_left (fun t e => adel (fst e) t) (filter (due now) l) (st_wills s) /\
  wills_of (snd (tick_will k now l s)) = map (fun e => (d_conn (snd e), d_msg (snd e))) (filter (due now) l) /\
  closes (snd (tick_will k now l s)) = [].
Proof.
  induction l as [|[id d] r IH]; intro s; cbn [tick_will filter]; [split; [apply wcleared_refl|auto]|].
  change (due now (id, d)) with (d_due d <? now)%Z. destruct (d_due d <? now)%Z; [|apply IH].
  destruct (deliver_quiet k (d_msg d) (st_index s) s) as (Q1 & Q2 & Q3 & Q4). unfold publish.
  destruct (deliver k (d_msg d) (st_index s) s) as [s1 o1]. cbn [fst snd] in *.
  assert (A2 : wcleared s1 (fst (match client_of s1 id with
                 | Some o => (upd_obj (if m_retain (d_msg d) then retain_msg k (d_msg d) s1 else s1) (with_will o no_will), [OWillSent id])
                 | None => (s1, []) end)) /\
               st_wills (fst (match client_of s1 id with
                 | Some o => (upd_obj (if m_retain (d_msg d) then retain_msg k (d_msg d) s1 else s1) (with_will o no_will), [OWillSent id])
                 | None => (s1, []) end)) = st_wills s1 /\
               wills_of (snd (match client_of s1 id with
                 | Some o => (upd_obj (if m_retain (d_msg d) then retain_msg k (d_msg d) s1 else s1) (with_will o no_will), [OWillSent id])
                 | None => (s1, []) end)) = [] /\
               closes (snd (match client_of s1 id with
                 | Some o => (upd_obj (if m_retain (d_msg d) then retain_msg k (d_msg d) s1 else s1) (with_will o no_will), [OWillSent id])
                 | None => (s1, []) end)) = []).
  { destruct (client_of s1 id) as [o|] eqn:C; [|split; [apply wcleared_refl|auto]]. cbn [fst snd].
    pose proof (client_of_obj _ _ _ C) as G.
    set (s' := if m_retain (d_msg d) then retain_msg k (d_msg d) s1 else s1).
    assert (E' : st_objs s' = st_objs s1 /\ st_wills s' = st_wills s1) by (subst s'; destruct (m_retain (d_msg d)); [apply retain_msg_objs|auto]).
    destruct E' as [EO EW]. split; [|split; [cbn; exact EW|auto]].
    intro c. unfold upd_obj. cbn [st_objs set_objs]. rewrite EO. destruct (N.eq_dec c (o_conn o)) as [->|NE].
    - change (o_conn o) with (o_conn (with_will o no_will)) at 2. rewrite get_put_same, G. split; [reflexivity|right; reflexivity].
    - rewrite get_put_other by (cbn; exact NE). destruct (get_obj c (st_objs s1)); auto. }
  destruct (match client_of s1 id with
            | Some o => (upd_obj (if m_retain (d_msg d) then retain_msg k (d_msg d) s1 else s1) (with_will o no_will), [OWillSent id])
            | None => (s1, []) end) as [s2 o2]. cbn [fst snd] in A2. destruct A2 as (W2 & T2 & WS2 & C2).
  specialize (IH (set_wills s2 (adel id (st_wills s2)))).
  destruct (tick_will k now r (set_wills s2 (adel id (st_wills s2)))) as [s4 o4]. cbn [fst snd] in *.
  destruct IH as (W4 & T4 & WS4 & C4). split; [|split; [|split]].
  - eapply wcleared_trans; [apply wsame_wcleared, Q1|]. eapply wcleared_trans; [exact W2|].
    eapply wcleared_trans; [|exact W4]. intro c. cbn. destruct (get_obj c (st_objs s2)); auto.
  - rewrite T4. cbn [st_wills set_wills fold_left fst]. rewrite T2, Q2. reflexivity.
  - change (wills_of (OWill (d_conn d) (d_msg d) :: o1 ++ o2 ++ o4)) with ((d_conn d, d_msg d) :: wills_of (o1 ++ o2 ++ o4)).
    rewrite !wills_of_app, Q3, WS2, WS4. reflexivity.
  - change (closes (OWill (d_conn d) (d_msg d) :: o1 ++ o2 ++ o4)) with (closes (o1 ++ o2 ++ o4)).
    rewrite !closes_app, Q4, C2, C4. reflexivity.
Qed.

Lemma in_fold_adel (dl : list (bytes * dwill)) : forall (tbl : list (bytes * dwill)) (x : bytes * dwill),
  In x (fold_left (fun t e => adel (fst e) t) dl tbl) <-> In x tbl /\ ~ In (fst x) (map fst dl).
Proof.
  induction dl as [|e r IH]; intros tbl x; cbn [fold_left map]; [tauto|].
  rewrite IH. split.
  - intros [I N]. apply in_adel in I. destruct I as [I NE]. split; [exact I|]. intros [E|E]; [congruence|exact (N E)].
  - intros [I N]. split; [|intro E; apply N; right; exact E].
    unfold adel. apply filter_In. split; [exact I|]. destruct (beq_bytes (fst x) (fst e)) eqn:B; [|reflexivity].
    exfalso. apply N. left. symmetry. apply bb_eq, B.
Qed.

Lemma nodup_fold_adel (dl : list (bytes * dwill)) : forall tbl : list (bytes * dwill),
  NoDup (map fst tbl) -> NoDup (map fst (fold_left (fun t e => adel (fst e) t) dl tbl)).
Proof. induction dl as [|e r IH]; intros tbl ND; cbn [fold_left]; [exact ND|]. apply IH, nodup_adel, ND. Qed.

(* with unique keys: the entries that stay are exactly those that were not due *)
Lemma tick_table now (tbl : list (bytes * dwill)) (x : bytes * dwill) : NoDup (map fst tbl) ->
  In x (fold_left (fun t e => adel (fst e) t) (filter (due now) tbl) tbl) <-> In x tbl /\ due now x = false.
Proof.
  intro ND. rewrite in_fold_adel. split; intros [I H]; (split; [exact I|]).
  - destruct (due now x) eqn:D; [|reflexivity]. exfalso. apply H. apply in_map. apply filter_In. auto.
  - intro IM. apply in_map_iff in IM. destruct IM as (y & EK & IY). apply filter_In in IY. destruct IY as [IY DY].
    destruct x as [kx vx], y as [ky vy]. cbn in EK. subst ky.
    pose proof (in_aget_nodup kx vx tbl ND I) as A1. pose proof (in_aget_nodup kx vy tbl ND IY) as A2.
    rewrite A1 in A2. inversion A2; subst vy. congruence.
Qed.

(* ---------- inheritClientSession and the accepting attachClient ---------- *)
Definition held (x : cobj) : cobj :=
  if (match o_phase x with PhReading => true | _ => false end) && negb (o_open x) then with_phase x PhHeld else x.

Lemma wresp_held : wresp held.
Proof.
  intros a b H. destruct (wk_fields a b H) as (A & B & C & D & E & F). unfold held. rewrite D, E.
  destruct ((match o_phase b with PhReading => true | _ => false end) && negb (o_open b)); [apply (wresp_phase PhHeld), H|exact H].
Qed.

Lemma wupd_held s e :
  wupd s (match get_obj e (st_objs s) with
          | Some x => if (match o_phase x with PhReading => true | _ => false end) && negb (o_open x)
                      then upd_obj s (with_phase x PhHeld) else s
          | None => s end) e held.
Proof.
  destruct (get_obj e (st_objs s)) as [x|] eqn:G.
  - destruct ((match o_phase x with PhReading => true | _ => false end) && negb (o_open x)) eqn:C.
    + split; [intros c' N; apply (others_upd s (with_phase x PhHeld) e (get_obj_conn _ _ _ G) c' N)|]. split; [|congruence].
      intros o G0. rewrite G in G0. inversion G0; subst o. exists (with_phase x PhHeld). split.
      * rewrite <- (get_obj_conn _ _ _ G) at 1. change (o_conn x) with (o_conn (with_phase x PhHeld)). apply get_upd_same.
      * unfold held. rewrite C. reflexivity.
    + split; [intros; reflexivity|]. split; [|auto]. intros o G0. exists o. split; [exact G0|]. rewrite G in G0. inversion G0; subst o.
      unfold held. rewrite C. reflexivity.
  - split; [intros; reflexivity|]. split; [intros o G0; congruence|auto].
Qed.

Lemma inherit_eff k now p n s :
  let '(s1, n1, sp, o1) := inherit k now p n s in
  wk n1 = wk n /\ o_conn n1 = o_conn n /\ st_wills s1 = st_wills s /\ wills_of o1 = [] /\
  match client_of s (o_id n) with
  | Some eo => wupd s s1 (o_conn eo) (fun x => held (stopped x now)) /\ closes o1 = (if o_open eo then [o_conn eo] else [])
  | None => wsame s s1 /\ closes o1 = []
  end.
Proof.
  unfold inherit, client_of. destruct (aget (o_id n) (st_clients s)) as [e|]; [|repeat split].
  destruct (get_obj e (st_objs s)) as [eo0|] eqn:G0; [|repeat split].
  pose proof (get_obj_conn _ _ _ G0) as EC. rewrite EC.
  destruct (disconnect_client_eff now e 142 s eo0 G0) as (U1 & T1 & W1 & C1).
  destruct (disconnect_client now e 142 s) as [s1 o1]. cbn [fst snd] in *.
  pose proof (wupd_held s1 e) as U2.
  set (s1' := match get_obj e (st_objs s1) with
              | Some x => if (match o_phase x with PhReading => true | _ => false end) && negb (o_open x)
                          then upd_obj s1 (with_phase x PhHeld) else s1
              | None => s1 end) in *.
  assert (T2 : st_wills s1' = st_wills s1).
  { subst s1'. destruct (get_obj e (st_objs s1)) as [x|]; [|reflexivity].
    destruct ((match o_phase x with PhReading => true | _ => false end) && negb (o_open x)); reflexivity. }
  pose proof (wupd_trans s s1 s1' e _ held wresp_held U1 U2) as U12.
  assert (TK : forall z, wsame z (match get_obj e (st_objs z) with Some x => upd_obj z (with_tko x) | None => z end) /\
                         st_wills (match get_obj e (st_objs z) with Some x => upd_obj z (with_tko x) | None => z end) = st_wills z).
  { intro z. split; [apply (match_upd_same_pr wk e with_tko z); intro x; split; reflexivity|]. destruct (get_obj e (st_objs z)); reflexivity. }
  destruct (cp_clean p || (o_clean eo0 && (o_ver eo0 <? 5))).
  - split; [reflexivity|]. split; [reflexivity|]. split; [|split; [exact W1|split; [|exact C1]]].
    + rewrite (proj2 (TK _)), clear_inflights_wills, unsubscribe_client_wills, T2. exact T1.
    + apply (wupd_trans s s1' _ e _ (fun x => x) wresp_id U12). apply wsame_wupd.
      eapply wsame_trans; [apply unsubscribe_client_wsame|]. eapply wsame_trans; [apply clear_inflights_wsame|apply (proj1 (TK _))].
  - destruct (TK s1') as [TK1 TK2].
    set (s2 := match get_obj e (st_objs s1') with Some x => upd_obj s1' (with_tko x) | None => s1' end) in *.
    set (s2i := set_index s2 (fold_left (fun ix fq => ix_add (o_id n) (fst fq) (snd fq) ix) (o_subs eo0) (st_index s2))).
    split; [reflexivity|]. split; [reflexivity|]. split; [|split; [exact W1|split; [|exact C1]]].
    + rewrite clear_inflights_wills, unsubscribe_client_wills. subst s2i. cbn [st_wills set_index]. rewrite TK2, T2. exact T1.
    + apply (wupd_trans s s1' _ e _ (fun x => x) wresp_id U12). apply wsame_wupd.
      apply (wsame_trans s1' s2); [exact TK1|]. apply (wsame_trans s2 s2i); [apply wsame_objs; reflexivity|].
      apply (wsame_trans s2i (unsubscribe_client e s2i)); [apply unsubscribe_client_wsame|apply clear_inflights_wsame].
Qed.

Definition maccept (k : caps) (s : state) (r : state * list out) (c : N) (now : Z) (p : cparams) (e : bytes) : Prop :=
  let nw := parse_connect c p e in
  (exists n2, get_obj c (st_objs (fst r)) = Some n2 /\ o_id n2 = e /\ o_ver n2 = cp_ver p /\ o_sei n2 = capN k (o_sei nw) /\
              o_open n2 = true /\ o_phase n2 = PhReading /\ o_will n2 = o_will nw) /\
  match client_of s e with
  | Some eo =>
      (forall c', c' <> c -> c' <> o_conn eo ->
         option_map wk (get_obj c' (st_objs (fst r))) = option_map wk (get_obj c' (st_objs s))) /\
      (exists o', get_obj (o_conn eo) (st_objs (fst r)) = Some o' /\ wk o' = wk (held (stopped eo now))) /\
      closes (snd r) = (if o_open eo then [o_conn eo] else [])
  | None =>
      (forall c', c' <> c -> option_map wk (get_obj c' (st_objs (fst r))) = option_map wk (get_obj c' (st_objs s))) /\
      closes (snd r) = []
  end /\
  st_wills (fst r) = adel e (st_wills s) /\ wills_of (snd r) = [].

Lemma closes_resend_nil c l : closes (resend c l) = [].
Proof. apply closes_resend. Qed.
Lemma wills_of_resend c l : wills_of (resend c l) = [].
Proof. induction l as [|m r IH]; cbn; [reflexivity|exact IH]. Qed.

Lemma attach_accept_eff k c now p e s :
  hasobj s c = false -> cp_trunc p = false -> validate_connect k p = 0 ->
  maccept k s (attach k c now p true e s) c now p e.
Proof.
  intros HN T V. unfold attach. rewrite T, V. cbn [N.eqb negb].
  pose proof (inherit_eff k now p (parse_connect c p e) s) as IE.
  destruct (inherit k now p (parse_connect c p e) s) as [[[s1 n1] sp] o1].
  change (o_id (parse_connect c p e)) with e in IE. destruct IE as (WN & CN & T1 & W1 & IE). cbn in CN.
  set (n2 := if k_maxsei k <? o_sei n1 then with_sei n1 (k_maxsei k) true else n1).
  destruct (wk_fields _ _ WN) as (I1 & V1 & S1 & O1 & P1 & WW1). cbn in I1, V1, S1, O1, P1.
  assert (F2 : o_conn n2 = c /\ o_id n2 = e /\ o_ver n2 = cp_ver p /\ o_sei n2 = capN k (o_sei (parse_connect c p e)) /\
               o_open n2 = true /\ o_phase n2 = PhReading /\ o_will n2 = o_will (parse_connect c p e)).
  { subst n2. unfold capN. cbn [o_sei parse_connect]. rewrite <- S1. destruct (k_maxsei k <? o_sei n1); cbn; auto 10. }
  destruct F2 as (C2 & I2 & V2 & S2 & O2 & P2 & WW2).
  unfold maccept. cbn zeta. cbn [fst snd]. rewrite I2.
  assert (GC : forall c', c' <> c -> get_obj c' (st_objs (upd_obj s1 n2)) = get_obj c' (st_objs s1)).
  { intros c' N. unfold upd_obj. cbn. apply get_put_other. rewrite C2. exact N. }
  split; [|split; [|split]].
  - exists n2. split; [cbn; rewrite <- C2 at 1; apply get_put_same|auto 10].
  - cbn [st_objs set_wills set_clients].
    assert (HC : get_obj c (st_objs s) = None) by (unfold hasobj in HN; destruct (get_obj c (st_objs s)); [discriminate|reflexivity]).
    destruct (client_of s e) as [eo|] eqn:CO.
    + destruct IE as ((UA & UB & _) & CL).
      assert (GE : get_obj (o_conn eo) (st_objs s) = Some eo).
      { unfold client_of in CO. destruct (aget e (st_clients s)) as [ec|]; [|discriminate]. rewrite (get_obj_conn _ _ _ CO). exact CO. }
      assert (NE : o_conn eo <> c) by (intro E; rewrite E in GE; congruence).
      split; [|split].
      * intros c' N1 N2. rewrite (GC c' N1). apply (UA c' N2).
      * destruct (UB eo GE) as (o' & G' & E'). exists o'. split; [rewrite (GC _ NE); exact G'|exact E'].
      * rewrite !closes_app. cbn [closes flat_map app]. rewrite CL. destruct sp; [rewrite closes_resend_nil|]; cbn; rewrite ?app_nil_r; reflexivity.
    + destruct IE as (WS & CL). split.
      * intros c' N1. rewrite (GC c' N1). apply WS.
      * rewrite !closes_app. cbn [closes flat_map app]. rewrite CL. destruct sp; [rewrite closes_resend_nil|]; reflexivity.
  - cbn. rewrite T1. reflexivity.
  - rewrite !wills_of_app, W1. cbn [wills_of flat_map app]. destruct sp; [apply wills_of_resend|reflexivity].
Qed.

(* ---------- summary of one operation ---------- *)
Definition quiet_op (s : state) (o : op) (outs : list out) : Prop :=
  match o with
  | OConnect c _ _ _ _ => success_connack (pkts_to c outs) = None
  | ODisconnect c _ _ _ | ONetClose c _ | OSecondConnect c _ => reading s c = None
  | OTeardown c _ => forall ob, get_obj c (st_objs s) = Some ob -> o_phase ob <> PhHeld
  | OTickWill _ => False
  | _ => True
  end.

Inductive msum (k : caps) (s : state) (o : op) (r : state * list out) : Prop :=
| MS_quiet :
    wsame s (fst r) -> st_wills (fst r) = st_wills s -> wills_of (snd r) = [] ->
    (forall c, In c (closes (snd r)) -> hasobj s c = false) -> quiet_op s o (snd r) -> msum k s o r
| MS_end c now ob normal :
    ((exists rc sei, o = ODisconnect c now rc sei /\ normal = negb (bad_sei ob sei) && (rc =? 0)) \/
     (o = ONetClose c now /\ normal = false) \/ (o = OSecondConnect c now /\ normal = false)) ->
    reading s c = Some ob -> mend s r c now ob normal -> msum k s o r
| MS_teardown c now ob :
    o = OTeardown c now -> get_obj c (st_objs s) = Some ob -> o_phase ob = PhHeld -> mend s r c now ob false -> msum k s o r
| MS_tick now :
    o = OTickWill now -> wcleared s (fst r) ->
    (forall x, In x (st_wills (fst r)) <-> In x (st_wills s) /\ due now x = false) ->
    NoDup (map fst (st_wills (fst r))) ->
    wills_of (snd r) = map (fun e => (d_conn (snd e), d_msg (snd e))) (filter (due now) (st_wills s)) ->
    closes (snd r) = [] -> msum k s o r
| MS_accept c now p e sp :
    o = OConnect c now p true e -> hasobj s c = false -> memN c (st_used s) = false ->
    success_connack (pkts_to c (snd r)) = Some sp -> maccept k s r c now p e -> msum k s o r.

Lemma wsame_set_used s x : wsame s (set_used s x).
Proof. apply wsame_objs. reflexivity. Qed.

Theorem step_msum k s o : inv s -> NoDup (map fst (st_wills s)) -> msum k s o (step k s o).
Proof.
  intros [W X] ND. destruct o; cbn [step].
  - (* OConnect *)
    destruct (memN c (st_used s)) eqn:M.
    { apply MS_quiet; cbn; auto; try apply same_pr_refl. intros x []. }
    assert (HS : hasobj s c = false).
    { destruct (hasobj s c) eqn:H; [|reflexivity]. apply (wf_used s W) in H. congruence. }
    set (s0 := set_used s (c :: st_used s)).
    pose proof (attach_shape k c now p auth_ok effid s0 HS) as A.
    destruct (attach k c now p auth_ok effid s0) as [s' outs] eqn:AT.
    destruct A as [[-> R]|(Ha & Ht & Hv & o1 & sp & l & EO & S1 & _)].
    + apply MS_quiet; cbn [fst snd]; auto.
      * apply wsame_set_used.
      * destruct R as [->|(code & _ & ->)]; reflexivity.
      * intros x I. apply in_closes in I. rewrite (refusal_closes_c c outs x R I). exact HS.
      * cbn. apply refusal_no_success, R.
    + subst auth_ok. apply (MS_accept k s _ (s', outs) c now p effid sp); auto.
      * cbn [snd]. rewrite EO.
        assert (P1 : pkts_to c o1 = []).
        { apply (pkts_to_closed s0); [exact S1|]. unfold openc. unfold hasobj in HS. cbn. destruct (get_obj c (st_objs s)); [discriminate|reflexivity]. }
        rewrite !pkts_to_app, P1, pkts_to_resend_same. cbn. rewrite N.eqb_refl. reflexivity.
      * rewrite <- AT. apply (attach_accept_eff k c now p effid s0 HS Ht Hv).
  - (* OBadFirst *)
    destruct (memN c (st_used s)) eqn:M.
    { apply MS_quiet; cbn; auto; try apply same_pr_refl. intros x []. }
    apply MS_quiet; cbn [fst snd]; auto; [apply wsame_set_used| |exact I].
    intros x [E|[]]. subst x. destruct (hasobj s c) eqn:H; [|reflexivity]. apply (wf_used s W) in H. congruence.
  - (* ODisconnect *)
    destruct (reading s c) as [ob|] eqn:R.
    + apply (MS_end k s _ _ c now ob (negb (bad_sei ob sei) && (rc =? 0))); [left; exists rc, sei; auto|exact R|apply do_disconnect_mend, R].
    + unfold do_disconnect. rewrite R. apply MS_quiet; cbn; auto; try apply same_pr_refl. intros x [].
  - (* ONetClose *)
    destruct (reading s c) as [ob|] eqn:R.
    + apply (MS_end k s _ _ c now ob false); [right; left; auto|exact R|apply do_netclose_mend, R].
    + unfold do_netclose. rewrite R. apply MS_quiet; cbn; auto; try apply same_pr_refl. intros x [].
  - (* OTeardown *)
    unfold do_teardown. destruct (get_obj c (st_objs s)) as [ob|] eqn:G.
    2:{ apply MS_quiet; cbn; auto; try apply same_pr_refl; [intros x []|intros ob GG; congruence]. }
    destruct (o_phase ob) eqn:PH.
    + apply MS_quiet; cbn; auto; try apply same_pr_refl; [intros x []|intros ob' GG; rewrite G in GG; inversion GG; subst; congruence].
    + pose proof (do_teardown_mend k c now s ob G PH) as M. unfold do_teardown in M. rewrite G, PH in M.
      apply (MS_teardown k s _ _ c now ob); auto.
    + apply MS_quiet; cbn; auto; try apply same_pr_refl; [intros x []|intros ob' GG; rewrite G in GG; inversion GG; subst; congruence].
  - (* OTickClients *)
    destruct (tick_clients_quiet k now (st_clients s) s) as (A & B & C & D).
    apply MS_quiet; auto; try exact I. rewrite D. intros x [].
  - (* OTickWill *)
    destruct (tick_will_eff k now (st_wills s) s) as (A & B & C & D).
    apply (MS_tick k s _ _ now); auto; [intro x; rewrite B; apply tick_table, ND|rewrite B; apply nodup_fold_adel, ND].
  - (* OSubscribe *)
    destruct (do_subscribe_quiet c f q s) as (A & B & C & D). apply MS_quiet; auto; try exact I. rewrite D. intros x [].
  - (* OPublish *)
    destruct (do_publish_quiet k c m s) as (A & B & C & D). apply MS_quiet; auto; try exact I. rewrite D. intros x [].
  - (* OSecondConnect *)
    destruct (reading s c) as [ob|] eqn:R.
    + apply (MS_end k s _ _ c now ob false); [right; right; auto|exact R|apply do_second_connect_mend, R].
    + unfold do_second_connect. rewrite R. apply MS_quiet; cbn; auto; try apply same_pr_refl. intros x [].
Qed.

(* =====================================================================================
   Part 2: the history functions of the known-finding predicates, and running a monitor with the
   history so far *)
Lemma params_of_app c h r : params_of c (h ++ r) = match params_of c h with Some p => Some p | None => params_of c r end.
Proof.
  induction h as [|b t IH]; cbn [app params_of]; [reflexivity|].
  destruct (b_op b); try exact IH. destruct (c0 =? c); [reflexivity|exact IH].
Qed.

Lemma view_of_app k c h r : forall cur, view_of k c cur (h ++ r) = view_of k c (view_of k c cur h) r.
Proof. induction h as [|b t IH]; intro cur; cbn [app view_of]; [reflexivity|apply IH]. Qed.

Lemma tol_app c h r : taken_over_live c (h ++ r) = taken_over_live c h || taken_over_live c r.
Proof. induction h as [|b t IH]; cbn [app taken_over_live]; [reflexivity|]. rewrite IH, orb_assoc. reflexivity. Qed.

Lemma upto_app (h0 : list obs) b r : upto (length h0) (h0 ++ b :: r) = h0 ++ [b].
Proof. unfold upto. induction h0 as [|a t IH]; cbn; [reflexivity|]. f_equal. exact IH. Qed.

Lemma nth_obs_app (h0 : list obs) b r : nth_obs (length h0) (h0 ++ b :: r) = Some b.
Proof. induction h0 as [|a t IH]; cbn; [reflexivity|exact IH]. Qed.

(* protocol sanity of an operation: only an MQTT 5 CONNECT carries a will delay, only an MQTT 5
   connection sends a DISCONNECT with properties (the decoder cannot produce anything else) *)
Definition sane_op (s : state) (o : op) : Prop :=
  match o with
  | OConnect _ _ p _ _ => cp_ver p <> 5 -> cp_willdelay p = 0
  | ODisconnect c _ _ (Some _) => forall ob, reading s c = Some ob -> o_ver ob = 5
  | _ => True
  end.

Fixpoint sane_ops (k : caps) (s : state) (ops : list op) : Prop :=
  match ops with
  | [] => True
  | o :: r => sane_op s o /\ sane_ops k (fst (step k s o)) r
  end.

Lemma run_mon_hist {M} k (stepf : nat -> M -> obs -> M * list viol) (Good : list obs -> viol -> Prop)
    (Inv : M -> state -> list obs -> Prop) :
  (forall m s h0 o, Inv m s h0 -> sane_op s o ->
     Inv (fst (stepf (length h0) m (obs_of (tstep_of k s o)))) (fst (step k s o)) (h0 ++ [obs_of (tstep_of k s o)]) /\
     Forall (fun v => forall r, Good (h0 ++ obs_of (tstep_of k s o) :: r) v) (snd (stepf (length h0) m (obs_of (tstep_of k s o))))) ->
  forall ops m s h0, Inv m s h0 -> sane_ops k s ops ->
    Forall (Good (h0 ++ map obs_of (trace k s ops))) (run_mon stepf (length h0) m (map obs_of (trace k s ops))).
Proof.
  intros H ops. induction ops as [|o r IH]; intros m s h0 I S; [constructor|].
  rewrite trace_cons. cbn [map run_mon]. destruct S as [S1 S2].
  destruct (H m s h0 o I S1) as [I' F].
  destruct (stepf (length h0) m (obs_of (tstep_of k s o))) as [m' v]. cbn [fst snd] in *.
  apply Forall_app. split.
  - eapply Forall_impl; [|exact F]. intros a HA. apply HA.
  - specialize (IH m' (fst (step k s o)) (h0 ++ [obs_of (tstep_of k s o)]) I' S2).
    rewrite app_length in IH. cbn [length] in IH. rewrite Nat.add_1_r in IH. rewrite <- app_assoc in IH. exact IH.
Qed.

(* ---------- the delayed-will table stays well formed ---------- *)
Lemma wk_obj_back s s' c o' : option_map wk (get_obj c (st_objs s')) = option_map wk (get_obj c (st_objs s)) ->
  get_obj c (st_objs s') = Some o' -> exists o, get_obj c (st_objs s) = Some o /\ wk o' = wk o.
Proof. intros H G. rewrite G in H. destruct (get_obj c (st_objs s)) as [o|]; [|discriminate]. exists o. split; [reflexivity|]. cbn in H. congruence. Qed.
Lemma wk_obj_fwd s s' c o : option_map wk (get_obj c (st_objs s')) = option_map wk (get_obj c (st_objs s)) ->
  get_obj c (st_objs s) = Some o -> exists o', get_obj c (st_objs s') = Some o' /\ wk o' = wk o.
Proof. intros H G. rewrite G in H. destruct (get_obj c (st_objs s')) as [o'|]; [|discriminate]. exists o'. split; [reflexivity|]. cbn in H. congruence. Qed.

Lemma wcleared_fwd s s' c o : wcleared s s' -> get_obj c (st_objs s) = Some o ->
  exists o', get_obj c (st_objs s') = Some o' /\ wkn o' = wkn o /\ (o_will o' = o_will o \/ o_will o' = no_will).
Proof. intros H G. specialize (H c). rewrite G in H. destruct (get_obj c (st_objs s')) as [o'|]; [|destruct H]. exists o'. tauto. Qed.
Lemma wcleared_back s s' c o' : wcleared s s' -> get_obj c (st_objs s') = Some o' ->
  exists o, get_obj c (st_objs s) = Some o /\ wkn o' = wkn o /\ (o_will o' = o_will o \/ o_will o' = no_will).
Proof. intros H G. specialize (H c). rewrite G in H. destruct (get_obj c (st_objs s)) as [o|]; [|destruct H]. exists o. tauto. Qed.

Lemma wkn_fields a b : wkn a = wkn b -> o_id a = o_id b /\ o_ver a = o_ver b /\ o_sei a = o_sei b /\ o_open a = o_open b /\ o_phase a = o_phase b.
Proof. unfold wkn. intro H. inversion H. auto 10. Qed.

Lemma client_of_reg s e eo : wf s -> client_of s e = Some eo ->
  aget e (st_clients s) = Some (o_conn eo) /\ get_obj (o_conn eo) (st_objs s) = Some eo /\ o_id eo = e.
Proof.
  intros W CO. unfold client_of in CO. destruct (aget e (st_clients s)) as [ec|] eqn:A; [|discriminate].
  rewrite (get_obj_conn _ _ _ CO). split; [reflexivity|]. split; [exact CO|].
  destruct (wf_reg s W e ec A) as (o & G & Ix & _). rewrite G in CO. congruence.
Qed.

Theorem step_wwf k s o : inv s -> wwf s -> wwf (fst (step k s o)).
Proof.
  intros V [ND WD]. pose proof (step_msum k s o V ND) as MS. destruct (step k s o) as [s' outs]. cbn [fst].
  destruct V as [W X].
  destruct MS as [WS TW _ _ _|c now ob normal _ R (OT & (o' & G' & I' & _ & _ & P' & _) & T & _)|c now ob _ G PH (OT & (o' & G' & I' & _ & _ & P' & _) & T & _)
                 |now _ WC TI TN _ _|c now p e sp _ HS _ _ (_ & MA & T & _)]; cbn [fst snd] in *.
  - split; [rewrite TW; exact ND|]. intros id d I. rewrite TW in I. destruct (WD id d I) as (ox & Gx & Ix & Px).
    destruct (wk_obj_fwd s s' _ ox (WS _) Gx) as (ox' & Gx' & E). destruct (wk_fields _ _ E) as (A & _ & _ & _ & B & _).
    exists ox'. split; [exact Gx'|split; congruence].
  - destruct (reading_obj s c ob R) as [G _].
    assert (OLD : forall id d, In (id, d) (st_wills s) -> exists ox, get_obj (d_conn d) (st_objs s') = Some ox /\ o_id ox = id /\ o_phase ox = PhDone).
    { intros id d I. destruct (WD id d I) as (ox & Gx & Ix & Px). destruct (N.eq_dec (d_conn d) c) as [E|NE].
      - rewrite E in *. rewrite G in Gx. inversion Gx; subst ox. exists o'. split; [exact G'|split; [congruence|exact P']].
      - destruct (wk_obj_fwd s s' _ ox (OT _ NE) Gx) as (ox' & Gx' & EE). destruct (wk_fields _ _ EE) as (A & _ & _ & _ & B & _).
        exists ox'. split; [exact Gx'|split; congruence]. }
    destruct normal; [|destruct (reg_now ob)]; (split; [rewrite T|intros id d I; rewrite T in I]).
    + apply nodup_adel, ND.
    + apply in_adel in I. apply OLD, I.
    + apply nodup_aset, ND.
    + unfold aset in I. apply in_app_or in I. destruct I as [I|[I|[]]].
      * apply in_adel in I. apply OLD, I.
      * inversion I; subst id d. cbn [d_conn entry_of]. exists o'. split; [exact G'|split; [exact I'|exact P']].
    + exact ND.
    + apply OLD, I.
  - assert (OLD : forall id d, In (id, d) (st_wills s) -> exists ox, get_obj (d_conn d) (st_objs s') = Some ox /\ o_id ox = id /\ o_phase ox = PhDone).
    { intros id d I. destruct (WD id d I) as (ox & Gx & Ix & Px). destruct (N.eq_dec (d_conn d) c) as [E|NE].
      - rewrite E in *. rewrite G in Gx. inversion Gx; subst ox. exists o'. split; [exact G'|split; [congruence|exact P']].
      - destruct (wk_obj_fwd s s' _ ox (OT _ NE) Gx) as (ox' & Gx' & EE). destruct (wk_fields _ _ EE) as (A & _ & _ & _ & B & _).
        exists ox'. split; [exact Gx'|split; congruence]. }
    destruct (reg_now ob); (split; [rewrite T|intros id d I; rewrite T in I]).
    + apply nodup_aset, ND.
    + unfold aset in I. apply in_app_or in I. destruct I as [I|[I|[]]].
      * apply in_adel in I. apply OLD, I.
      * inversion I; subst id d. cbn [d_conn entry_of]. exists o'. split; [exact G'|split; [exact I'|exact P']].
    + exact ND.
    + apply OLD, I.
  - split; [exact TN|]. intros id d I. apply TI in I. destruct I as [I _]. destruct (WD id d I) as (ox & Gx & Ix & Px).
    destruct (wcleared_fwd s s' _ ox WC Gx) as (ox' & Gx' & E & _). destruct (wkn_fields _ _ E) as (A & _ & _ & _ & B).
    exists ox'. split; [exact Gx'|split; congruence].
  - split; [rewrite T; apply nodup_adel, ND|]. intros id d I. rewrite T in I. apply in_adel in I. destruct I as [I NE]. cbn [fst] in NE.
    destruct (WD id d I) as (ox & Gx & Ix & Px).
    assert (NC : d_conn d <> c) by (intro E; rewrite E in Gx; unfold hasobj in HS; rewrite Gx in HS; discriminate).
    destruct (client_of s e) as [eo|] eqn:CO.
    + destruct MA as (OT & _ & _). destruct (client_of_reg s e eo W CO) as (_ & GE & IE).
      assert (NE2 : d_conn d <> o_conn eo) by (intro E; rewrite E in Gx; rewrite GE in Gx; inversion Gx; subst ox; congruence).
      destruct (wk_obj_fwd s s' _ ox (OT _ NC NE2) Gx) as (ox' & Gx' & EE). destruct (wk_fields _ _ EE) as (A & _ & _ & _ & B & _).
      exists ox'. split; [exact Gx'|split; congruence].
    + destruct MA as (OT & _). destruct (wk_obj_fwd s s' _ ox (OT _ NC) Gx) as (ox' & Gx' & EE). destruct (wk_fields _ _ EE) as (A & _ & _ & _ & B & _).
      exists ox'. split; [exact Gx'|split; congruence].
Qed.

(* =====================================================================================
   Part 3: the coupling invariant between the specification's view (the statuses of mon16) and the
   state of the model *)
Definition srcE (s : state) (c : N) : Prop := exists id d, In (id, d) (st_wills s) /\ d_conn d = c.

Definition req0 (k : caps) (p : cparams) : N := if cp_seiflag p then capN k (cp_sei p) else 0.
Definition delay0 (p : cparams) : N := if cp_ver p =? 5 then cp_willdelay p else 0.

Definition status_ok (k : caps) (s : state) (h0 : list obs) (p : cparams) (o : cobj) (x : sconn) : Prop :=
  let c := x_conn x in
  match x_wst x with
  | WNone => w_flag (o_will o) = false /\ ~ srcE s c
  | WArmed => x_open x = true
  | WMust => o_phase o = PhHeld /\ taken_over_live c h0 = true
  | WCancelled => (is_armed o \/ srcE s c) -> taken_over_live c h0 = true /\ (is_armed o -> 0 < w_delay (o_will o))
  | WPending t due => o_phase o = PhDone /\ due = (t + Z.of_N (minN (x_delay x) (eff k x)))%Z /\
                      (forall id d, In (id, d) (st_wills s) -> d_conn d = c -> d_due d = (t + Z.of_N (stored_delay p))%Z)
  | WPublished | WNormal => o_phase o = PhDone /\ ~ srcE s c
  | WFailed => o_phase o = PhDone /\ (srcE s c -> taken_over_live c h0 = true \/ (eff k x <? stored_delay p) = true)
  end.

Record pcr (k : caps) (s : state) (h0 : list obs) (x : sconn) (o : cobj) (p : cparams) : Prop := {
  pc_get : get_obj (x_conn x) (st_objs s) = Some o;
  pc_par : params_of (x_conn x) h0 = Some p;
  pc_id : x_id x = o_id o;
  pc_ver : x_ver x = cp_ver p;
  pc_over : o_ver o = cp_ver p;
  pc_clean : x_clean x = cp_clean p;
  pc_will : x_will x = will_of p;
  pc_delay : x_delay x = delay0 p;
  pc_open : x_open x = o_open o;
  pc_live : x_open x = true -> x_req x = req0 k p /\ o_sei o = req0 k p /\ (x_wst x = WNone \/ x_wst x = WArmed);
  pc_flag : w_flag (o_will o) = true -> cp_willflag p = true /\ will_msg (o_will o) = will_of p /\ w_delay (o_will o) = stored_delay p;
  pc_ent : forall id d, In (id, d) (st_wills s) -> d_conn d = x_conn x -> cp_willflag p = true /\ d_msg d = will_of p /\ 0 < stored_delay p;
  pc_view : exists xv, view_of k (x_conn x) None h0 = Some xv /\ x_ver xv = x_ver x /\ x_clean xv = x_clean x /\
                       x_req xv = x_req x /\ x_delay xv = x_delay x /\ x_id xv = x_id x;
  pc_sane : cp_ver p <> 5 -> cp_willdelay p = 0;
  pc_st : status_ok k s h0 p o x }.

Definition pc (k : caps) (s : state) (h0 : list obs) (x : sconn) : Prop := exists o p, pcr k s h0 x o p.

Record KI (k : caps) (m : m16) (s : state) (h0 : list obs) : Prop := {
  ki_inv : inv s;
  ki_wwf : wwf s;
  ki_nd : NoDup (map x_conn (d_conns m));
  ki_x : forall c x, find_x c (d_conns m) = Some x -> pc k s h0 x;
  ki_o : forall c o, get_obj c (st_objs s) = Some o -> exists x, find_x c (d_conns m) = Some x;
  ki_fresh : forall c, memN c (st_used s) = false -> params_of c h0 = None /\ view_of k c None h0 = None }.

Lemma KI_init k : KI k {| d_conns := [] |} init [].
Proof.
  split; [apply inv_init|apply wwf_init|constructor|intros c x F; discriminate F|intros c o G; discriminate G|intros; split; reflexivity].
Qed.

(* ---------- explanations of violations ---------- *)
Definition uncovered (t : N) : bool := (t =? V16_missing) || (t =? V16_missing_takeover) || (t =? V16_late) || (t =? V16_retain).

Definition expl (k : caps) (hp : list obs) (b : obs) (v : viol) : Prop :=
  uncovered (v_tag v) = true \/
  ((v_tag v = V16_cancelled \/ v_tag v = V16_once) /\ late_registrant (v_conn v) hp = true) \/
  (v_tag v = V16_once /\ exists p xv, params_of (v_conn v) hp = Some p /\ view_of k (v_conn v) None hp = Some xv /\
                                      cp_willflag p = true /\ (eff k xv <? stored_delay p) = true) \/
  (v_tag v = V16_early /\ exists p xv, params_of (v_conn v) hp = Some p /\ view_of k (v_conn v) None hp = Some xv /\
                                       cp_willflag p = true /\ (stored_delay p <? minN (x_delay xv) (eff k xv)) = true) \/
  (v_tag v = V16_lost_clean /\ exists c t p a id, b_op b = OConnect c t p a id /\ cp_clean p = true).

Definition good (k : caps) (h : list obs) (v : viol) : Prop := uncovered (v_tag v) = true \/ kf_of k h v <> None.

Lemma expl_good k h b v : expl k (upto (v_step v) h) b v -> nth_obs (v_step v) h = Some b -> good k h v.
Proof.
  intros E NB. destruct E as [U|[[T L]|[(T & p & xv & P & VW & WF & LT)|[(T & p & xv & P & VW & WF & LT)|(T & c & t & p & a & id & OP & CL)]]]].
  - left. exact U.
  - right. unfold kf_of. assert (K : KF_C16_takeover_delayed k h v = true).
    { unfold KF_C16_takeover_delayed. rewrite L. destruct T as [-> | ->]; cbn; reflexivity. }
    rewrite K. discriminate.
  - right. unfold kf_of. destruct (KF_C16_takeover_delayed k h v); [discriminate|].
    assert (K : KF_C16_delay_uncapped k h v = true).
    { unfold KF_C16_delay_uncapped. rewrite P, VW, WF, LT, T. reflexivity. }
    rewrite K. discriminate.
  - right. unfold kf_of. destruct (KF_C16_takeover_delayed k h v); [discriminate|]. destruct (KF_C16_delay_uncapped k h v); [discriminate|].
    assert (K : KF_C16_delay_fixed_at_connect k h v = true).
    { unfold KF_C16_delay_fixed_at_connect. rewrite P, VW, WF, LT, T. reflexivity. }
    rewrite K. discriminate.
  - right. unfold kf_of. destruct (KF_C16_takeover_delayed k h v); [discriminate|]. destruct (KF_C16_delay_uncapped k h v); [discriminate|].
    destruct (KF_C16_delay_fixed_at_connect k h v); [discriminate|].
    assert (K : KF_C16_clean_reconnect k h v = true).
    { unfold KF_C16_clean_reconnect. rewrite NB, OP, CL, T. reflexivity. }
    rewrite K. discriminate.
Qed.

(* ---------- lists of specification entries keyed by connection ---------- *)
Lemma find_some_in c l x : find_x c l = Some x -> In x l.
Proof.
  induction l as [|y r IH]; cbn; [discriminate|]. destruct (x_conn y =? c); [intro H; inversion H; left; reflexivity|intro H; right; apply IH, H].
Qed.

Lemma find_none_keys c l : find_x c l = None <-> ~ In c (map x_conn l).
Proof.
  induction l as [|y r IH]; cbn; [tauto|]. destruct (x_conn y =? c) eqn:E.
  - apply N.eqb_eq in E. split; [discriminate|intro H; exfalso; apply H; left; exact E].
  - apply N.eqb_neq in E. rewrite IH. tauto.
Qed.

Lemma find_in c l x : NoDup (map x_conn l) -> In x l -> x_conn x = c -> find_x c l = Some x.
Proof.
  induction l as [|y r IH]; cbn; [intros _ []|]. intros ND I E. inversion ND as [|? ? NI ND']; subst.
  destruct I as [->|I]; [rewrite N.eqb_refl; reflexivity|].
  destruct (x_conn y =? x_conn x) eqn:EE; [apply N.eqb_eq in EE; exfalso; apply NI; rewrite EE; apply in_map, I|apply IH; auto].
Qed.

Lemma put_keys_same x l y : find_x (x_conn x) l = Some y -> map x_conn (put_x x l) = map x_conn l.
Proof.
  induction l as [|z r IH]; cbn; [discriminate|]. destruct (x_conn z =? x_conn x) eqn:E; cbn.
  - intros _. apply N.eqb_eq in E. congruence.
  - intro F. rewrite (IH F). reflexivity.
Qed.

Lemma put_keys_new x l : find_x (x_conn x) l = None -> map x_conn (put_x x l) = map x_conn l ++ [x_conn x].
Proof.
  induction l as [|z r IH]; cbn; [reflexivity|]. destruct (x_conn z =? x_conn x) eqn:E; cbn; [discriminate|].
  intro F. rewrite (IH F). reflexivity.
Qed.

Lemma nodup_put x l : NoDup (map x_conn l) -> NoDup (map x_conn (put_x x l)).
Proof.
  intro ND. destruct (find_x (x_conn x) l) as [y|] eqn:F.
  - rewrite (put_keys_same x l y F). exact ND.
  - rewrite (put_keys_new x l F). apply nodup_snoc; [exact ND|apply find_none_keys, F].
Qed.

Lemma map_keys (f : sconn -> sconn) l : (forall x, x_conn (f x) = x_conn x) -> map x_conn (map f l) = map x_conn l.
Proof. intro H. rewrite map_map. apply map_ext. exact H. Qed.

Lemma find_put c x l : find_x c (put_x x l) = if x_conn x =? c then Some x else find_x c l.
Proof.
  destruct (x_conn x =? c) eqn:E.
  - apply N.eqb_eq in E. subst c. apply find_put_same.
  - apply N.eqb_neq in E. apply find_put_other. congruence.
Qed.

(* ---------- the publications of a step ---------- *)
Definition vstat (i : nat) (b : obs) (x : sconn) (c : N) : list viol :=
  match x_wst x with
  | WPublished | WFailed => [mkv V16_once i c (x_id x)]
  | WNormal => [mkv V16_after_normal i c (x_id x)]
  | WCancelled => [mkv V16_cancelled i c (x_id x)]
  | WNone => [mkv V16_unexpected i c (x_id x)]
  | WArmed => [mkv V16_unexpected i c (x_id x)]
  | WMust => []
  | WPending _ due =>
      match op_now (b_op b) with
      | Some now => if (due <=? now)%Z then [] else [mkv V16_early i c (x_id x)]
      | None => [mkv V16_unexpected i c (x_id x)]
      end
  end.
Definition vcont (i : nat) (x : sconn) (c : N) (mm : msg) : list viol :=
  if beq_msg mm (x_will x) then [] else [mkv V16_content i c (x_id x)].
Definition vret (k : caps) (i : nat) (b : obs) (x : sconn) (c : N) (mm : msg) (r : list (N * msg)) : list viol :=
  if m_retain mm && k_retain k && negb (existsb (fun w => beq_bytes (m_topic (snd w)) (m_topic mm) && m_retain (snd w)) r) then
    match aget (m_topic mm) (sn_retained (b_post b)) with
    | Some pl => if beq_bytes pl (m_payload mm) then [] else [mkv V16_retain i c (x_id x)]
    | None => match m_payload mm with [] => [] | _ => [mkv V16_retain i c (x_id x)] end
    end
  else [].

Lemma m16_pubs_none k i b conns c mm r : find_x c conns = None ->
  m16_pubs k i b conns ((c, mm) :: r) = (fst (m16_pubs k i b conns r), mkv V16_unexpected i c [] :: snd (m16_pubs k i b conns r)).
Proof. intro F. cbn [m16_pubs]. rewrite F. destruct (m16_pubs k i b conns r); reflexivity. Qed.

Lemma m16_pubs_some k i b conns c mm r x : find_x c conns = Some x ->
  m16_pubs k i b conns ((c, mm) :: r) =
  (fst (m16_pubs k i b (put_x (set_wst x WPublished) conns) r),
   vstat i b x c ++ vcont i x c mm ++ vret k i b x c mm r ++ snd (m16_pubs k i b (put_x (set_wst x WPublished) conns) r)).
Proof. intro F. cbn [m16_pubs]. rewrite F. cbv zeta. destruct (m16_pubs k i b (put_x (set_wst x WPublished) conns) r); reflexivity. Qed.

Lemma vret_tag k i b x c mm r : Forall (fun v => v = mkv V16_retain i c (x_id x)) (vret k i b x c mm r).
Proof.
  unfold vret. destruct (_ && _); [|constructor]. destruct (aget _ _); [destruct (beq_bytes _ _); repeat constructor|].
  destruct (m_payload mm); repeat constructor.
Qed.

Lemma m16_pubs_ok k i b (Q : viol -> Prop) :
  (forall c id, Q (mkv V16_retain i c id)) ->
  forall ws conns, NoDup (map fst ws) ->
   (forall c mm, In (c, mm) ws -> match find_x c conns with
        | None => Q (mkv V16_unexpected i c [])
        | Some x => Forall Q (vstat i b x c) /\ Forall Q (vcont i x c mm) end) ->
   Forall Q (snd (m16_pubs k i b conns ws)) /\
   (forall c, find_x c (fst (m16_pubs k i b conns ws)) =
              match find_x c conns with Some x => Some (if memN c (map fst ws) then set_wst x WPublished else x) | None => None end) /\
   map x_conn (fst (m16_pubs k i b conns ws)) = map x_conn conns.
Proof.
  intro QR. induction ws as [|[c mm] r IH]; intros conns ND H.
  - cbn [m16_pubs fst snd map]. split; [constructor|]. split; [|reflexivity]. intro c. destruct (find_x c conns); reflexivity.
  - inversion ND as [|? ? NI ND']; subst. pose proof (H c mm (or_introl eq_refl)) as HC.
    destruct (find_x c conns) as [x|] eqn:F.
    + rewrite (m16_pubs_some k i b conns c mm r x F). cbn [fst snd].
      assert (XC : x_conn (set_wst x WPublished) = c) by (cbn; apply (find_x_conn _ _ _ F)).
      destruct (IH (put_x (set_wst x WPublished) conns) ND') as (A & B & C).
      { intros c2 mm2 I2. assert (NE : c2 <> c) by (intro E; subst c2; apply NI; apply (in_map fst) in I2; exact I2).
        rewrite find_put, XC. destruct (c =? c2) eqn:E; [apply N.eqb_eq in E; congruence|]. apply (H c2 mm2). right. exact I2. }
      split; [|split].
      * destruct HC as [HS HT]. apply Forall_app. split; [exact HS|]. apply Forall_app. split; [exact HT|]. apply Forall_app. split; [|exact A].
        eapply Forall_impl; [|apply vret_tag]. intros v T. rewrite T. apply QR.
      * intro c2. rewrite B, find_put, XC. cbn [map fst]. rewrite used_cons_l. destruct (c =? c2) eqn:E.
        -- apply N.eqb_eq in E. subst c2. rewrite F, N.eqb_refl. cbn [orb].
           assert (M : memN c (map fst r) = false) by (destruct (memN c (map fst r)) eqn:M; [apply memN_true in M; contradiction|reflexivity]).
           rewrite M. reflexivity.
        -- rewrite N.eqb_sym, E. cbn [orb]. reflexivity.
      * rewrite C. apply (put_keys_same _ conns x). rewrite XC. exact F.
    + rewrite (m16_pubs_none k i b conns c mm r F). cbn [fst snd].
      destruct (IH conns ND') as (A & B & C).
      { intros c2 mm2 I2. apply (H c2 mm2). right. exact I2. }
      split; [constructor; [exact HC|exact A]|]. split; [|exact C].
      intro c2. rewrite B. cbn [map fst]. rewrite used_cons_l. destruct (find_x c2 conns) as [y|] eqn:F2; [|reflexivity].
      destruct (c2 =? c) eqn:E; [apply N.eqb_eq in E; congruence|]. reflexivity.
Qed.

(* ---------- a connection that the step does not concern ---------- *)
Lemma is_armed_back o o' : wkn o' = wkn o -> (o_will o' = o_will o \/ w_flag (o_will o') = false) -> is_armed o' -> is_armed o /\ o_will o' = o_will o.
Proof.
  intros K W [F P]. destruct W as [W|W]; [|congruence]. destruct (wkn_fields _ _ K) as (_ & _ & _ & _ & PH).
  split; [split; congruence|exact W].
Qed.

Lemma tol_mono c h r : taken_over_live c h = true -> taken_over_live c (h ++ r) = true.
Proof. intro H. rewrite tol_app, H. reflexivity. Qed.

Lemma pc_frame k s s' h0 b x o p :
  pcr k s h0 x o p ->
  (exists o', get_obj (x_conn x) (st_objs s') = Some o' /\ wkn o' = wkn o /\ (o_will o' = o_will o \/ w_flag (o_will o') = false)) ->
  (forall id d, In (id, d) (st_wills s') -> d_conn d = x_conn x -> In (id, d) (st_wills s)) ->
  (forall xv, view_of k (x_conn x) None h0 = Some xv -> view_step k (x_conn x) (Some xv) b = Some xv) ->
  pc k s' (h0 ++ [b]) x.
Proof.
  intros [G PA I V OV CL WI DL OP LV FL EN (xv & VW & VX) SN ST] (o' & G' & K & WW) SUB VS.
  destruct (wkn_fields _ _ K) as (KI1 & KV & KS & KO & KP).
  assert (SE : srcE s' (x_conn x) -> srcE s (x_conn x)).
  { intros (id & d & II & DC). exists id, d. split; [apply SUB; assumption|exact DC]. }
  exists o', p. split; try congruence; try assumption.
  - rewrite params_of_app, PA. reflexivity.
  - intro XO. destruct (LV XO) as (A & B & C). split; [exact A|split; [congruence|exact C]].
  - intro F'. destruct WW as [WW|WW]; [|congruence]. rewrite WW in *. apply FL, F'.
  - intros id d II DC. apply (EN id d); [apply SUB; assumption|exact DC].
  - exists xv. split; [|exact VX]. rewrite view_of_app, VW. cbn [view_of]. apply VS, VW.
  - unfold status_ok in *. destruct (x_wst x).
    + destruct ST as [A B]. split; [destruct WW as [WW|WW]; congruence|intro H; apply B, SE, H].
    + exact ST.
    + destruct ST as [A B]. split; [congruence|apply tol_mono, B].
    + destruct ST as (A & B & C). split; [congruence|]. split; [exact B|]. intros id d II DC. apply (C id d); [apply SUB; assumption|exact DC].
    + destruct ST as [A B]. split; [congruence|intro H; apply B, SE, H].
    + destruct ST as [A B]. split; [congruence|intro H; apply B, SE, H].
    + intros [AR|SR].
      * destruct (is_armed_back o o' K WW AR) as [AR0 EW]. destruct (ST (or_introl AR0)) as [T D]. split; [apply tol_mono, T|]. intros _. rewrite EW. apply D, AR0.
      * destruct (ST (or_intror (SE SR))) as [T D]. split; [apply tol_mono, T|]. intro AR. destruct (is_armed_back o o' K WW AR) as [AR0 EW]. rewrite EW. apply D, AR0.
    + destruct ST as [A B]. split; [congruence|]. intro H. destruct (B (SE H)) as [T|U]; [left; apply tol_mono, T|right; exact U].
Qed.

Lemma wk_wkn a b : wk a = wk b -> wkn a = wkn b /\ o_will a = o_will b.
Proof. intro H. destruct (wk_fields _ _ H) as (A & B & C & D & E & F). split; [unfold wkn; congruence|exact F]. Qed.

(* ---------- helpers for the step proof ---------- *)
Lemma pc_reading k s h0 x o p : wf s -> pcr k s h0 x o p -> x_open x = true -> reading s (x_conn x) = Some o.
Proof.
  intros W P XO. pose proof (pc_get _ _ _ _ _ _ P) as G. pose proof (pc_open _ _ _ _ _ _ P) as OP. rewrite XO in OP. symmetry in OP.
  destruct (wf_open s W _ o G OP) as (_ & PH & _). unfold reading. rewrite G, PH, OP. reflexivity.
Qed.

Lemma live_in_reading s c ob : wf s -> reading s c = Some ob -> live_in c (o_id ob) (snap_of s) = true.
Proof.
  intros W R. destruct (reading_wf s c ob W R) as (G & OO & A). unfold live_in. rewrite (find_client_snap s _ W), A, G. cbn.
  rewrite (get_obj_conn _ _ _ G), N.eqb_refl, OO. reflexivity.
Qed.

Lemma live_in_open s c id : wf s -> live_in c id (snap_of s) = true -> exists ob, reading s c = Some ob /\ o_id ob = id /\ aget id (st_clients s) = Some c.
Proof.
  intros W L. unfold live_in in L. rewrite (find_client_snap s _ W) in L.
  destruct (aget id (st_clients s)) as [c'|] eqn:A; [|discriminate]. destruct (wf_reg s W id c' A) as (o & G & I & _). rewrite G in L. cbn in L.
  apply andb_true_iff in L. destruct L as [E OO]. apply N.eqb_eq in E. rewrite (get_obj_conn _ _ _ G) in E. subst c'.
  destruct (wf_open s W c o G OO) as (_ & PH & _). exists o. split; [unfold reading; rewrite G, PH, OO; reflexivity|auto].
Qed.

Lemma step_used_mono k s o c : wf s -> memN c (st_used s) = true -> memN c (st_used (fst (step k s o))) = true.
Proof.
  intros W M. pose proof (step_shape k s o (wf_used s W)) as SH. destruct (step k s o) as [s' outs]. cbn [fst].
  destruct SH as (_ & (U & _) & _). apply U, M.
Qed.

Lemma step_used_new k s o c :
  wf s -> (match o with OConnect c' _ _ _ _ | OBadFirst c' _ => c' = c | _ => False end) -> memN c (st_used (fst (step k s o))) = true.
Proof.
  intros W H. destruct (memN c (st_used s)) eqn:M; [apply step_used_mono; assumption|].
  assert (NEW : is_new_conn s o = Some c) by (destruct o; try destruct H; subst; cbn; rewrite M; reflexivity).
  pose proof (step_shape k s o (wf_used s W)) as SH. destruct (step k s o) as [s' outs]. rewrite NEW in SH. cbn [fst].
  destruct SH as (_ & _ & U & _). rewrite U, used_cons_l, N.eqb_refl. reflexivity.
Qed.

(* connections that have not been used yet do not occur in the history *)
Lemma fresh_step k s o h0 :
  wf s -> (forall c, memN c (st_used s) = false -> params_of c h0 = None /\ view_of k c None h0 = None) ->
  forall c, memN c (st_used (fst (step k s o))) = false ->
    params_of c (h0 ++ [obs_of (tstep_of k s o)]) = None /\ view_of k c None (h0 ++ [obs_of (tstep_of k s o)]) = None.
Proof.
  intros W F c M'.
  assert (M : memN c (st_used s) = false).
  { destruct (memN c (st_used s)) eqn:M; [|reflexivity]. rewrite (step_used_mono k s o c W M) in M'. discriminate. }
  destruct (F c M) as [P V]. rewrite params_of_app, P, view_of_app, V. cbn [params_of view_of]. unfold view_step. cbn [obs_of tstep_of b_op t_op].
  destruct o; auto.
  - destruct (c0 =? c) eqn:E; [|auto]. apply N.eqb_eq in E. subst c0.
    rewrite (step_used_new k s (OConnect c now p auth_ok effid) c W eq_refl) in M'. discriminate.
  - destruct (c0 =? c); auto.
Qed.

(* ---------- phases of the monitor step that do nothing ---------- *)
Lemma m16_end_none k i conns b : ends_conn (b_op b) = None -> m16_end k i conns b = (conns, []).
Proof. intro E. unfold m16_end. rewrite E. reflexivity. Qed.

Lemma m16_end_closed k i conns b c t n : ends_conn (b_op b) = Some (c, t, n) ->
  (forall x, find_x c conns = Some x -> x_open x = false) -> m16_end k i conns b = (conns, []).
Proof. intros E H. unfold m16_end. rewrite E. destruct (find_x c conns) as [x|] eqn:F; [rewrite (H x eq_refl)|]; reflexivity. Qed.

Lemma m16_new_none k i conns b :
  match b_op b with OConnect c _ _ _ _ => success_connack (pkts_to c (b_outs b)) = None | _ => True end ->
  m16_new k i conns b = (conns, []).
Proof. intro H. unfold m16_new. destruct (b_op b); try reflexivity. rewrite H. reflexivity. Qed.

Definition f_dead (b : obs) (x : sconn) : sconn :=
  match x_wst x, ends_conn (b_op b) with
  | WMust, Some (c, _, _) => if (c =? x_conn x) && x_open x then set_wst x WFailed else x
  | _, _ => x
  end.

Lemma m16_dead_default i conns b :
  match b_op b with OTeardown _ _ | OTickWill _ => False | _ => True end -> m16_dead i conns b = (map (f_dead b) conns, []).
Proof. intro H. unfold m16_dead, f_dead. destruct (b_op b); try destruct H; reflexivity. Qed.

Lemma f_dead_conn b x : x_conn (f_dead b x) = x_conn x.
Proof. unfold f_dead. destruct (x_wst x); try reflexivity. destruct (ends_conn (b_op b)) as [[[c t] n]|]; [|reflexivity]. destruct (_ && _); reflexivity. Qed.

Lemma m16_mark_conn b x : x_conn (m16_mark b x) = x_conn x.
Proof. unfold m16_mark. destruct (_ && _); reflexivity. Qed.

Lemma f_dead_open k s h0 b x : pc k s h0 x -> x_wst x = WMust -> f_dead b x = x.
Proof.
  intros (o & p & P) ST. unfold f_dead. rewrite ST. destruct (ends_conn (b_op b)) as [[[c t] n]|]; [|reflexivity].
  destruct (x_open x) eqn:XO; [|rewrite andb_false_r; reflexivity].
  destruct (pc_live _ _ _ _ _ _ P XO) as (_ & _ & [E|E]); congruence.
Qed.

Lemma f_dead_id k s h0 b x : pc k s h0 x -> f_dead b x = x.
Proof. intro P. destruct (x_wst x) eqn:ST; try (unfold f_dead; rewrite ST; reflexivity). apply (f_dead_open k s h0 b x P ST). Qed.

Lemma find_map_id (f : sconn -> sconn) c l : (forall x, x_conn (f x) = x_conn x) ->
  (forall x, find_x c l = Some x -> f x = x) -> find_x c (map f l) = find_x c l.
Proof. intros H1 H2. rewrite (find_map f c l H1). destruct (find_x c l) as [x|] eqn:F; [cbn; rewrite (H2 x eq_refl)|]; reflexivity. Qed.

(* ---------- case: an operation that changes nothing will-relevant ---------- *)
Lemma ki_quiet k m s h0 o s' outs b :
  KI k m s h0 -> b_op b = o -> b_outs b = outs -> b_pre b = snap_of s ->
  wsame s s' -> st_wills s' = st_wills s -> wills_of outs = [] ->
  (forall c, In c (closes outs) -> hasobj s c = false) -> quiet_op s o outs ->
  inv s' -> wwf s' ->
  (forall c, memN c (st_used s') = false -> params_of c (h0 ++ [b]) = None /\ view_of k c None (h0 ++ [b]) = None) ->
  KI k (fst (m16_step k (length h0) m b)) s' (h0 ++ [b]) /\ snd (m16_step k (length h0) m b) = [].
Proof.
  intros [V WW ND KX KO KF] BOP BO BPRE WS TW WO CL QO V' WW' KF'.
  destruct V as [W X].
  set (conns := d_conns m) in *.
  (* 1 *)
  assert (E1 : m16_end k (length h0) conns b = (conns, [])).
  { destruct (ends_conn (b_op b)) as [[[c t] n]|] eqn:EC; [|apply m16_end_none, EC].
    apply (m16_end_closed k _ conns b c t n EC). intros x F. destruct (x_open x) eqn:XO; [|reflexivity]. exfalso.
    destruct (KX c x F) as (ox & px & P). pose proof (pc_reading k s h0 x ox px W P XO) as R. rewrite (find_x_conn _ _ _ F) in R.
    rewrite BOP in EC. destruct o; cbn in EC; try discriminate; inversion EC; subst; cbn in QO; congruence. }
  (* 2 *)
  assert (E2 : m16_new k (length h0) conns b = (conns, [])).
  { apply m16_new_none. rewrite BOP, BO. destruct o; auto. }
  (* 4 *)
  assert (E4 : exists conns4, m16_dead (length h0) conns b = (conns4, []) /\ (forall c, find_x c conns4 = find_x c conns) /\
                              map x_conn conns4 = map x_conn conns).
  { destruct (b_op b) eqn:OB.
    5:{ (* OTeardown *) exists conns. split; [|auto]. unfold m16_dead. rewrite OB.
        destruct (find_x c conns) as [x|] eqn:F; [|reflexivity]. destruct (x_wst x) eqn:ST; try reflexivity. exfalso.
        destruct (KX c x F) as (ox & px & P). pose proof (pc_st _ _ _ _ _ _ P) as SO. unfold status_ok in SO. rewrite ST in SO.
        destruct SO as [PH _]. subst o. cbn in QO. pose proof (pc_get _ _ _ _ _ _ P) as G.
        rewrite (find_x_conn _ _ _ F) in G. apply (QO ox G PH). }
    6:{ subst o. destruct QO. }
    all: exists (map (f_dead b) conns); (split; [apply m16_dead_default; rewrite OB; exact I|]);
      (split; [|apply map_keys, f_dead_conn]); intro c0; apply find_map_id; [apply f_dead_conn|];
      intros x F; apply (f_dead_id k s h0 b x (KX c0 x F)). }
  destruct E4 as (conns4 & E4 & F4 & K4).
  assert (M5 : forall c, find_x c (map (m16_mark b) conns4) = find_x c conns).
  { intro c. rewrite <- F4. apply find_map_id; [apply m16_mark_conn|]. intros x F. rewrite F4 in F.
    unfold m16_mark. destruct (x_open x && memN (x_conn x) (closes (b_outs b))) eqn:E; [|reflexivity]. exfalso.
    apply andb_true_iff in E. destruct E as [_ E]. apply memN_true in E. rewrite BO in E. apply CL in E.
    destruct (KX c x F) as (ox & px & P). pose proof (pc_get _ _ _ _ _ _ P) as G. unfold hasobj in E. rewrite G in E. discriminate. }
  unfold m16_step. fold conns. rewrite E1, E2, BO, WO. cbn [m16_pubs]. rewrite E4. cbn [fst snd app]. split; [|reflexivity].
  split; [exact V'|exact WW'| | | |exact KF']; cbn [d_conns].
  - rewrite (map_keys (m16_mark b) conns4 (m16_mark_conn b)), K4. exact ND.
  - intros c x F. rewrite M5 in F. destruct (KX c x F) as (ox & px & P).
    pose proof (pc_get _ _ _ _ _ _ P) as G. destruct (wk_obj_fwd s s' _ ox (WS _) G) as (ox' & G' & E). destruct (wk_wkn _ _ E) as [EK EW].
    apply (pc_frame k s s' h0 b x ox px P).
    + exists ox'. auto.
    + intros id d II _. rewrite TW in II. exact II.
    + intros xv VW. destruct (pc_view _ _ _ _ _ _ P) as (xv' & VW' & _ & _ & _ & _ & XI). rewrite VW in VW'. inversion VW'; subst xv'.
      unfold view_step. rewrite BOP. destruct o; try reflexivity.
      * destruct (c0 =? x_conn x) eqn:EC; [|reflexivity]. apply N.eqb_eq in EC. subst c0. cbn in QO. rewrite BO, QO. reflexivity.
      * destruct (c0 =? x_conn x) eqn:EC; [|reflexivity]. apply N.eqb_eq in EC. subst c0.
        destruct (live_in (x_conn x) (x_id xv) (b_pre b)) eqn:L; [|reflexivity]. exfalso. rewrite BPRE in L.
        destruct (live_in_open s _ _ W L) as (ob & R & _). cbn in QO. congruence.
  - intros c ox' G'. destruct (wk_obj_back s s' _ ox' (WS _) G') as (ox & G & _). destruct (KO c ox G) as (x & F). exists x. rewrite M5. exact F.
Qed.

(* ---------- small facts ---------- *)
Lemma beq_msg_refl a : beq_msg a a = true.
Proof. unfold beq_msg. rewrite !bb_refl, N.eqb_refl, Bool.eqb_reflx. reflexivity. Qed.

Lemma stored_le_delay p : (cp_ver p <> 5 -> cp_willdelay p = 0) -> stored_delay p <= delay0 p.
Proof.
  intro SN. unfold stored_delay, delay0. destruct (cp_ver p =? 5) eqn:V; cbn [negb]; [|lia].
  destruct (cp_seiflag p && (cp_sei p <? cp_willdelay p)) eqn:E; [|lia]. apply andb_true_iff in E. destruct E as [_ E]. lia.
Qed.

Lemma eff_eq k xv x : x_ver xv = x_ver x -> x_clean xv = x_clean x -> x_req xv = x_req x -> eff k xv = eff k x.
Proof. intros A B C. unfold eff. rewrite A, B, C. reflexivity. Qed.

Lemma eff_set_wst k x w : eff k (set_wst x w) = eff k x.
Proof. reflexivity. Qed.

Lemma set_wst_same x : set_wst x (x_wst x) = x.
Proof. destruct x; reflexivity. Qed.

Lemma conn_unique s id1 d1 id2 d2 : wwf s -> In (id1, d1) (st_wills s) -> In (id2, d2) (st_wills s) -> d_conn d1 = d_conn d2 ->
  id1 = id2 /\ d1 = d2.
Proof.
  intros [ND WD] I1 I2 E. destruct (WD id1 d1 I1) as (o1 & G1 & K1 & _). destruct (WD id2 d2 I2) as (o2 & G2 & K2 & _).
  rewrite E in G1. rewrite G1 in G2. assert (EI : id1 = id2) by congruence. split; [exact EI|]. rewrite <- EI in I2.
  pose proof (in_aget_nodup id1 d1 _ ND I1) as A1. pose proof (in_aget_nodup id1 d2 _ ND I2) as A2. congruence.
Qed.

Lemma nodup_map_filter {A B} (f : A -> B) (g : A -> bool) l : NoDup (map f l) -> NoDup (map f (filter g l)).
Proof.
  induction l as [|a r IH]; cbn; [auto|]. intro ND. inversion ND as [|? ? NI ND']; subst. destruct (g a); cbn; [|apply IH, ND'].
  constructor; [|apply IH, ND']. intro I. apply NI. apply in_map_iff in I. destruct I as (y & E & IY). apply filter_In in IY.
  apply in_map_iff. exists y. tauto.
Qed.

Lemma nodup_conns s : wwf s -> NoDup (map (fun e => d_conn (snd e)) (st_wills s)).
Proof.
  intro WW. assert (H : forall l, (forall e, In e l -> In e (st_wills s)) -> NoDup (map fst l) -> NoDup (map (fun e => d_conn (snd e)) l)).
  { induction l as [|[id d] r IH]; cbn; intros SUB ND; [constructor|]. inversion ND as [|? ? NI ND']; subst. constructor.
    - intro I. apply in_map_iff in I. destruct I as ([id2 d2] & E & I2). cbn in E.
      destruct (conn_unique s id2 d2 id d WW (SUB _ (or_intror I2)) (SUB _ (or_introl eq_refl)) E) as [-> ->].
      apply NI. apply (in_map fst) in I2. exact I2.
    - apply IH; [intros e I; apply SUB; right; exact I|exact ND']. }
  apply H; [auto|apply (ww_nodup s WW)].
Qed.

(* a connection whose entry of the view changes only in its status *)
Lemma pc_frame2 k s s' h0 b x o p o' st' :
  pcr k s h0 x o p ->
  get_obj (x_conn x) (st_objs s') = Some o' -> wkn o' = wkn o -> (o_will o' = o_will o \/ w_flag (o_will o') = false) ->
  (forall id d, In (id, d) (st_wills s') -> d_conn d = x_conn x -> In (id, d) (st_wills s)) ->
  (forall xv, view_of k (x_conn x) None h0 = Some xv -> view_step k (x_conn x) (Some xv) b = Some xv) ->
  (x_open x = true -> st' = WNone \/ st' = WArmed) ->
  status_ok k s' (h0 ++ [b]) p o' (set_wst x st') ->
  pc k s' (h0 ++ [b]) (set_wst x st').
Proof.
  intros [G PA I V OV CL WI DL OP LV FL EN (xv & VW & VX) SN ST] G' K WW SUB VS LV' ST'.
  destruct (wkn_fields _ _ K) as (KI1 & KV & KS & KO & KP).
  exists o', p. split; cbn [x_conn x_id x_ver x_clean x_will x_delay x_open x_req x_wst set_wst x_with]; try congruence; try assumption.
  - rewrite params_of_app, PA. reflexivity.
  - intro XO. destruct (LV XO) as (A & B & C). split; [exact A|split; [congruence|apply LV', XO]].
  - intro F'. destruct WW as [WW|WW]; [|congruence]. rewrite WW in *. apply FL, F'.
  - intros id d II DC. apply (EN id d); [apply SUB; assumption|exact DC].
  - exists xv. split; [|exact VX]. rewrite view_of_app, VW. cbn [view_of]. apply VS, VW.
Qed.

(* ---------- case: the delayed-will tick ---------- *)
Lemma params_snoc c h0 b p : params_of c h0 = Some p -> params_of c (h0 ++ [b]) = Some p.
Proof. intro H. rewrite params_of_app, H. reflexivity. Qed.

Lemma late_reg_intro c hp p : taken_over_live c hp = true -> params_of c hp = Some p -> cp_willflag p = true -> 0 < stored_delay p ->
  late_registrant c hp = true.
Proof. intros T P F D. unfold late_registrant. rewrite T, P, F. cbn. apply N.ltb_lt, D. Qed.

Lemma tick_pub_ok k s h0 b now x o p id d :
  wf s -> wwf s -> pcr k s h0 x o p -> b_op b = OTickWill now -> In (id, d) (st_wills s) -> d_conn d = x_conn x -> due now (id, d) = true ->
  Forall (fun v => v_step v = length h0 /\ expl k (h0 ++ [b]) b v) (vstat (length h0) b x (x_conn x)) /\
  vcont (length h0) x (x_conn x) (d_msg d) = [] /\ o_phase o = PhDone /\ x_open x = false.
Proof.
  intros W WW P BOP II DC DU.
  assert (SE : srcE s (x_conn x)) by (exists id, d; auto).
  destruct (ww_done s WW id d II) as (od & Gd & _ & PD). rewrite DC, (pc_get _ _ _ _ _ _ P) in Gd. inversion Gd; subst od. clear Gd.
  destruct (pc_ent _ _ _ _ _ _ P id d II DC) as (WF & DM & SD).
  assert (XC : x_open x = false).
  { destruct (x_open x) eqn:XO; [|reflexivity]. rewrite (pc_open _ _ _ _ _ _ P) in XO.
    destruct (wf_open s W _ o (pc_get _ _ _ _ _ _ P) XO) as (_ & PH & _). congruence. }
  split; [|split; [unfold vcont; rewrite DM, (pc_will _ _ _ _ _ _ P), beq_msg_refl; reflexivity|split; [exact PD|exact XC]]].
  pose proof (pc_st _ _ _ _ _ _ P) as ST. unfold status_ok in ST. unfold vstat.
  pose proof (params_snoc _ h0 b p (pc_par _ _ _ _ _ _ P)) as PAR.
  destruct (pc_view _ _ _ _ _ _ P) as (xv & VW & VV & VC & VR & VD & VI).
  assert (VW' : view_of k (x_conn x) None (h0 ++ [b]) = Some xv).
  { rewrite view_of_app, VW. cbn [view_of]. unfold view_step. rewrite BOP. reflexivity. }
  pose proof (eff_eq k xv x VV VC VR) as EE.
  destruct (x_wst x) as [| | |tend due0| | | |] eqn:XS.
  - destruct ST as [_ NS]. contradiction.
  - rewrite ST in XC. discriminate.
  - constructor.
  - destruct ST as (_ & DUE & ENT). rewrite BOP. cbn [op_now]. destruct (due0 <=? now)%Z eqn:LE; [constructor|].
    constructor; [|constructor]. split; [reflexivity|]. right. right. right. left. split; [reflexivity|]. exists p, xv. cbn [v_conn mkv].
    split; [exact PAR|]. split; [exact VW'|]. split; [exact WF|]. rewrite VD, EE.
    pose proof (ENT id d II DC) as DD. unfold due in DU. cbn [snd] in DU. apply N.ltb_lt. lia.
  - destruct ST as [_ NS]. contradiction.
  - destruct ST as [_ NS]. contradiction.
  - destruct (ST (or_intror SE)) as [T _]. constructor; [|constructor]. split; [reflexivity|]. right. left. split; [left; reflexivity|].
    cbn [v_conn mkv]. apply (late_reg_intro _ _ p); auto. apply tol_mono, T.
  - destruct ST as [_ H]. constructor; [|constructor]. split; [reflexivity|]. destruct (H SE) as [T|U].
    + right. left. split; [right; reflexivity|]. cbn [v_conn mkv]. apply (late_reg_intro _ _ p); auto. apply tol_mono, T.
    + right. right. left. split; [reflexivity|]. exists p, xv. cbn [v_conn mkv]. rewrite EE. auto.
Qed.

Definition g_tick (now : Z) (x : sconn) : sconn :=
  match x_wst x with WPending _ due0 => if (due0 <? now)%Z then set_wst x WFailed else x | _ => x end.

Lemma g_tick_conn now x : x_conn (g_tick now x) = x_conn x.
Proof. unfold g_tick. destruct (x_wst x); try reflexivity. destruct (_ <? _)%Z; reflexivity. Qed.

Lemma g_tick_cases now x : g_tick now x = x \/
  exists t due0, x_wst x = WPending t due0 /\ (due0 <? now)%Z = true /\ g_tick now x = set_wst x WFailed.
Proof.
  unfold g_tick. destruct (x_wst x) as [| | |t due0| | | |] eqn:E; auto. destruct (due0 <? now)%Z eqn:L; [|auto].
  right. exists t, due0. auto.
Qed.

Lemma m16_dead_tick i conns b now : b_op b = OTickWill now ->
  m16_dead i conns b =
  (map (g_tick now) conns,
   flat_map (fun x => match x_wst x with
                      | WPending _ due0 => if (due0 <? now)%Z then [mkv V16_late i (x_conn x) (x_id x)] else []
                      | _ => [] end) conns).
Proof. intro H. unfold m16_dead. rewrite H. reflexivity. Qed.

Lemma mark_nil b x : closes (b_outs b) = [] -> m16_mark b x = x.
Proof.
  intro H. unfold m16_mark. rewrite H. destruct (memN (x_conn x) []) eqn:M; [apply memN_true in M; destruct M|]. rewrite andb_false_r. reflexivity.
Qed.

Lemma closed_of_done k s h0 x o p : wf s -> pcr k s h0 x o p -> o_phase o = PhDone -> x_open x = false.
Proof.
  intros W P PD. destruct (x_open x) eqn:XO; [|reflexivity]. rewrite (pc_open _ _ _ _ _ _ P) in XO.
  destruct (wf_open s W _ o (pc_get _ _ _ _ _ _ P) XO) as (_ & PH & _). congruence.
Qed.

Lemma ki_tick k m s h0 now s' outs b :
  KI k m s h0 -> b_op b = OTickWill now -> b_outs b = outs ->
  wcleared s s' -> (forall x, In x (st_wills s') <-> In x (st_wills s) /\ due now x = false) ->
  wills_of outs = map (fun e => (d_conn (snd e), d_msg (snd e))) (filter (due now) (st_wills s)) -> closes outs = [] ->
  inv s' -> wwf s' ->
  (forall c, memN c (st_used s') = false -> params_of c (h0 ++ [b]) = None /\ view_of k c None (h0 ++ [b]) = None) ->
  KI k (fst (m16_step k (length h0) m b)) s' (h0 ++ [b]) /\
  Forall (fun v => v_step v = length h0 /\ expl k (h0 ++ [b]) b v) (snd (m16_step k (length h0) m b)).
Proof.
  intros [V WW ND KX KO KF] BOP BO WC TI WO CL V' WW' KF'. destruct V as [W X].
  set (conns := d_conns m) in *. set (ws := wills_of (b_outs b)).
  assert (E1 : m16_end k (length h0) conns b = (conns, [])) by (apply m16_end_none; rewrite BOP; reflexivity).
  assert (E2 : m16_new k (length h0) conns b = (conns, [])) by (apply m16_new_none; rewrite BOP; exact I).
  assert (WSE : ws = map (fun e => (d_conn (snd e), d_msg (snd e))) (filter (due now) (st_wills s))) by (subst ws; rewrite BO; exact WO).
  assert (NDW : NoDup (map fst ws)).
  { rewrite WSE, map_map. cbn [fst]. apply nodup_map_filter, nodup_conns, WW. }
  assert (INW : forall c mm, In (c, mm) ws -> exists id d, In (id, d) (st_wills s) /\ due now (id, d) = true /\ d_conn d = c /\ d_msg d = mm).
  { intros c mm II. rewrite WSE in II. apply in_map_iff in II. destruct II as ([id d] & E & II). apply filter_In in II. inversion E. exists id, d. cbn. tauto. }
  destruct (m16_pubs_ok k (length h0) b (fun v => v_step v = length h0 /\ expl k (h0 ++ [b]) b v) (fun c id => conj eq_refl (or_introl eq_refl)) ws conns NDW)
    as (PA & PB & PC).
  { intros c mm II. destruct (INW c mm II) as (id & d & ID & DU & DC & DM).
    destruct (ww_done s WW id d ID) as (od & Gd & _ & _). rewrite DC in Gd. destruct (KO c od Gd) as (x & F). rewrite F.
    destruct (KX c x F) as (ox & px & P). pose proof (find_x_conn _ _ _ F) as XC.
    destruct (tick_pub_ok k s h0 b now x ox px id d W WW P BOP ID (eq_trans DC (eq_sym XC)) DU) as (A & B & _).
    rewrite XC in A, B. rewrite <- DM, B. split; [exact A|constructor]. }
  unfold m16_step. fold conns. fold ws. rewrite E1, E2.
  destruct (m16_pubs k (length h0) b conns ws) as [conns3 v_pub]. cbn [fst snd] in PA, PB, PC.
  rewrite (m16_dead_tick (length h0) conns3 b now BOP). cbn [fst snd app].
  assert (F5 : forall c, find_x c (map (m16_mark b) (map (g_tick now) conns3)) = option_map (g_tick now) (find_x c conns3)).
  { intro c. rewrite (find_map_id (m16_mark b) c _ (m16_mark_conn b)); [apply (find_map (g_tick now)), g_tick_conn|].
    intros x _. apply mark_nil. rewrite BO. exact CL. }
  split.
  - split; [exact V'|exact WW'| | | |exact KF']; cbn [d_conns].
    + rewrite (map_keys (m16_mark b) _ (m16_mark_conn b)), (map_keys (g_tick now) _ (g_tick_conn now)), PC. exact ND.
    + intros c x5 FF. rewrite F5, PB in FF. destruct (find_x c conns) as [x|] eqn:F; [|discriminate]. cbn [option_map] in FF.
      destruct (KX c x F) as (ox & px & P). pose proof (find_x_conn _ _ _ F) as XC.
      destruct (wcleared_fwd s s' _ ox WC (pc_get _ _ _ _ _ _ P)) as (ox' & G' & K & WL).
      assert (WL' : o_will ox' = o_will ox \/ w_flag (o_will ox') = false) by (destruct WL as [WL|WL]; [left; exact WL|right; rewrite WL; reflexivity]).
      assert (SUB : forall id d, In (id, d) (st_wills s') -> d_conn d = x_conn x -> In (id, d) (st_wills s)) by (intros id d II _; apply TI in II; tauto).
      assert (VS : forall xv, view_of k (x_conn x) None h0 = Some xv -> view_step k (x_conn x) (Some xv) b = Some xv)
        by (intros xv _; unfold view_step; rewrite BOP; reflexivity).
      destruct (wkn_fields _ _ K) as (_ & _ & _ & _ & KP).
      destruct (memN c (map fst ws)) eqn:MEM.
      * (* published in this tick *)
        apply memN_true in MEM. apply in_map_iff in MEM. destruct MEM as ([c2 mm] & EC & II). cbn in EC. subst c2.
        destruct (INW c mm II) as (id & d & ID & DU & DC & DM).
        destruct (tick_pub_ok k s h0 b now x ox px id d W WW P BOP ID (eq_trans DC (eq_sym XC)) DU) as (_ & _ & PD & XO).
        assert (GT : g_tick now (set_wst x WPublished) = set_wst x WPublished) by reflexivity. rewrite GT in FF. inversion FF; subst x5.
        apply (pc_frame2 k s s' h0 b x ox px ox' WPublished P G' K WL' SUB VS); [intro H; congruence|].
        unfold status_ok. cbn [x_wst set_wst x_with x_conn]. split; [congruence|].
        intros (id2 & d2 & I2 & DC2). apply TI in I2. destruct I2 as [I2 D2].
        destruct (conn_unique s id2 d2 id d WW I2 ID) as [-> ->]; [congruence|]. congruence.
      * (* not published *)
        destruct (g_tick_cases now x) as [GT|(t & due0 & XS & LT & GT)]; rewrite GT in FF; inversion FF; subst x5.
        -- apply (pc_frame k s s' h0 b x ox px P); [exists ox'; auto|exact SUB|exact VS].
        -- pose proof (pc_st _ _ _ _ _ _ P) as ST. unfold status_ok in ST. rewrite XS in ST. destruct ST as (PD & DUE & ENT).
           apply (pc_frame2 k s s' h0 b x ox px ox' WFailed P G' K WL' SUB VS).
           ++ intro XO. rewrite (closed_of_done k s h0 x ox px W P PD) in XO. discriminate.
           ++ unfold status_ok. cbn [x_wst set_wst x_with x_conn]. split; [congruence|].
              intros (id2 & d2 & I2 & DC2). right. apply TI in I2. destruct I2 as [I2 D2]. pose proof (ENT id2 d2 I2 DC2) as DD.
              unfold due in D2. cbn [snd] in D2. pose proof (stored_le_delay px (pc_sane _ _ _ _ _ _ P)) as SL.
              rewrite <- (pc_delay _ _ _ _ _ _ P) in SL.
              rewrite eff_set_wst.
              apply N.ltb_lt. unfold minN in DUE. destruct (x_delay x <? eff k x) eqn:MM; lia.
    + intros c ox' G'. destruct (wcleared_back s s' _ ox' WC G') as (ox & G & _). destruct (KO c ox G) as (x & F).
      rewrite F5, PB, F. cbn. eexists. reflexivity.
  - apply Forall_app. split; [exact PA|]. apply flat_map_tag. intros x _.
    destruct (x_wst x); try constructor. destruct (_ <? _)%Z; repeat constructor.
Qed.

(* ---------- case: the end of a connection's handler - what the monitor computes ---------- *)
Lemma memN_single c' c : memN c' [c] = (c' =? c).
Proof. rewrite used_cons_l. destruct (memN c' []) eqn:M; [apply memN_true in M; destruct M|]. apply orb_false_r. Qed.

Lemma put_put x y l : x_conn y = x_conn x -> put_x y (put_x x l) = put_x y l.
Proof.
  intro E. induction l as [|z r IH]; cbn.
  - rewrite E, N.eqb_refl. reflexivity.
  - destruct (x_conn z =? x_conn x) eqn:EZ; cbn.
    + rewrite E, N.eqb_refl, EZ. reflexivity.
    + rewrite E, EZ. f_equal. exact IH.
Qed.

Lemma end_spec k i m b c now n0 x ws :
  ends_conn (b_op b) = Some (c, now, n0) -> find_x c (d_conns m) = Some x -> x_open x = true ->
  closes (b_outs b) = [c] -> wills_of (b_outs b) = ws -> (ws = [] \/ exists mm, ws = [(c, mm)]) ->
  (forall c' y, find_x c' (d_conns m) = Some y -> c' <> c -> f_dead b y = y) ->
  let sei' := match b_op b with ODisconnect _ _ _ s => if x_ver x =? 5 then s else None | _ => None end in
  let nrm := n0 && negb (raise_attempt x sei') in
  let req' := if x_ver x =? 5 then req_after k x sei' else x_req x in
  let xe := fun st => x_with x req' true (Some now) st in
  let dd := minN (x_delay x) (eff k (xe (x_wst x))) in
  let st1 := match x_wst x with
             | WArmed => if nrm then WNormal else if dd =? 0 then WMust else WPending now (now + Z.of_N dd)%Z
             | w => w end in
  let st3 := match ws with [] => st1 | _ => WPublished end in
  let st4 := match st3 with WMust => WFailed | w => w end in
  (forall c', find_x c' (d_conns (fst (m16_step k i m b))) =
              if c' =? c then Some (x_with x req' false (Some now) st4) else find_x c' (d_conns m)) /\
  map x_conn (d_conns (fst (m16_step k i m b))) = map x_conn (d_conns m) /\
  forall Q : viol -> Prop, (forall id, Q (mkv V16_missing i c id)) -> (forall c0 id, Q (mkv V16_retain i c0 id)) ->
    (forall mm, ws = [(c, mm)] -> Forall Q (vstat i b (xe st1) c) /\ Forall Q (vcont i (xe st1) c mm)) ->
    Forall Q (snd (m16_step k i m b)).
Proof.
  intros EC F XO CL WS WSC FD sei' nrm req' xe dd st1 st3 st4.
  set (conns := d_conns m) in *. pose proof (find_x_conn _ _ _ F) as XC.
  (* 1 *)
  assert (E1 : exists v_end, m16_end k i conns b = (put_x (xe st1) conns, v_end) /\
                             forall Q : viol -> Prop, (forall id, Q (mkv V16_missing i c id)) -> Forall Q v_end).
  { unfold m16_end. rewrite EC, F, XO. fold sei'. fold nrm. fold req'. subst st1 dd xe. cbv beta.
    destruct (x_wst x) eqn:XS; try (eexists; split; [reflexivity|intros; constructor]).
    destruct nrm; [eexists; split; [reflexivity|intros; constructor]|].
    destruct (minN (x_delay x) (eff k (x_with x req' true (Some now) WArmed)) =? 0) eqn:DZ.
    - eexists. split; [reflexivity|]. intros Q HQ. destruct (published_in (wills_of (b_outs b)) c); repeat constructor. apply HQ.
    - eexists. split; [reflexivity|intros; constructor]. }
  destruct E1 as (v_end & E1 & QE).
  set (conns1 := put_x (xe st1) conns) in *.
  assert (XE : forall st, x_conn (xe st) = c) by (intro st; exact XC).
  (* 2 *)
  assert (E2 : m16_new k i conns1 b = (conns1, [])).
  { apply m16_new_none. destruct (b_op b); try exact I. discriminate EC. }
  (* 3 *)
  assert (E3 : exists v_pub, m16_pubs k i b conns1 ws = (put_x (xe st3) conns1, v_pub) /\
               forall Q : viol -> Prop, (forall c0 id, Q (mkv V16_retain i c0 id)) ->
                 (forall mm, ws = [(c, mm)] -> Forall Q (vstat i b (xe st1) c) /\ Forall Q (vcont i (xe st1) c mm)) -> Forall Q v_pub).
  { destruct WSC as [->|(mm & ->)].
    - exists []. split; [|intros; constructor]. cbn [m16_pubs]. subst st3. cbv beta iota.
      f_equal. subst conns1. symmetry. apply put_put. reflexivity.
    - assert (F1 : find_x c conns1 = Some (xe st1)) by (subst conns1; rewrite <- (XE st1) at 1; apply find_put_same).
      rewrite (m16_pubs_some k i b conns1 c mm [] (xe st1) F1). cbn [m16_pubs fst snd]. eexists. split; [reflexivity|].
      intros Q QR H. destruct (H mm eq_refl) as [HS HC]. apply Forall_app. split; [exact HS|]. apply Forall_app. split; [exact HC|].
      rewrite app_nil_r. eapply Forall_impl; [|apply vret_tag]. intros v T. rewrite T. apply QR. }
  destruct E3 as (v_pub & E3 & QP).
  set (conns3 := put_x (xe st3) conns1) in *.
  (* 4 *)
  assert (E4 : m16_dead i conns3 b = (map (f_dead b) conns3, [])).
  { apply m16_dead_default. destruct (b_op b); try exact I; discriminate EC. }
  assert (F3 : forall c', find_x c' conns3 = if c' =? c then Some (xe st3) else find_x c' conns).
  { intro c'. subst conns3 conns1. rewrite !find_put, !XE. rewrite (N.eqb_sym c c'). destruct (c' =? c); reflexivity. }
  assert (FDC : f_dead b (xe st3) = xe st4).
  { unfold f_dead. rewrite EC. subst st4. cbn [x_wst xe x_with]. destruct st3; try reflexivity.
    rewrite (XE WMust), N.eqb_refl. reflexivity. }
  unfold m16_step. fold conns. rewrite E1, E2, WS, E3, E4. cbn [fst snd d_conns app].
  split; [|split].
  - intro c'. rewrite (find_map (m16_mark b) c' _ (m16_mark_conn b)), (find_map (f_dead b) c' _ (f_dead_conn b)), F3.
    destruct (c' =? c) eqn:E.
    + cbn [option_map]. rewrite FDC. f_equal. unfold m16_mark. cbn [x_open x_conn x_with xe]. rewrite CL, XC, memN_single, N.eqb_refl. reflexivity.
    + destruct (find_x c' conns) as [y|] eqn:FY; [|reflexivity]. cbn [option_map]. apply N.eqb_neq in E.
      rewrite (FD c' y FY E). f_equal. unfold m16_mark. rewrite CL, memN_single, (find_x_conn _ _ _ FY).
      destruct (c' =? c) eqn:EQ; [apply N.eqb_eq in EQ; congruence|]. rewrite andb_false_r. reflexivity.
  - rewrite (map_keys (m16_mark b) _ (m16_mark_conn b)), (map_keys (f_dead b) _ (f_dead_conn b)).
    subst conns3 conns1. rewrite (put_keys_same (xe st3) _ (xe st1)); [apply (put_keys_same (xe st1) conns x); rewrite XE; exact F|].
    rewrite XE. rewrite <- (XE st1) at 1. apply find_put_same.
  - intros Q QM QR H. apply Forall_app. split; [apply QE, QM|]. cbn [app]. rewrite app_nil_r. apply (QP Q QR H).
Qed.

(* ---------- case: the end of a connection's handler - the invariant ---------- *)
Definition end_op (o : op) (c : N) (now : Z) (ob : cobj) (normal : bool) : Prop :=
  (exists rc sei, o = ODisconnect c now rc sei /\ normal = negb (bad_sei ob sei) && (rc =? 0)) \/
  (o = ONetClose c now /\ normal = false) \/ (o = OSecondConnect c now /\ normal = false).

Definition sei_of (o : op) (x : sconn) : option N :=
  match o with ODisconnect _ _ _ s => if x_ver x =? 5 then s else None | _ => None end.

(* the monitor's "normal" is the model's *)
Lemma end_normal k s h0 o c now ob normal x p :
  end_op o c now ob normal -> sane_op s o -> reading s c = Some ob -> pcr k s h0 x ob p -> x_conn x = c -> x_open x = true ->
  exists n0, ends_conn o = Some (c, now, n0) /\ n0 && negb (raise_attempt x (sei_of o x)) = normal.
Proof.
  intros EO SO R P XC XO. destruct (pc_live _ _ _ _ _ _ P XO) as (RQ & OS & _).
  destruct EO as [(rc & sei & -> & ->)|[[-> ->]|[-> ->]]]; cbn [ends_conn sei_of]; eexists; (split; [reflexivity|]); try reflexivity.
  unfold bad_sei, raise_attempt. destruct sei as [v|].
  - cbn in SO. rewrite (pc_ver _ _ _ _ _ _ P), <- (pc_over _ _ _ _ _ _ P), (SO ob R). cbn [N.eqb Pos.eqb].
    rewrite RQ, OS. apply andb_comm.
  - destruct (x_ver x =? 5); cbn; rewrite andb_true_r; reflexivity.
Qed.

(* the view of the connection used by the finding predicates follows the monitor's *)
Lemma end_view k s h0 b o c now ob normal x p xv :
  wf s -> end_op o c now ob normal -> b_op b = o -> b_pre b = snap_of s -> reading s c = Some ob -> pcr k s h0 x ob p -> x_conn x = c ->
  view_of k c None h0 = Some xv -> x_ver xv = x_ver x -> x_req xv = x_req x ->
  exists xv1, view_of k c None (h0 ++ [b]) = Some xv1 /\ x_ver xv1 = x_ver xv /\ x_clean xv1 = x_clean xv /\ x_delay xv1 = x_delay xv /\
              x_id xv1 = x_id xv /\ x_req xv1 = (if x_ver x =? 5 then req_after k x (sei_of o x) else x_req x).
Proof.
  intros W EO BOP BPRE R P XC VW VV VR. rewrite view_of_app, VW. cbn [view_of]. unfold view_step. rewrite BOP.
  destruct EO as [(rc & sei & -> & _)|[[-> _]|[-> _]]]; cbn [sei_of].
  - rewrite N.eqb_refl. rewrite BPRE.
    assert (L : live_in c (x_id xv) (snap_of s) = true).
    { destruct (pc_view _ _ _ _ _ _ P) as (xv' & VW' & _ & _ & _ & _ & XI). rewrite XC, VW in VW'. inversion VW'; subst xv'.
      rewrite XI, (pc_id _ _ _ _ _ _ P). apply live_in_reading; assumption. }
    rewrite L. eexists. split; [reflexivity|]. cbn. rewrite VV. repeat split; auto.
    destruct (x_ver x =? 5); [|exact VR]. unfold req_after. rewrite VR. reflexivity.
  - exists xv. repeat split; auto. rewrite VR. destruct (x_ver x =? 5); reflexivity.
  - exists xv. repeat split; auto. rewrite VR. destruct (x_ver x =? 5); reflexivity.
Qed.

Lemma eff_with k x r o e w : eff k (x_with x r o e w) = (if x_ver x =? 5 then r else if x_clean x then 0 else k_maxsei k).
Proof. reflexivity. Qed.

Lemma pub_reg_excl ob : pub_now ob = true -> reg_now ob = true -> False.
Proof. unfold pub_now, reg_now. destruct (w_flag (o_will ob)); cbn; [|discriminate]. destruct (0 <? w_delay (o_will ob)); cbn; discriminate. Qed.

Lemma ki_end k m s h0 o s' outs b c now ob normal :
  KI k m s h0 -> sane_op s o -> b_op b = o -> b_outs b = outs -> b_pre b = snap_of s ->
  end_op o c now ob normal -> reading s c = Some ob -> mend s (s', outs) c now ob normal ->
  inv s' -> wwf s' ->
  (forall c, memN c (st_used s') = false -> params_of c (h0 ++ [b]) = None /\ view_of k c None (h0 ++ [b]) = None) ->
  KI k (fst (m16_step k (length h0) m b)) s' (h0 ++ [b]) /\
  Forall (fun v => v_step v = length h0 /\ expl k (h0 ++ [b]) b v) (snd (m16_step k (length h0) m b)).
Proof.
  intros [V WW ND KX KO KF] SO BOP BO BPRE EO R (OT & (o' & G' & I' & V1' & O' & P' & W') & T & WSm & CLm) V' WW' KF'.
  cbn [fst snd] in *. destruct V as [W X].
  destruct (reading_obj s c ob R) as [G OO]. rewrite OO in CLm.
  destruct (KO c ob G) as (x & F). destruct (KX c x F) as (ox & px & P). pose proof (find_x_conn _ _ _ F) as XC.
  assert (EOX : ox = ob) by (pose proof (pc_get _ _ _ _ _ _ P) as GG; rewrite XC, G in GG; congruence). subst ox.
  assert (XO : x_open x = true) by (rewrite (pc_open _ _ _ _ _ _ P); exact OO).
  destruct (pc_live _ _ _ _ _ _ P XO) as (RQ & OS & ST01).
  destruct (end_normal k s h0 o c now ob normal x px EO SO R P XC XO) as (n0 & EC & NRM).
  assert (NOE : forall id d, In (id, d) (st_wills s) -> d_conn d <> c).
  { intros id d II E. destruct (ww_done s WW id d II) as (od & Gd & _ & PD). rewrite E, G in Gd. inversion Gd; subst od.
    destruct (wf_open s W c ob G OO) as (_ & PH & _). congruence. }
  assert (ENT : forall id d, In (id, d) (st_wills s') -> d_conn d = c -> normal = false /\ reg_now ob = true /\ d = entry_of c now ob).
  { intros id d II DC. rewrite T in II. destruct normal.
    - apply in_adel in II. destruct (NOE id d (proj1 II) DC).
    - destruct (reg_now ob); [|destruct (NOE id d II DC)]. unfold aset in II. apply in_app_or in II. destruct II as [II|[II|[]]].
      + apply in_adel in II. destruct (NOE id d (proj1 II) DC).
      + inversion II. auto. }
  assert (SUB : forall id d, In (id, d) (st_wills s') -> d_conn d <> c -> In (id, d) (st_wills s)).
  { intros id d II NE. rewrite T in II. destruct normal; [apply in_adel in II; tauto|]. destruct (reg_now ob); [|exact II].
    unfold aset in II. apply in_app_or in II. destruct II as [II|[II|[]]]; [apply in_adel in II; tauto|]. inversion II; subst. cbn in NE. congruence. }
  set (ws := if normal then [] else if pub_now ob then [(c, will_msg (o_will ob))] else []) in *.
  assert (WSC : ws = [] \/ exists mm, ws = [(c, mm)]) by (subst ws; destruct normal; [auto|destruct (pub_now ob); eauto]).
  rewrite <- BO in WSm, CLm.
  assert (ECb : ends_conn (b_op b) = Some (c, now, n0)) by (rewrite BOP; exact EC).
  pose proof (end_spec k (length h0) m b c now n0 x ws ECb F XO CLm WSm WSC
                (fun c' y FY _ => f_dead_id k s h0 b y (KX c' y FY))) as ES.
  cbv zeta in ES.
  change (match b_op b with | ODisconnect _ _ _ s0 => if x_ver x =? 5 then s0 else None | _ => None end) with (sei_of (b_op b) x) in ES.
  rewrite BOP, NRM in ES.
  set (req' := if x_ver x =? 5 then req_after k x (sei_of o x) else x_req x) in *.
  rewrite eff_with in ES.
  set (ee := if x_ver x =? 5 then req' else if x_clean x then 0 else k_maxsei k) in *.
  set (dd := minN (x_delay x) ee) in *.
  destruct ES as (FF & KK & QQ).
  (* facts about the history *)
  pose proof (params_snoc _ h0 b px (pc_par _ _ _ _ _ _ P)) as PAR. rewrite XC in PAR.
  destruct (pc_view _ _ _ _ _ _ P) as (xv & VW & VV & VC & VR & VD & VI). rewrite XC in VW.
  destruct (end_view k s h0 b o c now ob normal x px xv W EO BOP BPRE R P XC VW VV VR) as (xv1 & VW1 & VV1 & VC1 & VD1 & VI1 & VR1).
  fold req' in VR1.
  assert (EFF1 : eff k xv1 = ee) by (unfold eff; rewrite VV1, VV, VC1, VC, VR1; reflexivity).
  pose proof (stored_le_delay px (pc_sane _ _ _ _ _ _ P)) as SL. rewrite <- (pc_delay _ _ _ _ _ _ P) in SL.
  (* the flag facts *)
  assert (FLG : w_flag (o_will ob) = true -> cp_willflag px = true /\ will_msg (o_will ob) = will_of px /\ w_delay (o_will ob) = stored_delay px)
    by apply (pc_flag _ _ _ _ _ _ P).
  split.
  - split; [exact V'|exact WW'| | | |exact KF'].
    + rewrite KK. exact ND.
    + intros c' y FY. rewrite FF in FY. destruct (c' =? c) eqn:EQ.
      * (* the connection that ended *)
        apply N.eqb_eq in EQ. subst c'. inversion FY; subst y. clear FY.
        exists o', px. split; cbn [x_conn x_id x_ver x_clean x_will x_delay x_open x_req x_wst x_with].
        -- rewrite XC. exact G'.
        -- rewrite XC. exact PAR.
        -- rewrite (pc_id _ _ _ _ _ _ P). congruence.
        -- apply (pc_ver _ _ _ _ _ _ P).
        -- rewrite V1'. apply (pc_over _ _ _ _ _ _ P).
        -- apply (pc_clean _ _ _ _ _ _ P).
        -- apply (pc_will _ _ _ _ _ _ P).
        -- apply (pc_delay _ _ _ _ _ _ P).
        -- congruence.
        -- discriminate.
        -- intro FL'. rewrite W' in FL'. rewrite W'. destruct normal; [discriminate FL'|]. unfold g_lwt in *. destruct (pub_now ob); [discriminate FL'|]. apply FLG, FL'.
        -- intros id d II DC. rewrite XC in DC. destruct (ENT id d II DC) as (_ & RG & ->). unfold reg_now in RG. apply andb_true_iff in RG. destruct RG as [FL DL].
           destruct (FLG FL) as (A & B & C). cbn [entry_of d_msg]. rewrite <- C. split; [exact A|split; [exact B|apply N.ltb_lt, DL]].
        -- exists xv1. rewrite XC. split; [exact VW1|]. repeat split; congruence.
        -- apply (pc_sane _ _ _ _ _ _ P).
        -- (* the status *)
           unfold status_ok. cbn [x_conn x_wst x_with x_open x_delay]. rewrite XC, eff_with. fold ee.
           pose proof (pc_st _ _ _ _ _ _ P) as ST. unfold status_ok in ST.
           assert (NSE : reg_now ob = false \/ normal = true -> ~ srcE s' c).
           { intros H (id & d & II & DC). destruct (ENT id d II DC) as (A & B & _). destruct H; congruence. }
           destruct ST01 as [XS|XS]; rewrite XS in *.
           ++ (* no will *)
              destruct ST as [NF _]. assert (WE : ws = []) by (subst ws; destruct normal; [reflexivity|]; unfold pub_now; rewrite NF; reflexivity).
              rewrite WE. cbn beta iota. split.
              ** rewrite W'. destruct normal; [reflexivity|]. unfold g_lwt, pub_now. rewrite NF. cbn. exact NF.
              ** apply NSE. left. unfold reg_now. rewrite NF. reflexivity.
           ++ destruct normal.
              ** subst ws. cbn beta iota. split; [exact P'|apply NSE; auto].
              ** destruct (pub_now ob) eqn:PN.
                 --- subst ws. cbn beta iota. split; [exact P'|]. apply NSE. left. destruct (reg_now ob) eqn:RG; [destruct (pub_reg_excl ob PN RG)|reflexivity].
                 --- subst ws. cbn beta iota. destruct (dd =? 0) eqn:DZ; cbn beta iota.
                     +++ split; [exact P'|]. intros (id & d & II & DC). right. destruct (ENT id d II DC) as (_ & RG & _).
                         unfold reg_now in RG. apply andb_true_iff in RG. destruct RG as [FL DL]. destruct (FLG FL) as (_ & _ & C).
                         apply N.eqb_eq in DZ. apply N.ltb_lt in DL. apply N.ltb_lt. unfold dd, minN in DZ. destruct (x_delay x <? ee) eqn:MM; lia.
                     +++ split; [exact P'|]. split; [reflexivity|]. intros id d II DC. destruct (ENT id d II DC) as (_ & RG & ->).
                         unfold reg_now in RG. apply andb_true_iff in RG. destruct RG as [FL _]. destruct (FLG FL) as (_ & _ & C).
                         cbn [entry_of d_due]. rewrite C. reflexivity.
      * (* another connection *)
        apply N.eqb_neq in EQ. destruct (KX c' y FY) as (oy & py & PY). pose proof (find_x_conn _ _ _ FY) as YC.
        destruct (wk_obj_fwd s s' _ oy (OT _ (eq_ind_r (fun z => z <> c) EQ YC)) (pc_get _ _ _ _ _ _ PY)) as (oy' & GY' & EY). destruct (wk_wkn _ _ EY) as [EK EW].
        apply (pc_frame k s s' h0 b y oy py PY).
        -- exists oy'. auto.
        -- intros id d II DC. apply SUB; [exact II|congruence].
        -- intros xvy _. unfold view_step. rewrite BOP, YC.
           destruct EO as [(rc & sei & -> & _)|[[-> _]|[-> _]]]; try reflexivity.
           destruct (c =? c') eqn:E2; [apply N.eqb_eq in E2; congruence|reflexivity].
    + intros c' oc' GC'. destruct (N.eq_dec c' c) as [->|NE].
      * eexists. rewrite FF, N.eqb_refl. reflexivity.
      * destruct (wk_obj_back s s' _ oc' (OT _ NE) GC') as (oc & GC & _). destruct (KO c' oc GC) as (y & FY). exists y. rewrite FF.
        destruct (c' =? c) eqn:E2; [apply N.eqb_eq in E2; congruence|exact FY].
  - apply QQ.
    + intro id. split; [reflexivity|left; reflexivity].
    + intros c0 id. split; [reflexivity|left; reflexivity].
    + intros mm WE. assert (NPN : normal = false /\ pub_now ob = true /\ mm = will_msg (o_will ob)).
      { subst ws. destruct normal; [discriminate|]. destruct (pub_now ob); [|discriminate]. inversion WE. auto. }
      destruct NPN as (-> & PN & ->). unfold pub_now in PN. apply andb_true_iff in PN. destruct PN as [FL DL]. destruct (FLG FL) as (A & B & C).
      split.
      * unfold vstat. cbn [x_wst x_with x_id]. pose proof (pc_st _ _ _ _ _ _ P) as ST. unfold status_ok in ST.
        destruct ST01 as [XS|XS]; rewrite XS in *; [destruct ST as [NF _]; congruence|].
        destruct (dd =? 0) eqn:DZ; [constructor|]. rewrite BOP.
        assert (ON : op_now o = Some now) by (destruct EO as [(rc & sei & -> & _)|[[-> _]|[-> _]]]; reflexivity). rewrite ON.
        apply N.eqb_neq in DZ. destruct (now + Z.of_N dd <=? now)%Z eqn:LE; [lia|].
        constructor; [|constructor]. split; [reflexivity|]. right. right. right. left. split; [reflexivity|]. exists px, xv1. cbn [v_conn mkv].
        split; [exact PAR|]. split; [exact VW1|]. split; [exact A|]. rewrite EFF1, VD1, VD. fold dd. rewrite <- C.
        apply negb_true_iff in DL. apply N.ltb_ge in DL. apply N.ltb_lt. lia.
      * unfold vcont. cbn [x_will x_with]. rewrite (pc_will _ _ _ _ _ _ P), B, beq_msg_refl. constructor.
Qed.

(* ---------- case: the teardown of a taken-over connection ---------- *)
Lemma put_same_id x l : find_x (x_conn x) l = Some x -> NoDup (map x_conn l) -> forall c, find_x c (put_x x l) = find_x c l.
Proof.
  intros F _ c. rewrite find_put. destruct (x_conn x =? c) eqn:E; [|reflexivity]. apply N.eqb_eq in E. subst c. symmetry. exact F.
Qed.

Lemma put_found x l : find_x (x_conn x) l = Some x -> put_x x l = l.
Proof.
  induction l as [|y r IH]; cbn; [discriminate|]. destruct (x_conn y =? x_conn x) eqn:E.
  - intro H. inversion H. reflexivity.
  - intro H. f_equal. apply IH, H.
Qed.

Lemma teardown_spec k i m b c now x ws :
  b_op b = OTeardown c now -> find_x c (d_conns m) = Some x -> closes (b_outs b) = [] -> wills_of (b_outs b) = ws ->
  (ws = [] \/ exists mm, ws = [(c, mm)]) ->
  let st3 := match ws with [] => x_wst x | _ => WPublished end in
  let st4 := match st3 with WMust => WFailed | w => w end in
  (forall c', find_x c' (d_conns (fst (m16_step k i m b))) = if c' =? c then Some (set_wst x st4) else find_x c' (d_conns m)) /\
  map x_conn (d_conns (fst (m16_step k i m b))) = map x_conn (d_conns m) /\
  forall Q : viol -> Prop, (forall id, Q (mkv V16_missing_takeover i c id)) -> (forall c0 id, Q (mkv V16_retain i c0 id)) ->
    (forall mm, ws = [(c, mm)] -> Forall Q (vstat i b x c) /\ Forall Q (vcont i x c mm)) ->
    Forall Q (snd (m16_step k i m b)).
Proof.
  intros BOP F CL WS WSC st3 st4. set (conns := d_conns m) in *. pose proof (find_x_conn _ _ _ F) as XC.
  assert (E1 : m16_end k i conns b = (conns, [])) by (apply m16_end_none; rewrite BOP; reflexivity).
  assert (E2 : m16_new k i conns b = (conns, [])) by (apply m16_new_none; rewrite BOP; exact I).
  assert (XS : forall st, x_conn (set_wst x st) = c) by (intro st; exact XC).
  assert (E3 : exists v_pub, m16_pubs k i b conns ws = (put_x (set_wst x st3) conns, v_pub) /\
               forall Q : viol -> Prop, (forall c0 id, Q (mkv V16_retain i c0 id)) ->
                 (forall mm, ws = [(c, mm)] -> Forall Q (vstat i b x c) /\ Forall Q (vcont i x c mm)) -> Forall Q v_pub).
  { destruct WSC as [->|(mm & ->)].
    - exists []. split; [|intros; constructor]. cbn [m16_pubs]. subst st3. cbv beta iota. rewrite set_wst_same. f_equal.
      symmetry. apply put_found. rewrite XC. exact F.
    - rewrite (m16_pubs_some k i b conns c mm [] x F). cbn [m16_pubs fst snd]. eexists. split; [reflexivity|].
      intros Q QR H. destruct (H mm eq_refl) as [HS HC]. apply Forall_app. split; [exact HS|]. apply Forall_app. split; [exact HC|].
      rewrite app_nil_r. eapply Forall_impl; [|apply vret_tag]. intros v T. rewrite T. apply QR. }
  destruct E3 as (v_pub & E3 & QP).
  set (conns3 := put_x (set_wst x st3) conns) in *.
  assert (F3 : find_x c conns3 = Some (set_wst x st3)) by (subst conns3; rewrite <- (XS st3) at 1; apply find_put_same).
  assert (E4 : exists v_dead, m16_dead i conns3 b = (put_x (set_wst x st4) conns3, v_dead) /\
               forall Q : viol -> Prop, (forall id, Q (mkv V16_missing_takeover i c id)) -> Forall Q v_dead).
  { unfold m16_dead. rewrite BOP, F3. cbn [x_wst set_wst x_with]. subst st4. destruct st3 eqn:S3.
    3:{ eexists. split; [reflexivity|]. intros Q HQ. repeat constructor. apply HQ. }
    all: exists []; (split; [|intros; constructor]); f_equal; symmetry; subst conns3; apply put_put; reflexivity. }
  destruct E4 as (v_dead & E4 & QD).
  unfold m16_step. fold conns. rewrite E1, E2, WS, E3, E4. cbn [fst snd d_conns app].
  assert (MK : forall l, map (m16_mark b) l = l).
  { intro l. induction l as [|y r IH]; cbn; [reflexivity|]. rewrite (mark_nil b y CL), IH. reflexivity. }
  rewrite MK. split; [|split].
  - intro c'. subst conns3. rewrite !find_put, !XS. rewrite (N.eqb_sym c c'). destruct (c' =? c); reflexivity.
  - subst conns3. rewrite (put_keys_same (set_wst x st4) _ (set_wst x st3)); [apply (put_keys_same (set_wst x st3) conns x); rewrite XS; exact F|].
    rewrite XS. exact F3.
  - intros Q QM QR H. apply Forall_app. split; [apply (QP Q QR H)|apply QD, QM].
Qed.

Lemma ki_teardown k m s h0 s' outs b c now ob :
  KI k m s h0 -> b_op b = OTeardown c now -> b_outs b = outs ->
  get_obj c (st_objs s) = Some ob -> o_phase ob = PhHeld -> mend s (s', outs) c now ob false ->
  inv s' -> wwf s' ->
  (forall c, memN c (st_used s') = false -> params_of c (h0 ++ [b]) = None /\ view_of k c None (h0 ++ [b]) = None) ->
  KI k (fst (m16_step k (length h0) m b)) s' (h0 ++ [b]) /\
  Forall (fun v => v_step v = length h0 /\ expl k (h0 ++ [b]) b v) (snd (m16_step k (length h0) m b)).
Proof.
  intros [V WW ND KX KO KF] BOP BO G PH (OT & (o' & G' & I' & V1' & O' & P' & W') & T & WSm & CLm) V' WW' KF'.
  cbn [fst snd] in *. destruct V as [W X].
  assert (OC : o_open ob = false).
  { destruct (o_open ob) eqn:OO; [|reflexivity]. destruct (wf_open s W c ob G OO) as (_ & PR & _). congruence. }
  rewrite OC in CLm.
  destruct (KO c ob G) as (x & F). destruct (KX c x F) as (ox & px & P). pose proof (find_x_conn _ _ _ F) as XC.
  assert (EOX : ox = ob) by (pose proof (pc_get _ _ _ _ _ _ P) as GG; rewrite XC, G in GG; congruence). subst ox.
  assert (XO : x_open x = false) by (rewrite (pc_open _ _ _ _ _ _ P); exact OC).
  assert (NOE : forall id d, In (id, d) (st_wills s) -> d_conn d <> c).
  { intros id d II E. destruct (ww_done s WW id d II) as (od & Gd & _ & PD). rewrite E, G in Gd. inversion Gd; subst od. congruence. }
  assert (ENT : forall id d, In (id, d) (st_wills s') -> d_conn d = c -> reg_now ob = true /\ d = entry_of c now ob).
  { intros id d II DC. rewrite T in II. destruct (reg_now ob); [|destruct (NOE id d II DC)]. unfold aset in II. apply in_app_or in II.
    destruct II as [II|[II|[]]]; [apply in_adel in II; destruct (NOE id d (proj1 II) DC)|]. inversion II. auto. }
  assert (SUB : forall id d, In (id, d) (st_wills s') -> d_conn d <> c -> In (id, d) (st_wills s)).
  { intros id d II NE. rewrite T in II. destruct (reg_now ob); [|exact II].
    unfold aset in II. apply in_app_or in II. destruct II as [II|[II|[]]]; [apply in_adel in II; tauto|]. inversion II; subst. cbn in NE. congruence. }
  set (ws := if pub_now ob then [(c, will_msg (o_will ob))] else []) in *.
  assert (WSC : ws = [] \/ exists mm, ws = [(c, mm)]) by (subst ws; destruct (pub_now ob); eauto).
  rewrite <- BO in WSm, CLm.
  destruct (teardown_spec k (length h0) m b c now x ws BOP F CLm WSm WSC) as (FF & KK & QQ).
  pose proof (params_snoc _ h0 b px (pc_par _ _ _ _ _ _ P)) as PAR.
  assert (FLG : w_flag (o_will ob) = true -> cp_willflag px = true /\ will_msg (o_will ob) = will_of px /\ w_delay (o_will ob) = stored_delay px)
    by apply (pc_flag _ _ _ _ _ _ P).
  assert (ARM : w_flag (o_will ob) = true -> is_armed ob) by (intro FL; split; [exact FL|congruence]).
  pose proof (pc_st _ _ _ _ _ _ P) as ST. unfold status_ok in ST. rewrite XC in ST.
  (* the possible statuses of a held connection *)
  assert (STS : (x_wst x = WNone /\ pub_now ob = false) \/ x_wst x = WMust \/ (x_wst x = WCancelled /\ pub_now ob = false)).
  { destruct (x_wst x) eqn:XS; try (destruct ST as [PD _]; congruence).
    - left. split; [reflexivity|]. unfold pub_now. rewrite (proj1 ST). reflexivity.
    - congruence.
    - right. left. reflexivity.
    - right. right. split; [reflexivity|]. destruct (pub_now ob) eqn:PN; [|reflexivity]. exfalso. unfold pub_now in PN. apply andb_true_iff in PN.
      destruct PN as [FL DL]. destruct (ST (or_introl (ARM FL))) as [_ D]. specialize (D (ARM FL)). apply negb_true_iff, N.ltb_ge in DL. lia. }
  split.
  - split; [exact V'|exact WW'| | | |exact KF'].
    + rewrite KK. exact ND.
    + intros c' y FY. rewrite FF in FY. destruct (c' =? c) eqn:EQ.
      * apply N.eqb_eq in EQ. subst c'. inversion FY; subst y. clear FY.
        exists o', px. split; cbn [x_conn x_id x_ver x_clean x_will x_delay x_open x_req x_wst x_with set_wst].
        -- rewrite XC. exact G'.
        -- exact PAR.
        -- rewrite (pc_id _ _ _ _ _ _ P). congruence.
        -- apply (pc_ver _ _ _ _ _ _ P).
        -- rewrite V1'. apply (pc_over _ _ _ _ _ _ P).
        -- apply (pc_clean _ _ _ _ _ _ P).
        -- apply (pc_will _ _ _ _ _ _ P).
        -- apply (pc_delay _ _ _ _ _ _ P).
        -- congruence.
        -- intro H. congruence.
        -- intro FL'. rewrite W' in FL'. rewrite W'. unfold g_lwt in *. destruct (pub_now ob); [discriminate FL'|]. apply FLG, FL'.
        -- intros id d II DC. rewrite XC in DC. destruct (ENT id d II DC) as (RG & ->). unfold reg_now in RG. apply andb_true_iff in RG. destruct RG as [FL DL].
           destruct (FLG FL) as (A & B & C). cbn [entry_of d_msg]. rewrite <- C. split; [exact A|split; [exact B|apply N.ltb_lt, DL]].
        -- destruct (pc_view _ _ _ _ _ _ P) as (xv & VW & VX). exists xv. split; [|exact VX]. rewrite view_of_app, VW. cbn [view_of]. unfold view_step. rewrite BOP. reflexivity.
        -- apply (pc_sane _ _ _ _ _ _ P).
        -- unfold status_ok. cbn [x_conn x_wst x_with set_wst]. rewrite XC.
           destruct STS as [[XS PN]|[XS|[XS PN]]]; rewrite XS in *.
           ++ subst ws. rewrite PN. cbn beta iota. destruct ST as [NF _]. split.
              ** rewrite W', PN. exact NF.
              ** intros (id & d & II & DC). destruct (ENT id d II DC) as (RG & _). unfold reg_now in RG. rewrite NF in RG. discriminate.
           ++ destruct ST as [_ TOL]. subst ws. destruct (pub_now ob) eqn:PN; cbn beta iota.
              ** split; [exact P'|]. intros (id & d & II & DC). destruct (ENT id d II DC) as (RG & _). destruct (pub_reg_excl ob PN RG).
              ** split; [exact P'|]. intros _. left. apply tol_mono, TOL.
           ++ subst ws. rewrite PN. cbn beta iota. intros [[_ AR]|(id & d & II & DC)]; [congruence|].
              destruct (ENT id d II DC) as (RG & _). unfold reg_now in RG. apply andb_true_iff in RG. destruct RG as [FL _].
              destruct (ST (or_introl (ARM FL))) as [TOL _]. split; [apply tol_mono, TOL|]. intros [_ AR]. congruence.
      * apply N.eqb_neq in EQ. destruct (KX c' y FY) as (oy & py & PY). pose proof (find_x_conn _ _ _ FY) as YC.
        destruct (wk_obj_fwd s s' _ oy (OT _ (eq_ind_r (fun z => z <> c) EQ YC)) (pc_get _ _ _ _ _ _ PY)) as (oy' & GY' & EY). destruct (wk_wkn _ _ EY) as [EK EW].
        apply (pc_frame k s s' h0 b y oy py PY).
        -- exists oy'. auto.
        -- intros id d II DC. apply SUB; [exact II|congruence].
        -- intros xvy _. unfold view_step. rewrite BOP. reflexivity.
    + intros c' oc' GC'. destruct (N.eq_dec c' c) as [->|NE].
      * eexists. rewrite FF, N.eqb_refl. reflexivity.
      * destruct (wk_obj_back s s' _ oc' (OT _ NE) GC') as (oc & GC & _). destruct (KO c' oc GC) as (y & FY). exists y. rewrite FF.
        destruct (c' =? c) eqn:E2; [apply N.eqb_eq in E2; congruence|exact FY].
  - apply QQ.
    + intro id. split; [reflexivity|left; reflexivity].
    + intros c0 id. split; [reflexivity|left; reflexivity].
    + intros mm WE. assert (NPN : pub_now ob = true /\ mm = will_msg (o_will ob)).
      { subst ws. destruct (pub_now ob); [|discriminate]. inversion WE. auto. }
      destruct NPN as (PN & ->). destruct STS as [[_ PN']|[XS|[_ PN']]]; try congruence.
      unfold pub_now in PN. apply andb_true_iff in PN. destruct PN as [FL DL]. destruct (FLG FL) as (A & B & C).
      split; [unfold vstat; rewrite XS; constructor|]. unfold vcont. rewrite (pc_will _ _ _ _ _ _ P), B, beq_msg_refl. constructor.
Qed.

(* ---------- case: a connection is accepted - what the monitor computes ---------- *)
Lemma takeover_conn k ws c p e x : x_conn (m16_takeover k ws c p e x) = x_conn x.
Proof.
  unfold m16_takeover. destruct (_ && _); [|reflexivity]. destruct (x_wst x); try reflexivity.
  - destruct (x_open x); [|reflexivity]. destruct (_ && _); reflexivity.
  - destruct (cp_clean p); [|reflexivity]. destruct (published_in ws (x_conn x)); reflexivity.
Qed.

Lemma f_dead_none b x : ends_conn (b_op b) = None -> f_dead b x = x.
Proof. intro E. unfold f_dead. rewrite E. destruct (x_wst x); reflexivity. Qed.

Definition lost_viols (i : nat) (c : N) (p : cparams) (e : bytes) (conns : list sconn) : list viol :=
  flat_map (fun x =>
    if beq_bytes (x_id x) e && negb (x_conn x =? c) && cp_clean p && negb (published_in [] (x_conn x)) then
      match x_wst x with WPending _ _ => [mkv V16_lost_clean i (x_conn x) e] | _ => [] end
    else []) conns.

Lemma accept_spec k i m b c now p a e sp :
  b_op b = OConnect c now p a e -> success_connack (pkts_to c (b_outs b)) = Some sp -> wills_of (b_outs b) = [] ->
  find_x c (d_conns m) = None ->
  (forall c', find_x c' (d_conns (fst (m16_step k i m b))) =
              if c' =? c then Some (m16_mark b (x_new k c p e))
              else option_map (fun y => m16_mark b (m16_takeover k [] c p e y)) (find_x c' (d_conns m))) /\
  map x_conn (d_conns (fst (m16_step k i m b))) = map x_conn (d_conns m) ++ [c] /\
  snd (m16_step k i m b) = lost_viols i c p e (d_conns m).
Proof.
  intros BOP SC WS FN. set (conns := d_conns m) in *.
  assert (E1 : m16_end k i conns b = (conns, [])) by (apply m16_end_none; rewrite BOP; reflexivity).
  assert (E2 : m16_new k i conns b = (put_x (x_new k c p e) (map (m16_takeover k [] c p e) conns), lost_viols i c p e conns)).
  { unfold m16_new. rewrite BOP, SC, WS. reflexivity. }
  assert (E4 : forall l, m16_dead i l b = (l, [])).
  { intro l. rewrite m16_dead_default by (rewrite BOP; exact I). f_equal. induction l as [|y r IH]; cbn; [reflexivity|].
    rewrite f_dead_none by (rewrite BOP; reflexivity). rewrite IH. reflexivity. }
  unfold m16_step. fold conns. rewrite E1, E2, WS. cbn [m16_pubs]. rewrite E4. cbn [fst snd d_conns app]. rewrite app_nil_r.
  assert (FT : find_x c (map (m16_takeover k [] c p e) conns) = None).
  { rewrite (find_map _ c conns (takeover_conn k [] c p e)), FN. reflexivity. }
  split; [|split; [|reflexivity]].
  - intro c'. rewrite (find_map (m16_mark b) c' _ (m16_mark_conn b)), find_put. cbn [x_conn x_new].
    rewrite (N.eqb_sym c c'). destruct (c' =? c); [reflexivity|].
    rewrite (find_map _ c' conns (takeover_conn k [] c p e)). destruct (find_x c' conns); reflexivity.
  - rewrite (map_keys (m16_mark b) _ (m16_mark_conn b)), put_keys_new by exact FT.
    rewrite (map_keys _ conns (takeover_conn k [] c p e)). reflexivity.
Qed.

(* ---------- case: a connection is accepted - the invariant ---------- *)
Definition same_but_status (y yf : sconn) : Prop :=
  x_conn yf = x_conn y /\ x_id yf = x_id y /\ x_ver yf = x_ver y /\ x_clean yf = x_clean y /\ x_will yf = x_will y /\
  x_delay yf = x_delay y /\ x_req yf = x_req y.

Lemma pc_frame4 k s s' h0 b y yf oy py o' :
  pcr k s h0 y oy py -> same_but_status y yf ->
  get_obj (x_conn y) (st_objs s') = Some o' -> o_id o' = o_id oy -> o_ver o' = o_ver oy -> x_open yf = o_open o' ->
  (x_open yf = true -> o_sei o' = o_sei oy /\ x_open y = true /\ (x_wst yf = WNone \/ x_wst yf = WArmed)) ->
  (o_will o' = o_will oy \/ w_flag (o_will o') = false) ->
  (forall id d, In (id, d) (st_wills s') -> d_conn d = x_conn y -> In (id, d) (st_wills s)) ->
  (forall xv, view_of k (x_conn y) None h0 = Some xv -> view_step k (x_conn y) (Some xv) b = Some xv) ->
  status_ok k s' (h0 ++ [b]) py o' yf ->
  pc k s' (h0 ++ [b]) yf.
Proof.
  intros [G PA I V OV CL WI DL OP LV FL EN (xv & VW & VX) SN ST] (EC & EI & EV & ECl & EW & ED & ER) G' KI1 KV XO' LV' WW SUB VS ST'.
  exists o', py. split; try (rewrite ?EC, ?EI, ?EV, ?ECl, ?EW, ?ED, ?ER; congruence); try assumption.
  - rewrite EC, params_of_app, PA. reflexivity.
  - intro XO. destruct (LV' XO) as (A & B & C). destruct (LV B) as (A1 & B1 & _). rewrite ER. split; [exact A1|split; [congruence|exact C]].
  - intro F'. destruct WW as [WW|WW]; [|congruence]. rewrite WW in *. apply FL, F'.
  - intros id d II DC. rewrite EC in DC. apply (EN id d); [apply SUB; assumption|exact DC].
  - exists xv. rewrite EC, EV, ECl, ER, ED, EI. split; [|exact VX]. rewrite view_of_app, VW. cbn [view_of]. apply VS, VW.
Qed.

Lemma takeover_same k ws c p e y : same_but_status y (m16_takeover k ws c p e y) /\ x_open (m16_takeover k ws c p e y) = x_open y.
Proof.
  unfold m16_takeover, same_but_status. destruct (_ && _); [|auto 10]. destruct (x_wst y); auto 10.
  - destruct (x_open y) eqn:XO; [|auto 10]. destruct (_ && _); cbn; rewrite ?XO; auto 10.
  - destruct (cp_clean p); [|cbn; auto 10]. destruct (published_in ws (x_conn y)); cbn; auto 10.
Qed.

Lemma mark_same b z : same_but_status z (m16_mark b z) /\ x_wst (m16_mark b z) = x_wst z /\
  x_open (m16_mark b z) = x_open z && negb (memN (x_conn z) (closes (b_outs b))).
Proof.
  unfold m16_mark, same_but_status. destruct (x_open z) eqn:XO; cbn [andb].
  - destruct (memN (x_conn z) (closes (b_outs b))); cbn; rewrite ?XO; auto 12.
  - rewrite XO. auto 12.
Qed.

Lemma same_but_trans a b c : same_but_status a b -> same_but_status b c -> same_but_status a c.
Proof. unfold same_but_status. intros (A1 & A2 & A3 & A4 & A5 & A6 & A7) (B1 & B2 & B3 & B4 & B5 & B6 & B7). repeat split; congruence. Qed.

Lemma capN_zero k : capN k 0 = 0.
Proof. unfold capN. destruct (k_maxsei k <? 0) eqn:E; [apply N.ltb_lt in E; lia|reflexivity]. Qed.

Lemma capN_pos k v : 0 < capN k v -> 0 < v.
Proof. unfold capN. destruct (k_maxsei k <? v) eqn:E; [apply N.ltb_lt in E; lia|auto]. Qed.

Lemma pc_new k s' h0 b c now p e sp n2 xn :
  params_of c h0 = None -> view_of k c None h0 = None -> (cp_ver p <> 5 -> cp_willdelay p = 0) ->
  b_op b = OConnect c now p true e -> success_connack (pkts_to c (b_outs b)) = Some sp ->
  get_obj c (st_objs s') = Some n2 -> o_id n2 = e -> o_ver n2 = cp_ver p -> o_sei n2 = capN k (o_sei (parse_connect c p e)) ->
  o_open n2 = true -> o_will n2 = o_will (parse_connect c p e) ->
  (forall id d, In (id, d) (st_wills s') -> d_conn d <> c) ->
  same_but_status (x_new k c p e) xn -> x_open xn = true -> x_wst xn = x_wst (x_new k c p e) ->
  pc k s' (h0 ++ [b]) xn.
Proof.
  intros PN VN SN BOP SC G2 I2 V2 S2 O2 W2 NOE (EC & EI & EV & ECl & EW & ED & ER) XO XS.
  cbn [x_conn x_id x_ver x_clean x_will x_delay x_req x_new] in *.
  exists n2, p. split; try congruence.
  - rewrite EC, params_of_app, PN. cbn [params_of]. rewrite BOP, N.eqb_refl. reflexivity.
  - rewrite EW. reflexivity.
  - rewrite ED. reflexivity.
  - intros _. rewrite ER. split; [reflexivity|]. split.
    + rewrite S2. cbn [o_sei parse_connect]. unfold req0. destruct (cp_seiflag p); [reflexivity|apply capN_zero].
    + rewrite XS. cbn [x_wst x_new]. destruct (cp_willflag p); auto.
  - intro FL. rewrite W2 in *. cbn [o_will parse_connect] in *. destruct (cp_willflag p); [|discriminate FL]. split; [reflexivity|]. split; [reflexivity|].
    cbn [w_delay]. unfold stored_delay. destruct (cp_ver p =? 5) eqn:V5; cbn [negb]; [reflexivity|].
    rewrite (SN ltac:(intro H; rewrite H in V5; discriminate)). destruct (cp_seiflag p && (cp_sei p <? 0)) eqn:E; [|reflexivity].
    apply andb_true_iff in E. destruct E as [_ E]. apply N.ltb_lt in E. lia.
  - intros id d II DC. rewrite EC in DC. destruct (NOE id d II DC).
  - exists (x_new k c p e). rewrite EC, EV, ECl, ER, ED, EI. split; [|auto 10].
    rewrite view_of_app, VN. cbn [view_of]. unfold view_step. rewrite BOP, N.eqb_refl, SC. reflexivity.
  - exact SN.
  - unfold status_ok. rewrite XS. cbn [x_wst x_new]. destruct (cp_willflag p) eqn:WF; [exact XO|]. split.
    + rewrite W2. cbn [o_will parse_connect]. rewrite WF. reflexivity.
    + intros (id & d & II & DC). rewrite EC in DC. destruct (NOE id d II DC).
Qed.

Lemma held_stopped_fields eo now :
  o_id (held (stopped eo now)) = o_id eo /\ o_ver (held (stopped eo now)) = o_ver eo /\ o_sei (held (stopped eo now)) = o_sei eo /\
  o_open (held (stopped eo now)) = false /\ o_will (held (stopped eo now)) = o_will eo /\
  o_phase (held (stopped eo now)) = (match o_phase eo with PhReading => PhHeld | ph => ph end).
Proof.
  unfold held. destruct (stopped_fields eo now) as (A & B & C & D).
  assert (PS : o_phase (stopped eo now) = o_phase eo) by (unfold stopped; destruct (o_open eo); reflexivity).
  assert (SS : o_sei (stopped eo now) = o_sei eo) by (unfold stopped; destruct (o_open eo); reflexivity).
  rewrite PS, C. cbn [negb andb]. destruct (o_phase eo) eqn:PH; cbn; rewrite ?A, ?B, ?C, ?D, ?PS, ?SS, ?PH; auto 10.
Qed.

Lemma tol_here s b c now p a e sp eo h0 :
  wf s -> b_op b = OConnect c now p a e -> b_pre b = snap_of s -> success_connack (pkts_to c (b_outs b)) = Some sp ->
  client_of s e = Some eo -> o_open eo = true -> o_conn eo <> c -> taken_over_live (o_conn eo) (h0 ++ [b]) = true.
Proof.
  intros W BOP BPRE SC CO OO NE. rewrite tol_app. apply orb_true_iff. right. cbn [taken_over_live]. rewrite BOP, SC, BPRE.
  destruct (client_of_reg s e eo W CO) as (A & G & _). rewrite (find_client_snap s e W), A, G. cbn [option_map sclient_of sc_conn sc_open].
  rewrite N.eqb_refl, OO. destruct (c =? o_conn eo) eqn:E; [apply N.eqb_eq in E; congruence|reflexivity].
Qed.

Lemma cancel_delay_pos k p z : 0 < minN (delay0 p) (if cp_ver p =? 5 then req0 k p else z) -> 0 < stored_delay p.
Proof.
  unfold delay0, stored_delay, req0, minN. destruct (cp_ver p =? 5); cbn [negb].
  2:{ destruct (0 <? z) eqn:Z0; [lia|]. apply N.ltb_ge in Z0. lia. }
  destruct (cp_seiflag p); cbn [andb].
  - destruct (cp_sei p <? cp_willdelay p) eqn:LT.
    + destruct (cp_willdelay p <? capN k (cp_sei p)) eqn:L2; [intros _|intro H; apply (capN_pos k), H].
      apply N.ltb_lt in L2. apply (capN_pos k). lia.
    + destruct (cp_willdelay p <? capN k (cp_sei p)) eqn:L2; [lia|]. apply N.ltb_ge in L2. lia.
  - destruct (cp_willdelay p <? 0) eqn:L2; [lia|]. lia.
Qed.

Lemma ki_accept k m s h0 s' outs b c now p e sp :
  KI k m s h0 -> (cp_ver p <> 5 -> cp_willdelay p = 0) -> b_op b = OConnect c now p true e -> b_outs b = outs -> b_pre b = snap_of s ->
  hasobj s c = false -> memN c (st_used s) = false -> success_connack (pkts_to c outs) = Some sp -> maccept k s (s', outs) c now p e ->
  inv s' -> wwf s' ->
  (forall c, memN c (st_used s') = false -> params_of c (h0 ++ [b]) = None /\ view_of k c None (h0 ++ [b]) = None) ->
  KI k (fst (m16_step k (length h0) m b)) s' (h0 ++ [b]) /\
  Forall (fun v => v_step v = length h0 /\ expl k (h0 ++ [b]) b v) (snd (m16_step k (length h0) m b)).
Proof.
  intros [V WW ND KX KO KF] SN BOP BO BPRE HS MU SC ((n2 & G2 & I2 & V2 & S2 & O2 & P2 & W2) & MA & T & WSm) V' WW' KF'.
  cbn [fst snd] in *. destruct V as [W X].
  assert (FN : find_x c (d_conns m) = None).
  { destruct (find_x c (d_conns m)) as [x|] eqn:F; [|reflexivity]. destruct (KX c x F) as (ox & px & P).
    pose proof (pc_get _ _ _ _ _ _ P) as G. rewrite (find_x_conn _ _ _ F) in G. unfold hasobj in HS. rewrite G in HS. discriminate. }
  destruct (KF c MU) as [PN VN].
  rewrite <- BO in SC, WSm, MA.
  destruct (accept_spec k (length h0) m b c now p true e sp BOP SC WSm FN) as (FF & KK & VV).
  assert (SUBW : forall id d, In (id, d) (st_wills s') -> In (id, d) (st_wills s) /\ id <> e).
  { intros id d II. rewrite T in II. apply in_adel in II. exact II. }
  assert (NOC : forall id d, In (id, d) (st_wills s') -> d_conn d <> c).
  { intros id d II E. destruct (SUBW id d II) as [I0 _]. destruct (ww_done s WW id d I0) as (od & Gd & _).
    rewrite E in Gd. unfold hasobj in HS. rewrite Gd in HS. discriminate. }
  assert (GONE : forall c' oc, get_obj c' (st_objs s) = Some oc -> o_id oc = e -> ~ srcE s' c').
  { intros c' oc GC IE (id & d & II & DC). destruct (SUBW id d II) as [I0 NE]. destruct (ww_done s WW id d I0) as (od & Gd & Id & _).
    rewrite DC, GC in Gd. inversion Gd; subst od. congruence. }
  set (cl := closes (b_outs b)).
  assert (OTH : forall c', c' <> c -> (forall eo, client_of s e = Some eo -> c' <> o_conn eo) ->
                option_map wk (get_obj c' (st_objs s')) = option_map wk (get_obj c' (st_objs s))).
  { intros c' N1 N2. destruct (client_of s e) as [eo|]; [destruct MA as (OT & _); apply OT; [exact N1|apply N2; reflexivity]|destruct MA as (OT & _); apply OT, N1]. }
  assert (CLS : forall c', memN c' cl = true -> exists eo, client_of s e = Some eo /\ c' = o_conn eo /\ o_open eo = true).
  { intros c' M. apply memN_true in M. destruct (client_of s e) as [eo|].
    - destruct MA as (_ & _ & CL). unfold cl in M. rewrite CL in M. destruct (o_open eo) eqn:OO; [|destruct M]. destruct M as [<-|[]]. exists eo. auto.
    - destruct MA as (_ & CL). unfold cl in M. rewrite CL in M. destruct M. }
  assert (CLS2 : forall eo, client_of s e = Some eo -> o_open eo = true -> memN (o_conn eo) cl = true).
  { intros eo CO OO. rewrite CO in MA. destruct MA as (_ & _ & CL). unfold cl. rewrite CL, OO. apply memN_true. left. reflexivity. }
  assert (TKO : forall eo, client_of s e = Some eo -> exists o', get_obj (o_conn eo) (st_objs s') = Some o' /\ wk o' = wk (held (stopped eo now))).
  { intros eo CO. rewrite CO in MA. destruct MA as (_ & H & _). exact H. }
  assert (NCC : memN c cl = false).
  { destruct (memN c cl) eqn:M; [|reflexivity]. destruct (CLS c M) as (eo & CO & EE & _). destruct (client_of_reg s e eo W CO) as (_ & GE & _).
    rewrite <- EE in GE. unfold hasobj in HS. rewrite GE in HS. discriminate. }
  split.
  - split; [exact V'|exact WW'| | | |exact KF'].
    + rewrite KK. apply nodup_snoc; [exact ND|apply find_none_keys, FN].
    + intros c' yf FY. rewrite FF in FY. destruct (c' =? c) eqn:EQ.
      * apply N.eqb_eq in EQ. subst c'. inversion FY; subst yf. clear FY.
        destruct (mark_same b (x_new k c p e)) as (SB & XS & XO). cbn [x_conn x_new x_open] in XO. fold cl in XO. rewrite NCC in XO.
        apply (pc_new k s' h0 b c now p e sp n2 _ PN VN SN BOP SC G2 I2 V2 S2 O2 W2 NOC SB XO XS).
      * apply N.eqb_neq in EQ. destruct (find_x c' (d_conns m)) as [y|] eqn:FY0; [|discriminate]. cbn [option_map] in FY. inversion FY; subst yf. clear FY.
        destruct (KX c' y FY0) as (oy & py & PY). pose proof (find_x_conn _ _ _ FY0) as YC. pose proof (pc_get _ _ _ _ _ _ PY) as GY. rewrite YC in GY.
        set (y1 := m16_takeover k [] c p e y).
        destruct (takeover_same k [] c p e y) as (SB1 & XO1). fold y1 in SB1, XO1.
        destruct (mark_same b y1) as (SB2 & XS2 & XO2).
        pose proof (same_but_trans _ _ _ SB1 SB2) as SB. pose proof (pc_st _ _ _ _ _ _ PY) as ST. unfold status_ok in ST. rewrite YC in ST.
        assert (Y1C : x_conn y1 = c') by (destruct SB1 as (A & _); congruence).
        assert (VS : forall xv, view_of k (x_conn y) None h0 = Some xv -> view_step k (x_conn y) (Some xv) b = Some xv).
        { intros xv _. unfold view_step. rewrite BOP, YC. destruct (c =? c') eqn:E2; [apply N.eqb_eq in E2; congruence|reflexivity]. }
        assert (SUBY : forall id d, In (id, d) (st_wills s') -> d_conn d = x_conn y -> In (id, d) (st_wills s)) by (intros id d II _; apply SUBW, II).
        assert (CASES : (exists eo, client_of s e = Some eo /\ c' = o_conn eo) \/ (forall eo, client_of s e = Some eo -> c' <> o_conn eo)).
        { destruct (client_of s e) as [eo|]; [|right; intros eo H; discriminate H]. destruct (N.eq_dec c' (o_conn eo)) as [E|NE]; [left; exists eo; auto|].
          right. intros eo' H. inversion H; subst. exact NE. }
        destruct CASES as [(eo & CO & EE)|NR].
        -- (* the connection registered under the identifier: taken over *)
           destruct (client_of_reg s e eo W CO) as (AE & GE & IE). rewrite <- EE in GE. rewrite GY in GE. inversion GE; subst oy. clear GE.
           destruct (TKO eo CO) as (o' & G' & EW). rewrite <- EE in G'.
           destruct (wk_fields _ _ EW) as (KI1 & KV & KS & KO' & KP & KW). destruct (held_stopped_fields eo now) as (H1 & H2 & H3 & H4 & H5 & H6).
           rewrite H1 in KI1. rewrite H2 in KV. rewrite H3 in KS. rewrite H4 in KO'. rewrite H5 in KW. rewrite H6 in KP.
           assert (XOF : x_open (m16_mark b y1) = false).
           { rewrite XO2, XO1, Y1C. fold cl. destruct (x_open y) eqn:XY; [|reflexivity]. rewrite (pc_open _ _ _ _ _ _ PY) in XY. rewrite EE, (CLS2 eo CO XY). reflexivity. }
           assert (NSE : ~ srcE s' c') by (apply (GONE c' eo GY IE)).
           assert (CND : beq_bytes (x_id y) e && negb (x_conn y =? c) = true).
           { rewrite (pc_id _ _ _ _ _ _ PY), IE, bb_refl, YC. destruct (c' =? c) eqn:E2; [apply N.eqb_eq in E2; congruence|reflexivity]. }
           pose proof G' as G'y. rewrite <- YC in G'y.
           refine (pc_frame4 k s s' h0 b y _ eo py o' PY SB G'y KI1 KV (eq_trans XOF (eq_sym KO')) _ (or_introl KW) SUBY VS _).
           ++ intro H. congruence.
           ++ unfold status_ok. rewrite XS2. destruct SB as (CF & _). rewrite CF, YC.
              destruct (x_wst y) as [| | |t due0| | | |] eqn:XS.
              ** assert (Y1E : y1 = y) by (unfold y1, m16_takeover; rewrite CND, XS; reflexivity). rewrite Y1E, XS.
                 destruct ST as [NF _]. split; [congruence|exact NSE].
              ** assert (OO : o_open eo = true) by (rewrite <- (pc_open _ _ _ _ _ _ PY); exact ST).
                 destruct (wf_open s W c' eo GY OO) as (_ & PR & _). rewrite PR in KP.
                 destruct (pc_live _ _ _ _ _ _ PY ST) as (RQ & _ & _).
                 assert (TOL : taken_over_live c' (h0 ++ [b]) = true) by (rewrite EE; apply (tol_here s b c now p true e sp eo h0 W BOP BPRE SC CO OO); congruence).
                 assert (Y1E : y1 = if negb (cp_clean p) && (0 <? minN (x_delay y) (eff k y)) then set_wst y WCancelled else set_wst y WMust)
                   by (unfold y1, m16_takeover; rewrite CND, XS, ST; reflexivity).
                 rewrite Y1E. destruct (negb (cp_clean p) && (0 <? minN (x_delay y) (eff k y))) eqn:CN; cbn [x_wst set_wst x_with].
                 --- intros _. split; [exact TOL|]. intros [FL _]. rewrite KW in FL |- *. destruct (pc_flag _ _ _ _ _ _ PY FL) as (_ & _ & WD). rewrite WD.
                     apply andb_true_iff in CN. destruct CN as [_ CN]. apply N.ltb_lt in CN.
                     rewrite (pc_delay _ _ _ _ _ _ PY) in CN. unfold eff in CN. rewrite (pc_ver _ _ _ _ _ _ PY), RQ in CN.
                     apply (cancel_delay_pos k py _ CN).
                 --- split; [exact KP|exact TOL].
              ** assert (Y1E : y1 = y) by (unfold y1, m16_takeover; rewrite CND, XS; reflexivity). rewrite Y1E, XS.
                 destruct ST as [PHH TOL]. rewrite PHH in KP. split; [exact KP|apply tol_mono, TOL].
              ** assert (Y1E : y1 = if cp_clean p then set_wst y WFailed else set_wst y WCancelled)
                   by (unfold y1, m16_takeover; rewrite CND, XS; reflexivity).
                 rewrite Y1E. destruct ST as (PD & _). rewrite PD in KP. destruct (cp_clean p); cbn [x_wst set_wst x_with].
                 --- split; [exact KP|]. intro H. contradiction.
                 --- intros [[_ AR]|H]; [congruence|contradiction].
              ** assert (Y1E : y1 = y) by (unfold y1, m16_takeover; rewrite CND, XS; reflexivity). rewrite Y1E, XS.
                 destruct ST as [PD _]. rewrite PD in KP. split; [exact KP|exact NSE].
              ** assert (Y1E : y1 = y) by (unfold y1, m16_takeover; rewrite CND, XS; reflexivity). rewrite Y1E, XS.
                 destruct ST as [PD _]. rewrite PD in KP. split; [exact KP|exact NSE].
              ** assert (Y1E : y1 = y) by (unfold y1, m16_takeover; rewrite CND, XS; reflexivity). rewrite Y1E, XS.
                 intros [AR|H]; [|contradiction]. destruct AR as [FL PHN]. rewrite KW in FL.
                 assert (AR0 : is_armed eo) by (split; [exact FL|intro PD; rewrite PD in KP; congruence]).
                 destruct (ST (or_introl AR0)) as [TOL D]. split; [apply tol_mono, TOL|]. intros _. rewrite KW. apply D, AR0.
              ** assert (Y1E : y1 = y) by (unfold y1, m16_takeover; rewrite CND, XS; reflexivity). rewrite Y1E, XS.
                 destruct ST as [PD _]. rewrite PD in KP. split; [exact KP|]. intro H. contradiction.
        -- (* any other connection *)
           destruct (wk_obj_fwd s s' _ oy (OTH c' EQ NR) GY) as (oy' & GY' & EY). destruct (wk_wkn _ _ EY) as [EK EWl].
           assert (OBJ : exists o', get_obj (x_conn y) (st_objs s') = Some o' /\ wkn o' = wkn oy /\ (o_will o' = o_will oy \/ w_flag (o_will o') = false))
             by (exists oy'; rewrite YC; auto).
           assert (NM : memN c' cl = false).
           { destruct (memN c' cl) eqn:M; [|reflexivity]. destruct (CLS c' M) as (eo & CO & EE & _). destruct (NR eo CO EE). }
           assert (MK : m16_mark b y1 = y1).
           { unfold m16_mark. fold cl. rewrite Y1C, NM, andb_false_r. reflexivity. }
           rewrite MK.
           assert (OPEN_NE : x_open y = true -> beq_bytes (x_id y) e = false).
           { intro XY. destruct (beq_bytes (x_id y) e) eqn:BE; [|reflexivity]. exfalso. apply bb_eq in BE.
             rewrite (pc_open _ _ _ _ _ _ PY) in XY. destruct (wf_open s W c' oy GY XY) as (AO & _).
             rewrite <- (pc_id _ _ _ _ _ _ PY), BE in AO. apply (NR oy); [unfold client_of; rewrite AO; exact GY|symmetry; apply (get_obj_conn _ _ _ GY)]. }
           destruct (beq_bytes (x_id y) e && negb (x_conn y =? c)) eqn:CND.
           2:{ assert (E1 : y1 = y) by (unfold y1, m16_takeover; rewrite CND; reflexivity). rewrite E1.
               apply (pc_frame k s s' h0 b y oy py PY); [exact OBJ|exact SUBY|exact VS]. }
           apply andb_true_iff in CND. destruct CND as [BE _].
           assert (YCL : x_open y = false) by (destruct (x_open y) eqn:XY; [rewrite (OPEN_NE eq_refl) in BE; discriminate|reflexivity]).
           assert (NSE : ~ srcE s' c').
           { apply (GONE c' oy GY). rewrite <- (pc_id _ _ _ _ _ _ PY). apply bb_eq, BE. }
           destruct (x_wst y) as [| | |t due0| | | |] eqn:XS;
             try (assert (E1 : y1 = y) by (unfold y1, m16_takeover; rewrite XS; destruct (beq_bytes (x_id y) e && negb (x_conn y =? c)); reflexivity); rewrite E1;
                  apply (pc_frame k s s' h0 b y oy py PY); [exact OBJ|exact SUBY|exact VS]).
           ++ rewrite ST in YCL. discriminate.
           ++ destruct ST as (PD & _). destruct (wkn_fields _ _ EK) as (_ & _ & _ & _ & KP).
              assert (E1 : y1 = set_wst y (if cp_clean p then WFailed else WCancelled)).
              { unfold y1, m16_takeover. rewrite XS, BE.
                assert (NC : negb (x_conn y =? c) = true) by (rewrite YC; destruct (c' =? c) eqn:E2; [apply N.eqb_eq in E2; congruence|reflexivity]).
                rewrite NC. cbn [andb]. destruct (cp_clean p); reflexivity. }
              rewrite E1. pose proof GY' as GY'y. rewrite <- YC in GY'y.
              refine (pc_frame2 k s s' h0 b y oy py oy' _ PY GY'y EK (or_introl EWl) SUBY VS _ _).
              ** intro H. congruence.
              ** unfold status_ok. cbn [x_wst set_wst x_with x_conn]. rewrite YC. destruct (cp_clean p).
                 --- split; [congruence|]. intro H. contradiction.
                 --- intros [[_ AR]|H]; [congruence|contradiction].
    + intros c' oc' GC'. rewrite FF. destruct (c' =? c) eqn:EQ; [eexists; reflexivity|]. apply N.eqb_neq in EQ.
      assert (EXS : exists oc, get_obj c' (st_objs s) = Some oc).
      { destruct (client_of s e) as [eo|] eqn:CO.
        - destruct (N.eq_dec c' (o_conn eo)) as [E|NE].
          + destruct (client_of_reg s e eo W CO) as (_ & GE & _). exists eo. rewrite E. exact GE.
          + destruct (wk_obj_back s s' _ oc' (OTH c' EQ (fun eo' H => ltac:(inversion H; subst; exact NE))) GC') as (oc & GC & _). exists oc. exact GC.
        - destruct (wk_obj_back s s' _ oc' (OTH c' EQ (fun eo' H => ltac:(discriminate H))) GC') as (oc & GC & _). exists oc. exact GC. }
      destruct EXS as (oc & GC). destruct (KO c' oc GC) as (y & FY). rewrite FY. eexists. reflexivity.
  - rewrite VV. unfold lost_viols. apply flat_map_tag. intros x _.
    destruct (beq_bytes (x_id x) e && negb (x_conn x =? c) && cp_clean p && negb (published_in [] (x_conn x))) eqn:CND; [|constructor].
    destruct (x_wst x); try (constructor; fail). constructor; [|constructor]. split; [reflexivity|]. right. right. right. right. split; [reflexivity|].
    exists c, now, p, true, e. split; [exact BOP|]. apply andb_true_iff in CND. destruct CND as [CND _]. apply andb_true_iff in CND. tauto.
Qed.

(* =====================================================================================
   Part 4: the step theorem and the theorem over all histories *)
Theorem m16_step_KI k m s h0 o :
  KI k m s h0 -> sane_op s o ->
  KI k (fst (m16_step k (length h0) m (obs_of (tstep_of k s o)))) (fst (step k s o)) (h0 ++ [obs_of (tstep_of k s o)]) /\
  Forall (fun v => v_step v = length h0 /\ expl k (h0 ++ [obs_of (tstep_of k s o)]) (obs_of (tstep_of k s o)) v)
         (snd (m16_step k (length h0) m (obs_of (tstep_of k s o)))).
Proof.
  intros K SO. pose proof (ki_inv _ _ _ _ K) as V. pose proof (ki_wwf _ _ _ _ K) as WW.
  pose proof (step_inv k s o V) as V'. pose proof (step_wwf k s o V WW) as WW'.
  pose proof (fresh_step k s o h0 (proj1 V) (ki_fresh _ _ _ _ K)) as KF'.
  pose proof (step_msum k s o V (ww_nodup s WW)) as MS.
  set (b := obs_of (tstep_of k s o)) in *.
  assert (BF : b_op b = o /\ b_outs b = snd (step k s o) /\ b_pre b = snap_of s) by (subst b; unfold obs_of, tstep_of; cbn; auto).
  destruct BF as (BOP & BO & BPRE). clearbody b.
  destruct (step k s o) as [s' outs]. cbn [fst snd] in *.
  destruct MS as [WS TW WO CL QO|c now ob normal EO R M|c now ob -> G PH M|now -> WC TI TN WO CL|c now p e sp -> HS MU SC MA]; cbn [fst snd] in *.
  - destruct (ki_quiet k m s h0 o s' outs b K BOP BO BPRE WS TW WO CL QO V' WW' KF') as [K' E]. split; [exact K'|rewrite E; constructor].
  - apply (ki_end k m s h0 o s' outs b c now ob normal K SO BOP BO BPRE EO R M V' WW' KF').
  - apply (ki_teardown k m s h0 s' outs b c now ob K BOP BO G PH M V' WW' KF').
  - apply (ki_tick k m s h0 now s' outs b K BOP BO WC TI WO CL V' WW' KF').
  - apply (ki_accept k m s h0 s' outs b c now p e sp K SO BOP BO BPRE HS MU SC MA V' WW' KF').
Qed.

(* For every history of operations whose DISCONNECT properties and will delays are decodable
   (sane_ops), every violation the C16 monitor reports on the model's trace either carries one of the
   liveness tags that this theorem does not cover (uncovered: V16_missing, V16_missing_takeover,
   V16_late, V16_retain) or is a known finding (kf_of names the predicate). *)
Theorem mon16_explained k ops : sane_ops k init ops ->
  Forall (good k (map obs_of (trace k init ops))) (mon16 k (map obs_of (trace k init ops))).
Proof.
  intro S. unfold mon16.
  apply (run_mon_hist k (m16_step k) (good k) (KI k)) with (h0 := []); [|apply KI_init|exact S].
  intros m s h0 o K SO. destruct (m16_step_KI k m s h0 o K SO) as [K' F]. split; [exact K'|].
  eapply Forall_impl; [|exact F]. intros v [VS E] r. cbn beta in *.
  apply (expl_good k _ (obs_of (tstep_of k s o)) v); rewrite VS; [rewrite upto_app; exact E|apply nth_obs_app].
Qed.

(* the three clauses without any finding are never violated *)
Lemma kf_none_tag k h v : (v_tag v = V16_unexpected \/ v_tag v = V16_after_normal \/ v_tag v = V16_content) -> kf_of k h v = None.
Proof.
  intro T. unfold kf_of, KF_C16_takeover_delayed, KF_C16_delay_uncapped, KF_C16_delay_fixed_at_connect, KF_C16_clean_reconnect, KF_C16_delayed_retain_gone.
  destruct T as [T|[T|T]]; rewrite T; reflexivity.
Qed.

Theorem mon16_safety_clauses k ops : sane_ops k init ops ->
  Forall (fun v => v_tag v <> V16_unexpected /\ v_tag v <> V16_after_normal /\ v_tag v <> V16_content)
         (mon16 k (map obs_of (trace k init ops))).
Proof.
  intro S. eapply Forall_impl; [|apply (mon16_explained k ops S)]. intros v [U|KFN].
  - repeat split; intro T; rewrite T in U; discriminate U.
  - repeat split; intro T; apply KFN, kf_none_tag; auto.
Qed.

(* =====================================================================================
   Part 5: the order of the delayed-will table is immaterial.  sendDelayedLWT ranges over a Go map, so
   the real broker handles the due entries of one tick in an arbitrary order; the replay engine
   (Session/LifeEngine.v [reorder_wills]) rearranges the model's table into the observed order before a
   tick.  The rearrangement is a permutation, and the invariants of this file (hence the theorems
   above, which hold from every state satisfying [KI]) do not depend on the order of the table. *)
From Coq Require Import Permutation.
From MV Require Import Session.LifeEngine.

Lemma perm_filter_split {A} (p : A -> bool) (l : list A) : Permutation (filter p l ++ filter (fun x => negb (p x)) l) l.
Proof.
  induction l as [|a r IH]; cbn; [constructor|]. destruct (p a); cbn.
  - constructor. exact IH.
  - apply Permutation_sym. apply Permutation_cons_app. apply Permutation_sym. exact IH.
Qed.

Lemma fm_ext_in {A B} (f g : A -> list B) l : (forall a, In a l -> f a = g a) -> flat_map f l = flat_map g l.
Proof. intro H. induction l as [|a r IH]; cbn; [reflexivity|]. rewrite (H a (or_introl eq_refl)), IH; [reflexivity|]. intros b I. apply H. right. exact I. Qed.

Lemma nodup_dedupN l : NoDup (dedupN l).
Proof.
  induction l as [|c r IH]; cbn; [constructor|]. constructor; [|apply NoDup_filter, IH].
  intro H. apply filter_In in H. destruct H as [_ H]. rewrite N.eqb_refl in H. discriminate.
Qed.

Lemma reorder_perm_gen {A} (key : A -> N) (ord : list N) : NoDup ord -> forall l : list A,
  Permutation (flat_map (fun c => filter (fun e => key e =? c) l) ord ++ filter (fun e => negb (memN (key e) ord)) l) l.
Proof.
  induction 1 as [|c r NI ND IH]; intro l.
  - cbn [flat_map app]. rewrite (filter_ext_in _ (fun _ => true)); [|intros a _; destruct (memN (key a) []) eqn:M; [apply memN_true in M; destruct M|reflexivity]].
    clear. induction l; cbn; [constructor|constructor; assumption].
  - cbn [flat_map]. rewrite <- app_assoc.
    set (l' := filter (fun e => negb (key e =? c)) l).
    assert (E1 : flat_map (fun c0 => filter (fun e => key e =? c0) l) r = flat_map (fun c0 => filter (fun e => key e =? c0) l') r).
    { apply fm_ext_in. intros c0 I0. subst l'. clear - NI I0. induction l as [|a t IHl]; cbn; [reflexivity|].
      destruct (key a =? c0) eqn:E0; destruct (key a =? c) eqn:Ec; cbn; rewrite ?E0, ?IHl; try reflexivity.
      apply N.eqb_eq in E0, Ec. exfalso. apply NI. congruence. }
    assert (E2 : filter (fun e => negb (memN (key e) (c :: r))) l = filter (fun e => negb (memN (key e) r)) l').
    { subst l'. clear. induction l as [|a t IHl]; cbn; [reflexivity|]. rewrite used_cons_l.
      destruct (key a =? c); cbn; [exact IHl|]. destruct (memN (key a) r); cbn; rewrite IHl; reflexivity. }
    rewrite E1, E2. eapply Permutation_trans; [apply Permutation_app_head, IH|].
    subst l'. apply (perm_filter_split (fun e => key e =? c) l).
Qed.

Lemma reorder_wills_perm order s : Permutation (st_wills (reorder_wills order s)) (st_wills s).
Proof. unfold reorder_wills. cbn [st_wills set_wills]. apply (reorder_perm_gen (fun e => d_conn (snd e)) _ (nodup_dedupN order)). Qed.

Lemma srcE_perm s l c : Permutation l (st_wills s) -> (srcE (set_wills s l) c <-> srcE s c).
Proof.
  intro PM. unfold srcE. cbn [st_wills set_wills]. split; intros (id & d & I & E); exists id, d; (split; [|exact E]).
  - apply (Permutation_in _ PM), I.
  - apply (Permutation_in _ (Permutation_sym PM)), I.
Qed.

Lemma KI_perm k m s h0 l : KI k m s h0 -> Permutation l (st_wills s) -> KI k m (set_wills s l) h0.
Proof.
  intros [V [ND WD] NK KX KO KF] PM.
  assert (IN : forall x, In x l <-> In x (st_wills s)).
  { intro x. split; [apply (Permutation_in _ PM)|apply (Permutation_in _ (Permutation_sym PM))]. }
  split; auto.
  - destruct V as [[U N R O H] X]. split; [split; assumption|exact X].
  - split; cbn [st_wills set_wills st_objs].
    + apply (Permutation_NoDup (Permutation_map fst (Permutation_sym PM)) ND).
    + intros id d I. apply WD, IN, I.
  - intros c x F. destruct (KX c x F) as (o & p & [G PA I V1 OV CL WI DL OP LV FL EN VW SN ST]). exists o, p.
    split; auto; cbn [st_wills set_wills st_objs].
    + intros id d II DC. apply (EN id d); [apply IN, II|exact DC].
    + pose proof (srcE_perm s l (x_conn x) PM) as SE. unfold status_ok in *. destruct (x_wst x).
      * destruct ST as [A B]. split; [exact A|]. intro H. apply B, SE, H.
      * exact ST.
      * exact ST.
      * destruct ST as (A & B & C). split; [exact A|split; [exact B|]]. intros id d II DC. apply (C id d); [apply IN, II|exact DC].
      * destruct ST as [A B]. split; [exact A|]. intro H. apply B, SE, H.
      * destruct ST as [A B]. split; [exact A|]. intro H. apply B, SE, H.
      * intros [AR|H]; [apply ST; left; exact AR|apply ST; right; apply SE, H].
      * destruct ST as [A B]. split; [exact A|]. intro H. apply B, SE, H.
Qed.

(* the theorem from any state that satisfies the invariant (in particular after the table has been
   rearranged, [KI_perm]) *)
Theorem mon16_explained_from k m s h0 ops : KI k m s h0 -> sane_ops k s ops ->
  Forall (good k (h0 ++ map obs_of (trace k s ops))) (run_mon (m16_step k) (length h0) m (map obs_of (trace k s ops))).
Proof.
  intros K S. apply (run_mon_hist k (m16_step k) (good k) (KI k)); [|exact K|exact S].
  intros m1 s1 h1 o K1 SO. destruct (m16_step_KI k m1 s1 h1 o K1 SO) as [K' F]. split; [exact K'|].
  eapply Forall_impl; [|exact F]. intros v [VS E] r. cbn beta in *.
  apply (expl_good k _ (obs_of (tstep_of k s1 o)) v); rewrite VS; [rewrite upto_app; exact E|apply nth_obs_app].
Qed.
