(* WIP *)
(* C16 — the specification monitor mon16 on the traces of the life-cycle model: every violation it
   reports with a safety tag is a known finding.  Part 1: exact effect of every operation on the
   will-relevant part of the state (object fields id / version / expiry / open / phase / will, the
   delayed-will table, the will publications and the closes among the outputs). *)
From MV Require Import Base.Val Session.Lifecycle Session.LifeSpec Session.LifeKF Session.LifeBase Session.LifeInv
  Session.LifeProofs13 Session.LifeProofs14 Session.LifeProofs15 Session.LifeProofs16.
From Coq Require Import Lia ZifyBool ZifyN ZifyNat.
Open Scope N_scope.

(* ---------- the will-relevant projection of an object ---------- *)
Definition wk (o : cobj) := (o_id o, o_ver o, o_sei o, o_open o, o_phase o, o_will o).

Definition wsame (s s' : state) : Prop := same_pr wk s s'.

Lemma wk_session o a b : wk (with_session o a b) = wk o.
Proof. reflexivity. Qed.
Lemma wk_tko o : wk (with_tko o) = wk o.
Proof. reflexivity. Qed.

(* respects the projection *)
Definition wresp (g : cobj -> cobj) : Prop := forall a b, wk a = wk b -> wk (g a) = wk (g b).

Lemma wk_fields a b : wk a = wk b ->
  o_id a = o_id b /\ o_ver a = o_ver b /\ o_sei a = o_sei b /\ o_open a = o_open b /\ o_phase a = o_phase b /\ o_will a = o_will b.
Proof. unfold wk. intro H. inversion H. auto 10. Qed.

Lemma wresp_stopped now : wresp (fun o => stopped o now).
Proof.
  intros a b H. destruct (wk_fields a b H) as (A & B & C & D & E & F). unfold stopped. rewrite D. destruct (o_open b); [|exact H].
  unfold wk. cbn. rewrite A, B, C, E, F. reflexivity.
Qed.
Lemma wresp_will (f : will -> will) : wresp (fun o => with_will o (f (o_will o))).
Proof. intros a b H. destruct (wk_fields a b H) as (A & B & C & D & E & F). unfold wk. cbn. rewrite ?A, ?B, ?C, ?D, ?E, ?F. reflexivity. Qed.
Lemma wresp_phase ph : wresp (fun o => with_phase o ph).
Proof. intros a b H. destruct (wk_fields a b H) as (A & B & C & D & E & F). unfold wk. cbn. rewrite ?A, ?B, ?C, ?D, ?E, ?F. reflexivity. Qed.
Lemma wresp_sei v fl : wresp (fun o => with_sei o v fl).
Proof. intros a b H. destruct (wk_fields a b H) as (A & B & C & D & E & F). unfold wk. cbn. rewrite ?A, ?B, ?C, ?D, ?E, ?F. reflexivity. Qed.
Lemma wresp_id : wresp (fun o => o).
Proof. intros a b H. exact H. Qed.
Lemma wresp_comp g1 g2 : wresp g1 -> wresp g2 -> wresp (fun o => g2 (g1 o)).
Proof. intros A B a b H. apply B, A, H. Qed.

(* the objects other than c keep their projection; the object of c is transformed by g *)
Definition wupd (s s' : state) (c : N) (g : cobj -> cobj) : Prop :=
  (forall c', c' <> c -> option_map wk (get_obj c' (st_objs s')) = option_map wk (get_obj c' (st_objs s))) /\
  (forall o, get_obj c (st_objs s) = Some o -> exists o', get_obj c (st_objs s') = Some o' /\ wk o' = wk (g o)) /\
  (get_obj c (st_objs s) = None -> get_obj c (st_objs s') = None).

Lemma wsame_wupd s s' c : wsame s s' -> wupd s s' c (fun o => o).
Proof.
  intro H. split; [intros c' _; apply H|]. split.
  - intros o G. specialize (H c). rewrite G in H. destruct (get_obj c (st_objs s')) as [o'|]; [|discriminate].
    exists o'. split; [reflexivity|]. cbn in H. congruence.
  - intro G. specialize (H c). rewrite G in H. destruct (get_obj c (st_objs s')); [discriminate|reflexivity].
Qed.

Lemma wupd_trans s s1 s2 c g1 g2 : wresp g2 -> wupd s s1 c g1 -> wupd s1 s2 c g2 -> wupd s s2 c (fun o => g2 (g1 o)).
Proof.
  intros R (A1 & B1 & C1) (A2 & B2 & C2). split; [intros c' N; rewrite (A2 c' N); apply (A1 c' N)|]. split.
  - intros o G. destruct (B1 o G) as (o1 & G1 & E1). destruct (B2 o1 G1) as (o2 & G2 & E2). exists o2. split; [exact G2|].
    rewrite E2. apply R, E1.
  - intro G. apply C2, C1, G.
Qed.

Lemma wupd_ext s s' c g g' : (forall o, wk (g o) = wk (g' o)) -> wupd s s' c g -> wupd s s' c g'.
Proof.
  intros E (A & B & C). split; [exact A|]. split; [|exact C]. intros o G. destruct (B o G) as (o' & G' & EE). exists o'. split; [exact G'|]. rewrite EE. apply E.
Qed.

Lemma wupd_upd s c o g : get_obj c (st_objs s) = Some o -> o_conn (g o) = c -> wupd s (upd_obj s (g o)) c g.
Proof.
  intros G CG. split; [|split].
  - intros c' N. unfold upd_obj. cbn. rewrite get_put_other by (rewrite CG; exact N). reflexivity.
  - intros o0 G0. rewrite G in G0. inversion G0; subst o0. exists (g o). split; [|reflexivity].
    unfold upd_obj. cbn. rewrite <- CG at 1. apply get_put_same.
  - intro GN. congruence.
Qed.

Lemma wupd_match s c g : (forall x, o_conn (g x) = o_conn x) ->
  wupd s (match get_obj c (st_objs s) with Some x => upd_obj s (g x) | None => s end) c g.
Proof.
  intro H. destruct (get_obj c (st_objs s)) as [x|] eqn:G.
  - apply wupd_upd; [exact G|rewrite H; apply (get_obj_conn _ _ _ G)].
  - split; [intros; reflexivity|]. split; [intros o GG; congruence|auto].
Qed.

(* ---------- outputs: will publications and closes ---------- *)
Lemma wills_of_app a b : wills_of (a ++ b) = wills_of a ++ wills_of b.
Proof. unfold wills_of. apply flat_map_app. Qed.

Lemma no_wills_nil outs : no_wills outs -> wills_of outs = [].
Proof.
  intro H. induction outs as [|x r IH]; [reflexivity|].
  assert (Hr : no_wills r).
  { intro c. specialize (H c). unfold wills_for in *. cbn [flat_map] in H. apply app_eq_nil in H. tauto. }
  destruct x; cbn; try (apply IH, Hr). specialize (H c). unfold wills_for in H. cbn [flat_map] in H. rewrite N.eqb_refl in H. discriminate.
Qed.

Lemma no_closes_nil outs : no_closes outs -> closes outs = [].
Proof.
  intro H. destruct (closes outs) as [|c r] eqn:E; [reflexivity|]. exfalso. apply (H c). apply in_closes. rewrite E. left. reflexivity.
Qed.

(* an operation part that changes nothing will-relevant *)
Definition quiet (s : state) (r : state * list out) : Prop :=
  wsame s (fst r) /\ st_wills (fst r) = st_wills s /\ wills_of (snd r) = [] /\ closes (snd r) = [].

Lemma quiet_refl s : quiet s (s, []).
Proof. repeat split. Qed.

Lemma deliver_wills_tbl k m ix : forall s, st_wills (fst (deliver k m ix s)) = st_wills s.
Proof.
  induction ix as [|[[id f] q] r IH]; intro s; cbn [deliver]; [reflexivity|].
  destruct (beq_bytes f (m_topic m)); [|apply IH]. destruct (client_of s id); [|apply IH].
  match goal with |- context [deliver k m r ?sx] => specialize (IH sx); destruct (deliver k m r sx) as [s'' outs] end.
  cbn [fst] in *. rewrite IH. reflexivity.
Qed.

Lemma deliver_quiet k m ix s : quiet s (deliver k m ix s).
Proof.
  split; [apply deliver_same_pr; intros; reflexivity|]. split; [apply deliver_wills_tbl|].
  split; [apply no_wills_nil, deliver_no_wills|apply no_closes_nil, deliver_no_closes].
Qed.

Lemma retain_msg_objs k m s : st_objs (retain_msg k m s) = st_objs s /\ st_wills (retain_msg k m s) = st_wills s.
Proof. unfold retain_msg. destruct (k_retain k); [|auto]. destruct (m_payload m); auto. Qed.

Lemma wsame_objs s s' : st_objs s' = st_objs s -> wsame s s'.
Proof. intros E c. rewrite E. reflexivity. Qed.

Lemma wsame_trans a b c : wsame a b -> wsame b c -> wsame a c.
Proof. apply same_pr_trans. Qed.

Lemma unsubscribe_client_wills c s : st_wills (unsubscribe_client c s) = st_wills s.
Proof. unfold unsubscribe_client. destruct (get_obj c (st_objs s)) as [o|]; [|reflexivity]. destruct (o_tko o); reflexivity. Qed.
Lemma clear_inflights_wills c s : st_wills (clear_inflights c s) = st_wills s.
Proof. unfold clear_inflights. destruct (get_obj c (st_objs s)); reflexivity. Qed.
Lemma unsubscribe_client_wsame c s : wsame s (unsubscribe_client c s).
Proof. apply unsubscribe_client_same_pr. intros; reflexivity. Qed.
Lemma clear_inflights_wsame c s : wsame s (clear_inflights c s).
Proof. apply clear_inflights_same_pr. intros; reflexivity. Qed.

(* ---------- sendLWT, DisconnectClient, the handler tail ---------- *)
Definition eff (s : state) (r : state * list out) (c : N) (g : cobj -> cobj) (tbl : list (bytes * dwill))
    (ws : list (N * msg)) (cl : list N) : Prop :=
  wupd s (fst r) c g /\ st_wills (fst r) = tbl /\ wills_of (snd r) = ws /\ closes (snd r) = cl.

Definition pub_now (o : cobj) : bool := w_flag (o_will o) && negb (0 <? w_delay (o_will o)).
Definition reg_now (o : cobj) : bool := w_flag (o_will o) && (0 <? w_delay (o_will o)).
Definition entry_of (c : N) (now : Z) (o : cobj) : dwill :=
  {| d_conn := c; d_due := (now + Z.of_N (w_delay (o_will o)))%Z; d_msg := will_msg (o_will o) |}.
Definition g_lwt (pub : bool) (x : cobj) : cobj := if pub then with_will x (will_clear_flag (o_will x)) else x.

Lemma wresp_lwt pub : wresp (g_lwt pub).
Proof. unfold g_lwt. destruct pub; [apply (wresp_will will_clear_flag)|apply wresp_id]. Qed.

Lemma send_lwt_eff k now c s o : get_obj c (st_objs s) = Some o ->
  eff s (send_lwt k now c s) c (g_lwt (pub_now o))
      (if reg_now o then aset (o_id o) (entry_of c now o) (st_wills s) else st_wills s)
      (if pub_now o then [(c, will_msg (o_will o))] else []) [].
Proof.
  intro G. unfold send_lwt, pub_now, reg_now, g_lwt. rewrite G.
  destruct (w_flag (o_will o)) eqn:F; cbn [negb andb].
  2:{ split; [apply wsame_wupd, same_pr_refl|repeat split]. }
  destruct (0 <? w_delay (o_will o)) eqn:D; cbn [negb].
  - split; [apply wsame_wupd; intro x; reflexivity|repeat split].
  - set (s1 := if w_retain (o_will o) then retain_msg k (will_msg (o_will o)) s else s).
    assert (E1 : st_objs s1 = st_objs s /\ st_wills s1 = st_wills s).
    { subst s1. destruct (w_retain (o_will o)); [apply retain_msg_objs|auto]. }
    destruct E1 as [EO EW]. unfold publish.
    pose proof (deliver_quiet k (will_msg (o_will o)) (st_index s1) s1) as (Q1 & Q2 & Q3 & Q4).
    destruct (deliver k (will_msg (o_will o)) (st_index s1) s1) as [s2 outs]. cbn [fst snd] in *.
    assert (WS : wsame s s2) by (eapply wsame_trans; [apply wsame_objs, EO|exact Q1]).
    pose proof (wsame_wupd s s2 c WS) as (A1 & B1 & C1). destruct (B1 o G) as (o2 & G2 & E2). rewrite G2.
    split; [|split; [cbn; congruence|split]].
    + apply (wupd_trans s s2 _ c (fun x => x) (fun x => with_will x (will_clear_flag (o_will x)))).
      * apply (wresp_will will_clear_flag).
      * apply wsame_wupd, WS.
      * apply (wupd_upd s2 c o2 (fun x => with_will x (will_clear_flag (o_will x)))); [exact G2|cbn; apply (get_obj_conn _ _ _ G2)].
    + cbn [snd]. change (wills_of (OWill c (will_msg (o_will o)) :: outs ++ [OWillSent (o_id o)]))
        with ((c, will_msg (o_will o)) :: wills_of (outs ++ [OWillSent (o_id o)])).
      rewrite wills_of_app, Q3. reflexivity.
    + cbn [snd]. change (closes (OWill c (will_msg (o_will o)) :: outs ++ [OWillSent (o_id o)])) with (closes (outs ++ [OWillSent (o_id o)])).
      rewrite closes_app, Q4. reflexivity.
Qed.

Lemma disconnect_client_eff now c code s o : get_obj c (st_objs s) = Some o ->
  eff s (disconnect_client now c code s) c (fun x => stopped x now) (st_wills s) [] (if o_open o then [c] else []).
Proof.
  intro G. unfold disconnect_client. rewrite G. destruct (o_open o) eqn:OO.
  - split; [|repeat split]. cbn [fst]. apply (wupd_upd s c o (fun x => stopped x now)); [exact G|rewrite stopped_conn; apply (get_obj_conn _ _ _ G)].
  - split; [|repeat split]. cbn [fst]. split; [intros; reflexivity|]. split; [|auto].
    intros o0 G0. exists o0. split; [exact G0|]. rewrite G in G0. inversion G0; subst o0. unfold stopped. rewrite OO. reflexivity.
Qed.

Definition g_tail (err pub : bool) (now : Z) (x : cobj) : cobj :=
  with_phase (if err then stopped (g_lwt pub x) now else with_will x no_will) PhDone.

Lemma wresp_const_will w : wresp (fun o => with_will o w).
Proof. apply (wresp_will (fun _ => w)). Qed.

Lemma handler_tail_eff k now c err s o : get_obj c (st_objs s) = Some o ->
  eff s (handler_tail k now c err s) c (g_tail err (pub_now o) now)
      (if err && reg_now o then aset (o_id o) (entry_of c now o) (st_wills s) else st_wills s)
      (if err && pub_now o then [(c, will_msg (o_will o))] else [])
      (if err && o_open o then [c] else []).
Proof.
  intro G. unfold handler_tail.
  assert (A : eff s (if err then send_lwt k now c s else (s, [])) c (if err then g_lwt (pub_now o) else (fun x => x))
                (if err && reg_now o then aset (o_id o) (entry_of c now o) (st_wills s) else st_wills s)
                (if err && pub_now o then [(c, will_msg (o_will o))] else []) []).
  { destruct err; cbn [andb]; [apply send_lwt_eff, G|]. split; [apply wsame_wupd, same_pr_refl|repeat split]. }
  destruct (if err then send_lwt k now c s else (s, [])) as [s1 o1]. destruct A as (U1 & T1 & W1 & C1). cbn [fst snd] in *.
  destruct U1 as (UA & UB & UC). destruct (UB o G) as (x1 & G1 & E1). rewrite G1.
  assert (OX : o_open x1 = o_open o).
  { destruct (wk_fields _ _ E1) as (_ & _ & _ & OO & _). rewrite OO. destruct err; [|reflexivity]. unfold g_lwt. destruct (pub_now o); reflexivity. }
  set (g' := fun x : cobj => if err then stopped x now else with_will x no_will).
  set (s2 := upd_obj s1 (g' x1)).
  assert (U2 : wupd s1 s2 c g').
  { apply (wupd_upd s1 c x1 g'); [exact G1|]. subst g'. cbn beta. destruct err; [rewrite stopped_conn|cbn]; apply (get_obj_conn _ _ _ G1). }
  set (s3 := if expire_cond (g' x1) && negb (o_tko (g' x1))
             then set_clients (unsubscribe_client c (clear_inflights c s2)) (adel (o_id (g' x1)) (st_clients s2)) else s2).
  assert (U3 : wsame s2 s3 /\ st_wills s3 = st_wills s2).
  { subst s3. destruct (expire_cond (g' x1) && negb (o_tko (g' x1))); [|split; [apply same_pr_refl|reflexivity]]. split.
    - eapply wsame_trans; [apply clear_inflights_wsame|]. eapply wsame_trans; [apply unsubscribe_client_wsame|apply wsame_objs; reflexivity].
    - cbn. rewrite unsubscribe_client_wills, clear_inflights_wills. reflexivity. }
  destruct U3 as [U3 T3].
  pose proof (wupd_match s3 c (fun x => with_phase x PhDone) (fun x => eq_refl)) as U4.
  set (s4 := match get_obj c (st_objs s3) with Some x => upd_obj s3 (with_phase x PhDone) | None => s3 end) in *.
  assert (T4 : st_wills s4 = st_wills s3) by (subst s4; destruct (get_obj c (st_objs s3)); reflexivity).
  change (eff s (s4, o1 ++ (if err && o_open x1 then [OClose c] else []) ++ [ODisconnected (o_id (g' x1)) (expire_cond (g' x1))]) c
            (g_tail err (pub_now o) now)
            (if err && reg_now o then aset (o_id o) (entry_of c now o) (st_wills s) else st_wills s)
            (if err && pub_now o then [(c, will_msg (o_will o))] else [])
            (if err && o_open o then [c] else [])).
  split; [|split; [cbn [fst]; rewrite T4, T3; subst s2; cbn; exact T1|split]].
  - cbn [fst].
    assert (WG : wresp g') by (subst g'; destruct err; [apply wresp_stopped|apply wresp_const_will]).
    pose proof (wupd_trans s s1 s2 c _ g' WG (conj UA (conj UB UC)) U2) as V2.
    pose proof (wupd_trans s s2 s3 c _ (fun x => x) wresp_id V2 (wsame_wupd s2 s3 c U3)) as V3.
    pose proof (wupd_trans s s3 s4 c _ (fun x => with_phase x PhDone) (wresp_phase PhDone) V3 U4) as V4.
    eapply wupd_ext; [|exact V4]. intro x. unfold g_tail. subst g'. cbn beta. destruct err; reflexivity.
  - cbn [snd]. rewrite !wills_of_app, W1. rewrite OX. destruct (err && o_open o); cbn; rewrite app_nil_r; reflexivity.
  - cbn [snd]. rewrite !closes_app, C1, OX. destruct (err && o_open o); reflexivity.
Qed.

(* ---------- the end of connection c's handler (its own end, or its teardown after a takeover) ---------- *)
Definition mend (s : state) (r : state * list out) (c : N) (now : Z) (ob : cobj) (normal : bool) : Prop :=
  (forall c', c' <> c -> option_map wk (get_obj c' (st_objs (fst r))) = option_map wk (get_obj c' (st_objs s))) /\
  (exists o', get_obj c (st_objs (fst r)) = Some o' /\ o_id o' = o_id ob /\ o_ver o' = o_ver ob /\ o_open o' = false /\
              o_phase o' = PhDone /\ o_will o' = if normal then no_will else o_will (g_lwt (pub_now ob) ob)) /\
  st_wills (fst r) = (if normal then adel (o_id ob) (st_wills s)
                      else if reg_now ob then aset (o_id ob) (entry_of c now ob) (st_wills s) else st_wills s) /\
  wills_of (snd r) = (if normal then [] else if pub_now ob then [(c, will_msg (o_will ob))] else []) /\
  closes (snd r) = (if o_open ob then [c] else []).

Lemma stopped_fields x now :
  o_id (stopped x now) = o_id x /\ o_ver (stopped x now) = o_ver x /\ o_open (stopped x now) = false /\ o_will (stopped x now) = o_will x.
Proof. unfold stopped. destruct (o_open x) eqn:OO; cbn; auto. Qed.

(* from the effect of the handler tail with an error *)
Lemma mend_of_tail k now c s ob :
  get_obj c (st_objs s) = Some ob -> mend s (handler_tail k now c true s) c now ob false.
Proof.
  intro G. destruct (handler_tail_eff k now c true s ob G) as ((UA & UB & UC) & T & W & C). cbn [andb] in *.
  split; [exact UA|]. split; [|split; [exact T|split; [exact W|exact C]]].
  destruct (UB ob G) as (o' & G' & E). exists o'. split; [exact G'|].
  destruct (wk_fields _ _ E) as (I & V & _ & O & P & WW). unfold g_tail in *. cbn in I, V, O, P, WW.
  destruct (stopped_fields (g_lwt (pub_now ob) ob) now) as (S1 & S2 & S3 & S4).
  rewrite I, V, O, P, WW, S1, S2, S3, S4. unfold g_lwt. destruct (pub_now ob); cbn; auto 10.
Qed.

Lemma aset_idem {V} (k0 : bytes) (v : V) l : aset k0 v (aset k0 v l) = aset k0 v l.
Proof.
  unfold aset, adel. rewrite filter_app. cbn. rewrite bb_refl. cbn. rewrite app_nil_r.
  f_equal. induction l as [|[a b] r IH]; cbn; [reflexivity|]. destruct (beq_bytes a k0) eqn:E; cbn; [exact IH|]. rewrite E. cbn. f_equal. exact IH.
Qed.

(* a change of the object of c before the tail that keeps what matters *)
Lemma mend_pre s s0 r c now ob ob0 normal :
  (forall c', c' <> c -> option_map wk (get_obj c' (st_objs s0)) = option_map wk (get_obj c' (st_objs s))) ->
  st_wills s0 = st_wills s -> o_id ob0 = o_id ob -> o_ver ob0 = o_ver ob -> o_will ob0 = o_will ob -> o_open ob0 = o_open ob ->
  mend s0 r c now ob0 normal -> mend s r c now ob normal.
Proof.
  intros OT TW EI EV EW EO (A & B & T & W & C).
  assert (EP : pub_now ob0 = pub_now ob) by (unfold pub_now; rewrite EW; reflexivity).
  assert (ER : reg_now ob0 = reg_now ob) by (unfold reg_now; rewrite EW; reflexivity).
  assert (EE : entry_of c now ob0 = entry_of c now ob) by (unfold entry_of; rewrite EW; reflexivity).
  split; [intros c' N; rewrite (A c' N); apply (OT c' N)|]. split; [|split; [|split]].
  - destruct B as (o' & G' & I & V & O & P & WW). exists o'. split; [exact G'|]. rewrite I, V, O, P, WW, EP.
    unfold g_lwt. destruct (pub_now ob); cbn; rewrite ?EW; auto 10.
  - rewrite T, TW, EI, ER, EE. reflexivity.
  - rewrite W, EP, EW. reflexivity.
  - rewrite C, EO. reflexivity.
Qed.

Lemma others_upd s o c : o_conn o = c ->
  forall c', c' <> c -> option_map wk (get_obj c' (st_objs (upd_obj s o))) = option_map wk (get_obj c' (st_objs s)).
Proof. intros E c' N. unfold upd_obj. cbn. rewrite get_put_other by (rewrite E; exact N). reflexivity. Qed.

Lemma get_upd_same s o : get_obj (o_conn o) (st_objs (upd_obj s o)) = Some o.
Proof. unfold upd_obj. cbn. apply get_put_same. Qed.

(* a first part that only stops / re-stamps the object of c, then the end of its handler *)
Lemma mend_after s s1 o1 (r : state * list out) c now ob x1 normal :
  (forall c', c' <> c -> option_map wk (get_obj c' (st_objs s1)) = option_map wk (get_obj c' (st_objs s))) ->
  o_id x1 = o_id ob -> o_ver x1 = o_ver ob -> o_will x1 = o_will ob ->
  st_wills s1 = st_wills s -> wills_of o1 = [] ->
  closes o1 ++ (if o_open x1 then [c] else []) = (if o_open ob then [c] else []) ->
  mend s1 r c now x1 normal -> mend s (fst r, o1 ++ snd r) c now ob normal.
Proof.
  intros OT EI EV EW TW W1 CL (A & B & T & W & C).
  assert (EP : pub_now x1 = pub_now ob) by (unfold pub_now; rewrite EW; reflexivity).
  assert (ER : reg_now x1 = reg_now ob) by (unfold reg_now; rewrite EW; reflexivity).
  assert (EE : entry_of c now x1 = entry_of c now ob) by (unfold entry_of; rewrite EW; reflexivity).
  split; [intros c' N; cbn [fst]; rewrite (A c' N); apply (OT c' N)|]. split; [|split; [|split]]; cbn [fst snd].
  - destruct B as (o' & G' & I & V & O & P & WW). exists o'. split; [exact G'|]. rewrite I, V, O, P, WW, EP.
    unfold g_lwt. destruct (pub_now ob); cbn; rewrite ?EW; auto 10.
  - rewrite T, TW, EI, ER, EE. reflexivity.
  - rewrite wills_of_app, W1, W, EP, EW. reflexivity.
  - rewrite closes_app, C. exact CL.
Qed.

Lemma do_netclose_mend k c now s ob : reading s c = Some ob -> mend s (do_netclose k c now s) c now ob false.
Proof. intro R. unfold do_netclose. rewrite R. apply mend_of_tail. apply (reading_obj s c ob R). Qed.

Lemma do_teardown_mend k c now s ob : get_obj c (st_objs s) = Some ob -> o_phase ob = PhHeld ->
  mend s (do_teardown k c now s) c now ob false.
Proof. intros G P. unfold do_teardown. rewrite G, P. apply mend_of_tail, G. Qed.

Definition bad_sei (ob : cobj) (sei : option N) : bool :=
  match sei with Some v => (0 <? v) && (o_sei ob =? 0) | None => false end.

Lemma do_disconnect_mend k c now rc sei s ob : reading s c = Some ob ->
  mend s (do_disconnect k c now rc sei s) c now ob (negb (bad_sei ob sei) && (rc =? 0)).
Proof.
  intro R. destruct (reading_obj s c ob R) as [G OO]. pose proof (get_obj_conn _ _ _ G) as EC.
  unfold do_disconnect, bad_sei. rewrite R.
  destruct (match sei with Some v => (0 <? v) && (o_sei ob =? 0) | None => false end); cbn [negb andb].
  - (* protocol error: DISCONNECT 0x82, then the tail *)
    destruct (disconnect_client_eff now c 130 s ob G) as ((UA & UB & _) & T & W & C). rewrite OO in C.
    destruct (disconnect_client now c 130 s) as [s1 o1]. cbn [fst snd] in *.
    destruct (UB ob G) as (x1 & G1 & E1). destruct (wk_fields _ _ E1) as (I & V & _ & O & _ & WW).
    destruct (stopped_fields ob now) as (S1 & S2 & S3 & S4). rewrite S1 in I. rewrite S2 in V. rewrite S3 in O. rewrite S4 in WW.
    pose proof (mend_after s s1 o1 (handler_tail k now c true s1) c now ob x1 false UA I V WW T W) as M.
    rewrite C, O, OO in M. specialize (M eq_refl (mend_of_tail k now c s1 x1 G1)).
    destruct (handler_tail k now c true s1) as [s2 o2]. exact M.
  - set (o' := match sei with Some v => with_sei ob (if k_maxsei k <? v then k_maxsei k else v) true | None => ob end).
    assert (F' : o_conn o' = c /\ o_id o' = o_id ob /\ o_ver o' = o_ver ob /\ o_will o' = o_will ob /\ o_open o' = o_open ob)
      by (subst o'; destruct sei; cbn; auto 10).
    destruct F' as (C' & I' & V' & W' & O').
    destruct (rc =? 0) eqn:RC; cbn [negb].
    + (* normal: the will is discarded *)
      set (s1 := upd_obj s o').
      set (s2 := set_wills s1 (adel (o_id o') (st_wills s1))).
      set (s3 := upd_obj s2 (stopped o' now)).
      assert (G3 : get_obj c (st_objs s3) = Some (stopped o' now)).
      { subst s3. rewrite <- C' at 1. rewrite <- (stopped_conn o' now). apply get_upd_same. }
      destruct (handler_tail_eff k now c false s3 (stopped o' now) G3) as ((UA & UB & _) & T & W & C). cbn [andb] in *.
      destruct (handler_tail k now c false s3) as [s4 o4]. cbn [fst snd] in *.
      destruct (stopped_fields o' now) as (S1 & S2 & S3 & S4).
      split; [|split; [|split; [|split]]]; cbn [fst snd].
      * intros c' N. rewrite (UA c' N). subst s3.
        rewrite (others_upd s2 (stopped o' now) c (eq_trans (stopped_conn o' now) C') c' N).
        subst s2 s1. cbn [st_objs set_wills]. apply (others_upd s o' c C' c' N).
      * destruct (UB _ G3) as (o4' & G4 & E4). exists o4'. split; [exact G4|].
        destruct (wk_fields _ _ E4) as (I & V & _ & O & P & WW). unfold g_tail in *. cbn in I, V, O, P, WW.
        rewrite I, V, O, P, WW, S1, S2, S3, I', V'. auto 10.
      * rewrite T. subst s3 s2 s1. cbn. rewrite I'. reflexivity.
      * exact W.
      * change (closes (OClose c :: o4)) with (c :: closes o4). rewrite C, OO. reflexivity.
    + (* a reason code other than 0x00: the read loop ends with an error *)
      apply (mend_pre s (upd_obj s o') _ c now ob o' false); auto.
      * apply others_upd, C'.
      * apply mend_of_tail. rewrite <- C' at 1. apply get_upd_same.
Qed.

Lemma do_second_connect_mend k c now s ob : reading s c = Some ob -> mend s (do_second_connect k c now s) c now ob false.
Proof.
  intro R. destruct (reading_obj s c ob R) as [G OO]. unfold do_second_connect. rewrite R.
  destruct (send_lwt_eff k now c s ob G) as ((UA1 & UB1 & _) & T1 & W1 & C1).
  destruct (send_lwt k now c s) as [s1 o1]. cbn [fst snd] in *.
  destruct (UB1 ob G) as (x1 & G1 & E1). destruct (wk_fields _ _ E1) as (I1 & V1 & _ & O1 & _ & WW1).
  assert (F1 : o_id x1 = o_id ob /\ o_ver x1 = o_ver ob /\ o_open x1 = true) by (unfold g_lwt in *; destruct (pub_now ob); cbn in *; rewrite I1, V1, O1; auto).
  destruct F1 as (I1' & V1' & O1').
  (* the second part: DISCONNECT 0x82 for MQTT 5 *)
  assert (A2 : exists x2, get_obj c (st_objs (fst (if o_ver ob =? 5 then disconnect_client now c 130 s1 else (s1, [])))) = Some x2 /\
                 o_id x2 = o_id ob /\ o_ver x2 = o_ver ob /\ o_will x2 = o_will x1 /\
                 (forall c', c' <> c -> option_map wk (get_obj c' (st_objs (fst (if o_ver ob =? 5 then disconnect_client now c 130 s1 else (s1, []))))) =
                                        option_map wk (get_obj c' (st_objs s1))) /\
                 st_wills (fst (if o_ver ob =? 5 then disconnect_client now c 130 s1 else (s1, []))) = st_wills s1 /\
                 wills_of (snd (if o_ver ob =? 5 then disconnect_client now c 130 s1 else (s1, []))) = [] /\
                 closes (snd (if o_ver ob =? 5 then disconnect_client now c 130 s1 else (s1, []))) ++ (if o_open x2 then [c] else []) = [c]).
  { destruct (o_ver ob =? 5).
    - destruct (disconnect_client_eff now c 130 s1 x1 G1) as ((UA & UB & _) & T & W & C). rewrite O1' in C.
      destruct (UB x1 G1) as (x2 & G2 & E2). destruct (wk_fields _ _ E2) as (I & V & _ & O & _ & WW).
      destruct (stopped_fields x1 now) as (S1 & S2 & S3 & S4). exists x2. split; [exact G2|].
      rewrite I, V, WW, S1, S2, S4, C, O, S3. auto 10.
    - exists x1. cbn [fst snd]. rewrite O1'. auto 10. }
  destruct (if o_ver ob =? 5 then disconnect_client now c 130 s1 else (s1, [])) as [s2 o2]. cbn [fst snd] in *.
  destruct A2 as (x2 & G2 & I2 & V2 & WW2 & UA2 & T2 & W2 & C2).
  pose proof (mend_of_tail k now c s2 x2 G2) as (A3 & B3 & T3 & W3 & C3).
  destruct (handler_tail k now c true s2) as [s3 o3]. cbn [fst snd] in *.
  (* what the second sendLWT sees *)
  assert (P2 : pub_now x2 = false /\ reg_now x2 = reg_now ob /\ (reg_now ob = true -> entry_of c now x2 = entry_of c now ob) /\
               o_will (g_lwt (pub_now x2) x2) = o_will (g_lwt (pub_now ob) ob)).
  { assert (WX : o_will x2 = o_will (g_lwt (pub_now ob) ob)) by congruence.
    unfold pub_now, reg_now, entry_of in *. unfold g_lwt in WX |- *.
    destruct (w_flag (o_will ob)) eqn:F; cbn [andb] in *.
    - destruct (0 <? w_delay (o_will ob)) eqn:D; cbn [negb] in *; rewrite WX; cbn; rewrite ?F, ?D; cbn; auto.
    - rewrite WX. cbn. rewrite ?F. cbn. auto. }
  destruct P2 as (P2 & R2 & E2 & WL).
  split; [intros c' N; cbn [fst]; rewrite (A3 c' N), (UA2 c' N); apply (UA1 c' N)|]. split; [|split; [|split]]; cbn [fst snd].
  - destruct B3 as (o' & G' & I & V & O & P & WW). exists o'. split; [exact G'|]. rewrite I, V, O, P, WW, I2, V2, WL. auto 10.
  - rewrite T3, T2, T1, R2, I2. destruct (reg_now ob) eqn:RG; [|reflexivity]. rewrite (E2 eq_refl). apply aset_idem.
  - rewrite !wills_of_app, W1, W2, W3, P2. rewrite app_nil_r. reflexivity.
  - rewrite !closes_app, C1, C3, OO. cbn [app]. exact C2.
Qed.

(* ---------- operations that change nothing will-relevant ---------- *)
Lemma quiet_seq s (r1 : state * list out) (r2 : state * list out) :
  quiet s r1 -> quiet (fst r1) r2 -> quiet s (fst r2, snd r1 ++ snd r2).
Proof.
  intros (A1 & B1 & C1 & D1) (A2 & B2 & C2 & D2). split; [eapply wsame_trans; eassumption|]. cbn [fst snd].
  split; [congruence|]. rewrite wills_of_app, closes_app, C1, C2, D1, D2. auto.
Qed.

Lemma do_subscribe_quiet c f q s : quiet s (do_subscribe c f q s).
Proof.
  unfold do_subscribe. destruct (reading s c) as [o|] eqn:R; [|apply quiet_refl].
  destruct (reading_obj s c o R) as [G _]. split; [|repeat split]. cbn [fst].
  eapply wsame_trans; [|apply wsame_objs; reflexivity].
  apply (same_pr_upd wk s _ o); cbn; [rewrite (get_obj_conn _ _ _ G); exact G|reflexivity].
Qed.

Lemma do_publish_quiet k c m s : quiet s (do_publish k c m s).
Proof.
  unfold do_publish. destruct (reading s c); [|apply quiet_refl].
  set (s1 := if m_retain m then retain_msg k m s else s).
  assert (E1 : st_objs s1 = st_objs s /\ st_wills s1 = st_wills s) by (subst s1; destruct (m_retain m); [apply retain_msg_objs|auto]).
  destruct E1 as [EO EW]. destruct (deliver_quiet k m (st_index s1) s1) as (A & B & C & D). unfold publish.
  split; [eapply wsame_trans; [apply wsame_objs, EO|exact A]|]. split; [congruence|auto].
Qed.

Lemma tick_clients_quiet k now l : forall s, quiet s (tick_clients k now l s).
Proof.
  induction l as [|[id c] r IH]; intro s; cbn [tick_clients]; [apply quiet_refl|].
  destruct (get_obj c (st_objs s)) as [o|]; [|apply IH]. destruct (o_disc o =? 0)%Z; [apply IH|].
  match goal with |- context [if (?a <? now)%Z then _ else _] => destruct (a <? now)%Z end; [|apply IH].
  match goal with |- context [tick_clients k now r ?sx] => set (s2 := sx); specialize (IH s2); destruct (tick_clients k now r s2) as [s3 outs] end.
  destruct IH as (A & B & C & D). cbn [fst snd] in *.
  assert (W2 : wsame s s2 /\ st_wills s2 = st_wills s).
  { subst s2. split.
    - eapply wsame_trans; [apply clear_inflights_wsame|]. eapply wsame_trans; [apply unsubscribe_client_wsame|apply wsame_objs; reflexivity].
    - cbn. rewrite unsubscribe_client_wills, clear_inflights_wills. reflexivity. }
  destruct W2 as [W2 T2]. split; [eapply wsame_trans; eassumption|]. split; [congruence|]. split; [exact C|exact D].
Qed.
