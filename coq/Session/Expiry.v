(* C25 — message expiry.  Model of the expiry arithmetic of server.go (processPublish /
   publishToSubscribers: [minimum], Expiry = Created + effective interval; publishToClient's hold
   marker after fix 2b452cb; clearExpiredRetainedMessages; clearExpiredInflights) and clients.go
   (ClearExpiredInflights, WritePacket's interval rewrite, ResendInflightMessages), with virtual
   time; the specification from the property text; the engine.  No proofs here. *)
From MV Require Import Base.Val Session.Pkt.
Open Scope Z_scope.

(* ---------- model ---------- *)

(* server.go minimum: the smaller non-zero of a and b (0 if both are 0) *)
Definition minimum (a b : Z) : Z :=
  if negb (a =? 0) then (if negb (b =? 0) && (b <? a) then b else a)
  else if negb (b =? 0) then b else 0.

(* processPublish: pk.Expiry (0 = never) *)
Definition pub_expiry (smax created interval : Z) : Z :=
  let e := minimum smax interval in if 0 <? e then created + e else 0.

(* inflight.go holdExpiry / heldExpiry *)
Definition hold (e : Z) : Z := if e <? 0 then e else -1 - e.
Definition held (e : Z) : Z := if e <? 0 then -1 - e else e.

(* where an unsent copy of the message waits *)
Definition P_RETAINED : N := 0%N.   (* retained store *)
Definition P_OFFLINE : N := 1%N.    (* in-flight map of a parked session *)
Definition P_HELD : N := 2%N.       (* in-flight map, held back by flow control *)

Record cfg := {
  g_smax : Z;          (* Capabilities.MaximumMessageExpiryInterval *)
  g_interval : Z;      (* the publisher's Message Expiry Interval (0 = none) *)
  g_ver5 : bool;       (* the PUBLISH came from an MQTT 5 client (pk.ProtocolVersion == 5) *)
  g_place : N;
  g_created : Z }.     (* pk.Created *)

(* the Expiry field of the stored copy *)
Definition stored_expiry (c : cfg) : Z :=
  let e := pub_expiry (g_smax c) (g_created c) (g_interval c) in
  if (g_place c =? P_HELD)%N then hold e else e.

(* the expiry time the code works with when it looks at the stored copy *)
Definition seen_expiry (c : cfg) (stored : Z) : Z :=
  if (g_place c =? P_RETAINED)%N then stored else held stored.

(* clearExpiredRetainedMessages / ClearExpiredInflights: is the copy deleted at time [now]? *)
Definition house_removes (c : cfg) (stored now : Z) : bool :=
  let e := seen_expiry c stored in
  (g_ver5 c && (0 <? e) && (e <? now)) || ((0 <? g_smax c) && (g_smax c <? now - g_created c)).

(* WritePacket: the Message Expiry Interval property of the written PUBLISH (0 = absent) *)
Definition write_interval (c : cfg) (stored now : Z) : Z :=
  let e := seen_expiry c stored in
  if 0 <? e then (let r := e - now in if r <? 1 then 1 else r) else g_interval c.

Inductive ev := EHouse (h : Z) | EDeliver (now : Z).

(* what can be observed of a step: housekeeping ran at h and the copy is / is not stored afterwards;
   a delivery was triggered between t0 and t1 and the copy was / was not delivered, with interval mei *)
Inductive oev := OHouse (h : Z) (present : bool) | ODeliver (t0 t1 : Z) (delivered : bool) (mei : Z).

(* the unsent copy: present or gone.  A retained copy stays after a delivery; an in-flight copy is
   "sent" once delivered and is no longer the property's concern. *)
Definition step (c : cfg) (present : bool) (e : ev) : bool * oev :=
  let st := stored_expiry c in
  match e with
  | EHouse h => let p := present && negb (house_removes c st h) in (p, OHouse h p)
  | EDeliver now =>
      if present then ((g_place c =? P_RETAINED)%N, ODeliver now now true (write_interval c st now))
      else (false, ODeliver now now false 0)
  end.

Fixpoint run (c : cfg) (present : bool) (evs : list ev) : list oev :=
  match evs with
  | [] => []
  | e :: r => let '(p, o) := step c present e in o :: run c p r
  end.

(* ---------- specification (from the property text) ---------- *)

(* the effective expiry interval: the smaller non-zero of the publisher's interval and the server maximum *)
Definition eff (smax interval : Z) : Z :=
  if smax =? 0 then interval else if interval =? 0 then smax else Z.min smax interval.

Definition c_eff (c : cfg) : Z := eff (g_smax c) (g_interval c).
(* the message expires at publish time + effective interval (if there is one) *)
Definition expires (c : cfg) : bool := 0 <? c_eff c.
Definition expiry_time (c : cfg) : Z := g_created c + c_eff c.

(* clause 1: once housekeeping has run at a time strictly later than the expiry time, no unsent copy
   is delivered.  [dead] = such a run has been seen. *)
Fixpoint late_ok (c : cfg) (dead : bool) (os : list oev) : bool :=
  match os with
  | [] => true
  | OHouse h _ :: r => late_ok c (dead || (expires c && (expiry_time c <? h))) r
  | ODeliver _ _ delivered _ :: r => negb (dead && delivered) && late_ok c dead r
  end.

(* clause 3: a delivered message carries a Message Expiry Interval no larger than the time remaining
   (the delivery happened no earlier than t0, so at most expiry_time - t0 remained) *)
Definition interval_ok_one (c : cfg) (t0 mei : Z) : bool :=
  negb (expires c) || ((0 <? mei) && (mei <=? expiry_time c - t0)).

Fixpoint interval_ok (c : cfg) (os : list oev) : bool :=
  match os with
  | [] => true
  | OHouse _ _ :: r => interval_ok c r
  | ODeliver t0 _ delivered mei :: r => (negb delivered || interval_ok_one c t0 mei) && interval_ok c r
  end.

(* ---------- known finding ---------- *)

(* C25-3: the expiry time has been reached on the clock (nothing remains) but housekeeping has not
   removed the copy yet: WritePacket sends it with interval 1 (clients.go: if expiry < 1 { expiry = 1 }) *)
Definition KF_C25_interval_floor (c : cfg) (now : Z) : bool := expires c && (expiry_time c - now <? 1).

Fixpoint kf_free (c : cfg) (evs : list ev) : bool :=
  match evs with
  | [] => true
  | EHouse _ :: r => kf_free c r
  | EDeliver now :: r => negb (KF_C25_interval_floor c now) && kf_free c r
  end.

(* well-formed configurations: non-negative intervals; an MQTT 3 publisher has no interval of its own *)
Definition wf_cfg (c : cfg) : bool :=
  (0 <=? g_smax c) && (0 <=? g_interval c) && (0 <=? g_created c) && (g_ver5 c || (g_interval c =? 0)) &&
  ((g_place c =? P_RETAINED) || (g_place c =? P_OFFLINE) || (g_place c =? P_HELD))%N.

(* ---------- engine ----------
   case = (smax interval ver5 subver5 place created storedExpiry (event ...))
   event = (1 h present) | (2 t0 t1 delivered mei)
   ver5 is the PUBLISHER's version (it, with the interval, decides whether the message has an expiry of
   its own, whoever receives it); subver5 = the receiver is an MQTT 5 client: only then is there a
   Message Expiry Interval on the wire to check *)

Definition as_oev (v : val) : option oev :=
  match v with
  | VL [VN 1%N; h; p] => do h' <- as_Z h; do p' <- as_bool p; Some (OHouse h' p')
  | VL [VN 2%N; t0; t1; d; VN mei] =>
      do a <- as_Z t0; do b <- as_Z t1; do d' <- as_bool d; Some (ODeliver a b d' (Z.of_N mei))
  | _ => None
  end.

(* replay the model on the observed events; a delivery may have happened at any second of [t0, t1], and
   the interval WritePacket computes does not grow with time: the observed one lies between the two ends *)
Fixpoint agrees (sub5 : bool) (c : cfg) (present : bool) (os : list oev) : bool :=
  match os with
  | [] => true
  | OHouse h p :: r =>
      let '(p', _) := step c present (EHouse h) in Bool.eqb p p' && agrees sub5 c p' r
  | ODeliver t0 t1 d mei :: r =>
      let '(p', _) := step c present (EDeliver t0) in
      Bool.eqb d present &&
      (negb d || negb sub5 ||
       ((write_interval c (stored_expiry c) t1 <=? mei) && (mei <=? write_interval c (stored_expiry c) t0))) &&
      agrees sub5 c p' r
  end.

(* a delivery that breaks the interval clause exactly as the finding describes *)
Fixpoint interval_fail_is_kf (c : cfg) (os : list oev) : bool :=
  match os with
  | [] => true
  | OHouse _ _ :: r => interval_fail_is_kf c r
  | ODeliver t0 t1 d mei :: r =>
      (negb d || interval_ok_one c t0 mei || (KF_C25_interval_floor c t1 && (mei =? 1))) && interval_fail_is_kf c r
  end.

Definition place_tag (p : N) : bytes :=
  if (p =? P_RETAINED)%N then tag "retained" else if (p =? P_OFFLINE)%N then tag "offline" else tag "held".

(* ENGINE expiry Session.Expiry.expiry_engine *)
Definition expiry_engine (v : val) : val :=
  match v with
  | VL [smax; VN interval; ver5; sub5v; VN place; created; stored; VL evs] =>
      match as_Z smax, as_bool ver5, as_bool sub5v, as_Z created, as_Z stored, map_opt as_oev evs with
      | Some m, Some v5, Some sub5, Some cr, Some st, Some os =>
          let c := {| g_smax := m; g_interval := Z.of_N interval; g_ver5 := v5; g_place := place; g_created := cr |} in
          if negb (wf_cfg c) then bad_case else
          let tg := place_tag place ++ (if v5 then tag "/pub5" else tag "/pub3") ++ (if sub5 then tag "-sub5" else tag "-sub3") in
          let nontriv := expires c in
          if negb (late_ok c false os) then verdict 1 tg nontriv [VB (tag "delivered-after-expiry-housekeeping")]
          else if sub5 && negb (interval_ok c os) then
            if interval_fail_is_kf c os && (st =? stored_expiry c) && agrees sub5 c true os
            then verdict 3 tg nontriv [VB (tag "KF_C25_interval_floor")]
            else verdict 1 tg nontriv [VB (tag "interval-larger-than-remaining")]
          else if (st =? stored_expiry c) && agrees sub5 c true os then verdict 0 tg nontriv []
          else verdict 2 tg nontriv []
      | _, _, _, _, _, _ => bad_case
      end
  | _ => bad_case
  end.
