(* Proofs for C25 over the expiry model. *)
From MV Require Import Base.Val Session.Pkt Session.Expiry.
From Coq Require Import Lia ZifyBool ZifyN ZifyNat.
Open Scope Z_scope.

Ltac ifs :=
  repeat match goal with
         | |- context [if ?b then _ else _] => destruct b eqn:?
         | H : context [if ?b then _ else _] |- _ => destruct b eqn:?
         end; try lia.

Lemma minimum_is_eff a b : 0 <= a -> 0 <= b -> minimum a b = eff a b.
Proof.
  intros Ha Hb. unfold minimum, eff.
  destruct (a =? 0) eqn:A; destruct (b =? 0) eqn:B; cbn [negb andb]; try lia.
  destruct (b <? a) eqn:L; lia.
Qed.

Lemma held_hold e : 0 <= e -> held (hold e) = e.
Proof. intros H. unfold held, hold. destruct (e <? 0) eqn:E; [lia|]. destruct (-1 - e <? 0) eqn:F; lia. Qed.

Lemma wf_parts c : wf_cfg c = true ->
  0 <= g_smax c /\ 0 <= g_interval c /\ 0 <= g_created c /\ (g_ver5 c = false -> g_interval c = 0).
Proof. unfold wf_cfg. intros H. repeat split; lia. Qed.

(* the stored expiry time is publish time + effective interval, or 0 when the message never expires *)
Lemma pub_expiry_spec c : wf_cfg c = true ->
  pub_expiry (g_smax c) (g_created c) (g_interval c) = if expires c then expiry_time c else 0.
Proof.
  intros W. destruct (wf_parts c W) as (H1 & H2 & H3 & _).
  unfold pub_expiry, expires, expiry_time, c_eff. rewrite minimum_is_eff by assumption. reflexivity.
Qed.

Lemma seen_stored c : wf_cfg c = true ->
  seen_expiry c (stored_expiry c) = if expires c then expiry_time c else 0.
Proof.
  intros W. pose proof (pub_expiry_spec c W) as P. destruct (wf_parts c W) as (H1 & H2 & H3 & _).
  unfold seen_expiry, stored_expiry.
  assert (E0 : 0 <= pub_expiry (g_smax c) (g_created c) (g_interval c)).
  { rewrite P. unfold expires, expiry_time, c_eff, eff. ifs. }
  destruct (g_place c =? P_RETAINED)%N eqn:R.
  - replace (g_place c =? P_HELD)%N with false by (unfold P_RETAINED, P_HELD in *; lia). exact P.
  - destruct (g_place c =? P_HELD)%N; [rewrite held_hold by exact E0; exact P|].
    unfold held. rewrite <- P. ifs.
Qed.

(* housekeeping removes the copy exactly when its time argument is strictly later than the expiry time *)
Theorem house_removes_exact c h : wf_cfg c = true ->
  house_removes c (stored_expiry c) h = expires c && (expiry_time c <? h).
Proof.
  intros W. destruct (wf_parts c W) as (H1 & H2 & H3 & H4).
  unfold house_removes. rewrite (seen_stored c W).
  unfold expires, expiry_time, c_eff, eff in *.
  destruct (g_ver5 c) eqn:V.
  - ifs.
  - rewrite (H4 eq_refl). ifs.
Qed.

Theorem no_late_delivery c : wf_cfg c = true ->
  forall evs present dead, (dead = true -> present = false) -> late_ok c dead (run c present evs) = true.
Proof.
  intros W. induction evs as [|e r IH]; intros present dead D; [reflexivity|].
  cbn [run]. destruct e as [h|now]; cbn [step].
  - cbn [late_ok]. apply IH. rewrite (house_removes_exact c h W). intros H.
    destruct dead; [rewrite (D eq_refl); reflexivity|]. cbn [orb] in H. rewrite H. destruct present; reflexivity.
  - destruct present; cbn [late_ok].
    + destruct dead; [specialize (D eq_refl); discriminate|]. cbn [andb negb]. apply IH. intros; discriminate.
    + rewrite Bool.andb_false_r. cbn [negb andb]. apply IH. intros; reflexivity.
Qed.

Theorem interval_shrinks c : wf_cfg c = true ->
  forall evs present, kf_free c evs = true -> interval_ok c (run c present evs) = true.
Proof.
  intros W. induction evs as [|e r IH]; intros present K; [reflexivity|].
  cbn [run]. destruct e as [h|now]; cbn [step kf_free] in *.
  - cbn [interval_ok]. apply IH, K.
  - apply Bool.andb_true_iff in K. destruct K as [K1 K2].
    destruct present; cbn [interval_ok negb orb andb].
    + rewrite (IH _ K2), Bool.andb_true_r.
      unfold interval_ok_one, write_interval, KF_C25_interval_floor in *. rewrite (seen_stored c W).
      destruct (expires c) eqn:E; [|reflexivity]. cbn [negb orb andb] in *.
      destruct (wf_parts c W) as (H1 & H2 & H3 & _).
      unfold expires, expiry_time, c_eff, eff in *. ifs.
    + apply IH, K2.
Qed.
