(* C14-C16 — the structural invariant of the life-cycle model and its preservation by every
   operation: the Clients map points to existing, not taken-over objects carrying the key as
   identifier; an open object is registered and its handler is reading; a handler that waits for
   its teardown belongs to a taken-over object; keys of Clients are unique. *)
From MV Require Import Base.Val Session.Lifecycle Session.LifeBase.
From Coq Require Import Lia ZifyBool ZifyN ZifyNat.
Open Scope N_scope.

(* ---------- byte strings and association lists ---------- *)
Lemma bb_eq (a b : bytes) : beq_bytes a b = true <-> a = b.
Proof.
  revert b. induction a as [|x a IH]; intros [|y b]; cbn; split; intro H; try discriminate; auto.
  - apply andb_true_iff in H. destruct H as [H1 H2]. apply N.eqb_eq in H1. apply IH in H2. subst. reflexivity.
  - inversion H; subst. rewrite N.eqb_refl. cbn. apply IH. reflexivity.
Qed.
Lemma bb_refl a : beq_bytes a a = true.
Proof. apply bb_eq. reflexivity. Qed.
Lemma bb_neq a b : a <> b -> beq_bytes a b = false.
Proof. intro H. destruct (beq_bytes a b) eqn:E; [apply bb_eq in E; congruence|reflexivity]. Qed.
Lemma bb_dec (a b : bytes) : {a = b} + {a <> b}.
Proof. destruct (beq_bytes a b) eqn:E; [left; apply bb_eq, E|right; intro H; apply bb_eq in H; congruence]. Qed.

Section Assoc.
  Context {V : Type}.
  Implicit Types l : list (bytes * V).

  Lemma aget_adel_same k l : aget k (adel k l) = None.
  Proof.
    induction l as [|[k' v] r IH]; cbn; [reflexivity|].
    destruct (beq_bytes k' k) eqn:E; cbn; [exact IH|]. rewrite E. exact IH.
  Qed.

  Lemma aget_adel_other k k' l : k' <> k -> aget k' (adel k l) = aget k' l.
  Proof.
    intro N. induction l as [|[k2 v] r IH]; cbn; [reflexivity|].
    destruct (beq_bytes k2 k) eqn:E; cbn.
    - apply bb_eq in E. subst k2. rewrite (bb_neq k k') by congruence. exact IH.
    - destruct (beq_bytes k2 k'); [reflexivity|exact IH].
  Qed.

  Lemma aget_app k l1 l2 : aget k (l1 ++ l2) = match aget k l1 with Some v => Some v | None => aget k l2 end.
  Proof.
    induction l1 as [|[k' v] r IH]; cbn; [reflexivity|]. destruct (beq_bytes k' k); [reflexivity|exact IH].
  Qed.

  Lemma aget_aset_same k v l : aget k (aset k v l) = Some v.
  Proof. unfold aset. rewrite aget_app, aget_adel_same. cbn. rewrite bb_refl. reflexivity. Qed.

  Lemma aget_aset_other k k' v l : k' <> k -> aget k' (aset k v l) = aget k' l.
  Proof.
    intro N. unfold aset. rewrite aget_app, aget_adel_other by exact N.
    destruct (aget k' l); [reflexivity|]. cbn. rewrite (bb_neq k k') by congruence. reflexivity.
  Qed.

  Lemma aget_in k v l : aget k l = Some v -> In (k, v) l.
  Proof.
    induction l as [|[k' v'] r IH]; cbn; [discriminate|].
    destruct (beq_bytes k' k) eqn:E; [intro H; inversion H; subst; apply bb_eq in E; subst; left; reflexivity|].
    intro H. right. apply IH, H.
  Qed.

  Lemma in_aget_nodup k v l : NoDup (map fst l) -> In (k, v) l -> aget k l = Some v.
  Proof.
    induction l as [|[k' v'] r IH]; cbn; [intros _ []|].
    intros ND [E|I].
    - inversion E; subst. rewrite bb_refl. reflexivity.
    - inversion ND as [|? ? NI ND']; subst. destruct (beq_bytes k' k) eqn:E.
      + apply bb_eq in E. subst. exfalso. apply NI. apply (in_map fst) in I. exact I.
      + apply IH; assumption.
  Qed.

  Lemma adel_keys k l x : In x (map fst (adel k l)) -> In x (map fst l) /\ x <> k.
  Proof.
    unfold adel. rewrite in_map_iff. intros ([k' v] & E & I). cbn in E. subst. apply filter_In in I.
    destruct I as [I F]. cbn in F. split; [apply (in_map fst) in I; exact I|].
    intro H. subst. rewrite bb_refl in F. discriminate.
  Qed.

  Lemma nodup_adel k l : NoDup (map fst l) -> NoDup (map fst (adel k l)).
  Proof.
    induction l as [|[k' v] r IH]; cbn; [constructor|]. intro ND. inversion ND as [|? ? NI ND']; subst.
    destruct (beq_bytes k' k); cbn; [apply IH, ND'|]. constructor; [|apply IH, ND'].
    intro H. apply adel_keys in H. tauto.
  Qed.

  Lemma nodup_snoc {A} (x : A) (m : list A) : NoDup m -> ~ In x m -> NoDup (m ++ [x]).
  Proof.
    induction m as [|y m IH]; cbn; intros ND NI; [constructor; [intros []|constructor]|].
    inversion ND as [|? ? NY ND']; subst. constructor.
    - intro H. apply in_app_or in H. destruct H as [H|[H|[]]]; [tauto|subst; apply NI; left; reflexivity].
    - apply IH; [exact ND'|]. intro H. apply NI. right. exact H.
  Qed.

  Lemma nodup_aset k v l : NoDup (map fst l) -> NoDup (map fst (aset k v l)).
  Proof.
    intro ND. unfold aset. rewrite map_app. cbn. apply nodup_snoc; [apply nodup_adel, ND|].
    intro I. apply adel_keys in I. tauto.
  Qed.

  Lemma in_adel k l x : In x (adel k l) -> In x l /\ fst x <> k.
  Proof.
    unfold adel. intro I. apply filter_In in I. destruct I as [I F]. split; [exact I|].
    intro H. rewrite H, bb_refl in F. discriminate.
  Qed.
End Assoc.

(* ---------- the invariant ---------- *)
Definition okey (o : cobj) := (o_id o, o_tko o, o_open o, o_phase o, o_disc o).

Record wf (s : state) : Prop := {
  wf_used : objs_used s;
  wf_nodup : NoDup (map fst (st_clients s));
  wf_reg : forall id c, aget id (st_clients s) = Some c ->
             exists o, get_obj c (st_objs s) = Some o /\ o_id o = id /\ o_tko o = false;
  wf_open : forall c o, get_obj c (st_objs s) = Some o -> o_open o = true ->
             aget (o_id o) (st_clients s) = Some c /\ o_phase o = PhReading /\ o_disc o = 0%Z;
  wf_held : forall c o, get_obj c (st_objs s) = Some o -> o_phase o = PhHeld -> o_tko o = true /\ o_open o = false }.

Lemma wf_init : wf init.
Proof. split; cbn; try discriminate; try constructor; try apply objs_used_init. Qed.

(* states that agree on Clients and on the key fields of every object *)
Definition same_keys (s s' : state) : Prop :=
  st_used s' = st_used s /\ st_clients s' = st_clients s /\
  forall c, option_map okey (get_obj c (st_objs s')) = option_map okey (get_obj c (st_objs s)).

Lemma same_keys_refl s : same_keys s s.
Proof. repeat split. Qed.
Lemma same_keys_trans a b c : same_keys a b -> same_keys b c -> same_keys a c.
Proof. intros (U1 & C1 & K1) (U2 & C2 & K2). split; [congruence|split; [congruence|]]. intro x. rewrite K2. apply K1. Qed.

Lemma same_keys_obj s s' c o' : same_keys s s' -> get_obj c (st_objs s') = Some o' ->
  exists o, get_obj c (st_objs s) = Some o /\ okey o = okey o'.
Proof.
  intros (_ & _ & K) G. specialize (K c). rewrite G in K. cbn in K.
  destruct (get_obj c (st_objs s)) as [o|]; [|discriminate]. exists o. split; [reflexivity|]. cbn in K. congruence.
Qed.
Lemma same_keys_obj' s s' c o : same_keys s s' -> get_obj c (st_objs s) = Some o ->
  exists o', get_obj c (st_objs s') = Some o' /\ okey o = okey o'.
Proof.
  intros (_ & _ & K) G. specialize (K c). rewrite G in K. cbn in K.
  destruct (get_obj c (st_objs s')) as [o'|]; [|discriminate]. exists o'. split; [reflexivity|]. cbn in K. congruence.
Qed.

Lemma wf_same_keys s s' : same_keys s s' -> wf s -> wf s'.
Proof.
  intros SK [U ND R O H]. pose proof SK as (EU & EC & K). split.
  - intros c Hc. rewrite EU. apply U. unfold hasobj in *. specialize (K c).
    destruct (get_obj c (st_objs s')); [|discriminate]. destruct (get_obj c (st_objs s)); [reflexivity|discriminate].
  - rewrite EC. exact ND.
  - intros id c A. rewrite EC in A. destruct (R id c A) as (o & G & I & T).
    destruct (same_keys_obj' _ _ _ _ SK G) as (o' & G' & E). exists o'. unfold okey in E. inversion E. repeat split; congruence.
  - intros c o' G OO. destruct (same_keys_obj _ _ _ _ SK G) as (o & G0 & E). unfold okey in E. inversion E.
    rewrite EC. destruct (O c o G0) as (A & B & D); [congruence|]. repeat split; congruence.
  - intros c o' G PH. destruct (same_keys_obj _ _ _ _ SK G) as (o & G0 & E). unfold okey in E. inversion E.
    destruct (H c o G0) as (A & B); [congruence|]. split; congruence.
Qed.

Lemma same_keys_upd s o o0 : get_obj (o_conn o) (st_objs s) = Some o0 -> okey o = okey o0 -> same_keys s (upd_obj s o).
Proof.
  intros G E. repeat split. intro c. unfold upd_obj. cbn. destruct (N.eq_dec c (o_conn o)) as [->|N].
  - rewrite get_put_same, G. cbn. congruence.
  - rewrite get_put_other by exact N. reflexivity.
Qed.

Lemma same_keys_set_index s x : same_keys s (set_index s x). Proof. repeat split. Qed.
Lemma same_keys_set_wills s x : same_keys s (set_wills s x). Proof. repeat split. Qed.
Lemma same_keys_set_retained s x : same_keys s (set_retained s x). Proof. repeat split. Qed.

Lemma deliver_same_keys k m ix : forall s, same_keys s (fst (deliver k m ix s)).
Proof.
  induction ix as [|[[id f] q] r IH]; intro s; cbn [deliver]; [apply same_keys_refl|].
  destruct (beq_bytes f (m_topic m)); [|apply IH].
  destruct (client_of s id) as [o|] eqn:C; [|apply IH].
  pose proof (client_of_obj _ _ _ C) as G.
  match goal with |- context [upd_obj s ?o'] => set (oo := o') end.
  assert (E1 : same_keys s (upd_obj s oo)).
  { apply same_keys_upd with (o0 := o); subst oo; destruct (0 <? _); cbn; auto. }
  specialize (IH (upd_obj s oo)). destruct (deliver k m r (upd_obj s oo)) as [s'' outs]. cbn [fst] in *.
  eapply same_keys_trans; eassumption.
Qed.

Lemma retain_msg_same_keys k m s : same_keys s (retain_msg k m s).
Proof.
  unfold retain_msg. destruct (k_retain k); [|apply same_keys_refl]. destruct (m_payload m); apply same_keys_set_retained.
Qed.

Lemma send_lwt_same_keys k now c s : same_keys s (fst (send_lwt k now c s)).
Proof.
  unfold send_lwt. destruct (get_obj c (st_objs s)) as [o|] eqn:G; [|apply same_keys_refl].
  destruct (w_flag (o_will o)); cbn [negb]; [|apply same_keys_refl].
  destruct (0 <? w_delay (o_will o)); [apply same_keys_set_wills|].
  set (s1 := if w_retain (o_will o) then retain_msg k (will_msg (o_will o)) s else s).
  assert (E1 : same_keys s s1) by (subst s1; destruct (w_retain (o_will o)); [apply retain_msg_same_keys|apply same_keys_refl]).
  pose proof (deliver_same_keys k (will_msg (o_will o)) (st_index s1) s1) as E2. unfold publish.
  destruct (deliver k (will_msg (o_will o)) (st_index s1) s1) as [s2 outs]. cbn [fst] in *.
  assert (E12 : same_keys s s2) by (eapply same_keys_trans; eassumption).
  destruct (same_keys_obj' _ _ _ _ E12 G) as (o2 & G2 & EK). rewrite G2.
  eapply same_keys_trans; [exact E12|]. apply same_keys_upd with (o0 := o2); cbn; [rewrite (get_obj_conn _ _ _ G2); exact G2|reflexivity].
Qed.

Lemma unsubscribe_client_same_keys c s : same_keys s (unsubscribe_client c s).
Proof.
  unfold unsubscribe_client. destruct (get_obj c (st_objs s)) as [o|] eqn:G; [|apply same_keys_refl].
  assert (E1 : same_keys s (upd_obj s (with_session o [] (o_infl o)))).
  { apply same_keys_upd with (o0 := o); cbn; [rewrite (get_obj_conn _ _ _ G); exact G|reflexivity]. }
  destruct (o_tko o); [exact E1|]. eapply same_keys_trans; [exact E1|apply same_keys_set_index].
Qed.

Lemma clear_inflights_same_keys c s : same_keys s (clear_inflights c s).
Proof.
  unfold clear_inflights. destruct (get_obj c (st_objs s)) as [o|] eqn:G; [|apply same_keys_refl].
  apply same_keys_upd with (o0 := o); cbn; [rewrite (get_obj_conn _ _ _ G); exact G|reflexivity].
Qed.

(* ---------- updates that change key fields ---------- *)
Lemma hasobj_upd s o c : hasobj (upd_obj s o) c = hasobj s c || (c =? o_conn o).
Proof.
  unfold hasobj, upd_obj. cbn. destruct (N.eq_dec c (o_conn o)) as [->|N].
  - rewrite get_put_same, N.eqb_refl, orb_true_r. reflexivity.
  - rewrite get_put_other by exact N. destruct (c =? o_conn o) eqn:E; [apply N.eqb_eq in E; congruence|].
    rewrite orb_false_r. reflexivity.
Qed.

(* replacing an existing object by a closed one with the same identifier and taken-over flag *)
Lemma wf_upd_closed s o o' :
  wf s -> get_obj (o_conn o') (st_objs s) = Some o -> o_id o' = o_id o -> o_tko o' = o_tko o -> o_open o' = false ->
  (o_phase o' = PhHeld -> o_tko o = true) -> wf (upd_obj s o').
Proof.
  intros [U ND R O H] G EI ET EO EP. split.
  - intros c Hc. rewrite hasobj_upd in Hc. apply orb_true_iff in Hc. destruct Hc as [Hc|Hc]; [apply U, Hc|].
    apply N.eqb_eq in Hc. subst. apply U. unfold hasobj. rewrite G. reflexivity.
  - exact ND.
  - intros id c A. cbn in A. destruct (R id c A) as (o1 & G1 & I1 & T1).
    unfold upd_obj. cbn. destruct (N.eq_dec c (o_conn o')) as [->|N].
    + rewrite get_put_same. exists o'. rewrite G in G1. inversion G1; subst o1. repeat split; congruence.
    + rewrite get_put_other by exact N. exists o1. auto.
  - intros c o1 G1 OO. unfold upd_obj in G1. cbn in G1. destruct (N.eq_dec c (o_conn o')) as [->|N].
    + rewrite get_put_same in G1. inversion G1; subst. congruence.
    + rewrite get_put_other in G1 by exact N. apply (O c o1 G1 OO).
  - intros c o1 G1 PH. unfold upd_obj in G1. cbn in G1. destruct (N.eq_dec c (o_conn o')) as [->|N].
    + rewrite get_put_same in G1. inversion G1; subst. split; [rewrite ET; apply EP, PH|exact EO].
    + rewrite get_put_other in G1 by exact N. apply (H c o1 G1 PH).
Qed.

Lemma wf_adel s id :
  wf s -> (forall c o, get_obj c (st_objs s) = Some o -> o_open o = true -> o_id o <> id) ->
  wf (set_clients s (adel id (st_clients s))).
Proof.
  intros [U ND R O H] NO. split; cbn.
  - exact U.
  - apply nodup_adel, ND.
  - intros id' c A. destruct (bb_dec id' id) as [->|N]; [rewrite aget_adel_same in A; discriminate|].
    rewrite aget_adel_other in A by exact N. apply (R id' c A).
  - intros c o G OO. destruct (O c o G OO) as (A & B & D). rewrite aget_adel_other by (apply (NO c o G OO)). auto.
  - exact H.
Qed.

Lemma stopped_fields o now : o_id (stopped o now) = o_id o /\ o_tko (stopped o now) = o_tko o /\ o_phase (stopped o now) = o_phase o.
Proof. unfold stopped. destruct (o_open o); auto. Qed.

Lemma wf_stop s c o now : wf s -> get_obj c (st_objs s) = Some o -> wf (upd_obj s (stopped o now)).
Proof.
  intros W G. pose proof (get_obj_conn _ _ _ G) as EC. destruct (stopped_fields o now) as (A & B & D).
  apply wf_upd_closed with (o := o); auto.
  - rewrite stopped_conn, EC. exact G.
  - apply stopped_open.
  - rewrite D. intro PH. apply (wf_held s W c o G PH).
Qed.

Lemma disconnect_client_wf now c code s : wf s -> wf (fst (disconnect_client now c code s)).
Proof.
  intro W. unfold disconnect_client. destruct (get_obj c (st_objs s)) as [o|] eqn:G; [|exact W].
  destruct (o_open o); [|exact W]. cbn [fst]. apply (wf_stop s c o now W G).
Qed.

Lemma disconnect_client_keeps now c code s :
  st_clients (fst (disconnect_client now c code s)) = st_clients s /\
  forall c' o, get_obj c' (st_objs s) = Some o ->
    exists o', get_obj c' (st_objs (fst (disconnect_client now c code s))) = Some o' /\
               o_id o' = o_id o /\ o_tko o' = o_tko o /\ o_phase o' = o_phase o /\ (o_open o' = true -> o_open o = true) /\
               (c' <> c -> o' = o) /\ (c' = c -> o_open o' = false) /\
               o_subs o' = o_subs o /\ o_infl o' = o_infl o /\ o_will o' = o_will o /\ o_ver o' = o_ver o /\ o_clean o' = o_clean o /\
               o_sei o' = o_sei o /\ o_seiflag o' = o_seiflag o.
Proof.
  unfold disconnect_client. destruct (get_obj c (st_objs s)) as [o0|] eqn:G.
  2:{ split; [reflexivity|]. intros c' o G'. exists o. repeat split; auto. intros ->. congruence. }
  destruct (o_open o0) eqn:OO.
  2:{ split; [reflexivity|]. intros c' o G'. exists o. repeat split; auto. intros ->. rewrite G in G'. inversion G'; subst. exact OO. }
  cbn [fst]. split; [reflexivity|]. intros c' o G'. unfold upd_obj. cbn.
  pose proof (get_obj_conn _ _ _ G) as EC.
  destruct (N.eq_dec c' c) as [->|N].
  - rewrite G in G'. inversion G'; subst o0.
    assert (GP : get_obj c (put_obj (stopped o now) (st_objs s)) = Some (stopped o now)).
    { pose proof (get_put_same (stopped o now) (st_objs s)) as GP. rewrite stopped_conn, EC in GP. exact GP. }
    rewrite GP. exists (stopped o now). destruct (stopped_fields o now) as (A & B & D). unfold stopped. rewrite OO. cbn. repeat split; auto; congruence.
  - rewrite get_put_other by (rewrite stopped_conn, EC; exact N). exists o. repeat split; auto. congruence.
Qed.

(* the handler tail *)
Lemma handler_tail_wf k now c err s :
  wf s ->
  (forall o, get_obj c (st_objs s) = Some o -> (o_tko o = false -> aget (o_id o) (st_clients s) = Some c) /\
                                               (err = false -> o_open o = false)) ->
  wf (fst (handler_tail k now c err s)).
Proof.
  intros W P. unfold handler_tail.
  assert (SK : same_keys s (fst (if err then send_lwt k now c s else (s, [])))).
  { destruct err; [apply send_lwt_same_keys|apply same_keys_refl]. }
  destruct (if err then send_lwt k now c s else (s, [])) as [s1 o1]. cbn [fst] in SK.
  pose proof (wf_same_keys _ _ SK W) as W1.
  destruct (get_obj c (st_objs s1)) as [o|] eqn:G; [|exact W1]. cbn [fst].
  destruct (same_keys_obj _ _ _ _ SK G) as (o0 & G0 & EK). unfold okey in EK. inversion EK as [[EI ET EO EPH ED]].
  destruct (P o0 G0) as [PR PC].
  pose proof (get_obj_conn _ _ _ G) as EC.
  set (o' := if err then stopped o now else with_will o no_will).
  assert (F' : o_conn o' = c /\ o_id o' = o_id o /\ o_tko o' = o_tko o /\ o_phase o' = o_phase o /\ o_open o' = false).
  { subst o'. destruct err.
    - destruct (stopped_fields o now) as (A & B & D). rewrite stopped_conn, stopped_open. auto.
    - cbn. repeat split; auto. rewrite <- EO. apply PC. reflexivity. }
  destruct F' as (C' & I' & T' & PH' & O').
  assert (W2 : wf (upd_obj s1 o')).
  { apply wf_upd_closed with (o := o); auto; [rewrite C'; exact G|].
    rewrite PH'. intro HH. apply (wf_held s1 W1 c o G HH). }
  set (s2 := upd_obj s1 o') in *.
  assert (G2 : get_obj c (st_objs s2) = Some o') by (subst s2; unfold upd_obj; cbn; rewrite <- C'; apply get_put_same).
  assert (C2 : st_clients s2 = st_clients s) by (destruct SK as (_ & EC' & _); exact EC').
  set (s3 := if expire_cond o' && negb (o_tko o')
             then set_clients (unsubscribe_client c (clear_inflights c s2)) (adel (o_id o') (st_clients s2)) else s2).
  assert (W3 : wf s3 /\ forall x, get_obj c (st_objs s3) = Some x -> o_id x = o_id o' /\ o_tko x = o_tko o' /\ o_open x = false /\ o_phase x = o_phase o').
  { subst s3. destruct (expire_cond o' && negb (o_tko o')) eqn:EX.
    - apply andb_true_iff in EX. destruct EX as [_ NT]. apply negb_true_iff in NT.
      set (sa := unsubscribe_client c (clear_inflights c s2)).
      assert (SKa : same_keys s2 sa).
      { eapply same_keys_trans; [apply clear_inflights_same_keys|apply unsubscribe_client_same_keys]. }
      pose proof (wf_same_keys _ _ SKa W2) as Wa.
      assert (CA : st_clients sa = st_clients s2) by (destruct SKa as (_ & E & _); exact E).
      split.
      + rewrite <- CA. apply wf_adel; [exact Wa|].
        intros c2 o2 Ga OOa. destruct (wf_open sa Wa c2 o2 Ga OOa) as (A & _).
        intro EQ. rewrite EQ, CA, C2 in A.
        rewrite T', <- ET in NT. rewrite I', <- EI in A. rewrite (PR NT) in A. inversion A; subst c2.
        destruct (same_keys_obj _ _ _ _ SKa Ga) as (ob & Gb & EKb). rewrite G2 in Gb. inversion Gb; subst ob.
        unfold okey in EKb. inversion EKb. congruence.
      + intros x Gx. cbn in Gx. destruct (same_keys_obj _ _ _ _ SKa Gx) as (ob & Gb & EKb). rewrite G2 in Gb. inversion Gb; subst ob.
        unfold okey in EKb. inversion EKb. repeat split; congruence.
    - split; [exact W2|]. intros x Gx. rewrite G2 in Gx. inversion Gx; subst. auto. }
  destruct W3 as [W3 X3].
  destruct (get_obj c (st_objs s3)) as [x|] eqn:G3; [|exact W3].
  destruct (X3 x eq_refl) as (XI & XT & XO & XP).
  apply wf_upd_closed with (o := x); cbn; auto.
  - rewrite (get_obj_conn _ _ _ G3). exact G3.
  - discriminate.
Qed.

Lemma publish_same_keys k m s : same_keys s (fst (publish k m s)).
Proof. apply deliver_same_keys. Qed.

Lemma tick_will_same_keys k now l : forall s, same_keys s (fst (tick_will k now l s)).
Proof.
  induction l as [|[id d] r IH]; intro s; cbn [tick_will]; [apply same_keys_refl|].
  destruct (d_due d <? now)%Z; [|apply IH].
  pose proof (publish_same_keys k (d_msg d) s) as E1. destruct (publish k (d_msg d) s) as [s1 o1]. cbn [fst] in *.
  assert (E2 : same_keys s1 (fst (match client_of s1 id with
                         | Some o => (upd_obj (if m_retain (d_msg d) then retain_msg k (d_msg d) s1 else s1) (with_will o no_will), [OWillSent id])
                         | None => (s1, []) end))).
  { destruct (client_of s1 id) as [o|] eqn:C; [|apply same_keys_refl]. cbn [fst].
    pose proof (client_of_obj _ _ _ C) as G.
    set (s' := if m_retain (d_msg d) then retain_msg k (d_msg d) s1 else s1).
    assert (E' : same_keys s1 s') by (subst s'; destruct (m_retain (d_msg d)); [apply retain_msg_same_keys|apply same_keys_refl]).
    eapply same_keys_trans; [exact E'|].
    destruct (same_keys_obj' _ _ _ _ E' G) as (o' & G' & EK).
    apply same_keys_upd with (o0 := o'); cbn; [exact G'|]. unfold okey in *. cbn. exact EK. }
  destruct (match client_of s1 id with
            | Some o => (upd_obj (if m_retain (d_msg d) then retain_msg k (d_msg d) s1 else s1) (with_will o no_will), [OWillSent id])
            | None => (s1, []) end) as [s2 o2]. cbn [fst] in *.
  specialize (IH (set_wills s2 (adel id (st_wills s2)))).
  destruct (tick_will k now r (set_wills s2 (adel id (st_wills s2)))) as [s4 o4]. cbn [fst] in *.
  eapply same_keys_trans; [exact E1|]. eapply same_keys_trans; [exact E2|].
  eapply same_keys_trans; [apply same_keys_set_wills|exact IH].
Qed.

Lemma reading_wf s c o : wf s -> reading s c = Some o ->
  get_obj c (st_objs s) = Some o /\ o_open o = true /\ aget (o_id o) (st_clients s) = Some c.
Proof.
  intros W R. apply reading_obj in R. destruct R as [G OO]. destruct (wf_open s W c o G OO) as (A & _). auto.
Qed.

Lemma do_disconnect_wf k c now rc sei s : wf s -> wf (fst (do_disconnect k c now rc sei s)).
Proof.
  intro W. unfold do_disconnect. destruct (reading s c) as [o|] eqn:R; [|exact W].
  destruct (reading_wf s c o W R) as (G & OO & A). pose proof (get_obj_conn _ _ _ G) as EC.
  destruct (match sei with Some v => (0 <? v) && (o_sei o =? 0) | None => false end).
  - pose proof (disconnect_client_wf now c 130 s W) as W1.
    destruct (disconnect_client_keeps now c 130 s) as (C1 & K1).
    destruct (disconnect_client now c 130 s) as [s1 o1]. cbn [fst] in *.
    pose proof (handler_tail_wf k now c true s1 W1) as HT.
    destruct (handler_tail k now c true s1) as [s2 o2]. cbn [fst] in *. apply HT.
    intros x Gx. destruct (K1 c o G) as (o' & G' & I' & T' & _). rewrite G' in Gx. inversion Gx; subst x.
    split; [intros _; rewrite C1, I'; exact A|discriminate].
  - set (o' := match sei with Some v => with_sei o (if k_maxsei k <? v then k_maxsei k else v) true | None => o end).
    assert (C' : o_conn o' = c) by (subst o'; destruct sei; cbn; exact EC).
    assert (K' : okey o' = okey o) by (subst o'; destruct sei; reflexivity).
    assert (SK : same_keys s (upd_obj s o')) by (apply same_keys_upd with (o0 := o); [rewrite C'; exact G|exact K']).
    pose proof (wf_same_keys _ _ SK W) as W1.
    assert (G1 : get_obj c (st_objs (upd_obj s o')) = Some o') by (unfold upd_obj; cbn; rewrite <- C'; apply get_put_same).
    unfold okey in K'. inversion K' as [[KI KT KO KP KD]].
    destruct (negb (rc =? 0)).
    + pose proof (handler_tail_wf k now c true (upd_obj s o') W1) as HT.
      destruct (handler_tail k now c true (upd_obj s o')) as [s2 o2]. cbn [fst] in *. apply HT.
      intros x Gx. rewrite G1 in Gx. inversion Gx; subst x. split; [intros _; cbn; rewrite KI; exact A|discriminate].
    + set (s2 := set_wills (upd_obj s o') (adel (o_id o') (st_wills (upd_obj s o')))).
      assert (W2 : wf s2) by (apply (wf_same_keys _ _ (same_keys_set_wills _ _) W1)).
      assert (G2 : get_obj c (st_objs s2) = Some o') by exact G1.
      pose proof (wf_stop s2 c o' now W2 G2) as W3.
      pose proof (handler_tail_wf k now c false (upd_obj s2 (stopped o' now)) W3) as HT.
      destruct (handler_tail k now c false (upd_obj s2 (stopped o' now))) as [s4 o4]. cbn [fst] in *. apply HT.
      intros x Gx. unfold upd_obj in Gx. cbn in Gx.
      pose proof (get_put_same (stopped o' now) (put_obj o' (st_objs s))) as GP. rewrite stopped_conn, C' in GP.
      rewrite GP in Gx. inversion Gx; subst x. destruct (stopped_fields o' now) as (SI & ST & _).
      split; [intros _; rewrite SI, KI; exact A|intros _; apply stopped_open].
Qed.

Lemma do_netclose_wf k c now s : wf s -> wf (fst (do_netclose k c now s)).
Proof.
  intro W. unfold do_netclose. destruct (reading s c) as [o|] eqn:R; [|exact W].
  destruct (reading_wf s c o W R) as (G & OO & A).
  apply handler_tail_wf; [exact W|]. intros x Gx. rewrite G in Gx. inversion Gx; subst. split; [auto|discriminate].
Qed.

Lemma do_teardown_wf k c now s : wf s -> wf (fst (do_teardown k c now s)).
Proof.
  intro W. unfold do_teardown. destruct (get_obj c (st_objs s)) as [o|] eqn:G; [|exact W].
  destruct (o_phase o) eqn:PH; try exact W.
  apply handler_tail_wf; [exact W|]. intros x Gx. rewrite G in Gx. inversion Gx; subst x.
  destruct (wf_held s W c o G PH) as [T _]. split; [congruence|discriminate].
Qed.

Lemma do_second_connect_wf k c now s : wf s -> wf (fst (do_second_connect k c now s)).
Proof.
  intro W. unfold do_second_connect. destruct (reading s c) as [o|] eqn:R; [|exact W].
  destruct (reading_wf s c o W R) as (G & OO & A).
  pose proof (send_lwt_same_keys k now c s) as SK. destruct (send_lwt k now c s) as [s1 o1]. cbn [fst] in *.
  pose proof (wf_same_keys _ _ SK W) as W1.
  destruct (same_keys_obj' _ _ _ _ SK G) as (oa & Ga & EKa). unfold okey in EKa. inversion EKa as [[AI AT AO AP AD]].
  assert (CL1 : st_clients s1 = st_clients s) by (destruct SK as (_ & E & _); exact E).
  assert (B : wf (fst (if o_ver o =? 5 then disconnect_client now c 130 s1 else (s1, []))) /\
              st_clients (fst (if o_ver o =? 5 then disconnect_client now c 130 s1 else (s1, []))) = st_clients s1 /\
              exists ob, get_obj c (st_objs (fst (if o_ver o =? 5 then disconnect_client now c 130 s1 else (s1, [])))) = Some ob /\
                         o_id ob = o_id oa).
  { destruct (o_ver o =? 5).
    - split; [apply disconnect_client_wf, W1|]. destruct (disconnect_client_keeps now c 130 s1) as (C1 & K1).
      split; [exact C1|]. destruct (K1 c oa Ga) as (ob & Gb & Ib & _). exists ob. auto.
    - cbn [fst]. split; [exact W1|]. split; [reflexivity|]. exists oa. auto. }
  destruct (if o_ver o =? 5 then disconnect_client now c 130 s1 else (s1, [])) as [s2 o2]. cbn [fst] in B.
  destruct B as (W2 & CL2 & ob & Gb & Ib).
  pose proof (handler_tail_wf k now c true s2 W2) as HT.
  destruct (handler_tail k now c true s2) as [s3 o3]. cbn [fst] in *. apply HT.
  intros x Gx. rewrite Gb in Gx. inversion Gx; subst x. split; [intros _; rewrite CL2, CL1, Ib, <- AI; exact A|discriminate].
Qed.

Lemma tick_clients_wf k now l : forall s, wf s -> NoDup (map fst l) -> (forall id c, In (id, c) l -> In (id, c) (st_clients s)) ->
  wf (fst (tick_clients k now l s)).
Proof.
  induction l as [|[id c] r IH]; intros s W ND IN; cbn [tick_clients]; [exact W|].
  inversion ND as [|? ? NI ND']; subst.
  assert (INr : forall id' c', In (id', c') r -> In (id', c') (st_clients s)) by (intros; apply IN; right; assumption).
  destruct (get_obj c (st_objs s)) as [o|] eqn:G; [|apply IH; assumption].
  destruct (o_disc o =? 0)%Z eqn:DZ; [apply IH; assumption|].
  match goal with |- context [if (?a <? now)%Z then _ else _] => destruct (a <? now)%Z end; [|apply IH; assumption].
  set (sa := unsubscribe_client c (clear_inflights c s)).
  assert (SKa : same_keys s sa) by (eapply same_keys_trans; [apply clear_inflights_same_keys|apply unsubscribe_client_same_keys]).
  pose proof (wf_same_keys _ _ SKa W) as Wa.
  assert (CA : st_clients sa = st_clients s) by (destruct SKa as (_ & E & _); exact E).
  assert (W2 : wf (set_clients sa (adel id (st_clients sa)))).
  { apply wf_adel; [exact Wa|]. intros c2 o2 G2 OO2 EQ.
    destruct (wf_open sa Wa c2 o2 G2 OO2) as (A & _ & D2). rewrite EQ, CA in A.
    rewrite (in_aget_nodup id c (st_clients s) (wf_nodup s W) (IN id c (or_introl eq_refl))) in A. inversion A; subst c2.
    destruct (same_keys_obj _ _ _ _ SKa G2) as (ob & Gb & EK). rewrite G in Gb. inversion Gb; subst ob.
    unfold okey in EK. inversion EK. apply Z.eqb_neq in DZ. congruence. }
  specialize (IH (set_clients sa (adel id (st_clients sa))) W2 ND').
  destruct (tick_clients k now r (set_clients sa (adel id (st_clients sa)))) as [s3 outs]. cbn [fst] in *. apply IH.
  intros id' c' I. cbn. rewrite CA. unfold adel. apply filter_In. split; [apply INr, I|].
  cbn. destruct (beq_bytes id' id) eqn:E; [|reflexivity]. apply bb_eq in E. subst id'.
  exfalso. apply NI. apply (in_map fst) in I. exact I.
Qed.

Lemma do_subscribe_wf c f q s : wf s -> wf (fst (do_subscribe c f q s)).
Proof.
  intro W. unfold do_subscribe. destruct (reading s c) as [o|] eqn:R; [|exact W].
  destruct (reading_wf s c o W R) as (G & _). cbn [fst].
  apply (wf_same_keys s); [|exact W]. eapply same_keys_trans; [|apply same_keys_set_index].
  apply same_keys_upd with (o0 := o); cbn; [rewrite (get_obj_conn _ _ _ G); exact G|reflexivity].
Qed.

Lemma do_publish_wf k c m s : wf s -> wf (fst (do_publish k c m s)).
Proof.
  intro W. unfold do_publish. destruct (reading s c); [|exact W].
  apply (wf_same_keys s); [|exact W].
  eapply same_keys_trans; [|apply publish_same_keys].
  destruct (m_retain m); [apply retain_msg_same_keys|apply same_keys_refl].
Qed.

(* ---------- attach ---------- *)
(* frame: only the object of connection e may change key fields, and it can only get closed / taken over *)
Definition frame (e : N) (s s' : state) : Prop :=
  st_used s' = st_used s /\ st_clients s' = st_clients s /\
  (forall c, c <> e -> option_map okey (get_obj c (st_objs s')) = option_map okey (get_obj c (st_objs s))) /\
  (forall o, get_obj e (st_objs s) = Some o ->
     exists o', get_obj e (st_objs s') = Some o' /\ o_id o' = o_id o /\
                (o_open o' = true -> o_open o = true) /\ (o_tko o = true -> o_tko o' = true)) /\
  (get_obj e (st_objs s) = None -> get_obj e (st_objs s') = None).

Lemma frame_refl e s : frame e s s.
Proof. repeat split; auto. intros o G. exists o. auto. Qed.

Lemma frame_trans e a b c : frame e a b -> frame e b c -> frame e a c.
Proof.
  intros (U1 & C1 & K1 & O1 & N1) (U2 & C2 & K2 & O2 & N2). split; [congruence|split; [congruence|split; [|split]]].
  - intros x NE. rewrite (K2 x NE). apply K1, NE.
  - intros o G. destruct (O1 o G) as (o1 & G1 & I1 & P1 & T1). destruct (O2 o1 G1) as (o2 & G2 & I2 & P2 & T2).
    exists o2. repeat split; auto; congruence.
  - intro G. apply N2, N1, G.
Qed.

Lemma same_keys_frame e s s' : same_keys s s' -> frame e s s'.
Proof.
  intros (U & C & K). split; [exact U|split; [exact C|split; [|split]]].
  - intros c _. apply K.
  - intros o G. specialize (K e). rewrite G in K. cbn in K. destruct (get_obj e (st_objs s')) as [o'|]; [|discriminate].
    exists o'. unfold okey in K. inversion K. repeat split; congruence.
  - intro G. specialize (K e). rewrite G in K. destruct (get_obj e (st_objs s')); [discriminate|reflexivity].
Qed.

Lemma frame_upd e s o o0 : get_obj e (st_objs s) = Some o0 -> o_conn o = e -> o_id o = o_id o0 ->
  (o_open o = true -> o_open o0 = true) -> (o_tko o0 = true -> o_tko o = true) -> frame e s (upd_obj s o).
Proof.
  intros G C I P T. split; [reflexivity|split; [reflexivity|split; [|split]]].
  - intros c NE. unfold upd_obj. cbn. rewrite get_put_other by congruence. reflexivity.
  - intros o1 G1. rewrite G in G1. inversion G1; subst o1. exists o. unfold upd_obj. cbn. rewrite <- C. rewrite get_put_same. auto.
  - intro GN. congruence.
Qed.

Lemma inherit_frame k now p n s :
  wf s ->
  let '(s1, n1, sp, o1) := inherit k now p n s in
  okey n1 = okey n /\ o_conn n1 = o_conn n /\
  match aget (o_id n) (st_clients s) with
  | None => s1 = s
  | Some e => frame e s s1 /\ exists o', get_obj e (st_objs s1) = Some o' /\ o_open o' = false /\ o_tko o' = true
  end.
Proof.
  intro W. unfold inherit. destruct (aget (o_id n) (st_clients s)) as [e|] eqn:A; [|auto].
  destruct (wf_reg s W _ _ A) as (eo0 & G0 & I0 & T0). rewrite G0.
  pose proof (disconnect_client_keeps now e 142 s) as (C1 & K1).
  pose proof (disconnect_client_wf now e 142 s W) as W1.
  assert (F1 : frame e s (fst (disconnect_client now e 142 s))).
  { split; [|split; [exact C1|split; [|split]]].
    - unfold disconnect_client. rewrite G0. destruct (o_open eo0); reflexivity.
    - intros c NE. destruct (get_obj c (st_objs s)) as [o|] eqn:G.
      + destruct (K1 c o G) as (o' & G' & _ & _ & _ & _ & SAME & _). rewrite G', (SAME NE). reflexivity.
      + unfold disconnect_client. rewrite G0. destruct (o_open eo0); cbn [fst]; [|rewrite G; reflexivity].
        unfold upd_obj. cbn. rewrite get_put_other; [rewrite G; reflexivity|].
        rewrite stopped_conn, (get_obj_conn _ _ _ G0). exact NE.
    - intros o G. destruct (K1 e o G) as (o' & G' & I' & T' & _ & P' & _). exists o'. repeat split; auto. congruence.
    - intro GN. congruence. }
  destruct (K1 e eo0 G0) as (ea & Ga & Ia & Ta & Pa & _ & _ & CLa & _). specialize (CLa eq_refl).
  destruct (disconnect_client now e 142 s) as [s1 o1]. cbn [fst] in *.
  set (s1' := match get_obj e (st_objs s1) with
              | Some x => if (match o_phase x with PhReading => true | _ => false end) && negb (o_open x)
                          then upd_obj s1 (with_phase x PhHeld) else s1
              | None => s1 end).
  assert (F2 : frame e s1 s1' /\ exists eb, get_obj e (st_objs s1') = Some eb /\ o_open eb = false /\ o_tko eb = o_tko ea).
  { subst s1'. rewrite Ga. destruct ((match o_phase ea with PhReading => true | _ => false end) && negb (o_open ea)).
    - split; [apply frame_upd with (o0 := ea); cbn; auto; apply (get_obj_conn _ _ _ Ga)|].
      exists (with_phase ea PhHeld). unfold upd_obj. cbn. rewrite <- (get_obj_conn _ _ _ Ga) at 1.
      change (o_conn ea) with (o_conn (with_phase ea PhHeld)). rewrite get_put_same. auto.
    - split; [apply frame_refl|]. exists ea. auto. }
  destruct F2 as (F2 & eb & Gb & Ob & Tb).
  assert (F12 : frame e s s1') by (eapply frame_trans; eassumption).
  assert (TKO : forall sx x, get_obj e (st_objs sx) = Some x -> o_open x = false ->
                frame e sx (match get_obj e (st_objs sx) with Some y => upd_obj sx (with_tko y) | None => sx end) /\
                exists y, get_obj e (st_objs (match get_obj e (st_objs sx) with Some y => upd_obj sx (with_tko y) | None => sx end)) = Some y /\
                          o_open y = false /\ o_tko y = true).
  { intros sx x Gx Ox. rewrite Gx. split; [apply frame_upd with (o0 := x); cbn; auto; apply (get_obj_conn _ _ _ Gx)|].
    exists (with_tko x). unfold upd_obj. cbn. rewrite <- (get_obj_conn _ _ _ Gx) at 1.
    change (o_conn x) with (o_conn (with_tko x)). rewrite get_put_same. auto. }
  assert (FIN : forall sa sb y, frame e sa sb -> get_obj e (st_objs sa) = Some y -> o_open y = false -> o_tko y = true ->
                exists z, get_obj e (st_objs sb) = Some z /\ o_open z = false /\ o_tko z = true).
  { intros sa sb y (_ & _ & _ & OO & _) Gy Oy Ty. destruct (OO y Gy) as (z & Gz & _ & Pz & Tz). exists z. split; [exact Gz|].
    split; [destruct (o_open z); [rewrite Pz in Oy; [discriminate|reflexivity]|reflexivity]|apply Tz, Ty]. }
  destruct (cp_clean p || (o_clean eo0 && (o_ver eo0 <? 5))).
  - split; [reflexivity|split; [reflexivity|]].
    set (s2 := clear_inflights e (unsubscribe_client e s1')).
    assert (FA : frame e s1' s2).
    { apply same_keys_frame. eapply same_keys_trans; [apply unsubscribe_client_same_keys|apply clear_inflights_same_keys]. }
    destruct FA as (UA & CA & KA & OA & NA). destruct (OA eb Gb) as (ec & Gc & Ic & Pc & Tc).
    assert (Oc : o_open ec = false) by (destruct (o_open ec); [rewrite Pc in Ob; [discriminate|reflexivity]|reflexivity]).
    destruct (TKO s2 ec Gc Oc) as (F3 & y & Gy & Oy & Ty).
    split; [|exists y; auto].
    eapply frame_trans; [exact F12|]. eapply frame_trans; [|exact F3]. repeat split; auto.
  - split; [reflexivity|split; [reflexivity|]].
    destruct (TKO s1' eb Gb Ob) as (F3 & y & Gy & Oy & Ty).
    set (s2 := match get_obj e (st_objs s1') with Some x => upd_obj s1' (with_tko x) | None => s1' end) in *.
    match goal with |- frame e s ?sf /\ _ => set (s3 := sf) end.
    assert (F4 : frame e s2 s3).
    { subst s3. apply same_keys_frame. eapply same_keys_trans; [apply same_keys_set_index|].
      eapply same_keys_trans; [apply unsubscribe_client_same_keys|apply clear_inflights_same_keys]. }
    split; [eapply frame_trans; [exact F12|]; eapply frame_trans; eassumption|].
    apply (FIN s2 s3 y F4 Gy Oy Ty).
Qed.

Lemma wf_set_used s c : wf s -> wf (set_used s (c :: st_used s)).
Proof.
  intros [U ND R O H]. split; auto. intros c' Hc. rewrite hasobj_set_used in Hc. apply U in Hc.
  rewrite used_cons, Hc. apply orb_true_r.
Qed.

Lemma attach_wf k c now p a e s :
  wf s -> hasobj s c = false -> memN c (st_used s) = true -> wf (fst (attach k c now p a e s)).
Proof.
  intros W HN CU. unfold attach.
  destruct (cp_trunc p); [exact W|].
  destruct (negb (validate_connect k p =? 0)); [exact W|].
  destruct (negb a); [exact W|].
  pose proof (inherit_frame k now p (parse_connect c p e) s W) as IF.
  destruct (inherit k now p (parse_connect c p e) s) as [[[s1 n1] sp] o1].
  destruct IF as (KN & CN & IF). cbn in CN.
  set (n2 := if k_maxsei k <? o_sei n1 then with_sei n1 (k_maxsei k) true else n1).
  assert (K2 : okey n2 = okey (parse_connect c p e) /\ o_conn n2 = c).
  { subst n2. destruct (k_maxsei k <? o_sei n1); cbn; split; auto. }
  destruct K2 as [K2 C2]. unfold okey in K2. cbn in K2. inversion K2 as [[NI NT NO NP ND]].
  cbn [fst]. change (o_id (parse_connect c p e)) with e in IF.
  assert (GN2 : forall l, get_obj c (put_obj n2 l) = Some n2) by (intro l; rewrite <- C2; apply get_put_same).
  (* facts about s1 relative to s *)
  assert (S1 : st_used s1 = st_used s /\ st_clients s1 = st_clients s /\ hasobj s1 c = false /\
               (forall c' o', get_obj c' (st_objs s1) = Some o' ->
                  exists o, get_obj c' (st_objs s) = Some o /\ o_id o' = o_id o /\
                    (aget e (st_clients s) <> Some c' -> okey o' = okey o) /\
                    (aget e (st_clients s) = Some c' -> o_open o' = false /\ o_tko o' = true)) /\
               (forall c' o, get_obj c' (st_objs s) = Some o -> exists o', get_obj c' (st_objs s1) = Some o')).
  { destruct (aget e (st_clients s)) as [ec|] eqn:A.
    - destruct IF as ((U1 & C1 & K1 & O1 & N1) & o' & Go' & Oo' & To').
      assert (NEC : c <> ec).
      { intro EQ. subst ec. destruct (wf_reg s W _ _ A) as (x & Gx & _). unfold hasobj in HN. rewrite Gx in HN. discriminate. }
      split; [exact U1|split; [exact C1|split; [|split]]].
      + unfold hasobj in *. specialize (K1 c NEC). destruct (get_obj c (st_objs s)); [discriminate|].
        destruct (get_obj c (st_objs s1)); [discriminate|reflexivity].
      + intros c' ox Gx. destruct (N.eq_dec c' ec) as [->|NE].
        * destruct (get_obj ec (st_objs s)) as [o|] eqn:G; [|rewrite (N1 eq_refl) in Gx; discriminate].
          destruct (O1 o eq_refl) as (oy & Gy & Iy & _). rewrite Gy in Gx. inversion Gx; subst oy.
          exists o. split; [reflexivity|split; [exact Iy|split; [congruence|]]].
          intros _. rewrite Go' in Gy. inversion Gy; subst. auto.
        * specialize (K1 c' NE). rewrite Gx in K1. cbn in K1. destruct (get_obj c' (st_objs s)) as [o|]; [|discriminate].
          exists o. cbn in K1. inversion K1 as [KK]. unfold okey in KK. inversion KK.
          split; [reflexivity|split; [congruence|split; [intros _; unfold okey; congruence|]]]. intro EQ. inversion EQ. congruence.
      + intros c' o G. destruct (N.eq_dec c' ec) as [->|NE].
        * destruct (O1 o G) as (oy & Gy & _). exists oy. exact Gy.
        * specialize (K1 c' NE). rewrite G in K1. destruct (get_obj c' (st_objs s1)) as [oy|]; [exists oy; reflexivity|discriminate].
    - subst s1. split; [reflexivity|split; [reflexivity|split; [exact HN|split]]].
      + intros c' o' G. exists o'. split; [exact G|split; [reflexivity|split; [reflexivity|discriminate]]].
      + intros c' o G. exists o. exact G. }
  destruct S1 as (U1 & C1 & HN1 & BACK & FWD).
  destruct W as [WU WN WR WO WH].
  match goal with |- wf ?sf => set (sF := sf) end.
  assert (PU : st_used sF = st_used s1) by reflexivity.
  assert (PC : st_clients sF = aset (o_id n2) c (st_clients s1)) by reflexivity.
  assert (PO : st_objs sF = put_obj n2 (st_objs s1)) by reflexivity.
  split.
  - intros c' Hc. rewrite PU, U1. unfold hasobj in Hc. rewrite PO in Hc. destruct (N.eq_dec c' c) as [->|NE]; [exact CU|].
    rewrite <- C2 in NE. rewrite get_put_other in Hc by exact NE.
    destruct (get_obj c' (st_objs s1)) as [o'|] eqn:G; [|discriminate]. destruct (BACK c' o' G) as (o & G0 & _).
    apply WU. unfold hasobj. rewrite G0. reflexivity.
  - rewrite PC, NI, C1. apply nodup_aset, WN.
  - intros id c' A. rewrite PC, NI, C1 in A. rewrite PO. destruct (bb_dec id e) as [->|NE].
    + rewrite aget_aset_same in A. inversion A; subst c'. exists n2. rewrite GN2. auto.
    + rewrite aget_aset_other in A by exact NE. destruct (WR id c' A) as (o & G & I & T).
      assert (NC : c' <> c) by (intro EQ; subst c'; unfold hasobj in HN; rewrite G in HN; discriminate).
      rewrite <- C2 in NC. rewrite get_put_other by exact NC.
      destruct (FWD c' o G) as (o' & G'). exists o'. split; [exact G'|].
      destruct (BACK c' o' G') as (o2 & G2 & I2 & SAME & _). rewrite G in G2. inversion G2; subst o2.
      assert (NA : aget e (st_clients s) <> Some c').
      { intro AE. destruct (WR e c' AE) as (o3 & G3 & I3 & _). rewrite G in G3. inversion G3; subst o3. congruence. }
      specialize (SAME NA). unfold okey in SAME. inversion SAME. split; congruence.
  - intros c' o' G OO. rewrite PO in G. rewrite PC, NI, C1. destruct (N.eq_dec c' c) as [->|NE].
    + rewrite GN2 in G. inversion G; subst o'. rewrite NI, aget_aset_same. auto.
    + rewrite <- C2 in NE. rewrite get_put_other in G by exact NE.
      destruct (BACK c' o' G) as (o & G0 & I0 & SAME & TKN).
      assert (NA : aget e (st_clients s) <> Some c').
      { intro AE. destruct (TKN AE) as [CL _]. congruence. }
      specialize (SAME NA). unfold okey in SAME. inversion SAME as [[SI ST SO SP SD]].
      destruct (WO c' o G0) as (A & B & D); [congruence|].
      assert (NEID : o_id o' <> e).
      { intro EQ. rewrite SI in EQ. rewrite EQ in A. contradiction. }
      rewrite aget_aset_other by exact NEID. rewrite SI, SP, SD. auto.
  - intros c' o' G PH. rewrite PO in G. destruct (N.eq_dec c' c) as [->|NE].
    + rewrite GN2 in G. inversion G; subst o'. rewrite NP in PH. discriminate.
    + rewrite <- C2 in NE. rewrite get_put_other in G by exact NE.
      destruct (BACK c' o' G) as (o & G0 & I0 & SAME & TKN).
      destruct (aget e (st_clients s)) as [ec|] eqn:A.
      * destruct (N.eq_dec c' ec) as [->|NE2].
        -- destruct (TKN eq_refl). auto.
        -- assert (NA : Some ec <> Some c') by congruence. specialize (SAME NA). unfold okey in SAME. inversion SAME.
           destruct (WH c' o G0) as (T & OP); [congruence|]. split; congruence.
      * assert (NA : None <> Some c') by discriminate. specialize (SAME NA). unfold okey in SAME. inversion SAME.
        destruct (WH c' o G0) as (T & OP); [congruence|]. split; congruence.
Qed.

Theorem step_wf k s o : wf s -> wf (fst (step k s o)).
Proof.
  intro W. destruct o; cbn [step].
  - destruct (memN c (st_used s)) eqn:M; [exact W|].
    apply attach_wf; [apply wf_set_used, W| |rewrite used_cons, N.eqb_refl; reflexivity].
    rewrite hasobj_set_used. destruct (hasobj s c) eqn:H; [apply (wf_used s W) in H; congruence|reflexivity].
  - destruct (memN c (st_used s)); [exact W|]. cbn [fst]. apply wf_set_used, W.
  - apply do_disconnect_wf, W.
  - apply do_netclose_wf, W.
  - apply do_teardown_wf, W.
  - apply tick_clients_wf; [exact W|apply (wf_nodup s W)|auto].
  - apply (wf_same_keys s); [apply tick_will_same_keys|exact W].
  - apply do_subscribe_wf, W.
  - apply do_publish_wf, W.
  - apply do_second_connect_wf, W.
Qed.

(* ---------- the topic index belongs to the registered sessions ---------- *)
Definition ixinv (s : state) : Prop :=
  forall id f q, In (id, f, q) (st_index s) ->
    exists c o, aget id (st_clients s) = Some c /\ get_obj c (st_objs s) = Some o /\ In f (map fst (o_subs o)).

(* states that agree on Clients, the index and the subscriptions of every object *)
Definition same_subs (s s' : state) : Prop :=
  st_clients s' = st_clients s /\ st_index s' = st_index s /\
  forall c, option_map o_subs (get_obj c (st_objs s')) = option_map o_subs (get_obj c (st_objs s)).

Lemma same_subs_refl s : same_subs s s.
Proof. repeat split. Qed.
Lemma same_subs_trans a b c : same_subs a b -> same_subs b c -> same_subs a c.
Proof. intros (C1 & I1 & K1) (C2 & I2 & K2). split; [congruence|split; [congruence|]]. intro x. rewrite K2. apply K1. Qed.

Lemma ixinv_same_subs s s' : same_subs s s' -> ixinv s -> ixinv s'.
Proof.
  intros (C & I & K) X id f q IN. rewrite I in IN. destruct (X id f q IN) as (c & o & A & G & F).
  specialize (K c). rewrite G in K. cbn in K. destruct (get_obj c (st_objs s')) as [o'|] eqn:G'; [|discriminate].
  exists c, o'. rewrite C. cbn in K. inversion K as [KK]. rewrite KK. auto.
Qed.

Lemma same_subs_upd s o o0 : get_obj (o_conn o) (st_objs s) = Some o0 -> o_subs o = o_subs o0 -> same_subs s (upd_obj s o).
Proof.
  intros G E. repeat split. intro c. unfold upd_obj. cbn. destruct (N.eq_dec c (o_conn o)) as [->|N].
  - rewrite get_put_same, G. cbn. congruence.
  - rewrite get_put_other by exact N. reflexivity.
Qed.

Lemma same_subs_obj' s s' c o : same_subs s s' -> get_obj c (st_objs s) = Some o ->
  exists o', get_obj c (st_objs s') = Some o' /\ o_subs o' = o_subs o.
Proof.
  intros (_ & _ & K) G. specialize (K c). rewrite G in K. cbn in K.
  destruct (get_obj c (st_objs s')) as [o'|]; [|discriminate]. exists o'. split; [reflexivity|]. cbn in K. congruence.
Qed.

Lemma deliver_same_subs k m ix : forall s, same_subs s (fst (deliver k m ix s)).
Proof.
  induction ix as [|[[id f] q] r IH]; intro s; cbn [deliver]; [apply same_subs_refl|].
  destruct (beq_bytes f (m_topic m)); [|apply IH].
  destruct (client_of s id) as [o|] eqn:C; [|apply IH].
  pose proof (client_of_obj _ _ _ C) as G.
  match goal with |- context [upd_obj s ?o'] => set (oo := o') end.
  assert (E1 : same_subs s (upd_obj s oo)).
  { apply same_subs_upd with (o0 := o); subst oo; destruct (0 <? _); cbn; auto. }
  specialize (IH (upd_obj s oo)). destruct (deliver k m r (upd_obj s oo)) as [s'' outs]. cbn [fst] in *.
  eapply same_subs_trans; eassumption.
Qed.

Lemma retain_msg_same_subs k m s : same_subs s (retain_msg k m s).
Proof. unfold retain_msg. destruct (k_retain k); [|apply same_subs_refl]. destruct (m_payload m); repeat split. Qed.

Lemma send_lwt_same_subs k now c s : same_subs s (fst (send_lwt k now c s)).
Proof.
  unfold send_lwt. destruct (get_obj c (st_objs s)) as [o|] eqn:G; [|apply same_subs_refl].
  destruct (w_flag (o_will o)); cbn [negb]; [|apply same_subs_refl].
  destruct (0 <? w_delay (o_will o)); [repeat split|].
  set (s1 := if w_retain (o_will o) then retain_msg k (will_msg (o_will o)) s else s).
  assert (E1 : same_subs s s1) by (subst s1; destruct (w_retain (o_will o)); [apply retain_msg_same_subs|apply same_subs_refl]).
  pose proof (deliver_same_subs k (will_msg (o_will o)) (st_index s1) s1) as E2. unfold publish.
  destruct (deliver k (will_msg (o_will o)) (st_index s1) s1) as [s2 outs]. cbn [fst] in *.
  assert (E12 : same_subs s s2) by (eapply same_subs_trans; eassumption).
  destruct (same_subs_obj' _ _ _ _ E12 G) as (o2 & G2 & EK). rewrite G2.
  eapply same_subs_trans; [exact E12|]. apply same_subs_upd with (o0 := o2); cbn; [rewrite (get_obj_conn _ _ _ G2); exact G2|reflexivity].
Qed.

Lemma clear_inflights_same_subs c s : same_subs s (clear_inflights c s).
Proof.
  unfold clear_inflights. destruct (get_obj c (st_objs s)) as [o|] eqn:G; [|apply same_subs_refl].
  apply same_subs_upd with (o0 := o); cbn; [rewrite (get_obj_conn _ _ _ G); exact G|reflexivity].
Qed.

Lemma stopped_subs o now : o_subs (stopped o now) = o_subs o.
Proof. unfold stopped. destruct (o_open o); reflexivity. Qed.

Lemma disconnect_client_same_subs now c code s : same_subs s (fst (disconnect_client now c code s)).
Proof.
  unfold disconnect_client. destruct (get_obj c (st_objs s)) as [o|] eqn:G; [|apply same_subs_refl].
  destruct (o_open o); [|apply same_subs_refl]. cbn [fst].
  apply same_subs_upd with (o0 := o); [rewrite stopped_conn, (get_obj_conn _ _ _ G); exact G|apply stopped_subs].
Qed.

Lemma tick_will_same_subs k now l : forall s, same_subs s (fst (tick_will k now l s)).
Proof.
  induction l as [|[id d] r IH]; intro s; cbn [tick_will]; [apply same_subs_refl|].
  destruct (d_due d <? now)%Z; [|apply IH].
  pose proof (deliver_same_subs k (d_msg d) (st_index s) s) as E1. unfold publish.
  destruct (deliver k (d_msg d) (st_index s) s) as [s1 o1]. cbn [fst] in *.
  assert (E2 : same_subs s1 (fst (match client_of s1 id with
                         | Some o => (upd_obj (if m_retain (d_msg d) then retain_msg k (d_msg d) s1 else s1) (with_will o no_will), [OWillSent id])
                         | None => (s1, []) end))).
  { destruct (client_of s1 id) as [o|] eqn:C; [|apply same_subs_refl]. cbn [fst].
    pose proof (client_of_obj _ _ _ C) as G.
    set (s' := if m_retain (d_msg d) then retain_msg k (d_msg d) s1 else s1).
    assert (E' : same_subs s1 s') by (subst s'; destruct (m_retain (d_msg d)); [apply retain_msg_same_subs|apply same_subs_refl]).
    eapply same_subs_trans; [exact E'|].
    destruct (same_subs_obj' _ _ _ _ E' G) as (o' & G' & EK).
    apply same_subs_upd with (o0 := o'); cbn; [exact G'|]. congruence. }
  destruct (match client_of s1 id with
            | Some o => (upd_obj (if m_retain (d_msg d) then retain_msg k (d_msg d) s1 else s1) (with_will o no_will), [OWillSent id])
            | None => (s1, []) end) as [s2 o2]. cbn [fst] in *.
  specialize (IH (set_wills s2 (adel id (st_wills s2)))).
  destruct (tick_will k now r (set_wills s2 (adel id (st_wills s2)))) as [s4 o4]. cbn [fst] in *.
  eapply same_subs_trans; [exact E1|]. eapply same_subs_trans; [exact E2|].
  eapply same_subs_trans; [|exact IH]. repeat split.
Qed.

(* removing a session: after UnsubscribeClient of the registered, not taken-over object of id and
   deleting the Clients entry, the index holds nothing for id *)
Lemma in_ix_del_all id fs l x : In x (ix_del_all id fs l) <-> In x l /\ (fst (fst x) <> id \/ ~ In (snd (fst x)) fs).
Proof.
  unfold ix_del_all. rewrite filter_In. split; intros [I F]; split; auto.
  - apply negb_true_iff in F. apply andb_false_iff in F. destruct F as [F|F].
    + left. intro E. rewrite E, bb_refl in F. discriminate.
    + right. intro IN. unfold memB in F. assert (existsb (beq_bytes (snd (fst x))) fs = true); [|congruence].
      apply existsb_exists. exists (snd (fst x)). split; [exact IN|apply bb_refl].
  - apply negb_true_iff. apply andb_false_iff. destruct F as [F|F].
    + left. apply bb_neq. exact F.
    + right. unfold memB. destruct (existsb _ fs) eqn:E; [|reflexivity]. apply existsb_exists in E.
      destruct E as (y & IY & EY). apply bb_eq in EY. subst. contradiction.
Qed.

Lemma unsubscribe_registered s id c o :
  wf s -> ixinv s -> aget id (st_clients s) = Some c -> get_obj c (st_objs s) = Some o ->
  let s' := unsubscribe_client c s in
  st_clients s' = st_clients s /\
  (forall id' f q, In (id', f, q) (st_index s') -> In (id', f, q) (st_index s) /\ id' <> id) /\
  (forall c', c' <> c -> get_obj c' (st_objs s') = get_obj c' (st_objs s)).
Proof.
  intros W X A G. cbn zeta. unfold unsubscribe_client. rewrite G.
  destruct (wf_reg s W id c A) as (o1 & G1 & I1 & T1). rewrite G in G1. inversion G1; subst o1. rewrite T1.
  pose proof (get_obj_conn _ _ _ G) as EC.
  cbn. split; [reflexivity|split].
  - intros id' f q IN. apply in_ix_del_all in IN. destruct IN as [IN C']. cbn in C'. split; [exact IN|].
    intro E. subst id'. destruct C' as [C'|C']; [congruence|].
    destruct (X id f q IN) as (c2 & o2 & A2 & G2 & F2). rewrite A in A2. inversion A2; subst c2.
    rewrite G in G2. inversion G2; subst o2. contradiction.
  - intros c' NE. rewrite get_put_other; [reflexivity|]. cbn. congruence.
Qed.

Lemma ixinv_remove_session s id c o :
  wf s -> ixinv s -> aget id (st_clients s) = Some c -> get_obj c (st_objs s) = Some o ->
  ixinv (set_clients (unsubscribe_client c (clear_inflights c s))
                     (adel id (st_clients (unsubscribe_client c (clear_inflights c s))))).
Proof.
  intros W X A G.
  set (s0 := clear_inflights c s).
  assert (SS : same_subs s s0) by apply clear_inflights_same_subs.
  assert (SK : same_keys s s0) by apply clear_inflights_same_keys.
  pose proof (wf_same_keys _ _ SK W) as W0. pose proof (ixinv_same_subs _ _ SS X) as X0.
  assert (A0 : aget id (st_clients s0) = Some c) by (destruct SS as (E & _); rewrite E; exact A).
  destruct (same_subs_obj' _ _ _ _ SS G) as (o0 & G0 & _).
  destruct (unsubscribe_registered s0 id c o0 W0 X0 A0 G0) as (C1 & IX & OTH).
  set (s1 := unsubscribe_client c s0) in *.
  intros id' f q IN. cbn in IN. destruct (IX id' f q IN) as (IN0 & NE).
  destruct (X0 id' f q IN0) as (c2 & o2 & A2 & G2 & F2).
  exists c2, o2. cbn. rewrite C1, aget_adel_other by exact NE. split; [exact A2|split; [|exact F2]].
  rewrite OTH; [exact G2|]. intro E. subst c2.
  destruct (wf_reg s0 W0 id' c A2) as (x & Gx & Ix & _). destruct (wf_reg s0 W0 id c A0) as (y & Gy & Iy & _). congruence.
Qed.

Lemma handler_tail_ix k now c err s :
  wf s -> ixinv s ->
  (forall o, get_obj c (st_objs s) = Some o -> (o_tko o = false -> aget (o_id o) (st_clients s) = Some c) /\
                                               (err = false -> o_open o = false)) ->
  ixinv (fst (handler_tail k now c err s)).
Proof.
  intros W X P. unfold handler_tail.
  assert (SK : same_keys s (fst (if err then send_lwt k now c s else (s, [])))).
  { destruct err; [apply send_lwt_same_keys|apply same_keys_refl]. }
  assert (SS : same_subs s (fst (if err then send_lwt k now c s else (s, [])))).
  { destruct err; [apply send_lwt_same_subs|apply same_subs_refl]. }
  destruct (if err then send_lwt k now c s else (s, [])) as [s1 o1]. cbn [fst] in SK, SS.
  pose proof (wf_same_keys _ _ SK W) as W1. pose proof (ixinv_same_subs _ _ SS X) as X1.
  destruct (get_obj c (st_objs s1)) as [o|] eqn:G; [|exact X1]. cbn [fst].
  destruct (same_keys_obj _ _ _ _ SK G) as (o0 & G0 & EK). unfold okey in EK. inversion EK as [[EI ET EO EPH ED]].
  destruct (P o0 G0) as [PR PC].
  pose proof (get_obj_conn _ _ _ G) as EC.
  set (o' := if err then stopped o now else with_will o no_will).
  assert (F' : o_conn o' = c /\ o_id o' = o_id o /\ o_tko o' = o_tko o /\ o_phase o' = o_phase o /\ o_open o' = false /\ o_subs o' = o_subs o).
  { subst o'. destruct err.
    - destruct (stopped_fields o now) as (A & B & D). rewrite stopped_conn, stopped_open, stopped_subs.
      split; [exact EC|split; [exact A|split; [exact B|split; [exact D|split; reflexivity]]]].
    - cbn. split; [exact EC|split; [reflexivity|split; [reflexivity|split; [reflexivity|split; [|reflexivity]]]]].
      rewrite <- EO. apply PC. reflexivity. }
  destruct F' as (C' & I' & T' & PH' & O' & S').
  assert (W2 : wf (upd_obj s1 o')).
  { apply wf_upd_closed with (o := o); auto; [rewrite C'; exact G|].
    rewrite PH'. intro HH. apply (wf_held s1 W1 c o G HH). }
  assert (X2 : ixinv (upd_obj s1 o')).
  { apply (ixinv_same_subs s1); [|exact X1]. apply same_subs_upd with (o0 := o); [rewrite C'; exact G|exact S']. }
  set (s2 := upd_obj s1 o') in *.
  assert (G2 : get_obj c (st_objs s2) = Some o') by (subst s2; unfold upd_obj; cbn; rewrite <- C'; apply get_put_same).
  assert (C2 : st_clients s2 = st_clients s) by (destruct SK as (_ & EC' & _); exact EC').
  set (s3 := if expire_cond o' && negb (o_tko o')
             then set_clients (unsubscribe_client c (clear_inflights c s2)) (adel (o_id o') (st_clients s2)) else s2).
  assert (X3 : ixinv s3).
  { subst s3. destruct (expire_cond o' && negb (o_tko o')) eqn:EX; [|exact X2].
    apply andb_true_iff in EX. destruct EX as [_ NT]. apply negb_true_iff in NT.
    assert (A2 : aget (o_id o') (st_clients s2) = Some c).
    { rewrite C2, I', <- EI. apply PR. congruence. }
    pose proof (ixinv_remove_session s2 (o_id o') c o' W2 X2 A2 G2) as R.
    assert (CE : st_clients (unsubscribe_client c (clear_inflights c s2)) = st_clients s2).
    { pose proof (same_keys_trans _ _ _ (clear_inflights_same_keys c s2) (unsubscribe_client_same_keys c (clear_inflights c s2))) as (_ & E & _). exact E. }
    rewrite CE in R. exact R. }
  destruct (get_obj c (st_objs s3)) as [x|] eqn:G3; [|exact X3].
  apply (ixinv_same_subs s3); [|exact X3].
  apply same_subs_upd with (o0 := x); cbn; [rewrite (get_obj_conn _ _ _ G3); exact G3|reflexivity].
Qed.

Lemma do_disconnect_ix k c now rc sei s : wf s -> ixinv s -> ixinv (fst (do_disconnect k c now rc sei s)).
Proof.
  intros W X. unfold do_disconnect. destruct (reading s c) as [o|] eqn:R; [|exact X].
  destruct (reading_wf s c o W R) as (G & OO & A). pose proof (get_obj_conn _ _ _ G) as EC.
  destruct (match sei with Some v => (0 <? v) && (o_sei o =? 0) | None => false end).
  - pose proof (disconnect_client_wf now c 130 s W) as W1.
    pose proof (ixinv_same_subs _ _ (disconnect_client_same_subs now c 130 s) X) as X1.
    destruct (disconnect_client_keeps now c 130 s) as (C1 & K1).
    destruct (disconnect_client now c 130 s) as [s1 o1]. cbn [fst] in *.
    pose proof (handler_tail_ix k now c true s1 W1 X1) as HT.
    destruct (handler_tail k now c true s1) as [s2 o2]. cbn [fst] in *. apply HT.
    intros x Gx. destruct (K1 c o G) as (o' & G' & I' & T' & _). rewrite G' in Gx. inversion Gx; subst x.
    split; [intros _; rewrite C1, I'; exact A|discriminate].
  - set (o' := match sei with Some v => with_sei o (if k_maxsei k <? v then k_maxsei k else v) true | None => o end).
    assert (C' : o_conn o' = c) by (subst o'; destruct sei; cbn; exact EC).
    assert (K' : okey o' = okey o) by (subst o'; destruct sei; reflexivity).
    assert (S' : o_subs o' = o_subs o) by (subst o'; destruct sei; reflexivity).
    assert (SK : same_keys s (upd_obj s o')) by (apply same_keys_upd with (o0 := o); [rewrite C'; exact G|exact K']).
    assert (SS : same_subs s (upd_obj s o')) by (apply same_subs_upd with (o0 := o); [rewrite C'; exact G|exact S']).
    pose proof (wf_same_keys _ _ SK W) as W1. pose proof (ixinv_same_subs _ _ SS X) as X1.
    assert (G1 : get_obj c (st_objs (upd_obj s o')) = Some o') by (unfold upd_obj; cbn; rewrite <- C'; apply get_put_same).
    unfold okey in K'. inversion K' as [[KI KT KO KP KD]].
    destruct (negb (rc =? 0)).
    + pose proof (handler_tail_ix k now c true (upd_obj s o') W1 X1) as HT.
      destruct (handler_tail k now c true (upd_obj s o')) as [s2 o2]. cbn [fst] in *. apply HT.
      intros x Gx. rewrite G1 in Gx. inversion Gx; subst x. split; [intros _; cbn; rewrite KI; exact A|discriminate].
    + set (s2 := set_wills (upd_obj s o') (adel (o_id o') (st_wills (upd_obj s o')))).
      assert (W2 : wf s2) by (apply (wf_same_keys _ _ (same_keys_set_wills _ _) W1)).
      assert (X2 : ixinv s2) by (apply (ixinv_same_subs (upd_obj s o')); [repeat split|exact X1]).
      assert (G2 : get_obj c (st_objs s2) = Some o') by exact G1.
      pose proof (wf_stop s2 c o' now W2 G2) as W3.
      assert (X3 : ixinv (upd_obj s2 (stopped o' now))).
      { apply (ixinv_same_subs s2); [|exact X2]. apply same_subs_upd with (o0 := o'); [rewrite stopped_conn, C'; exact G2|apply stopped_subs]. }
      pose proof (handler_tail_ix k now c false (upd_obj s2 (stopped o' now)) W3 X3) as HT.
      destruct (handler_tail k now c false (upd_obj s2 (stopped o' now))) as [s4 o4]. cbn [fst] in *. apply HT.
      intros x Gx. unfold upd_obj in Gx. cbn in Gx.
      pose proof (get_put_same (stopped o' now) (put_obj o' (st_objs s))) as GP. rewrite stopped_conn, C' in GP.
      rewrite GP in Gx. inversion Gx; subst x. destruct (stopped_fields o' now) as (SI & ST & _).
      split; [intros _; rewrite SI, KI; exact A|intros _; apply stopped_open].
Qed.

Lemma do_netclose_ix k c now s : wf s -> ixinv s -> ixinv (fst (do_netclose k c now s)).
Proof.
  intros W X. unfold do_netclose. destruct (reading s c) as [o|] eqn:R; [|exact X].
  destruct (reading_wf s c o W R) as (G & OO & A).
  apply handler_tail_ix; [exact W|exact X|]. intros x Gx. rewrite G in Gx. inversion Gx; subst x. split; [auto|discriminate].
Qed.

Lemma do_teardown_ix k c now s : wf s -> ixinv s -> ixinv (fst (do_teardown k c now s)).
Proof.
  intros W X. unfold do_teardown. destruct (get_obj c (st_objs s)) as [o|] eqn:G; [|exact X].
  destruct (o_phase o) eqn:PH; try exact X.
  apply handler_tail_ix; [exact W|exact X|]. intros x Gx. rewrite G in Gx. inversion Gx; subst x.
  destruct (wf_held s W c o G PH) as [T _]. split; [congruence|discriminate].
Qed.

Lemma do_second_connect_ix k c now s : wf s -> ixinv s -> ixinv (fst (do_second_connect k c now s)).
Proof.
  intros W X. unfold do_second_connect. destruct (reading s c) as [o|] eqn:R; [|exact X].
  destruct (reading_wf s c o W R) as (G & OO & A).
  pose proof (send_lwt_same_keys k now c s) as SK. pose proof (send_lwt_same_subs k now c s) as SS.
  destruct (send_lwt k now c s) as [s1 o1]. cbn [fst] in *.
  pose proof (wf_same_keys _ _ SK W) as W1. pose proof (ixinv_same_subs _ _ SS X) as X1.
  destruct (same_keys_obj' _ _ _ _ SK G) as (oa & Ga & EKa). unfold okey in EKa. inversion EKa as [[AI AT AO AP AD]].
  assert (CL1 : st_clients s1 = st_clients s) by (destruct SK as (_ & E & _); exact E).
  assert (B : wf (fst (if o_ver o =? 5 then disconnect_client now c 130 s1 else (s1, []))) /\
              ixinv (fst (if o_ver o =? 5 then disconnect_client now c 130 s1 else (s1, []))) /\
              st_clients (fst (if o_ver o =? 5 then disconnect_client now c 130 s1 else (s1, []))) = st_clients s1 /\
              exists ob, get_obj c (st_objs (fst (if o_ver o =? 5 then disconnect_client now c 130 s1 else (s1, [])))) = Some ob /\
                         o_id ob = o_id oa).
  { destruct (o_ver o =? 5).
    - split; [apply disconnect_client_wf, W1|]. split; [apply (ixinv_same_subs s1); [apply disconnect_client_same_subs|exact X1]|].
      destruct (disconnect_client_keeps now c 130 s1) as (C1 & K1).
      split; [exact C1|]. destruct (K1 c oa Ga) as (ob & Gb & Ib & _). exists ob. auto.
    - cbn [fst]. split; [exact W1|]. split; [exact X1|]. split; [reflexivity|]. exists oa. auto. }
  destruct (if o_ver o =? 5 then disconnect_client now c 130 s1 else (s1, [])) as [s2 o2]. cbn [fst] in B.
  destruct B as (W2 & X2 & CL2 & ob & Gb & Ib).
  pose proof (handler_tail_ix k now c true s2 W2 X2) as HT.
  destruct (handler_tail k now c true s2) as [s3 o3]. cbn [fst] in *. apply HT.
  intros x Gx. rewrite Gb in Gx. inversion Gx; subst x. split; [intros _; rewrite CL2, CL1, Ib, <- AI; exact A|discriminate].
Qed.

Lemma tick_clients_ix k now l : forall s, wf s -> ixinv s -> NoDup (map fst l) ->
  (forall id c, In (id, c) l -> In (id, c) (st_clients s)) -> ixinv (fst (tick_clients k now l s)).
Proof.
  induction l as [|[id c] r IH]; intros s W X ND IN; cbn [tick_clients]; [exact X|].
  inversion ND as [|? ? NI ND']; subst.
  assert (INr : forall id' c', In (id', c') r -> In (id', c') (st_clients s)) by (intros; apply IN; right; assumption).
  destruct (get_obj c (st_objs s)) as [o|] eqn:G; [|apply IH; assumption].
  destruct (o_disc o =? 0)%Z eqn:DZ; [apply IH; assumption|].
  match goal with |- context [if (?a <? now)%Z then _ else _] => destruct (a <? now)%Z end; [|apply IH; assumption].
  assert (A : aget id (st_clients s) = Some c) by (apply in_aget_nodup; [apply (wf_nodup s W)|apply IN; left; reflexivity]).
  pose proof (ixinv_remove_session s id c o W X A G) as X2.
  set (sa := unsubscribe_client c (clear_inflights c s)) in *.
  assert (SKa : same_keys s sa) by (eapply same_keys_trans; [apply clear_inflights_same_keys|apply unsubscribe_client_same_keys]).
  pose proof (wf_same_keys _ _ SKa W) as Wa.
  assert (CA : st_clients sa = st_clients s) by (destruct SKa as (_ & E & _); exact E).
  assert (W2 : wf (set_clients sa (adel id (st_clients sa)))).
  { apply wf_adel; [exact Wa|]. intros c2 o2 G2 OO2 EQ.
    destruct (wf_open sa Wa c2 o2 G2 OO2) as (A2 & _ & D2). rewrite EQ, CA, A in A2. inversion A2; subst c2.
    destruct (same_keys_obj _ _ _ _ SKa G2) as (ob & Gb & EK). rewrite G in Gb. inversion Gb; subst ob.
    unfold okey in EK. inversion EK. apply Z.eqb_neq in DZ. congruence. }
  specialize (IH (set_clients sa (adel id (st_clients sa))) W2 X2 ND').
  destruct (tick_clients k now r (set_clients sa (adel id (st_clients sa)))) as [s3 outs]. cbn [fst] in *. apply IH.
  intros id' c' I. cbn. rewrite CA. unfold adel. apply filter_In. split; [apply INr, I|].
  cbn. destruct (beq_bytes id' id) eqn:E; [|reflexivity]. apply bb_eq in E. subst id'.
  exfalso. apply NI. apply (in_map fst) in I. exact I.
Qed.

Lemma in_ix_del id f l x : In x (ix_del id f l) -> In x l.
Proof. unfold ix_del. intro I. apply filter_In in I. tauto. Qed.

Lemma aset_keys {V} (k : bytes) (v : V) l x : In x (map fst l) -> In x (map fst (aset k v l)).
Proof.
  intro I. unfold aset. rewrite map_app. apply in_or_app. destruct (bb_dec x k) as [->|NE]; [right; left; reflexivity|].
  left. apply in_map_iff in I. destruct I as ([k' v'] & E & I). cbn in E. subst k'.
  apply in_map_iff. exists (x, v'). split; [reflexivity|]. unfold adel. apply filter_In. split; [exact I|].
  cbn. rewrite bb_neq by exact NE. reflexivity.
Qed.

Lemma do_subscribe_ix c f q s : wf s -> ixinv s -> ixinv (fst (do_subscribe c f q s)).
Proof.
  intros W X. unfold do_subscribe. destruct (reading s c) as [o|] eqn:R; [|exact X].
  destruct (reading_wf s c o W R) as (G & OO & A). pose proof (get_obj_conn _ _ _ G) as EC. cbn [fst].
  intros id f' q' IN. cbn in IN. unfold ix_add in IN. apply in_app_or in IN.
  set (o' := with_session o (aset f q (o_subs o)) (o_infl o)).
  assert (GP : get_obj c (put_obj o' (st_objs s)) = Some o').
  { pose proof (get_put_same o' (st_objs s)) as GP. cbn in GP. rewrite EC in GP. exact GP. }
  destruct IN as [IN|[IN|[]]].
  - apply in_ix_del in IN. destruct (X id f' q' IN) as (c2 & o2 & A2 & G2 & F2). cbn.
    destruct (N.eq_dec c2 c) as [E|NE]; [subst c2|].
    + exists c, o'. rewrite G in G2. inversion G2; subst o2. split; [exact A2|split; [exact GP|]]. cbn. apply aset_keys, F2.
    + exists c2, o2. split; [exact A2|split; [|exact F2]]. rewrite get_put_other; [exact G2|]. cbn. congruence.
  - inversion IN; subst id f' q'. exists c, o'. cbn. split; [exact A|split; [exact GP|]]. cbn.
    unfold aset. rewrite map_app. apply in_or_app. right. left. reflexivity.
Qed.

(* ---------- attach and the index ---------- *)
Lemma other_upd s o c' : c' <> o_conn o -> get_obj c' (st_objs (upd_obj s o)) = get_obj c' (st_objs s).
Proof. intro N. unfold upd_obj. cbn. apply get_put_other, N. Qed.

Lemma other_disconnect now e code s c' : c' <> e -> get_obj c' (st_objs (fst (disconnect_client now e code s))) = get_obj c' (st_objs s).
Proof.
  intro N. unfold disconnect_client. destruct (get_obj e (st_objs s)) as [o|] eqn:G; [|reflexivity].
  destruct (o_open o); [|reflexivity]. cbn [fst]. apply other_upd. rewrite stopped_conn, (get_obj_conn _ _ _ G). exact N.
Qed.
Lemma other_unsubscribe e s c' : c' <> e -> get_obj c' (st_objs (unsubscribe_client e s)) = get_obj c' (st_objs s).
Proof.
  intro N. unfold unsubscribe_client. destruct (get_obj e (st_objs s)) as [o|] eqn:G; [|reflexivity].
  destruct (o_tko o); cbn; apply get_put_other; cbn; rewrite (get_obj_conn _ _ _ G); exact N.
Qed.
Lemma other_clear e s c' : c' <> e -> get_obj c' (st_objs (clear_inflights e s)) = get_obj c' (st_objs s).
Proof.
  intro N. unfold clear_inflights. destruct (get_obj e (st_objs s)) as [o|] eqn:G; [|reflexivity].
  apply other_upd. cbn. rewrite (get_obj_conn _ _ _ G). exact N.
Qed.

Lemma in_fold_ix_add e l : forall ix x,
  In x (fold_left (fun ix fq => ix_add e (fst fq) (snd fq) ix) l ix) ->
  In x ix \/ exists fq, In fq l /\ x = (e, fst fq, snd fq).
Proof.
  induction l as [|fq r IH]; intros ix x I; cbn in I; [left; exact I|].
  apply IH in I. destruct I as [I|(fq' & I1 & E)].
  - unfold ix_add in I. apply in_app_or in I. destruct I as [I|[I|[]]].
    + left. apply in_ix_del in I. exact I.
    + right. exists fq. split; [left; reflexivity|congruence].
  - right. exists fq'. split; [right; exact I1|exact E].
Qed.

Lemma ix_clear e s : st_index (clear_inflights e s) = st_index s.
Proof. unfold clear_inflights. destruct (get_obj e (st_objs s)); reflexivity. Qed.
Lemma ix_tko_upd e (z : state) : st_index (match get_obj e (st_objs z) with Some x => upd_obj z (with_tko x) | None => z end) = st_index z.
Proof. destruct (get_obj e (st_objs z)); reflexivity. Qed.
Lemma ix_unsubscribe e s o : get_obj e (st_objs s) = Some o ->
  st_index (unsubscribe_client e s) = if o_tko o then st_index s else ix_del_all (o_id o) (map fst (o_subs o)) (st_index s).
Proof. intro G. unfold unsubscribe_client. rewrite G. destruct (o_tko o); reflexivity. Qed.

Lemma inherit_ix k now p n s :
  wf s -> ixinv s -> o_subs n = [] ->
  let '(s1, n1, sp, o1) := inherit k now p n s in
  (forall id f q, In (id, f, q) (st_index s1) ->
     (id = o_id n /\ In f (map fst (o_subs n1))) \/
     (id <> o_id n /\ exists c2 o2, aget id (st_clients s) = Some c2 /\ get_obj c2 (st_objs s1) = Some o2 /\
                                    In f (map fst (o_subs o2)))) /\
  (sp = false -> o_subs n1 = [] /\ o_infl n1 = o_infl n) /\
  (forall e eo, aget (o_id n) (st_clients s) = Some e -> get_obj e (st_objs s) = Some eo -> sp = true ->
     o_subs n1 = o_subs eo /\ o_infl n1 = o_infl eo /\
     forall f, In f (map fst (o_subs eo)) -> exists q, In (o_id n, f, q) (st_index s1)).
Proof.
  intros W X SN. unfold inherit. destruct (aget (o_id n) (st_clients s)) as [e|] eqn:A.
  2:{ split; [|split; [auto|discriminate]]. intros id f q IN. destruct (X id f q IN) as (c2 & o2 & A2 & G2 & F2).
      right. split; [intro E; subst; congruence|]. exists c2, o2. auto. }
  destruct (wf_reg s W _ _ A) as (eo0 & G0 & I0 & T0). rewrite G0.
  pose proof (get_obj_conn _ _ _ G0) as EC0.
  (* the state after DisconnectClient(existing) and the phase update *)
  set (sd := fst (disconnect_client now e 142 s)).
  assert (Gd : exists ed, get_obj e (st_objs sd) = Some ed /\ o_subs ed = o_subs eo0 /\ o_tko ed = false /\ o_infl ed = o_infl eo0).
  { destruct (disconnect_client_keeps now e 142 s) as (_ & K1). destruct (K1 e eo0 G0) as (ed & Gd & _ & Td & _ & _ & _ & _ & Sd & Id & _).
    exists ed. subst sd. repeat split; auto; congruence. }
  destruct Gd as (ed & Gd & Sd & Td & Fd).
  assert (IXd : st_index sd = st_index s) by (destruct (disconnect_client_same_subs now e 142 s) as (_ & E & _); exact E).
  assert (OTd : forall c', c' <> e -> get_obj c' (st_objs sd) = get_obj c' (st_objs s)) by (intros; apply other_disconnect; assumption).
  replace (disconnect_client now e 142 s) with (sd, snd (disconnect_client now e 142 s)) by (subst sd; destruct (disconnect_client now e 142 s); reflexivity).
  set (s1' := match get_obj e (st_objs sd) with
              | Some x => if (match o_phase x with PhReading => true | _ => false end) && negb (o_open x)
                          then upd_obj sd (with_phase x PhHeld) else sd
              | None => sd end).
  assert (G1 : exists e1, get_obj e (st_objs s1') = Some e1 /\ o_subs e1 = o_subs eo0 /\ o_tko e1 = false /\ o_infl e1 = o_infl eo0 /\ o_id e1 = o_id ed).
  { subst s1'. rewrite Gd. destruct ((match o_phase ed with PhReading => true | _ => false end) && negb (o_open ed)).
    - exists (with_phase ed PhHeld). unfold upd_obj. cbn. pose proof (get_put_same (with_phase ed PhHeld) (st_objs sd)) as GP. cbn in GP.
      rewrite (get_obj_conn _ _ _ Gd) in GP. rewrite GP. auto.
    - exists ed. auto. }
  destruct G1 as (e1 & G1 & S1 & T1 & F1 & I1).
  assert (IX1 : st_index s1' = st_index s).
  { subst s1'. rewrite Gd. destruct ((match o_phase ed with PhReading => true | _ => false end) && negb (o_open ed)); exact IXd. }
  assert (OT1 : forall c', c' <> e -> get_obj c' (st_objs s1') = get_obj c' (st_objs s)).
  { intros c' N. subst s1'. rewrite Gd. destruct ((match o_phase ed with PhReading => true | _ => false end) && negb (o_open ed)); [|apply OTd, N].
    rewrite other_upd; [apply OTd, N|]. cbn. rewrite (get_obj_conn _ _ _ Gd). exact N. }
  assert (OTHER : forall id f q, In (id, f, q) (st_index s) -> id <> o_id n ->
            forall sx, (forall c', c' <> e -> get_obj c' (st_objs sx) = get_obj c' (st_objs s)) ->
            exists c2 o2, aget id (st_clients s) = Some c2 /\ get_obj c2 (st_objs sx) = Some o2 /\ In f (map fst (o_subs o2))).
  { intros id f q IN NE sx OT. destruct (X id f q IN) as (c2 & o2 & A2 & G2 & F2). exists c2, o2. split; [exact A2|split; [|exact F2]].
    rewrite OT; [exact G2|]. intro E. subst c2. destruct (wf_reg s W id e A2) as (y & Gy & Iy & _). rewrite G0 in Gy. inversion Gy; subst y. congruence. }
  cbn [snd]. destruct (cp_clean p || (o_clean eo0 && (o_ver eo0 <? 5))).
  - (* the old session is dropped *)
    split; [|split; [intros _; rewrite SN; auto|discriminate]].
    intros id f q IN.
    match type of IN with In _ (st_index ?sf) => set (sF := sf) in * end.
    assert (IXF : st_index sF = ix_del_all (o_id e1) (map fst (o_subs e1)) (st_index s1')).
    { subst sF. rewrite ix_tko_upd, ix_clear, (ix_unsubscribe e s1' e1 G1), T1. reflexivity. }
    rewrite IXF in IN. apply in_ix_del_all in IN. destruct IN as [IN C']. cbn in C'. rewrite IX1 in IN.
    assert (IE : o_id e1 = o_id n).
    { rewrite I1. destruct (disconnect_client_keeps now e 142 s) as (_ & K1). destruct (K1 e eo0 G0) as (ed' & Gd' & Id' & _).
      subst sd. rewrite Gd in Gd'. inversion Gd'; subst ed'. congruence. }
    destruct (bb_dec id (o_id n)) as [E|NE].
    + exfalso. subst id. destruct C' as [C'|C']; [congruence|].
      destruct (X _ f q IN) as (c2 & o2 & A2 & G2 & F2). rewrite A in A2. inversion A2; subst c2. rewrite G0 in G2. inversion G2; subst o2.
      rewrite S1 in C'. contradiction.
    + right. split; [exact NE|]. apply (OTHER id f q IN NE).
      intros c' N. subst sF.
      match goal with |- get_obj c' (st_objs (match ?g with Some x => upd_obj ?z (with_tko x) | None => _ end)) = _ =>
        destruct g as [x|] eqn:GX end.
      * rewrite other_upd by (cbn; rewrite (get_obj_conn _ _ _ GX); exact N). rewrite other_clear, other_unsubscribe by exact N. apply OT1, N.
      * rewrite other_clear, other_unsubscribe by exact N. apply OT1, N.
  - (* the session is inherited *)
    set (s2 := match get_obj e (st_objs s1') with Some x => upd_obj s1' (with_tko x) | None => s1' end).
    assert (G2 : get_obj e (st_objs s2) = Some (with_tko e1)).
    { subst s2. rewrite G1. unfold upd_obj. cbn. pose proof (get_put_same (with_tko e1) (st_objs s1')) as GP. cbn in GP.
      rewrite (get_obj_conn _ _ _ G1) in GP. exact GP. }
    assert (IX2 : st_index s2 = st_index s) by (subst s2; rewrite G1; exact IX1).
    assert (OT2 : forall c', c' <> e -> get_obj c' (st_objs s2) = get_obj c' (st_objs s)).
    { intros c' N. subst s2. rewrite G1. rewrite other_upd; [apply OT1, N|]. cbn. rewrite (get_obj_conn _ _ _ G1). exact N. }
    set (ixn := fold_left (fun ix fq => ix_add (o_id n) (fst fq) (snd fq) ix) (o_subs eo0) (st_index s2)).
    match goal with |- (forall id f q, In (id, f, q) (st_index ?sf) -> _) /\ _ => set (sF := sf) end.
    assert (IXF : st_index sF = ixn).
    { subst sF. rewrite ix_clear. rewrite (ix_unsubscribe e _ (with_tko e1)); [reflexivity|exact G2]. }
    assert (OTF : forall c', c' <> e -> get_obj c' (st_objs sF) = get_obj c' (st_objs s)).
    { intros c' N. subst sF. rewrite other_clear, other_unsubscribe by exact N. cbn. apply OT2, N. }
    split; [|split; [discriminate|]].
    + intros id f q IN. rewrite IXF in IN. subst ixn. apply in_fold_ix_add in IN. destruct IN as [IN|(fq & IFQ & E)].
      * rewrite IX2 in IN. destruct (bb_dec id (o_id n)) as [E|NE].
        -- left. split; [exact E|]. subst id. destruct (X _ f q IN) as (c2 & o2 & A2 & GG & F2).
           rewrite A in A2. inversion A2; subst c2. rewrite G0 in GG. inversion GG; subst o2. cbn. exact F2.
        -- right. split; [exact NE|]. apply (OTHER id f q IN NE sF OTF).
      * inversion E; subst. left. split; [reflexivity|]. cbn. apply in_map. exact IFQ.
    + intros e' eo' AE GE _. inversion AE; subst e'. rewrite G0 in GE. inversion GE; subst eo'. cbn.
      split; [reflexivity|split; [reflexivity|]].
      intros f F. rewrite IXF. subst ixn. apply in_map_iff in F. destruct F as ([f' q'] & EF & INF). cbn in EF. subst f'.
      clear - INF. revert INF. generalize (st_index s2). induction (o_subs eo0) as [|fq r IH]; intros ix0 INF; [destruct INF|].
      cbn [fold_left]. destruct INF as [->|INF].
      * cbn [fst snd].
        assert (KEEP : forall l ix1, (exists q, In (o_id n, f, q) ix1) -> exists q, In (o_id n, f, q) (fold_left (fun ix fq => ix_add (o_id n) (fst fq) (snd fq) ix) l ix1)).
        { induction l as [|fq l IHl]; intros ix1 (q & IQ); cbn [fold_left]; [exists q; exact IQ|].
          apply IHl. destruct (bb_dec (fst fq) f) as [EF|NF].
          - exists (snd fq). unfold ix_add. apply in_or_app. right. left. rewrite EF. reflexivity.
          - exists q. unfold ix_add. apply in_or_app. left. unfold ix_del. apply filter_In. split; [exact IQ|].
            cbn. rewrite bb_refl. cbn. rewrite (bb_neq f (fst fq)) by congruence. reflexivity. }
        apply KEEP. exists q'. unfold ix_add. apply in_or_app. right. left. reflexivity.
      * apply IH, INF.
Qed.

Lemma ixinv_set_used s x : ixinv s -> ixinv (set_used s x).
Proof. intros X id f q IN. apply (X id f q IN). Qed.

Lemma attach_ix k c now p a e s :
  wf s -> ixinv s -> hasobj s c = false -> ixinv (fst (attach k c now p a e s)).
Proof.
  intros W X HN. unfold attach.
  destruct (cp_trunc p); [exact X|].
  destruct (negb (validate_connect k p =? 0)); [exact X|].
  destruct (negb a); [exact X|].
  pose proof (inherit_ix k now p (parse_connect c p e) s W X eq_refl) as IX.
  pose proof (inherit_frame k now p (parse_connect c p e) s W) as IF.
  destruct (inherit k now p (parse_connect c p e) s) as [[[s1 n1] sp] o1].
  destruct IX as (IX & _). destruct IF as (KN & CN & IF). cbn in CN.
  change (o_id (parse_connect c p e)) with e in *.
  set (n2 := if k_maxsei k <? o_sei n1 then with_sei n1 (k_maxsei k) true else n1).
  assert (K2 : o_id n2 = e /\ o_conn n2 = c /\ o_subs n2 = o_subs n1).
  { unfold okey in KN. cbn in KN. inversion KN. subst n2. destruct (k_maxsei k <? o_sei n1); cbn; auto. }
  destruct K2 as (I2 & C2 & S2). cbn [fst].
  assert (C1 : st_clients s1 = st_clients s /\ hasobj s1 c = false).
  { destruct (aget e (st_clients s)) as [ec|] eqn:A.
    - destruct IF as ((U1 & C1 & K1 & O1 & N1) & _). split; [exact C1|].
      assert (NEC : c <> ec).
      { intro EQ. subst ec. destruct (wf_reg s W _ _ A) as (x & Gx & _). unfold hasobj in HN. rewrite Gx in HN. discriminate. }
      unfold hasobj in *. specialize (K1 c NEC). destruct (get_obj c (st_objs s)); [discriminate|].
      destruct (get_obj c (st_objs s1)); [discriminate|reflexivity].
    - subst s1. auto. }
  destruct C1 as (C1 & HN1).
  intros id f q IN. cbn in IN. cbn. rewrite I2, C1.
  destruct (IX id f q IN) as [(E & F)|(NE & c2 & o2 & A2 & G2 & F2)].
  - subst id. exists c, n2. rewrite aget_aset_same. split; [reflexivity|]. split; [rewrite <- C2; apply get_put_same|].
    rewrite S2. exact F.
  - exists c2, o2. rewrite aget_aset_other by exact NE. split; [exact A2|split; [|exact F2]].
    rewrite get_put_other; [exact G2|]. rewrite C2. intro EQ. subst c2. unfold hasobj in HN1. rewrite G2 in HN1. discriminate.
Qed.

Definition inv (s : state) : Prop := wf s /\ ixinv s.

Lemma inv_init : inv init.
Proof. split; [apply wf_init|]. intros id f q []. Qed.

Theorem step_inv k s o : inv s -> inv (fst (step k s o)).
Proof.
  intros [W X]. split; [apply step_wf, W|].
  destruct o; cbn [step].
  - destruct (memN c (st_used s)) eqn:M; [exact X|].
    apply attach_ix; [apply wf_set_used, W|apply ixinv_set_used, X|].
    rewrite hasobj_set_used. destruct (hasobj s c) eqn:H; [apply (wf_used s W) in H; congruence|reflexivity].
  - destruct (memN c (st_used s)); [exact X|]. cbn [fst]. apply ixinv_set_used, X.
  - apply do_disconnect_ix; assumption.
  - apply do_netclose_ix; assumption.
  - apply do_teardown_ix; assumption.
  - apply tick_clients_ix; auto. apply (wf_nodup s W).
  - apply (ixinv_same_subs s); [apply tick_will_same_subs|exact X].
  - apply do_subscribe_ix; assumption.
  - unfold do_publish. destruct (reading s c); [|exact X].
    apply (ixinv_same_subs s); [|exact X]. eapply same_subs_trans; [|apply deliver_same_subs].
    destruct (m_retain m); [apply retain_msg_same_subs|apply same_subs_refl].
  - apply do_second_connect_ix; assumption.
Qed.
