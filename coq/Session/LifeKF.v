(* C13-C16 — known findings: narrow executable predicates on (history, violation).  Each names the
   triggering condition of one defect of the broker that is kept (not repaired); a violation the
   monitors report is a known finding only if one of these holds for it.  No proofs in this file. *)
From MV Require Import Base.Val Session.Lifecycle Session.LifeSpec.
Open Scope N_scope.

Fixpoint nth_obs (i : nat) (h : list obs) : option obs :=
  match h, i with
  | b :: _, O => Some b
  | _ :: r, S j => nth_obs j r
  | [], _ => None
  end.

(* the CONNECT parameters connection c was opened with *)
Fixpoint params_of (c : N) (h : list obs) : option cparams :=
  match h with
  | [] => None
  | b :: r =>
      match b_op b with
      | OConnect c' _ p _ _ => if c' =? c then Some p else params_of c r
      | _ => params_of c r
      end
  end.

(* connection c is registered under id and open in a snapshot *)
Definition live_in (c : N) (id : bytes) (sn : snap) : bool :=
  match find_client id (sn_clients sn) with Some r => (sc_conn r =? c) && sc_open r | None => false end.

(* the specification's view of connection c: as accepted, then the session expiry update of its
   DISCONNECT (a DISCONNECT counts only while the connection is registered and open) *)
Definition view_step (k : caps) (c : N) (cur : option sconn) (b : obs) : option sconn :=
  match b_op b with
  | OConnect c' _ p _ id =>
      if c' =? c then match success_connack (pkts_to c (b_outs b)) with Some _ => Some (x_new k c p id) | None => cur end
      else cur
  | ODisconnect c' _ _ sei =>
      if c' =? c then
        match cur with
        | Some x => if live_in c (x_id x) (b_pre b)
                    then Some (x_with x (if x_ver x =? 5 then req_after k x sei else x_req x) (x_open x) (x_end x) (x_wst x))
                    else cur
        | None => None end
      else cur
  | _ => cur
  end.
Fixpoint view_of (k : caps) (c : N) (cur : option sconn) (h : list obs) : option sconn :=
  match h with
  | [] => cur
  | b :: r => view_of k c (view_step k c cur b) r
  end.

(* the history up to and including step i *)
Definition upto (i : nat) (h : list obs) : list obs := firstn (S i) h.

(* the delay the broker stores for the will at CONNECT (clients.go ParseConnect) *)
Definition stored_delay (p : cparams) : N :=
  if negb (cp_ver p =? 5) then 0
  else if cp_seiflag p && (cp_sei p <? cp_willdelay p) then cp_sei p else cp_willdelay p.

(* connection c was live (registered and open) when another connection with its identifier was accepted *)
Fixpoint taken_over_live (c : N) (h : list obs) : bool :=
  match h with
  | [] => false
  | b :: r =>
      (match b_op b with
       | OConnect c' _ _ _ id =>
           negb (c' =? c) &&
           match success_connack (pkts_to c' (b_outs b)), find_client id (sn_clients (b_pre b)) with
           | Some _, Some rec => (sc_conn rec =? c) && sc_open rec
           | _, _ => false
           end
       | _ => false end) || taken_over_live c r
  end.

(* C16-1: a connection with a delayed will is taken over while still connected.  Its handler
   registers the delayed will in its teardown, after the new connection's willDelayed.Delete: the
   will fires later although the session was resumed (or, for a clean start, is published late
   instead of at the takeover).  server.go attachClient / sendLWT. *)
Definition late_registrant (c : N) (h : list obs) : bool :=
  taken_over_live c h &&
  match params_of c h with Some p => cp_willflag p && (0 <? stored_delay p) | None => false end.

(* knock-on effect: when such a late-registered will fires, sendDelayedLWT clears the will of the
   client registered under the identifier - the NEW connection - which then ends without a will *)
Fixpoint wiped_by_late (c : N) (id : bytes) (h0 h : list obs) : bool :=
  match h with
  | [] => false
  | b :: r =>
      (match b_op b with
       | OTickWill _ =>
           registered_as c id (b_pre b) &&
           existsb (fun w => negb (fst w =? c) && late_registrant (fst w) h0) (wills_of (b_outs b))
       | _ => false end) || wiped_by_late c id h0 r
  end.

(* second knock-on effect: the late registration overwrites the pending entry of ANOTHER connection
   with the same identifier (the table is keyed by client id): that connection's will is lost *)
Fixpoint will_entry (id : bytes) (l : list (bytes * Z * msg)) : option msg :=
  match l with
  | [] => None
  | e :: r => if beq_bytes (fst (fst e)) id then Some (snd e) else will_entry id r
  end.
Fixpoint overwritten_by_late (c : N) (id : bytes) (h0 h : list obs) : bool :=
  match h with
  | [] => false
  | b :: r =>
      (match b_op b with
       | OTeardown c' _ =>
           negb (c' =? c) && late_registrant c' h0 &&
           match will_entry id (sn_wills (b_pre b)), will_entry id (sn_wills (b_post b)) with
           | Some m1, Some m2 => negb (beq_msg m1 m2)
           | _, _ => false
           end
       | _ => false end) || overwritten_by_late c id h0 r
  end.

Definition KF_C16_takeover_delayed (k : caps) (h : list obs) (v : viol) : bool :=
  (((v_tag v =? V16_missing_takeover) || (v_tag v =? V16_cancelled) || (v_tag v =? V16_once)) &&
   late_registrant (v_conn v) (upto (v_step v) h)) ||
  (((v_tag v =? V16_missing) || (v_tag v =? V16_missing_takeover) || (v_tag v =? V16_late)) &&
   (wiped_by_late (v_conn v) (v_id v) h h || overwritten_by_late (v_conn v) (v_id v) h h)).

(* C16-2: the will delay is larger than the session expiry interval at the end of the connection
   (no Session Expiry property at CONNECT, interval lowered by DISCONNECT, or capped by the server
   maximum after ParseConnect): the will is sent after the full delay instead of when the session
   ends.  clients.go ParseConnect 251-254 / server.go sendLWT; pinned by TestServerSendLWTDelayed. *)
Definition KF_C16_delay_uncapped (k : caps) (h : list obs) (v : viol) : bool :=
  ((v_tag v =? V16_missing) || (v_tag v =? V16_late) || (v_tag v =? V16_once)) &&
  match params_of (v_conn v) (upto (v_step v) h), view_of k (v_conn v) None (upto (v_step v) h) with
  | Some p, Some x => cp_willflag p && (eff k x <? stored_delay p)
  | _, _ => false
  end.

(* C16-6: the same root cause in the other direction.  The stored delay is fixed at CONNECT as
   min(will delay, session expiry of the CONNECT); a DISCONNECT with Will Message (0x04, or another
   reason but 0x00) that RAISES the session expiry does not restore the delay: the will is published
   before min(will delay, session end).  clients.go ParseConnect 251-254 / server.go sendLWT. *)
Definition KF_C16_delay_fixed_at_connect (k : caps) (h : list obs) (v : viol) : bool :=
  (v_tag v =? V16_early) &&
  match params_of (v_conn v) (upto (v_step v) h), view_of k (v_conn v) None (upto (v_step v) h) with
  | Some p, Some x => cp_willflag p && (stored_delay p <? minN (x_delay x) (eff k x))
  | _, _ => false
  end.

(* C16-5: a connection with Clean Start 1 is accepted while a delayed will of the previous session
   is pending: attachClient deletes the entry; the will is never sent although the session ended. *)
Definition KF_C16_clean_reconnect (k : caps) (h : list obs) (v : viol) : bool :=
  (v_tag v =? V16_lost_clean) &&
  match nth_obs (v_step v) h with
  | Some b => match b_op b with OConnect _ _ p _ _ => cp_clean p | _ => false end
  | None => false
  end.

(* C16-3: a delayed retained will is published by sendDelayedLWT when the client record is already
   gone (session expired): it is forwarded but not retained.  server.go sendDelayedLWT. *)
Definition KF_C16_delayed_retain_gone (k : caps) (h : list obs) (v : viol) : bool :=
  (v_tag v =? V16_retain) &&
  match nth_obs (v_step v) h with
  | Some b => match b_op b with
              | OTickWill _ => negb (has_client (v_id v) (sn_clients (b_pre b)))
              | _ => false end
  | None => false
  end.

Definition kf_of (k : caps) (h : list obs) (v : viol) : option bytes :=
  if KF_C16_takeover_delayed k h v then Some (tag "KF_C16_takeover_delayed")
  else if KF_C16_delay_uncapped k h v then Some (tag "KF_C16_delay_uncapped")
  else if KF_C16_delay_fixed_at_connect k h v then Some (tag "KF_C16_delay_fixed_at_connect")
  else if KF_C16_clean_reconnect k h v then Some (tag "KF_C16_clean_reconnect")
  else if KF_C16_delayed_retain_gone k h v then Some (tag "KF_C16_delayed_retain_gone")
  else None.
