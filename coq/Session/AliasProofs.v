(* Proofs for C24: the outbound alias discipline keeps the receiver's table in step with the broker's
   (outside the listed finding), and the inbound resolution is the "last binding on this connection"
   of the specification. *)
From MV Require Import Base.Val Session.Pkt Session.Alias.
From Coq Require Import Lia ZifyBool ZifyN ZifyNat.
Open Scope N_scope.

Lemma beqb_eq (a b : bytes) : beq_bytes a b = true <-> a = b.
Proof.
  revert b; induction a as [|x a IH]; intros [|y b]; cbn; try (split; [discriminate|discriminate]); [tauto|].
  rewrite Bool.andb_true_iff, IH, N.eqb_eq. split; [intros [-> ->]; reflexivity|intros H; injection H; auto].
Qed.

Lemma beqb_refl (a : bytes) : beq_bytes a a = true.
Proof. apply beqb_eq; reflexivity. Qed.

(* ================= outbound ================= *)

(* the receiver knows every binding the broker has recorded *)
Definition sync (t : otab) (rtab : list (N * bytes)) : Prop :=
  (forall topic a, lookup_t topic (o_map t) = Some a -> 0 < a <= o_cursor t /\ lookup_a a rtab = Some topic) /\
  o_cursor t <= o_max t.

Lemma out_step_max t e : o_max (fst (out_step t e)) = o_max t.
Proof.
  destruct e as [topic w|topic]; cbn; [|reflexivity].
  unfold out_set. destruct (o_max t =? 0); [reflexivity|].
  destruct (lookup_t topic (o_map t)); [reflexivity|].
  destruct (o_max t <? o_cursor t + 1); reflexivity.
Qed.

Theorem out_resolvable : forall evs t rtab,
  sync t rtab ->
  Forall (fun e => ev_topic e <> []) evs ->
  out_kf_free t evs = true ->
  recv_ok (o_max t) rtab (out_run t evs) = true.
Proof.
  induction evs as [|e r IH]; intros t rtab S NE KF; [reflexivity|].
  inversion NE as [|? ? NEe NEr]; subst.
  cbn [out_kf_free] in KF. apply Bool.andb_true_iff in KF. destruct KF as [KFe KFr].
  cbn [out_run]. destruct e as [topic w|topic].
  - (* publishToClient reached the queue *)
    cbn [ev_topic] in NEe. cbn [out_step KF_C24_binding_dropped] in *.
    unfold out_set in *. destruct S as [Sm Sc].
    destruct (o_max t =? 0) eqn:M0.
    { destruct w; cbn [app fst] in *.
      - cbn [recv_ok]. rewrite N.eqb_refl. destruct topic; [congruence|]. cbn [is_empty negb andb].
        rewrite beqb_refl. apply (IH t rtab); [split; assumption|assumption|assumption].
      - apply (IH t rtab); [split; assumption|assumption|assumption]. }
    destruct (lookup_t topic (o_map t)) as [i|] eqn:L.
    { destruct (Sm _ _ L) as [Hi Hl].
      destruct w; cbn [app fst] in *.
      - cbn [recv_ok]. replace (0 <? i) with true by lia. cbn [andb is_empty].
        destruct (i =? 0) eqn:I0; [lia|]. rewrite Hl, beqb_refl.
        replace (i <=? o_max t) with true by lia. cbn [andb].
        apply (IH t rtab); [split; assumption|assumption|assumption].
      - apply (IH t rtab); [split; assumption|assumption|assumption]. }
    destruct (o_max t <? o_cursor t + 1) eqn:Full.
    { destruct w; cbn [app fst] in *.
      - cbn [recv_ok]. rewrite N.eqb_refl. destruct topic; [congruence|]. cbn [is_empty negb andb].
        rewrite beqb_refl. apply (IH t rtab); [split; assumption|assumption|assumption].
      - apply (IH t rtab); [split; assumption|assumption|assumption]. }
    (* a new alias *)
    set (a := o_cursor t + 1) in *.
    destruct w; cbn [app fst] in *.
    + cbn [recv_ok]. destruct (a =? 0) eqn:A0; [lia|]. cbn [andb].
      replace (a <=? o_max t) with true by lia.
      rewrite !Bool.andb_false_r.
      destruct topic as [|b0 topic']; [congruence|]. cbn [is_empty andb]. rewrite beqb_refl. cbn [andb].
      set (t' := {| o_max := o_max t; o_map := (b0 :: topic', a) :: o_map t; o_cursor := a |}) in *.
      change (o_max t) with (o_max t'). apply IH; [|assumption|assumption].
      split; [|cbn; lia].
      intros tp x Hx. cbn [t' o_map lookup_t o_cursor] in Hx |- *.
      destruct (beq_bytes (b0 :: topic') tp) eqn:E.
      * injection Hx as <-. apply beqb_eq in E. subst tp. split; [lia|]. cbn [lookup_a]. rewrite N.eqb_refl. reflexivity.
      * destruct (Sm _ _ Hx) as [Hr Hl]. split; [lia|]. cbn [lookup_a].
        destruct (a =? x) eqn:AX; [lia|exact Hl].
    + (* dropped with a new binding: excluded as the known finding *)
      replace (0 <? a) with true in KFe by lia. cbn in KFe. discriminate.
  - (* written from the in-flight store: full topic, no alias *)
    cbn [ev_topic] in NEe. cbn [out_step app fst] in *. cbn [recv_ok]. rewrite N.eqb_refl.
    destruct topic; [congruence|]. cbn [is_empty negb andb]. rewrite beqb_refl.
    apply IH; assumption.
Qed.

Lemma sync_init max : sync (oinit max) [].
Proof. split; [intros topic a H; discriminate|cbn; lia]. Qed.

Theorem out_resolvable_init (max : N) (evs : list oev) :
  Forall (fun e => ev_topic e <> []) evs ->
  out_kf_free (oinit max) evs = true ->
  recv_ok max [] (out_run (oinit max) evs) = true.
Proof. intros NE KF. exact (out_resolvable evs (oinit max) [] (sync_init max) NE KF). Qed.

(* alias values are within the client's maximum, none when it is 0 — also on histories with the finding *)
Lemma out_set_bound t topic :
  o_cursor t <= o_max t -> (forall tp a, lookup_t tp (o_map t) = Some a -> a <= o_cursor t) ->
  let '(a, _, t') := out_set t topic in
  a <= o_max t /\ o_max t' = o_max t /\ o_cursor t' <= o_max t' /\
  (forall tp x, lookup_t tp (o_map t') = Some x -> x <= o_cursor t').
Proof.
  intros Hc Hm. unfold out_set. destruct (o_max t =? 0) eqn:M0; [repeat split; auto; lia|].
  destruct (lookup_t topic (o_map t)) as [i|] eqn:L.
  { repeat split; auto. specialize (Hm _ _ L). lia. }
  destruct (o_max t <? o_cursor t + 1) eqn:F; [repeat split; auto; lia|].
  cbn. repeat split; try lia. intros tp x. destruct (beq_bytes topic tp); [intros H; injection H as <-; lia|].
  intros H. specialize (Hm _ _ H). lia.
Qed.

Theorem out_alias_bounded : forall evs t,
  o_cursor t <= o_max t -> (forall tp a, lookup_t tp (o_map t) = Some a -> a <= o_cursor t) ->
  Forall (fun w : wire => snd w <= o_max t) (out_run t evs).
Proof.
  induction evs as [|e r IH]; intros t Hc Hm; cbn [out_run]; [constructor|].
  destruct e as [topic w|topic]; cbn [out_step].
  - pose proof (out_set_bound t topic Hc Hm) as B. destruct (out_set t topic) as [[a ex] t'].
    destruct B as (Ba & Bm & Bc & Bl). apply Forall_app. split.
    + destruct w; [constructor; [cbn; exact Ba|constructor]|constructor].
    + rewrite <- Bm. apply IH; assumption.
  - cbn [app]. constructor; [cbn; lia|]. apply IH; assumption.
Qed.

(* ================= inbound ================= *)

Lemma lookup_set_a a b t m : lookup_a b (set_a a t m) = if a =? b then Some t else lookup_a b m.
Proof.
  induction m as [|[x u] r IH]; cbn.
  - destruct (a =? b); reflexivity.
  - destruct (x =? a) eqn:XA; cbn.
    + apply N.eqb_eq in XA. subst x. destruct (a =? b); reflexivity.
    + destruct (x =? b) eqn:XB.
      * destruct (a =? b) eqn:AB; [lia|reflexivity].
      * exact IH.
Qed.

Lemma last_binding_nonempty a prev t : last_binding a prev = Some t -> is_empty t = false.
Proof.
  induction prev as [|[tp x] r IH]; cbn; [discriminate|].
  destruct ((x =? a) && negb (is_empty tp)) eqn:E; [|exact IH].
  intros H. injection H as <-. destruct (is_empty tp); [rewrite Bool.andb_false_r in E; discriminate|reflexivity].
Qed.

(* the broker's table is the history's last bindings *)
Definition in_sync (smax : N) (t : itab) (prev : list (bytes * N)) : Prop :=
  i_max t = smax /\ forall a, 0 < a -> lookup_a a (i_map t) = last_binding a prev.

Theorem in_is_spec : forall evs smax t prev,
  in_sync smax t prev -> in_run t evs = spec_run smax prev evs.
Proof.
  induction evs as [|[topic alias] r IH]; intros smax t prev [Hm Hs]; [reflexivity|].
  cbn [in_run spec_run]. unfold in_step, spec_in. rewrite Hm.
  destruct (smax <? alias) eqn:Big; [reflexivity|].
  destruct (is_empty topic) eqn:Et; cbn [andb].
  - destruct (alias =? 0) eqn:A0; [reflexivity|].
    unfold in_set. rewrite Hm. destruct (smax =? 0) eqn:S0; [lia|]. rewrite Et.
    rewrite (Hs alias) by lia.
    destruct (last_binding alias prev) as [x|] eqn:L.
    + rewrite (last_binding_nonempty _ _ _ L). f_equal. apply IH. split; [exact Hm|].
      intros a Ha. cbn [last_binding]. rewrite Et. rewrite Bool.andb_false_r. apply Hs, Ha.
    + reflexivity.
  - destruct (alias =? 0) eqn:A0.
    + f_equal. apply IH. split; [exact Hm|]. intros a Ha. cbn [last_binding].
      replace (alias =? a) with false by lia. cbn [andb]. apply Hs, Ha.
    + unfold in_set. rewrite Hm. destruct (smax =? 0) eqn:S0; [lia|]. rewrite Et, Et. f_equal.
      apply IH. split; [reflexivity|]. intros a Ha. cbn [i_map last_binding]. rewrite lookup_set_a, Et.
      cbn [negb]. rewrite Bool.andb_true_r. destruct (alias =? a); [reflexivity|apply Hs, Ha].
Qed.

Lemma in_sync_init smax : in_sync smax (iinit smax) [].
Proof. split; [reflexivity|intros a _; reflexivity]. Qed.

Theorem in_is_spec_init (smax : N) (evs : list (bytes * N)) :
  in_run (iinit smax) evs = spec_run smax [] evs.
Proof. apply in_is_spec, in_sync_init. Qed.
